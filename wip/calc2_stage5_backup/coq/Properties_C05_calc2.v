(* C05 on the second-generation sender calculus, through a refinement theorem between the two models.
   Calc/CalcDefs.v (module Calc) and Calc/Calc2Defs.v (module Calc2) are each tied to the real library by a
   differential harness; Calc/RefineProofs.v proves that Calc2 restricted to Calc's fragment refines Calc:
   [embed] maps Calc's syntax into Calc2's constructor by constructor, [embed_ev] delivers every script event on
   context 0, [erase] drops from a Calc2 trace what Calc does not have (operation-state destruction TLeafDtor /
   XRootDtor, scheduler / allocator events) and forgets the scheduler / context fields.  Hence every Calc theorem
   about outcomes holds of Calc2 on the common fragment: the denotation theorem C05 (Calc/DenoteProofs.v) and the
   sends_done trait soundness C11 (Calc/TraitsProofs.v) are transferred below. *)
From Coq Require Import ZArith List Bool Arith.
From V Require Import Calc.CalcDefs Calc.Calc2Defs Calc.DenoteDefs Calc.TraitsDefs Calc.RefineProofs.
Import ListNotations.
Local Open Scope Z_scope.

(* for every expression of Calc, every script and both initial stop states: the Calc2 run of the embedded
   expression, erased, IS the Calc run, event by event *)
Theorem C05_calc2_refines_calc : forall e pre script,
  erase (Calc2.r_tr (Calc2.exec (embed e) pre (map embed_ev script))) = Calc.r_tr (Calc.exec e pre script).
Proof. exact refines. Qed.
Print Assumptions C05_calc2_refines_calc.

(* ... with the same number of root completions ... *)
Theorem C05_calc2_refines_root_count : forall e pre script,
  Calc2.r_roots (Calc2.exec (embed e) pre (map embed_ev script)) = Calc.r_roots (Calc.exec e pre script).
Proof. exact refines_root_count. Qed.
Print Assumptions C05_calc2_refines_root_count.

(* ... and literally Calc's root outcomes (erase is not injective on outcomes: this says no OValT / OValK appears) *)
Theorem C05_calc2_refines_roots : forall e pre script,
  xroots2 (Calc2.r_tr (Calc2.exec (embed e) pre (map embed_ev script))) =
  map embed_o (xroots (Calc.r_tr (Calc.exec e pre script))).
Proof. exact refines_roots. Qed.
Print Assumptions C05_calc2_refines_roots.

(* node level: start / stop / leafev of the embedded expression from related states ([sim]: Calc's OFin for a
   completed operation corresponds to Calc2's inert OFin / OLeaf true _ / OCompl _ _) *)
Theorem C05_calc2_refines_start : forall e en en2 cx, env_rel en en2 ->
  forall st tr r, Calc.start e en = (st, tr, r) ->
  exists st2 tr2, Calc2.start (embed e) en2 cx = (st2, tr2, option_map embed_o r) /\
                  sim e st st2 /\ erase_tl tr2 = tr.
Proof. exact start_refines. Qed.
Print Assumptions C05_calc2_refines_start.

Theorem C05_calc2_refines_stop : forall e st st2 cx, sim e st st2 ->
  forall st' tr r, Calc.stop e st = (st', tr, r) ->
  exists st2' tr2, Calc2.stop (embed e) st2 cx = (st2', tr2, option_map embed_o r) /\
                   sim e st' st2' /\ erase_tl tr2 = tr.
Proof. exact stop_refines. Qed.
Print Assumptions C05_calc2_refines_stop.

Theorem C05_calc2_refines_leafev : forall e st st2 id o cx, sim e st st2 ->
  forall st' tr r hit, Calc.leafev e st id o = ((st', tr, r), hit) ->
  exists st2' tr2, Calc2.leafev (embed e) st2 id (embed_o o) cx = ((st2', tr2, option_map embed_o r), hit) /\
                   sim e st' st2' /\ erase_tl tr2 = tr.
Proof. exact leafev_refines. Qed.
Print Assumptions C05_calc2_refines_leafev.

(* C05 for Calc2 on the fragment: the root receiver of the Calc2 run completes iff the denotation says so, exactly
   once, with exactly the denoted outcome *)
Theorem C05_calc2_result : forall e script,
  stop_free script = true -> no_leafn e = true -> NoDup (leaf_ids e) ->
  let rs := Calc2.exec (embed e) false (map embed_ev script) in
  match denote script e [] 0 None with
  | Some (o, t) => (t <= length script)%nat /\ xroots2 (Calc2.r_tr rs) = [embed_o o] /\
                   (exists n cx, In (Calc2.XRoot (embed_o o) n cx) (Calc2.r_tr rs)) /\ Calc2.r_roots rs = 1%nat
  | None => xroots2 (Calc2.r_tr rs) = [] /\ Calc2.r_roots rs = 0%nat
  end.
Proof. exact RefineProofs.C05_calc2_result. Qed.
Print Assumptions C05_calc2_result.

(* C11 (static traits) for Calc2 on the fragment: sends_done = false -> no run completes the root with done *)
Theorem C05_calc2_sends_done : forall e, CalcTraits.sends_done_of e = false ->
  forall pre script o n cx,
  In (Calc2.XRoot o n cx) (Calc2.r_tr (Calc2.exec (embed e) pre (map embed_ev script))) -> o <> Calc2.ODone.
Proof. exact C11_calc2_sends_done. Qed.
Print Assumptions C05_calc2_sends_done.

(* both machines on one expression and script:
   finally (when_all (then l1 throw-if-5) (let_value n2 (then var0 (+10)))) l3, n2 stop-reactive;
   an unknown leaf, l1 produces 5 and its callable throws 77 (when_all stops n2, which completes with done from its
   stop callback; finally destroys when_all's operation and starts l3), a stop request (reaches l3), n2 again
   (finished), a second stop request, cleanup.  Calc2 additionally shows the three leaf destructions where the
   headers perform them and the destruction of the root operation. *)
Example C05_calc2_example :
  let e := Calc.Bin Calc.BFinally
             (Calc.Bin Calc.BWhenAll (Calc.Un (Calc.UThen (Calc.FThrowIf 5 77)) (Calc.Leaf 1))
                (Calc.Bin Calc.BLetV (Calc.LeafN 2) (Calc.Un (Calc.UThen (Calc.FAdd 10)) (Calc.Var 0))))
             (Calc.Leaf 3) in
  let script := [Calc.EvLeaf 9 Calc.ODone; Calc.EvLeaf 1 (Calc.OVal 5); Calc.EvStop; Calc.EvLeaf 2 (Calc.OVal 1);
                 Calc.EvStop; Calc.EvLeaf 3 (Calc.OVal 0)] in
  Calc2.r_tr (Calc2.exec (embed e) false (map embed_ev script)) =
    [Calc2.XT (Calc2.TLeafStart 1 false true 0 0 0 0); Calc2.XT (Calc2.TLeafStart 2 false true 0 0 0 0);
     Calc2.XSkip; Calc2.XT (Calc2.TCall (Calc2.FThrowIf 5 77) 5); Calc2.XT (Calc2.TLeafStop 2);
     Calc2.XT (Calc2.TLeafDtor 1); Calc2.XT (Calc2.TLeafDtor 2);
     Calc2.XT (Calc2.TLeafStart 3 false true 0 0 0 0); Calc2.XT (Calc2.TLeafStop 3); Calc2.XSkip; Calc2.XSkip;
     Calc2.XT (Calc2.TLeafDtor 3); Calc2.XRoot (Calc2.OErr 77) 0 0; Calc2.XRootDtor] /\
  erase (Calc2.r_tr (Calc2.exec (embed e) false (map embed_ev script))) =
    [Calc.XT (Calc.TLeafStart 1 false true 0 0); Calc.XT (Calc.TLeafStart 2 false true 0 0); Calc.XSkip;
     Calc.XT (Calc.TCall (Calc.FThrowIf 5 77) 5); Calc.XT (Calc.TLeafStop 2);
     Calc.XT (Calc.TLeafStart 3 false true 0 0); Calc.XT (Calc.TLeafStop 3); Calc.XSkip; Calc.XSkip;
     Calc.XRoot (Calc.OErr 77) 0] /\
  Calc.r_tr (Calc.exec e false script) =
    [Calc.XT (Calc.TLeafStart 1 false true 0 0); Calc.XT (Calc.TLeafStart 2 false true 0 0); Calc.XSkip;
     Calc.XT (Calc.TCall (Calc.FThrowIf 5 77) 5); Calc.XT (Calc.TLeafStop 2);
     Calc.XT (Calc.TLeafStart 3 false true 0 0); Calc.XT (Calc.TLeafStop 3); Calc.XSkip; Calc.XSkip;
     Calc.XRoot (Calc.OErr 77) 0].
Proof. vm_compute. repeat split; reflexivity. Qed.

(* the hypotheses of C05_calc2_result are met by the worked example of Properties_C05_calc.v, and the Calc2 run
   gives the denoted outcome *)
Example C05_calc2_example_denote :
  (stop_free c05_ex_script1, no_leafn c05_ex_e, leaf_ids c05_ex_e) = (true, true, [1; 2; 3]%nat) /\
  denote c05_ex_script1 c05_ex_e [] 0 None = Some (Calc.OErr 4, 6%nat) /\
  xroots2 (Calc2.r_tr (Calc2.exec (embed c05_ex_e) false (map embed_ev c05_ex_script1))) = [Calc2.OErr 4] /\
  Calc2.r_roots (Calc2.exec (embed c05_ex_e) false (map embed_ev c05_ex_script1)) = 1%nat.
Proof. vm_compute. repeat split; reflexivity. Qed.
