From Coq Require Import ZArith List Bool.
From V Require Import Calc.Calc2Defs Calc.Ctx2Proofs Calc.Stop2Proofs.
Import ListNotations.
Import Calc2.
Local Open Scope Z_scope.

(* contexts never change inside one call: everything a script event causes - leaf starts, the root's
   completion - happens on the context that event is delivered on; start() itself runs on context 0 *)
Theorem C11_calc2_completion_ctx : forall e pre s1 ev,
  exists d, r_tr (run e pre (s1 ++ [ev])) = r_tr (run e pre s1) ++ d /\ Forall (on_ctx (ctx_of ev)) d.
Proof. exact completion_ctx. Qed.
Print Assumptions C11_calc2_completion_ctx.

Theorem C11_calc2_start_on_ctx0 : forall e pre, Forall (on_ctx 0%nat) (r_tr (run e pre [])).
Proof. exact start_on_ctx0. Qed.
Print Assumptions C11_calc2_start_on_ctx0.

Theorem C11_calc2_start_ctx : forall e en cx st tr r id s sp a b sch cx',
  good_env en -> start e en cx = (st, tr, r) -> In (TLeafStart id s sp a b sch cx') tr -> cx' = cx.
Proof. exact start_ctx. Qed.
Print Assumptions C11_calc2_start_ctx.

Theorem C11_calc2_stop_ctx : forall e sm st cx st' tr r id s sp a b sch cx',
  s_sp sm = true -> qwf e sm st -> stop e st cx = (st', tr, r) -> In (TLeafStart id s sp a b sch cx') tr -> cx' = cx.
Proof. exact stop_ctx. Qed.
Print Assumptions C11_calc2_stop_ctx.

Theorem C11_calc2_leafev_ctx : forall e sm st i o cx st' tr r hit id s sp a b sch cx',
  qwf e sm st -> leafev e st i o cx = (st', tr, r, hit) -> In (TLeafStart id s sp a b sch cx') tr -> cx' = cx.
Proof. exact leafev_ctx. Qed.
Print Assumptions C11_calc2_leafev_ctx.

(* via / typed_via = finally(s, schedule(c)): every completion of the root - value, error, done of s, and the
   done of the hop itself when stop was requested before its item ran - is delivered on context c.
   Side conditions: the schedule operation's identifier is not reused inside s, and the script runs queued
   schedule() items by EvRun only (never addresses one as a harness leaf). *)
Theorem C11_calc2_via_completes_on_ctx : forall id c s pre script,
  ~ In id (map fst (scheds s)) -> no_ev_on id script ->
  forall o n cx, In (XRoot o n cx) (r_tr (exec (via id c s) pre script)) -> cx = c.
Proof. exact via_completes_on_ctx. Qed.
Print Assumptions C11_calc2_via_completes_on_ctx.

Theorem C11_calc2_via_result : forall id c s ns sa sb i o cx st tr oc hit,
  leafev (via id c s) (ONode ns sa sb) i o cx = (st, tr, Some oc, hit) ->
  i = id /\ ph ns <> PFirst /\ st = OFin /\ tr = [TSchedDtor c] /\
  exists seen, sb = OLeaf false seen /\
    (seen = true -> oc = ODone) /\
    (seen = false -> saved ns = Some oc \/ (saved ns = None /\ oc = OVal 0)).
Proof. exact via_result. Qed.
Print Assumptions C11_calc2_via_result.

(* the general form: finally(s, b) for any b that completes only when its schedule() item runs *)
Theorem C11_calc2_finally_hop_ctx : forall s b id c pre script,
  hop b id -> (forall c', In (id, c') (scheds (Bin BFinally s b)) -> c' = c) ->
  no_ev_on id script ->
  forall o n cx, In (XRoot o n cx) (r_tr (exec (Bin BFinally s b) pre script)) -> cx = c.
Proof. exact finally_hop_ctx. Qed.
Print Assumptions C11_calc2_finally_hop_ctx.

(* with_scheduler_affinity (sender not statically affine) = finally(s, unstoppable(schedule(c))), c the
   context of the receiver's scheduler (0 for the root receiver): the root completes on c *)
Theorem C11_calc2_wsa_via_completes_on_ctx : forall id c s pre script,
  ~ In id (map fst (scheds s)) -> no_ev_on id script ->
  forall o n cx, In (XRoot o n cx) (r_tr (exec (wsa_via id c s) pre script)) -> cx = c.
Proof. exact wsa_via_completes_on_ctx. Qed.
Print Assumptions C11_calc2_wsa_via_completes_on_ctx.

Theorem C11_calc2_wsa_via_root_sched : forall id s pre script,
  ~ In id (map fst (scheds s)) -> no_ev_on id script ->
  forall o n cx, In (XRoot o n cx) (r_tr (exec (wsa_via id (e_sched (root_env pre)) s) pre script)) ->
                 cx = e_sched (root_env pre).
Proof. exact wsa_via_root_sched. Qed.
Print Assumptions C11_calc2_wsa_via_root_sched.

(* ... and with the held result of s: the hop back is unstoppable (contrast C11_calc2_via_result, seen = true) *)
Theorem C11_calc2_wsa_via_result : forall id c s pre s1 ns sa sb i o cx st tr oc hit,
  r_st (run (wsa_via id c s) pre s1) = ONode ns sa sb ->
  leafev (wsa_via id c s) (ONode ns sa sb) i o cx = (st, tr, Some oc, hit) ->
  i = id /\ ph ns <> PFirst /\ (saved ns = Some oc \/ (saved ns = None /\ oc = OVal 0)).
Proof. exact wsa_via_run_result. Qed.
Print Assumptions C11_calc2_wsa_via_result.

(* on(c, s): in the step that finds the operation pending (schedule(c)'s item not yet run) all leaves that
   are started - those s's start() starts inline - start on context c, that step is EvRun c, and they see
   get_scheduler = c up to overrides inside s.  Later starts: C11_calc2_completion_ctx. *)
Theorem C11_calc2_on_starts_on_ctx : forall id c s pre s1 ev,
  ~ In id (map fst (scheds s)) -> no_ev_on id (s1 ++ [ev]) ->
  on_pending (r_st (run (on id c s) pre s1)) ->
  exists d, r_tr (run (on id c s) pre (s1 ++ [ev])) = r_tr (run (on id c s) pre s1) ++ d /\
    forall i st sp q0 q1 sch cx, In (XT (TLeafStart i st sp q0 q1 sch cx)) d ->
      cx = c /\ ev = EvRun c /\ sees s (0, 0, true, c) i (q0, q1, sp, sch).
Proof. exact on_starts_on_ctx. Qed.
Print Assumptions C11_calc2_on_starts_on_ctx.

Theorem C11_calc2_on_pending_initially : forall id c s pre, on_pending (r_st (run (on id c s) pre [])).
Proof. exact on_pending_initially. Qed.
Print Assumptions C11_calc2_on_pending_initially.

Theorem C11_calc2_on_pending_no_starts : forall id c s pre script,
  on_pending (r_st (run (on id c s) pre script)) ->
  forall x, In x (r_tr (run (on id c s) pre script)) -> ~ is_leaf_start x.
Proof. exact on_pending_no_starts. Qed.
Print Assumptions C11_calc2_on_pending_no_starts.

Theorem C11_calc2_on_sched_seen : forall id c s pre script i st sp q0 q1 sch cx,
  In (XT (TLeafStart i st sp q0 q1 sch cx)) (r_tr (exec (on id c s) pre script)) ->
  sees s (0, 0, true, c) i (q0, q1, sp, sch).
Proof. exact on_sched_seen. Qed.
Print Assumptions C11_calc2_on_sched_seen.

Theorem C11_calc2_on_sched_is_c : forall id c s pre script i st sp q0 q1 sch cx,
  no_with_sched s ->
  In (XT (TLeafStart i st sp q0 q1 sch cx)) (r_tr (exec (on id c s) pre script)) -> sch = c.
Proof. exact on_sched_is_c. Qed.
Print Assumptions C11_calc2_on_sched_is_c.

(* [stage 4, C05] a value copy that throws is turned into set_error at the storing node; finally - hence via and
   with_scheduler_affinity - still runs its completion sender (the hop) and then delivers the error, on c *)
Theorem C11_calc2_thrown_store_is_error : forall v,
  (forall a b ns sa tra cx r0a r0bl,
     a_done BFinally a b ns sa tra (OValT v) cx r0a r0bl =
     let '(sb, trb, rb) := start b (n_env ns) cx in
     match rb with
     | None => (ONode (ns_set_saved (ns_set_ph ns PSecond) (Some (OErr tcode))) OFin sb, (tra ++ dtor a sa) ++ trb, None)
     | Some ob => seq_final BFinally b sb ((tra ++ dtor a sa) ++ trb) (after_second BFinally (Some (OErr tcode)) ob)
     end) /\
  (forall w, after_second BFinally (Some (OErr tcode)) (OVal w) = OErr tcode) /\
  (forall a b ns sa tra cx r0a r0bl,
     a_done BLetV a b ns sa tra (OValT v) cx r0a r0bl = (OCompl sa OFin, tra, Some (OErr tcode))) /\
  (forall s sc tr, un_done UDoneOpt s sc tr (OValT v) = (OCompl sc OFin, tr ++ [], Some (OErr tcode))) /\
  (forall ns i, conc_child_done BWhenAll ns i (OValT v) = conc_child_done BWhenAll ns i (OErr tcode)) /\
  (forall ns i, conc_child_done BWhenAny ns i (OValT v) = conc_child_done BWhenAny ns i (OErr tcode)).
Proof. exact thrown_store_is_error. Qed.
Print Assumptions C11_calc2_thrown_store_is_error.

Theorem C11_calc2_finally_thrown_runs_completion : forall a b ns sa sb id o cx sa' tra v hit,
  ph ns = PFirst ->
  child_ev (bin_throw BFinally false) (bin_catch BFinally false) a sa id (bin_in BFinally false o) o cx
    = ((sa', tra, Some (OValT v)), hit) ->
  leafev (Bin BFinally a b) (ONode ns sa sb) id o cx =
  (let '(sb', trb, rb) := start b (n_env ns) cx in
   match rb with
   | None => (ONode (ns_set_saved (ns_set_ph ns PSecond) (Some (OErr tcode))) OFin sb', (tra ++ dtor a sa') ++ trb, None)
   | Some ob => seq_final BFinally b sb' ((tra ++ dtor a sa') ++ trb) (after_second BFinally (Some (OErr tcode)) ob)
   end, hit).
Proof. exact finally_thrown_runs_completion. Qed.
Print Assumptions C11_calc2_finally_thrown_runs_completion.

Theorem C11_calc2_exec_run : forall e pre script, exec e pre script = run_end e (run e pre script).
Proof. exact exec_run. Qed.
Print Assumptions C11_calc2_exec_run.

Example C11_calc2_ex :
  let ex := via 100 2 (Bin BWhenAll (Leaf 0) (on 101 1 (Un (UWithQ 0 7) (LeafN 1)))) in
  (* leaf 1 starts on context 1 (the on's scheduler) with get_scheduler = 1; the root completes on 2 although
     the last leaf completed on context 4 *)
  r_tr (exec ex false [EvLeaf 0 (OVal 5) 3; EvRun 1; EvLeaf 1 (OVal 7) 4; EvRun 2]) =
    [XT (TLeafStart 0 false true 0 0 0 0); XT (TSchedStart 101 1);
     XT (TSchedDtor 1); XT (TLeafStart 1 false true 7 0 1 1);
     XT (TLeafDtor 0); XT (TLeafDtor 1); XT (TSchedStart 100 2);
     XT (TSchedDtor 2); XRoot (OVal 162) 0 2; XRootDtor] /\
  (* stop requested (on context 5) before via's item ran: the hop completes with done, still on context 2 *)
  r_tr (exec ex false [EvRun 1; EvStop 5; EvLeaf 0 (OErr 5) 3; EvRun 2]) =
    [XT (TLeafStart 0 false true 0 0 0 0); XT (TSchedStart 101 1);
     XT (TSchedDtor 1); XT (TLeafStart 1 false true 7 0 1 1);
     XT (TLeafStop 1); XT (TLeafStop 0); XT (TLeafDtor 0);
     XT (TLeafDtor 1); XT (TSchedStart 100 2);
     XT (TSchedDtor 2); XRoot ODone 0 2; XRootDtor] /\
  (* with_scheduler_affinity: the hop back is unstoppable, the value arrives on the receiver's context 0 *)
  r_tr (exec (wsa_via 100 0 (on 101 1 (Leaf 1))) false [EvRun 1; EvStop 3; EvLeaf 1 (OVal 7) 4; EvRun 0]) =
    [XT (TSchedStart 101 1); XT (TSchedDtor 1);
     XT (TLeafStart 1 false true 0 0 1 1); XT (TLeafStop 1);
     XT (TLeafDtor 1); XT (TSchedStart 100 0);
     XT (TSchedDtor 0); XRoot (OVal 7) 0 0; XRootDtor] /\
  (* a throwing value (L0:t5 on context 3): via still hops to context 2 and completes there with error 77;
     under when_all the sibling is stopped and the root completes with the error *)
  r_tr (exec (via 100 2 (Leaf 0)) false [EvLeaf 0 (OValT 5) 3; EvRun 2]) =
    [XT (TLeafStart 0 false true 0 0 0 0); XT (TLeafDtor 0); XT (TSchedStart 100 2); XT (TSchedDtor 2);
     XRoot (OErr 77) 0 2; XRootDtor] /\
  r_tr (exec (Bin BWhenAll (Leaf 0) (LeafN 1)) false [EvLeaf 0 (OValT 5) 3]) =
    [XT (TLeafStart 0 false true 0 0 0 0); XT (TLeafStart 1 false true 0 0 0 0); XT (TLeafStop 1);
     XRoot (OErr 77) 0 3; XRootDtor; XT (TLeafDtor 0); XT (TLeafDtor 1)].
Proof. vm_compute. repeat split. Qed.
