(* C01 on the second-generation sender calculus (Calc/Calc2Defs.v, module Calc2: operation-state lifetimes,
   execution contexts / schedulers, let_value_with_stop_source, repeat_effect_until, retry_when, when_any,
   into_variant, stop_if_requested): every started operation completes at most once, no completion is lost,
   nothing happens after completion -- for all sender expressions and all scripts.
   Statements only; proofs are in Calc/Once2Proofs.v. *)
From Coq Require Import ZArith List Bool.
From V Require Import Calc.Calc2Defs Calc.Once2Proofs.
Import ListNotations.
Import Calc2.

(* ---- the three entry points: a live result is well formed and waits for something; a completion leaves a
        completed operation state (all parts completed or destroyed), on which nothing is pending ---- *)

Theorem C01_calc2_start_spec : forall e en cx st tr r, start e en cx = (st, tr, r) ->
  (r = None -> wf2 e st /\ pending e st <> []) /\
  (r <> None -> done_st e st /\ inert e st /\ pending e st = []).
Proof. exact start_spec2. Qed.
Print Assumptions C01_calc2_start_spec.

Theorem C01_calc2_stop_spec : forall e st0 cx st tr r, wf2 e st0 -> stop e st0 cx = (st, tr, r) ->
  (r = None -> wf2 e st /\ pending e st <> []) /\
  (r <> None -> done_st e st /\ inert e st /\ pending e st = []).
Proof. exact stop_spec2. Qed.
Print Assumptions C01_calc2_stop_spec.

Theorem C01_calc2_leafev_spec : forall e st0 id o cx st tr r hit,
  wf2 e st0 -> leafev e st0 id o cx = ((st, tr, r), hit) ->
  (r = None -> wf2 e st /\ pending e st <> []) /\
  (r <> None -> done_st e st /\ inert e st /\ pending e st = []).
Proof. exact leafev_spec2. Qed.
Print Assumptions C01_calc2_leafev_spec.

(* silent after completion, state level: a completed (OCompl, OLeaf true, [stage 5] the ONode of a completed
   allocate) or absent (OFin) operation state does not react to a stop request or a leaf event.  [stage 5] a
   completed allocate still records the stop request in its node state (no event, no completion, same
   allocator): [sim] = equal up to that *)
Theorem C01_calc2_stop_inert : forall e st cx, inert e st ->
  exists st', stop e st cx = (st', [], None) /\ sim e st st'.
Proof. exact stop_inert. Qed.
Print Assumptions C01_calc2_stop_inert.

Theorem C01_calc2_sim_done : forall e st st', sim e st st' -> done_st e st -> done_st e st'.
Proof. exact sim_done. Qed.
Print Assumptions C01_calc2_sim_done.

Theorem C01_calc2_sim_dtor : forall e st st', sim e st st' -> dtor e st' = dtor e st.
Proof. exact sim_dtor. Qed.
Print Assumptions C01_calc2_sim_dtor.

Theorem C01_calc2_leafev_inert : forall e st id o cx, inert e st -> leafev e st id o cx = ((st, [], None), false).
Proof. exact leafev_inert. Qed.
Print Assumptions C01_calc2_leafev_inert.

Theorem C01_calc2_done_inert : forall e st, done_st e st -> inert e st.
Proof. exact done_inert. Qed.
Print Assumptions C01_calc2_done_inert.

(* a live operation always waits for a running leaf, a queued schedule() item or a held completion *)
Theorem C01_calc2_no_lost_state : forall e st, wf2 e st -> pending e st <> [].
Proof. exact no_lost2. Qed.
Print Assumptions C01_calc2_no_lost_state.

(* a leaf event applies iff something with its id is pending: a running leaf, a queued schedule() item, a
   held completion *)
Theorem C01_calc2_leafev_hit : forall e st id o cx, wf2 e st ->
  (snd (leafev e st id o cx) = true <-> In id (pending_ids e st)).
Proof. exact leafev_hit2. Qed.
Print Assumptions C01_calc2_leafev_hit.

(* ---- whole runs ([run] = the script, [exec] = run followed by the owner's destruction of a completed
        root operation) ---- *)

Theorem C01_calc2_exec_run : forall e pre script, exec e pre script = run_end e (run e pre script).
Proof. exact exec_run. Qed.
Print Assumptions C01_calc2_exec_run.

Theorem C01_calc2_at_most_once : forall e pre script,
  (r_roots (exec e pre script) <= 1)%nat /\
  count_roots (r_tr (exec e pre script)) = r_roots (exec e pre script).
Proof. exact C01_2_at_most_once. Qed.
Print Assumptions C01_calc2_at_most_once.

Theorem C01_calc2_root_after_start : forall e pre,
  (count_roots (r_tr (run e pre [])) <= 1)%nat /\
  (forall s1 s2, exists suf, r_tr (run e pre (s1 ++ s2)) = r_tr (run e pre s1) ++ suf) /\
  (forall s1 s2, (r_roots (run e pre s1) <= r_roots (run e pre (s1 ++ s2)))%nat).
Proof. exact C01_2_root_after_start. Qed.
Print Assumptions C01_calc2_root_after_start.

Theorem C01_calc2_no_lost_run : forall e pre script,
  let rs := run e pre script in
  (r_roots rs = 0%nat ->
     if cthrows e then r_st rs = OFin else wf2 e (r_st rs) /\ pending e (r_st rs) <> []) /\
  (r_roots rs = 1%nat -> done_st e (r_st rs) /\ inert e (r_st rs) /\ pending e (r_st rs) = []).
Proof. exact C01_2_no_lost_run. Qed.
Print Assumptions C01_calc2_no_lost_run.

Theorem C01_calc2_no_lost : forall e pre script,
  let rs := exec e pre script in
  (r_roots rs = 0%nat ->
     if cthrows e then r_st rs = OFin else wf2 e (r_st rs) /\ pending e (r_st rs) <> []) /\
  (r_roots rs = 1%nat -> r_st rs = OFin /\ pending e (r_st rs) = []).
Proof. exact C01_2_no_lost. Qed.
Print Assumptions C01_calc2_no_lost.

Theorem C01_calc2_silent_after : forall e pre script script2,
  r_roots (run e pre script) = 1%nat ->
  let rs := run e pre script in
  let rs' := run e pre (script ++ script2) in
  r_roots rs' = 1%nat /\ sim e (r_st rs) (r_st rs') /\
  exists n, (n <= length script2)%nat /\ r_tr rs' = r_tr rs ++ repeat XSkip n /\
    r_tr (exec e pre (script ++ script2)) =
      r_tr rs ++ repeat XSkip n ++ XRootDtor :: map XT (dtor e (r_st rs)) /\
    r_st (exec e pre (script ++ script2)) = OFin.
Proof. exact C01_2_silent_after. Qed.
Print Assumptions C01_calc2_silent_after.

Theorem C01_calc2_dead_after_end : forall e pre script script3,
  r_roots (exec e pre script) = 1%nat ->
  let rs' := fold_left (run_ev e) script3 (exec e pre script) in
  r_roots rs' = 1%nat /\ r_st rs' = OFin /\
  exists n, (n <= length script3)%nat /\ r_tr rs' = r_tr (exec e pre script) ++ repeat XSkip n.
Proof. exact C01_2_dead_after_end. Qed.
Print Assumptions C01_calc2_dead_after_end.

(* [stage 5] connecting the whole expression threw: nothing exists, nothing runs *)
Theorem C01_calc2_connect_throw : forall e pre script,
  cthrows e = true ->
  exec e pre script = run e pre script /\ r_roots (run e pre script) = 0%nat /\ r_st (run e pre script) = OFin /\
  exists n, (n <= length script)%nat /\
    r_tr (run e pre script) = map XT (fst (conn e 0)) ++ XConnectThrow :: repeat XSkip n.
Proof. exact C01_2_connect_throw. Qed.
Print Assumptions C01_calc2_connect_throw.

(* ---- a concrete run:
   let_value(leaf 1, when_all(stop_when(leafN 2, leaf 3),
                              repeat_effect_until(retry_when(sequence(schedule(ctx 1), leaf 4), just 0), [false]))) ---- *)

Definition C01_calc2_ex : sexpr :=
  Bin BLetV (Leaf 1)
    (Bin BWhenAll (Bin BStopWhen (LeafN 2) (Leaf 3))
                  (Un (URepeat [false]) (Bin (BRetry 1) (Bin BSeq (Sched 10 1) (Leaf 4)) (Just 0)))).

Definition C01_calc2_script : list sev :=
  [EvLeaf 1%nat (OVal 5) 0%nat; EvRun 1%nat; EvLeaf 4%nat (OErr 7) 2%nat; EvRun 1%nat;
   EvLeaf 4%nat (OVal 1) 2%nat; EvRun 1%nat; EvLeaf 3%nat (OVal 0) 0%nat; EvLeaf 4%nat (OVal 2) 1%nat].

Example C01_calc2_ex_done :
  let rs := exec C01_calc2_ex false (C01_calc2_script ++ [EvStop 0%nat; EvLeaf 4%nat (OVal 3) 0%nat]) in
  r_roots rs = 1%nat /\ r_st rs = OFin /\ count_roots (r_tr rs) = 1%nat /\
  r_tr rs = r_tr (run C01_calc2_ex false C01_calc2_script)
            ++ [XSkip; XRootDtor; XT (TLeafDtor 3); XT (TLeafDtor 2)].
Proof. vm_compute. repeat split. Qed.

Example C01_calc2_ex_pending :
  let rs := exec C01_calc2_ex false [EvLeaf 1%nat (OVal 5) 0%nat; EvRun 1%nat; EvLeaf 3%nat (OVal 0) 0%nat] in
  r_roots rs = 0%nat /\ pending C01_calc2_ex (r_st rs) = [PLeaf 4] /\ r_queue rs = [] /\
  leaf_ids C01_calc2_ex = [1; 2; 3; 4]%nat.
Proof. vm_compute. repeat split. Qed.

Example C01_calc2_ex_queued :
  let rs := exec C01_calc2_ex false [EvLeaf 1%nat (OVal 5) 0%nat] in
  r_roots rs = 0%nat /\ pending C01_calc2_ex (r_st rs) = [PLeaf 2; PLeaf 3; PSched 10 1] /\
  r_queue rs = [(1, 10)]%nat.
Proof. vm_compute. repeat split. Qed.

(* [stage 4] a completion whose value's copy throws (OValT): stop_when's store throws out of set_value, the
   completion is re-delivered (OValK) and the leaf completes with set_error instead -- still exactly one root
   completion, and the other branch keeps waiting for its (non-reactive) leaf until that completes *)
Example C01_calc2_ex_throw :
  let e := Bin BWhenAll (Un UIntoVar (Bin BStopWhen (Leaf 1) (LeafN 2)))
                        (Bin BLetV (Leaf 3) (Bin BSeq (Leaf 4) (Sched 10 1))) in
  let rs1 := exec e false [EvLeaf 1%nat (OValT 5) 0%nat] in
  let rs2 := exec e false [EvLeaf 1%nat (OValT 5) 0%nat; EvLeaf 3%nat (OValT 6) 0%nat] in
  r_roots rs1 = 0%nat /\ pending e (r_st rs1) = [PLeaf 3] /\
  r_roots rs2 = 1%nat /\ count_roots (r_tr rs2) = 1%nat /\ r_st rs2 = OFin.
Proof. vm_compute. repeat split. Qed.

(* [stage 5] "r_st unchanged after the root completed" is false for a completed allocate (hence [sim] above):
   the first EvStop is recorded in the node state *)
Example C01_calc2_ex_alloc_stop :
  let e := Un UAllocate (Leaf 1) in
  let rs := run e false [EvLeaf 1%nat (OVal 5) 0%nat] in
  let rs' := run e false [EvLeaf 1%nat (OVal 5) 0%nat; EvStop 0%nat] in
  r_roots rs = 1%nat /\ r_st rs <> r_st rs' /\ r_tr rs' = r_tr rs /\
  r_tr (exec e false [EvLeaf 1%nat (OVal 5) 0%nat; EvStop 0%nat]) =
    [XT (TAlloc 0); XT (TLeafStart 1 false true 0 0 0 0); XRoot (OVal 5) 0 0; XRootDtor; XT (TLeafDtor 1); XT (TFree 0)].
Proof. vm_compute. repeat split. discriminate. Qed.

(* [stage 5] a lazily connected successor whose connect throws: let_value destroys the finished source, the
   successor is never started, the node completes with the error; a root connect that throws runs nothing *)
Example C01_calc2_ex_connect_throw :
  let e := Bin BLetV (Leaf 1) (Un UAllocate (Bin BWhenAll (Un UAllocate (Leaf 2)) (LeafC 3))) in
  r_tr (exec e false [EvLeaf 1%nat (OVal 5) 0%nat]) =
    [XT (TLeafStart 1 false true 0 0 0 0); XT (TLeafDtor 1); XT (TAlloc 0); XT (TFree 0); XRoot (OErr 78) 0 0; XRootDtor] /\
  r_tr (exec (Bin BWhenAll (LeafC 3) (Un UAllocate (Leaf 2))) false [EvLeaf 2%nat (OVal 1) 0%nat]) =
    [XT (TAlloc 0); XT (TFree 0); XConnectThrow; XSkip].
Proof. vm_compute. split; reflexivity. Qed.
