(* C02 on the second-generation sender calculus (Calc/Calc2Defs.v, module Calc2): operation states are
   destroyed exactly once, never early (only after completion), nothing touches them after destruction,
   nothing is leaked when the root completed, and the root operation is destroyed last -- for all sender
   expressions (any repeat_effect_until answer list, any retry_when budget) and all scripts.
   Statements only; proofs are in Calc/Life2Proofs.v.

   Vocabulary (Calc/Life2Proofs.v):
     key                      KLeaf id | KSched c | KAlloc a   (TSchedDtor carries only the context; [stage 5] KAlloc a =
                              the blocks of allocator a: TAlloc a = start, TFree a = dtor, a block counts as
                              completed-alive while it is held, no capacity bound)
     nr k e st / nd k e st    running / completed-but-alive operation states of key k inside st
     cap k e                  number of leaves of e with key k  (<= 1 for KLeaf id when NoDup (leaf_ids e))
     life  k m r d tr r' d'   coarse life-cycle automaton (start: r+d<m; touch: r>=1; dtor: d>=1; silent completion)
     lifeX k m rho ext ...    refined: a completion needs ext (the external event is addressed to k) or a
                              permit granted by the key's own stop-reactive TLeafStop (rho id)
     lifeQ                    lifeX for every number of permits in, some number out
     lifeS k rho ext e st tr st' = lifeQ from (nr, nd) of st to (nr, nd) of st' with m = cap k e
     cnt k a tr               number of events of tr that are a start / touch / dtor of key k *)
From Coq Require Import ZArith List Bool.
From V Require Import Calc.Calc2Defs Calc.Once2Proofs Calc.Life2Proofs.
Import ListNotations.
Import Calc2.

(* ---- the three entry points: the events of a call are a legal, JUSTIFIED continuation of every key's life
        cycle, from the state read off the operation state before the call to the one read off after ---- *)

Theorem C02_calc2_start_life : forall k rho ext e en cx st tr r, (is_alloc k = true -> ext = true) -> Rok rho e ->
  start e en cx = (st, tr, r) -> lifeS k rho ext e OFin tr st.
Proof. exact start_life. Qed.
Print Assumptions C02_calc2_start_life.

Theorem C02_calc2_stop_life : forall k rho ext e st0 cx st tr r, (is_alloc k = true -> ext = true) -> Rok rho e -> wf2 e st0 ->
  stop e st0 cx = (st, tr, r) -> lifeS k rho ext e st0 tr st.
Proof. exact stop_life. Qed.
Print Assumptions C02_calc2_stop_life.

Theorem C02_calc2_leafev_life : forall k rho e st0 id o cx st tr r hit, Rok rho e -> wf2 e st0 ->
  leafev e st0 id o cx = ((st, tr, r), hit) -> lifeS k rho (key_addr k id) e st0 tr st.
Proof. exact leafev_life. Qed.
Print Assumptions C02_calc2_leafev_life.

Theorem C02_calc2_rho_of_ok : forall e, Rok (rho_of e) e.
Proof. exact rho_of_ok. Qed.
Print Assumptions C02_calc2_rho_of_ok.

(* the destructor cascade of a completed operation destroys exactly its alive operation states, and a
   completed operation contains no running one: the model never destroys a running leaf *)
Theorem C02_calc2_dtor_cascade : forall k rho ext e st, done_st e st ->
  forall m r d, lifeQ k m rho ext r (nd k e st + d) (dtor e st) r d.
Proof. exact dtor_life. Qed.
Print Assumptions C02_calc2_dtor_cascade.

Theorem C02_calc2_done_no_running : forall k e st, done_st e st -> nr k e st = 0%nat.
Proof. exact done_no_running. Qed.
Print Assumptions C02_calc2_done_no_running.

(* what the justification buys (automaton level) *)
Theorem C02_calc2_no_completion_unaddressed : forall k m rho r d tr r' d' p',
  lifeX k m rho false r d 0 tr r' d' p' -> rho_key k rho = false ->
  r' = (r + cntx k rho XStart tr)%nat /\ d = (d' + cntx k rho XDtor tr)%nat.
Proof. exact no_completion_unaddressed. Qed.
Print Assumptions C02_calc2_no_completion_unaddressed.

Theorem C02_calc2_refined_coarse : forall k m rho ext r d p tr r' d' p',
  lifeX k m rho ext r d p tr r' d' p' -> life k m r d tr r' d'.
Proof. exact lifeX_coarse. Qed.
Print Assumptions C02_calc2_refined_coarse.

(* ---- (a) dtor_after_completion: never early ---- *)

(* per script event, with the automaton state pinned to the model state at both ends *)
Theorem C02_calc2_step : forall k e pre script ev,
  let rs := run e pre script in
  step_ok k e (step_ext k rs ev) rs (run e pre (script ++ [ev])).
Proof. exact C02_step. Qed.
Print Assumptions C02_calc2_step.

Theorem C02_calc2_step_start : forall k e pre,
  lifeQ k (cap k e) (rho_of e) (is_alloc k) 0 0 (tevs (r_tr (run e pre [])))
        (nr k e (r_st (run e pre []))) (nd k e (r_st (run e pre []))).
Proof. exact C02_step_start. Qed.
Print Assumptions C02_calc2_step_start.

(* a script event not addressed to a key that is not stop-reactive: what was running is still running, and
   only operation states completed before the step are destroyed in it *)
Theorem C02_calc2_dtor_after_completion : forall k e pre script ev,
  let rs := run e pre script in
  let rs' := run e pre (script ++ [ev]) in
  rho_key k (rho_of e) = false -> step_ext k rs ev = false ->
  exists suf, r_tr rs' = r_tr rs ++ suf /\
    nr k e (r_st rs') = (nr k e (r_st rs) + cnt k AStart (tevs suf))%nat /\
    nd k e (r_st rs) = (nd k e (r_st rs') + cnt k ADtor (tevs suf))%nat.
Proof. exact C02_dtor_after_completion. Qed.
Print Assumptions C02_calc2_dtor_after_completion.

Theorem C02_calc2_start_no_completion : forall k e pre,
  rho_key k (rho_of e) = false -> is_alloc k = false ->
  nr k e (r_st (run e pre [])) = cnt k AStart (tevs (r_tr (run e pre []))) /\
  nd k e (r_st (run e pre [])) = 0%nat /\ cnt k ADtor (tevs (r_tr (run e pre []))) = 0%nat.
Proof. exact C02_start_no_completion. Qed.
Print Assumptions C02_calc2_start_no_completion.

Theorem C02_calc2_rho_of_leaf : forall e id, ~ In id (leafN_ids e) -> rho_key (KLeaf id) (rho_of e) = false.
Proof. exact rho_of_leaf. Qed.
Print Assumptions C02_calc2_rho_of_leaf.

(* ---- whole traces of [exec] (which end with the root destruction cascade when the root completed) ---- *)

Theorem C02_calc2_life : forall k e pre script,
  let rs := exec e pre script in
  life k (cap k e) 0 0 (tevs (r_tr rs)) (nr k e (r_st rs)) (nd k e (r_st rs)).
Proof. exact C02_life. Qed.
Print Assumptions C02_calc2_life.

(* what a legal life cycle means in event counts *)
Theorem C02_calc2_life_prefix_counts : forall k m tr r' d', life k m 0 0 tr r' d' ->
  forall p q, tr = p ++ q ->
  (cnt k ADtor p <= cnt k AStart p)%nat /\ (is_alloc k = false -> (cnt k AStart p <= cnt k ADtor p + m)%nat).
Proof. exact life_prefix_counts. Qed.
Print Assumptions C02_calc2_life_prefix_counts.

Theorem C02_calc2_life_at_event : forall k m tr r' d', life k m 0 0 tr r' d' ->
  forall p t q, tr = p ++ t :: q ->
  match ev_act k t with
  | Some AStart => (cnt k AStart p < cnt k ADtor p + m)%nat \/ is_alloc k = true
  | Some ATouch => (cnt k ADtor p < cnt k AStart p)%nat
  | Some ADtor => (cnt k ADtor p < cnt k AStart p)%nat
  | None => True
  end.
Proof. exact life_at_event. Qed.
Print Assumptions C02_calc2_life_at_event.

(* (b) dtor_at_most_once, per instance: on every prefix #dtor <= #start <= #dtor + 1, i.e. the starts and
   destructions of one leaf alternate -- between two consecutive TLeafStart id exactly one TLeafDtor id *)
Theorem C02_calc2_dtor_at_most_once : forall e pre script id p q,
  NoDup (leaf_ids e) -> tevs (r_tr (exec e pre script)) = p ++ q ->
  (cnt (KLeaf id) ADtor p <= cnt (KLeaf id) AStart p)%nat /\
  (cnt (KLeaf id) AStart p <= cnt (KLeaf id) ADtor p + 1)%nat.
Proof. exact C02_dtor_at_most_once. Qed.
Print Assumptions C02_calc2_dtor_at_most_once.

(* (c) no_event_after_dtor: a TLeafStop / TReqStop / TLeafDtor of leaf id occurs only while its current
   instance is started and not destroyed; a TLeafStart only when every earlier instance was destroyed *)
Theorem C02_calc2_no_event_after_dtor : forall e pre script id p t q,
  NoDup (leaf_ids e) -> tevs (r_tr (exec e pre script)) = p ++ t :: q ->
  match ev_act (KLeaf id) t with
  | Some AStart => cnt (KLeaf id) AStart p = cnt (KLeaf id) ADtor p
  | Some ATouch => cnt (KLeaf id) AStart p = (cnt (KLeaf id) ADtor p + 1)%nat
  | Some ADtor => cnt (KLeaf id) AStart p = (cnt (KLeaf id) ADtor p + 1)%nat
  | None => True
  end.
Proof. exact C02_no_event_after_dtor. Qed.
Print Assumptions C02_calc2_no_event_after_dtor.

(* the same for schedule() operations, per context *)
Theorem C02_calc2_sched : forall e pre script c,
  (forall p q, tevs (r_tr (exec e pre script)) = p ++ q ->
     (cnt (KSched c) ADtor p <= cnt (KSched c) AStart p)%nat /\
     (cnt (KSched c) AStart p <= cnt (KSched c) ADtor p + cap (KSched c) e)%nat) /\
  (forall p q, tevs (r_tr (exec e pre script)) = p ++ TSchedDtor c :: q ->
     (cnt (KSched c) ADtor p < cnt (KSched c) AStart p)%nat).
Proof. exact C02_sched. Qed.
Print Assumptions C02_calc2_sched.

(* (d) all_destroyed_at_end: nothing leaked *)
Theorem C02_calc2_all_destroyed_at_end : forall k e pre script,
  r_roots (exec e pre script) = 1%nat \/ cthrows e = true ->
  r_st (exec e pre script) = OFin /\
  life k (cap k e) 0 0 (tevs (r_tr (exec e pre script))) 0 0.
Proof. exact C02_all_destroyed_at_end. Qed.
Print Assumptions C02_calc2_all_destroyed_at_end.

Theorem C02_calc2_balanced_at_end : forall k e pre script,
  r_roots (exec e pre script) = 1%nat \/ cthrows e = true ->
  cnt k AStart (tevs (r_tr (exec e pre script))) = cnt k ADtor (tevs (r_tr (exec e pre script))).
Proof. exact C02_balanced_at_end. Qed.
Print Assumptions C02_calc2_balanced_at_end.

(* (e) root_dtor_last *)
Theorem C02_calc2_root_dtor_last : forall e pre script,
  (r_roots (exec e pre script) = 1%nat ->
   exists p o n cx j,
     r_tr (exec e pre script) =
       p ++ XRoot o n cx :: repeat XSkip j ++ XRootDtor :: map XT (dtor e (r_st (run e pre script))) /\
     Forall plain_x p /\ Forall is_dtor_ev (dtor e (r_st (run e pre script)))) /\
  (r_roots (exec e pre script) = 0%nat -> cthrows e = false -> Forall plain_x (r_tr (exec e pre script))) /\
  (cthrows e = true -> exists j, r_tr (exec e pre script) = map XT (fst (conn e 0)) ++ XConnectThrow :: repeat XSkip j).
Proof. exact C02_root_dtor_last. Qed.
Print Assumptions C02_calc2_root_dtor_last.

(* ---- [stage 5] blocks: allocate() obtains its memory from exactly the allocator visible at that point and
   returns it to the same allocator, also on throwing paths ---- *)

(* per allocator a: on every prefix #TFree a <= #TAlloc a; when the root completed (and was destroyed) or the
   root connect threw, #TFree a = #TAlloc a *)
Theorem C02_calc2_blocks_balanced : forall e pre script a,
  (forall p q, tevs (r_tr (exec e pre script)) = p ++ q -> (nfree a p <= nalloc a p)%nat) /\
  (r_roots (exec e pre script) = 1%nat \/ cthrows e = true ->
   nfree a (tevs (r_tr (exec e pre script))) = nalloc a (tevs (r_tr (exec e pre script)))).
Proof. exact C02_blocks_balanced. Qed.
Print Assumptions C02_calc2_blocks_balanced.

(* which allocator: a started allocate takes its block from e_alloc of the environment it is started in and keeps
   that environment in its node; its destructor returns the block to e_alloc of the stored environment; connect
   takes it from the allocator visible at the node; only with_allocator changes e_alloc; the root answers 0 *)
Theorem C02_calc2_alloc_start_id : forall s en cx, sthrows (Un UAllocate s) = false ->
  exists sc tr0 r, start (Un UAllocate s) en cx = (ONode (mk_nst PFirst en) sc OFin, TAlloc (e_alloc en) :: tr0, r).
Proof. exact alloc_start_id. Qed.
Print Assumptions C02_calc2_alloc_start_id.

Theorem C02_calc2_alloc_dtor_id : forall s ns sc x,
  dtor (Un UAllocate s) (ONode ns sc x) = dtor s sc ++ [TFree (e_alloc (n_env ns))].
Proof. exact alloc_dtor_id. Qed.
Print Assumptions C02_calc2_alloc_dtor_id.

Theorem C02_calc2_alloc_conn_id : forall s al, exists tr, fst (conn (Un UAllocate s) al) = TAlloc al :: tr.
Proof. exact alloc_conn_id. Qed.
Print Assumptions C02_calc2_alloc_conn_id.

Theorem C02_calc2_un_env_alloc : forall kk en,
  e_alloc (un_env kk en) = match kk with UWithAlloc a => a | _ => e_alloc en end.
Proof. exact un_env_alloc. Qed.
Print Assumptions C02_calc2_un_env_alloc.

Theorem C02_calc2_env_alloc_kept : forall en b v,
  e_alloc (env_with_stop en b) = e_alloc en /\ e_alloc (env_bind en v) = e_alloc en /\
  e_alloc (env_own en b) = e_alloc en /\ e_alloc (root_env b) = 0%nat.
Proof. exact env_alloc_kept. Qed.
Print Assumptions C02_calc2_env_alloc_kept.

(* the stop request recorded in a completed allocate does not change what the automata read *)
Theorem C02_calc2_sim_cnt : forall k e st st', sim e st st' -> nr k e st' = nr k e st /\ nd k e st' = nd k e st.
Proof. exact sim_cnt. Qed.
Print Assumptions C02_calc2_sim_cnt.

(* connect(e): the blocks it takes are returned if it throws *)
Theorem C02_calc2_sconn_life : forall k rho ext, (is_alloc k = true -> ext = true) ->
  forall e al m r d, sthrows e = true -> lifeQ k m rho ext r d (sconn e al) r d.
Proof. exact sconn_life. Qed.
Print Assumptions C02_calc2_sconn_life.

(* ---- a concrete run:
   let_value(leaf 1, when_all(stop_when(leafN 2, leaf 3),
                              repeat_effect_until(retry_when(sequence(schedule(ctx 1), leaf 4), just 0), [false]))) ---- *)

Definition C02_calc2_ex : sexpr :=
  Bin BLetV (Leaf 1)
    (Bin BWhenAll (Bin BStopWhen (LeafN 2) (Leaf 3))
                  (Un (URepeat [false]) (Bin (BRetry 1) (Bin BSeq (Sched 10 1) (Leaf 4)) (Just 0)))).

Definition C02_calc2_script : list sev :=
  [EvLeaf 1%nat (OVal 5) 0%nat; EvRun 1%nat; EvLeaf 4%nat (OErr 7) 2%nat; EvRun 1%nat;
   EvLeaf 4%nat (OVal 1) 2%nat; EvRun 1%nat; EvLeaf 3%nat (OVal 0) 0%nat; EvLeaf 4%nat (OVal 2) 1%nat].

(* the let_value source (leaf 1) is destroyed before the successor starts; every iteration of retry / repeat
   destroys its schedule() and leaf 4 operation before the next one is constructed; leaf 3 completing stops
   leafN 2 (which completes from its stop callback) and leaf 4 (which only logs it); when_all keeps
   stop_when's children alive until the owner destroys the root: trigger (3) before source (2) *)
Example C02_calc2_ex_trace :
  r_tr (exec C02_calc2_ex false C02_calc2_script) =
  [XT (TLeafStart 1 false true 0 0 0 0); XT (TLeafDtor 1);
   XT (TLeafStart 2 false true 0 0 0 0); XT (TLeafStart 3 false true 0 0 0 0);
   XT (TSchedStart 10 1); XT (TSchedDtor 1); XT (TLeafStart 4 false true 0 0 0 1); XT (TLeafDtor 4);
   XT (TGate true); XT (TSchedStart 10 1); XT (TSchedDtor 1); XT (TLeafStart 4 false true 0 0 0 1);
   XT (TLeafDtor 4); XT (TPred false); XT (TSchedStart 10 1); XT (TSchedDtor 1);
   XT (TLeafStart 4 false true 0 0 0 1); XT (TLeafStop 2); XT (TLeafStop 4); XT (TLeafDtor 4);
   XT (TPred true); XRoot ODone 0 1; XRootDtor; XT (TLeafDtor 3); XT (TLeafDtor 2)].
Proof. vm_compute. reflexivity. Qed.

Example C02_calc2_ex_counts :
  let tr := tevs (r_tr (exec C02_calc2_ex false C02_calc2_script)) in
  NoDup (leaf_ids C02_calc2_ex) /\
  (cnt (KLeaf 4) AStart tr, cnt (KLeaf 4) ADtor tr) = (3, 3)%nat /\
  (cnt (KSched 1) AStart tr, cnt (KSched 1) ADtor tr) = (3, 3)%nat /\
  (cnt (KLeaf 2) AStart tr, cnt (KLeaf 2) ATouch tr, cnt (KLeaf 2) ADtor tr) = (1, 1, 1)%nat /\
  (cap (KLeaf 4) C02_calc2_ex, cap (KSched 1) C02_calc2_ex) = (1, 1)%nat /\
  (rho_key (KLeaf 2) (rho_of C02_calc2_ex), rho_key (KLeaf 4) (rho_of C02_calc2_ex)) = (true, false).
Proof. vm_compute. repeat split; repeat constructor; simpl; intuition discriminate. Qed.

(* the root has not completed: nothing of the live operation is destroyed by the owner, leaf 1's operation
   was destroyed when let_value connected its successor *)
Example C02_calc2_ex_live :
  let rs := exec C02_calc2_ex false [EvLeaf 1%nat (OVal 5) 0%nat; EvRun 1%nat] in
  r_roots rs = 0%nat /\
  (nr (KLeaf 4) C02_calc2_ex (r_st rs), nd (KLeaf 4) C02_calc2_ex (r_st rs)) = (1, 0)%nat /\
  (nr (KLeaf 1) C02_calc2_ex (r_st rs), nd (KLeaf 1) C02_calc2_ex (r_st rs)) = (0, 0)%nat /\
  (nr (KSched 1) C02_calc2_ex (r_st rs), nd (KSched 1) C02_calc2_ex (r_st rs)) = (0, 0)%nat.
Proof. vm_compute. repeat split. Qed.

(* ---- [stage 4] a value whose copy throws (script completion OValT): the theorems above quantify over all
   scripts, hence over throwing completions and the re-delivery path (leafev runs the child a second time,
   from the same state, with OValK).  A concrete run:
   when_all(into_variant(stop_when(leaf 1, leafN 2)), let_value(leaf 3, sequence(leaf 4, schedule(ctx 1))))
   - leaf 1 completes with a throwing value: stop_when's result_ emplace throws out of set_value, the leaf
     completes with set_error(77) instead; stop_when stops leafN 2, when_all stops leaf 3 (which only logs);
   - leaf 3 completes with a throwing value: let_value's store throws inside its try -> error;
   nothing is leaked: every started operation state is destroyed exactly once, after the root completed ---- *)

Definition C02_calc2_ex_t : sexpr :=
  Bin BWhenAll (Un UIntoVar (Bin BStopWhen (Leaf 1) (LeafN 2)))
               (Bin BLetV (Leaf 3) (Bin BSeq (Leaf 4) (Sched 10 1))).

Example C02_calc2_ex_throw_trace :
  r_tr (exec C02_calc2_ex_t false [EvLeaf 1%nat (OValT 5) 0%nat; EvLeaf 3%nat (OValT 6) 0%nat]) =
  [XT (TLeafStart 1 false true 0 0 0 0); XT (TLeafStart 2 false true 0 0 0 0);
   XT (TLeafStart 3 false true 0 0 0 0); XT (TLeafStop 2); XT (TLeafStop 3);
   XRoot (OErr 77) 0 0; XRootDtor; XT (TLeafDtor 2); XT (TLeafDtor 1); XT (TLeafDtor 3)].
Proof. vm_compute. reflexivity. Qed.

Example C02_calc2_ex_throw_trace2 :
  r_tr (exec C02_calc2_ex_t false [EvLeaf 3%nat (OVal 6) 0%nat; EvLeaf 4%nat (OValT 6) 0%nat; EvRun 1%nat;
                                   EvLeaf 1%nat (OValT 5) 2%nat]) =
  [XT (TLeafStart 1 false true 0 0 0 0); XT (TLeafStart 2 false true 0 0 0 0);
   XT (TLeafStart 3 false true 0 0 0 0); XT (TLeafDtor 3); XT (TLeafStart 4 false true 0 0 0 0);
   XT (TLeafDtor 4); XT (TSchedStart 10 1); XT (TLeafStop 2); XRoot (OErr 77) 0 2; XRootDtor;
   XT (TLeafDtor 2); XT (TLeafDtor 1); XT (TSchedDtor 1)].
Proof. vm_compute. reflexivity. Qed.

Example C02_calc2_ex_throw_counts :
  let tr := tevs (r_tr (exec C02_calc2_ex_t false [EvLeaf 1%nat (OValT 5) 0%nat; EvLeaf 3%nat (OValT 6) 0%nat])) in
  (cnt (KLeaf 1) AStart tr, cnt (KLeaf 1) ADtor tr) = (1, 1)%nat /\
  (cnt (KLeaf 2) AStart tr, cnt (KLeaf 2) ADtor tr) = (1, 1)%nat /\
  (cnt (KLeaf 3) AStart tr, cnt (KLeaf 3) ADtor tr) = (1, 1)%nat /\
  (cnt (KLeaf 4) AStart tr, cnt (KLeaf 4) ADtor tr) = (0, 0)%nat.
Proof. vm_compute. repeat split. Qed.

(* ---- [stage 5] blocks and throwing connects:
   with_allocator(7, allocate(let_value(leaf 1, with_allocator(9, when_all(allocate(leaf 2), LeafC 3)))))
   the outer allocate takes a block from 7; leaf 1 completes: let_value destroys it and connects the successor,
   whose connect throws after allocate(leaf 2) took a block from 9 -- it is returned to 9, leaf 2 is never
   started; the error completes the root, whose destruction returns the outer block to 7 ---- *)
Definition C02_calc2_ex_a : sexpr :=
  Un (UWithAlloc 7) (Un UAllocate (Bin BLetV (Leaf 1)
     (Un (UWithAlloc 9) (Bin BWhenAll (LeafC 3) (Un UAllocate (Leaf 2)))))).

Example C02_calc2_ex_alloc_trace :
  r_tr (exec C02_calc2_ex_a false [EvLeaf 1%nat (OVal 5) 0%nat; EvLeaf 2%nat (OVal 1) 0%nat]) =
  [XT (TAlloc 7); XT (TLeafStart 1 false true 0 0 0 0); XT (TLeafDtor 1); XT (TAlloc 9); XT (TFree 9);
   XRoot (OErr 78) 0 0; XSkip; XRootDtor; XT (TFree 7)].
Proof. vm_compute. reflexivity. Qed.

Example C02_calc2_ex_connect_throw :
  r_tr (exec (Un UAllocate (Bin BStopWhen (Un UAllocate (Leaf 1)) (LeafC 2))) false [EvStop 0%nat; EvLeaf 1%nat (OVal 0) 0%nat]) =
  [XT (TAlloc 0); XT (TAlloc 0); XT (TFree 0); XT (TFree 0); XConnectThrow; XSkip].
Proof. vm_compute. reflexivity. Qed.
