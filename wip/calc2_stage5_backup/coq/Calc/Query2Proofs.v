(* C12 on the second-generation calculus Calc2: receiver queries - the two custom queries, stop_possible and
   get_scheduler - reach all children.  The invariant ([sees] on every TLeafStart of every run) is proved in
   Calc/Ctx2Proofs.v (Part 2, together with the contexts); Part 1 of this file gives the functional form [static_q2]
   and the "innermost enclosing override wins" reading.  Part 2 [stage 5]: get_allocator - every TAlloc / TFree of
   an allocate node carries the allocator visible at that node ([alloc_at], [static_allocs], [inner_al]); its own
   invariant [awf] (the node states also of completed, not yet destroyed operations) and mutual induction [all_a]. *)
From Coq Require Import ZArith List Bool Lia Arith.
From V Require Import Calc.Calc2Defs Calc.Ctx2Proofs.
Import ListNotations.
Import Calc2.
Local Open Scope Z_scope.

(* the answers leaf [id] gets, computed from the expression alone *)
Fixpoint static_q2_from (e : sexpr) (sm : qsum) (id : nat) : option qsum :=
  match e with
  | Leaf id' => if Nat.eqb id id' then Some sm else None
  | LeafN id' => if Nat.eqb id id' then Some sm else None
  | LeafR id' _ => if Nat.eqb id id' then Some sm else None
  | Un k s => static_q2_from s (un_sum k sm) id
  | Bin k a b =>
      match static_q2_from a (bin_sum k sm) id with
      | Some x => Some x
      | None => static_q2_from b (bin_sum k sm) id
      end
  | _ => None
  end.

(* (q0, q1, stop_possible, scheduler context) under the root receiver *)
Definition static_q2 (e : sexpr) (id : nat) : option (Z * Z * bool * nat) := static_q2_from e root_sum id.

Lemma static_q2_sees e : forall sm id x, static_q2_from e sm id = Some x -> sees e sm id x.
Proof.
  induction e; intros sm i x H; simpl in H; try discriminate.
  - destruct (Nat.eqb i id) eqn:E; inv H. apply Nat.eqb_eq in E. subst. constructor.
  - destruct (Nat.eqb i id) eqn:E; inv H. apply Nat.eqb_eq in E. subst. constructor.
  - destruct (Nat.eqb i id) eqn:E; inv H. apply Nat.eqb_eq in E. subst. constructor.
  - constructor. auto.
  - destruct (static_q2_from e1 (bin_sum k sm) i) eqn:E.
    + inv H. apply sees_bin_a. auto.
    + apply sees_bin_b. auto.
Qed.

Lemma static_in e : forall sm id x, static_q2_from e sm id = Some x -> In id (leaf_ids e).
Proof. intros. eapply sees_in. eapply static_q2_sees. eassumption. Qed.

Lemma static_notin e sm id : ~ In id (leaf_ids e) -> static_q2_from e sm id = None.
Proof.
  intros H. destruct (static_q2_from e sm id) eqn:E; [|reflexivity].
  exfalso. apply H. eapply static_in. eassumption.
Qed.

(* with unique ids the relation is functional and coincides with the function *)
Lemma sees_static e : NoDup (leaf_ids e) -> forall sm id x, sees e sm id x -> static_q2_from e sm id = Some x.
Proof.
  intros ND sm id x H. induction H; simpl in *.
  - rewrite Nat.eqb_refl. reflexivity.
  - rewrite Nat.eqb_refl. reflexivity.
  - rewrite Nat.eqb_refl. reflexivity.
  - auto.
  - rewrite IHsees; [reflexivity|]. eapply nodup_app_l. eassumption.
  - rewrite static_notin.
    + apply IHsees. eapply nodup_app_r. eassumption.
    + intros Hin. eapply nodup_app_disj; [exact ND|exact Hin|]. eapply sees_in. eassumption.
Qed.

(* C12, functional form: every leaf start of every run - first start, restart by repeat_effect_until or
   retry_when, successor started by any completion, on any context - carries exactly the statically
   determined answers *)
Theorem queries_static e pre script id st sp q0 q1 sch cx :
  NoDup (leaf_ids e) ->
  In (XT (TLeafStart id st sp q0 q1 sch cx)) (r_tr (exec e pre script)) ->
  static_q2 e id = Some (q0, q1, sp, sch).
Proof.
  intros ND H. apply queries_sees in H. destruct H as [H _].
  apply sees_static; assumption.
Qed.

(* a token that cannot be stopped is never observed stopped *)
Theorem unstoppable_not_stopped e pre script id st sp q0 q1 sch cx :
  In (XT (TLeafStart id st sp q0 q1 sch cx)) (r_tr (exec e pre script)) -> sp = false -> st = false.
Proof. intros H. apply queries_sees in H. exact (proj2 H). Qed.

(* ---- the same, spelled out along the path: "innermost enclosing override wins" ---------------------- *)
Inductive frame := FUn (k : ukind) | FBin (k : bkind).
(* frames from the root down to an occurrence of leaf id *)
Inductive path_to : sexpr -> nat -> list frame -> Prop :=
| pt_leaf id : path_to (Leaf id) id []
| pt_leafn id : path_to (LeafN id) id []
| pt_leafr id lvl : path_to (LeafR id lvl) id []
| pt_un k s id p : path_to s id p -> path_to (Un k s) id (FUn k :: p)
| pt_bin_a k a b id p : path_to a id p -> path_to (Bin k a b) id (FBin k :: p)
| pt_bin_b k a b id p : path_to b id p -> path_to (Bin k a b) id (FBin k :: p).

(* walking outwards from the leaf (innermost frame first); d = the root receiver's answer *)
Fixpoint inner_q0 (q : list frame) (d : Z) : Z :=
  match q with
  | [] => d
  | FUn (UWithQ O v) :: _ => v
  | _ :: q' => inner_q0 q' d
  end.
Fixpoint inner_q1 (q : list frame) (d : Z) : Z :=
  match q with
  | [] => d
  | FUn (UWithQ (S _) v) :: _ => v
  | _ :: q' => inner_q1 q' d
  end.
(* stop_possible: the nearest enclosing unstoppable / let_value_with_stop_source / when_all / stop_when /
   when_any decides *)
Fixpoint inner_sp (q : list frame) (d : bool) : bool :=
  match q with
  | [] => d
  | FUn UUnstoppable :: _ => false
  | FUn (ULetSS _) :: _ => true
  | FBin k :: q' => if is_seq k then inner_sp q' d else true
  | _ :: q' => inner_sp q' d
  end.
(* get_scheduler: the nearest enclosing with_query_value(get_scheduler, c) - in particular the one on(c, .)
   wraps around its sender *)
Fixpoint inner_sch (q : list frame) (d : nat) : nat :=
  match q with
  | [] => d
  | FUn (UWithSched c) :: _ => c
  | _ :: q' => inner_sch q' d
  end.

Definition frame_sum (f : frame) (sm : qsum) : qsum :=
  match f with FUn k => un_sum k sm | FBin k => bin_sum k sm end.

Lemma sees_path e sm id x :
  sees e sm id x -> exists p, path_to e id p /\ x = fold_left (fun s f => frame_sum f s) p sm.
Proof.
  induction 1 as [id sm|id sm|id lvl sm|k s sm id x _ (p & P & E)|k a b sm id x _ (p & P & E)|k a b sm id x _ (p & P & E)].
  - exists []. split; [constructor|reflexivity].
  - exists []. split; [constructor|reflexivity].
  - exists []. split; [constructor|reflexivity].
  - exists (FUn k :: p). split; [constructor; exact P|exact E].
  - exists (FBin k :: p). split; [apply pt_bin_a; exact P|exact E].
  - exists (FBin k :: p). split; [apply pt_bin_b; exact P|exact E].
Qed.

Lemma fold_inner p : forall sm,
  fold_left (fun s f => frame_sum f s) p sm =
  (inner_q0 (rev p) (s_q0 sm), inner_q1 (rev p) (s_q1 sm), inner_sp (rev p) (s_sp sm), inner_sch (rev p) (s_sch sm)).
Proof.
  induction p as [|f p IH] using rev_ind; intros sm.
  - destruct sm as [[[a b] c] d]. reflexivity.
  - rewrite fold_left_app, rev_app_distr. simpl. rewrite IH.
    destruct f as [k|k]; simpl.
    + destruct k; try reflexivity. destruct q; reflexivity.
    + unfold bin_sum. destruct (is_seq k); reflexivity.
Qed.

Theorem queries_innermost e pre script id st sp q0 q1 sch cx :
  In (XT (TLeafStart id st sp q0 q1 sch cx)) (r_tr (exec e pre script)) ->
  exists p, path_to e id p /\
    q0 = inner_q0 (rev p) 0 /\ q1 = inner_q1 (rev p) 0 /\ sp = inner_sp (rev p) true /\ sch = inner_sch (rev p) 0.
Proof.
  intros H. apply queries_sees in H. destruct H as [H _].
  apply sees_path in H. destruct H as (p & P & E). exists p. split; [exact P|].
  rewrite fold_inner in E. simpl in E. inversion E. auto.
Qed.

(* on(c, s): the leaves of s get the answers computed for s under a receiver whose scheduler is c *)
Lemma static_q2_on id c s i : static_q2 (on id c s) i = static_q2_from s (0, 0, true, c) i.
Proof. reflexivity. Qed.
(* via / with_scheduler_affinity do not change what the leaves of s see *)
Lemma static_q2_via id c s i : static_q2 (via id c s) i = static_q2 s i.
Proof.
  unfold static_q2, via. simpl. change (bin_sum BFinally root_sum) with root_sum.
  destruct (static_q2_from s root_sum i); reflexivity.
Qed.
Lemma static_q2_wsa_via id c s i : static_q2 (wsa_via id c s) i = static_q2 s i.
Proof.
  unfold static_q2, wsa_via. simpl. change (bin_sum BFinally root_sum) with root_sum.
  destruct (static_q2_from s root_sum i); reflexivity.
Qed.

(* ================================================================================================ *)
(* Part 2: [stage 5] get_allocator - allocate() takes its block from, and returns it to, the        *)
(*         allocator visible at that point                                                          *)
(* ================================================================================================ *)
(* every node of the state - running, completed or kept for destruction - was started with the allocator that is
   statically visible there: al at the root of e, overridden by the with_allocator adaptors on the path *)
Fixpoint awf (e : sexpr) (al : nat) (st : ost) : Prop :=
  match e, st with
  | Un k s, ONode ns sc _ => e_alloc (n_env ns) = al /\ awf s (un_al k al) sc
  | Un k s, OCompl sc _ => awf s (un_al k al) sc
  | Bin k a b, ONode ns sa sb => e_alloc (n_env ns) = al /\ awf a al sa /\ awf b al sb
  | Bin k a b, OCompl sa sb => awf a al sa /\ awf b al sb
  | _, _ => True
  end.
Lemma awf_fin e al : awf e al OFin. Proof. destruct e; exact I. Qed.
Lemma awf_leaf e al c s : awf e al (OLeaf c s). Proof. destruct e; exact I. Qed.
Lemma awf_held e al v : awf e al (OHeld v). Proof. destruct e; exact I. Qed.
Lemma awf_un k s al ns sc sb : awf (Un k s) al (ONode ns sc sb) = (e_alloc (n_env ns) = al /\ awf s (un_al k al) sc).
Proof. reflexivity. Qed.
Lemma awf_unc k s al sc sb : awf (Un k s) al (OCompl sc sb) = awf s (un_al k al) sc.
Proof. reflexivity. Qed.
Lemma awf_bin k a b al ns sa sb :
  awf (Bin k a b) al (ONode ns sa sb) = (e_alloc (n_env ns) = al /\ awf a al sa /\ awf b al sb).
Proof. reflexivity. Qed.
Lemma awf_binc k a b al sa sb : awf (Bin k a b) al (OCompl sa sb) = (awf a al sa /\ awf b al sb).
Proof. reflexivity. Qed.
#[global] Hint Resolve awf_fin awf_leaf awf_held : calca.

(* a block event carries the allocator visible at one of e's allocate nodes *)
Definition aok (e : sexpr) (al : nat) (t : tev) : Prop :=
  match t with TAlloc a | TFree a => alloc_at e al a | _ => True end.
Definition atr (e : sexpr) (al : nat) (tr : list tev) : Prop := Forall (aok e al) tr.
Definition no_blk (t : tev) : Prop := match t with TAlloc _ | TFree _ => False | _ => True end.

Lemma atr_nil e al : atr e al []. Proof. constructor. Qed.
Lemma atr_app e al t1 t2 : atr e al t1 -> atr e al t2 -> atr e al (t1 ++ t2).
Proof. intros. apply Forall_app. auto. Qed.
Lemma atr_cons e al t tr : no_blk t -> atr e al tr -> atr e al (t :: tr).
Proof. intros H1 H2. constructor; auto. destruct t; simpl in *; tauto. Qed.
Lemma atr_noblk e al tr : Forall no_blk tr -> atr e al tr.
Proof. apply Forall_impl. intros t. destruct t; simpl; tauto. Qed.
Lemma atr_calls e al tr : Forall is_call tr -> atr e al tr.
Proof. apply Forall_impl. intros t. destruct t; simpl; tauto. Qed.
Lemma atr_aev e al tr : Forall (aev e al) tr -> atr e al tr.
Proof. apply Forall_impl. intros t. destruct t; simpl; tauto. Qed.
Lemma atr_un k s al tr : atr s (un_al k al) tr -> atr (Un k s) al tr.
Proof. apply Forall_impl. intros t. destruct t; simpl; try tauto; apply aa_un. Qed.
Lemma atr_bin_a k a b al tr : atr a al tr -> atr (Bin k a b) al tr.
Proof. apply Forall_impl. intros t. destruct t; simpl; try tauto; apply aa_bin_a. Qed.
Lemma atr_bin_b k a b al tr : atr b al tr -> atr (Bin k a b) al tr.
Proof. apply Forall_impl. intros t. destruct t; simpl; try tauto; apply aa_bin_b. Qed.
#[global] Hint Resolve atr_nil atr_app : calca.

(* destruction returns every block to the allocator it was taken from *)
Lemma dtor_a e : forall al st, awf e al st -> atr e al (dtor e st).
Proof.
  induction e; intros al st Hw;
    try (destruct st; simpl; try apply atr_nil; repeat constructor; fail).
  - destruct st as [|cc ss|ns sa sb|sa sb|vv]; try (destruct k; apply atr_nil).
    + destruct Hw as [Ha Hw].
      destruct k; simpl; try (apply atr_un; apply IHe; exact Hw).
      apply atr_app; [apply (atr_un UAllocate); apply IHe; exact Hw|]. rewrite Ha. repeat constructor.
    + simpl in Hw. destruct k; simpl; apply atr_un; apply IHe; exact Hw.
  - destruct st as [|cc ss|ns sa sb|sa sb|vv]; try apply atr_nil.
    + destruct Hw as (_ & Ha & Hb). simpl. destruct (dtor_b_first k); apply atr_app;
        solve [apply atr_bin_a; apply IHe1; exact Ha | apply atr_bin_b; apply IHe2; exact Hb].
    + destruct Hw as (Ha & Hb). simpl. destruct (dtor_b_first k); apply atr_app;
        solve [apply atr_bin_a; apply IHe1; exact Ha | apply atr_bin_b; apply IHe2; exact Hb].
Qed.
Lemma dtor_a_a k a b al sa : awf a al sa -> atr (Bin k a b) al (dtor a sa).
Proof. intros. apply atr_bin_a. apply dtor_a. assumption. Qed.
Lemma dtor_a_b k a b al sb : awf b al sb -> atr (Bin k a b) al (dtor b sb).
Proof. intros. apply atr_bin_b. apply dtor_a. assumption. Qed.
Lemma dtor_a_u k s al sc : awf s (un_al k al) sc -> atr (Un k s) al (dtor s sc).
Proof. intros. apply atr_un. apply dtor_a. assumption. Qed.

Ltac ta := repeat first [ apply atr_nil | assumption | apply dtor_a_a; assumption | apply dtor_a_b; assumption
                        | apply dtor_a_u; assumption | apply atr_app | apply atr_cons; [exact I|] ].

Lemma alloc_un k en : e_alloc (un_env k en) = un_al k (e_alloc en).
Proof. destruct k; try reflexivity. destruct q; reflexivity. Qed.
Lemma after_first_alloc k en o en2 sv : after_first k en o = inr (en2, sv) -> e_alloc en2 = e_alloc en.
Proof. intros H. apply after_first_env in H. destruct H as [->|[v ->]]; reflexivity. Qed.
Lemma un_nst_alloc k en : e_alloc (n_env (un_nst k en)) = e_alloc en.
Proof. destruct k; reflexivity. Qed.

Definition StartA (e : sexpr) : Prop := forall en cx st tr r,
  start e en cx = (st, tr, r) -> awf e (e_alloc en) st /\ atr e (e_alloc en) tr.
Definition StopA (e : sexpr) : Prop := forall al cx st st' tr r,
  stop e st cx = (st', tr, r) -> awf e al st -> awf e al st' /\ atr e al tr.
Definition LeafevA (e : sexpr) : Prop := forall al cx st id o st' tr r hit,
  leafev e st id o cx = (st', tr, r, hit) -> awf e al st -> awf e al st' /\ atr e al tr.

(* ---- unary nodes ---------------------------------------------------------------------------------- *)
Lemma un_done_a k s al sc tr o st tr' r :
  un_done k s sc tr o = (st, tr', r) -> awf s (un_al k al) sc -> atr (Un k s) al tr ->
  awf (Un k s) al st /\ atr (Un k s) al tr'.
Proof.
  unfold un_done. intros H Hw Ht. destruct (un_result k o) as [tr2 o'] eqn:Hu.
  assert (Hc : atr (Un k s) al tr2) by (apply atr_calls; eapply un_result_calls; eassumption).
  destruct (un_eager k o); inv H; split; auto with calca; ta.
Qed.

Lemma rep_loop_a k s al sc0 tr0 rr0 :
  atr (Un k s) al tr0 -> awf s (un_al k al) sc0 ->
  forall rest i i' sc' tr' r',
  rep_loop s (sc0, tr0, rr0) rest i = (i', (sc', tr', r')) ->
  atr (Un k s) al tr' /\ (r' = None -> awf s (un_al k al) sc') /\ (r' <> None -> awf (Un k s) al sc').
Proof.
  intros Ht0 Hq0. induction rest as [|x rest IH]; intros i i' sc' tr' r' H; simpl in H.
  - inv H. split; [ta|]. split; [discriminate|intros; apply awf_fin].
  - destruct x.
    + inv H. split; [ta|]. split; [discriminate|intros; apply awf_fin].
    + destruct rr0 as [o0|].
      * destruct o0;
          try (inv H; split; [ta|]; split; [discriminate|intros _; rewrite awf_unc; exact Hq0]).
        destruct (rep_loop s (sc0, tr0, Some (OVal v)) rest (S i)) as [i2 [[sc2 tr2] r2]] eqn:Hr.
        inv H. destruct (IH _ _ _ _ _ Hr) as (T & Q & N). split; [ta|auto].
      * inv H. split; [ta|]. split; [auto|congruence].
Qed.

Lemma un_fin_a k s al ns sc tr o sc0 tr0 rr0 st tr' r :
  e_alloc (n_env ns) = al -> awf s (un_al k al) sc -> atr (Un k s) al tr ->
  atr (Un k s) al tr0 -> awf s (un_al k al) sc0 ->
  un_fin k s ns sc tr o (sc0, tr0, rr0) = (st, tr', r) ->
  awf (Un k s) al st /\ atr (Un k s) al tr'.
Proof.
  intros Hn Hwc Ht Ht0 Hq0 H. unfold un_fin in H.
  destruct k; try (eapply un_done_a; eassumption).
  - rewrite rep_done_eq in H.
    destruct (is_val o); [|injection H as <- <- <-; split; [rewrite awf_unc; exact Hwc|exact Ht]].
    destruct (rep_loop s (sc0, tr0, rr0) (skipn (n_iter ns) l) (n_iter ns)) as [i' [[sc' tr2] r2]] eqn:Hr.
    destruct (rep_loop_a _ _ _ _ _ _ Ht0 Hq0 _ _ _ _ _ _ Hr) as (T & Q & N).
    destruct r2; injection H as <- <- <-; (split; [|ta]).
    + apply N. discriminate.
    + rewrite awf_un. split; [exact Hn|auto].
  - injection H as <- <- <-. rewrite awf_un. auto.
Qed.

(* ---- sequential nodes ----------------------------------------------------------------------------- *)
Lemma seq_pass_a k a b al sa tr o st tr' r :
  seq_pass k a sa tr o = (st, tr', r) -> awf a al sa -> atr (Bin k a b) al tr ->
  awf (Bin k a b) al st /\ atr (Bin k a b) al tr'.
Proof.
  unfold seq_pass. intros H Hw Ht. destruct (eager_dtor k); inv H; split; auto with calca; try ta.
  rewrite awf_binc. auto with calca.
Qed.
Lemma seq_final_a k a b al sb tr o st tr' r :
  seq_final k b sb tr o = (st, tr', r) -> awf b al sb -> atr (Bin k a b) al tr ->
  awf (Bin k a b) al st /\ atr (Bin k a b) al tr'.
Proof.
  unfold seq_final. intros H Hw Ht. destruct (eager_dtor k); inv H; split; auto with calca; try ta.
  rewrite awf_binc. auto with calca.
Qed.

Lemma retry_err_a k a b al sa0 tra0 ra0 sbl trbl rbl :
  awf a al sa0 -> atr (Bin k a b) al tra0 ->
  awf b al sbl -> atr (Bin k a b) al trbl ->
  forall rem i sbe trbe rbe e i' p' st' tr' r',
  awf b al sbe -> atr (Bin k a b) al trbe ->
  retry_err a b (sa0, tra0, ra0) (sbl, trbl, rbl) rem i (sbe, trbe, rbe) e = (i', p', (st', tr', r')) ->
  atr (Bin k a b) al tr' /\
  (r' = None -> exists sa sb, st' = OCompl sa sb /\ awf a al sa /\ awf b al sb) /\
  (r' <> None -> awf (Bin k a b) al st').
Proof.
  intros Hqa Hta Hql Htl. induction rem as [|rem IH]; intros i sbe trbe rbe e i' p' st' tr' r' Hqe Hte H; simpl in H.
  - inv H. split; [ta|]. split; [discriminate|intros; apply awf_fin].
  - destruct rbe as [ob|].
    + destruct ob; try (inv H; split; [ta|]; split; [discriminate|intros; apply awf_fin]).
      destruct ra0 as [oa|].
      * destruct oa;
          try (inv H; split; [ta|]; split; [discriminate|intros _; rewrite awf_binc; auto with calca]).
        destruct (retry_err a b (sa0, tra0, Some (OErr e0)) (sbl, trbl, rbl) rem (S i) (sbl, trbl, rbl) e0)
          as [[i2 p2] [[st2 tr2] r2]] eqn:Hr.
        inv H. destruct (IH _ _ _ _ _ _ _ _ _ _ Hql Htl Hr) as (T & Q & N).
        split; [ta|auto].
      * inv H. split; [ta|]. split; [|congruence].
        intros _. exists sa0, OFin. auto with calca.
    + inv H. split; [ta|]. split; [|congruence].
      intros _. exists OFin, sbe. auto with calca.
Qed.

Lemma retry_node_a n a b al ns i' p' st' tr' r' tr0 st tr r :
  e_alloc (n_env ns) = al -> atr (Bin (BRetry n) a b) al tr0 -> atr (Bin (BRetry n) a b) al tr' ->
  (r' = None -> exists sa sb, st' = OCompl sa sb /\ awf a al sa /\ awf b al sb) ->
  (r' <> None -> awf (Bin (BRetry n) a b) al st') ->
  retry_node ns (i', p', (st', tr', r')) tr0 = (st, tr, r) ->
  awf (Bin (BRetry n) a b) al st /\ atr (Bin (BRetry n) a b) al tr.
Proof.
  intros Hn Ht0 Ht' Q N H. unfold retry_node in H. destruct r' as [o|].
  - injection H as <- <- <-. split; [apply N; discriminate|ta].
  - destruct (Q eq_refl) as (sa & sb & -> & Qa & Qb). injection H as <- <- <-. split; [|ta].
    rewrite awf_bin. auto.
Qed.

Lemma rbe_of_a k a b en oa cx sbe trbe rbe :
  StartA b -> rbe_of b en oa cx = (sbe, trbe, rbe) ->
  awf b (e_alloc en) sbe /\ atr (Bin k a b) (e_alloc en) trbe.
Proof.
  intros Sb H. unfold rbe_of in H.
  destruct oa; try (inv H; split; auto with calca; fail).
  destruct (Sb _ _ _ _ _ H) as [Q T]. split; [exact Q|apply atr_bin_b; exact T].
Qed.
Lemma r0bl_of_a k a b en r0a cx sbe trbe rbe :
  StartA b -> r0bl_of b en r0a cx = (sbe, trbe, rbe) ->
  awf b (e_alloc en) sbe /\ atr (Bin k a b) (e_alloc en) trbe.
Proof.
  intros Sb H. unfold r0bl_of in H.
  destruct (res_err r0a); try (inv H; split; auto with calca; fail).
  destruct (Sb _ _ _ _ _ H) as [Q T]. split; [exact Q|apply atr_bin_b; exact T].
Qed.

Lemma a_done_a k a b al ns sa tra oa cx sa0 tra0 ra0 sbl trbl rbl st tr r :
  is_seq k = true -> StartA b ->
  e_alloc (n_env ns) = al -> awf a al sa -> atr (Bin k a b) al tra ->
  awf a al sa0 -> atr (Bin k a b) al tra0 ->
  awf b al sbl -> atr (Bin k a b) al trbl ->
  a_done k a b ns sa tra oa cx (sa0, tra0, ra0) (sbl, trbl, rbl) = (st, tr, r) ->
  awf (Bin k a b) al st /\ atr (Bin k a b) al tr.
Proof.
  intros Hk Sb Hn Hwa Hta Hqa0 Hta0 Hql Htl H.
  assert (Gen : match k with BRetry _ => True | _ =>
      match after_first k (n_env ns) oa with
      | inl o => seq_pass k a sa tra o
      | inr (en2, sv) =>
          let '(sb, trb, rb) := start b en2 cx in
          match rb with
          | None => (ONode (ns_set_saved (ns_set_ph ns PSecond) sv) OFin sb, (tra ++ dtor a sa) ++ trb, None)
          | Some ob => seq_final k b sb ((tra ++ dtor a sa) ++ trb) (after_second k sv ob)
          end
      end = (st, tr, r) -> awf (Bin k a b) al st /\ atr (Bin k a b) al tr end).
  { destruct k; try discriminate Hk; try exact I; intros H'.
    all: destruct (after_first _ (n_env ns) oa) as [o'|[en2 sv]] eqn:Haf;
      [eapply seq_pass_a; eassumption|];
      apply after_first_alloc in Haf;
      destruct (start b en2 cx) as [[sb trb] rb] eqn:Hb;
      destruct (Sb _ _ _ _ _ Hb) as [Hqb Htb]; rewrite Haf, Hn in Hqb, Htb;
      match goal with |- awf (Bin ?kk _ _) _ _ /\ _ =>
        assert (Htb' : atr (Bin kk a b) al trb) by (apply atr_bin_b; exact Htb) end;
      destruct rb;
      [eapply seq_final_a; [eassumption|assumption|ta]
      |injection H' as <- <- <-; split; [|ta]; rewrite awf_bin; split; [exact Hn|split; auto with calca]]. }
  unfold a_done in H. destruct k; try (exact (Gen H)).
  clear Gen. unfold retry_a_done in H.
  destruct oa; try (injection H as <- <- <-; split; [rewrite awf_binc; auto with calca|exact Hta]).
  destruct (rbe_of b (n_env ns) (OErr e) cx) as [[sbe trbe] rbe] eqn:Hrbe.
  destruct (rbe_of_a (BRetry n) a b _ _ _ _ _ _ Sb Hrbe) as [Qe Te]. rewrite Hn in Qe, Te.
  destruct (retry_err a b (sa0, tra0, ra0) (sbl, trbl, rbl) (n - n_iter ns) (n_iter ns) (sbe, trbe, rbe) e)
    as [[i' p'] [[st' tr'] r']] eqn:Hr.
  destruct (retry_err_a _ _ _ _ _ _ _ _ _ _ Hqa0 Hta0 Hql Htl _ _ _ _ _ _ _ _ _ _ _ Qe Te Hr) as (T & Q & N).
  eapply retry_node_a; [exact Hn| |exact T|exact Q|exact N|exact H]. ta.
Qed.

Lemma b_done_a k a b al ns sb trb ob sa0 tra0 ra0 sbl trbl rbl st tr r :
  is_seq k = true ->
  e_alloc (n_env ns) = al -> awf b al sb -> atr (Bin k a b) al trb ->
  awf a al sa0 -> atr (Bin k a b) al tra0 ->
  awf b al sbl -> atr (Bin k a b) al trbl ->
  b_done k a b ns sb trb ob (sa0, tra0, ra0) (sbl, trbl, rbl) = (st, tr, r) ->
  awf (Bin k a b) al st /\ atr (Bin k a b) al tr.
Proof.
  intros Hk Hn Hwb Htb Hqa0 Hta0 Hql Htl H. unfold b_done in H.
  destruct k; try (eapply seq_final_a; eassumption).
  rewrite retry_b_done_eq in H.
  destruct (is_val ob); [|injection H as <- <- <-; split; [apply awf_fin|ta]].
  destruct ra0 as [oa|].
  - destruct oa; try (injection H as <- <- <-; split; [rewrite awf_binc; auto with calca|ta]).
    destruct (retry_err a b (sa0, tra0, Some (OErr e)) (sbl, trbl, rbl) (n - n_iter ns) (n_iter ns) (sbl, trbl, rbl) e)
      as [[i' p'] [[st' tr'] r']] eqn:Hr.
    destruct (retry_err_a _ _ _ _ _ _ _ _ _ _ Hqa0 Hta0 Hql Htl _ _ _ _ _ _ _ _ _ _ _ Hql Htl Hr) as (T & Q & N).
    eapply retry_node_a; [exact Hn| |exact T|exact Q|exact N|exact H]. ta.
  - injection H as <- <- <-. split; [|ta]. rewrite awf_bin. auto with calca.
Qed.

(* ---- concurrent nodes ----------------------------------------------------------------------------- *)
Lemma conc_reap_a k c alc sc tr r sc' tr' r' :
  conc_reap k c (sc, tr, r) = (sc', tr', r') -> awf c alc sc -> atr c alc tr ->
  awf c alc sc' /\ atr c alc tr'.
Proof.
  unfold conc_reap. intros H Hq Ht.
  destruct k; try (inv H; auto; fail).
  destruct r as [o|]; [destruct o|]; inv H; auto.
  split; [apply awf_fin|]. apply atr_app; [exact Ht|apply dtor_a; exact Hq].
Qed.

Lemma finish_a k a b al ns sa sb tr fin st tr' r :
  finish_conc k a b ns sa sb tr fin false = (st, tr', r) ->
  e_alloc (n_env ns) = al -> awf a al sa -> awf b al sb -> atr (Bin k a b) al tr ->
  awf (Bin k a b) al st /\ atr (Bin k a b) al tr'.
Proof.
  intros H Hn Ha Hb Ht. destruct fin as [o|].
  - unfold finish_conc in H. cbn [andb] in H.
    destruct k, o; injection H as <- <- <-;
      first [split; [rewrite awf_binc; auto|ta] | split; [apply awf_fin|ta]].
  - rewrite finish_none in H. injection H as <- <- <-. rewrite awf_bin. auto.
Qed.

Lemma ccd_alloc k ns i o ns2 nw fin :
  conc_child_done k ns i o = (ns2, nw, fin) -> e_alloc (n_env ns2) = e_alloc (n_env ns).
Proof. intros H. apply ccd_spec in H. destruct H as (E & _). rewrite E. reflexivity. Qed.

Lemma conc_b_done_a k a b al ns sa sb' tr ob cx st tr' r :
  StopA a ->
  e_alloc (n_env ns) = al -> awf a al sa -> awf b al sb' -> atr (Bin k a b) al tr ->
  conc_b_done k a b ns sa sb' tr ob cx = (st, tr', r) ->
  awf (Bin k a b) al st /\ atr (Bin k a b) al tr'.
Proof.
  intros Sa Hn Ha Hb Ht H. unfold conc_b_done in H.
  destruct (conc_child_done k ns true ob) as [[ns1 newly] fin] eqn:Hc.
  apply ccd_alloc in Hc. rewrite Hn in Hc.
  destruct fin as [o1|].
  - eapply finish_a; eauto.
  - destruct newly.
    + destruct (stop a sa cx) as [[sa0 tra0] ra0] eqn:Hs.
      destruct (Sa _ _ _ _ _ _ Hs Ha) as [Ha0 Hta0].
      destruct (conc_reap k a (sa0, tra0, ra0)) as [[sa' tra] ra] eqn:Hr.
      destruct (conc_reap_a _ _ _ _ _ _ _ _ _ Hr Ha0 Hta0) as (Ha' & Hta).
      apply (atr_bin_a k a b) in Hta.
      destruct ra as [oa|].
      * destruct (conc_child_done k ns1 false oa) as [[ns2 x] fin2] eqn:Hc2.
        apply ccd_alloc in Hc2. rewrite Hc in Hc2.
        eapply finish_a; eauto with calca.
      * injection H as <- <- <-. rewrite awf_bin. auto with calca.
    + injection H as <- <- <-. rewrite awf_bin. auto.
Qed.

Lemma conc_a_done_a k a b al ns sa' sb tr oa cx st tr' r :
  StopA b ->
  e_alloc (n_env ns) = al -> awf a al sa' -> awf b al sb -> atr (Bin k a b) al tr ->
  conc_a_done k a b ns sa' sb tr oa cx = (st, tr', r) ->
  awf (Bin k a b) al st /\ atr (Bin k a b) al tr'.
Proof.
  intros Sb Hn Ha Hb Ht H. unfold conc_a_done in H.
  destruct (conc_child_done k ns false oa) as [[ns1 newly] fin] eqn:Hc.
  apply ccd_alloc in Hc. rewrite Hn in Hc.
  destruct fin as [o1|].
  - eapply finish_a; eauto.
  - destruct newly.
    + destruct (stop b sb cx) as [[sb0 trb0] rb0] eqn:Hs.
      destruct (Sb _ _ _ _ _ _ Hs Hb) as [Hb0 Htb0].
      destruct (conc_reap k b (sb0, trb0, rb0)) as [[sb' trb] rb] eqn:Hr.
      destruct (conc_reap_a _ _ _ _ _ _ _ _ _ Hr Hb0 Htb0) as (Hb' & Htb).
      apply (atr_bin_b k a b) in Htb.
      destruct rb as [ob|].
      * destruct (conc_child_done k ns1 true ob) as [[ns2 x] fin2] eqn:Hc2.
        apply ccd_alloc in Hc2. rewrite Hc in Hc2.
        eapply finish_a; eauto with calca.
      * injection H as <- <- <-. rewrite awf_bin. auto with calca.
    + injection H as <- <- <-. rewrite awf_bin. auto.
Qed.

Lemma start_conc_a k a b en cx st tr r :
  StartA a -> StopA a -> StartA b ->
  start_conc k a b en cx = (st, tr, r) ->
  awf (Bin k a b) (e_alloc en) st /\ atr (Bin k a b) (e_alloc en) tr.
Proof.
  intros Sa Pa Sb H. unfold start_conc in H.
  destruct (start a (env_own en (e_stopped en)) cx) as [[sa0 tra0] ra0] eqn:Ha.
  destruct (Sa _ _ _ _ _ Ha) as [Hqa0 Hta0]. change (e_alloc (env_own en (e_stopped en))) with (e_alloc en) in *.
  destruct (conc_reap k a (sa0, tra0, ra0)) as [[sa tra] ra] eqn:Hra.
  destruct (conc_reap_a _ _ _ _ _ _ _ _ _ Hra Hqa0 Hta0) as (Hqa & Hta).
  apply (atr_bin_a k a b) in Hta.
  destruct (match ra with
            | Some oa => conc_child_done k (conc_ns0 en) false oa
            | None => (conc_ns0 en, false, None) end) as [[ns1 x1] x2] eqn:Hm.
  assert (Hn1 : e_alloc (n_env ns1) = e_alloc en).
  { destruct ra.
    - apply ccd_alloc in Hm. exact Hm.
    - inv Hm. reflexivity. }
  destruct (start b (env_own en (own_stop ns1)) cx) as [[sb0 trb0] rb0] eqn:Hb.
  destruct (Sb _ _ _ _ _ Hb) as [Hqb0 Htb0]. change (e_alloc (env_own en (own_stop ns1))) with (e_alloc en) in *.
  destruct (conc_reap k b (sb0, trb0, rb0)) as [[sb trb] rb] eqn:Hrb.
  destruct (conc_reap_a _ _ _ _ _ _ _ _ _ Hrb Hqb0 Htb0) as (Hqb & Htb).
  apply (atr_bin_b k a b) in Htb.
  destruct rb as [ob|].
  - eapply conc_b_done_a; [exact Pa|exact Hn1|exact Hqa|exact Hqb| |exact H]. ta.
  - injection H as <- <- <-. rewrite awf_bin. auto with calca.
Qed.

Lemma opt_stop_a k c alc cx (d : bool) sc sc' tr r :
  StopA c -> awf c alc sc ->
  (if d then (sc, [], None) else conc_reap k c (stop c sc cx)) = (sc', tr, r) ->
  awf c alc sc' /\ atr c alc tr.
Proof.
  intros P Hq H. destruct d; [inv H; auto with calca|].
  destruct (stop c sc cx) as [[s0 t0] r0] eqn:Hs.
  destruct (P _ _ _ _ _ _ Hs Hq) as [Q T].
  exact (conc_reap_a _ _ _ _ _ _ _ _ _ H Q T).
Qed.

Lemma stop_conc_a k a b al ns sa sb cx st' tr r :
  StopA a -> StopA b ->
  e_alloc (n_env ns) = al -> awf a al sa -> awf b al sb ->
  stop_conc k a b ns sa sb cx = (st', tr, r) ->
  awf (Bin k a b) al st' /\ atr (Bin k a b) al tr.
Proof.
  intros Pa Pb Hn Hqa Hqb H. unfold stop_conc in H. cbv zeta in H.
  change (leaky k) with false in H.
  destruct (if bdone (ns_set_own (stopped_ns ns) true) then (sb, [], None) else conc_reap k b (stop b sb cx))
    as [[sb' trb] rb] eqn:Hb.
  destruct (opt_stop_a _ _ _ _ _ _ _ _ _ Pb Hqb Hb) as [Hqb' Htb].
  apply (atr_bin_b k a b) in Htb.
  destruct (match rb with
            | Some ob => conc_child_done k (ns_set_own (stopped_ns ns) true) true ob
            | None => (ns_set_own (stopped_ns ns) true, false, None) end) as [[ns2 x] fin1] eqn:Hm.
  assert (Hn2 : e_alloc (n_env ns2) = al).
  { destruct rb.
    - apply ccd_alloc in Hm. rewrite Hm. exact Hn.
    - inv Hm. reflexivity. }
  destruct fin1 as [o1|].
  - eapply finish_a; eauto.
  - destruct (if adone ns2 then (sa, [], None) else conc_reap k a (stop a sa cx)) as [[sa' tra] ra] eqn:Ha.
    destruct (opt_stop_a _ _ _ _ _ _ _ _ _ Pa Hqa Ha) as [Hqa' Hta].
    apply (atr_bin_a k a b) in Hta.
    destruct (match ra with
              | Some oa => conc_child_done k ns2 false oa
              | None => (ns2, false, None) end) as [[ns3 y] fin2] eqn:Hm2.
    assert (Hn3 : e_alloc (n_env ns3) = al).
    { destruct ra.
      - apply ccd_alloc in Hm2. rewrite Hm2. exact Hn2.
      - inv Hm2. exact Hn2. }
    eapply finish_a; eauto with calca.
Qed.

Lemma child_ev_a thr cat c alc cx sc id oin o sc' tr r hit :
  LeafevA c -> awf c alc sc ->
  child_ev thr cat c sc id oin o cx = ((sc', tr, r), hit) ->
  awf c alc sc' /\ atr c alc tr.
Proof.
  intros L Hq H. apply child_ev_none in H. destruct H as (oin' & ro & h & E & _).
  exact (L _ _ _ _ _ _ _ _ _ E Hq).
Qed.

Lemma opt_leafev_a k c alc (d : bool) sc (X : res * bool) sc' tr r hit :
  (forall s1 t1 r1 h1, X = ((s1, t1, r1), h1) -> awf c alc s1 /\ atr c alc t1) -> awf c alc sc ->
  (if d then ((sc, [], None), false) else reap_ev k c X) = ((sc', tr, r), hit) ->
  awf c alc sc' /\ atr c alc tr.
Proof.
  intros L Hq H. destruct d; [inv H; auto with calca|].
  destruct X as [[[s0 t0] r0] h0] eqn:Hs.
  destruct (L _ _ _ _ eq_refl) as [Q T].
  unfold reap_ev in H. simpl in H. injection H as H Hh.
  exact (conc_reap_a _ _ _ _ _ _ _ _ _ H Q T).
Qed.

Lemma leafev_conc_a k a b al ns sa sb id o cx st' tr r hit :
  LeafevA a -> LeafevA b -> StopA a -> StopA b ->
  e_alloc (n_env ns) = al -> awf a al sa -> awf b al sb ->
  leafev_conc k a b ns sa sb id o cx = (st', tr, r, hit) ->
  awf (Bin k a b) al st' /\ atr (Bin k a b) al tr.
Proof.
  intros La Lb Pa Pb Hn Hqa Hqb H. unfold leafev_conc in H.
  destruct (if adone ns then (sa, [], None, false)
            else reap_ev k a (child_ev (bin_throw k false) false a sa id (tmode o) o cx))
    as [[[sa' tra] ra] hita] eqn:Ha.
  destruct (opt_leafev_a k a al _ _ _ _ _ _ _
              (fun s1 t1 r1 h1 E => child_ev_a _ _ _ _ _ _ _ _ _ _ _ _ _ La Hqa E) Hqa Ha) as [Hqa' Hta].
  apply (atr_bin_a k a b) in Hta.
  destruct hita.
  - destruct ra as [oa|].
    + injection H as H Hhit. eapply conc_a_done_a; [exact Pb|exact Hn|exact Hqa'|exact Hqb|exact Hta|exact H].
    + inv H. rewrite awf_bin. auto.
  - destruct (if bdone ns then (sb, [], None, false) else reap_ev k b (leafev b sb id (tmode o) cx))
      as [[[sb' trb] rb] hitb] eqn:Hb.
    destruct (opt_leafev_a k b al _ _ _ _ _ _ _
                (fun s1 t1 r1 h1 E => Lb _ _ _ _ _ _ _ _ _ E Hqb) Hqb Hb) as [Hqb' Htb].
    apply (atr_bin_b k a b) in Htb.
    destruct rb as [ob|].
    + injection H as H Hhit. eapply conc_b_done_a; [exact Pa|exact Hn|exact Hqa|exact Hqb'|exact Htb|exact H].
    + inv H. rewrite awf_bin. auto.
Qed.

(* ---- the main induction --------------------------------------------------------------------------- *)
Lemma atr_sconn e al : atr e al (sconn e al).
Proof. apply atr_aev. apply sconn_aev. Qed.
Lemma atr_un_pre k s en : atr (Un k s) (e_alloc en) (un_pre k en).
Proof. destruct k; try apply atr_nil. repeat constructor. Qed.

Lemma all_a e : StartA e /\ StopA e /\ LeafevA e.
Proof.
  induction e as [v|x| |n|id|id|id c|id lvl| |idc|k s IH|k a IHa b IHb];
    try (split; [|split];
         [intros en cx st tr r H; split; [destruct st; exact I|];
          simpl in H; repeat (match type of H with context[if ?c then _ else _] => destruct c end);
          inv H; repeat constructor
         |intros al cx st st' tr r H Hq; split; [destruct st'; exact I|];
          destruct st as [|cc ss| | |]; simpl in H; try (inv H; constructor);
          destruct cc, ss; inv H; repeat constructor
         |intros al cx st i o st' tr r hit H Hq; split; [destruct st'; exact I|];
          destruct st as [|cc ss| | |]; simpl in H; try (inv H; constructor);
          repeat (match type of H with context[if ?c then _ else _] => destruct c
                                  | context[match ?c with _ => _ end] => destruct c end);
          inv H; repeat constructor]).
  - (* Un *)
    destruct IH as (Ss & Ps & Ls). split; [|split].
    + intros en cx st tr r H. rewrite start_un in H.
      destruct (sthrows (Un k s));
        [unfold start_thrown in H; injection H as <- <- <-; split; [apply awf_fin|exact (atr_sconn (Un k s) (e_alloc en))]|].
      destruct (start s (un_env k en) cx) as [[sc tr1] r1] eqn:Hs.
      destruct (Ss _ _ _ _ _ Hs) as [Hq Ht]. rewrite alloc_un in Hq, Ht.
      apply atr_un in Ht.
      assert (Htp : atr (Un k s) (e_alloc en) (un_pre k en ++ tr1)) by (apply atr_app; [apply atr_un_pre|exact Ht]).
      destruct r1 as [o1|].
      * eapply un_fin_a; [apply un_nst_alloc|exact Hq|exact Htp|exact Ht|exact Hq|exact H].
      * injection H as <- <- <-. rewrite awf_un. split; [|exact Htp]. split; [apply un_nst_alloc|exact Hq].
    + intros al cx st st' tr r H Hq.
      destruct st as [|c sn|ns sc sb|sa sb|vv];
        [rewrite stop_fin in H; inv H; auto with calca
        |simpl in H; inv H; auto with calca
        |
        |rewrite stop_inert_st in H by exact I; inv H; auto with calca
        |simpl in H; inv H; auto with calca].
      rewrite awf_un in Hq. destruct Hq as [Hn Hq].
      destruct (is_unst k) eqn:Hk.
      * apply is_unst_true in Hk. subst k. rewrite stop_un_unst in H. inv H.
        rewrite awf_un. auto with calca.
      * rewrite stop_un in H by exact Hk. unfold stop_un_body in H.
        destruct (un_own k && own_stop ns)%bool.
        { inv H. rewrite awf_un. auto with calca. }
        set (ns2 := if un_own k then ns_set_own (stopped_ns ns) true else stopped_ns ns) in H.
        assert (Hn2 : e_alloc (n_env ns2) = al) by (unfold ns2; destruct (un_own k); exact Hn).
        clearbody ns2.
        destruct (stop s sc cx) as [[sc' tr1] r1] eqn:Hs.
        destruct (Ps _ _ _ _ _ _ Hs Hq) as [Hq' Ht]. apply atr_un in Ht.
        destruct r1 as [o1|].
        -- destruct (start s (un_env k (n_env ns2)) cx) as [[sc0 tr0] rr0] eqn:H0.
           destruct (Ss _ _ _ _ _ H0) as [Hq0 Ht0]. rewrite alloc_un, Hn2 in Hq0, Ht0.
           apply atr_un in Ht0.
           eapply un_fin_a; [exact Hn2|exact Hq'|exact Ht|exact Ht0|exact Hq0|exact H].
        -- injection H as <- <- <-. rewrite awf_un. auto.
    + intros al cx st i o st' tr r hit H Hq.
      destruct st as [|c sn|ns sc sb|sa sb|vv];
        [rewrite leafev_fin in H; inv H; auto with calca
        |simpl in H; inv H; auto with calca
        |
        |rewrite leafev_inert_st in H by exact I; inv H; auto with calca
        |simpl in H; inv H; auto with calca].
      rewrite awf_un in Hq. destruct Hq as [Hn Hq].
      rewrite leafev_un in H. unfold leafev_un_body in H.
      destruct (child_ev (un_throw k) (un_catch k) s sc i (un_in k o) o cx) as [[[sc' tr1] r1] h1] eqn:Hs.
      destruct (child_ev_a _ _ _ _ _ _ _ _ _ _ _ _ _ Ls Hq Hs) as [Hq' Ht]. apply atr_un in Ht.
      destruct r1 as [o1|].
      * injection H as H Hh.
        destruct (start s (un_env k (n_env ns)) cx) as [[sc0 tr0] rr0] eqn:H0.
        destruct (Ss _ _ _ _ _ H0) as [Hq0 Ht0]. rewrite alloc_un, Hn in Hq0, Ht0.
        apply atr_un in Ht0.
        eapply un_fin_a; [exact Hn|exact Hq'|exact Ht|exact Ht0|exact Hq0|exact H].
      * destruct (un_own k && fired (e_ss (n_env ns)) tr1)%bool eqn:Hf.
        2:{ injection H as <- <- <- _. rewrite awf_un. auto. }
        unfold fired_body in H.
        destruct (if own_stop ns then (ns, (sc', [], None)) else (ns_set_own ns true, stop s sc' cx))
          as [ns1 [[sc1 tr2] r2]] eqn:Hm.
        assert (Hm' : e_alloc (n_env ns1) = al /\ awf s (un_al k al) sc1 /\ atr (Un k s) al tr2).
        { destruct (own_stop ns).
          - injection Hm as <- <- <- <-. auto with calca.
          - destruct (stop s sc' cx) as [[sc1' tr2'] r2'] eqn:Hst. injection Hm as <- <- <- <-.
            destruct (Ps _ _ _ _ _ _ Hst Hq') as [Q T].
            split; [exact Hn|]. split; [exact Q|apply atr_un; exact T]. }
        destruct Hm' as (Hn1 & Hq1 & Ht2).
        destruct r2 as [oc|].
        -- injection H as H Hh. eapply un_done_a; [exact H|exact Hq1|ta].
        -- destruct (leafev s sc1 i o cx) as [[[sc3 tr3] r3] h3] eqn:Hs3.
           destruct (Ls _ _ _ _ _ _ _ _ _ Hs3 Hq1) as [Hq3 Ht3]. apply atr_un in Ht3.
           destruct r3 as [oc|].
           ++ injection H as H Hh. eapply un_done_a; [exact H|exact Hq3|ta].
           ++ injection H as <- <- <- _. rewrite awf_un. split; [auto|ta].
  - (* Bin *)
    destruct IHa as (Sa & Pa & La). destruct IHb as (Sb & Pb & Lb).
    destruct (is_seq k) eqn:Hk.
    + assert (R0 : forall en cx sa0 tra0 ra0 sbl trbl rbl,
                 start a en cx = (sa0, tra0, ra0) ->
                 r0bl_of b en (sa0, tra0, ra0) cx = (sbl, trbl, rbl) ->
                 awf a (e_alloc en) sa0 /\ atr (Bin k a b) (e_alloc en) tra0 /\
                 awf b (e_alloc en) sbl /\ atr (Bin k a b) (e_alloc en) trbl).
      { intros en cx sa0 tra0 ra0 sbl trbl rbl E1 E2.
        destruct (Sa _ _ _ _ _ E1) as [Q T]. apply (atr_bin_a k a b) in T.
        destruct (r0bl_of_a k a b _ _ _ _ _ _ Sb E2) as [Q2 T2]. auto. }
      split; [|split].
      * intros en cx st tr r H. rewrite start_bin_seq in H by exact Hk.
        destruct (sthrows (Bin k a b));
          [unfold start_thrown in H; injection H as <- <- <-; split; [apply awf_fin|exact (atr_sconn (Bin k a b) (e_alloc en))]|].
        unfold start_seq in H.
        destruct (start a en cx) as [[sa tra] ra] eqn:Ha.
        destruct (Sa _ _ _ _ _ Ha) as [Hqa Hta]. apply (atr_bin_a k a b) in Hta.
        destruct ra as [oa|].
        -- destruct (rbe_of b en oa cx) as [[sbl trbl] rbl] eqn:Hrb.
           destruct (rbe_of_a k a b _ _ _ _ _ _ Sb Hrb) as [Ql Tl].
           eapply a_done_a with (ns := mk_nst PFirst en);
             [exact Hk|exact Sb|reflexivity|exact Hqa|exact Hta|exact Hqa|exact Hta|exact Ql|exact Tl|exact H].
        -- injection H as <- <- <-. rewrite awf_bin. split; [|exact Hta].
           split; [reflexivity|]. split; auto with calca.
      * intros al cx st st' tr r H Hq.
        destruct st as [|c sn|ns sa sb|sa sb|vv];
          [rewrite stop_fin in H; inv H; auto with calca
          |simpl in H; inv H; auto with calca
          |
          |rewrite stop_inert_st in H by exact I; inv H; auto with calca
          |simpl in H; inv H; auto with calca].
        rewrite awf_bin in Hq. destruct Hq as (Hn & Hqa & Hqb).
        rewrite stop_bin, Hk in H.
        destruct (ph ns).
        -- unfold stop_seq1 in H. destruct (stop a sa cx) as [[sa' tra] ra] eqn:Ha.
           destruct (Pa _ _ _ _ _ _ Ha Hqa) as [Hqa' Hta]. apply (atr_bin_a k a b) in Hta.
           destruct ra as [oa|].
           ++ destruct (start a (n_env (stopped_ns ns)) cx) as [[sa0 tra0] ra0] eqn:E1.
              destruct (r0bl_of b (n_env (stopped_ns ns)) (sa0, tra0, ra0) cx) as [[sbl trbl] rbl] eqn:E2.
              destruct (R0 _ _ _ _ _ _ _ _ E1 E2) as (Q1 & T1 & Q2 & T2).
              change (e_alloc (n_env (stopped_ns ns))) with (e_alloc (n_env ns)) in Q1, T1, Q2, T2.
              rewrite Hn in Q1, T1, Q2, T2.
              eapply a_done_a with (ns := stopped_ns ns);
                [exact Hk|exact Sb|exact Hn|exact Hqa'|exact Hta|exact Q1|exact T1|exact Q2|exact T2|exact H].
           ++ injection H as <- <- <-. rewrite awf_bin. auto.
        -- unfold stop_seq2 in H. destruct (stop b sb cx) as [[sb' trb] rb] eqn:Hb.
           destruct (Pb _ _ _ _ _ _ Hb Hqb) as [Hqb' Htb]. apply (atr_bin_b k a b) in Htb.
           destruct rb as [ob|].
           ++ destruct (start a (n_env (stopped_ns ns)) cx) as [[sa0 tra0] ra0] eqn:E1.
              destruct (r0bl_of b (n_env (stopped_ns ns)) (sa0, tra0, ra0) cx) as [[sbl trbl] rbl] eqn:E2.
              destruct (R0 _ _ _ _ _ _ _ _ E1 E2) as (Q1 & T1 & Q2 & T2).
              change (e_alloc (n_env (stopped_ns ns))) with (e_alloc (n_env ns)) in Q1, T1, Q2, T2.
              rewrite Hn in Q1, T1, Q2, T2.
              eapply b_done_a with (ns := stopped_ns ns);
                [exact Hk|exact Hn|exact Hqb'|exact Htb|exact Q1|exact T1|exact Q2|exact T2|exact H].
           ++ injection H as <- <- <-. rewrite awf_bin. auto.
        -- unfold stop_seq2 in H. destruct (stop b sb cx) as [[sb' trb] rb] eqn:Hb.
           destruct (Pb _ _ _ _ _ _ Hb Hqb) as [Hqb' Htb]. apply (atr_bin_b k a b) in Htb.
           destruct rb as [ob|].
           ++ destruct (start a (n_env (stopped_ns ns)) cx) as [[sa0 tra0] ra0] eqn:E1.
              destruct (r0bl_of b (n_env (stopped_ns ns)) (sa0, tra0, ra0) cx) as [[sbl trbl] rbl] eqn:E2.
              destruct (R0 _ _ _ _ _ _ _ _ E1 E2) as (Q1 & T1 & Q2 & T2).
              change (e_alloc (n_env (stopped_ns ns))) with (e_alloc (n_env ns)) in Q1, T1, Q2, T2.
              rewrite Hn in Q1, T1, Q2, T2.
              eapply b_done_a with (ns := stopped_ns ns);
                [exact Hk|exact Hn|exact Hqb'|exact Htb|exact Q1|exact T1|exact Q2|exact T2|exact H].
           ++ injection H as <- <- <-. rewrite awf_bin. auto.
      * intros al cx st i o st' tr r hit H Hq.
        destruct st as [|c sn|ns sa sb|sa sb|vv];
          [rewrite leafev_fin in H; inv H; auto with calca
          |simpl in H; inv H; auto with calca
          |
          |rewrite leafev_inert_st in H by exact I; inv H; auto with calca
          |simpl in H; inv H; auto with calca].
        rewrite awf_bin in Hq. destruct Hq as (Hn & Hqa & Hqb).
        rewrite leafev_bin_seq in H by exact Hk.
        destruct (ph ns).
        -- unfold leafev_seq1 in H.
           destruct (child_ev (bin_throw k false) (bin_catch k false) a sa i (bin_in k false o) o cx)
             as [[[sa' tra] ra] h1] eqn:Ha.
           destruct (child_ev_a _ _ _ _ _ _ _ _ _ _ _ _ _ La Hqa Ha) as [Hqa' Hta]. apply (atr_bin_a k a b) in Hta.
           destruct ra as [oa|].
           ++ injection H as H Hh.
              destruct (start a (n_env ns) cx) as [[sa0 tra0] ra0] eqn:E1.
              destruct (r0bl_of b (n_env ns) (sa0, tra0, ra0) cx) as [[sbl trbl] rbl] eqn:E2.
              destruct (R0 _ _ _ _ _ _ _ _ E1 E2) as (Q1 & T1 & Q2 & T2). rewrite Hn in Q1, T1, Q2, T2.
              eapply a_done_a;
                [exact Hk|exact Sb|exact Hn|exact Hqa'|exact Hta|exact Q1|exact T1|exact Q2|exact T2|exact H].
           ++ injection H as <- <- <- _. rewrite awf_bin. auto.
        -- unfold leafev_seq2 in H.
           destruct (child_ev (bin_throw k true) (bin_catch k true) b sb i (bin_in k true o) o cx)
             as [[[sb' trb] rb] h1] eqn:Hb.
           destruct (child_ev_a _ _ _ _ _ _ _ _ _ _ _ _ _ Lb Hqb Hb) as [Hqb' Htb]. apply (atr_bin_b k a b) in Htb.
           destruct rb as [ob|].
           ++ injection H as H Hh.
              destruct (start a (n_env ns) cx) as [[sa0 tra0] ra0] eqn:E1.
              destruct (r0bl_of b (n_env ns) (sa0, tra0, ra0) cx) as [[sbl trbl] rbl] eqn:E2.
              destruct (R0 _ _ _ _ _ _ _ _ E1 E2) as (Q1 & T1 & Q2 & T2). rewrite Hn in Q1, T1, Q2, T2.
              eapply b_done_a;
                [exact Hk|exact Hn|exact Hqb'|exact Htb|exact Q1|exact T1|exact Q2|exact T2|exact H].
           ++ injection H as <- <- <- _. rewrite awf_bin. auto.
        -- unfold leafev_seq2 in H.
           destruct (child_ev (bin_throw k true) (bin_catch k true) b sb i (bin_in k true o) o cx)
             as [[[sb' trb] rb] h1] eqn:Hb.
           destruct (child_ev_a _ _ _ _ _ _ _ _ _ _ _ _ _ Lb Hqb Hb) as [Hqb' Htb]. apply (atr_bin_b k a b) in Htb.
           destruct rb as [ob|].
           ++ injection H as H Hh.
              destruct (start a (n_env ns) cx) as [[sa0 tra0] ra0] eqn:E1.
              destruct (r0bl_of b (n_env ns) (sa0, tra0, ra0) cx) as [[sbl trbl] rbl] eqn:E2.
              destruct (R0 _ _ _ _ _ _ _ _ E1 E2) as (Q1 & T1 & Q2 & T2). rewrite Hn in Q1, T1, Q2, T2.
              eapply b_done_a;
                [exact Hk|exact Hn|exact Hqb'|exact Htb|exact Q1|exact T1|exact Q2|exact T2|exact H].
           ++ injection H as <- <- <- _. rewrite awf_bin. auto.
    + split; [|split].
      * intros en cx st tr r H. rewrite start_bin_conc in H by exact Hk.
        destruct (sthrows (Bin k a b));
          [unfold start_thrown in H; injection H as <- <- <-; split; [apply awf_fin|exact (atr_sconn (Bin k a b) (e_alloc en))]|].
        eapply start_conc_a; [exact Sa|exact Pa|exact Sb|exact H].
      * intros al cx st st' tr r H Hq.
        destruct st as [|c sn|ns sa sb|sa sb|vv];
          [rewrite stop_fin in H; inv H; auto with calca
          |simpl in H; inv H; auto with calca
          |
          |rewrite stop_inert_st in H by exact I; inv H; auto with calca
          |simpl in H; inv H; auto with calca].
        rewrite awf_bin in Hq. destruct Hq as (Hn & Hqa & Hqb).
        rewrite stop_bin, Hk in H.
        destruct (own_stop ns).
        -- injection H as <- <- <-. rewrite awf_bin. auto with calca.
        -- eapply stop_conc_a; [exact Pa|exact Pb|exact Hn|exact Hqa|exact Hqb|exact H].
      * intros al cx st i o st' tr r hit H Hq.
        destruct st as [|c sn|ns sa sb|sa sb|vv];
          [rewrite leafev_fin in H; inv H; auto with calca
          |simpl in H; inv H; auto with calca
          |
          |rewrite leafev_inert_st in H by exact I; inv H; auto with calca
          |simpl in H; inv H; auto with calca].
        rewrite awf_bin in Hq. destruct Hq as (Hn & Hqa & Hqb).
        rewrite leafev_bin_conc in H by exact Hk.
        eapply leafev_conc_a; [exact La|exact Lb|exact Pa|exact Pb|exact Hn|exact Hqa|exact Hqb|exact H].
Qed.

Lemma start_a e : StartA e. Proof. exact (proj1 (all_a e)). Qed.
Lemma stop_a e : StopA e. Proof. exact (proj1 (proj2 (all_a e))). Qed.
Lemma leafev_a e : LeafevA e. Proof. exact (proj2 (proj2 (all_a e))). Qed.

(* ---- whole runs ------------------------------------------------------------------------------------ *)
Definition xaok (e : sexpr) (x : xev) : Prop := match x with XT t => aok e 0%nat t | _ => True end.
Definition IA (e : sexpr) (rs : run_state) : Prop := awf e 0%nat (r_st rs) /\ Forall (xaok e) (r_tr rs).

Lemma xaok_map e tr : atr e 0%nat tr -> Forall (xaok e) (map XT tr).
Proof. induction 1; simpl; constructor; auto. Qed.

Lemma absorb_ia e rs st tr o cx :
  IA e rs -> awf e 0%nat st -> atr e 0%nat tr -> IA e (absorb rs (st, tr, o) cx).
Proof.
  intros [H1 H2] Hw Ht. unfold IA, absorb.
  assert (Hall : Forall (xaok e) (r_tr rs ++ map XT tr)) by (apply Forall_app; split; [exact H2|apply xaok_map; exact Ht]).
  destruct o; simpl; split; auto. apply Forall_app. split; [exact Hall|]. repeat constructor.
Qed.
Lemma skip_ia e rs rs0 : IA e rs -> r_st rs0 = r_st rs -> r_tr rs0 = r_tr rs -> IA e (skip rs0).
Proof.
  intros [H1 H2] E1 E2. unfold IA, skip. simpl. rewrite E1, E2. split; [exact H1|].
  apply Forall_app. split; [exact H2|repeat constructor].
Qed.

Lemma run_ia e pre script : IA e (run e pre script).
Proof.
  apply run_invariant.
  - unfold run_start. destruct (cthrows e).
    + split; [apply awf_fin|]. simpl. apply Forall_app. split; [|repeat constructor].
      apply xaok_map. apply atr_aev. apply conn_aev.
    + destruct (start e (root_env pre) 0) as [[st tr] r] eqn:H.
      destruct (start_a e _ _ _ _ _ H) as [Hw Ht]. apply absorb_ia; [|exact Hw|exact Ht].
      split; [apply awf_fin|constructor].
  - intros rs ev HI. unfold run_ev. destruct ev as [id o cx|cx|c].
    + destruct (leafev e (r_st rs) id o cx) as [[[st tr] r] hit] eqn:H.
      destruct (leafev_a e _ _ _ _ _ _ _ _ _ H (proj1 HI)) as [Hw Ht].
      destruct hit; [apply absorb_ia; assumption|eapply skip_ia; [exact HI|reflexivity|reflexivity]].
    + destruct (r_stopped rs); [eapply skip_ia; [exact HI|reflexivity|reflexivity]|].
      destruct (stop e (r_st rs) cx) as [[st tr] r] eqn:H.
      destruct (stop_a e _ _ _ _ _ _ H (proj1 HI)) as [Hw Ht].
      apply absorb_ia; [exact HI|exact Hw|exact Ht].
    + destruct (dequeue c (r_queue rs)) as [[id q']|]; [|eapply skip_ia; [exact HI|reflexivity|reflexivity]].
      destruct (leafev e (r_st rs) id (OVal 0) c) as [[[st tr] r] hit] eqn:H.
      destruct (leafev_a e _ _ _ _ _ _ _ _ _ H (proj1 HI)) as [Hw Ht].
      destruct hit; [apply absorb_ia; [exact HI|exact Hw|exact Ht]|eapply skip_ia; [exact HI|reflexivity|reflexivity]].
Qed.

Lemma exec_ia e pre script : Forall (xaok e) (r_tr (exec e pre script)).
Proof.
  rewrite exec_run. destruct (run_ia e pre script) as [Hw Ht]. unfold run_end.
  destruct (r_roots (run e pre script)); [exact Ht|]. simpl.
  apply Forall_app. split; [exact Ht|]. constructor; [exact I|]. apply xaok_map. apply dtor_a. exact Hw.
Qed.

(* C12 for get_allocator: allocate() obtains its memory from exactly the allocator visible at that point - the
   innermost enclosing with_allocator, the root receiver's allocator 0 otherwise - and returns it to the same
   allocator: on destruction of the operation, during a run or by the owner at the end, and also when the
   connect of something below throws and the half-built operation is unwound *)
Theorem alloc_visible e pre script a :
  In (XT (TAlloc a)) (r_tr (exec e pre script)) \/ In (XT (TFree a)) (r_tr (exec e pre script)) ->
  alloc_at e 0%nat a.
Proof.
  pose proof (exec_ia e pre script) as H. rewrite Forall_forall in H.
  intros [Hin|Hin]; exact (H _ Hin).
Qed.

(* the same as a function: the allocators visible at the allocate nodes of e, left to right *)
Fixpoint allocs_from (e : sexpr) (al : nat) : list nat :=
  match e with
  | Un k s => (match k with UAllocate => [al] | _ => [] end) ++ allocs_from s (un_al k al)
  | Bin _ a b => allocs_from a al ++ allocs_from b al
  | _ => []
  end.
Definition static_allocs (e : sexpr) : list nat := allocs_from e 0%nat.

Lemma alloc_at_in e al a : alloc_at e al a -> In a (allocs_from e al).
Proof.
  induction 1; simpl.
  - left. reflexivity.
  - apply in_or_app. right. exact IHalloc_at.
  - apply in_or_app. left. exact IHalloc_at.
  - apply in_or_app. right. exact IHalloc_at.
Qed.
Lemma in_alloc_at e : forall al a, In a (allocs_from e al) -> alloc_at e al a.
Proof.
  induction e; simpl; intros al a0 H; try contradiction.
  - apply in_app_or in H. destruct H as [H|H].
    + destruct k; try contradiction. destruct H as [<-|[]]. apply aa_here.
    + apply aa_un. apply IHe. exact H.
  - apply in_app_or in H. destruct H as [H|H]; [apply aa_bin_a|apply aa_bin_b]; auto.
Qed.

Theorem alloc_static e pre script a :
  In (XT (TAlloc a)) (r_tr (exec e pre script)) \/ In (XT (TFree a)) (r_tr (exec e pre script)) ->
  In a (static_allocs e).
Proof. intros H. apply alloc_at_in. eapply alloc_visible. exact H. Qed.

(* spelled out along the path: the innermost enclosing with_allocator wins *)
Inductive alloc_path : sexpr -> list frame -> Prop :=
| ap_here s : alloc_path (Un UAllocate s) []
| ap_un k s p : alloc_path s p -> alloc_path (Un k s) (FUn k :: p)
| ap_bin_a k a b p : alloc_path a p -> alloc_path (Bin k a b) (FBin k :: p)
| ap_bin_b k a b p : alloc_path b p -> alloc_path (Bin k a b) (FBin k :: p).
Fixpoint inner_al (q : list frame) (d : nat) : nat :=
  match q with
  | [] => d
  | FUn (UWithAlloc a) :: _ => a
  | _ :: q' => inner_al q' d
  end.
Definition frame_al (f : frame) (al : nat) : nat := match f with FUn k => un_al k al | FBin _ => al end.

Lemma alloc_at_path e al a :
  alloc_at e al a -> exists p, alloc_path e p /\ a = fold_left (fun x f => frame_al f x) p al.
Proof.
  induction 1 as [s al|k s al a _ (p & P & E)|k a b al x _ (p & P & E)|k a b al x _ (p & P & E)].
  - exists []. split; [constructor|reflexivity].
  - exists (FUn k :: p). split; [constructor; exact P|exact E].
  - exists (FBin k :: p). split; [apply ap_bin_a; exact P|exact E].
  - exists (FBin k :: p). split; [apply ap_bin_b; exact P|exact E].
Qed.
Lemma fold_inner_al p : forall al, fold_left (fun x f => frame_al f x) p al = inner_al (rev p) al.
Proof.
  induction p as [|f p IH] using rev_ind; intros al; [reflexivity|].
  rewrite fold_left_app, rev_app_distr. simpl. rewrite IH.
  destruct f as [k|k]; simpl; [destruct k; reflexivity|reflexivity].
Qed.

Theorem alloc_innermost e pre script a :
  In (XT (TAlloc a)) (r_tr (exec e pre script)) \/ In (XT (TFree a)) (r_tr (exec e pre script)) ->
  exists p, alloc_path e p /\ a = inner_al (rev p) 0%nat.
Proof.
  intros H. apply alloc_visible in H. apply alloc_at_path in H. destruct H as (p & P & E).
  exists p. split; [exact P|]. rewrite <- fold_inner_al. exact E.
Qed.
