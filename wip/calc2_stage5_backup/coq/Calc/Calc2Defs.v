(* E2, second generation — Calc/CalcDefs.v (frozen, module Calc) extended; module Calc2.
   Executable definitions only (extracted to OCaml and run against the real library by the K2v2 tie:
   ocaml/handlers/h_calc2.ml, harness/k2v2.hpp, tools/k2v2.py); no proofs yet.  The structure of CalcDefs is
   kept (same three entry points start / stop / leafev, same node state, same helper names with the same
   meaning) so that the Calc proof developments can be ported; everything new is marked [Calc2].

   Extensions
   1. Lifetimes (C02): completion and destruction of an operation state are distinct.  A completed leaf stays
      [OLeaf true _], a completed node stays [OCompl a b] until the parent destroys it; [OFin] = no operation
      state.  [dtor] is the destructor cascade (events TLeafDtor / TSchedDtor in the real member order); the
      sequential kinds emit it where the headers destroy the finished child ([eager_dtor], [seq_pass],
      [seq_final], [un_eager], [un_done]); [run_end] destroys the completed root operation (XRootDtor).
   2. Execution contexts (C11): [cx], the context the current external event is delivered on, is a new last
      argument of start / stop / leafev; leaves and the root record it; [Sched id c] = schedule() on the
      scheduler of context c (FIFO per context at run level: [r_queue], EvRun c); [e_sched] / UWithSched =
      get_scheduler; via / on / wsa_via are Gallina definitions over the existing constructors.
   3. More algorithms: ULetSS (let_value_with_stop_source) with LeafR (a leaf whose callable requests stop on a
      chosen enclosing source: TReqStop, OHeld, [fired]); StopIf; just_from / defer (definitions, [lift]);
      URepeat (repeat_effect_until: [rep_loop], [rep_done], n_iter); BRetry (retry_when: [retry_err],
      [retry_a_done], [retry_b_done]); UIntoVar; BWhenAny (when_any as a primitive derived from the header's
      composition: [conc_reap], cell).

   4. Value-copy fault points (C02 / C05): outcome OValT v = a value whose copy / move constructor throws when
      it is stored (produced only by script leaf completions).  OVal behaviour is untouched; OValT only adds match
      arms (un_result, enc, after_first, after_second, conc_in, rep_done, retry_b_done) and, in leafev only,
      the delivery protocol for consumers whose exception leaves their set_value (un_throw / bin_throw: the
      completion is delivered again as OValK, which the leaf turns into OErr tcode and a catching forwarder
      intercepts: un_in, bin_in, thrown, caught, leaf_out).  start and stop are unchanged.
   5. Throwing connect (C02): LeafC id = a sender whose connect() throws ccode.  [cthrows e] = connect(e) throws
      (the eagerly connected part of e contains a LeafC); [start] answers a throwing (late) connect with an inline
      OErr ccode and no events ([sthrows]); run_start yields XConnectThrow when the whole expression cannot be
      connected.
      Blocks (C12): UAllocate / UWithAlloc, e_alloc, TAlloc / TFree: allocate takes its block from the receiver's
      allocator when it is connected and returns it when it is destroyed or when the child's connect throws
      ([conn], [unw], [sconn], [un_pre]; [dtor] returns the block of a started allocate).

   A sender expression is a tree over the library's algorithms; the operation state of a connected
   expression is a tree [ost] of the same shape.  Three entry points, all structurally recursive
   on the expression, mirror what can happen to a real operation state:
     start  e env cx        - start() of a freshly connected operation,
     leafev e st id o cx    - an asynchronous leaf, started earlier, is completed from outside,
     stop   e st cx         - stop is requested on the token of the receiver this operation is
                              connected to.
   Each returns the new state, the observable events in order, and [Some o] when the operation
   completed its receiver with outcome [o] during the call (completion may happen inside start,
   inside an external leaf completion, or inside a stop request when a stop-reactive leaf
   completes from its stop callback).

   C++ mirrored (include/unifex/): just.hpp just_error.hpp just_done.hpp then.hpp upon_error.hpp
   upon_done.hpp let_value.hpp let_error.hpp let_done.hpp sequence.hpp finally.hpp when_all.hpp
   stop_when.hpp with_query_value.hpp unstoppable.hpp materialize.hpp done_as_optional.hpp via.hpp typed_via.hpp
   on.hpp with_scheduler_affinity.hpp let_value_with_stop_source.hpp stop_if_requested.hpp just_from.hpp
   defer.hpp repeat_effect_until.hpp retry_when.hpp into_variant.hpp when_any.hpp; harness leaves stand for
   arbitrary asynchronous senders, harness schedulers for arbitrary execution contexts. *)
From Coq Require Import ZArith List Bool.
Import ListNotations.
Local Open Scope Z_scope.

Module Calc2.

Inductive outcome := OVal (v : Z) | OErr (e : Z) | ODone
| OValT (v : Z)     (* [Calc2 stage 4] a value whose copy / move constructor throws when somebody stores it
                       (script completion L<id>:t<v>); travels by reference like OVal *)
| OValK (v : Z).    (* [Calc2 stage 4] INPUT of leafev only: the same value, delivered while a consumer further
                       up is known to throw out of its set_value (see [un_throw], [bin_throw]) *)
(* the error code the throwing constructor throws *)
Definition tcode : Z := 77.
Definition tmode (o : outcome) : outcome := match o with OValK v => OValT v | _ => o end.
Definition is_k (o : outcome) : bool := match o with OValK _ => true | _ => false end.
(* a leaf whose set_value call exits with an exception completes with set_error instead (receiver contract) *)
Definition leaf_out (o : outcome) : outcome := match o with OValK _ => OErr tcode | _ => o end.

(* the table of user callables the generated programs use; [inr e] = throws err e *)
Inductive fn := FAdd (k : Z) | FMul (k : Z) | FThrow (e : Z) | FThrowIf (x e : Z).
Definition fn_apply (f : fn) (x : Z) : Z + Z :=
  match f with
  | FAdd k => inl (x + k)
  | FMul k => inl (x * k)
  | FThrow e => inr e
  | FThrowIf y e => if x =? y then inr e else inl x
  end.

Inductive ukind :=
| UThen (f : fn)            (* then(s, f) *)
| UUponErr (f : fn)         (* upon_error(s, f): f applied to the error code *)
| UUponDone (f : fn)        (* upon_done(s, f): f applied to 0 *)
| UWithQ (q : nat) (v : Z)  (* with_query_value(s, custom query q, v) *)
| UUnstoppable              (* unstoppable(s) *)
| UMat                      (* materialize(s), the reified signal folded into one value by [enc] *)
| UDoneOpt                  (* done_as_optional(s): done becomes the value "nullopt" (-1 here) *)
| UWithSched (c : nat)      (* [Calc2] with_query_value(s, get_scheduler, scheduler of context c) *)
| ULetSS (now : bool)       (* [Calc2] let_value_with_stop_source(f): s is the sender f returns; the children see the
                              operation's own stop source (chained to the receiver's token); now = f itself
                              requests stop on the source before returning *)
| URepeat (l : list bool)   (* [Calc2] repeat_effect_until(s, pred): the k-th call of pred returns the k-th element
                              of l, true when l is exhausted *)
| UIntoVar                  (* [Calc2] into_variant(s) (the variant unpacked again: identity on the one value) *)
| UWithAlloc (a : nat)      (* [Calc2 stage 5] with_allocator(s, allocator a) = with_query_value(s, get_allocator, a) *)
| UAllocate.                (* [Calc2 stage 5] allocate(s): the child operation lives in a block taken from
                              get_allocator(receiver) when the operation is connected, returned when it is destroyed *)

Inductive bkind :=
| BLetV | BLetE | BLetD     (* let_value / let_error / let_done: b is the successor, may use Var 0 *)
| BSeq                      (* sequence(a, b) *)
| BFinally                  (* finally(a, b) *)
| BWhenAll                  (* when_all(a, b), values folded into one by [combine] *)
| BStopWhen                 (* stop_when(a, b): a = source, b = trigger *)
| BWhenAny                  (* [Calc2] when_any(a, b): see conc_child_done *)
| BRetry (n : nat).         (* [Calc2] retry_when(a, f): b = the trigger sender f returns for the first n errors
                              (may use Var 0 = the error code); from the (n+1)-th error on f's sender fails
                              with that error *)

Inductive sexpr :=
| Just (v : Z) | JustErr (e : Z) | JustDone
| Var (n : nat)             (* just(value bound by the n-th enclosing let_* ) *)
| Leaf (id : nat)           (* asynchronous harness leaf: ignores stop (only logs it) *)
| LeafN (id : nat)          (* stop-reactive leaf: completes with done from its stop callback *)
| Sched (id c : nat)        (* [Calc2] schedule() on the scheduler of context c: start enqueues into c's FIFO;
                              when run (on context c) completes with value 0, or done if stop was requested *)
| LeafR (id lvl : nat)      (* [Calc2] then(leaf id, f) where f first requests stop on the source of the lvl-th
                              enclosing let_value_with_stop_source (0 = outermost) and then returns its argument *)
| StopIf                    (* [Calc2] stop_if_requested(): done if stop was requested, value (0) otherwise *)
| LeafC (id : nat)          (* [Calc2 stage 5] a sender whose connect() throws error [ccode]; it is never started *)
| Un (k : ukind) (s : sexpr)
| Bin (k : bkind) (a b : sexpr).

(* what a receiver answers to its child's queries *)
Record env := {
  e_stopped : bool;          (* get_stop_token(r).stop_requested() right now *)
  e_stoppable : bool;        (* stop_possible() *)
  e_root : bool;             (* the stop token is the root receiver's own token (not an algorithm's source) *)
  e_q0 : Z; e_q1 : Z;        (* two custom query CPOs (0 = default answer) *)
  e_sched : nat;             (* [Calc2] get_scheduler(r): the context of the receiver's scheduler *)
  e_ss : nat;                (* [Calc2] number of enclosing let_value_with_stop_source operations *)
  e_alloc : nat;             (* [Calc2 stage 5] get_allocator(r): the allocator the receiver answers with (root: 0) *)
  e_bound : list Z           (* values bound by enclosing let_* (innermost first) *)
}.

Definition env_with_stop (en : env) (s : bool) : env :=
  {| e_stopped := s; e_stoppable := e_stoppable en; e_root := e_root en; e_q0 := e_q0 en; e_q1 := e_q1 en; e_sched := e_sched en; e_ss := e_ss en; e_alloc := e_alloc en; e_bound := e_bound en |}.
Definition env_bind (en : env) (v : Z) : env :=
  {| e_stopped := e_stopped en; e_stoppable := e_stoppable en; e_root := e_root en; e_q0 := e_q0 en; e_q1 := e_q1 en; e_sched := e_sched en; e_ss := e_ss en; e_alloc := e_alloc en; e_bound := v :: e_bound en |}.
Definition env_q (en : env) (q : nat) (v : Z) : env :=
  match q with
  | O => {| e_stopped := e_stopped en; e_stoppable := e_stoppable en; e_root := e_root en; e_q0 := v; e_q1 := e_q1 en; e_sched := e_sched en; e_ss := e_ss en; e_alloc := e_alloc en; e_bound := e_bound en |}
  | _ => {| e_stopped := e_stopped en; e_stoppable := e_stoppable en; e_root := e_root en; e_q0 := e_q0 en; e_q1 := v; e_sched := e_sched en; e_ss := e_ss en; e_alloc := e_alloc en; e_bound := e_bound en |}
  end.
Definition env_unstoppable (en : env) : env :=
  {| e_stopped := false; e_stoppable := false; e_root := false; e_q0 := e_q0 en; e_q1 := e_q1 en; e_sched := e_sched en; e_ss := e_ss en; e_alloc := e_alloc en; e_bound := e_bound en |}.
Definition env_sched (en : env) (c : nat) : env :=
  {| e_stopped := e_stopped en; e_stoppable := e_stoppable en; e_root := e_root en; e_q0 := e_q0 en; e_q1 := e_q1 en;
     e_sched := c; e_ss := e_ss en; e_alloc := e_alloc en; e_bound := e_bound en |}.
(* children of when_all / stop_when see the algorithm's own stop source *)
Definition env_own (en : env) (own_stop : bool) : env :=
  {| e_stopped := own_stop; e_stoppable := true; e_root := false; e_q0 := e_q0 en; e_q1 := e_q1 en; e_sched := e_sched en; e_ss := e_ss en; e_alloc := e_alloc en; e_bound := e_bound en |}.

Definition env_alloc (en : env) (a : nat) : env :=
  {| e_stopped := e_stopped en; e_stoppable := e_stoppable en; e_root := e_root en; e_q0 := e_q0 en; e_q1 := e_q1 en;
     e_sched := e_sched en; e_ss := e_ss en; e_alloc := a; e_bound := e_bound en |}.
(* [Calc2] children of let_value_with_stop_source see the operation's own stop source *)
Definition env_ss (en : env) (own_stop : bool) : env :=
  {| e_stopped := own_stop; e_stoppable := true; e_root := false; e_q0 := e_q0 en; e_q1 := e_q1 en;
     e_sched := e_sched en; e_ss := S (e_ss en); e_alloc := e_alloc en; e_bound := e_bound en |}.

(* observable events, compared one by one with the real library's run *)
Inductive tev :=
| TLeafStart (id : nat) (stopped stoppable : bool) (q0 q1 : Z) (sch cx : nat)
                                       (* [Calc2] sch = get_scheduler(r), cx = the context start() runs on *)
| TLeafStop (id : nat)                 (* the leaf's stop callback ran *)
| TCall (f : fn) (arg : Z)             (* a user callable was invoked *)
| TLeak (root : bool)                  (* an algorithm completed its receiver while its stop callback was still
                                          registered on that receiver's token (root: the token is the root's) *)
| TLeafDtor (id : nat)                 (* [Calc2] the operation state of leaf id was destroyed *)
| TSchedStart (id c : nat)             (* [Calc2] a schedule() operation was enqueued on context c *)
| TSchedDtor (c : nat)                 (* [Calc2] a started schedule() operation of context c was destroyed *)
| TReqStop (id lvl : nat)              (* [Calc2] the callable of LeafR id runs: requests stop on source lvl *)
| TPred (b : bool)                     (* [Calc2] repeat_effect_until's predicate was called and returned b *)
| TGate (ok : bool)                    (* [Calc2] retry_when's function was called; ok = it returned the trigger *)
| TAlloc (a : nat)                     (* [Calc2 stage 5] allocate took a block from allocator a *)
| TFree (a : nat).                     (* [Calc2 stage 5] allocate returned its block to allocator a *)

(* per-node dynamic state *)
Inductive phase := PFirst | PSecond | PBoth.
Record nst := {
  ph : phase;
  n_env : env;                 (* environment the node was started with; e_stopped kept current *)
  own_stop : bool;             (* own stop source requested (when_all / stop_when) *)
  reg : bool;                  (* stop callback on the receiver's token currently registered *)
  adone : bool; bdone : bool;
  saved : option outcome;      (* finally: a's result; when_all: first error/done; stop_when: source's result *)
  va : Z; vb : Z;              (* when_all: children's values *)
  n_iter : nat;                (* [Calc2] repeat_effect_until: predicate calls so far; retry_when: errors handled so far *)
  cell : option Z              (* [Calc2] when_any: the first value a child produced (optResult) *)
}.

(* [Calc2] completion and destruction are distinct: a completed leaf stays [OLeaf true _] and a
   completed node stays [OCompl a b] (holding whatever child operation states are still alive)
   until the parent destroys the operation state; [OFin] = no operation state (never connected,
   or destroyed, or a leaf-less sender such as just). *)
Inductive ost :=
| OFin                                           (* no operation state (destroyed, or never needed state) *)
| OLeaf (completed seen : bool)                  (* a started leaf; completed = its receiver was completed *)
| ONode (ns : nst) (a b : ost)
| OCompl (a b : ost)                              (* [Calc2] a completed node whose children a b are not yet destroyed *)
| OHeld (v : Z).                                  (* [Calc2] LeafR: the leaf produced v and its callable is running (it has
                                                     requested stop on a source; the completion proceeds afterwards) *)

Definition mk_nst (p : phase) (en : env) : nst :=
  {| ph := p; n_env := en; own_stop := false; reg := false; adone := false; bdone := false;
     saved := None; va := 0; vb := 0; n_iter := 0; cell := None |}.
Definition ns_set_env (ns : nst) (en : env) : nst :=
  {| ph := ph ns; n_env := en; own_stop := own_stop ns; reg := reg ns; adone := adone ns; bdone := bdone ns;
     saved := saved ns; va := va ns; vb := vb ns; n_iter := n_iter ns; cell := cell ns |}.
Definition ns_set_ph (ns : nst) (p : phase) : nst :=
  {| ph := p; n_env := n_env ns; own_stop := own_stop ns; reg := reg ns; adone := adone ns; bdone := bdone ns;
     saved := saved ns; va := va ns; vb := vb ns; n_iter := n_iter ns; cell := cell ns |}.
Definition ns_set_own (ns : nst) (b : bool) : nst :=
  {| ph := ph ns; n_env := n_env ns; own_stop := b; reg := reg ns; adone := adone ns; bdone := bdone ns;
     saved := saved ns; va := va ns; vb := vb ns; n_iter := n_iter ns; cell := cell ns |}.
Definition ns_set_reg (ns : nst) (b : bool) : nst :=
  {| ph := ph ns; n_env := n_env ns; own_stop := own_stop ns; reg := b; adone := adone ns; bdone := bdone ns;
     saved := saved ns; va := va ns; vb := vb ns; n_iter := n_iter ns; cell := cell ns |}.
Definition ns_set_saved (ns : nst) (o : option outcome) : nst :=
  {| ph := ph ns; n_env := n_env ns; own_stop := own_stop ns; reg := reg ns; adone := adone ns; bdone := bdone ns;
     saved := o; va := va ns; vb := vb ns; n_iter := n_iter ns; cell := cell ns |}.
Definition ns_set_iter (ns : nst) (i : nat) : nst :=
  {| ph := ph ns; n_env := n_env ns; own_stop := own_stop ns; reg := reg ns; adone := adone ns; bdone := bdone ns;
     saved := saved ns; va := va ns; vb := vb ns; n_iter := i; cell := cell ns |}.
Definition ns_set_cell (ns : nst) (c : option Z) : nst :=
  {| ph := ph ns; n_env := n_env ns; own_stop := own_stop ns; reg := reg ns; adone := adone ns; bdone := bdone ns;
     saved := saved ns; va := va ns; vb := vb ns; n_iter := n_iter ns; cell := c |}.
(* child i (false = a, true = b) finished, with value v if it produced one *)
Definition ns_child_done (ns : nst) (i : bool) (v : Z) : nst :=
  if i then {| ph := ph ns; n_env := n_env ns; own_stop := own_stop ns; reg := reg ns; adone := adone ns; bdone := true;
               saved := saved ns; va := va ns; vb := v; n_iter := n_iter ns; cell := cell ns |}
  else {| ph := ph ns; n_env := n_env ns; own_stop := own_stop ns; reg := reg ns; adone := true; bdone := bdone ns;
          saved := saved ns; va := v; vb := vb ns; n_iter := n_iter ns; cell := cell ns |}.

Definition res := (ost * list tev * option outcome)%type.

(* ---- unary adaptors: complete as soon as the child completes ------------------------------ *)
Definition un_env (k : ukind) (en : env) : env :=
  match k with
  | UWithQ q v => env_q en q v
  | UUnstoppable => env_unstoppable en
  | UWithSched c => env_sched en c
  | ULetSS now => env_ss en (now || e_stopped en)
  | UWithAlloc a => env_alloc en a
  | _ => en
  end.

Definition apply_fn (f : fn) (x : Z) : list tev * outcome :=
  ([TCall f x], match fn_apply f x with inl v => OVal v | inr e => OErr e end).

(* materialize: value v / error e / done as one integer *)
Definition enc (o : outcome) : Z :=
  match o with OVal v => 3 * v | OErr e => 3 * e + 1 | ODone => 2 | OValT v => 3 * v | OValK v => 3 * v end.

Definition un_result (k : ukind) (o : outcome) : list tev * outcome :=
  match k, o with
  | UMat, _ => ([], OVal (enc o))
  | UDoneOpt, ODone => ([], OVal (-1))
  | UThen f, OVal v => apply_fn f v
  | UUponErr f, OErr e => apply_fn f e
  | UUponDone f, ODone => apply_fn f 0
  | UThen f, OValT v => apply_fn f v          (* [stage 4] then.hpp:63-92 the value reaches the callable by reference *)
  | UDoneOpt, OValT _ => ([], OErr tcode)     (* [stage 4] done_as_optional.hpp:38-44 then's callable moves the value into
                                                 the optional: throws inside then's try (then.hpp:85-91) *)
  | _, _ => ([], o)
  end.

(* ---- binary algorithms ------------------------------------------------------------------------ *)
Definition combine (x y : Z) : Z := (x * 31 + y) mod 1000003.

(* sequential kinds: what happens when the first child completed with [o]:
   inl o' = complete with o' ; inr (env', saved) = start the second child *)
Definition after_first (k : bkind) (en : env) (o : outcome) : outcome + (env * option outcome) :=
  match k, o with
  | BLetV, OVal v => inr (env_bind en v, None)
  | BLetE, OErr e => inr (env_bind en e, None)
  | BLetD, ODone => inr (en, None)
  | BSeq, OVal _ => inr (en, None)
  | BLetV, OValT _ => inl (OErr tcode)        (* [stage 4] let_value.hpp:143-149 values_ constructed in the try; :188-193 *)
  | BSeq, OValT _ => inr (en, None)           (* [stage 4] the harness discards the value by reference (voided) *)
  | BFinally, OValT _ => inr (en, Some (OErr tcode))   (* [stage 4] finally.hpp:374-381 the store throws: set_error path *)
  | BFinally, _ => inr (en, Some o)
  | BRetry _, OErr e => inr (env_bind en e, None)     (* [Calc2] only the environment is used, see retry_a_done *)
  | _, _ => inl o
  end.

(* ... and when the second child completed with [o] *)
Definition after_second (k : bkind) (sv : option outcome) (o : outcome) : outcome :=
  match k, sv, o with
  | BFinally, Some s, OVal _ => s      (* completion succeeded: the source's result *)
  | BFinally, Some s, OValT _ => s     (* [stage 4] the completion's value is discarded by reference (voided) *)
  | _, _, _ => o                        (* otherwise the second child's own result *)
  end.

Definition is_seq (k : bkind) : bool :=
  match k with BWhenAll | BStopWhen | BWhenAny => false | _ => true end.

(* ---- [Calc2] lifetimes of child operation states ------------------------------------------------ *)
(* Order in which the destructor of a binary node's operation state destroys its children:
   when_all.hpp keeps the children in _operation_tuple (member op_ = first child, base class =
   the rest: the member is destroyed first); stop_when.hpp declares sourceOp_ before
   triggerOp_ (members are destroyed in reverse order: the trigger first).  The sequential
   kinds hold at most one child at a time. *)
Definition dtor_b_first (k : bkind) : bool := match k with BStopWhen => true | _ => false end.

(* the destructor cascade of an operation state: the leaves' operation states that are still
   alive, in the order they are destroyed *)
Fixpoint dtor (e : sexpr) (st : ost) : list tev :=
  match e, st with
  | Leaf id, OLeaf _ _ => [TLeafDtor id]
  | LeafN id, OLeaf _ _ => [TLeafDtor id]
  | Sched _ c, OLeaf _ _ => [TSchedDtor c]
  | LeafR id _, OLeaf _ _ => [TLeafDtor id]
  | LeafR id _, OHeld _ => [TLeafDtor id]
  | Un UAllocate s, ONode ns sc _ =>           (* [stage 5] allocate.hpp:61-64: the child operation, then the block *)
      dtor s sc ++ [TFree (e_alloc (n_env ns))]
  | Un _ s, ONode _ sc _ => dtor s sc
  | Un _ s, OCompl sc _ => dtor s sc
  | Bin k a b, ONode _ sa sb => if dtor_b_first k then dtor b sb ++ dtor a sa else dtor a sa ++ dtor b sb
  | Bin k a b, OCompl sa sb => if dtor_b_first k then dtor b sb ++ dtor a sa else dtor a sa ++ dtor b sb
  | _, _ => []
  end.

(* Sequential kinds destroy the first child's operation before connecting the second one
   (let_value.hpp predecessor_receiver::set_value, sequence.hpp predecessor_receiver::set_value,
   finally.hpp receiver::set_value/set_error/set_done, let_error.hpp source_receiver::set_error,
   let_done.hpp source_receiver::set_done).  When the node completes:
     eager kinds (let_error, finally) destroy the completed child BEFORE forwarding its result
       (let_error.hpp source_receiver::set_value/set_done and final_receiver::cleanup;
        finally.hpp value_receiver/error_receiver/done_receiver deactivate the completion op first);
     the others forward and keep the child until their own destructor runs
       (let_value.hpp cleanup_, sequence.hpp status_, let_done.hpp startedOp_). *)
Definition eager_dtor (k : bkind) : bool := match k with BLetE | BFinally => true | _ => false end.

(* [Calc2] unary nodes with an own stop source (let_value_with_stop_source): initial node state.
   start() registers the source's callback on the receiver's token (fused_stop_source::register_callbacks);
   if stop was already requested it runs inline; the registration is removed before the result is forwarded
   (stop_source_receiver::set_value/set_error/set_done: deregister_callbacks first). *)
Definition un_own (k : ukind) : bool := match k with ULetSS _ => true | _ => false end.
Definition un_nst (k : ukind) (en : env) : nst :=
  match k with
  | ULetSS now => ns_set_own (ns_set_reg (mk_nst PFirst en) (negb (e_stopped en))) (now || e_stopped en)
  | _ => mk_nst PFirst en
  end.

(* [stage 5] what connecting a unary node shows before its child is connected and started *)
Definition un_pre (k : ukind) (en : env) : list tev :=
  match k with UAllocate => [TAlloc (e_alloc en)] | _ => [] end.

(* does a batch of events end with LeafR's request to stop source lvl ? *)
Definition fired (lvl : nat) (tr : list tev) : bool :=
  match last tr (TLeak false) with TReqStop _ l => Nat.eqb l lvl | _ => false end.

(* ---- [Calc2] repeat_effect_until ------------------------------------------------------------- *)
(* The source completed with a value and the caller has emitted its destruction.  [rest] = the answers the
   predicate has still to give, [i] = calls so far, [r0] = the result of connecting and starting a fresh
   copy of the source (the same for every iteration of one call: nothing changes in between).
   repeat_effect_until.hpp _rcvr::set_value: destruct sourceOp_, call the predicate, complete with value
   if true, else construct sourceOp_ again and start it. *)
Fixpoint rep_loop (s : sexpr) (r0 : res) (rest : list bool) (i : nat) : nat * res :=
  match rest with
  | [] => (S i, (OFin, [TPred true], Some (OVal 0)))
  | true :: _ => (S i, (OFin, [TPred true], Some (OVal 0)))
  | false :: rest' =>
      let '(sc, tr, r) := r0 in
      match r with
      | Some (OVal _) =>
          let '(i', (sc', tr', r')) := rep_loop s r0 rest' (S i) in
          (i', (sc', TPred false :: tr ++ dtor s sc ++ tr', r'))
      | Some o => (S i, (OCompl sc OFin, TPred false :: tr, Some o))
      | None => (S i, (sc, TPred false :: tr, None))
      end
  end.

(* the source of a repeat_effect_until node (state [ns]) completed with [o] *)
Definition rep_done (l : list bool) (s : sexpr) (ns : nst) (sc : ost) (tr : list tev) (o : outcome) (r0 : res) : res :=
  match o with
  | OVal _ | OValT _ =>                  (* [stage 4] the source's value is discarded by reference (voided) *)
      let '(i', (sc', tr', r')) := rep_loop s r0 (skipn (n_iter ns) l) (n_iter ns) in
      match r' with
      | None => (ONode (ns_set_iter ns i') sc' OFin, tr ++ dtor s sc ++ tr', None)
      | Some o' => (sc', tr ++ dtor s sc ++ tr', Some o')
      end
  | _ => (OCompl sc OFin, tr, Some o)       (* error / done pass through; sourceOp_ lives until the destructor *)
  end.

(* ---- [Calc2] retry_when ----------------------------------------------------------------------- *)
(* The source failed with error [e] and the caller has emitted its destruction (retry_when.hpp
   source_receiver::set_error: deactivate sourceOp_, invoke the function, connect and start the trigger).
   [rem] = retries the function still grants, [i] = errors handled so far, [rbe] = result of starting the
   trigger for this error; [r0a] = result of starting a fresh source and [r0bl] = of starting the trigger
   for the error r0a fails with inline (if it does).
   trigger_receiver: value -> destroy the trigger op, connect and start the source again;
                     error / done -> destroy the trigger op, forward. *)
Fixpoint retry_err (a b : sexpr) (r0a r0bl : res) (rem : nat) (i : nat) (rbe : res) (e : Z)
  : nat * phase * res :=
  match rem with
  | O => (S i, PFirst, (OFin, [TGate false], Some (OErr e)))
  | S rem' =>
      let '(sb, trb, rb) := rbe in
      match rb with
      | None => (S i, PSecond, (OCompl OFin sb, TGate true :: trb, None))
      | Some (OVal _) =>
          let '(sa, tra, ra) := r0a in
          let pre := TGate true :: trb ++ dtor b sb ++ tra in
          match ra with
          | None => (S i, PFirst, (OCompl sa OFin, pre, None))
          | Some (OErr e') =>
              let '(i', p', (st', tr', r')) := retry_err a b r0a r0bl rem' (S i) r0bl e' in
              (i', p', (st', pre ++ dtor a sa ++ tr', r'))
          | Some o => (S i, PFirst, (OCompl sa OFin, pre, Some o))
          end
      | Some o => (S i, PSecond, (OFin, TGate true :: trb ++ dtor b sb, Some o))
      end
  end.

(* assemble the node: retry_err returns the children as [OCompl sa sb] *)
Definition retry_node (ns : nst) (x : nat * phase * res) (tr0 : list tev) : res :=
  let '(i', p', (st', tr', r')) := x in
  match r' with
  | Some o => (st', tr0 ++ tr', Some o)
  | None =>
      match st' with
      | OCompl sa sb => (ONode (ns_set_iter (ns_set_ph ns p') i') sa sb, tr0 ++ tr', None)
      | _ => (st', tr0 ++ tr', None)
      end
  end.

(* the source of a retry_when node completed with [oa] (events so far [tr]) *)
Definition retry_a_done (n : nat) (a b : sexpr) (ns : nst) (sa : ost) (tr : list tev) (oa : outcome)
           (r0a r0bl rbe : res) : res :=
  match oa with
  | OErr e => retry_node ns (retry_err a b r0a r0bl (n - n_iter ns) (n_iter ns) rbe e) (tr ++ dtor a sa)
  | _ => (OCompl sa OFin, tr, Some oa)      (* value / done pass through; sourceOp_ lives until the destructor *)
  end.

(* the trigger of a retry_when node completed with [ob] *)
Definition retry_b_done (n : nat) (a b : sexpr) (ns : nst) (sb : ost) (tr : list tev) (ob : outcome)
           (r0a r0bl : res) : res :=
  match ob with
  | OVal _ | OValT _ =>                  (* [stage 4] the trigger's value is discarded by reference (voided) *)
      let '(sa, tra, ra) := r0a in
      let pre := tr ++ dtor b sb ++ tra in
      match ra with
      | None => (ONode (ns_set_ph ns PFirst) sa OFin, pre, None)
      | Some (OErr e') => retry_node ns (retry_err a b r0a r0bl (n - n_iter ns) (n_iter ns) r0bl e') (pre ++ dtor a sa)
      | Some o => (OCompl sa OFin, pre, Some o)
      end
  | _ => (OFin, tr ++ dtor b sb, Some ob)
  end.

(* the error a result fails with, if it does *)
Definition res_err (r : res) : option Z := match r with (_, _, Some (OErr e)) => Some e | _ => None end.

(* done_as_optional(s) = let_done(then(s, some), [] { return just(nullopt); }): on done the
   source operation is destroyed before the successor is connected *)
Definition un_eager (k : ukind) (o : outcome) : bool :=
  match k, o with UDoneOpt, ODone => true | _, _ => false end.

(* the unary node's child completed with [o]; [sc] the child's state, [tr] the events so far *)
Definition un_done (k : ukind) (s : sexpr) (sc : ost) (tr : list tev) (o : outcome) : res :=
  let (tr2, o') := un_result k o in
  if un_eager k o then (OFin, tr ++ dtor s sc ++ tr2, Some o')
  else (OCompl sc OFin, tr ++ tr2, Some o').

(* a sequential node completes with its first child's result [o] (pass-through) *)
Definition seq_pass (k : bkind) (a : sexpr) (sa : ost) (tr : list tev) (o : outcome) : res :=
  if eager_dtor k then (OFin, tr ++ dtor a sa, Some o) else (OCompl sa OFin, tr, Some o).
(* a sequential node completes with [o] after its second child completed *)
Definition seq_final (k : bkind) (b : sexpr) (sb : ost) (tr : list tev) (o : outcome) : res :=
  if eager_dtor k then (OFin, tr ++ dtor b sb, Some o) else (OCompl OFin sb, tr, Some o).

(* [Calc2] when_any.hpp defines when_any(a, b) as the composition (optResult, once_flag shared by reference)
     let_value(just(opt, a, b), [](opt&, a&, b&) { return let_value_with(once_flag, [&](flag&) { return
        when_all(let_value(a, store), let_value(b, store))
        | let_done([&] { return just_void_or_done(opt.has_value()); })
        | let_value([&](auto...) { return just(opt.value()); }); }); })
   with store(v...) = call_once(flag, opt.emplace(v...)), returning just_void_or_done(false), i.e. done.
   The value-passing calculus has no shared mutable cell, so BWhenAny is a primitive concurrent kind whose
   rules are DERIVED from that composition (and checked against the real unifex::when_any):
   - a child's value is stored if it is the first ([cell]) and reaches when_all as done; the inner
     let_value destroys that child's operation at once ([conc_reap]);
   - every child result therefore requests when_all's own stop source;
   - when_all's result wa = done if the receiver's stop was requested, else its first non-value;
     error passes through (the when_all operation stays alive); done -> let_done destroys the when_all
     operation, then value(cell) if a value was stored, else done. *)
Definition conc_reap (k : bkind) (c : sexpr) (r : res) : res :=
  match k, r with
  | BWhenAny, (sc, tr, Some (OVal v)) => (OFin, tr ++ dtor c sc, Some (OVal v))
  | _, _ => r
  end.

(* a concurrent algorithm (when_all / stop_when) learns that child [i] completed with [o].
   Returns the updated node state, whether the own stop source is newly requested (the other
   child must then be told), and the final outcome if this was the last child. *)
Definition conc_in (k : bkind) (o : outcome) : outcome :=
  match k, o with
  | BWhenAll, OValT _ => OErr tcode     (* when_all.hpp:146-158 emplace in the try, catch -> this->set_error *)
  | BWhenAny, OValT _ => OErr tcode     (* when_any.hpp: child | let_value(store): let_value.hpp:143-149, :188-193 *)
  | _, _ => o                           (* stop_when's trigger value is discarded by reference (voided) *)
  end.
Definition conc_child_done (k : bkind) (ns : nst) (i : bool) (o0 : outcome) : nst * bool * option outcome :=
  let o := conc_in k o0 in
  let v := match o with OVal v => v | _ => 0 end in
  let ns1 := ns_child_done ns i v in
  let newly :=
      match k with
      | BWhenAll => match o with OVal _ => false | _ => negb (own_stop ns) end
      | _ => negb (own_stop ns)                      (* stop_when: any completion stops the other;
                                                        when_any: every child result reaches when_all as non-value *)
      end in
  let sv :=
      match k with
      | BWhenAll => match saved ns, o with
                    | None, OVal _ => None
                    | None, _ => Some o
                    | Some s, _ => Some s
                    end
      | BWhenAny => match saved ns with               (* when_all's first non-value result *)
                    | Some s => Some s
                    | None => Some (match o with OErr e => OErr e | _ => ODone end)
                    end
      | _ => if i then saved ns else Some o          (* stop_when keeps the source's result *)
      end in
  let cl := match k, o, cell ns with BWhenAny, OVal v, None => Some v | _, _, _ => cell ns end in
  let ns2 := ns_set_cell (ns_set_saved (ns_set_own ns1 (own_stop ns || newly)) sv) cl in
  if adone ns2 && bdone ns2 then
    let final :=
        match k with
        | BWhenAll =>
            if e_stopped (n_env ns2) then ODone
            else match sv with Some s => s | None => OVal (combine (va ns2) (vb ns2)) end
        | BWhenAny =>
            let wa := if e_stopped (n_env ns2) then ODone else match sv with Some s => s | None => ODone end in
            match wa with
            | OErr e => OErr e                                   (* passes let_done and let_value *)
            | _ => match cl with Some v => OVal v | None => ODone end   (* let_done: just_void_or_done(has_value) *)
            end
        | _ => match sv with Some s => s | None => ODone end
        end in
    (ns2, newly, Some final)
  else (ns2, newly, None).

(* completion of a concurrent node: when_all's deliver_result destroys the stop callback first;
   [leak] = the completion happens on stop_when's cancel_callback path, which delivers WITHOUT
   resetting the callback (stop_when.hpp, cancel_callback::operator()).
   [Calc2] both children stay alive (members of the operation state) until the node is destroyed. *)
Definition finish_conc (k : bkind) (a b : sexpr) (ns : nst) (sa sb : ost) (tr : list tev) (fin : option outcome)
           (leak : bool) : res :=
  match fin with
  | Some o =>
      match k, o with
      | BWhenAny, OErr _ => (OCompl sa sb, tr, Some o)
      | BWhenAny, _ => (OFin, tr ++ dtor a sa ++ dtor b sb, Some o)    (* let_done destroyed the when_all operation *)
      | _, _ => (OCompl sa sb, tr ++ (if leak && reg ns then [TLeak (e_root (n_env ns))] else []), Some o)
      end
  | None => (ONode ns sa sb, tr, None)
  end.

(* Before /repo commit "fix: stop_when completed its receiver with its stop callback still
   registered" stop_when was leaky on this path (finding 5): *)
Definition leaky_as_written (k : bkind) : bool := match k with BStopWhen => true | _ => false end.
Definition leaky (k : bkind) : bool := false.

(* ---- [Calc2 stage 4] values whose copy / move throws ------------------------------------------------ *)
(* What a node does with its child's value, from the C++:
   - forwards it by reference and lets an exception of its consumer pass through its set_value
     ([un_fwd], [bin_fwd]): upon_error.hpp:66-68, upon_done.hpp:66-68, let_value_with_stop_source.hpp:57-62
     (conditionally noexcept), let_done.hpp:81-85 and :167-171, retry_when.hpp source_receiver::set_value,
     let_value.hpp:68-74 successor_receiver (declared noexcept);
   - forwards it by reference inside a try and turns a consumer's exception into set_error
     ([un_catch], [bin_catch]): with_query_value.hpp:46-53 (also unstoppable, get_scheduler), sequence.hpp:68-76
     successor_receiver;
   - consumes it without a local handler, so that the exception leaves its set_value ([un_throw],
     [bin_throw]): into_variant.hpp:48-52 (make_tuple), let_error.hpp:88 and :189 (parameters taken by value),
     stop_when.hpp:65-70 (result_ emplace outside any try);
   - everything else either stores it inside its own try (the value becomes OErr tcode right there, see
     after_first / conc_in / un_result) or hands it to a callable by reference (then, materialize + fold).
   A throw that leaves set_value travels down to the first catching forwarder, or to the leaf, which then
   completes with set_error: the thrower re-delivers the completion with OValK, which the leaf turns into
   OErr tcode and a catching forwarder intercepts. *)
Definition un_fwd (k : ukind) : bool :=
  match k with UUponErr _ | UUponDone _ | ULetSS _ | UAllocate => true | _ => false end.   (* allocate has no receiver of its own *)
Definition un_catch (k : ukind) : bool :=
  match k with UWithQ _ _ | UUnstoppable | UWithSched _ | UWithAlloc _ => true | _ => false end.
Definition un_throw (k : ukind) : bool := match k with UIntoVar => true | _ => false end.
Definition un_in (k : ukind) (o : outcome) : outcome := if un_fwd k then o else tmode o.
(* child i (false = a, true = b) of a binary node *)
Definition bin_fwd (k : bkind) (i : bool) : bool :=
  match k, i with BLetD, _ => true | BRetry _, false => true | BLetV, true => true | _, _ => false end.
Definition bin_catch (k : bkind) (i : bool) : bool := match k, i with BSeq, true => true | _, _ => false end.
Definition bin_throw (k : bkind) (i : bool) : bool :=
  match k, i with BLetE, _ => true | BStopWhen, false => true | _, _ => false end.
Definition bin_in (k : bkind) (i : bool) (o : outcome) : outcome := if bin_fwd k i then o else tmode o.
Definition thrown (r : res) : option Z := match r with (_, _, Some (OValT v)) => Some v | _ => None end.
(* a catching forwarder (c) whose consumer throws (the completion was delivered with OValK) *)
Definition caught (c : bool) (o : outcome) (r : res) : res :=
  match r with
  | (st, tr, Some (OValT _)) => if c && is_k o then (st, tr, Some (OErr tcode)) else r
  | _ => r
  end.

(* ---- [Calc2 stage 5] connect() that throws ------------------------------------------------------------- *)
Definition ccode : Z := 78.
(* connecting e throws: e has a LeafC among the senders that connect(e) connects itself.  Every adaptor
   connects its (first) child inside its own connect / operation constructor (then.hpp:182, upon_error.hpp:191,
   upon_done.hpp:211, with_query_value.hpp:104, materialize.hpp:216, into_variant.hpp:133,
   let_value_with_stop_source.hpp:180 (called from the operation's constructor), repeat_effect_until.hpp:163,
   let_value.hpp:259, let_error.hpp:276, let_done.hpp:230, sequence.hpp:210, finally.hpp:536, retry_when.hpp:271,
   allocate.hpp:56); when_all.hpp:78 and stop_when.hpp:196-198 connect both children; the second child of the
   sequential kinds is connected later (see [sthrows]); when_any.hpp:48-75 connects only just(...) (the senders are
   connected when its let_value successor is built: let_value.hpp:179, let_value_with.hpp:114). *)
Fixpoint cthrows (e : sexpr) : bool :=
  match e with
  | LeafC _ => true
  | Un _ s => cthrows s
  | Bin k a b =>
      match k with
      | BWhenAll | BStopWhen => cthrows a || cthrows b
      | BWhenAny => false
      | _ => cthrows a
      end
  | _ => false
  end.
(* start() of a freshly connected e cannot happen if connecting e threw; in the model connect and start of a
   lazily connected child are one step ([start b] in the sequential kinds), so [start] itself answers for
   the throwing connect: the algorithms connect the late child inside a try and complete with
   set_error(current_exception()), the finished child having been destroyed before
   (sequence.hpp:146-158, let_value.hpp:146-194, let_error.hpp:117-138, let_done.hpp:101-112,
   finally.hpp:385-403 / :416-434 / :442-456, retry_when.hpp:208-219 and :86-95, repeat_effect_until.hpp:87-100),
   which is what these nodes do with a second child that fails inline.  when_any builds
   when_all(let_value(a, store), let_value(b, store)) inside the outer let_value's try when it is started. *)
Definition sthrows (e : sexpr) : bool :=
  cthrows e || match e with Bin BWhenAny a b => cthrows a || cthrows b | _ => false end.

(* Blocks and connect.  [al] = the allocator get_allocator answers with at this place of the expression (it only
   changes under with_allocator).  [unw e al] = the blocks returned when a connected, never started operation of e is
   destroyed (stack unwinding after a sibling's connect threw); [conn e al] = the blocks taken, and on a throw also
   returned, while connect(e) runs, and whether it threw.  Order of construction / destruction:
   allocate.hpp:51-57 allocate, connect into the block, the guard returns the block on a throw; :60-63 destructor;
   when_all.hpp:73-78 _operation_tuple constructs its base (the later children) before its member (the earlier
   child) and destroys in the opposite order; stop_when.hpp:284-286 sourceOp_ is declared before triggerOp_. *)
Fixpoint unw (e : sexpr) (al : nat) : list tev :=
  match e with
  | Un (UWithAlloc a') s => unw s a'
  | Un UAllocate s => unw s al ++ [TFree al]
  | Un _ s => unw s al
  | Bin k a b =>
      match k with
      | BWhenAll => unw a al ++ unw b al
      | BStopWhen => unw b al ++ unw a al
      | BWhenAny => []
      | _ => unw a al
      end
  | _ => []
  end.
Fixpoint conn (e : sexpr) (al : nat) : list tev * bool :=
  match e with
  | LeafC _ => ([], true)
  | Un (UWithAlloc a') s => conn s a'
  | Un UAllocate s => let (tr, th) := conn s al in (TAlloc al :: tr ++ (if th then [TFree al] else []), th)
  | Un _ s => conn s al
  | Bin k a b =>
      match k with
      | BWhenAll =>
          let (trb, thb) := conn b al in
          if thb then (trb, true)
          else let (tra, tha) := conn a al in
               if tha then (trb ++ tra ++ unw b al, true) else (trb ++ tra, false)
      | BStopWhen =>
          let (tra, tha) := conn a al in
          if tha then (tra, true)
          else let (trb, thb) := conn b al in
               if thb then (tra ++ trb ++ unw a al, true) else (tra ++ trb, false)
      | BWhenAny => ([], false)
      | _ => conn a al
      end
  | _ => ([], false)
  end.
(* what start() of e (connect + start of a late child) shows of a throwing connect *)
Definition sconn (e : sexpr) (al : nat) : list tev :=
  match e with
  | Bin BWhenAny a b => fst (conn (Bin BWhenAll a b) al)
  | _ => fst (conn e al)
  end.

(* ---- start / stop ----------------------------------------------------------------------------------- *)
Fixpoint start (e : sexpr) (en : env) (cx : nat) {struct e} : res :=
  if sthrows e then (OFin, sconn e (e_alloc en), Some (OErr ccode)) else   (* [stage 5] connecting e throws: nothing is started *)
  match e with
  | Just v => (OFin, [], Some (OVal v))
  | JustErr x => (OFin, [], Some (OErr x))
  | JustDone => (OFin, [], Some ODone)
  | Var n => (OFin, [], Some (OVal (nth n (e_bound en) 0)))
  | Leaf id =>
      (* registers its stop callback, which runs inline (and only logs) when stop was already requested *)
      if e_stopped en then
        (OLeaf false true, [TLeafStart id true (e_stoppable en) (e_q0 en) (e_q1 en) (e_sched en) cx; TLeafStop id], None)
      else (OLeaf false false, [TLeafStart id false (e_stoppable en) (e_q0 en) (e_q1 en) (e_sched en) cx], None)
  | LeafN id =>
      (* registers its stop callback: runs inline when stop was already requested *)
      if e_stopped en then
        (OLeaf true true, [TLeafStart id true (e_stoppable en) (e_q0 en) (e_q1 en) (e_sched en) cx; TLeafStop id], Some ODone)
      else (OLeaf false false, [TLeafStart id false (e_stoppable en) (e_q0 en) (e_q1 en) (e_sched en) cx], None)
  | Sched id c =>
      (* enqueued on context c; no stop callback: the token is looked at when the item runs
         ([seen] records whether stop has been requested on the receiver's token) *)
      (OLeaf false (e_stopped en), [TSchedStart id c], None)
  | LeafR id _ =>
      (* the underlying leaf, as Leaf *)
      if e_stopped en then
        (OLeaf false true, [TLeafStart id true (e_stoppable en) (e_q0 en) (e_q1 en) (e_sched en) cx; TLeafStop id], None)
      else (OLeaf false false, [TLeafStart id false (e_stoppable en) (e_q0 en) (e_q1 en) (e_sched en) cx], None)
  | StopIf => (OFin, [], Some (if e_stopped en then ODone else OVal 0))
  | LeafC _ => (OFin, [], Some (OErr ccode))      (* [stage 5] not reachable: sthrows (LeafC _) = true *)
  | Un k s =>
      let '(sc, tr0, r) := start s (un_env k en) cx in
      let tr := un_pre k en ++ tr0 in
      match r with
      | Some o =>
          match k with
          | URepeat l => rep_done l s (un_nst k en) sc tr o (sc, tr0, r)
          | UAllocate => (ONode (un_nst k en) sc OFin, tr, Some o)     (* [stage 5] the node keeps its allocator *)
          | _ => un_done k s sc tr o
          end
      | None => (ONode (un_nst k en) sc OFin, tr, None)
      end
  | Bin k a b =>
      if is_seq k then
        let '(sa, tra, ra) := start a en cx in
        match ra with
        | None => (ONode (mk_nst PFirst en) sa OFin, tra, None)
        | Some oa =>
            match k with
            | BRetry n =>
                let rbe := match oa with OErr e => start b (env_bind en e) cx | _ => (OFin, [], None) end in
                retry_a_done n a b (mk_nst PFirst en) sa tra oa (sa, tra, ra) rbe rbe
            | _ =>
            match after_first k en oa with
            | inl o => seq_pass k a sa tra o
            | inr (en2, sv) =>
                let tra' := tra ++ dtor a sa in
                let '(sb, trb, rb) := start b en2 cx in
                match rb with
                | None => (ONode (ns_set_saved (mk_nst PSecond en) sv) OFin sb, tra' ++ trb, None)
                | Some ob => seq_final k b sb (tra' ++ trb) (after_second k sv ob)
                end
            end
            end
        end
      else
        (* when_all / stop_when: construct the stop callback on the receiver's token (if stop was
           already requested it runs inline and requests the own source and nothing stays
           registered), then start both children in order *)
        let ns0 := ns_set_own (ns_set_reg (mk_nst PBoth en) (negb (e_stopped en))) (e_stopped en) in
        let '(sa, tra, ra) := conc_reap k a (start a (env_own en (own_stop ns0)) cx) in
        let '(ns1, _, _) :=
            match ra with
            | Some oa => conc_child_done k ns0 false oa
            | None => (ns0, false, None)
            end in
        let '(sb, trb, rb) := conc_reap k b (start b (env_own en (own_stop ns1)) cx) in
        match rb with
        | None => (ONode ns1 sa sb, tra ++ trb, None)
        | Some ob =>
            let '(ns2, newly, fin) := conc_child_done k ns1 true ob in
            match fin with
            | Some _ => finish_conc k a b ns2 sa sb (tra ++ trb) fin false
            | None =>
                (* a is still running; if b's completion newly requested the own source, a is told *)
                if newly then
                  let '(sa', tra2, ra2) := conc_reap k a (stop a sa cx) in
                  match ra2 with
                  | Some oa =>
                      let '(ns3, _, fin3) := conc_child_done k ns2 false oa in
                      finish_conc k a b ns3 sa' sb (tra ++ trb ++ tra2) fin3 false
                  | None => (ONode ns2 sa' sb, tra ++ trb ++ tra2, None)
                  end
                else (ONode ns2 sa sb, tra ++ trb, None)
            end
        end
  end

(* stop is requested on the token of the receiver this operation is connected to *)
with stop (e : sexpr) (st : ost) (cx : nat) {struct e} : res :=
  match e, st with
  | Leaf id, OLeaf false false => (OLeaf false true, [TLeafStop id], None)
  | LeafN id, OLeaf false false => (OLeaf true true, [TLeafStop id], Some ODone)
  | Sched _ _, OLeaf false false => (OLeaf false true, [], None)
  | LeafR id _, OLeaf false false => (OLeaf false true, [TLeafStop id], None)
  | Un k s, ONode ns sc _ =>
      match k with
      | UUnstoppable => (st, [], None)
      | _ =>
          let ns' := ns_set_env ns (env_with_stop (n_env ns) true) in
          if un_own k && own_stop ns then (ONode ns' sc OFin, [], None)    (* own source already requested *)
          else
          let ns'' := if un_own k then ns_set_own ns' true else ns' in
          let '(sc', tr, r) := stop s sc cx in
          match r with
          | Some o =>
              match k with
              | URepeat l => rep_done l s ns'' sc' tr o (start s (un_env k (n_env ns'')) cx)
              | UAllocate => (ONode ns'' sc' OFin, tr, Some o)
              | _ => un_done k s sc' tr o
              end
          | None => (ONode ns'' sc' OFin, tr, None)
          end
      end
  | Bin k a b, ONode ns sa sb =>
      let ns' := ns_set_env ns (env_with_stop (n_env ns) true) in
      if is_seq k then
        match ph ns with
        | PFirst =>
            let '(sa', tra, ra) := stop a sa cx in
            match ra with
            | None => (ONode ns' sa' sb, tra, None)
            | Some oa =>
                match k with
                | BRetry n =>
                    let r0a := start a (n_env ns') cx in
                    let r0bl := match res_err r0a with Some e => start b (env_bind (n_env ns') e) cx | None => (OFin, [], None) end in
                    let rbe := match oa with OErr e => start b (env_bind (n_env ns') e) cx | _ => (OFin, [], None) end in
                    retry_a_done n a b ns' sa' tra oa r0a r0bl rbe
                | _ =>
                match after_first k (n_env ns') oa with
                | inl o => seq_pass k a sa' tra o
                | inr (en2, sv) =>
                    let tra' := tra ++ dtor a sa' in
                    let '(sb', trb, rb) := start b en2 cx in
                    match rb with
                    | None => (ONode (ns_set_saved (ns_set_ph ns' PSecond) sv) OFin sb', tra' ++ trb, None)
                    | Some ob => seq_final k b sb' (tra' ++ trb) (after_second k sv ob)
                    end
                end
                end
            end
        | _ =>
            let '(sb', trb, rb) := stop b sb cx in
            match rb with
            | None => (ONode ns' sa sb', trb, None)
            | Some ob =>
                match k with
                | BRetry n =>
                    let r0a := start a (n_env ns') cx in
                    let r0bl := match res_err r0a with Some e => start b (env_bind (n_env ns') e) cx | None => (OFin, [], None) end in
                    retry_b_done n a b ns' sb' trb ob r0a r0bl
                | _ => seq_final k b sb' trb (after_second k (saved ns) ob)
                end
            end
        end
      else if own_stop ns then (ONode ns' sa sb, [], None)     (* own source already requested *)
      else
        (* the cancel callback requests the own source: the children's callbacks run, most
           recently started child first *)
        let ns1 := ns_set_own ns' true in
        let '(sb', trb, rb) := if bdone ns1 then (sb, [], None) else conc_reap k b (stop b sb cx) in
        let '(ns2, _, fin1) :=
            match rb with
            | Some ob => conc_child_done k ns1 true ob
            | None => (ns1, false, None)
            end in
        match fin1 with
        | Some _ => finish_conc k a b ns2 sa sb' trb fin1 (leaky k)
        | None =>
            let '(sa', tra, ra) := if adone ns2 then (sa, [], None) else conc_reap k a (stop a sa cx) in
            let '(ns3, _, fin2) :=
                match ra with
                | Some oa => conc_child_done k ns2 false oa
                | None => (ns2, false, None)
                end in
            finish_conc k a b ns3 sa' sb' (trb ++ tra) fin2 (leaky k)
        end
  | _, _ => (st, [], None)
  end.

(* ---- an external leaf completion --------------------------------------------------------------- *)
(* returns additionally whether the leaf was found (ids are unique in well-formed expressions) *)
Fixpoint leafev (e : sexpr) (st : ost) (id : nat) (o : outcome) (cx : nat) : res * bool :=
  match e, st with
  | Leaf id', OLeaf false seen => if Nat.eqb id id' then ((OLeaf true seen, [], Some (leaf_out o)), true) else ((st, [], None), false)
  | LeafN id', OLeaf false seen => if Nat.eqb id id' then ((OLeaf true seen, [], Some (leaf_out o)), true) else ((st, [], None), false)
  | Sched id' _, OLeaf false seen =>
      (* the queued item runs (the run-level queue addresses it by id; [o] is not used): done if stop
         was requested on the receiver's token, value otherwise *)
      if Nat.eqb id id' then ((OLeaf true seen, [], Some (if seen then ODone else OVal 0)), true)
      else ((st, [], None), false)
  | LeafR id' lvl, OLeaf false seen =>
      if Nat.eqb id id' then
        match o with
        | OVal v | OValT v | OValK v =>      (* [stage 4] the callable takes the value by reference *)
            ((OHeld v, [TReqStop id lvl], None), true)     (* the callable runs: see the ULetSS case *)
        | _ => ((OLeaf true seen, [], Some o), true)
        end
      else ((st, [], None), false)
  | LeafR id' _, OHeld v =>
      (* the callable returned: the completion proceeds ([o] is not used) *)
      if Nat.eqb id id' then ((OLeaf true true, [], Some (OVal v)), true) else ((st, [], None), false)
  | Un k s, ONode ns sc _ =>
      let '(r0, hit) := leafev s sc id (un_in k o) cx in
      let '(sc', tr, r) :=
          match thrown r0 with
          | Some v => if un_throw k then fst (leafev s sc id (OValK v) cx) else caught (un_catch k) o r0
          | None => r0
          end in
      match r with
      | Some oc =>
          match k with
          | URepeat l => (rep_done l s ns sc' tr oc (start s (un_env k (n_env ns)) cx), hit)
          | UAllocate => ((ONode ns sc' OFin, tr, Some oc), hit)
          | _ => (un_done k s sc' tr oc, hit)
          end
      | None =>
          if un_own k && fired (e_ss (n_env ns)) tr then
            (* a LeafR below asked for stop on THIS node's source: the source's callbacks run now (unless
               stop was already requested), then the leaf's completion proceeds *)
            let '(ns1, (sc1, tr1, r1)) :=
                if own_stop ns then (ns, (sc', [], None)) else (ns_set_own ns true, stop s sc' cx) in
            match r1 with
            | Some oc => (un_done k s sc1 (tr ++ tr1) oc, hit)   (* not reachable: the held leaf keeps the child incomplete *)
            | None =>
                let '((sc2, tr2, r2), _) := leafev s sc1 id o cx in
                match r2 with
                | Some oc => (un_done k s sc2 (tr ++ tr1 ++ tr2) oc, hit)
                | None => ((ONode ns1 sc2 OFin, tr ++ tr1 ++ tr2, None), hit)
                end
            end
          else ((ONode ns sc' OFin, tr, None), hit)
      end
  | Bin k a b, ONode ns sa sb =>
      if is_seq k then
        match ph ns with
        | PFirst =>
            let '(r0, hit) := leafev a sa id (bin_in k false o) cx in
            let '(sa', tra, ra) :=
                match thrown r0 with
                | Some v => if bin_throw k false then fst (leafev a sa id (OValK v) cx) else caught (bin_catch k false) o r0
                | None => r0
                end in
            match ra with
            | None => ((ONode ns sa' sb, tra, None), hit)
            | Some oa =>
                match k with
                | BRetry n =>
                    let r0a := start a (n_env ns) cx in
                    let r0bl := match res_err r0a with Some e => start b (env_bind (n_env ns) e) cx | None => (OFin, [], None) end in
                    let rbe := match oa with OErr e => start b (env_bind (n_env ns) e) cx | _ => (OFin, [], None) end in
                    (retry_a_done n a b ns sa' tra oa r0a r0bl rbe, hit)
                | _ =>
                match after_first k (n_env ns) oa with
                | inl o' => (seq_pass k a sa' tra o', hit)
                | inr (en2, sv) =>
                    let tra' := tra ++ dtor a sa' in
                    let '(sb', trb, rb) := start b en2 cx in
                    match rb with
                    | None => ((ONode (ns_set_saved (ns_set_ph ns PSecond) sv) OFin sb', tra' ++ trb, None), hit)
                    | Some ob => (seq_final k b sb' (tra' ++ trb) (after_second k sv ob), hit)
                    end
                end
                end
            end
        | _ =>
            let '(r0, hit) := leafev b sb id (bin_in k true o) cx in
            let '(sb', trb, rb) :=
                match thrown r0 with
                | Some v => if bin_throw k true then fst (leafev b sb id (OValK v) cx) else caught (bin_catch k true) o r0
                | None => r0
                end in
            match rb with
            | None => ((ONode ns sa sb', trb, None), hit)
            | Some ob =>
                match k with
                | BRetry n =>
                    let r0a := start a (n_env ns) cx in
                    let r0bl := match res_err r0a with Some e => start b (env_bind (n_env ns) e) cx | None => (OFin, [], None) end in
                    (retry_b_done n a b ns sb' trb ob r0a r0bl, hit)
                | _ => (seq_final k b sb' trb (after_second k (saved ns) ob), hit)
                end
            end
        end
      else
        let '((sa', tra, ra), hita) := if adone ns then ((sa, [], None), false) else (let (r0, h) := leafev a sa id (tmode o) cx in
              let r := match thrown r0 with
                       | Some v => if bin_throw k false then fst (leafev a sa id (OValK v) cx) else r0
                       | None => r0
                       end in
              (conc_reap k a r, h)) in
        if hita then
          match ra with
          | None => ((ONode ns sa' sb, tra, None), true)
          | Some oa =>
              let '(ns1, newly, fin) := conc_child_done k ns false oa in
              match fin with
              | Some _ => (finish_conc k a b ns1 sa' sb tra fin false, true)
              | None =>
                  (* newly requested own source: tell the sibling *)
                  if newly then
                    let '(sb', trb, rb) := conc_reap k b (stop b sb cx) in
                    match rb with
                    | Some ob =>
                        let '(ns2, _, fin2) := conc_child_done k ns1 true ob in
                        (finish_conc k a b ns2 sa' sb' (tra ++ trb) fin2 false, true)
                    | None => ((ONode ns1 sa' sb', tra ++ trb, None), true)
                    end
                  else ((ONode ns1 sa' sb, tra, None), true)
              end
          end
        else
          let '((sb', trb, rb), hitb) := if bdone ns then ((sb, [], None), false) else (let (r, h) := leafev b sb id (tmode o) cx in (conc_reap k b r, h)) in
          match rb with
          | None => ((ONode ns sa sb', trb, None), hitb)
          | Some ob =>
              let '(ns1, newly, fin) := conc_child_done k ns true ob in
              match fin with
              | Some _ => (finish_conc k a b ns1 sa sb' trb fin false, hitb)
              | None =>
                  if newly then
                    let '(sa', tra, ra) := conc_reap k a (stop a sa cx) in
                    match ra with
                    | Some oa =>
                        let '(ns2, _, fin2) := conc_child_done k ns1 false oa in
                        (finish_conc k a b ns2 sa' sb' (trb ++ tra) fin2 false, hitb)
                    | None => ((ONode ns1 sa' sb', trb ++ tra, None), hitb)
                    end
                  else ((ONode ns1 sa sb', trb, None), hitb)
              end
          end
  | _, _ => ((st, [], None), false)
  end.

(* ---- [Calc2] the library's scheduler compositions, as the headers define them -------------------- *)
(* via.hpp:  via(source, sched) = finally(source, schedule(sched))   (typed_via is the same object) *)
Definition via (id c : nat) (s : sexpr) : sexpr := Bin BFinally s (Sched id c).
(* on.hpp:   on(sched, s) = sequence(schedule(sched), with_query_value(s, get_scheduler, sched)) *)
Definition on (id c : nat) (s : sexpr) : sexpr := Bin BSeq (Sched id c) (Un (UWithSched c) s).
(* with_scheduler_affinity.hpp _make_sender (the branch taken for senders that are not statically
   scheduler-affine): finally(s, unstoppable(schedule(sched))) *)
Definition wsa_via (id c : nat) (s : sexpr) : sexpr := Bin BFinally s (Un UUnstoppable (Sched id c)).

(* just_from.hpp: just_from(f) = then(just(), f)   (the harness callable is applied to 0) *)
Definition just_from (f : fn) : sexpr := Un (UThen f) (Just 0).
(* defer.hpp: defer(f) = let_value(just(), f): the body sits under one more binder than in the C++ source *)
Fixpoint lift (d : nat) (e : sexpr) : sexpr :=
  match e with
  | Var n => if Nat.leb d n then Var (S n) else Var n
  | Un k s => Un k (lift d s)
  | Bin k a b =>
      Bin k (lift d a)
          (match k with BLetV | BLetE | BRetry _ => lift (S d) b | _ => lift d b end)
  | _ => e
  end.
Definition defer (body : sexpr) : sexpr := Bin BLetV (Just 0) (lift 0 body).

(* ---- whole runs ------------------------------------------------------------------------------------ *)
(* script events; every event is delivered on a context: an external leaf completion and a stop
   request carry the context they happen on, EvRun c runs the oldest queued item of context c on c *)
Inductive sev := EvLeaf (id : nat) (o : outcome) (cx : nat) | EvStop (cx : nat) | EvRun (c : nat).

Inductive xev :=                    (* run-level trace *)
| XT (t : tev)
| XRoot (o : outcome) (live_regs : nat) (cx : nat)  (* the root receiver completed on context cx; registrations on ITS token still live *)
| XSkip                                    (* script entry that did not apply (unknown / finished leaf, second stop, empty queue) *)
| XRootDtor                                (* [Calc2] the owner destroys the completed root operation; the cascade follows *)
| XConnectThrow.                           (* [Calc2 stage 5] connect() of the whole expression threw: nothing exists, nothing runs *)

Record run_state := {
  r_st : ost; r_stopped : bool; r_roots : nat;   (* number of root completions so far *)
  r_tr : list xev;
  r_queue : list (nat * nat)                     (* [Calc2] queued schedule() operations (context, id), oldest first *)
}.

Definition root_env (stopped : bool) : env :=
  {| e_stopped := stopped; e_stoppable := true; e_root := true; e_q0 := 0; e_q1 := 0; e_sched := 0; e_ss := 0; e_alloc := 0; e_bound := [] |}.

Definition is_root_leak (x : xev) : bool := match x with XT (TLeak true) => true | _ => false end.

(* the schedule() operations enqueued by a batch of events *)
Fixpoint enqueued (tr : list tev) : list (nat * nat) :=
  match tr with
  | [] => []
  | TSchedStart id c :: r => (c, id) :: enqueued r
  | _ :: r => enqueued r
  end.

(* the oldest queued item of context c, and the queue without it *)
Fixpoint dequeue (c : nat) (q : list (nat * nat)) : option (nat * list (nat * nat)) :=
  match q with
  | [] => None
  | (c', id) :: r =>
      if Nat.eqb c c' then Some (id, r)
      else match dequeue c r with Some (i, r') => Some (i, (c', id) :: r') | None => None end
  end.

Definition absorb (rs : run_state) (r : res) (cx : nat) : run_state :=
  let '(st', tr, o) := r in
  let tr' := r_tr rs ++ map XT tr in
  let q' := r_queue rs ++ enqueued tr in
  match o with
  | Some oc => {| r_st := st'; r_stopped := r_stopped rs; r_roots := S (r_roots rs);
                  r_tr := tr' ++ [XRoot oc (length (filter is_root_leak tr')) cx]; r_queue := q' |}
  | None => {| r_st := st'; r_stopped := r_stopped rs; r_roots := r_roots rs; r_tr := tr'; r_queue := q' |}
  end.

Definition skip (rs : run_state) : run_state :=
  {| r_st := r_st rs; r_stopped := r_stopped rs; r_roots := r_roots rs; r_tr := r_tr rs ++ [XSkip]; r_queue := r_queue rs |}.

(* start() is called on context 0 *)
Definition run_start (e : sexpr) (prestopped : bool) : run_state :=
  if cthrows e then {| r_st := OFin; r_stopped := prestopped; r_roots := 0;
                       r_tr := map XT (fst (conn e 0)) ++ [XConnectThrow]; r_queue := [] |}
  else
  absorb {| r_st := OFin; r_stopped := prestopped; r_roots := 0; r_tr := []; r_queue := [] |}
         (start e (root_env prestopped) 0) 0.

Definition run_ev (e : sexpr) (rs : run_state) (ev : sev) : run_state :=
  match ev with
  | EvLeaf id o cx =>
      let '(r, hit) := leafev e (r_st rs) id o cx in
      if hit then absorb rs r cx else skip rs
  | EvStop cx =>
      if r_stopped rs then skip rs
      else
        absorb {| r_st := r_st rs; r_stopped := true; r_roots := r_roots rs; r_tr := r_tr rs; r_queue := r_queue rs |}
               (stop e (r_st rs) cx) cx
  | EvRun c =>
      match dequeue c (r_queue rs) with
      | None => skip rs
      | Some (id, q') =>
          let rs' := {| r_st := r_st rs; r_stopped := r_stopped rs; r_roots := r_roots rs; r_tr := r_tr rs; r_queue := q' |} in
          let '(r, hit) := leafev e (r_st rs) id (OVal 0) c in
          if hit then absorb rs' r c else skip rs'
      end
  end.

(* [Calc2] after the script: the owner of a completed root operation destroys it *)
Definition run_end (e : sexpr) (rs : run_state) : run_state :=
  match r_roots rs with
  | O => rs
  | S _ => {| r_st := OFin; r_stopped := r_stopped rs; r_roots := r_roots rs;
              r_tr := r_tr rs ++ XRootDtor :: map XT (dtor e (r_st rs)); r_queue := r_queue rs |}
  end.

Definition exec (e : sexpr) (prestopped : bool) (script : list sev) : run_state :=
  run_end e (fold_left (run_ev e) script (run_start e prestopped)).

End Calc2.
