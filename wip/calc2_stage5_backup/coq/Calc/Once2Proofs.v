(* C01 on the second-generation sender calculus (Calc/Calc2Defs.v, module Calc2): every started operation
   completes at most once, no completion is lost, nothing happens after completion -- for ALL sender
   expressions (including repeat_effect_until over any answer list and retry_when with any budget) and
   ALL scripts.  Port of Calc/OnceProofs.v; nothing here changes the model.

   In Calc2 completion and destruction are distinct, so the state of a completed operation is no longer
   OFin:
     wf2 e st      the operation-state shapes of a LIVE operation of e (started, not completed)
     done_st e st  the shapes of a COMPLETED (or absent) one: OFin, a completed leaf [OLeaf true _], or a
                   completed node [OCompl a b] all of whose children are completed or absent
     inert st      the shallow version (OFin / OLeaf true _ / OCompl _ _): stop and leafev do nothing on it
     pending e st  what a live operation is waiting for: running leaves, queued schedule() items, held
                   completions (LeafR whose callable has requested stop)
     good2 e r     what every entry point returns: (wf2 state, None) or (done_st state, Some o)         *)
From Coq Require Import ZArith List Bool Arith Lia.
From V Require Import Calc.Calc2Defs.
Import ListNotations.
Import Calc2.

(* ------------------------------------------------------------------------------------------------ *)
(* Definitions                                                                                      *)
(* ------------------------------------------------------------------------------------------------ *)

Fixpoint leaf_ids (e : sexpr) : list nat :=
  match e with
  | Leaf id => [id]
  | LeafN id => [id]
  | LeafR id _ => [id]
  | Un _ s => leaf_ids s
  | Bin _ a b => leaf_ids a ++ leaf_ids b
  | _ => []
  end.

(* completed or absent: deep (no live operation anywhere inside).  [stage 5] a completed allocate keeps its
   ONode (the destructor needs the allocator stored in it) *)
Fixpoint done_st (e : sexpr) (st : ost) {struct e} : Prop :=
  match e, st with
  | _, OFin => True
  | Leaf _, OLeaf true _ => True
  | LeafN _, OLeaf true _ => True
  | Sched _ _, OLeaf true _ => True
  | LeafR _ _, OLeaf true _ => True
  | Un UAllocate s, ONode _ sc OFin => done_st s sc
  | Un _ s, OCompl sc OFin => done_st s sc
  | Bin _ a b, OCompl sa sb => done_st a sa /\ done_st b sb
  | _, _ => False
  end.

(* completed or absent: shallow for the shapes that say so themselves; an ONode only if it is a completed allocate *)
Definition inert (e : sexpr) (st : ost) : Prop :=
  match st with
  | OFin => True
  | OLeaf true _ => True
  | OCompl _ _ => True
  | ONode _ _ _ => done_st e st
  | _ => False
  end.

(* equal up to the node state of completed allocates (a stop request still records itself in it; the
   allocator is kept) *)
Fixpoint sim (e : sexpr) (st st' : ost) {struct e} : Prop :=
  st = st' \/
  match e, st, st' with
  | Un UAllocate s, ONode ns sc OFin, ONode ns' sc' OFin =>
      e_alloc (n_env ns) = e_alloc (n_env ns') /\ sim s sc sc'
  | _, _, _ => False
  end.

(* the state of a started operation of [e] that has not completed *)
Fixpoint wf2 (e : sexpr) (st : ost) {struct e} : Prop :=
  match e, st with
  | Leaf _, OLeaf false _ => True
  | LeafN _, OLeaf false false => True           (* a stop-reactive leaf never survives a stop request *)
  | Sched _ _, OLeaf false _ => True             (* queued *)
  | LeafR _ _, OLeaf false _ => True
  | LeafR _ _, OHeld _ => True                   (* the callable is running; the completion is held *)
  | Un _ s, ONode _ sc OFin => wf2 s sc
  | Bin k a b, ONode ns sa sb =>
      if is_seq k then
        match ph ns with
        | PFirst => wf2 a sa /\ sb = OFin         (* first child live, second not started *)
        | PSecond => sa = OFin /\ wf2 b sb        (* first child destroyed, second live *)
        | PBoth => False
        end
      else
        (if adone ns then done_st a sa else wf2 a sa) /\
        (if bdone ns then done_st b sb else wf2 b sb) /\
        adone ns && bdone ns = false              (* both done = the node itself has completed *)
  | _, _ => False
  end.

(* what a live operation waits for *)
Inductive pend := PLeaf (id : nat) | PSched (id c : nat) | PHeld (id : nat).

Fixpoint pending (e : sexpr) (st : ost) {struct e} : list pend :=
  match e, st with
  | Leaf id, OLeaf false _ => [PLeaf id]
  | LeafN id, OLeaf false _ => [PLeaf id]
  | LeafR id _, OLeaf false _ => [PLeaf id]
  | LeafR id _, OHeld _ => [PHeld id]
  | Sched id c, OLeaf false _ => [PSched id c]
  | Un _ s, ONode _ sc _ => pending s sc
  | Bin _ a b, ONode _ sa sb => pending a sa ++ pending b sb
  | _, _ => []
  end.

Definition good2 (e : sexpr) (r : res) : Prop :=
  match r with
  | (st, _, Some _) => done_st e st
  | (st, _, None) => wf2 e st
  end.

(* ------------------------------------------------------------------------------------------------ *)
(* Basic facts                                                                                      *)
(* ------------------------------------------------------------------------------------------------ *)

Lemma done_fin : forall e, done_st e OFin.
Proof. destruct e as [v|x| |n|id|id|id c|id lvl| |id|k s|k a b]; simpl; try exact I. destruct k; exact I. Qed.

Lemma wf2_not_fin : forall e, ~ wf2 e OFin.
Proof. destruct e; simpl; auto. Qed.

Lemma done_inert : forall e st, done_st e st -> inert e st.
Proof.
  destruct e as [v|x| |n|id|id|id c|id lvl| |id|k s|k a b]; destruct st as [|[|] ?| | |]; simpl; auto;
    destruct k; auto.
Qed.

Lemma wf2_not_done : forall e st, wf2 e st -> ~ done_st e st.
Proof.
  induction e as [v|x| |n|id|id|id c|id lvl| |id|k s IHs|k a IHa b IHb]; intros st H D;
    destruct st as [|[|] ?|ns sa sb|sa sb|v']; simpl in *; try contradiction.
  destruct sb; try contradiction. destruct k; try contradiction. exact (IHs _ H D).
Qed.

Lemma wf2_not_inert : forall e st, wf2 e st -> ~ inert e st.
Proof.
  intros e st H I. destruct st as [|[|] ?|ns sa sb|sa sb|v']; simpl in I; try contradiction;
    try (destruct e; simpl in H; contradiction).
  exact (wf2_not_done _ _ H I).
Qed.

Lemma sim_refl : forall e st, sim e st st.
Proof. destruct e; simpl; auto. Qed.

Lemma sim_done : forall e st st', sim e st st' -> done_st e st -> done_st e st'.
Proof.
  induction e as [v|x| |n|id|id|id c|id lvl| |id|k s IHs|k a IHa b IHb]; intros st st' [->|S] D; auto;
    simpl in S; try contradiction.
  destruct k; try contradiction. destruct st as [| |ns sc sx| |]; try contradiction.
  destruct sx; try contradiction. destruct st' as [| |ns' sc' sx'| |]; try contradiction.
  destruct sx'; try contradiction. destruct S as (_ & S). simpl in *. exact (IHs _ _ S D).
Qed.

Lemma sim_dtor : forall e st st', sim e st st' -> dtor e st' = dtor e st.
Proof.
  induction e as [v|x| |n|id|id|id c|id lvl| |id|k s IHs|k a IHa b IHb]; intros st st' [->|S]; auto;
    simpl in S; try contradiction.
  destruct k; try contradiction. destruct st as [| |ns sc sx| |]; try contradiction.
  destruct sx; try contradiction. destruct st' as [| |ns' sc' sx'| |]; try contradiction.
  destruct sx'; try contradiction. destruct S as (E & S). simpl. rewrite (IHs _ _ S), E. reflexivity.
Qed.

(* silent after completion, state level: a completed or absent operation state does not react to a stop
   request or a leaf event (a completed allocate records the stop request in its node state: [sim]) *)
Lemma stop_inert : forall e st cx, inert e st -> exists st', stop e st cx = (st', [], None) /\ sim e st st'.
Proof.
  induction e as [v|x| |n|id|id|id c|id lvl| |id|k s IHs|k a IHa b IHb]; intros st cx H;
    destruct st as [|[|] [|]|ns sa sb|sa sb|v']; simpl in H; try contradiction;
    try (eexists; split; [reflexivity|left; reflexivity]).
  destruct k; try contradiction. destruct sb; try contradiction.
  destruct (IHs sa cx (done_inert _ _ H)) as (sa' & E & S). simpl. rewrite E.
  eexists; split; [reflexivity|]. right. simpl. split; [reflexivity|exact S].
Qed.

Lemma leafev_inert : forall e st id o cx, inert e st -> leafev e st id o cx = ((st, [], None), false).
Proof.
  induction e as [v|x| |n|id|id|id c|id lvl| |id|k s IHs|k a IHa b IHb]; intros st id0 o cx H;
    destruct st as [|[|] [|]|ns sa sb|sa sb|v']; simpl in H; try contradiction; try reflexivity.
  destruct k; try contradiction. destruct sb; try contradiction.
  simpl. rewrite (IHs sa id0 (un_in UAllocate o) cx (done_inert _ _ H)). reflexivity.
Qed.

Lemma pending_inert : forall e st, inert e st -> pending e st = [].
Proof.
  induction e as [v|x| |n|id|id|id c|id lvl| |id|k s IHs|k a IHa b IHb]; intros st H;
    destruct st as [|[|] [|]|ns sa sb|sa sb|v']; simpl in H; try contradiction; try reflexivity.
  destruct k; try contradiction. destruct sb; try contradiction.
  simpl. apply IHs. apply done_inert. exact H.
Qed.

Lemma stop_done : forall e st cx, done_st e st ->
  exists st', stop e st cx = (st', [], None) /\ sim e st st' /\ done_st e st'.
Proof.
  intros e st cx D. destruct (stop_inert e st cx (done_inert _ _ D)) as (st' & E & S).
  exists st'. split; [exact E|]. split; [exact S|]. eapply sim_done; eauto.
Qed.

Lemma leafev_done : forall e st id o cx, done_st e st -> leafev e st id o cx = ((st, [], None), false).
Proof. intros. apply leafev_inert. eapply done_inert; eauto. Qed.

Lemma pending_done : forall e st, done_st e st -> pending e st = [].
Proof. intros. apply pending_inert. eapply done_inert; eauto. Qed.

Lemma stop_fin : forall e cx, stop e OFin cx = (OFin, [], None).
Proof. destruct e; reflexivity. Qed.

Lemma leafev_fin : forall e id o cx, leafev e OFin id o cx = ((OFin, [], None), false).
Proof. destruct e; reflexivity. Qed.

(* the bookkeeping of a concurrent node when child [i] completes *)
Lemma ccd_spec : forall k ns i o ns' nw fin,
  conc_child_done k ns i o = (ns', nw, fin) ->
  adone ns' = (if i then adone ns else true) /\
  bdone ns' = (if i then true else bdone ns) /\
  match fin with
  | Some _ => (if i then adone ns else true) && (if i then true else bdone ns) = true
  | None => (if i then adone ns else true) && (if i then true else bdone ns) = false
  end.
Proof.
  intros k ns i o ns' nw fin. unfold conc_child_done.
  destruct i; simpl; destruct (adone ns) eqn:Ea, (bdone ns) eqn:Eb; simpl;
    intros H; inversion H; subst; clear H; simpl; rewrite ?Ea, ?Eb; auto.
Qed.

(* ------------------------------------------------------------------------------------------------ *)
(* The helper functions that assemble a result                                                      *)
(* ------------------------------------------------------------------------------------------------ *)

Lemma done_un_compl : forall k s sc, done_st s sc -> done_st (Un k s) (OCompl sc OFin).
Proof. intros k s sc H. destruct k; exact H. Qed.

Lemma un_done_good : forall k s sc tr o, done_st s sc -> good2 (Un k s) (un_done k s sc tr o).
Proof.
  intros. unfold un_done. destruct (un_result k o). destruct (un_eager k o); unfold good2.
  - apply done_fin.
  - apply done_un_compl. assumption.
Qed.

Lemma seq_pass_good : forall k a b sa tr o, done_st a sa -> good2 (Bin k a b) (seq_pass k a sa tr o).
Proof.
  intros. unfold seq_pass. destruct (eager_dtor k); simpl; auto. split; [assumption|apply done_fin].
Qed.

Lemma seq_final_good : forall k a b sb tr o, done_st b sb -> good2 (Bin k a b) (seq_final k b sb tr o).
Proof.
  intros. unfold seq_final. destruct (eager_dtor k); simpl; auto. split; [apply done_fin|assumption].
Qed.

Lemma conc_reap_good : forall k c r, good2 c r -> good2 c (conc_reap k c r).
Proof.
  intros k c [[sc tr] [[v|x| |v|v]|]] H; destruct k; simpl in *; auto; apply done_fin.
Qed.

Lemma finish_conc_good : forall k a b ns sa sb tr fin leak,
  (fin <> None -> done_st a sa /\ done_st b sb) ->
  (fin = None -> wf2 (Bin k a b) (ONode ns sa sb)) ->
  good2 (Bin k a b) (finish_conc k a b ns sa sb tr fin leak).
Proof.
  intros k a b ns sa sb tr [o|] leak H1 H2; unfold finish_conc.
  - assert (done_st a sa /\ done_st b sb) as D by (apply H1; discriminate).
    destruct k; try (simpl; exact D). destruct o; simpl; auto.
  - simpl. apply H2. reflexivity.
Qed.

(* repeat_effect_until: the loop ends live in the source, or completed *)
Lemma rep_loop_good : forall s r0 rest i, good2 s r0 ->
  match rep_loop s r0 rest i with
  | (_, (sc', _, r')) =>
      match r' with None => wf2 s sc' | Some _ => forall k, done_st (Un k s) sc' end
  end.
Proof.
  intros s [[sc tr] r] rest. induction rest as [|x rest IH]; intros i G; simpl.
  - intros k. destruct k; exact I.
  - destruct x; [intros k; destruct k; exact I|].
    destruct r as [[v|x| |v|v]|]; unfold good2 in G; try (intros k; destruct k; exact G); try exact G.
    specialize (IH (S i) G). destruct (rep_loop s (sc, tr, Some (OVal v)) rest (S i)) as [i' [[sc' tr'] r']].
    exact IH.
Qed.

Lemma rep_done_good : forall l s ns sc tr o r0,
  done_st s sc -> good2 s r0 -> good2 (Un (URepeat l) s) (rep_done l s ns sc tr o r0).
Proof.
  intros l s ns sc tr o r0 D G. unfold rep_done.
  destruct o; try (simpl; exact D);
  pose proof (rep_loop_good s r0 (skipn (n_iter ns) l) (n_iter ns) G) as R;
  destruct (rep_loop s r0 (skipn (n_iter ns) l) (n_iter ns)) as [i' [[sc' tr'] r']];
  (destruct r' as [o'|]; [exact (R _)|exact R]).
Qed.

(* retry_when *)
Definition retry_ok (a b : sexpr) (x : nat * phase * res) : Prop :=
  match x with
  | (_, p', (st', _, r')) =>
      match r' with
      | Some _ => st' = OFin \/ exists sa, st' = OCompl sa OFin /\ done_st a sa
      | None => (p' = PFirst /\ exists sa, st' = OCompl sa OFin /\ wf2 a sa) \/
                (p' = PSecond /\ exists sb, st' = OCompl OFin sb /\ wf2 b sb)
      end
  end.

Lemma retry_err_good : forall a b r0a r0bl rem i rbe e,
  good2 a r0a -> (res_err r0a <> None -> good2 b r0bl) -> good2 b rbe ->
  retry_ok a b (retry_err a b r0a r0bl rem i rbe e).
Proof.
  intros a b [[sa tra] ra] r0bl rem. induction rem as [|rem IH]; intros i [[sb trb] rb] e Ga Gl Gb; simpl.
  - left. reflexivity.
  - destruct rb as [[v|x| |v|v]|]; simpl in Gb; try (left; reflexivity).
    + destruct ra as [[v'|x'| |v'|v']|]; simpl in Ga;
        try (right; eexists; split; [reflexivity|exact Ga]).
      * assert (good2 b r0bl) as Gl' by (apply Gl; simpl; discriminate).
        specialize (IH (S i) r0bl x' Ga Gl Gl').
        destruct (retry_err a b (sa, tra, Some (OErr x')) r0bl rem (S i) r0bl x') as [[i' p'] [[st' tr'] r']].
        exact IH.
      * left. split; [reflexivity|]. eexists; split; [reflexivity|exact Ga].
    + right. split; [reflexivity|]. eexists; split; [reflexivity|exact Gb].
Qed.

Lemma retry_node_good : forall n a b ns x tr0,
  retry_ok a b x -> good2 (Bin (BRetry n) a b) (retry_node ns x tr0).
Proof.
  intros n a b ns [[i' p'] [[st' tr'] r']] tr0 H. unfold retry_node, retry_ok in *.
  destruct r' as [o|].
  - destruct H as [->|(sa & -> & D)]; simpl; auto. split; [exact D|apply done_fin].
  - destruct H as [(-> & sa & -> & W)|(-> & sb & -> & W)]; simpl; auto.
Qed.

Lemma retry_a_done_good : forall n a b ns sa tr oa r0a r0bl rbe,
  done_st a sa -> good2 a r0a -> (res_err r0a <> None -> good2 b r0bl) ->
  (forall e, oa = OErr e -> good2 b rbe) ->
  good2 (Bin (BRetry n) a b) (retry_a_done n a b ns sa tr oa r0a r0bl rbe).
Proof.
  intros n a b ns sa tr oa r0a r0bl rbe D Ga Gl Gb. unfold retry_a_done.
  destruct oa as [v|x| |v|v]; try (simpl; split; [exact D|apply done_fin]).
  apply retry_node_good. apply retry_err_good; auto. eapply Gb; reflexivity.
Qed.

Lemma retry_b_done_good : forall n a b ns sb tr ob r0a r0bl,
  good2 a r0a -> (res_err r0a <> None -> good2 b r0bl) ->
  good2 (Bin (BRetry n) a b) (retry_b_done n a b ns sb tr ob r0a r0bl).
Proof.
  intros n a b ns sb tr ob [[sa tra] ra] r0bl Ga Gl. unfold retry_b_done.
  destruct ob as [v|x| |v|v]; try (simpl; exact I);
  (destruct ra as [[v'|x'| |v'|v']|]; simpl in Ga;
   [ simpl; split; [exact Ga|apply done_fin]
   | apply retry_node_good; apply retry_err_good; auto; apply Gl; simpl; discriminate
   | simpl; split; [exact Ga|apply done_fin]
   | simpl; split; [exact Ga|apply done_fin]
   | simpl; split; [exact Ga|apply done_fin]
   | simpl; auto ]).
Qed.

(* the shapes in which start / stop / leafev pass the pre-computed restarts to retry_when's helpers *)
Lemma retry_bl_good : forall b r en cx, (forall en cx, good2 b (start b en cx)) ->
  res_err r <> None ->
  good2 b (match res_err r with Some e => start b (env_bind en e) cx | None => (OFin, [], None) end).
Proof. intros b r en cx IH H. destruct (res_err r); [apply IH|congruence]. Qed.

Lemma retry_bl_start_good : forall b (sa : ost) (tra : list tev) oa en cx, (forall en cx, good2 b (start b en cx)) ->
  res_err (sa, tra, Some oa) <> None ->
  good2 b (match oa with OErr e => start b (env_bind en e) cx | _ => (OFin, [], None) end).
Proof. intros b sa tra oa en cx IH H. destruct oa; simpl in H; try congruence. apply IH. Qed.

Lemma retry_be_good : forall b oa en cx, (forall en cx, good2 b (start b en cx)) ->
  forall e, oa = OErr e ->
  good2 b (match oa with OErr e => start b (env_bind en e) cx | _ => (OFin, [], None) end).
Proof. intros b oa en cx IH e ->. apply IH. Qed.

(* [stage 4] did the child's result carry a value whose copy throws? *)
Lemma thrown_none : forall (s : ost) (t : list tev), thrown (s, t, None) = None.
Proof. reflexivity. Qed.

Lemma thrown_some : forall (s : ost) (t : list tev) oc,
  thrown (s, t, Some oc) = None \/ exists v, oc = OValT v /\ thrown (s, t, Some oc) = Some v.
Proof. intros s t oc. destruct oc; simpl; auto. right. eexists; split; reflexivity. Qed.

Arguments good2 e r : simpl never.

(* ------------------------------------------------------------------------------------------------ *)
(* Symbolic execution of the big matches                                                            *)
(* ------------------------------------------------------------------------------------------------ *)

(* keep the helper functions folded while the big matches are executed (made transparent again at
   the end of the section) *)
Opaque conc_child_done un_result after_first after_second is_seq un_done seq_pass seq_final conc_reap
       finish_conc rep_done retry_a_done retry_b_done un_own un_nst un_env fired res_err dtor
       thrown un_in bin_in tmode un_throw bin_throw un_catch bin_catch sthrows sconn un_pre.

(* the term the outermost match of [t] is blocked on *)
Ltac head_scrut t :=
  lazymatch t with
  | fst ?y => head_scrut y
  | conc_reap _ _ (match ?x with _ => _ end) => head_scrut x
  | conc_reap _ _ (fst ?y) => head_scrut y
  | match ?x with _ => _ end => head_scrut x
  | _ => t
  end.

Ltac norm_ns :=
  cbn [adone bdone ph ns_set_own ns_set_env ns_set_reg ns_set_ph ns_set_saved ns_set_iter ns_set_cell mk_nst].

Ltac rw_flags :=
  norm_ns;
  repeat match goal with
         | H : adone _ = _ |- _ => rewrite H
         | H : bdone _ = _ |- _ => rewrite H
         | H : ph _ = _ |- _ => rewrite H
         | H : is_seq _ = _ |- _ => rewrite H
         end.

Ltac rw_flags_in E :=
  repeat match goal with
         | H : adone _ = _ |- _ => rewrite H in E
         | H : bdone _ = _ |- _ => rewrite H in E
         | H : ph _ = _ |- _ => rewrite H in E
         end.

Ltac simpl_good :=
  repeat match goal with
         | H : good2 _ (_, _, _) |- _ => unfold good2 in H; simpl in H
         | H : good2 _ (fst (_, _)) |- _ => simpl fst in H
         end.

Ltac revert_about x :=
  repeat match goal with H : context [x] |- _ => revert H end.

(* one step: resolve the outermost blocked match of the goal [P t] *)
Ltac step_on x :=
  lazymatch x with
  | start ?a ?en ?cx =>
      try (assert (good2 a (start a en cx)) by auto);
      revert_about x; destruct x as [[? ?] [?|]]; intros; simpl_good; subst
  | stop ?a ?st ?cx =>
      try (assert (good2 a (stop a st cx)) by auto);
      revert_about x; destruct x as [[? ?] [?|]]; intros; simpl_good; subst
  | leafev ?a ?st ?id ?o ?cx =>
      try (assert (good2 a (fst (leafev a st id o cx))) by auto);
      revert_about x; destruct x as [[[? ?] [?|]] ?]; intros; simpl_good; subst
  | conc_reap ?k ?a ?y =>
      try (assert (good2 a (conc_reap k a y)) by (apply conc_reap_good; simpl; auto));
      revert_about x; destruct x as [[? ?] [?|]]; intros; simpl_good; subst
  | conc_child_done ?k ?ns ?i ?o =>
      let E := fresh "E" in
      destruct x as [[? ?] ?] eqn:E;
      apply ccd_spec in E; simpl in E; rw_flags_in E; simpl in E;
      destruct E as (? & ? & E);
      match type of E with match ?f with _ => _ end => destruct f; try discriminate E end;
      clear E
  | thrown (?s, ?t, None) => rewrite (thrown_none s t)
  | thrown (?s, ?t, Some ?oc) =>
      let E := fresh "E" in
      destruct (thrown_some s t oc) as [E|(? & ? & E)]; [rewrite E|subst; rewrite E]
  | un_throw _ => destruct x
  | bin_throw _ _ => destruct x
  | sthrows _ => destruct x
  | after_first _ _ _ => destruct x as [?|[? ?]]
  | un_result _ _ => destruct x as [? ?]
  | own_stop _ => destruct x eqn:?
  | Nat.eqb _ _ => destruct x eqn:?
  | andb _ _ => destruct x eqn:?
  | _ => is_var x; destruct x
  end.

Ltac step :=
  simpl; rw_flags; simpl;
  lazymatch goal with
  | |- good2 _ ?t => let x := head_scrut t in step_on x
  end.

Ltac finish_good :=
  simpl; rw_flags; simpl;
  first
    [ solve [unfold good2; apply done_fin]
    | apply un_done_good; solve [auto]
    | apply rep_done_good; solve [auto]
    | apply seq_pass_good; solve [auto]
    | apply seq_final_good; solve [auto]
    | apply retry_a_done_good;
        solve [auto | unfold good2; simpl; auto | apply retry_bl_good; auto | apply retry_bl_start_good; auto
               | apply retry_be_good; auto | intros; discriminate]
    | apply retry_b_done_good; solve [auto | apply retry_bl_good; auto]
    | apply finish_conc_good;
        [ let X := fresh in intros X; first [ exfalso; apply X; reflexivity | split; solve [auto] ] | intros ?; try congruence; repeat (progress (simpl; rw_flags)); simpl; repeat split; auto ]
    | unfold good2; repeat (progress (simpl; rw_flags)); simpl; repeat split; auto ].

(* ------------------------------------------------------------------------------------------------ *)
(* start / stop / leafev keep the state well formed, and a completion leaves a completed state       *)
(* ------------------------------------------------------------------------------------------------ *)

Lemma spec_all : forall e,
  (forall en cx, good2 e (start e en cx)) /\
  (forall st cx, wf2 e st -> good2 e (stop e st cx)) /\
  (forall st id o cx, wf2 e st -> good2 e (fst (leafev e st id o cx))).
Proof.
  induction e as [v|x| |n|id|id|id c|id lvl| |id|k s IHs|k a IHa b IHb].
  - repeat split; intros; unfold good2; simpl in *; try destruct (sthrows _); simpl; auto; contradiction.
  - repeat split; intros; unfold good2; simpl in *; try destruct (sthrows _); simpl; auto; contradiction.
  - repeat split; intros; unfold good2; simpl in *; try destruct (sthrows _); simpl; auto; contradiction.
  - repeat split; intros; unfold good2; simpl in *; try destruct (sthrows _); simpl; auto; contradiction.
  - (* Leaf *)
    repeat split.
    + intros en cx. unfold good2. simpl. destruct (sthrows _); simpl; [exact I|]. destruct (e_stopped en); simpl; auto.
    + intros st cx H. unfold good2. destruct st as [|[|] [|]| | |]; simpl in *; auto; contradiction.
    + intros st id0 o cx H. unfold good2. destruct st as [|[|] sn| | |]; simpl in *; try contradiction.
      destruct (Nat.eqb id0 id); simpl; auto.
  - (* LeafN *)
    repeat split.
    + intros en cx. unfold good2. simpl. destruct (sthrows _); simpl; [exact I|]. destruct (e_stopped en); simpl; auto.
    + intros st cx H. unfold good2. destruct st as [|[|] [|]| | |]; simpl in *; auto; contradiction.
    + intros st id0 o cx H. unfold good2. destruct st as [|[|] [|]| | |]; simpl in *; try contradiction.
      destruct (Nat.eqb id0 id); simpl; auto.
  - (* Sched *)
    split; [|split].
    + intros en cx. unfold good2. simpl. destruct (sthrows _); simpl; [exact I|]. destruct (e_stopped en); simpl; auto.
    + intros st cx H. unfold good2. destruct st as [|[|] [|]| | |]; simpl in *; auto; contradiction.
    + intros st id0 o cx H. unfold good2. destruct st as [|[|] sn| | |]; simpl in *; try contradiction.
      destruct (Nat.eqb id0 id); simpl; auto.
  - (* LeafR *)
    repeat split.
    + intros en cx. unfold good2. simpl. destruct (sthrows _); simpl; [exact I|]. destruct (e_stopped en); simpl; auto.
    + intros st cx H. unfold good2. destruct st as [|[|] [|]| | |]; simpl in *; auto; contradiction.
    + intros st id0 o cx H. unfold good2. destruct st as [|[|] sn| | |]; simpl in *; try contradiction.
      * destruct (Nat.eqb id0 id); simpl; auto. destruct o; simpl; auto.
      * destruct (Nat.eqb id0 id); simpl; auto.
  - (* StopIf *)
    repeat split; intros; unfold good2; simpl in *; try destruct (sthrows _); simpl; auto; contradiction.
  - (* LeafC *)
    repeat split; intros; unfold good2; simpl in *; try destruct (sthrows _); simpl; auto; contradiction.
  - (* Un *)
    destruct IHs as (IH1 & IH2 & IH3). repeat split.
    + intros en cx. repeat step; finish_good.
    + intros st cx H. destruct st as [| |ns sc sx| |]; simpl in H; try contradiction.
      destruct sx; try contradiction.
      destruct k; simpl; try exact H; repeat step; finish_good.
    + intros st id o cx H. destruct st as [| |ns sc sx| |]; simpl in H; try contradiction.
      destruct sx; try contradiction.
      repeat step; finish_good.
  - (* Bin *)
    destruct IHa as (IHa1 & IHa2 & IHa3). destruct IHb as (IHb1 & IHb2 & IHb3).
    repeat split.
    + intros en cx. destruct (is_seq k) eqn:Hk.
      * repeat step; finish_good.
      * repeat step; finish_good.
    + intros st cx H. destruct st as [| |ns sa sb| |]; simpl in H; try contradiction.
      destruct (is_seq k) eqn:Hk.
      * destruct (ph ns) eqn:P0; try contradiction; destruct H as (Ha & Hb); subst;
          repeat step; finish_good.
      * destruct H as (Ha & Hb & Hab).
        destruct (adone ns) eqn:A0; destruct (bdone ns) eqn:B0; simpl in Hab; try discriminate; subst;
          repeat step; finish_good.
    + intros st id o cx H. destruct st as [| |ns sa sb| |]; simpl in H; try contradiction.
      destruct (is_seq k) eqn:Hk.
      * destruct (ph ns) eqn:P0; try contradiction; destruct H as (Ha & Hb); subst;
          repeat step; finish_good.
      * destruct H as (Ha & Hb & Hab).
        destruct (adone ns) eqn:A0; destruct (bdone ns) eqn:B0; simpl in Hab; try discriminate; subst;
          repeat step; finish_good.
Qed.

(* ------------------------------------------------------------------------------------------------ *)
(* which leaf events apply                                                                          *)
(* ------------------------------------------------------------------------------------------------ *)

Definition pend_id (p : pend) : nat := match p with PLeaf id => id | PSched id _ => id | PHeld id => id end.
Definition pending_ids (e : sexpr) (st : ost) : list nat := map pend_id (pending e st).

(* a leaf event applies iff something with that id is pending (a running leaf, a queued item, a held completion) *)
Definition hit_ok (e : sexpr) (st : ost) (id : nat) (r : res * bool) : Prop :=
  snd r = true <-> In id (pending_ids e st).

Lemma pids_done : forall e st, done_st e st -> pending_ids e st = [].
Proof. intros. unfold pending_ids. rewrite pending_done by assumption. reflexivity. Qed.

Lemma pids_fin : forall e, pending_ids e OFin = [].
Proof. intros. apply pids_done, done_fin. Qed.

Lemma pids_un : forall k s ns sc x, pending_ids (Un k s) (ONode ns sc x) = pending_ids s sc.
Proof. reflexivity. Qed.

Lemma pids_bin : forall k a b ns sa sb,
  pending_ids (Bin k a b) (ONode ns sa sb) = pending_ids a sa ++ pending_ids b sb.
Proof. intros. unfold pending_ids. simpl. apply map_app. Qed.

Ltac hstep :=
  simpl; rw_flags; simpl;
  lazymatch goal with
  | |- hit_ok _ _ _ ?t => let x := head_scrut t in step_on x
  end.

Ltac finish_hit :=
  simpl; rw_flags; simpl;
  unfold hit_ok in *; simpl in *; rewrite ?pids_un, ?pids_bin, ?pids_fin in *;
  repeat match goal with
         | D : done_st ?a ?sa |- _ => rewrite (pids_done a sa D) in *
         end;
  rewrite ?in_app_iff; simpl;
  intuition (try discriminate; try congruence).

Lemma hit_iff : forall e st id o cx, wf2 e st -> hit_ok e st id (leafev e st id o cx).
Proof.
  induction e as [v|x| |n|id|id|id c|id lvl| |id|k s IHs|k a IHa b IHb]; intros st id0 o cx H; simpl in H;
    try contradiction.
  - destruct st as [|[|] sn| | |]; simpl in *; try contradiction.
    unfold hit_ok. destruct (Nat.eqb id0 id) eqn:E; simpl.
    + apply Nat.eqb_eq in E. subst. intuition.
    + apply Nat.eqb_neq in E. split; [discriminate|]. intros [->|[]]. congruence.
  - destruct st as [|[|] [|]| | |]; simpl in *; try contradiction.
    unfold hit_ok. destruct (Nat.eqb id0 id) eqn:E; simpl.
    + apply Nat.eqb_eq in E. subst. intuition.
    + apply Nat.eqb_neq in E. split; [discriminate|]. intros [->|[]]. congruence.
  - destruct st as [|[|] sn| | |]; simpl in *; try contradiction.
    unfold hit_ok. destruct (Nat.eqb id0 id) eqn:E; simpl.
    + apply Nat.eqb_eq in E. subst. intuition.
    + apply Nat.eqb_neq in E. split; [discriminate|]. intros [->|[]]. congruence.
  - destruct st as [|[|] sn| | |]; simpl in *; try contradiction;
      unfold hit_ok; destruct (Nat.eqb id0 id) eqn:E; simpl;
      try (apply Nat.eqb_eq in E; subst; destruct o; simpl; intuition);
      apply Nat.eqb_neq in E; (split; [discriminate|]); intros [->|[]]; congruence.
  - destruct st as [| |ns sc sx| |]; try contradiction. destruct sx; try contradiction.
    pose proof (IHs sc id0 (un_in k o) cx H) as Fs.
    pose proof (proj2 (proj2 (spec_all s))) as IH3. pose proof (proj1 (proj2 (spec_all s))) as IH2.
    pose proof (proj1 (spec_all s)) as IH1.
    repeat hstep; finish_hit.
  - destruct st as [| |ns sa sb| |]; try contradiction.
    pose proof (proj2 (proj2 (spec_all a))) as IHa3. pose proof (proj1 (proj2 (spec_all a))) as IHa2.
    pose proof (proj1 (spec_all a)) as IHa1.
    pose proof (proj2 (proj2 (spec_all b))) as IHb3. pose proof (proj1 (proj2 (spec_all b))) as IHb2.
    pose proof (proj1 (spec_all b)) as IHb1.
    destruct (is_seq k) eqn:Hk.
    + destruct (ph ns) eqn:P0; try contradiction; destruct H as (Ha & Hb); subst.
      * pose proof (IHa sa id0 (bin_in k false o) cx Ha) as Fa. repeat hstep; finish_hit.
      * pose proof (IHb sb id0 (bin_in k true o) cx Hb) as Fb. repeat hstep; finish_hit.
    + destruct H as (Ha & Hb & Hab).
      destruct (adone ns) eqn:A0; destruct (bdone ns) eqn:B0; simpl in Hab; try discriminate; subst.
      * pose proof (IHb sb id0 (tmode o) cx Hb) as Fb. repeat hstep; finish_hit.
      * pose proof (IHa sa id0 (tmode o) cx Ha) as Fa. repeat hstep; finish_hit.
      * pose proof (IHa sa id0 (tmode o) cx Ha) as Fa. pose proof (IHb sb id0 (tmode o) cx Hb) as Fb.
        repeat hstep; finish_hit.
Qed.

Theorem leafev_hit2 : forall e st id o cx, wf2 e st ->
  (snd (leafev e st id o cx) = true <-> In id (pending_ids e st)).
Proof. exact hit_iff. Qed.

(* OnceProofs' [leafev_hit_removes] ("after a hit that id is no longer running") does NOT carry over to Calc2:
   repeat_effect_until / retry_when start a fresh instance of the same leaf inside the same call, and a
   LeafR whose source is not found stays pending as a held completion. *)
Example hit_may_restart :
  let e := Un (URepeat [false]) (Leaf 4) in
  let st := fst (fst (start e (root_env false) 0%nat)) in
  NoDup (leaf_ids e) /\ pending_ids e st = [4%nat] /\
  snd (leafev e st 4%nat (OVal 0%Z) 0%nat) = true /\
  pending_ids e (fst (fst (fst (leafev e st 4%nat (OVal 0%Z) 0%nat)))) = [4%nat].
Proof. vm_compute. repeat split; repeat constructor; simpl; intuition. Qed.

Example hit_may_hold :
  let e := LeafR 7 0 in
  let st := fst (fst (start e (root_env false) 0%nat)) in
  pending e st = [PLeaf 7] /\
  pending e (fst (fst (fst (leafev e st 7%nat (OVal 1%Z) 0%nat)))) = [PHeld 7].
Proof. vm_compute. split; reflexivity. Qed.

Transparent conc_child_done un_result after_first after_second is_seq un_done seq_pass seq_final conc_reap
       finish_conc rep_done retry_a_done retry_b_done un_own un_nst un_env fired res_err dtor
       thrown un_in bin_in tmode un_throw bin_throw un_catch bin_catch sthrows sconn un_pre.
Arguments good2 e r : simpl nomatch.

(* no lost completion, state level: a live operation waits for something that can still happen *)
Lemma no_lost2 : forall e st, wf2 e st -> pending e st <> [].
Proof.
  induction e as [v|x| |n|id|id|id c|id lvl| |id|k s IHs|k a IHa b IHb]; intros st H; simpl in H; try contradiction.
  - destruct st as [|[|] sn| | |]; simpl in *; try contradiction. discriminate.
  - destruct st as [|[|] [|]| | |]; simpl in *; try contradiction. discriminate.
  - destruct st as [|[|] sn| | |]; simpl in *; try contradiction. discriminate.
  - destruct st as [|[|] sn| | |]; simpl in *; try contradiction; discriminate.
  - destruct st as [| |ns sc sx| |]; try contradiction. destruct sx; try contradiction.
    simpl. auto.
  - destruct st as [| |ns sa sb| |]; try contradiction. simpl. intros E.
    apply app_eq_nil in E. destruct E as (Ea & Eb).
    destruct (is_seq k).
    + destruct (ph ns); try contradiction; destruct H as (Ha & Hb).
      * exact (IHa _ Ha Ea).
      * exact (IHb _ Hb Eb).
    + destruct H as (Ha & Hb & Hab).
      destruct (adone ns).
      * destruct (bdone ns); [discriminate|]. exact (IHb _ Hb Eb).
      * exact (IHa _ Ha Ea).
Qed.

Lemma good2_spec : forall e st tr r, good2 e (st, tr, r) ->
  (r = None -> wf2 e st /\ pending e st <> []) /\
  (r <> None -> done_st e st /\ inert e st /\ pending e st = []).
Proof.
  intros e st tr [o|] H; unfold good2 in H; split; intros H1; try discriminate; try congruence.
  - split; [exact H|]. split; [eapply done_inert; eauto|apply pending_done; exact H].
  - split; [exact H|exact (no_lost2 e st H)].
Qed.

Theorem start_spec2 : forall e en cx st tr r, start e en cx = (st, tr, r) ->
  (r = None -> wf2 e st /\ pending e st <> []) /\
  (r <> None -> done_st e st /\ inert e st /\ pending e st = []).
Proof.
  intros e en cx st tr r H. apply good2_spec with (tr := tr). rewrite <- H. apply spec_all.
Qed.

Theorem stop_spec2 : forall e st0 cx st tr r, wf2 e st0 -> stop e st0 cx = (st, tr, r) ->
  (r = None -> wf2 e st /\ pending e st <> []) /\
  (r <> None -> done_st e st /\ inert e st /\ pending e st = []).
Proof.
  intros e st0 cx st tr r Hw H. apply good2_spec with (tr := tr). rewrite <- H. apply spec_all; exact Hw.
Qed.

Theorem leafev_spec2 : forall e st0 id o cx st tr r hit, wf2 e st0 -> leafev e st0 id o cx = ((st, tr, r), hit) ->
  (r = None -> wf2 e st /\ pending e st <> []) /\
  (r <> None -> done_st e st /\ inert e st /\ pending e st = []).
Proof.
  intros e st0 id o cx st tr r hit Hw H. apply good2_spec with (tr := tr).
  change (st, tr, r) with (fst ((st, tr, r), hit)). rewrite <- H. apply spec_all; exact Hw.
Qed.

(* ------------------------------------------------------------------------------------------------ *)
(* Whole runs                                                                                       *)
(* ------------------------------------------------------------------------------------------------ *)

(* the run before the owner destroys the root operation: exec = run_end . run *)
Definition run (e : sexpr) (prestopped : bool) (script : list sev) : run_state :=
  fold_left (run_ev e) script (run_start e prestopped).

Lemma exec_run : forall e pre script, exec e pre script = run_end e (run e pre script).
Proof. reflexivity. Qed.

Definition is_xroot (x : xev) : bool := match x with XRoot _ _ _ => true | _ => false end.
Definition count_roots (tr : list xev) : nat := length (filter is_xroot tr).

Lemma filter_app_ : forall (A : Type) (f : A -> bool) (l1 l2 : list A),
  filter f (l1 ++ l2) = filter f l1 ++ filter f l2.
Proof.
  induction l1 as [|x l1 IH]; simpl; intros l2; [reflexivity|].
  rewrite IH. destruct (f x); reflexivity.
Qed.

Lemma count_roots_app : forall l1 l2, count_roots (l1 ++ l2) = (count_roots l1 + count_roots l2)%nat.
Proof. intros. unfold count_roots. rewrite filter_app_, app_length. reflexivity. Qed.

Lemma count_roots_XT : forall tr, count_roots (map XT tr) = 0%nat.
Proof. induction tr as [|t tr IH]; simpl; auto. Qed.

Lemma count_roots_skips : forall n, count_roots (repeat XSkip n) = 0%nat.
Proof. induction n; simpl; auto. Qed.

Lemma sim_trans : forall e a b c, sim e a b -> sim e b c -> sim e a c.
Proof.
  induction e as [v|x| |n|id|id|id c0|id lvl| |id|k s IHs|k a0 IHa b0 IHb]; intros a b c [->|S1] [->|S2];
    try (left; reflexivity); try (right; assumption); simpl in S1, S2; try contradiction.
  destruct k; try contradiction.
  destruct a as [| |na sa xa| |]; try contradiction. destruct xa; try contradiction.
  destruct b as [| |nb sb xb| |]; try contradiction. destruct xb; try contradiction.
  destruct c as [| |nc sc xc| |]; try contradiction. destruct xc; try contradiction.
  destruct S1 as (E1 & S1). destruct S2 as (E2 & S2). right. simpl. split; [congruence|].
  exact (IHs _ _ _ S1 S2).
Qed.

Lemma sim_fin : forall e st', sim e OFin st' -> st' = OFin.
Proof.
  intros e st' S. destruct e as [| | | | | | | | | |k s|]; simpl in S;
    try (destruct S as [S|S]; [symmetry; exact S|contradiction]).
  destruct S as [S|S]; [symmetry; exact S|]. destruct k; contradiction.
Qed.

(* the run-level invariant: live, root completed, or [stage 5] the root connect threw (nothing exists) *)
Definition RInv2 (e : sexpr) (rs : run_state) : Prop :=
  (r_roots rs = 0%nat /\ cthrows e = false /\ wf2 e (r_st rs)) \/
  (r_roots rs = 1%nat /\ done_st e (r_st rs)) \/
  (r_roots rs = 0%nat /\ cthrows e = true /\ r_st rs = OFin).
Definition TInv (rs : run_state) : Prop := count_roots (r_tr rs) = r_roots rs.

Lemma absorb_RInv : forall e rs r cx, r_roots rs = 0%nat -> cthrows e = false -> good2 e r -> RInv2 e (absorb rs r cx).
Proof.
  intros e rs [[st tr] [o|]] cx H0 C G; unfold good2 in G; unfold RInv2, absorb; simpl.
  - right. left. rewrite H0. auto.
  - left. auto.
Qed.

Lemma absorb_TInv : forall rs r cx, TInv rs -> TInv (absorb rs r cx).
Proof.
  intros rs [[st tr] [o|]] cx H; unfold TInv, absorb in *; simpl.
  - rewrite !count_roots_app, count_roots_XT, H. unfold count_roots. simpl. lia.
  - rewrite count_roots_app, count_roots_XT, H. lia.
Qed.

Lemma absorb_tr : forall rs r cx, exists suf, r_tr (absorb rs r cx) = r_tr rs ++ suf.
Proof.
  intros rs [[st tr] [o|]] cx; unfold absorb; simpl.
  - rewrite <- app_assoc. eexists; reflexivity.
  - eexists; reflexivity.
Qed.

Lemma run_start_RInv : forall e pre, RInv2 e (run_start e pre).
Proof.
  intros. unfold run_start. destruct (cthrows e) eqn:C.
  - right. right. simpl. auto.
  - apply absorb_RInv; [reflexivity|exact C|apply spec_all].
Qed.

Lemma run_start_TInv : forall e pre, TInv (run_start e pre).
Proof.
  intros. unfold run_start. destruct (cthrows e).
  - unfold TInv. simpl. rewrite count_roots_app, count_roots_XT. reflexivity.
  - apply absorb_TInv. reflexivity.
Qed.

(* after the root completed (or when nothing exists) nothing happens any more: every script event is a skip
   (a first EvStop only sets the flag -- and marks itself in the node state of a completed allocate) *)
Lemma run_ev_fin : forall e rs ev, done_st e (r_st rs) ->
  let rs' := run_ev e rs ev in
  sim e (r_st rs) (r_st rs') /\ done_st e (r_st rs') /\ r_roots rs' = r_roots rs /\
  (r_tr rs' = r_tr rs \/ r_tr rs' = r_tr rs ++ [XSkip]).
Proof.
  intros e rs ev H. destruct ev as [id o cx|cx|c]; simpl.
  - rewrite leafev_done by exact H. simpl. repeat split; auto. apply sim_refl.
  - destruct (r_stopped rs); simpl; [repeat split; auto; apply sim_refl|].
    destruct (stop_done e (r_st rs) cx H) as (st' & E & S & D). rewrite E. simpl. rewrite app_nil_r. auto.
  - destruct (dequeue c (r_queue rs)) as [[id q']|]; simpl; [|repeat split; auto; apply sim_refl].
    rewrite leafev_done by exact H. simpl. repeat split; auto. apply sim_refl.
Qed.

Lemma run_ev_RInv : forall e rs ev, RInv2 e rs -> RInv2 e (run_ev e rs ev).
Proof.
  intros e rs ev [(H0 & C & Hw)|[(H1 & Hf)|(H0 & C & Hf)]].
  - destruct ev as [id o cx|cx|c]; simpl.
    + pose proof (proj2 (proj2 (spec_all e)) _ id o cx Hw) as G.
      destruct (leafev e (r_st rs) id o cx) as [r hit]. simpl in G.
      destruct hit.
      * apply absorb_RInv; assumption.
      * left. simpl. auto.
    + destruct (r_stopped rs).
      * left. simpl. auto.
      * apply absorb_RInv; [assumption|assumption|]. simpl. apply spec_all. exact Hw.
    + destruct (dequeue c (r_queue rs)) as [[id q']|].
      * pose proof (proj2 (proj2 (spec_all e)) _ id (OVal 0%Z) c Hw) as G.
        destruct (leafev e (r_st rs) id (OVal 0%Z) c) as [r hit]. simpl in G.
        destruct hit.
        -- apply absorb_RInv; assumption.
        -- left. simpl. auto.
      * left. simpl. auto.
  - destruct (run_ev_fin e rs ev Hf) as (_ & D & B & _). right. left. rewrite B. auto.
  - assert (done_st e (r_st rs)) as D0 by (rewrite Hf; apply done_fin).
    destruct (run_ev_fin e rs ev D0) as (S & _ & B & _). right. right. rewrite B.
    split; [assumption|]. split; [assumption|].
    rewrite Hf in S. exact (sim_fin _ _ S).
Qed.

Lemma run_ev_TInv : forall e rs ev, TInv rs -> TInv (run_ev e rs ev).
Proof.
  assert (SK : forall rs, TInv rs -> TInv (skip rs)).
  { intros rs H. unfold TInv in *; simpl. rewrite count_roots_app, H. unfold count_roots. simpl. lia. }
  intros e rs ev H. destruct ev as [id o cx|cx|c]; simpl.
  - destruct (leafev e (r_st rs) id o cx) as [r hit]. destruct hit; [apply absorb_TInv|apply SK]; assumption.
  - destruct (r_stopped rs); [apply SK|apply absorb_TInv]; exact H.
  - destruct (dequeue c (r_queue rs)) as [[id q']|]; [|apply SK; exact H].
    destruct (leafev e (r_st rs) id (OVal 0%Z) c) as [r hit]. destruct hit; [apply absorb_TInv|apply SK]; exact H.
Qed.

Lemma run_ev_tr : forall e rs ev, exists suf, r_tr (run_ev e rs ev) = r_tr rs ++ suf.
Proof.
  intros e rs ev. destruct ev as [id o cx|cx|c]; simpl.
  - destruct (leafev e (r_st rs) id o cx) as [r hit]. destruct hit.
    + apply absorb_tr.
    + simpl. eexists; reflexivity.
  - destruct (r_stopped rs).
    + simpl. eexists; reflexivity.
    + apply (absorb_tr {| r_st := r_st rs; r_stopped := true; r_roots := r_roots rs; r_tr := r_tr rs;
                          r_queue := r_queue rs |}).
  - destruct (dequeue c (r_queue rs)) as [[id q']|]; [|simpl; eexists; reflexivity].
    destruct (leafev e (r_st rs) id (OVal 0%Z) c) as [r hit]. destruct hit.
    + apply (absorb_tr {| r_st := r_st rs; r_stopped := r_stopped rs; r_roots := r_roots rs; r_tr := r_tr rs;
                          r_queue := q' |}).
    + simpl. eexists; reflexivity.
Qed.

Lemma fold_RInv : forall e script rs, RInv2 e rs -> RInv2 e (fold_left (run_ev e) script rs).
Proof. induction script as [|ev script IH]; simpl; intros rs H; [exact H|]. apply IH, run_ev_RInv, H. Qed.

Lemma fold_TInv : forall e script rs, TInv rs -> TInv (fold_left (run_ev e) script rs).
Proof. induction script as [|ev script IH]; simpl; intros rs H; [exact H|]. apply IH, run_ev_TInv, H. Qed.

Lemma fold_tr : forall e script rs, exists suf, r_tr (fold_left (run_ev e) script rs) = r_tr rs ++ suf.
Proof.
  induction script as [|ev script IH]; simpl; intros rs.
  - exists []. rewrite app_nil_r. reflexivity.
  - destruct (IH (run_ev e rs ev)) as (s2 & E2). destruct (run_ev_tr e rs ev) as (s1 & E1).
    exists (s1 ++ s2). rewrite E2, E1, app_assoc. reflexivity.
Qed.

Lemma fold_fin : forall e script rs, done_st e (r_st rs) ->
  let rs' := fold_left (run_ev e) script rs in
  sim e (r_st rs) (r_st rs') /\ done_st e (r_st rs') /\ r_roots rs' = r_roots rs /\
  exists n, (n <= length script)%nat /\ r_tr rs' = r_tr rs ++ repeat XSkip n.
Proof.
  induction script as [|ev script IH]; simpl; intros rs H.
  - repeat split; auto; [apply sim_refl|]. exists 0%nat. simpl. rewrite app_nil_r. auto.
  - destruct (run_ev_fin e rs ev H) as (A & D & B & C).
    destruct (IH _ D) as (A' & D' & B' & n & Hn & E). repeat split; auto; try congruence.
    + eapply sim_trans; eassumption.
    + destruct C as [C|C]; rewrite C in E.
      * exists n. split; [lia|exact E].
      * exists (S n). split; [lia|]. rewrite E, <- app_assoc. reflexivity.
Qed.

Lemma run_inv : forall e pre script, RInv2 e (run e pre script) /\ TInv (run e pre script).
Proof.
  intros. unfold run. split; [apply fold_RInv, run_start_RInv|apply fold_TInv, run_start_TInv].
Qed.

Lemma run_app : forall e pre s1 s2, run e pre (s1 ++ s2) = fold_left (run_ev e) s2 (run e pre s1).
Proof. intros. unfold run. apply fold_left_app. Qed.

(* what the final destruction does to a run state *)
Lemma run_end_roots : forall e rs, r_roots (run_end e rs) = r_roots rs.
Proof. intros. unfold run_end. destruct (r_roots rs) eqn:E; simpl; auto. Qed.

Lemma run_end_tr : forall e rs,
  r_tr (run_end e rs) =
  r_tr rs ++ match r_roots rs with O => [] | S _ => XRootDtor :: map XT (dtor e (r_st rs)) end.
Proof. intros. unfold run_end. destruct (r_roots rs); simpl; auto. rewrite app_nil_r. reflexivity. Qed.

Lemma run_end_st : forall e rs,
  r_st (run_end e rs) = match r_roots rs with O => r_st rs | S _ => OFin end.
Proof. intros. unfold run_end. destruct (r_roots rs); reflexivity. Qed.

Lemma RInv2_roots : forall e rs, RInv2 e rs -> r_roots rs = 0%nat \/ r_roots rs = 1%nat.
Proof. intros e rs [(H & _)|[(H & _)|(H & _)]]; auto. Qed.

(* at most one root completion, and the trace agrees with the counter *)
Theorem C01_2_at_most_once : forall e pre script,
  (r_roots (exec e pre script) <= 1)%nat /\
  count_roots (r_tr (exec e pre script)) = r_roots (exec e pre script).
Proof.
  intros. rewrite exec_run, run_end_roots, run_end_tr, count_roots_app.
  destruct (run_inv e pre script) as (R & T). unfold TInv in T. rewrite T.
  assert (count_roots match r_roots (run e pre script) with
                      | O => []
                      | S _ => XRootDtor :: map XT (dtor e (r_st (run e pre script)))
                      end = 0%nat) as Z.
  { destruct (r_roots (run e pre script)); [reflexivity|].
    change (XRootDtor :: ?l) with ([XRootDtor] ++ l). rewrite count_roots_app, count_roots_XT. reflexivity. }
  rewrite Z. destruct (RInv2_roots _ _ R) as [H|H]; rewrite H; split; lia.
Qed.

(* the trace starts with start()'s events, start produces at most one root completion, later events only append *)
Theorem C01_2_root_after_start : forall e pre,
  (count_roots (r_tr (run e pre [])) <= 1)%nat /\
  (forall s1 s2, exists suf, r_tr (run e pre (s1 ++ s2)) = r_tr (run e pre s1) ++ suf) /\
  (forall s1 s2, (r_roots (run e pre s1) <= r_roots (run e pre (s1 ++ s2)))%nat).
Proof.
  intros e pre. split; [|split].
  - destruct (run_inv e pre []) as (R & T); unfold TInv in T; rewrite T.
    destruct (RInv2_roots _ _ R) as [H|H]; rewrite H; lia.
  - intros. rewrite run_app. apply fold_tr.
  - intros s1 s2.
    destruct (run_inv e pre s1) as (_ & B1). destruct (run_inv e pre (s1 ++ s2)) as (_ & B2).
    unfold TInv in *. rewrite run_app in *. destruct (fold_tr e s2 (run e pre s1)) as (suf & E).
    rewrite E, count_roots_app in B2. lia.
Qed.

(* no lost completion: as long as the root has not completed the operation is live and waits for a leaf,
   a queued item or a held completion -- unless [stage 5] connecting the expression threw, then nothing exists;
   once the root completed, the root operation is completed (before the owner destroys it) resp. gone (after)
   and nothing is pending *)
Theorem C01_2_no_lost_run : forall e pre script,
  let rs := run e pre script in
  (r_roots rs = 0%nat ->
     if cthrows e then r_st rs = OFin else wf2 e (r_st rs) /\ pending e (r_st rs) <> []) /\
  (r_roots rs = 1%nat -> done_st e (r_st rs) /\ inert e (r_st rs) /\ pending e (r_st rs) = []).
Proof.
  intros e pre script rs. destruct (run_inv e pre script) as ([(H & C & W)|[(H & F)|(H & C & F)]] & _);
    fold rs in H; try fold rs in W; try fold rs in F.
  - split; intros H'; [|congruence]. rewrite C. split; [exact W|apply no_lost2, W].
  - split; intros H'; [congruence|]. split; [exact F|]. split; [eapply done_inert; eauto|apply pending_done, F].
  - split; intros H'; [|congruence]. rewrite C. exact F.
Qed.

Theorem C01_2_no_lost : forall e pre script,
  let rs := exec e pre script in
  (r_roots rs = 0%nat ->
     if cthrows e then r_st rs = OFin else wf2 e (r_st rs) /\ pending e (r_st rs) <> []) /\
  (r_roots rs = 1%nat -> r_st rs = OFin /\ pending e (r_st rs) = []).
Proof.
  intros e pre script. cbv zeta. rewrite exec_run, run_end_roots, run_end_st.
  destruct (C01_2_no_lost_run e pre script) as (A & B). split; intros H; rewrite H in *.
  - apply A. reflexivity.
  - split; [reflexivity|]. apply pending_done, done_fin.
Qed.

(* silent after completion: once the root completed, every further script event is a skip; the owner's
   destruction of the root operation (run_end) comes last, and after it nothing is left to react *)
Theorem C01_2_silent_after : forall e pre script script2,
  r_roots (run e pre script) = 1%nat ->
  let rs := run e pre script in
  let rs' := run e pre (script ++ script2) in
  r_roots rs' = 1%nat /\ sim e (r_st rs) (r_st rs') /\
  exists n, (n <= length script2)%nat /\ r_tr rs' = r_tr rs ++ repeat XSkip n /\
    r_tr (exec e pre (script ++ script2)) =
      r_tr rs ++ repeat XSkip n ++ XRootDtor :: map XT (dtor e (r_st rs)) /\
    r_st (exec e pre (script ++ script2)) = OFin.
Proof.
  intros e pre script script2 H rs rs'. subst rs rs'. rewrite exec_run, run_end_tr, run_end_st, run_app.
  destruct (C01_2_no_lost_run e pre script) as (_ & F). destruct (F H) as (F' & _).
  destruct (fold_fin e script2 _ F') as (A & D & B & n & Hn & C). rewrite B, H.
  repeat split; auto. exists n. repeat split; auto. rewrite C, (sim_dtor _ _ _ A), <- app_assoc. reflexivity.
Qed.

Theorem C01_2_dead_after_end : forall e pre script script3,
  r_roots (exec e pre script) = 1%nat ->
  let rs' := fold_left (run_ev e) script3 (exec e pre script) in
  r_roots rs' = 1%nat /\ r_st rs' = OFin /\
  exists n, (n <= length script3)%nat /\ r_tr rs' = r_tr (exec e pre script) ++ repeat XSkip n.
Proof.
  intros e pre script script3 H rs'. subst rs'.
  assert (r_st (exec e pre script) = OFin) as F.
  { rewrite exec_run, run_end_st. rewrite exec_run, run_end_roots in H. rewrite H. reflexivity. }
  assert (done_st e (r_st (exec e pre script))) as F' by (rewrite F; apply done_fin).
  destruct (fold_fin e script3 _ F') as (A & D & B & C). repeat split; auto; try congruence.
  rewrite F in A. exact (sim_fin _ _ A).
Qed.

(* [stage 5] connecting the whole expression threw: nothing exists, nothing runs, every script event is skipped *)
Theorem C01_2_connect_throw : forall e pre script,
  cthrows e = true ->
  exec e pre script = run e pre script /\ r_roots (run e pre script) = 0%nat /\ r_st (run e pre script) = OFin /\
  exists n, (n <= length script)%nat /\
    r_tr (run e pre script) = map XT (fst (conn e 0)) ++ XConnectThrow :: repeat XSkip n.
Proof.
  intros e pre script C.
  assert (S0 : run_start e pre = {| r_st := OFin; r_stopped := pre; r_roots := 0;
                                   r_tr := map XT (fst (conn e 0)) ++ [XConnectThrow]; r_queue := [] |}).
  { unfold run_start. rewrite C. reflexivity. }
  assert (done_st e (r_st (run_start e pre))) as D0 by (rewrite S0; apply done_fin).
  destruct (fold_fin e script _ D0) as (A & D & B & n & Hn & E). fold (run e pre script) in A, D, B, E.
  rewrite S0 in A, B, E. simpl in A, B, E.
  assert (r_st (run e pre script) = OFin) as F.
  { exact (sim_fin _ _ A). }
  split; [|split; [exact B|split; [exact F|]]].
  - rewrite exec_run. unfold run_end. rewrite B. reflexivity.
  - exists n. split; [exact Hn|]. rewrite E, <- app_assoc. reflexivity.
Qed.
