(* Calc2 restricted to Calc's fragment refines Calc.

   Calc/CalcDefs.v (module Calc) and Calc/Calc2Defs.v (module Calc2) are two generations of the executable
   operational model of sender expressions; each is tied to the real library by its own differential harness and
   each has its own theorems.  This file ties the two MODELS to each other:

     embed : Calc.sexpr -> Calc2.sexpr   constructor by constructor (embed_fn / embed_uk / embed_bk / embed_o likewise)
     embed_ev                             every script event is delivered on context 0
     erase : list Calc2.xev -> list Calc.xev
                                          drops what Calc does not have (TLeafDtor, XRootDtor, scheduler / allocator /
                                          predicate events, XConnectThrow) and forgets the scheduler / context fields
     sim                                  the state relation: Calc's OFin (completed or absent) corresponds to Calc2's
                                          inert states OFin / OLeaf true _ / OCompl _ _; live leaves are equal; node
                                          states agree on every field Calc has (nrel, env_rel)

     node_refines / start_refines / stop_refines / leafev_refines
                                          start, stop and leafev of the embedded expression from related states give
                                          related states, the same optional outcome and traces equal after erasure
     refines                              erase (r_tr (Calc2.exec (embed e) pre (map embed_ev script))) = r_tr (Calc.exec e pre script)
     refines_root_count, refines_roots    the same number of root completions, with literally Calc's outcomes
     C05_calc2_result, C11_calc2_sends_done
                                          Calc theorems about outcomes transferred to Calc2 on the fragment

   Calc2's stage-4 value-copy fault protocol (un_in / bin_in / tmode / thrown / caught / leaf_out / conc_in) is the
   identity on outcomes in the image of embed_o, and stage 5's sthrows / cthrows are false on embedded expressions;
   Calc2's eager destructor cascades only show TLeafDtor events, which erase drops wherever they are interleaved.
   Nothing here changes either model. *)
From Coq Require Import ZArith List Bool Arith Lia.
From V Require Import Calc.CalcDefs Calc.Calc2Defs Calc.DenoteDefs Calc.DenoteProofs Calc.TraitsDefs Calc.TraitsProofs.
Import ListNotations.
Local Open Scope Z_scope.

Module C := Calc.
Module D := Calc2.

(* ------------------------------------------------------------------------------------------------ *)
(* The embedding of Calc's syntax into Calc2's                                                      *)
Definition embed_o (o : C.outcome) : D.outcome :=
  match o with C.OVal v => D.OVal v | C.OErr e => D.OErr e | C.ODone => D.ODone end.
Definition embed_fn (f : C.fn) : D.fn :=
  match f with C.FAdd k => D.FAdd k | C.FMul k => D.FMul k | C.FThrow e => D.FThrow e
  | C.FThrowIf x e => D.FThrowIf x e end.
Definition embed_uk (k : C.ukind) : D.ukind :=
  match k with
  | C.UThen f => D.UThen (embed_fn f) | C.UUponErr f => D.UUponErr (embed_fn f)
  | C.UUponDone f => D.UUponDone (embed_fn f) | C.UWithQ q v => D.UWithQ q v
  | C.UUnstoppable => D.UUnstoppable | C.UMat => D.UMat | C.UDoneOpt => D.UDoneOpt end.
Definition embed_bk (k : C.bkind) : D.bkind :=
  match k with
  | C.BLetV => D.BLetV | C.BLetE => D.BLetE | C.BLetD => D.BLetD | C.BSeq => D.BSeq
  | C.BFinally => D.BFinally | C.BWhenAll => D.BWhenAll | C.BStopWhen => D.BStopWhen end.
Fixpoint embed (e : C.sexpr) : D.sexpr :=
  match e with
  | C.Just v => D.Just v | C.JustErr x => D.JustErr x | C.JustDone => D.JustDone
  | C.Var n => D.Var n | C.Leaf id => D.Leaf id | C.LeafN id => D.LeafN id
  | C.Un k s => D.Un (embed_uk k) (embed s)
  | C.Bin k a b => D.Bin (embed_bk k) (embed a) (embed b)
  end.
(* every script event is delivered on context 0 *)
Definition embed_ev (ev : C.sev) : D.sev :=
  match ev with C.EvLeaf id o => D.EvLeaf id (embed_o o) 0 | C.EvStop => D.EvStop 0 end.

(* ------------------------------------------------------------------------------------------------ *)
(* Erasure of Calc2's traces: drop what Calc does not have, forget the context / scheduler fields   *)
Definition erase_fn (f : D.fn) : C.fn :=
  match f with D.FAdd k => C.FAdd k | D.FMul k => C.FMul k | D.FThrow e => C.FThrow e
  | D.FThrowIf x e => C.FThrowIf x e end.
(* (OValT / OValK do not occur on the fragment: [refines_roots]) *)
Definition erase_o (o : D.outcome) : C.outcome :=
  match o with D.OVal v => C.OVal v | D.OErr e => C.OErr e | D.ODone => C.ODone
  | D.OValT v => C.OVal v | D.OValK v => C.OVal v end.
Definition erase_t (t : D.tev) : list C.tev :=
  match t with
  | D.TLeafStart id st sp q0 q1 _ _ => [C.TLeafStart id st sp q0 q1]
  | D.TLeafStop id => [C.TLeafStop id]
  | D.TCall f x => [C.TCall (erase_fn f) x]
  | D.TLeak r => [C.TLeak r]
  | _ => []
  end.
Definition erase_tl (l : list D.tev) : list C.tev := flat_map erase_t l.
Definition erase_x (x : D.xev) : list C.xev :=
  match x with
  | D.XT t => map C.XT (erase_t t)
  | D.XRoot o n _ => [C.XRoot (erase_o o) n]
  | D.XSkip => [C.XSkip]
  | _ => []
  end.
Definition erase (l : list D.xev) : list C.xev := flat_map erase_x l.

(* the outcomes the root receiver was completed with in a Calc2 run, in order *)
Fixpoint xroots2 (tr : list D.xev) : list D.outcome :=
  match tr with
  | [] => []
  | D.XRoot o _ _ :: tr' => o :: xroots2 tr'
  | _ :: tr' => xroots2 tr'
  end.

(* ------------------------------------------------------------------------------------------------ *)
(* The state relation                                                                               *)
Definition env_rel (en : C.env) (en2 : D.env) : Prop :=
  D.e_stopped en2 = C.e_stopped en /\ D.e_stoppable en2 = C.e_stoppable en /\ D.e_root en2 = C.e_root en /\
  D.e_q0 en2 = C.e_q0 en /\ D.e_q1 en2 = C.e_q1 en /\ D.e_bound en2 = C.e_bound en.

Definition embed_ph (p : C.phase) : D.phase :=
  match p with C.PFirst => D.PFirst | C.PSecond => D.PSecond | C.PBoth => D.PBoth end.

Definition nrel (ns : C.nst) (ns2 : D.nst) : Prop :=
  D.ph ns2 = embed_ph (C.ph ns) /\ env_rel (C.n_env ns) (D.n_env ns2) /\ D.own_stop ns2 = C.own_stop ns /\
  D.reg ns2 = C.reg ns /\ D.adone ns2 = C.adone ns /\ D.bdone ns2 = C.bdone ns /\
  D.saved ns2 = option_map embed_o (C.saved ns) /\ D.va ns2 = C.va ns /\ D.vb ns2 = C.vb ns.

(* Calc2 states on which stop and leafev do nothing: no operation, a completed leaf, a completed node *)
Definition inert (st : D.ost) : Prop :=
  match st with D.OFin | D.OLeaf true _ | D.OCompl _ _ => True | _ => False end.

(* Calc's OFin (completed, or never started) corresponds to Calc2's inert states *)
Fixpoint sim_st (st : C.ost) (st2 : D.ost) {struct st} : Prop :=
  match st with
  | C.OFin => inert st2
  | C.OLeaf c s => st2 = D.OLeaf c s
  | C.ONode ns a b =>
      match st2 with
      | D.ONode ns2 a2 b2 => nrel ns ns2 /\ sim_st a a2 /\ sim_st b b2
      | _ => False
      end
  end.
(* the relation does not depend on the expression (both machines ignore states of the wrong shape) *)
Definition sim (e : C.sexpr) (st : C.ost) (st2 : D.ost) : Prop := sim_st st st2.

Definition res_rel (r : C.res) (r2 : D.res) : Prop :=
  sim_st (fst (fst r)) (fst (fst r2)) /\ erase_tl (snd (fst r2)) = snd (fst r) /\
  snd r2 = option_map embed_o (snd r).

(* ------------------------------------------------------------------------------------------------ *)
(* Basic facts                                                                                      *)
Lemma erase_embed_o : forall o, erase_o (embed_o o) = o.
Proof. destruct o; reflexivity. Qed.
Lemma erase_embed_fn : forall f, erase_fn (embed_fn f) = f.
Proof. destruct f; reflexivity. Qed.
Lemma erase_tl_app : forall l1 l2, erase_tl (l1 ++ l2) = erase_tl l1 ++ erase_tl l2.
Proof. intros; apply flat_map_app. Qed.
Lemma erase_app : forall l1 l2, erase (l1 ++ l2) = erase l1 ++ erase l2.
Proof. intros; apply flat_map_app. Qed.
Lemma erase_XT : forall tr, erase (map D.XT tr) = map C.XT (erase_tl tr).
Proof.
  induction tr as [|t tr IH]; [reflexivity|].
  change (erase (map D.XT (t :: tr))) with (map C.XT (erase_t t) ++ erase (map D.XT tr)).
  change (erase_tl (t :: tr)) with (erase_t t ++ erase_tl tr). rewrite map_app, IH. reflexivity.
Qed.
Lemma xroots2_app : forall l1 l2, xroots2 (l1 ++ l2) = xroots2 l1 ++ xroots2 l2.
Proof.
  induction l1 as [|x l1 IH]; intros l2; [reflexivity|]. destruct x; simpl; rewrite IH; reflexivity.
Qed.
Lemma xroots2_XT : forall tr, xroots2 (map D.XT tr) = [].
Proof. induction tr; simpl; auto. Qed.
Lemma xroots2_In : forall tr o, In o (xroots2 tr) <-> exists n cx, In (D.XRoot o n cx) tr.
Proof.
  induction tr as [|x tr IH]; intros o; simpl.
  - split; [tauto|]. intros (n & cx & []).
  - destruct x as [t|o' m c| | |]; simpl; rewrite IH; split;
      try (intros (n & cx & H); exists n, cx; auto; fail);
      try (intros (n & cx & [H|H]); [discriminate H|exists n, cx; exact H]).
    + intros [->|(n & cx & H)]; [exists m, c; auto|exists n, cx; auto].
    + intros (n & cx & [H|H]); [inversion H; auto|right; exists n, cx; exact H].
Qed.

(* the live-registration count of a root completion is preserved by erasure *)
Lemma root_leaks_erase : forall l,
  length (filter C.is_root_leak (erase l)) = length (filter D.is_root_leak l).
Proof.
  induction l as [|x l IH]; [reflexivity|].
  change (erase (x :: l)) with (erase_x x ++ erase l). rewrite filter_app, app_length, IH.
  destruct x as [t|o n c| | |]; try reflexivity.
  destruct t as [? ? ? ? ? ? ?|?|? ?|[|]|?|? ?|?|? ?|?|?|?|?]; reflexivity.
Qed.

(* destructor cascades of embedded expressions show only leaf destructions, which Calc does not have *)
Lemma erase_dtor : forall e st, erase_tl (D.dtor (embed e) st) = [].
Proof.
  induction e as [v|x| |n|id|id|k s IHs|k a IHa b IHb]; intros st; destruct st as [|c sn|ns sa sb|sa sb|v'];
    try reflexivity;
    try (destruct k; simpl; solve [reflexivity|apply IHs]);
    simpl; destruct (D.dtor_b_first (embed_bk k)); rewrite erase_tl_app, IHa, IHb; reflexivity.
Qed.

(* [stage 5] nothing in the fragment throws from connect *)
Lemma cthrows_embed : forall e, D.cthrows (embed e) = false.
Proof.
  induction e as [v|x| |n|id|id|k s IHs|k a IHa b IHb]; try reflexivity.
  - exact IHs.
  - simpl. rewrite IHa, IHb. destruct k; reflexivity.
Qed.
Lemma sthrows_embed : forall e, D.sthrows (embed e) = false.
Proof.
  intros e. unfold D.sthrows. rewrite cthrows_embed.
  destruct e as [v|x| |n|id|id|k s|k a b]; try reflexivity. destruct k; reflexivity.
Qed.

(* [stage 4] with script outcomes in the image of embed_o the value-copy fault protocol is the identity *)
Lemma tmode_embed : forall o, D.tmode (embed_o o) = embed_o o.
Proof. destruct o; reflexivity. Qed.
Lemma leaf_out_embed : forall o, D.leaf_out (embed_o o) = embed_o o.
Proof. destruct o; reflexivity. Qed.
Lemma un_in_embed : forall k o, D.un_in k (embed_o o) = embed_o o.
Proof. intros; unfold D.un_in; rewrite tmode_embed; destruct (D.un_fwd k); reflexivity. Qed.
Lemma bin_in_embed : forall k i o, D.bin_in k i (embed_o o) = embed_o o.
Proof. intros; unfold D.bin_in; rewrite tmode_embed; destruct (D.bin_fwd k i); reflexivity. Qed.
Lemma thrown_embed : forall st tr r, D.thrown (st, tr, option_map embed_o r) = None.
Proof. intros st tr [[| |]|]; reflexivity. Qed.
Lemma caught_embed : forall c o st tr r, D.caught c o (st, tr, option_map embed_o r) = (st, tr, option_map embed_o r).
Proof. intros c o st tr [[| |]|]; reflexivity. Qed.
Lemma conc_in_embed : forall k o, D.conc_in k (embed_o o) = embed_o o.
Proof. destruct k, o; reflexivity. Qed.
Lemma conc_reap_embed : forall k c r, D.conc_reap (embed_bk k) c r = r.
Proof. destruct k; reflexivity. Qed.

(* ------------------------------------------------------------------------------------------------ *)
(* Environments and node states                                                                     *)
Lemma env_rel_with_stop : forall en en2 s, env_rel en en2 -> env_rel (C.env_with_stop en s) (D.env_with_stop en2 s).
Proof. unfold env_rel; simpl; intuition. Qed.
Lemma env_rel_bind : forall en en2 v, env_rel en en2 -> env_rel (C.env_bind en v) (D.env_bind en2 v).
Proof. unfold env_rel; simpl; intuition; congruence. Qed.
Lemma env_rel_q : forall en en2 q v, env_rel en en2 -> env_rel (C.env_q en q v) (D.env_q en2 q v).
Proof. unfold env_rel; destruct q; simpl; intuition. Qed.
Lemma env_rel_unstoppable : forall en en2, env_rel en en2 -> env_rel (C.env_unstoppable en) (D.env_unstoppable en2).
Proof. unfold env_rel; simpl; intuition. Qed.
Lemma env_rel_own : forall en en2 s, env_rel en en2 -> env_rel (C.env_own en s) (D.env_own en2 s).
Proof. unfold env_rel; simpl; intuition. Qed.
Lemma env_rel_un : forall k en en2, env_rel en en2 -> env_rel (C.un_env k en) (D.un_env (embed_uk k) en2).
Proof. destruct k; simpl; auto using env_rel_q, env_rel_unstoppable. Qed.
Lemma env_rel_root : forall s, env_rel (C.root_env s) (D.root_env s).
Proof. unfold env_rel; simpl; intuition. Qed.
Lemma env_rel_stopped : forall en en2, env_rel en en2 -> D.e_stopped en2 = C.e_stopped en.
Proof. unfold env_rel; tauto. Qed.

Lemma nrel_mk : forall p en en2, env_rel en en2 -> nrel (C.mk_nst p en) (D.mk_nst (embed_ph p) en2).
Proof. unfold nrel; simpl; intuition. Qed.
Lemma nrel_set_env : forall ns ns2 en en2, nrel ns ns2 -> env_rel en en2 -> nrel (C.ns_set_env ns en) (D.ns_set_env ns2 en2).
Proof. unfold nrel; simpl; intuition. Qed.
Lemma nrel_set_ph : forall ns ns2 p, nrel ns ns2 -> nrel (C.ns_set_ph ns p) (D.ns_set_ph ns2 (embed_ph p)).
Proof. unfold nrel; simpl; intuition. Qed.
Lemma nrel_set_own : forall ns ns2 b, nrel ns ns2 -> nrel (C.ns_set_own ns b) (D.ns_set_own ns2 b).
Proof. unfold nrel; simpl; intuition. Qed.
Lemma nrel_set_reg : forall ns ns2 b, nrel ns ns2 -> nrel (C.ns_set_reg ns b) (D.ns_set_reg ns2 b).
Proof. unfold nrel; simpl; intuition. Qed.
Lemma nrel_set_saved : forall ns ns2 o, nrel ns ns2 ->
  nrel (C.ns_set_saved ns o) (D.ns_set_saved ns2 (option_map embed_o o)).
Proof. unfold nrel; simpl; intuition. Qed.
Lemma nrel_env : forall ns ns2, nrel ns ns2 -> env_rel (C.n_env ns) (D.n_env ns2).
Proof. unfold nrel; tauto. Qed.
Lemma nrel_stop_env : forall ns ns2, nrel ns ns2 ->
  nrel (C.ns_set_env ns (C.env_with_stop (C.n_env ns) true)) (D.ns_set_env ns2 (D.env_with_stop (D.n_env ns2) true)).
Proof. intros. apply nrel_set_env; [assumption|]. apply env_rel_with_stop, nrel_env; assumption. Qed.
Lemma nrel_ph : forall ns ns2, nrel ns ns2 -> D.ph ns2 = embed_ph (C.ph ns).
Proof. unfold nrel; tauto. Qed.
Lemma nrel_own : forall ns ns2, nrel ns ns2 -> D.own_stop ns2 = C.own_stop ns.
Proof. unfold nrel; tauto. Qed.
Lemma nrel_adone : forall ns ns2, nrel ns ns2 -> D.adone ns2 = C.adone ns.
Proof. unfold nrel; tauto. Qed.
Lemma nrel_bdone : forall ns ns2, nrel ns ns2 -> D.bdone ns2 = C.bdone ns.
Proof. unfold nrel; tauto. Qed.
Lemma nrel_saved : forall ns ns2, nrel ns ns2 -> D.saved ns2 = option_map embed_o (C.saved ns).
Proof. unfold nrel; tauto. Qed.

(* the initial node state of when_all / stop_when *)
Lemma nrel_conc0 : forall en en2, env_rel en en2 ->
  nrel (C.ns_set_own (C.ns_set_reg (C.mk_nst C.PBoth en) (negb (C.e_stopped en))) (C.e_stopped en))
       (D.ns_set_own (D.ns_set_reg (D.mk_nst D.PBoth en2) (negb (D.e_stopped en2))) (D.e_stopped en2)).
Proof.
  intros en en2 H. rewrite (env_rel_stopped _ _ H).
  apply nrel_set_own, nrel_set_reg. exact (nrel_mk C.PBoth _ _ H).
Qed.

(* ------------------------------------------------------------------------------------------------ *)
(* The non-recursive helpers agree                                                                  *)
Lemma is_seq_embed : forall k, D.is_seq (embed_bk k) = C.is_seq k.
Proof. destruct k; reflexivity. Qed.

Lemma un_result_embed : forall k o,
  erase_tl (fst (D.un_result (embed_uk k) (embed_o o))) = fst (C.un_result k o) /\
  snd (D.un_result (embed_uk k) (embed_o o)) = embed_o (snd (C.un_result k o)).
Proof.
  destruct k as [f|f|f|q v| | |], o as [v'|x|]; simpl; auto;
    rewrite erase_embed_fn; (split; [reflexivity|]); destruct f; simpl; try reflexivity.
  - destruct (v' =? x); reflexivity.
  - destruct (x =? x0); reflexivity.
  - destruct x; reflexivity.
Qed.

(* a concurrent node learns that a child completed: same flags, same saved result, same final outcome *)
Lemma conc_child_done_embed : forall k ns ns2 i o, C.is_seq k = false -> nrel ns ns2 ->
  nrel (fst (fst (C.conc_child_done k ns i o))) (fst (fst (D.conc_child_done (embed_bk k) ns2 i (embed_o o)))) /\
  snd (fst (D.conc_child_done (embed_bk k) ns2 i (embed_o o))) = snd (fst (C.conc_child_done k ns i o)) /\
  snd (D.conc_child_done (embed_bk k) ns2 i (embed_o o)) = option_map embed_o (snd (C.conc_child_done k ns i o)).
Proof.
  intros k ns ns2 i o Hk H.
  destruct ns as [p en os rg ad bd sv xa xb], ns2 as [p2 en2 os2 rg2 ad2 bd2 sv2 xa2 xb2 it cl].
  unfold nrel in H; simpl in H. destruct H as (Hp & He & -> & -> & -> & -> & -> & -> & ->).
  pose proof (env_rel_stopped _ _ He) as Hs.
  unfold C.conc_child_done, D.conc_child_done. rewrite conc_in_embed.
  destruct k; try discriminate Hk; destruct i, o as [v|x|], sv as [[v'|x'|]|], ad, bd; simpl; rewrite ?Hs;
    try (destruct (C.e_stopped en)); simpl; unfold nrel; simpl;
    repeat match goal with |- _ /\ _ => split end; solve [assumption|reflexivity].
Qed.

(* ------------------------------------------------------------------------------------------------ *)
(* Inert states                                                                                     *)
Lemma stop2_inert : forall e st cx, inert st -> D.stop e st cx = (st, [], None).
Proof.
  intros e st cx H. destruct st as [|[|] sn|ns sa sb|sa sb|v]; try contradiction H;
    destruct e as [v'|x| |n|id|id|id c|id l| |id|k s|k a b]; reflexivity.
Qed.
Lemma leafev2_inert : forall e st id o cx, inert st -> D.leafev e st id o cx = ((st, [], None), false).
Proof.
  intros e st id o cx H. destruct st as [|[|] sn|ns sa sb|sa sb|v]; try contradiction H;
    destruct e as [v'|x| |n|i|i|i c|i l| |i|k s|k a b]; reflexivity.
Qed.
Lemma stop1_fin : forall e, C.stop e C.OFin = (C.OFin, [], None).
Proof. destruct e; reflexivity. Qed.
Lemma leafev1_fin : forall e id o, C.leafev e C.OFin id o = ((C.OFin, [], None), false).
Proof. destruct e; reflexivity. Qed.

Definition res_rel4 (r : C.res) (r2 : D.res) : Prop :=
  res_rel r r2 /\ (forall o, snd r = Some o -> fst (fst r) = C.OFin).

Definition start_ok (e : C.sexpr) : Prop := forall en en2 cx, env_rel en en2 ->
  res_rel4 (C.start e en) (D.start (embed e) en2 cx).
Definition stop_ok (e : C.sexpr) : Prop := forall st st2 cx, sim_st st st2 ->
  res_rel4 (C.stop e st) (D.stop (embed e) st2 cx).
Definition leafev_ok (e : C.sexpr) : Prop := forall st st2 id o cx, sim_st st st2 ->
  res_rel4 (fst (C.leafev e st id o)) (fst (D.leafev (embed e) st2 id (embed_o o) cx)) /\
  snd (D.leafev (embed e) st2 id (embed_o o) cx) = snd (C.leafev e st id o).

#[local] Arguments D.sthrows : simpl never.

Lemma sthrows_un : forall k s, D.sthrows (D.Un (embed_uk k) (embed s)) = false.
Proof. intros; exact (sthrows_embed (C.Un k s)). Qed.
Lemma sthrows_bin : forall k a b, D.sthrows (D.Bin (embed_bk k) (embed a) (embed b)) = false.
Proof. intros; exact (sthrows_embed (C.Bin k a b)). Qed.

Lemma res_rel4_intro : forall st tr o st2 tr2 o2,
  sim_st st st2 -> erase_tl tr2 = tr -> o2 = option_map embed_o o -> (forall x, o = Some x -> st = C.OFin) ->
  res_rel4 (st, tr, o) (st2, tr2, o2).
Proof. intros. unfold res_rel4, res_rel; simpl; auto. Qed.

Lemma res_rel4_elim : forall r r2, res_rel4 r r2 ->
  exists st tr o st2 tr2, r = (st, tr, o) /\ r2 = (st2, tr2, option_map embed_o o) /\
    sim_st st st2 /\ erase_tl tr2 = tr /\ (forall x, o = Some x -> st = C.OFin).
Proof.
  intros [[st tr] o] [[st2 tr2] o2] [(H1 & H2 & H3) H4]; simpl in *. subst o2.
  exists st, tr, o, st2, tr2. auto.
Qed.

#[local] Hint Resolve env_rel_with_stop env_rel_bind env_rel_q env_rel_unstoppable env_rel_own env_rel_un
  env_rel_root nrel_set_env nrel_set_own nrel_set_reg nrel_set_saved nrel_env nrel_stop_env nrel_conc0 : rf.
#[local] Hint Extern 1 (inert _) => exact I : rf.
#[local] Hint Extern 1 (nrel (C.mk_nst ?p _) _) => apply (nrel_mk p) : rf.
#[local] Hint Extern 1 (nrel (C.ns_set_ph _ ?p) _) => apply (nrel_set_ph _ _ p) : rf.
#[local] Hint Extern 1 (nrel (C.ns_set_saved _ ?o) _) => apply (nrel_set_saved _ _ o) : rf.

Ltac use_rel H :=
  let st := fresh "st" in let tr := fresh "tr" in let o := fresh "r" in
  let st2 := fresh "st2" in let tr2 := fresh "tr2" in
  let E1 := fresh "E1" in let E2 := fresh "E2" in let Hs := fresh "Hsim" in let Ht := fresh "Htr" in
  let Hf := fresh "Hfin" in
  destruct (res_rel4_elim _ _ H) as (st & tr & o & st2 & tr2 & E1 & E2 & Hs & Ht & Hf);
  rewrite ?E1, ?E2; clear H E1 E2; subst tr.

Ltac step_start IH :=
  match goal with
  | |- context [D.start (embed ?s) ?en2 ?cx] =>
    match goal with
    | |- context [C.start s ?en] =>
      let H := fresh "H" in
      assert (H : res_rel4 (C.start s en) (D.start (embed s) en2 cx)) by (apply IH; auto with rf);
      use_rel H
    end
  end.
Ltac step_stop IH :=
  match goal with
  | |- context [D.stop (embed ?s) ?st2 ?cx] =>
    match goal with
    | |- context [C.stop s ?st] =>
      let H := fresh "H" in
      assert (H : res_rel4 (C.stop s st) (D.stop (embed s) st2 cx)) by (apply IH; auto with rf);
      use_rel H
    end
  end.

Ltac fin :=
  apply res_rel4_intro;
  [ simpl; auto 6 with rf
  | simpl; rewrite ?erase_tl_app, ?erase_dtor, ?app_nil_r; try reflexivity
  | try reflexivity
  | try (intros ? ?; solve [reflexivity|discriminate]) ].


(* ------------------------------------------------------------------------------------------------ *)
(* Unary nodes                                                                                      *)
Lemma start2_un : forall k s en cx, D.start (embed (C.Un k s)) en cx =
  let '(sc, tr, r) := D.start (embed s) (D.un_env (embed_uk k) en) cx in
  match r with
  | Some o => D.un_done (embed_uk k) (embed s) sc tr o
  | None => (D.ONode (D.mk_nst D.PFirst en) sc D.OFin, tr, None)
  end.
Proof. intros. simpl. rewrite sthrows_un. destruct k; reflexivity. Qed.

Lemma stop2_un : forall k s ns sc x cx, D.stop (embed (C.Un k s)) (D.ONode ns sc x) cx =
  match k with
  | C.UUnstoppable => (D.ONode ns sc x, [], None)
  | _ =>
      let ns' := D.ns_set_env ns (D.env_with_stop (D.n_env ns) true) in
      let '(sc', tr, r) := D.stop (embed s) sc cx in
      match r with
      | Some o => D.un_done (embed_uk k) (embed s) sc' tr o
      | None => (D.ONode ns' sc' D.OFin, tr, None)
      end
  end.
Proof. intros. destruct k; reflexivity. Qed.

Lemma leafev2_un : forall k s ns sc x id o cx, D.leafev (embed (C.Un k s)) (D.ONode ns sc x) id o cx =
  let '(r0, hit) := D.leafev (embed s) sc id (D.un_in (embed_uk k) o) cx in
  let '(sc', tr, r) :=
      match D.thrown r0 with
      | Some v => if D.un_throw (embed_uk k) then fst (D.leafev (embed s) sc id (D.OValK v) cx)
                  else D.caught (D.un_catch (embed_uk k)) o r0
      | None => r0
      end in
  match r with
  | Some oc => (D.un_done (embed_uk k) (embed s) sc' tr oc, hit)
  | None => ((D.ONode ns sc' D.OFin, tr, None), hit)
  end.
Proof. intros. destruct k; reflexivity. Qed.

Lemma un_done_rel : forall k s sc2 tr2 o,
  res_rel4 (let (tr', o') := C.un_result k o in (C.OFin, erase_tl tr2 ++ tr', Some o'))
           (D.un_done (embed_uk k) (embed s) sc2 tr2 (embed_o o)).
Proof.
  intros. unfold D.un_done. destruct (un_result_embed k o) as [U1 U2].
  destruct (C.un_result k o) as [tr' o'], (D.un_result (embed_uk k) (embed_o o)) as [tr2' o2']; simpl in *.
  subst. destruct (D.un_eager (embed_uk k) (embed_o o)); fin.
Qed.

Lemma un_start_ok : forall k s, start_ok s -> start_ok (C.Un k s).
Proof.
  intros k s IHstart. intros en en2 cx He.
  rewrite start2_un. simpl. step_start IHstart.
  destruct r as [o|]; simpl; [apply un_done_rel|fin].
Qed.

Lemma un_stop_ok : forall k s, stop_ok s -> stop_ok (C.Un k s).
Proof.
  intros k s IHstop. intros st st2 cx Hs.
  destruct st as [|c sn|ns sc x].
  - rewrite stop1_fin, stop2_inert by exact Hs. fin.
  - simpl in Hs. subst st2. simpl. fin.
  - destruct st2 as [|c2 sn2|ns2 sc2 x2|sa2 sb2|v2]; try contradiction Hs.
    destruct Hs as (Hn & Hc & Hx). rewrite stop2_un.
    assert (G : res_rel4
      (let ns' := C.ns_set_env ns (C.env_with_stop (C.n_env ns) true) in
       let '(sc', tr, r) := C.stop s sc in
       match r with
       | Some o => let (tr2, o') := C.un_result k o in (C.OFin, tr ++ tr2, Some o')
       | None => (C.ONode ns' sc' C.OFin, tr, None)
       end)
      (let ns' := D.ns_set_env ns2 (D.env_with_stop (D.n_env ns2) true) in
       let '(sc', tr, r) := D.stop (embed s) sc2 cx in
       match r with
       | Some o => D.un_done (embed_uk k) (embed s) sc' tr o
       | None => (D.ONode ns' sc' D.OFin, tr, None)
       end)).
    { simpl. step_stop IHstop. destruct r as [o|]; simpl; [apply un_done_rel|fin]. }
    destruct k; try exact G. simpl. fin.
Qed.

#[local] Arguments D.thrown : simpl never.
#[local] Arguments D.caught : simpl never.

Definition leaf_rel (x : C.res * bool) (x2 : D.res * bool) : Prop :=
  res_rel4 (fst x) (fst x2) /\ snd x2 = snd x.

Lemma leaf_rel_elim : forall x x2, leaf_rel x x2 ->
  exists st tr o hit st2 tr2, x = ((st, tr, o), hit) /\ x2 = ((st2, tr2, option_map embed_o o), hit) /\
    sim_st st st2 /\ erase_tl tr2 = tr /\ (forall y, o = Some y -> st = C.OFin).
Proof.
  intros [r h] [r2 h2] [H1 H2]; simpl in *. subst h2.
  destruct (res_rel4_elim _ _ H1) as (st & tr & o & st2 & tr2 & -> & -> & H).
  exists st, tr, o, h, st2, tr2. auto.
Qed.

Lemma leaf_rel_intro : forall r r2 h, res_rel4 r r2 -> leaf_rel (r, h) (r2, h).
Proof. intros. split; auto. Qed.
#[local] Arguments leaf_rel : simpl never.

Lemma un_done_leaf_rel : forall k s sc2 tr2 o h,
  leaf_rel (let (tr', o') := C.un_result k o in ((C.OFin, erase_tl tr2 ++ tr', Some o'), h))
           (D.un_done (embed_uk k) (embed s) sc2 tr2 (embed_o o), h).
Proof.
  intros. pose proof (un_done_rel k s sc2 tr2 o) as H. destruct (C.un_result k o).
  apply leaf_rel_intro, H.
Qed.

Ltac use_leaf H :=
  let st := fresh "st" in let tr := fresh "tr" in let o := fresh "r" in let hit := fresh "hit" in
  let st2 := fresh "st2" in let tr2 := fresh "tr2" in
  let E1 := fresh "E1" in let E2 := fresh "E2" in let Hs := fresh "Hsim" in let Ht := fresh "Htr" in
  let Hf := fresh "Hfin" in
  destruct (leaf_rel_elim _ _ H) as (st & tr & o & hit & st2 & tr2 & E1 & E2 & Hs & Ht & Hf);
  rewrite ?E1, ?E2; clear H E1 E2; subst tr.

Ltac step_leaf IH :=
  match goal with
  | |- context [D.leafev (embed ?s) ?st2 ?id (embed_o ?o) ?cx] =>
    match goal with
    | |- context [C.leafev s ?st id o] =>
      let H := fresh "H" in
      assert (H : leaf_rel (C.leafev s st id o) (D.leafev (embed s) st2 id (embed_o o) cx)) by (apply IH; auto with rf);
      use_leaf H
    end
  end.

Lemma un_leafev_ok : forall k s, leafev_ok s -> leafev_ok (C.Un k s).
Proof.
  intros k s IHleaf. intros st st2 id o cx Hs. fold (leaf_rel (C.leafev (C.Un k s) st id o) (D.leafev (embed (C.Un k s)) st2 id (embed_o o) cx)).
  destruct st as [|c sn|ns sc x].
  - rewrite leafev1_fin, leafev2_inert by exact Hs. apply leaf_rel_intro. fin.
  - simpl in Hs. subst st2. simpl. apply leaf_rel_intro. fin.
  - destruct st2 as [|c2 sn2|ns2 sc2 x2|sa2 sb2|v2]; try contradiction Hs.
    destruct Hs as (Hn & Hc & Hx). rewrite leafev2_un, un_in_embed. simpl.
    step_leaf IHleaf. rewrite thrown_embed.
    destruct r as [oc|]; simpl; [apply un_done_leaf_rel|apply leaf_rel_intro; fin].
Qed.

(* ------------------------------------------------------------------------------------------------ *)
(* Atoms                                                                                            *)
Ltac by_state Hs st st2 :=
  destruct st as [|[|] [|]|? ? ?]; simpl in Hs;
  [destruct st2 as [|[|] ?|? ? ?|? ?|?]; try contradiction Hs|subst st2..|
   destruct st2 as [|? ?|? ? ?|? ?|?]; try contradiction Hs].

Lemma atom_stop_ok : forall e, (forall k s, e <> C.Un k s) -> (forall k a b, e <> C.Bin k a b) -> stop_ok e.
Proof.
  intros e H1 H2 st st2 cx Hs.
  destruct e as [v|x| |n|i|i|k s|k a b]; try (exfalso; eapply H1; reflexivity); try (exfalso; eapply H2; reflexivity);
    by_state Hs st st2; simpl; fin.
Qed.
Lemma atom_leafev_ok : forall e, (forall k s, e <> C.Un k s) -> (forall k a b, e <> C.Bin k a b) -> leafev_ok e.
Proof.
  intros e H1 H2 st st2 id o cx Hs.
  fold (leaf_rel (C.leafev e st id o) (D.leafev (embed e) st2 id (embed_o o) cx)).
  destruct e as [v|x| |n|i|i|k s|k a b]; try (exfalso; eapply H1; reflexivity); try (exfalso; eapply H2; reflexivity);
    by_state Hs st st2; simpl; try (apply leaf_rel_intro; fin);
    destruct (Nat.eqb id i); rewrite ?leaf_out_embed; apply leaf_rel_intro; fin.
Qed.
Lemma atom_start_ok : forall e, (forall k s, e <> C.Un k s) -> (forall k a b, e <> C.Bin k a b) -> start_ok e.
Proof.
  intros e H1 H2 en en2 cx He.
  destruct e as [v|x| |n|i|i|k s|k a b]; try (exfalso; eapply H1; reflexivity); try (exfalso; eapply H2; reflexivity);
    simpl; destruct He as (E1 & E2 & E3 & E4 & E5 & E6); rewrite ?E1, ?E2, ?E4, ?E5, ?E6;
    try destruct (C.e_stopped en); fin.
Qed.

(* ------------------------------------------------------------------------------------------------ *)
(* Binary nodes: Calc2's functions on embedded expressions, with the Calc2-only branches gone      *)
Definition start2_seq (k : C.bkind) (a b : C.sexpr) (en : D.env) (cx : nat) (ra0 : D.res) : D.res :=
  let '(sa, tra, ra) := ra0 in
  match ra with
  | None => (D.ONode (D.mk_nst D.PFirst en) sa D.OFin, tra, None)
  | Some oa =>
      match D.after_first (embed_bk k) en oa with
      | inl o => D.seq_pass (embed_bk k) (embed a) sa tra o
      | inr (en2, sv) =>
          let tra' := tra ++ D.dtor (embed a) sa in
          let '(sb, trb, rb) := D.start (embed b) en2 cx in
          match rb with
          | None => (D.ONode (D.ns_set_saved (D.mk_nst D.PSecond en) sv) D.OFin sb, tra' ++ trb, None)
          | Some ob => D.seq_final (embed_bk k) (embed b) sb (tra' ++ trb) (D.after_second (embed_bk k) sv ob)
          end
      end
  end.

Definition start2_conc (k : C.bkind) (a b : C.sexpr) (en : D.env) (cx : nat) : D.res :=
  let ns0 := D.ns_set_own (D.ns_set_reg (D.mk_nst D.PBoth en) (negb (D.e_stopped en))) (D.e_stopped en) in
  let '(sa, tra, ra) := D.start (embed a) (D.env_own en (D.own_stop ns0)) cx in
  let '(ns1, _, _) :=
      match ra with
      | Some oa => D.conc_child_done (embed_bk k) ns0 false oa
      | None => (ns0, false, None)
      end in
  let '(sb, trb, rb) := D.start (embed b) (D.env_own en (D.own_stop ns1)) cx in
  match rb with
  | None => (D.ONode ns1 sa sb, tra ++ trb, None)
  | Some ob =>
      let '(ns2, newly, fin) := D.conc_child_done (embed_bk k) ns1 true ob in
      match fin with
      | Some _ => D.finish_conc (embed_bk k) (embed a) (embed b) ns2 sa sb (tra ++ trb) fin false
      | None =>
          if newly then
            let '(sa', tra2, ra2) := D.stop (embed a) sa cx in
            match ra2 with
            | Some oa =>
                let '(ns3, _, fin3) := D.conc_child_done (embed_bk k) ns2 false oa in
                D.finish_conc (embed_bk k) (embed a) (embed b) ns3 sa' sb (tra ++ trb ++ tra2) fin3 false
            | None => (D.ONode ns2 sa' sb, tra ++ trb ++ tra2, None)
            end
          else (D.ONode ns2 sa sb, tra ++ trb, None)
      end
  end.

Lemma start2_bin : forall k a b en cx, D.start (embed (C.Bin k a b)) en cx =
  if C.is_seq k then start2_seq k a b en cx (D.start (embed a) en cx) else start2_conc k a b en cx.
Proof. intros. simpl. rewrite sthrows_bin. destruct k; reflexivity. Qed.

Definition stop2_conc (k : C.bkind) (a b : C.sexpr) (ns : D.nst) (sa sb : D.ost) (cx : nat) : D.res :=
  let ns' := D.ns_set_env ns (D.env_with_stop (D.n_env ns) true) in
  if D.own_stop ns then (D.ONode ns' sa sb, [], None)
  else
    let ns1 := D.ns_set_own ns' true in
    let '(sb', trb, rb) := if D.bdone ns1 then (sb, [], None) else D.stop (embed b) sb cx in
    let '(ns2, _, fin1) :=
        match rb with
        | Some ob => D.conc_child_done (embed_bk k) ns1 true ob
        | None => (ns1, false, None)
        end in
    match fin1 with
    | Some _ => D.finish_conc (embed_bk k) (embed a) (embed b) ns2 sa sb' trb fin1 (D.leaky (embed_bk k))
    | None =>
        let '(sa', tra, ra) := if D.adone ns2 then (sa, [], None) else D.stop (embed a) sa cx in
        let '(ns3, _, fin2) :=
            match ra with
            | Some oa => D.conc_child_done (embed_bk k) ns2 false oa
            | None => (ns2, false, None)
            end in
        D.finish_conc (embed_bk k) (embed a) (embed b) ns3 sa' sb' (trb ++ tra) fin2 (D.leaky (embed_bk k))
    end.

Lemma stop2_bin : forall k a b ns sa sb cx, D.stop (embed (C.Bin k a b)) (D.ONode ns sa sb) cx =
  let ns' := D.ns_set_env ns (D.env_with_stop (D.n_env ns) true) in
  if C.is_seq k then
    match D.ph ns with
    | D.PFirst =>
        let '(sa', tra, ra) := D.stop (embed a) sa cx in
        match ra with
        | None => (D.ONode ns' sa' sb, tra, None)
        | Some oa =>
            match D.after_first (embed_bk k) (D.n_env ns') oa with
            | inl o => D.seq_pass (embed_bk k) (embed a) sa' tra o
            | inr (en2, sv) =>
                let tra' := tra ++ D.dtor (embed a) sa' in
                let '(sb', trb, rb) := D.start (embed b) en2 cx in
                match rb with
                | None => (D.ONode (D.ns_set_saved (D.ns_set_ph ns' D.PSecond) sv) D.OFin sb', tra' ++ trb, None)
                | Some ob => D.seq_final (embed_bk k) (embed b) sb' (tra' ++ trb) (D.after_second (embed_bk k) sv ob)
                end
            end
        end
    | _ =>
        let '(sb', trb, rb) := D.stop (embed b) sb cx in
        match rb with
        | None => (D.ONode ns' sa sb', trb, None)
        | Some ob => D.seq_final (embed_bk k) (embed b) sb' trb (D.after_second (embed_bk k) (D.saved ns) ob)
        end
    end
  else stop2_conc k a b ns sa sb cx.
Proof. intros. destruct k; reflexivity. Qed.

Definition leafev2_conc (k : C.bkind) (a b : C.sexpr) (ns : D.nst) (sa sb : D.ost) (id : nat) (o : D.outcome) (cx : nat)
  : D.res * bool :=
  let '((sa', tra, ra), hita) :=
      if D.adone ns then ((sa, [], None), false)
      else (let (r0, h) := D.leafev (embed a) sa id (D.tmode o) cx in
            let r := match D.thrown r0 with
                     | Some v => if D.bin_throw (embed_bk k) false then fst (D.leafev (embed a) sa id (D.OValK v) cx) else r0
                     | None => r0
                     end in
            (r, h)) in
  if hita then
    match ra with
    | None => ((D.ONode ns sa' sb, tra, None), true)
    | Some oa =>
        let '(ns1, newly, fin) := D.conc_child_done (embed_bk k) ns false oa in
        match fin with
        | Some _ => (D.finish_conc (embed_bk k) (embed a) (embed b) ns1 sa' sb tra fin false, true)
        | None =>
            if newly then
              let '(sb', trb, rb) := D.stop (embed b) sb cx in
              match rb with
              | Some ob =>
                  let '(ns2, _, fin2) := D.conc_child_done (embed_bk k) ns1 true ob in
                  (D.finish_conc (embed_bk k) (embed a) (embed b) ns2 sa' sb' (tra ++ trb) fin2 false, true)
              | None => ((D.ONode ns1 sa' sb', tra ++ trb, None), true)
              end
            else ((D.ONode ns1 sa' sb, tra, None), true)
        end
    end
  else
    let '((sb', trb, rb), hitb) :=
        if D.bdone ns then ((sb, [], None), false)
        else (let (r, h) := D.leafev (embed b) sb id (D.tmode o) cx in (r, h)) in
    match rb with
    | None => ((D.ONode ns sa sb', trb, None), hitb)
    | Some ob =>
        let '(ns1, newly, fin) := D.conc_child_done (embed_bk k) ns true ob in
        match fin with
        | Some _ => (D.finish_conc (embed_bk k) (embed a) (embed b) ns1 sa sb' trb fin false, hitb)
        | None =>
            if newly then
              let '(sa', tra, ra) := D.stop (embed a) sa cx in
              match ra with
              | Some oa =>
                  let '(ns2, _, fin2) := D.conc_child_done (embed_bk k) ns1 false oa in
                  (D.finish_conc (embed_bk k) (embed a) (embed b) ns2 sa' sb' (trb ++ tra) fin2 false, hitb)
              | None => ((D.ONode ns1 sa' sb', trb ++ tra, None), hitb)
              end
            else ((D.ONode ns1 sa sb', trb, None), hitb)
        end
    end.

Lemma leafev2_bin : forall k a b ns sa sb id o cx, D.leafev (embed (C.Bin k a b)) (D.ONode ns sa sb) id o cx =
  if C.is_seq k then
    match D.ph ns with
    | D.PFirst =>
        let '(r0, hit) := D.leafev (embed a) sa id (D.bin_in (embed_bk k) false o) cx in
        let '(sa', tra, ra) :=
            match D.thrown r0 with
            | Some v => if D.bin_throw (embed_bk k) false then fst (D.leafev (embed a) sa id (D.OValK v) cx)
                        else D.caught (D.bin_catch (embed_bk k) false) o r0
            | None => r0
            end in
        match ra with
        | None => ((D.ONode ns sa' sb, tra, None), hit)
        | Some oa =>
            match D.after_first (embed_bk k) (D.n_env ns) oa with
            | inl o' => (D.seq_pass (embed_bk k) (embed a) sa' tra o', hit)
            | inr (en2, sv) =>
                let tra' := tra ++ D.dtor (embed a) sa' in
                let '(sb', trb, rb) := D.start (embed b) en2 cx in
                match rb with
                | None => ((D.ONode (D.ns_set_saved (D.ns_set_ph ns D.PSecond) sv) D.OFin sb', tra' ++ trb, None), hit)
                | Some ob => (D.seq_final (embed_bk k) (embed b) sb' (tra' ++ trb) (D.after_second (embed_bk k) sv ob), hit)
                end
            end
        end
    | _ =>
        let '(r0, hit) := D.leafev (embed b) sb id (D.bin_in (embed_bk k) true o) cx in
        let '(sb', trb, rb) :=
            match D.thrown r0 with
            | Some v => if D.bin_throw (embed_bk k) true then fst (D.leafev (embed b) sb id (D.OValK v) cx)
                        else D.caught (D.bin_catch (embed_bk k) true) o r0
            | None => r0
            end in
        match rb with
        | None => ((D.ONode ns sa sb', trb, None), hit)
        | Some ob => (D.seq_final (embed_bk k) (embed b) sb' trb (D.after_second (embed_bk k) (D.saved ns) ob), hit)
        end
    end
  else leafev2_conc k a b ns sa sb id o cx.
Proof. intros. destruct k; reflexivity. Qed.

(* ------------------------------------------------------------------------------------------------ *)
(* Sequential kinds                                                                                 *)
Lemma after_first_embed : forall k en en2 o, env_rel en en2 ->
  match C.after_first k en o, D.after_first (embed_bk k) en2 (embed_o o) with
  | inl o1, inl o2 => o2 = embed_o o1
  | inr (en', sv), inr (en2', sv2) => env_rel en' en2' /\ sv2 = option_map embed_o sv
  | _, _ => False
  end.
Proof. intros k en en2 o He. destruct k, o; simpl; auto using env_rel_bind. Qed.

Lemma after_second_embed : forall k sv o,
  D.after_second (embed_bk k) (option_map embed_o sv) (embed_o o) = embed_o (C.after_second k sv o).
Proof. intros k sv o. destruct k, sv as [[?|?|]|], o as [?|?|]; reflexivity. Qed.

Ltac etr := simpl; rewrite ?erase_tl_app, ?erase_dtor, ?app_nil_r, <- ?app_assoc; try reflexivity.

Lemma seq_pass_rel : forall k a sa2 tr2 tr o, erase_tl tr2 = tr ->
  res_rel4 (C.OFin, tr, Some o) (D.seq_pass (embed_bk k) (embed a) sa2 tr2 (embed_o o)).
Proof. intros. subst. unfold D.seq_pass. destruct (D.eager_dtor (embed_bk k)); fin. Qed.
Lemma seq_final_rel : forall k b sb2 tr2 tr o, erase_tl tr2 = tr ->
  res_rel4 (C.OFin, tr, Some o) (D.seq_final (embed_bk k) (embed b) sb2 tr2 (embed_o o)).
Proof. intros. subst. unfold D.seq_final. destruct (D.eager_dtor (embed_bk k)); fin. Qed.

Ltac step_af :=
  match goal with
  | |- context [D.after_first (embed_bk ?k) ?en2 (embed_o ?o)] =>
    match goal with
    | |- context [C.after_first k ?en o] =>
      let H := fresh "Haf" in let He := fresh "He'" in
      pose proof (after_first_embed k en en2 o ltac:(auto with rf)) as H;
      destruct (C.after_first k en o) as [?o1|[?en' ?sv]], (D.after_first (embed_bk k) en2 (embed_o o)) as [?o2|[?en2' ?sv2]];
      try contradiction H; [subst|destruct H as [He ->]]
    end
  end.

(* a completed Calc operation is OFin, so the related Calc2 state is inert *)
Ltac some_fin :=
  repeat match goal with
  | Hf : forall y, Some ?o = Some y -> ?st = C.OFin |- _ =>
      let E := fresh in pose proof (Hf _ eq_refl) as E; clear Hf; try subst st
  | Hf : forall y, None = Some y -> _ |- _ => clear Hf
  end.

Lemma seq_start_ok : forall k a b, C.is_seq k = true -> start_ok a -> start_ok b -> start_ok (C.Bin k a b).
Proof.
  intros k a b Hk IHa IHb en en2 cx He.
  rewrite start2_bin. simpl. rewrite Hk. unfold start2_seq.
  step_start IHa. destruct r as [oa|]; simpl; [|fin].
  step_af; simpl.
  - apply seq_pass_rel; reflexivity.
  - step_start IHb. destruct r as [ob|]; simpl.
    + rewrite after_second_embed. apply seq_final_rel. etr.
    + fin.
Qed.

Lemma seq_stop_ok : forall k a b, C.is_seq k = true -> stop_ok a -> start_ok b -> stop_ok b -> stop_ok (C.Bin k a b).
Proof.
  intros k a b Hk IHa IHb IHsb st st2 cx Hs.
  destruct st as [|c sn|ns sa sb].
  - rewrite stop1_fin, stop2_inert by exact Hs. fin.
  - simpl in Hs. subst st2. simpl. fin.
  - destruct st2 as [|c2 sn2|ns2 sa2 sb2|sa2' sb2'|v2]; try contradiction Hs.
    destruct Hs as (Hn & Ha & Hb). rewrite stop2_bin. simpl. rewrite Hk, (nrel_ph _ _ Hn).
    destruct (C.ph ns); simpl.
    + step_stop IHa. destruct r as [oa|]; simpl; [|fin].
      step_af; simpl.
      * apply seq_pass_rel; reflexivity.
      * step_start IHb. destruct r as [ob|]; simpl.
        -- rewrite after_second_embed. apply seq_final_rel. etr.
        -- fin.
    + step_stop IHsb. destruct r as [ob|]; simpl; [|fin].
      rewrite (nrel_saved _ _ Hn), after_second_embed. apply seq_final_rel. etr.
    + step_stop IHsb. destruct r as [ob|]; simpl; [|fin].
      rewrite (nrel_saved _ _ Hn), after_second_embed. apply seq_final_rel. etr.
Qed.

Lemma seq_leafev_ok : forall k a b, C.is_seq k = true -> leafev_ok a -> start_ok b -> leafev_ok b ->
  leafev_ok (C.Bin k a b).
Proof.
  intros k a b Hk IHa IHb IHlb st st2 id o cx Hs.
  fold (leaf_rel (C.leafev (C.Bin k a b) st id o) (D.leafev (embed (C.Bin k a b)) st2 id (embed_o o) cx)).
  destruct st as [|c sn|ns sa sb].
  - rewrite leafev1_fin, leafev2_inert by exact Hs. apply leaf_rel_intro. fin.
  - simpl in Hs. subst st2. simpl. apply leaf_rel_intro. fin.
  - destruct st2 as [|c2 sn2|ns2 sa2 sb2|sa2' sb2'|v2]; try contradiction Hs.
    destruct Hs as (Hn & Ha & Hb). rewrite leafev2_bin. simpl. rewrite Hk, (nrel_ph _ _ Hn), !bin_in_embed.
    destruct (C.ph ns); simpl.
    + step_leaf IHa. rewrite thrown_embed. destruct r as [oa|]; simpl; [|apply leaf_rel_intro; fin].
      step_af; simpl.
      * apply leaf_rel_intro, seq_pass_rel; reflexivity.
      * step_start IHb. destruct r as [ob|]; simpl; apply leaf_rel_intro.
        -- rewrite after_second_embed. apply seq_final_rel. etr.
        -- fin.
    + step_leaf IHlb. rewrite thrown_embed. destruct r as [ob|]; simpl; apply leaf_rel_intro; [|fin].
      rewrite (nrel_saved _ _ Hn), after_second_embed. apply seq_final_rel. etr.
    + step_leaf IHlb. rewrite thrown_embed. destruct r as [ob|]; simpl; apply leaf_rel_intro; [|fin].
      rewrite (nrel_saved _ _ Hn), after_second_embed. apply seq_final_rel. etr.
Qed.

(* ------------------------------------------------------------------------------------------------ *)
(* Concurrent kinds                                                                                 *)
Lemma finish_conc_rel : forall k a b ns ns2 sa sa2 sb sb2 tr tr2 fin fin2 lk lk2,
  C.is_seq k = false -> nrel ns ns2 -> sim_st sa sa2 -> sim_st sb sb2 -> erase_tl tr2 = tr ->
  fin2 = option_map embed_o fin -> lk2 = lk ->
  res_rel4 (C.finish_conc k ns sa sb tr fin lk)
           (D.finish_conc (embed_bk k) (embed a) (embed b) ns2 sa2 sb2 tr2 fin2 lk2).
Proof.
  intros k a b ns ns2 sa sa2 sb sb2 tr tr2 fin fin2 lk lk2 Hk Hn Ha Hb Ht -> ->. subst tr.
  destruct fin as [o|]; simpl; [|fin].
  destruct Hn as (_ & He & _ & Hr & _). destruct He as (_ & _ & Hroot & _).
  destruct k; try discriminate Hk; simpl; rewrite Hr, Hroot; destruct o; destruct (lk && C.reg ns); fin.
Qed.


Lemma env_rel_own' : forall en en2 ns ns2, env_rel en en2 -> nrel ns ns2 ->
  env_rel (C.env_own en (C.own_stop ns)) (D.env_own en2 (D.own_stop ns2)).
Proof. intros. rewrite (nrel_own _ _ H0). apply env_rel_own; assumption. Qed.
Lemma env_rel_own'' : forall en en2, env_rel en en2 ->
  env_rel (C.env_own en (C.e_stopped en)) (D.env_own en2 (D.e_stopped en2)).
Proof. intros. rewrite (env_rel_stopped _ _ H). apply env_rel_own; assumption. Qed.
#[local] Hint Resolve env_rel_own' env_rel_own'' : rf.

Ltac step_ccd Hk :=
  match goal with
  | |- context [D.conc_child_done (embed_bk ?k) ?ns2 ?i (embed_o ?o)] =>
    match goal with
    | |- context [C.conc_child_done k ?ns i o] =>
      let H := fresh "Hccd" in let Hn := fresh "Hn" in
      pose proof (conc_child_done_embed k ns ns2 i o Hk ltac:(auto with rf)) as H;
      destruct (C.conc_child_done k ns i o) as [[?nsx ?nw] ?fn],
               (D.conc_child_done (embed_bk k) ns2 i (embed_o o)) as [[?nsx2 ?nw2] ?fn2];
      simpl in H; destruct H as (Hn & -> & ->)
    end
  end.

Ltac fc Hk :=
  some_fin; apply finish_conc_rel;
  [exact Hk|auto with rf|simpl; auto with rf|simpl; auto with rf|etr|reflexivity|reflexivity].

Opaque C.conc_child_done D.conc_child_done C.finish_conc D.finish_conc.

Ltac dopt :=
  match goal with
  | |- res_rel4 ?L _ => match L with context [match ?x with Some _ => _ | None => _ end] => is_var x; destruct x as [?o|] end
  | |- leaf_rel ?L _ => match L with context [match ?x with Some _ => _ | None => _ end] => is_var x; destruct x as [?o|] end
  end.
Ltac dbool :=
  match goal with
  | |- res_rel4 ?L _ => match L with context [if ?x then _ else _] => is_var x; destruct x end
  | |- leaf_rel ?L _ => match L with context [if ?x then _ else _] => is_var x; destruct x end
  end.

Lemma conc_start_ok : forall k a b, C.is_seq k = false -> start_ok a -> stop_ok a -> start_ok b -> start_ok (C.Bin k a b).
Proof.
  intros k a b Hk IHa IHsa IHb en en2 cx He.
  rewrite start2_bin. simpl. rewrite Hk. unfold start2_conc.
  pose proof (nrel_conc0 _ _ He) as Hn0.
  set (ns0 := C.ns_set_own (C.ns_set_reg (C.mk_nst C.PBoth en) (negb (C.e_stopped en))) (C.e_stopped en)) in *.
  set (ns02 := D.ns_set_own (D.ns_set_reg (D.mk_nst D.PBoth en2) (negb (D.e_stopped en2))) (D.e_stopped en2)) in *.
  cbv zeta. rewrite (nrel_own _ _ Hn0). change (C.own_stop ns0) with (C.e_stopped en).
  step_start IHa.
  dopt; simpl; [step_ccd Hk|];
  (step_start IHb; dopt; simpl; [|some_fin; fin];
   step_ccd Hk; dopt; simpl; [fc Hk|];
   dbool; [|some_fin; fin];
   step_stop IHsa; dopt; simpl; [step_ccd Hk; fc Hk|some_fin; fin]).
Qed.

Ltac sync_flags :=
  repeat match goal with
  | H : nrel ?ns ?ns2 |- context [D.adone ?ns2] => rewrite (nrel_adone _ _ H)
  | H : nrel ?ns ?ns2 |- context [D.bdone ?ns2] => rewrite (nrel_bdone _ _ H)
  | H : nrel ?ns ?ns2 |- context [D.own_stop ?ns2] => rewrite (nrel_own _ _ H)
  end.
Ltac dflag :=
  match goal with
  | |- context [if C.adone ?n then _ else _] => destruct (C.adone n)
  | |- context [if C.bdone ?n then _ else _] => destruct (C.bdone n)
  end.

Ltac conc_go Hk IHa IHb :=
  repeat (simpl; sync_flags;
          first [ solve [fc Hk] | solve [some_fin; fin]
                | step_stop IHb | step_stop IHa | step_ccd Hk | dopt | dbool | dflag ]).

Lemma conc_stop_ok : forall k a b, C.is_seq k = false -> stop_ok a -> stop_ok b -> stop_ok (C.Bin k a b).
Proof.
  intros k a b Hk IHa IHb st st2 cx Hs.
  destruct st as [|c sn|ns sa sb].
  - rewrite stop1_fin, stop2_inert by exact Hs. fin.
  - simpl in Hs. subst st2. simpl. fin.
  - destruct st2 as [|c2 sn2|ns2 sa2 sb2|sa2' sb2'|v2]; try contradiction Hs.
    destruct Hs as (Hn & Ha & Hb). rewrite stop2_bin. simpl. rewrite Hk. unfold stop2_conc.
    rewrite (nrel_own _ _ Hn). destruct (C.own_stop ns); [fin|].
    assert (Hn1 : nrel (C.ns_set_own (C.ns_set_env ns (C.env_with_stop (C.n_env ns) true)) true)
                       (D.ns_set_own (D.ns_set_env ns2 (D.env_with_stop (D.n_env ns2) true)) true)) by auto with rf.
    set (ns1 := C.ns_set_own (C.ns_set_env ns (C.env_with_stop (C.n_env ns) true)) true) in *.
    set (ns12 := D.ns_set_own (D.ns_set_env ns2 (D.env_with_stop (D.n_env ns2) true)) true) in *.
    cbv zeta. sync_flags. change (C.bdone ns1) with (C.bdone ns).
    conc_go Hk IHa IHb.
Qed.

Ltac conc_leaf_go Hk IHla IHlb IHsa IHsb :=
  repeat (simpl; sync_flags; rewrite ?thrown_embed;
          first [ solve [apply leaf_rel_intro; fc Hk] | solve [apply leaf_rel_intro; some_fin; fin]
                | step_leaf IHla | step_leaf IHlb | step_stop IHsb | step_stop IHsa | step_ccd Hk
                | dopt | dbool | dflag ]).

Lemma conc_leafev_ok : forall k a b, C.is_seq k = false ->
  leafev_ok a -> leafev_ok b -> stop_ok a -> stop_ok b -> leafev_ok (C.Bin k a b).
Proof.
  intros k a b Hk IHla IHlb IHsa IHsb st st2 id o cx Hs.
  fold (leaf_rel (C.leafev (C.Bin k a b) st id o) (D.leafev (embed (C.Bin k a b)) st2 id (embed_o o) cx)).
  destruct st as [|c sn|ns sa sb].
  - rewrite leafev1_fin, leafev2_inert by exact Hs. apply leaf_rel_intro. fin.
  - simpl in Hs. subst st2. simpl. apply leaf_rel_intro. fin.
  - destruct st2 as [|c2 sn2|ns2 sa2 sb2|sa2' sb2'|v2]; try contradiction Hs.
    destruct Hs as (Hn & Ha & Hb). rewrite leafev2_bin. simpl. rewrite Hk. unfold leafev2_conc.
    rewrite tmode_embed.
    conc_leaf_go Hk IHla IHlb IHsa IHsb.
Qed.

Transparent C.conc_child_done D.conc_child_done C.finish_conc D.finish_conc.

(* ------------------------------------------------------------------------------------------------ *)
(* All three entry points, for every expression                                                     *)
Theorem node_refines : forall e, start_ok e /\ stop_ok e /\ leafev_ok e.
Proof.
  induction e as [v|x| |n|id|id|k s IHs|k a IHa b IHb];
    try (split; [apply atom_start_ok|split; [apply atom_stop_ok|apply atom_leafev_ok]]; intros; discriminate).
  - destruct IHs as (H1 & H2 & H3).
    split; [apply un_start_ok|split; [apply un_stop_ok|apply un_leafev_ok]]; assumption.
  - destruct IHa as (A1 & A2 & A3), IHb as (B1 & B2 & B3).
    destruct (C.is_seq k) eqn:Hk.
    + split; [apply seq_start_ok|split; [apply seq_stop_ok|apply seq_leafev_ok]]; assumption.
    + split; [apply conc_start_ok|split; [apply conc_stop_ok|apply conc_leafev_ok]]; assumption.
Qed.

(* the statements in plain form *)
Theorem start_refines : forall e en en2 cx, env_rel en en2 ->
  forall st tr r, C.start e en = (st, tr, r) ->
  exists st2 tr2, D.start (embed e) en2 cx = (st2, tr2, option_map embed_o r) /\
                  sim e st st2 /\ erase_tl tr2 = tr.
Proof.
  intros e en en2 cx He st tr r E. pose proof (proj1 (node_refines e) en en2 cx He) as H.
  destruct (res_rel4_elim _ _ H) as (st' & tr' & o & st2 & tr2 & E1 & E2 & Hs & Ht & _).
  rewrite E in E1. inversion E1; subst. exists st2, tr2. auto.
Qed.
Theorem stop_refines : forall e st st2 cx, sim e st st2 ->
  forall st' tr r, C.stop e st = (st', tr, r) ->
  exists st2' tr2, D.stop (embed e) st2 cx = (st2', tr2, option_map embed_o r) /\
                   sim e st' st2' /\ erase_tl tr2 = tr.
Proof.
  intros e st st2 cx Hs0 st' tr r E. pose proof (proj1 (proj2 (node_refines e)) st st2 cx Hs0) as H.
  destruct (res_rel4_elim _ _ H) as (st1 & tr' & o & st2' & tr2 & E1 & E2 & Hs & Ht & _).
  rewrite E in E1. inversion E1; subst. exists st2', tr2. auto.
Qed.
Theorem leafev_refines : forall e st st2 id o cx, sim e st st2 ->
  forall st' tr r hit, C.leafev e st id o = ((st', tr, r), hit) ->
  exists st2' tr2, D.leafev (embed e) st2 id (embed_o o) cx = ((st2', tr2, option_map embed_o r), hit) /\
                   sim e st' st2' /\ erase_tl tr2 = tr.
Proof.
  intros e st st2 id o cx Hs0 st' tr r hit E.
  pose proof (proj2 (proj2 (node_refines e)) st st2 id o cx Hs0) as H.
  destruct (leaf_rel_elim _ _ H) as (st1 & tr' & o' & h & st2' & tr2 & E1 & E2 & Hs & Ht & _).
  rewrite E in E1. inversion E1; subst. exists st2', tr2. auto.
Qed.

(* ------------------------------------------------------------------------------------------------ *)
(* Whole runs                                                                                       *)
Definition rs_rel (rs : C.run_state) (rs2 : D.run_state) : Prop :=
  sim_st (C.r_st rs) (D.r_st rs2) /\ D.r_stopped rs2 = C.r_stopped rs /\ D.r_roots rs2 = C.r_roots rs /\
  erase (D.r_tr rs2) = C.r_tr rs /\ xroots2 (D.r_tr rs2) = map embed_o (xroots (C.r_tr rs)).

Lemma absorb_rel : forall rs rs2 r r2 cx, rs_rel rs rs2 -> res_rel4 r r2 ->
  rs_rel (C.absorb rs r) (D.absorb rs2 r2 cx).
Proof.
  intros rs rs2 r r2 cx (H1 & H2 & H3 & H4 & H5) H.
  destruct (res_rel4_elim _ _ H) as (st & tr & o & st2 & tr2 & -> & -> & Hs & Ht & _). subst tr.
  unfold C.absorb, D.absorb.
  assert (Et : erase (D.r_tr rs2 ++ map D.XT tr2) = C.r_tr rs ++ map C.XT (erase_tl tr2))
    by (rewrite erase_app, erase_XT, H4; reflexivity).
  assert (Ex : xroots2 (D.r_tr rs2 ++ map D.XT tr2) = map embed_o (xroots (C.r_tr rs ++ map C.XT (erase_tl tr2))))
    by (rewrite xroots2_app, xroots2_XT, xroots_app, xroots_XT, !app_nil_r; exact H5).
  destruct o as [oc|]; simpl; unfold rs_rel; simpl.
  - repeat split; auto.
    + rewrite erase_app, Et. simpl. rewrite erase_embed_o, <- root_leaks_erase, Et. reflexivity.
    + rewrite xroots2_app, Ex, (xroots_app (_ ++ _) [_]), map_app. reflexivity.
  - repeat split; auto.
Qed.

Lemma run_ev_rel : forall e rs rs2 ev, rs_rel rs rs2 ->
  rs_rel (C.run_ev e rs ev) (D.run_ev (embed e) rs2 (embed_ev ev)).
Proof.
  intros e rs rs2 ev Hr. pose proof Hr as (H1 & H2 & H3 & H4 & H5).
  destruct ev as [id o|]; simpl.
  - pose proof (proj2 (proj2 (node_refines e)) (C.r_st rs) (D.r_st rs2) id o 0%nat H1) as H.
    fold (leaf_rel (C.leafev e (C.r_st rs) id o) (D.leafev (embed e) (D.r_st rs2) id (embed_o o) 0)) in H.
    destruct (leaf_rel_elim _ _ H) as (st & tr & r & hit & st2 & tr2 & E1 & E2 & Hs & Ht & Hf).
    rewrite E1, E2. destruct hit.
    + apply absorb_rel; [exact Hr|]. apply res_rel4_intro; auto.
    + unfold D.skip, rs_rel; simpl. repeat split; auto.
      * rewrite erase_app, H4. reflexivity.
      * rewrite xroots2_app, xroots_app, map_app, H5. reflexivity.
  - rewrite H2. destruct (C.r_stopped rs).
    + unfold D.skip, rs_rel; simpl. repeat split; auto.
      * rewrite erase_app, H4. reflexivity.
      * rewrite xroots2_app, xroots_app, map_app, H5. reflexivity.
    + apply absorb_rel.
      * unfold rs_rel; simpl. auto.
      * apply (proj1 (proj2 (node_refines e))). exact H1.
Qed.

Lemma fold_rel : forall e script rs rs2, rs_rel rs rs2 ->
  rs_rel (fold_left (C.run_ev e) script rs) (fold_left (D.run_ev (embed e)) (map embed_ev script) rs2).
Proof.
  induction script as [|ev script IH]; intros rs rs2 H; [exact H|]. simpl. apply IH, run_ev_rel, H.
Qed.

Lemma run_start_rel : forall e pre, rs_rel (C.run_start e pre) (D.run_start (embed e) pre).
Proof.
  intros e pre. unfold C.run_start, D.run_start. rewrite cthrows_embed. apply absorb_rel.
  - unfold rs_rel; simpl. auto.
  - apply (proj1 (node_refines e)). apply env_rel_root.
Qed.

Lemma run_end_rel : forall e rs rs2, rs_rel rs rs2 ->
  D.r_roots (D.run_end (embed e) rs2) = C.r_roots rs /\
  erase (D.r_tr (D.run_end (embed e) rs2)) = C.r_tr rs /\
  xroots2 (D.r_tr (D.run_end (embed e) rs2)) = map embed_o (xroots (C.r_tr rs)).
Proof.
  intros e rs rs2 (H1 & H2 & H3 & H4 & H5). unfold D.run_end. destruct (D.r_roots rs2) eqn:En; [rewrite En; auto|].
  split; [exact H3|split].
  - change (erase (D.r_tr rs2 ++ D.XRootDtor :: map D.XT (D.dtor (embed e) (D.r_st rs2))) = C.r_tr rs).
    rewrite erase_app.
    change (erase (D.XRootDtor :: map D.XT (D.dtor (embed e) (D.r_st rs2)))) with (erase (map D.XT (D.dtor (embed e) (D.r_st rs2)))).
    rewrite erase_XT, erase_dtor, app_nil_r. exact H4.
  - change (xroots2 (D.r_tr rs2 ++ D.XRootDtor :: map D.XT (D.dtor (embed e) (D.r_st rs2))) = map embed_o (xroots (C.r_tr rs))).
    rewrite xroots2_app.
    change (xroots2 (D.XRootDtor :: map D.XT (D.dtor (embed e) (D.r_st rs2)))) with (xroots2 (map D.XT (D.dtor (embed e) (D.r_st rs2)))).
    rewrite xroots2_XT, app_nil_r. exact H5.
Qed.

(* Calc2 restricted to Calc's fragment refines Calc: after erasing what Calc does not have (operation-state
   destruction, contexts, schedulers) the traces are equal, event by event *)
Theorem refines : forall e pre script,
  erase (D.r_tr (D.exec (embed e) pre (map embed_ev script))) = C.r_tr (C.exec e pre script).
Proof.
  intros. unfold D.exec, C.exec. exact (proj1 (proj2 (run_end_rel e _ _ (fold_rel e script _ _ (run_start_rel e pre))))).
Qed.
Theorem refines_root_count : forall e pre script,
  D.r_roots (D.exec (embed e) pre (map embed_ev script)) = C.r_roots (C.exec e pre script).
Proof.
  intros. unfold D.exec, C.exec. exact (proj1 (run_end_rel e _ _ (fold_rel e script _ _ (run_start_rel e pre)))).
Qed.
(* ... and the root outcomes are literally Calc's (no OValT / OValK appears) *)
Theorem refines_roots : forall e pre script,
  xroots2 (D.r_tr (D.exec (embed e) pre (map embed_ev script))) = map embed_o (xroots (C.r_tr (C.exec e pre script))).
Proof.
  intros. unfold D.exec, C.exec. exact (proj2 (proj2 (run_end_rel e _ _ (fold_rel e script _ _ (run_start_rel e pre))))).
Qed.

(* ------------------------------------------------------------------------------------------------ *)
(* Calc's theorems about outcomes, transferred to Calc2 on the common fragment                     *)

(* C05: the root outcome of the Calc2 run is exactly the denotation (Calc/DenoteDefs.v) *)
Theorem C05_calc2_result : forall e script,
  stop_free script = true -> no_leafn e = true -> NoDup (leaf_ids e) ->
  let rs := D.exec (embed e) false (map embed_ev script) in
  match denote script e [] 0 None with
  | Some (o, t) => (t <= length script)%nat /\ xroots2 (D.r_tr rs) = [embed_o o] /\
                   (exists n cx, In (D.XRoot (embed_o o) n cx) (D.r_tr rs)) /\ D.r_roots rs = 1%nat
  | None => xroots2 (D.r_tr rs) = [] /\ D.r_roots rs = 0%nat
  end.
Proof.
  intros e script Hsf Hn Hnd rs.
  pose proof (C05_result e script Hsf Hn Hnd) as R. pose proof (C05_result_unique e script Hsf Hn Hnd) as U.
  cbv zeta in R. subst rs. rewrite refines_root_count.
  assert (X : xroots2 (D.r_tr (D.exec (embed e) false (map embed_ev script))) =
              map embed_o (match denote script e [] 0 None with Some (o, _) => [o] | None => [] end))
    by (rewrite refines_roots, U; reflexivity).
  destruct (denote script e [] 0 None) as [[o t]|]; simpl in X.
  - destruct R as (R1 & _ & R3). repeat split; auto.
    apply xroots2_In. rewrite X. left; reflexivity.
  - split; assumption.
Qed.

(* C11: sends_done = false (the trait the headers declare) -> no Calc2 run completes the root with done *)
Theorem C11_calc2_sends_done : forall e, CalcTraits.sends_done_of e = false ->
  forall pre script o n cx,
  In (D.XRoot o n cx) (D.r_tr (D.exec (embed e) pre (map embed_ev script))) -> o <> D.ODone.
Proof.
  intros e Hsd pre script o n cx H.
  assert (Hx : In o (xroots2 (D.r_tr (D.exec (embed e) pre (map embed_ev script)))))
    by (apply xroots2_In; exists n, cx; exact H).
  rewrite refines_roots in Hx. apply in_map_iff in Hx. destruct Hx as (o' & <- & Hin).
  destruct (xroots_In _ _ Hin) as [m Hm].
  pose proof (sends_done_sound e Hsd pre script o' m Hm) as Hne.
  destruct o'; simpl; congruence.
Qed.
