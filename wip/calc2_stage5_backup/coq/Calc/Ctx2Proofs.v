(* C11 (first half) and the shared infrastructure for the second-generation calculus Calc2.
     Part 1  infrastructure shared with Calc/Query2Proofs.v and Calc/Stop2Proofs.v: equation lemmas for
             [start]/[stop]/[leafev] (proofs never [simpl] the big functions), identifiers.
     Part 2  the event invariant: every event of every call concerns a leaf / schedule operation of the
             expression, every [TLeafStart] carries the query answers obtained by folding the documented
             overrides along the path from the root ([sees]) AND the context of the call ([cx] never changes
             inside one call), no [TLeak].
     Part 3  whole runs; [completion_ctx].
     Part 4  C11: via / typed_via / with_scheduler_affinity complete on the scheduler's context, on() starts
             its sender there.
     Part 5  [stage 4] a value whose copy throws, delivered to a storing node, becomes set_error there (C05).
   Stage 4 of the model (OValT / OValK) only touches leafev's child calls: they are factored as [child_ev]
   ([child_ev_cases]: the result is one leafev result on the child from the same state, up to a caught
   exception), so every invariant proved for leafev on the child carries over. *)
From Coq Require Import ZArith List Bool Lia Arith.
From V Require Import Calc.Calc2Defs.
Import ListNotations.
Import Calc2.
Local Open Scope Z_scope.

(* ================================================================================================ *)
(* Part 1: shared infrastructure                                                                    *)
(* ================================================================================================ *)

(* identifiers of the harness leaves (everything that logs TLeafStart) *)
Fixpoint leaf_ids (e : sexpr) : list nat :=
  match e with
  | Leaf id => [id]
  | LeafN id => [id]
  | LeafR id _ => [id]
  | Un _ s => leaf_ids s
  | Bin _ a b => leaf_ids a ++ leaf_ids b
  | _ => []
  end.

(* the schedule() operations: (id, context) *)
Fixpoint scheds (e : sexpr) : list (nat * nat) :=
  match e with
  | Sched id c => [(id, c)]
  | Un _ s => scheds s
  | Bin _ a b => scheds a ++ scheds b
  | _ => []
  end.

Definition is_unst (k : ukind) : bool := match k with UUnstoppable => true | _ => false end.

Ltac bm H :=
  match type of H with
  | context[match ?x with _ => _ end] => destruct x eqn:?
  end.
Ltac bmg :=
  match goal with
  | |- context[match ?x with _ => _ end] => destruct x eqn:?
  end.
Ltac inv H := inversion H; subst; clear H.

(* ---- the pieces of start / stop / leafev, as separate definitions ----------------------------- *)

(* a unary node's child completed with [o]; [r0] = the result of starting a fresh copy of the child *)
Definition un_fin (k : ukind) (s : sexpr) (ns : nst) (sc : ost) (tr : list tev) (o : outcome) (r0 : res) : res :=
  match k with
  | URepeat l => rep_done l s ns sc tr o r0
  | UAllocate => (ONode ns sc OFin, tr, Some o)     (* [stage 5] the completed node keeps its allocator *)
  | _ => un_done k s sc tr o
  end.

(* [stage 5] connect() of e throws: start answers inline, nothing is started *)
Definition start_thrown (e : sexpr) (en : env) : res := (OFin, sconn e (e_alloc en), Some (OErr ccode)).

(* retry_when: the trigger started for the error [oa] is *)
Definition rbe_of (b : sexpr) (en : env) (oa : outcome) (cx : nat) : res :=
  match oa with OErr e => start b (env_bind en e) cx | _ => (OFin, [], None) end.
Definition r0bl_of (b : sexpr) (en : env) (r0a : res) (cx : nat) : res :=
  match res_err r0a with Some e => start b (env_bind en e) cx | None => (OFin, [], None) end.

(* a sequential algorithm's first child completed with [oa] (events so far [tra]) *)
Definition a_done (k : bkind) (a b : sexpr) (ns : nst) (sa : ost) (tra : list tev) (oa : outcome) (cx : nat)
           (r0a r0bl : res) : res :=
  match k with
  | BRetry n => retry_a_done n a b ns sa tra oa r0a r0bl (rbe_of b (n_env ns) oa cx)
  | _ =>
      match after_first k (n_env ns) oa with
      | inl o => seq_pass k a sa tra o
      | inr (en2, sv) =>
          let '(sb, trb, rb) := start b en2 cx in
          match rb with
          | None => (ONode (ns_set_saved (ns_set_ph ns PSecond) sv) OFin sb, (tra ++ dtor a sa) ++ trb, None)
          | Some ob => seq_final k b sb ((tra ++ dtor a sa) ++ trb) (after_second k sv ob)
          end
      end
  end.

(* ... its second child completed with [ob] *)
Definition b_done (k : bkind) (a b : sexpr) (ns : nst) (sb : ost) (trb : list tev) (ob : outcome)
           (r0a r0bl : res) : res :=
  match k with
  | BRetry n => retry_b_done n a b ns sb trb ob r0a r0bl
  | _ => seq_final k b sb trb (after_second k (saved ns) ob)
  end.

Definition start_seq (k : bkind) (a b : sexpr) (en : env) (cx : nat) : res :=
  let '(sa, tra, ra) := start a en cx in
  match ra with
  | None => (ONode (mk_nst PFirst en) sa OFin, tra, None)
  | Some oa => a_done k a b (mk_nst PFirst en) sa tra oa cx (sa, tra, ra) (rbe_of b en oa cx)
  end.

(* child b of a concurrent node completed with [ob]; [tr] = events so far *)
Definition conc_b_done (k : bkind) (a b : sexpr) (ns : nst) (sa sb' : ost) (tr : list tev) (ob : outcome) (cx : nat) : res :=
  let '(ns1, newly, fin) := conc_child_done k ns true ob in
  match fin with
  | Some _ => finish_conc k a b ns1 sa sb' tr fin false
  | None =>
      if newly then
        let '(sa', tra, ra) := conc_reap k a (stop a sa cx) in
        match ra with
        | Some oa =>
            let '(ns2, _, fin2) := conc_child_done k ns1 false oa in
            finish_conc k a b ns2 sa' sb' (tr ++ tra) fin2 false
        | None => (ONode ns1 sa' sb', tr ++ tra, None)
        end
      else (ONode ns1 sa sb', tr, None)
  end.

(* child a of a concurrent node completed with [oa] *)
Definition conc_a_done (k : bkind) (a b : sexpr) (ns : nst) (sa' sb : ost) (tr : list tev) (oa : outcome) (cx : nat) : res :=
  let '(ns1, newly, fin) := conc_child_done k ns false oa in
  match fin with
  | Some _ => finish_conc k a b ns1 sa' sb tr fin false
  | None =>
      if newly then
        let '(sb', trb, rb) := conc_reap k b (stop b sb cx) in
        match rb with
        | Some ob =>
            let '(ns2, _, fin2) := conc_child_done k ns1 true ob in
            finish_conc k a b ns2 sa' sb' (tr ++ trb) fin2 false
        | None => (ONode ns1 sa' sb', tr ++ trb, None)
        end
      else (ONode ns1 sa' sb, tr, None)
  end.

Definition conc_ns0 (en : env) : nst :=
  ns_set_own (ns_set_reg (mk_nst PBoth en) (negb (e_stopped en))) (e_stopped en).

Definition start_conc (k : bkind) (a b : sexpr) (en : env) (cx : nat) : res :=
  let '(sa, tra, ra) := conc_reap k a (start a (env_own en (e_stopped en)) cx) in
  let '(ns1, _, _) :=
      match ra with
      | Some oa => conc_child_done k (conc_ns0 en) false oa
      | None => (conc_ns0 en, false, None)
      end in
  let '(sb, trb, rb) := conc_reap k b (start b (env_own en (own_stop ns1)) cx) in
  match rb with
  | None => (ONode ns1 sa sb, tra ++ trb, None)
  | Some ob => conc_b_done k a b ns1 sa sb (tra ++ trb) ob cx
  end.

Definition stopped_ns (ns : nst) : nst := ns_set_env ns (env_with_stop (n_env ns) true).

Definition stop_un_body (k : ukind) (s : sexpr) (ns : nst) (sc : ost) (cx : nat) : res :=
  if un_own k && own_stop ns then (ONode (stopped_ns ns) sc OFin, [], None)
  else
    let ns'' := if un_own k then ns_set_own (stopped_ns ns) true else stopped_ns ns in
    let '(sc', tr, r) := stop s sc cx in
    match r with
    | Some o => un_fin k s ns'' sc' tr o (start s (un_env k (n_env ns'')) cx)
    | None => (ONode ns'' sc' OFin, tr, None)
    end.

Definition stop_seq1 (k : bkind) (a b : sexpr) (ns : nst) (sa sb : ost) (cx : nat) : res :=
  let '(sa', tra, ra) := stop a sa cx in
  match ra with
  | None => (ONode (stopped_ns ns) sa' sb, tra, None)
  | Some oa =>
      a_done k a b (stopped_ns ns) sa' tra oa cx (start a (n_env (stopped_ns ns)) cx)
             (r0bl_of b (n_env (stopped_ns ns)) (start a (n_env (stopped_ns ns)) cx) cx)
  end.

Definition stop_seq2 (k : bkind) (a b : sexpr) (ns : nst) (sa sb : ost) (cx : nat) : res :=
  let '(sb', trb, rb) := stop b sb cx in
  match rb with
  | None => (ONode (stopped_ns ns) sa sb', trb, None)
  | Some ob =>
      b_done k a b (stopped_ns ns) sb' trb ob (start a (n_env (stopped_ns ns)) cx)
             (r0bl_of b (n_env (stopped_ns ns)) (start a (n_env (stopped_ns ns)) cx) cx)
  end.

Definition stop_conc (k : bkind) (a b : sexpr) (ns : nst) (sa sb : ost) (cx : nat) : res :=
  let ns1 := ns_set_own (stopped_ns ns) true in
  let '(sb', trb, rb) := if bdone ns1 then (sb, [], None) else conc_reap k b (stop b sb cx) in
  let '(ns2, _, fin1) :=
      match rb with
      | Some ob => conc_child_done k ns1 true ob
      | None => (ns1, false, None)
      end in
  match fin1 with
  | Some _ => finish_conc k a b ns2 sa sb' trb fin1 (leaky k)
  | None =>
      let '(sa', tra, ra) := if adone ns2 then (sa, [], None) else conc_reap k a (stop a sa cx) in
      let '(ns3, _, fin2) :=
          match ra with
          | Some oa => conc_child_done k ns2 false oa
          | None => (ns2, false, None)
          end in
      finish_conc k a b ns3 sa' sb' (trb ++ tra) fin2 (leaky k)
  end.

(* [stage 4] what a node sees of its child when an external completion is delivered below it: the child is
   called with [oin]; if it completes with a value whose copy throws (OValT) and this node lets the exception
   leave its set_value ([thr]) the completion is delivered again - from the same child state - as OValK; a
   catching forwarder ([cat]) whose consumer throws turns it into OErr tcode *)
Definition child_ev (thr cat : bool) (c : sexpr) (sc : ost) (id : nat) (oin o : outcome) (cx : nat) : res * bool :=
  let '(r0, hit) := leafev c sc id oin cx in
  (match thrown r0 with
   | Some v => if thr then fst (leafev c sc id (OValK v) cx) else caught cat o r0
   | None => r0
   end, hit).

(* let_value_with_stop_source: a LeafR below asked for stop on this node's source *)
Definition fired_body (k : ukind) (s : sexpr) (ns : nst) (sc' : ost) (tr : list tev) (id : nat) (o : outcome)
           (cx : nat) (hit : bool) : res * bool :=
  let '(ns1, (sc1, tr1, r1)) :=
      if own_stop ns then (ns, (sc', [], None)) else (ns_set_own ns true, stop s sc' cx) in
  match r1 with
  | Some oc => (un_done k s sc1 (tr ++ tr1) oc, hit)
  | None =>
      let '((sc2, tr2, r2), _) := leafev s sc1 id o cx in
      match r2 with
      | Some oc => (un_done k s sc2 (tr ++ tr1 ++ tr2) oc, hit)
      | None => ((ONode ns1 sc2 OFin, tr ++ tr1 ++ tr2, None), hit)
      end
  end.

Definition leafev_un_body (k : ukind) (s : sexpr) (ns : nst) (sc : ost) (id : nat) (o : outcome) (cx : nat) : res * bool :=
  let '((sc', tr, r), hit) := child_ev (un_throw k) (un_catch k) s sc id (un_in k o) o cx in
  match r with
  | Some oc => (un_fin k s ns sc' tr oc (start s (un_env k (n_env ns)) cx), hit)
  | None =>
      if un_own k && fired (e_ss (n_env ns)) tr then fired_body k s ns sc' tr id o cx hit
      else ((ONode ns sc' OFin, tr, None), hit)
  end.

Definition leafev_seq1 (k : bkind) (a b : sexpr) (ns : nst) (sa sb : ost) (id : nat) (o : outcome) (cx : nat) : res * bool :=
  let '((sa', tra, ra), hit) := child_ev (bin_throw k false) (bin_catch k false) a sa id (bin_in k false o) o cx in
  match ra with
  | None => ((ONode ns sa' sb, tra, None), hit)
  | Some oa =>
      (a_done k a b ns sa' tra oa cx (start a (n_env ns) cx) (r0bl_of b (n_env ns) (start a (n_env ns) cx) cx), hit)
  end.

Definition leafev_seq2 (k : bkind) (a b : sexpr) (ns : nst) (sa sb : ost) (id : nat) (o : outcome) (cx : nat) : res * bool :=
  let '((sb', trb, rb), hit) := child_ev (bin_throw k true) (bin_catch k true) b sb id (bin_in k true o) o cx in
  match rb with
  | None => ((ONode ns sa sb', trb, None), hit)
  | Some ob =>
      (b_done k a b ns sb' trb ob (start a (n_env ns) cx) (r0bl_of b (n_env ns) (start a (n_env ns) cx) cx), hit)
  end.

Definition reap_ev (k : bkind) (c : sexpr) (x : res * bool) : res * bool := (conc_reap k c (fst x), snd x).

Definition leafev_conc (k : bkind) (a b : sexpr) (ns : nst) (sa sb : ost) (id : nat) (o : outcome) (cx : nat) : res * bool :=
  let '((sa', tra, ra), hita) :=
      if adone ns then ((sa, [], None), false)
      else reap_ev k a (child_ev (bin_throw k false) false a sa id (tmode o) o cx) in
  if hita then
    match ra with
    | None => ((ONode ns sa' sb, tra, None), true)
    | Some oa => (conc_a_done k a b ns sa' sb tra oa cx, true)
    end
  else
    let '((sb', trb, rb), hitb) :=
        if bdone ns then ((sb, [], None), false) else reap_ev k b (leafev b sb id (tmode o) cx) in
    match rb with
    | None => ((ONode ns sa sb', trb, None), hitb)
    | Some ob => (conc_b_done k a b ns sa sb' trb ob cx, hitb)
    end.

(* ---- equation lemmas ------------------------------------------------------------------------------ *)
Lemma start_un k s en cx :
  start (Un k s) en cx =
  if sthrows (Un k s) then start_thrown (Un k s) en else
  let '(sc, tr0, r) := start s (un_env k en) cx in
  match r with
  | Some o => un_fin k s (un_nst k en) sc (un_pre k en ++ tr0) o (sc, tr0, r)
  | None => (ONode (un_nst k en) sc OFin, un_pre k en ++ tr0, None)
  end.
Proof. destruct k; reflexivity. Qed.

Lemma start_bin_seq k a b en cx : is_seq k = true ->
  start (Bin k a b) en cx = if sthrows (Bin k a b) then start_thrown (Bin k a b) en else start_seq k a b en cx.
Proof. destruct k; intros H; try discriminate H; reflexivity. Qed.

Lemma start_bin_conc k a b en cx : is_seq k = false ->
  start (Bin k a b) en cx = if sthrows (Bin k a b) then start_thrown (Bin k a b) en else start_conc k a b en cx.
Proof.
  intros H.
  assert (E : start (Bin k a b) en cx = if sthrows (Bin k a b) then start_thrown (Bin k a b) en else
    let ns0 := conc_ns0 en in
    let '(sa, tra, ra) := conc_reap k a (start a (env_own en (own_stop ns0)) cx) in
    let '(ns1, _, _) :=
        match ra with
        | Some oa => conc_child_done k ns0 false oa
        | None => (ns0, false, None)
        end in
    let '(sb, trb, rb) := conc_reap k b (start b (env_own en (own_stop ns1)) cx) in
    match rb with
    | None => (ONode ns1 sa sb, tra ++ trb, None)
    | Some ob =>
        let '(ns2, newly, fin) := conc_child_done k ns1 true ob in
        match fin with
        | Some _ => finish_conc k a b ns2 sa sb (tra ++ trb) fin false
        | None =>
            if newly then
              let '(sa', tra2, ra2) := conc_reap k a (stop a sa cx) in
              match ra2 with
              | Some oa =>
                  let '(ns3, _, fin3) := conc_child_done k ns2 false oa in
                  finish_conc k a b ns3 sa' sb (tra ++ trb ++ tra2) fin3 false
              | None => (ONode ns2 sa' sb, tra ++ trb ++ tra2, None)
              end
            else (ONode ns2 sa sb, tra ++ trb, None)
        end
    end).
  { destruct k; try discriminate H; reflexivity. }
  rewrite E. clear E. destruct (sthrows (Bin k a b)); [reflexivity|].
  unfold start_conc, conc_b_done. cbv zeta.
  change (own_stop (conc_ns0 en)) with (e_stopped en).
  destruct (conc_reap k a (start a (env_own en (e_stopped en)) cx)) as [[sa tra] ra].
  destruct (match ra with Some oa => conc_child_done k (conc_ns0 en) false oa | None => (conc_ns0 en, false, None) end)
    as [[ns1 x1] x2].
  destruct (conc_reap k b (start b (env_own en (own_stop ns1)) cx)) as [[sb trb] rb].
  destruct rb as [ob|]; [|reflexivity].
  destruct (conc_child_done k ns1 true ob) as [[ns2 newly] fin].
  destruct fin; [reflexivity|]. destruct newly; [|reflexivity].
  destruct (conc_reap k a (stop a sa cx)) as [[sa' tra2] ra2].
  destruct ra2 as [oa|]; rewrite app_assoc; reflexivity.
Qed.

Lemma stop_un_unst s ns sc sb cx :
  stop (Un UUnstoppable s) (ONode ns sc sb) cx = (ONode ns sc sb, [], None).
Proof. reflexivity. Qed.

Lemma stop_un k s ns sc sb cx : is_unst k = false ->
  stop (Un k s) (ONode ns sc sb) cx = stop_un_body k s ns sc cx.
Proof. destruct k; intros H; try discriminate H; reflexivity. Qed.

Lemma stop_bin k a b ns sa sb cx :
  stop (Bin k a b) (ONode ns sa sb) cx =
  if is_seq k then
    match ph ns with
    | PFirst => stop_seq1 k a b ns sa sb cx
    | _ => stop_seq2 k a b ns sa sb cx
    end
  else if own_stop ns then (ONode (stopped_ns ns) sa sb, [], None)
  else stop_conc k a b ns sa sb cx.
Proof. destruct k; reflexivity. Qed.

Lemma leafev_un k s ns sc sb id o cx :
  leafev (Un k s) (ONode ns sc sb) id o cx = leafev_un_body k s ns sc id o cx.
Proof.
  unfold leafev_un_body, fired_body, child_ev. destruct k; simpl;
    match goal with |- context[leafev s sc id ?X cx] => destruct (leafev s sc id X cx) as [r0 hit] end;
    destruct (thrown r0); repeat (bmg; try reflexivity).
Qed.

Lemma leafev_bin_seq k a b ns sa sb id o cx : is_seq k = true ->
  leafev (Bin k a b) (ONode ns sa sb) id o cx =
  match ph ns with
  | PFirst => leafev_seq1 k a b ns sa sb id o cx
  | _ => leafev_seq2 k a b ns sa sb id o cx
  end.
Proof.
  unfold leafev_seq1, leafev_seq2, child_ev.
  destruct k; intros H; try discriminate H; simpl; destruct (ph ns);
    match goal with |- context[leafev ?c ?sc id ?X cx] => destruct (leafev c sc id X cx) as [r0 hit] end;
    destruct (thrown r0); repeat (bmg; try reflexivity).
Qed.

Lemma caught_false o r : caught false o r = r.
Proof. destruct r as [[st tr] [[]|]]; reflexivity. Qed.

(* the child's result as the node sees it is the result of ONE call of leafev on the child from the same
   child state (with the original input, or re-delivered as OValK), up to a caught exception that replaces the
   outcome OValT by OErr tcode *)
Lemma child_ev_cases thr cat c sc id oin o cx r hit :
  child_ev thr cat c sc id oin o cx = (r, hit) ->
  hit = snd (leafev c sc id oin cx) /\
  exists oin' st tr ro h, leafev c sc id oin' cx = ((st, tr, ro), h) /\
    exists r', r = (st, tr, r') /\ (r' = ro \/ exists v, ro = Some (OValT v) /\ r' = Some (OErr tcode)).
Proof.
  unfold child_ev. destruct (leafev c sc id oin cx) as [[[st0 tr0] ro0] h0] eqn:E0. intros H.
  injection H as H <-. split; [reflexivity|].
  assert (Plain : r = (st0, tr0, ro0) ->
          exists oin' st tr ro h, leafev c sc id oin' cx = ((st, tr, ro), h) /\
          exists r', r = (st, tr, r') /\ (r' = ro \/ exists v, ro = Some (OValT v) /\ r' = Some (OErr tcode))).
  { intros ->. exists oin, st0, tr0, ro0, h0. split; [exact E0|]. exists ro0. auto. }
  destruct ro0 as [o0|]; [destruct o0|]; simpl in H; try (apply Plain; symmetry; exact H).
  destruct thr.
  - destruct (leafev c sc id (OValK v) cx) as [[[st1 tr1] ro1] h1] eqn:E1. simpl in H. subst r.
    exists (OValK v), st1, tr1, ro1, h1. split; [exact E1|]. exists ro1. auto.
  - destruct (cat && is_k o)%bool; [|apply Plain; symmetry; exact H]. subst r.
    exists oin, st0, tr0, (Some (OValT v)), h0. split; [exact E0|]. exists (Some (OErr tcode)). split; [reflexivity|].
    right. eauto.
Qed.
Lemma child_ev_none thr cat c sc id oin o cx st tr r hit :
  child_ev thr cat c sc id oin o cx = ((st, tr, r), hit) ->
  exists oin' ro h, leafev c sc id oin' cx = ((st, tr, ro), h) /\ (r = None <-> ro = None).
Proof.
  intros H. apply child_ev_cases in H. destruct H as (_ & oin' & st1 & tr1 & ro & h & E & r' & Er & Hr).
  inv Er. exists oin', ro, h. split; [exact E|]. destruct Hr as [->|(v & -> & ->)]; split; congruence.
Qed.

Lemma leafev_bin_conc k a b ns sa sb id o cx : is_seq k = false ->
  leafev (Bin k a b) (ONode ns sa sb) id o cx = leafev_conc k a b ns sa sb id o cx.
Proof.
  intros H.
  assert (E : leafev (Bin k a b) (ONode ns sa sb) id o cx =
        let '((sa', tra, ra), hita) := if adone ns then ((sa, [], None), false) else (let (r0, h) := leafev a sa id (tmode o) cx in
              let r := match thrown r0 with
                       | Some v => if bin_throw k false then fst (leafev a sa id (OValK v) cx) else r0
                       | None => r0
                       end in
              (conc_reap k a r, h)) in
        if hita then
          match ra with
          | None => ((ONode ns sa' sb, tra, None), true)
          | Some oa =>
              let '(ns1, newly, fin) := conc_child_done k ns false oa in
              match fin with
              | Some _ => (finish_conc k a b ns1 sa' sb tra fin false, true)
              | None =>
                  if newly then
                    let '(sb', trb, rb) := conc_reap k b (stop b sb cx) in
                    match rb with
                    | Some ob =>
                        let '(ns2, _, fin2) := conc_child_done k ns1 true ob in
                        (finish_conc k a b ns2 sa' sb' (tra ++ trb) fin2 false, true)
                    | None => ((ONode ns1 sa' sb', tra ++ trb, None), true)
                    end
                  else ((ONode ns1 sa' sb, tra, None), true)
              end
          end
        else
          let '((sb', trb, rb), hitb) := if bdone ns then ((sb, [], None), false) else (let (r, h) := leafev b sb id (tmode o) cx in (conc_reap k b r, h)) in
          match rb with
          | None => ((ONode ns sa sb', trb, None), hitb)
          | Some ob =>
              let '(ns1, newly, fin) := conc_child_done k ns true ob in
              match fin with
              | Some _ => (finish_conc k a b ns1 sa sb' trb fin false, hitb)
              | None =>
                  if newly then
                    let '(sa', tra, ra) := conc_reap k a (stop a sa cx) in
                    match ra with
                    | Some oa =>
                        let '(ns2, _, fin2) := conc_child_done k ns1 false oa in
                        (finish_conc k a b ns2 sa' sb' (trb ++ tra) fin2 false, hitb)
                    | None => ((ONode ns1 sa' sb', trb ++ tra, None), hitb)
                    end
                  else ((ONode ns1 sa sb', trb, None), hitb)
              end
          end).
  { destruct k; try discriminate H; reflexivity. }
  rewrite E. clear E. unfold leafev_conc, conc_a_done, conc_b_done, reap_ev, child_ev.
  destruct (adone ns).
  - destruct (bdone ns); [reflexivity|].
    destruct (leafev b sb id (tmode o) cx) as [rr hh]. simpl.
    repeat (bmg; try reflexivity).
  - destruct (leafev a sa id (tmode o) cx) as [r0 hh]. cbn [fst snd].
    assert (Ec : match thrown r0 with
                 | Some v => if bin_throw k false then fst (leafev a sa id (OValK v) cx) else caught false o r0
                 | None => r0 end =
                 match thrown r0 with
                 | Some v => if bin_throw k false then fst (leafev a sa id (OValK v) cx) else r0
                 | None => r0 end).
    { destruct (thrown r0); [|reflexivity]. destruct (bin_throw k false); [reflexivity|].
      apply caught_false. }
    rewrite Ec. clear Ec.
    destruct (conc_reap k a match thrown r0 with
                 | Some v => if bin_throw k false then fst (leafev a sa id (OValK v) cx) else r0
                 | None => r0 end) as [[sa' tra] ra]. destruct hh.
    + repeat (bmg; try reflexivity).
    + destruct (bdone ns); [reflexivity|].
      destruct (leafev b sb id (tmode o) cx) as [rr2 hh2]. simpl.
      repeat (bmg; try reflexivity).
Qed.

(* states that do not fit the expression: nothing happens *)
Definition inert (st : ost) : Prop :=
  match st with OFin | OCompl _ _ => True | _ => False end.
Lemma stop_inert_st e st cx : inert st -> stop e st cx = (st, [], None).
Proof. destruct st; simpl; try contradiction; intros _; destruct e; reflexivity. Qed.
Lemma leafev_inert_st e st id o cx : inert st -> leafev e st id o cx = ((st, [], None), false).
Proof. destruct st; simpl; try contradiction; intros _; destruct e; reflexivity. Qed.
Lemma stop_fin e cx : stop e OFin cx = (OFin, [], None).
Proof. apply stop_inert_st. exact I. Qed.
Lemma leafev_fin e id o cx : leafev e OFin id o cx = ((OFin, [], None), false).
Proof. apply leafev_inert_st. exact I. Qed.

(* ---- conc_child_done / finish_conc ------------------------------------------------------------- *)
Lemma ccd_spec k ns i o ns2 newly fin :
  conc_child_done k ns i o = (ns2, newly, fin) ->
  n_env ns2 = n_env ns /\ ph ns2 = ph ns /\ reg ns2 = reg ns /\
  adone ns2 = (if i then adone ns else true) /\
  bdone ns2 = (if i then true else bdone ns) /\
  own_stop ns2 = (own_stop ns || newly)%bool /\
  (newly = true -> own_stop ns = false) /\
  (fin = None <-> (adone ns2 && bdone ns2)%bool = false).
Proof.
  unfold conc_child_done. intros H. cbv zeta in H.
  set (o' := conc_in k o) in H.
  set (v := match o' with OVal v => v | _ => 0 end) in H.
  set (nw := match k with
             | BWhenAll => match o' with OVal _ => false | _ => negb (own_stop ns) end
             | _ => negb (own_stop ns) end) in H.
  set (sv := match k with
             | BWhenAll => _
             | BWhenAny => _
             | _ => if i then saved ns else Some o' end) in H.
  set (cl := match k, o', cell ns with BWhenAny, OVal v, None => Some v | _, _, _ => cell ns end) in H.
  set (n2 := ns_set_cell (ns_set_saved (ns_set_own (ns_child_done ns i v) (own_stop ns || nw)) sv) cl) in H.
  assert (E1 : n_env n2 = n_env ns) by (destruct i; reflexivity).
  assert (E2 : ph n2 = ph ns) by (destruct i; reflexivity).
  assert (E3 : reg n2 = reg ns) by (destruct i; reflexivity).
  assert (E4 : adone n2 = if i then adone ns else true) by (destruct i; reflexivity).
  assert (E5 : bdone n2 = if i then true else bdone ns) by (destruct i; reflexivity).
  assert (E6 : own_stop n2 = (own_stop ns || nw)%bool) by (destruct i; reflexivity).
  assert (E7 : nw = true -> own_stop ns = false).
  { unfold nw. destruct k, o', (own_stop ns); simpl; congruence. }
  clearbody n2 nw.
  destruct (adone n2 && bdone n2)%bool eqn:Hc; inv H;
    (repeat split; try assumption; try congruence; intros; try discriminate).
Qed.

Lemma finish_none k a b ns sa sb tr l :
  finish_conc k a b ns sa sb tr None l = (ONode ns sa sb, tr, None).
Proof. reflexivity. Qed.

(* the completed node: its state is inert, the events are the given ones followed by destructions *)
Lemma finish_some k a b ns sa sb tr o :
  exists st' d, finish_conc k a b ns sa sb tr (Some o) false = (st', tr ++ d, Some o) /\ inert st' /\
                (d = [] \/ d = dtor a sa ++ dtor b sb).
Proof.
  unfold finish_conc.
  destruct k, o; cbn [andb];
    try (exists (OCompl sa sb), []; split; [reflexivity|split; [exact I|left; reflexivity]]);
    try (exists OFin, (dtor a sa ++ dtor b sb); split; [reflexivity|split; [exact I|right; reflexivity]]).
  exists (OCompl sa sb), []. rewrite app_nil_r. split; [reflexivity|split; [exact I|left; reflexivity]].
Qed.
Lemma leaky_false k : leaky k = false.
Proof. reflexivity. Qed.

(* un_result only ever emits calls of user callables *)
Definition is_call (t : tev) : Prop := match t with TCall _ _ => True | _ => False end.
Lemma un_result_calls k o tr2 o' : un_result k o = (tr2, o') -> Forall is_call tr2.
Proof.
  unfold un_result, apply_fn. intros H.
  destruct k, o; inv H; repeat constructor.
Qed.

Lemma nodup_app_disj (A : Type) (l1 l2 : list A) x : NoDup (l1 ++ l2) -> In x l1 -> In x l2 -> False.
Proof.
  induction l1 as [|y l1 IH]; simpl; intros ND H1 H2; [contradiction|].
  inversion ND as [|? ? Hn ND']; subst. destruct H1 as [->|H1].
  - apply Hn. apply in_or_app. right. exact H2.
  - exact (IH ND' H1 H2).
Qed.
Lemma nodup_app_l (A : Type) (l1 l2 : list A) : NoDup (l1 ++ l2) -> NoDup l1.
Proof.
  induction l1 as [|y l1 IH]; simpl; intros ND; [constructor|].
  inversion ND as [|? ? Hn ND']; subst. constructor; auto.
  intros H. apply Hn. apply in_or_app. auto.
Qed.
Lemma nodup_app_r (A : Type) (l1 l2 : list A) : NoDup (l1 ++ l2) -> NoDup l2.
Proof.
  induction l1 as [|y l1 IH]; simpl; intros ND; [exact ND|].
  inversion ND; subst. auto.
Qed.

(* whole runs: [exec] = the script, then the owner destroys the completed root operation *)
Definition run (e : sexpr) (pre : bool) (script : list sev) : run_state :=
  fold_left (run_ev e) script (run_start e pre).
Lemma exec_run e pre script : exec e pre script = run_end e (run e pre script).
Proof. reflexivity. Qed.
Lemma run_snoc e pre script ev : run e pre (script ++ [ev]) = run_ev e (run e pre script) ev.
Proof. unfold run. rewrite fold_left_app. reflexivity. Qed.
Lemma run_app e pre s1 s2 : run e pre (s1 ++ s2) = fold_left (run_ev e) s2 (run e pre s1).
Proof. unfold run. apply fold_left_app. Qed.
Lemma run_invariant e pre (I : run_state -> Prop) :
  I (run_start e pre) -> (forall rs ev, I rs -> I (run_ev e rs ev)) ->
  forall script, I (run e pre script).
Proof.
  intros H0 Hs script. unfold run. generalize (run_start e pre) H0.
  induction script as [|ev script IH]; intros rs Hrs; simpl; [exact Hrs|].
  apply IH. apply Hs. exact Hrs.
Qed.
(* the same with a condition on the script events *)
Lemma run_invariant_s e pre (I : run_state -> Prop) (G : sev -> Prop) :
  I (run_start e pre) -> (forall rs ev, G ev -> I rs -> I (run_ev e rs ev)) ->
  forall script, Forall G script -> I (run e pre script).
Proof.
  intros H0 Hs script. unfold run. generalize (run_start e pre) H0.
  induction script as [|ev script IH]; intros rs Hrs HG; simpl; [exact Hrs|].
  inversion HG; subst. apply IH; auto.
Qed.

(* ================================================================================================ *)
(* Part 2: the event invariant (queries, contexts, identifiers, no leak)                            *)
(* ================================================================================================ *)

(* what a leaf can ask its receiver, apart from the stop state: q0, q1, stop_possible, get_scheduler *)
Definition qsum := (Z * Z * bool * nat)%type.
Definition s_q0 (sm : qsum) : Z := fst (fst (fst sm)).
Definition s_q1 (sm : qsum) : Z := snd (fst (fst sm)).
Definition s_sp (sm : qsum) : bool := snd (fst sm).
Definition s_sch (sm : qsum) : nat := snd sm.
Definition summ (en : env) : qsum := (e_q0 en, e_q1 en, e_stoppable en, e_sched en).

(* the documented overrides *)
Definition un_sum (k : ukind) (sm : qsum) : qsum :=
  match k with
  | UWithQ O v => (v, s_q1 sm, s_sp sm, s_sch sm)
  | UWithQ (S _) v => (s_q0 sm, v, s_sp sm, s_sch sm)
  | UUnstoppable => (s_q0 sm, s_q1 sm, false, s_sch sm)
  | UWithSched c => (s_q0 sm, s_q1 sm, s_sp sm, c)
  | ULetSS _ => (s_q0 sm, s_q1 sm, true, s_sch sm)
  | _ => sm
  end.
Definition own_sum (sm : qsum) : qsum := (s_q0 sm, s_q1 sm, true, s_sch sm).
Definition bin_sum (k : bkind) (sm : qsum) : qsum := if is_seq k then sm else own_sum sm.

(* the path from the root to a leaf, folding the overrides *)
Inductive sees : sexpr -> qsum -> nat -> qsum -> Prop :=
| sees_leaf id sm : sees (Leaf id) sm id sm
| sees_leafn id sm : sees (LeafN id) sm id sm
| sees_leafr id lvl sm : sees (LeafR id lvl) sm id sm
| sees_un k s sm id x : sees s (un_sum k sm) id x -> sees (Un k s) sm id x
| sees_bin_a k a b sm id x : sees a (bin_sum k sm) id x -> sees (Bin k a b) sm id x
| sees_bin_b k a b sm id x : sees b (bin_sum k sm) id x -> sees (Bin k a b) sm id x.

Lemma sees_in e sm id x : sees e sm id x -> In id (leaf_ids e).
Proof. induction 1; simpl; auto; apply in_or_app; auto. Qed.

(* ---- environments ---------------------------------------------------------------------------------- *)
(* a token that cannot be stopped is not stopped *)
Definition good_env (en : env) : Prop := e_stoppable en = false -> e_stopped en = false.

Lemma summ_un k en : summ (un_env k en) = un_sum k (summ en).
Proof. destruct k; try reflexivity. destruct q; reflexivity. Qed.
Lemma good_un k en : good_env en -> good_env (un_env k en).
Proof. unfold good_env. destruct k; simpl; auto; try discriminate. destruct q; simpl; auto. Qed.
Lemma summ_own en o : summ (env_own en o) = own_sum (summ en).
Proof. reflexivity. Qed.
Lemma good_own en o : good_env (env_own en o).
Proof. unfold good_env. simpl. discriminate. Qed.
Lemma summ_bind en v : summ (env_bind en v) = summ en.
Proof. reflexivity. Qed.
Lemma good_bind en v : good_env en -> good_env (env_bind en v).
Proof. exact (fun H => H). Qed.
Lemma after_first_env k en o en2 sv :
  after_first k en o = inr (en2, sv) -> en2 = en \/ exists v, en2 = env_bind en v.
Proof. unfold after_first. intros H. destruct k, o; inv H; eauto. Qed.
Lemma after_first_summ k en o en2 sv :
  after_first k en o = inr (en2, sv) -> summ en2 = summ en /\ (good_env en -> good_env en2).
Proof. intros H. apply after_first_env in H. destruct H as [->|[v ->]]; split; auto. Qed.

Definition nok (sm : qsum) (ns : nst) : Prop := summ (n_env ns) = sm /\ good_env (n_env ns).
Lemma nok_env sm ns ns' : n_env ns' = n_env ns -> nok sm ns -> nok sm ns'.
Proof. unfold nok. intros ->. auto. Qed.
Lemma nok_stopped sm ns : s_sp sm = true -> nok sm ns -> nok sm (stopped_ns ns).
Proof.
  unfold nok, stopped_ns, good_env. intros Hs [H1 H2]. simpl. split.
  - exact H1.
  - intros H. exfalso. rewrite <- H1 in Hs. unfold s_sp, summ in Hs. simpl in Hs. congruence.
Qed.
Lemma nok_un_nst k en : good_env en -> nok (summ en) (un_nst k en).
Proof. intros Hg. destruct k; split; try reflexivity; exact Hg. Qed.

(* every node of the state was started with the statically determined answers *)
Fixpoint qwf (e : sexpr) (sm : qsum) (st : ost) : Prop :=
  match e, st with
  | Un k s, ONode ns sc _ => nok sm ns /\ qwf s (un_sum k sm) sc
  | Bin k a b, ONode ns sa sb => nok sm ns /\ qwf a (bin_sum k sm) sa /\ qwf b (bin_sum k sm) sb
  | _, _ => True
  end.
Lemma qwf_inert e sm st : inert st -> qwf e sm st.
Proof. destruct st; simpl; try contradiction; intros _; destruct e; exact I. Qed.
Lemma qwf_fin e sm : qwf e sm OFin.
Proof. destruct e; exact I. Qed.
Lemma qwf_compl e sm a b : qwf e sm (OCompl a b).
Proof. destruct e; exact I. Qed.
Lemma qwf_leaf e sm c s : qwf e sm (OLeaf c s).
Proof. destruct e; exact I. Qed.
Lemma qwf_held e sm v : qwf e sm (OHeld v).
Proof. destruct e; exact I. Qed.
Lemma qwf_un k s sm ns sc sb : qwf (Un k s) sm (ONode ns sc sb) = (nok sm ns /\ qwf s (un_sum k sm) sc).
Proof. reflexivity. Qed.
Lemma qwf_bin k a b sm ns sa sb :
  qwf (Bin k a b) sm (ONode ns sa sb) = (nok sm ns /\ qwf a (bin_sum k sm) sa /\ qwf b (bin_sum k sm) sb).
Proof. reflexivity. Qed.
#[global] Hint Resolve qwf_fin qwf_leaf qwf_compl qwf_held : calc.

(* what an event of a call on context [cx] may be *)
Definition evok (e : sexpr) (sm : qsum) (cx : nat) (t : tev) : Prop :=
  match t with
  | TLeafStart id s sp a b sch cx' => sees e sm id (a, b, sp, sch) /\ (sp = false -> s = false) /\ cx' = cx
  | TLeafStop id => In id (leaf_ids e)
  | TLeafDtor id => In id (leaf_ids e)
  | TReqStop id _ => In id (leaf_ids e)
  | TSchedStart id c => In (id, c) (scheds e)
  | TSchedDtor c => In c (map snd (scheds e))
  | TLeak _ => False
  | TCall _ _ | TPred _ | TGate _ => True
  | TAlloc _ | TFree _ => True
  end.
Definition trok (e : sexpr) (sm : qsum) (cx : nat) (tr : list tev) : Prop := Forall (evok e sm cx) tr.

Lemma trok_nil e sm cx : trok e sm cx [].
Proof. constructor. Qed.
Lemma trok_app e sm cx t1 t2 : trok e sm cx t1 -> trok e sm cx t2 -> trok e sm cx (t1 ++ t2).
Proof. intros. apply Forall_app. auto. Qed.
Lemma trok_cons e sm cx t tr : evok e sm cx t -> trok e sm cx tr -> trok e sm cx (t :: tr).
Proof. intros. constructor; auto. Qed.
Lemma trok_calls e sm cx tr : Forall is_call tr -> trok e sm cx tr.
Proof. apply Forall_impl. intros t. destruct t; simpl; tauto. Qed.
Lemma trok_un k s sm cx tr : trok s (un_sum k sm) cx tr -> trok (Un k s) sm cx tr.
Proof.
  apply Forall_impl. intros t. destruct t; simpl; try tauto.
  intros (H1 & H2 & H3). split; [constructor|]; auto.
Qed.
Lemma trok_bin_a k a b sm cx tr : trok a (bin_sum k sm) cx tr -> trok (Bin k a b) sm cx tr.
Proof.
  apply Forall_impl. intros t. destruct t; simpl; try tauto;
    try (intros H; apply in_or_app; auto; fail).
  - intros (H1 & H2 & H3). split; [apply sees_bin_a|]; auto.
  - rewrite map_app. intros H; apply in_or_app; auto.
Qed.
Lemma trok_bin_b k a b sm cx tr : trok b (bin_sum k sm) cx tr -> trok (Bin k a b) sm cx tr.
Proof.
  apply Forall_impl. intros t. destruct t; simpl; try tauto;
    try (intros H; apply in_or_app; auto; fail).
  - intros (H1 & H2 & H3). split; [apply sees_bin_b|]; auto.
  - rewrite map_app. intros H; apply in_or_app; auto.
Qed.
#[global] Hint Resolve trok_nil trok_app : calc.

(* destructor cascades only mention the expression's own leaves and schedule operations *)
Lemma dtor_ok e : forall sm cx st, trok e sm cx (dtor e st).
Proof.
  induction e; intros sm cx st; destruct st; simpl; try apply trok_nil;
    try (repeat constructor; simpl; auto; fail);
    try (destruct k; simpl; try apply trok_nil; try (apply trok_un; apply IHe);
         try (apply trok_app; [apply trok_un; apply IHe|repeat constructor]); fail).
  - destruct (dtor_b_first k); apply trok_app;
      solve [apply trok_bin_a; apply IHe1 | apply trok_bin_b; apply IHe2].
  - destruct (dtor_b_first k); apply trok_app;
      solve [apply trok_bin_a; apply IHe1 | apply trok_bin_b; apply IHe2].
Qed.
#[global] Hint Resolve dtor_ok : calc.

(* ---- [stage 5] blocks: the allocator visible at an allocate node ------------------------------------ *)
Definition un_al (k : ukind) (al : nat) : nat := match k with UWithAlloc a => a | _ => al end.
(* [alloc_at e al a]: e contains an allocate node at which get_allocator answers a, when it answers al at e's
   receiver: the fold of the with_allocator overrides along the path to that node *)
Inductive alloc_at : sexpr -> nat -> nat -> Prop :=
| aa_here s al : alloc_at (Un UAllocate s) al al
| aa_un k s al a : alloc_at s (un_al k al) a -> alloc_at (Un k s) al a
| aa_bin_a k a b al x : alloc_at a al x -> alloc_at (Bin k a b) al x
| aa_bin_b k a b al x : alloc_at b al x -> alloc_at (Bin k a b) al x.
(* a block event of the allocator visible at one of e's allocate nodes *)
Definition aev (e : sexpr) (al : nat) (t : tev) : Prop :=
  match t with TAlloc a | TFree a => alloc_at e al a | _ => False end.
Lemma aev_un k s al tr : Forall (aev s (un_al k al)) tr -> Forall (aev (Un k s) al) tr.
Proof. apply Forall_impl. intros t. destruct t; simpl; try tauto; apply aa_un. Qed.
Lemma aev_bin_a k a b al tr : Forall (aev a al) tr -> Forall (aev (Bin k a b) al) tr.
Proof. apply Forall_impl. intros t. destruct t; simpl; try tauto; apply aa_bin_a. Qed.
Lemma aev_bin_b k a b al tr : Forall (aev b al) tr -> Forall (aev (Bin k a b) al) tr.
Proof. apply Forall_impl. intros t. destruct t; simpl; try tauto; apply aa_bin_b. Qed.

Lemma unw_aev e : forall al, Forall (aev e al) (unw e al).
Proof.
  induction e; intros al; simpl; try constructor.
  - destruct k; try (apply (aev_un _ e al); apply IHe).
    apply Forall_app. split; [apply (aev_un UAllocate e al); apply IHe|]. repeat constructor.
  - destruct k; try (apply aev_bin_a; apply IHe1); try constructor;
      apply Forall_app; split; solve [apply aev_bin_a; apply IHe1|apply aev_bin_b; apply IHe2].
Qed.
Lemma conn_aev e : forall al, Forall (aev e al) (fst (conn e al)).
Proof.
  induction e; intros al; simpl; try constructor.
  - destruct k; try (apply (aev_un _ e al); apply IHe).
    pose proof (IHe al) as Hc. destruct (conn e al) as [tr th]. simpl in *.
    constructor; [simpl; constructor|]. apply Forall_app. split; [apply (aev_un UAllocate e al); exact Hc|].
    destruct th; repeat constructor.
  - pose proof (IHe1 al) as H1. pose proof (IHe2 al) as H2.
    pose proof (unw_aev e1 al) as U1. pose proof (unw_aev e2 al) as U2.
    apply (aev_bin_a k e1 e2) in H1. apply (aev_bin_b k e1 e2) in H2.
    apply (aev_bin_a k e1 e2) in U1. apply (aev_bin_b k e1 e2) in U2.
    destruct k; try exact H1; try constructor;
      destruct (conn e1 al) as [tra tha]; destruct (conn e2 al) as [trb thb]; simpl in *;
      destruct tha, thb; simpl; repeat (apply Forall_app; split); assumption.
Qed.
Lemma sconn_aev e al : Forall (aev e al) (sconn e al).
Proof.
  destruct e; try apply conn_aev. destruct k; try apply conn_aev.
  simpl. pose proof (conn_aev (Bin BWhenAll e1 e2) al) as H. simpl in H.
  eapply Forall_impl; [|exact H]. intros t. destruct t; simpl; try tauto;
    intros Ha; inversion Ha; subst; [apply aa_bin_a|apply aa_bin_b|apply aa_bin_a|apply aa_bin_b]; assumption.
Qed.

Lemma trok_aev e sm cx al tr : Forall (aev e al) tr -> trok e sm cx tr.
Proof. apply Forall_impl. intros t. destruct t; simpl; tauto. Qed.
Lemma trok_sconn e sm cx al : trok e sm cx (sconn e al).
Proof. eapply trok_aev. apply sconn_aev. Qed.
Lemma trok_un_pre k s sm cx en : trok (Un k s) sm cx (un_pre k en).
Proof. destruct k; repeat constructor. Qed.
#[global] Hint Resolve trok_sconn trok_un_pre : calc.

Definition StartQ (e : sexpr) : Prop := forall en cx st tr r,
  start e en cx = (st, tr, r) -> good_env en -> qwf e (summ en) st /\ trok e (summ en) cx tr.
Definition StopQ (e : sexpr) : Prop := forall sm cx st st' tr r,
  stop e st cx = (st', tr, r) -> s_sp sm = true -> qwf e sm st -> qwf e sm st' /\ trok e sm cx tr.
Definition LeafevQ (e : sexpr) : Prop := forall sm cx st id o st' tr r hit,
  leafev e st id o cx = (st', tr, r, hit) -> qwf e sm st -> qwf e sm st' /\ trok e sm cx tr.

(* ---- unary nodes ---------------------------------------------------------------------------------- *)
Lemma un_done_q k s sm cx sc tr o st tr' r :
  un_done k s sc tr o = (st, tr', r) -> trok (Un k s) sm cx tr ->
  qwf (Un k s) sm st /\ trok (Un k s) sm cx tr'.
Proof.
  unfold un_done. intros H Ht. destruct (un_result k o) as [tr2 o'] eqn:Hu.
  assert (Hc : trok (Un k s) sm cx tr2) by (apply trok_calls; eapply un_result_calls; eassumption).
  destruct (un_eager k o); inv H; split; auto with calc.
  apply trok_app; auto. apply trok_app; auto. apply trok_un. apply dtor_ok.
Qed.

Lemma rep_loop_q k s sm cx sc0 tr0 rr0 :
  trok (Un k s) sm cx tr0 -> qwf s (un_sum k sm) sc0 ->
  forall rest i i' sc' tr' r',
  rep_loop s (sc0, tr0, rr0) rest i = (i', (sc', tr', r')) ->
  trok (Un k s) sm cx tr' /\ (r' = None -> qwf s (un_sum k sm) sc') /\ (r' <> None -> inert sc').
Proof.
  intros Ht0 Hq0. induction rest as [|x rest IH]; intros i i' sc' tr' r' H; simpl in H.
  - inv H. split; [repeat constructor|]. split; [discriminate|intros; exact I].
  - destruct x.
    + inv H. split; [repeat constructor|]. split; [discriminate|intros; exact I].
    + destruct rr0 as [o0|].
      * destruct o0.
        -- destruct (rep_loop s (sc0, tr0, Some (OVal v)) rest (S i)) as [i2 [[sc2 tr2] r2]] eqn:Hr.
           inv H. destruct (IH _ _ _ _ _ Hr) as (T & Q & N). split; [|auto].
           apply trok_cons; [exact I|]. apply trok_app; auto. apply trok_app; auto.
           apply trok_un. apply dtor_ok.
        -- inv H. split; [apply trok_cons; [exact I|auto]|]. split; [discriminate|intros; exact I].
        -- inv H. split; [apply trok_cons; [exact I|auto]|]. split; [discriminate|intros; exact I].
        -- inv H. split; [apply trok_cons; [exact I|auto]|]. split; [discriminate|intros; exact I].
        -- inv H. split; [apply trok_cons; [exact I|auto]|]. split; [discriminate|intros; exact I].
      * inv H. split; [apply trok_cons; [exact I|auto]|]. split; [auto|congruence].
Qed.

(* [stage 4] value-like outcomes: the node discards the value by reference *)
Definition is_val (o : outcome) : bool := match o with OVal _ | OValT _ => true | _ => false end.
Lemma rep_done_eq l s ns sc tr o r0 :
  rep_done l s ns sc tr o r0 =
  if is_val o then
    let '(i', (sc', tr', r')) := rep_loop s r0 (skipn (n_iter ns) l) (n_iter ns) in
    match r' with
    | None => (ONode (ns_set_iter ns i') sc' OFin, tr ++ dtor s sc ++ tr', None)
    | Some o' => (sc', tr ++ dtor s sc ++ tr', Some o')
    end
  else (OCompl sc OFin, tr, Some o).
Proof. destruct o; reflexivity. Qed.
Lemma retry_b_done_eq n a b ns sb tr ob r0a r0bl :
  retry_b_done n a b ns sb tr ob r0a r0bl =
  if is_val ob then
    let '(sa, tra, ra) := r0a in
    let pre := tr ++ dtor b sb ++ tra in
    match ra with
    | None => (ONode (ns_set_ph ns PFirst) sa OFin, pre, None)
    | Some (OErr e') => retry_node ns (retry_err a b r0a r0bl (n - n_iter ns) (n_iter ns) r0bl e') (pre ++ dtor a sa)
    | Some o => (OCompl sa OFin, pre, Some o)
    end
  else (OFin, tr ++ dtor b sb, Some ob).
Proof. destruct ob; reflexivity. Qed.

Lemma rep_done_q l s sm cx ns sc tr o sc0 tr0 rr0 st tr' r :
  nok sm ns -> trok (Un (URepeat l) s) sm cx tr ->
  trok (Un (URepeat l) s) sm cx tr0 -> qwf s (un_sum (URepeat l) sm) sc0 ->
  rep_done l s ns sc tr o (sc0, tr0, rr0) = (st, tr', r) ->
  qwf (Un (URepeat l) s) sm st /\ trok (Un (URepeat l) s) sm cx tr'.
Proof.
  intros Hn Ht Ht0 Hq0 H. rewrite rep_done_eq in H.
  destruct (is_val o); [|inv H; split; auto with calc].
  destruct (rep_loop s (sc0, tr0, rr0) (skipn (n_iter ns) l) (n_iter ns)) as [i' [[sc' tr2] r2]] eqn:Hr.
  destruct (rep_loop_q _ _ _ _ _ _ _ Ht0 Hq0 _ _ _ _ _ _ Hr) as (T & Q & N).
  assert (Hall : trok (Un (URepeat l) s) sm cx (tr ++ dtor s sc ++ tr2)).
  { apply trok_app; auto. apply trok_app; auto. apply trok_un. apply dtor_ok. }
  destruct r2; inv H; split; auto.
  - apply qwf_inert. apply N. discriminate.
  - rewrite qwf_un. split; [eapply nok_env; [|exact Hn]; reflexivity|auto].
Qed.

Lemma un_fin_q k s sm cx ns sc tr o sc0 tr0 rr0 st tr' r :
  nok sm ns -> qwf s (un_sum k sm) sc -> trok (Un k s) sm cx tr ->
  trok (Un k s) sm cx tr0 -> qwf s (un_sum k sm) sc0 ->
  un_fin k s ns sc tr o (sc0, tr0, rr0) = (st, tr', r) ->
  qwf (Un k s) sm st /\ trok (Un k s) sm cx tr'.
Proof.
  intros Hn Hqc Ht Ht0 Hq0 H. unfold un_fin in H.
  destruct k; try (eapply un_done_q; eassumption).
  - eapply rep_done_q; [exact Hn|exact Ht|exact Ht0|exact Hq0|exact H].
  - inv H. rewrite qwf_un. auto.
Qed.

(* ---- sequential nodes ----------------------------------------------------------------------------- *)
Lemma bin_sum_seq k sm : is_seq k = true -> bin_sum k sm = sm.
Proof. unfold bin_sum. intros ->. reflexivity. Qed.
Lemma bin_sum_conc k sm : is_seq k = false -> bin_sum k sm = own_sum sm.
Proof. unfold bin_sum. intros ->. reflexivity. Qed.
Lemma bin_sum_sp k sm : s_sp sm = true -> s_sp (bin_sum k sm) = true.
Proof. unfold bin_sum. destruct (is_seq k); auto. Qed.

Lemma dtor_ok_a k a b sm cx sa : trok (Bin k a b) sm cx (dtor a sa).
Proof. apply trok_bin_a. apply dtor_ok. Qed.
Lemma dtor_ok_b k a b sm cx sb : trok (Bin k a b) sm cx (dtor b sb).
Proof. apply trok_bin_b. apply dtor_ok. Qed.
#[global] Hint Resolve dtor_ok_a dtor_ok_b : calc.

Lemma seq_pass_q k a b sm cx sa tr o st tr' r :
  seq_pass k a sa tr o = (st, tr', r) -> trok (Bin k a b) sm cx tr ->
  qwf (Bin k a b) sm st /\ trok (Bin k a b) sm cx tr'.
Proof. unfold seq_pass. intros H Ht. destruct (eager_dtor k); inv H; split; auto with calc. Qed.
Lemma seq_final_q k a b sm cx sb tr o st tr' r :
  seq_final k b sb tr o = (st, tr', r) -> trok (Bin k a b) sm cx tr ->
  qwf (Bin k a b) sm st /\ trok (Bin k a b) sm cx tr'.
Proof. unfold seq_final. intros H Ht. destruct (eager_dtor k); inv H; split; auto with calc. Qed.

Ltac tk := repeat first [ apply trok_nil | assumption | apply dtor_ok_a | apply dtor_ok_b
                        | apply trok_app | apply trok_cons; [exact I|] ].

Lemma retry_err_q k a b sm cx sa0 tra0 ra0 sbl trbl rbl :
  qwf a (bin_sum k sm) sa0 -> trok (Bin k a b) sm cx tra0 ->
  qwf b (bin_sum k sm) sbl -> trok (Bin k a b) sm cx trbl ->
  forall rem i sbe trbe rbe e i' p' st' tr' r',
  qwf b (bin_sum k sm) sbe -> trok (Bin k a b) sm cx trbe ->
  retry_err a b (sa0, tra0, ra0) (sbl, trbl, rbl) rem i (sbe, trbe, rbe) e = (i', p', (st', tr', r')) ->
  trok (Bin k a b) sm cx tr' /\
  (r' = None -> exists sa sb, st' = OCompl sa sb /\ qwf a (bin_sum k sm) sa /\ qwf b (bin_sum k sm) sb) /\
  (r' <> None -> inert st').
Proof.
  intros Hqa Hta Hql Htl. induction rem as [|rem IH]; intros i sbe trbe rbe e i' p' st' tr' r' Hqe Hte H; simpl in H.
  - inv H. split; [repeat constructor|]. split; [discriminate|intros; exact I].
  - destruct rbe as [ob|].
    + destruct ob.
      * destruct ra0 as [oa|].
        -- destruct oa.
           ++ inv H. split; [|split; [discriminate|intros; exact I]].
              apply trok_cons; [exact I|]. auto with calc.
           ++ destruct (retry_err a b (sa0, tra0, Some (OErr e0)) (sbl, trbl, rbl) rem (S i) (sbl, trbl, rbl) e0)
                as [[i2 p2] [[st2 tr2] r2]] eqn:Hr.
              inv H. destruct (IH _ _ _ _ _ _ _ _ _ _ Hql Htl Hr) as (T & Q & N).
              split; [|auto]. tk.
           ++ inv H. split; [|split; [discriminate|intros; exact I]].
              apply trok_cons; [exact I|]. auto with calc.
           ++ inv H. split; [|split; [discriminate|intros; exact I]].
              apply trok_cons; [exact I|]. auto with calc.
           ++ inv H. split; [|split; [discriminate|intros; exact I]].
              apply trok_cons; [exact I|]. auto with calc.
        -- inv H. split; [apply trok_cons; [exact I|]; auto with calc|]. split; [|congruence].
           intros _. exists sa0, OFin. auto with calc.
      * inv H. split; [apply trok_cons; [exact I|]; auto with calc|]. split; [discriminate|intros; exact I].
      * inv H. split; [apply trok_cons; [exact I|]; auto with calc|]. split; [discriminate|intros; exact I].
      * inv H. split; [apply trok_cons; [exact I|]; auto with calc|]. split; [discriminate|intros; exact I].
      * inv H. split; [apply trok_cons; [exact I|]; auto with calc|]. split; [discriminate|intros; exact I].
    + inv H. split; [apply trok_cons; [exact I|]; auto with calc|]. split; [|congruence].
      intros _. exists OFin, sbe. auto with calc.
Qed.

Lemma retry_node_q n a b sm cx ns i' p' st' tr' r' tr0 st tr r :
  nok sm ns -> trok (Bin (BRetry n) a b) sm cx tr0 -> trok (Bin (BRetry n) a b) sm cx tr' ->
  (r' = None -> exists sa sb, st' = OCompl sa sb /\ qwf a (bin_sum (BRetry n) sm) sa /\ qwf b (bin_sum (BRetry n) sm) sb) ->
  (r' <> None -> inert st') ->
  retry_node ns (i', p', (st', tr', r')) tr0 = (st, tr, r) ->
  qwf (Bin (BRetry n) a b) sm st /\ trok (Bin (BRetry n) a b) sm cx tr.
Proof.
  intros Hn Ht0 Ht' Q N H. unfold retry_node in H. destruct r' as [o|].
  - inv H. split; auto with calc. apply qwf_inert. apply N. discriminate.
  - destruct (Q eq_refl) as (sa & sb & -> & Qa & Qb). inv H. split; auto with calc.
    rewrite qwf_bin. split; [|auto]. eapply nok_env; [|exact Hn]. reflexivity.
Qed.

Lemma rbe_of_q k a b en oa cx sbe trbe rbe :
  is_seq k = true -> StartQ b -> good_env en ->
  rbe_of b en oa cx = (sbe, trbe, rbe) ->
  qwf b (bin_sum k (summ en)) sbe /\ trok (Bin k a b) (summ en) cx trbe.
Proof.
  intros Hk Sb Hg H. unfold rbe_of in H. rewrite bin_sum_seq by exact Hk.
  destruct oa; try (inv H; split; auto with calc; fail).
  destruct (Sb _ _ _ _ _ H (good_bind _ _ Hg)) as [Q T]. rewrite summ_bind in Q, T.
  split; auto. apply trok_bin_b. rewrite bin_sum_seq by exact Hk. exact T.
Qed.
Lemma r0bl_of_q k a b en r0a cx sbe trbe rbe :
  is_seq k = true -> StartQ b -> good_env en ->
  r0bl_of b en r0a cx = (sbe, trbe, rbe) ->
  qwf b (bin_sum k (summ en)) sbe /\ trok (Bin k a b) (summ en) cx trbe.
Proof.
  intros Hk Sb Hg H. unfold r0bl_of in H. rewrite bin_sum_seq by exact Hk.
  destruct (res_err r0a); try (inv H; split; auto with calc; fail).
  destruct (Sb _ _ _ _ _ H (good_bind _ _ Hg)) as [Q T]. rewrite summ_bind in Q, T.
  split; auto. apply trok_bin_b. rewrite bin_sum_seq by exact Hk. exact T.
Qed.

Lemma a_done_q k a b sm cx ns sa tra oa sa0 tra0 ra0 sbl trbl rbl st tr r :
  is_seq k = true -> StartQ b ->
  nok sm ns -> trok (Bin k a b) sm cx tra ->
  qwf a (bin_sum k sm) sa0 -> trok (Bin k a b) sm cx tra0 ->
  qwf b (bin_sum k sm) sbl -> trok (Bin k a b) sm cx trbl ->
  a_done k a b ns sa tra oa cx (sa0, tra0, ra0) (sbl, trbl, rbl) = (st, tr, r) ->
  qwf (Bin k a b) sm st /\ trok (Bin k a b) sm cx tr.
Proof.
  intros Hk Sb Hn Hta Hqa0 Hta0 Hql Htl H.
  assert (Gen : match k with BRetry _ => True | _ =>
      match after_first k (n_env ns) oa with
      | inl o => seq_pass k a sa tra o
      | inr (en2, sv) =>
          let '(sb, trb, rb) := start b en2 cx in
          match rb with
          | None => (ONode (ns_set_saved (ns_set_ph ns PSecond) sv) OFin sb, (tra ++ dtor a sa) ++ trb, None)
          | Some ob => seq_final k b sb ((tra ++ dtor a sa) ++ trb) (after_second k sv ob)
          end
      end = (st, tr, r) -> qwf (Bin k a b) sm st /\ trok (Bin k a b) sm cx tr end).
  { destruct k; try discriminate Hk; try exact I; intros H'.
    all: destruct Hn as [Hs Hg];
      destruct (after_first _ (n_env ns) oa) as [o'|[en2 sv]] eqn:Haf;
      [eapply seq_pass_q; eassumption|];
      apply after_first_summ in Haf; destruct Haf as [Hs2 Hg2];
      destruct (start b en2 cx) as [[sb trb] rb] eqn:Hb;
      destruct (Sb _ _ _ _ _ Hb (Hg2 Hg)) as [Hqb Htb]; rewrite Hs2, Hs in Hqb, Htb;
      match goal with |- qwf (Bin ?kk _ _) _ _ /\ _ =>
        assert (Htb' : trok (Bin kk a b) sm cx trb) by (apply trok_bin_b; exact Htb) end;
      destruct rb;
      [eapply seq_final_q; [eassumption|auto with calc]
      |injection H' as <- <- <-; split; [|tk]; rewrite qwf_bin; split; [split; [exact Hs|exact Hg]|split; auto with calc]]. }
  unfold a_done in H. destruct k; try (exact (Gen H)).
  clear Gen. unfold retry_a_done in H.
  destruct oa; try (inv H; split; auto with calc; fail).
  destruct (rbe_of b (n_env ns) (OErr e) cx) as [[sbe trbe] rbe] eqn:Hrbe.
  destruct Hn as [Hs Hg].
  destruct (rbe_of_q (BRetry n) a b _ _ _ _ _ _ Hk Sb Hg Hrbe) as [Qe Te]. rewrite Hs in Qe, Te.
  destruct (retry_err a b (sa0, tra0, ra0) (sbl, trbl, rbl) (n - n_iter ns) (n_iter ns) (sbe, trbe, rbe) e)
    as [[i' p'] [[st' tr'] r']] eqn:Hr.
  destruct (retry_err_q _ _ _ _ _ _ _ _ _ _ _ Hqa0 Hta0 Hql Htl _ _ _ _ _ _ _ _ _ _ _ Qe Te Hr) as (T & Q & N).
  eapply retry_node_q; [split; eassumption| |exact T|exact Q|exact N|exact H]. auto with calc.
Qed.

Lemma b_done_q k a b sm cx ns sb trb ob sa0 tra0 ra0 sbl trbl rbl st tr r :
  is_seq k = true ->
  nok sm ns -> trok (Bin k a b) sm cx trb ->
  qwf a (bin_sum k sm) sa0 -> trok (Bin k a b) sm cx tra0 ->
  qwf b (bin_sum k sm) sbl -> trok (Bin k a b) sm cx trbl ->
  b_done k a b ns sb trb ob (sa0, tra0, ra0) (sbl, trbl, rbl) = (st, tr, r) ->
  qwf (Bin k a b) sm st /\ trok (Bin k a b) sm cx tr.
Proof.
  intros Hk Hn Htb Hqa0 Hta0 Hql Htl H. unfold b_done in H.
  destruct k; try (eapply seq_final_q; eassumption).
  rewrite retry_b_done_eq in H.
  destruct (is_val ob); [|inv H; split; auto with calc].
  destruct ra0 as [oa|].
  - destruct oa; try (inv H; split; auto 6 with calc; fail).
    destruct (retry_err a b (sa0, tra0, Some (OErr e)) (sbl, trbl, rbl) (n - n_iter ns) (n_iter ns) (sbl, trbl, rbl) e)
      as [[i' p'] [[st' tr'] r']] eqn:Hr.
    destruct (retry_err_q _ _ _ _ _ _ _ _ _ _ _ Hqa0 Hta0 Hql Htl _ _ _ _ _ _ _ _ _ _ _ Hql Htl Hr) as (T & Q & N).
    eapply retry_node_q; [eassumption| |exact T|exact Q|exact N|exact H]. auto 6 with calc.
  - inv H. split; auto 6 with calc. rewrite qwf_bin. split; [|auto with calc].
    eapply nok_env; [|exact Hn]. reflexivity.
Qed.

(* ---- concurrent nodes ----------------------------------------------------------------------------- *)
Lemma conc_reap_q k c smc cx sc tr r sc' tr' r' :
  conc_reap k c (sc, tr, r) = (sc', tr', r') -> qwf c smc sc -> trok c smc cx tr ->
  qwf c smc sc' /\ trok c smc cx tr' /\ r' = r.
Proof.
  unfold conc_reap. intros H Hq Ht.
  destruct k; try (inv H; auto; fail).
  destruct r as [o|]; [destruct o|]; inv H; auto.
  split; auto with calc.
Qed.

Lemma finish_q k a b sm cx ns sa sb tr fin st tr' r :
  finish_conc k a b ns sa sb tr fin false = (st, tr', r) ->
  nok sm ns -> qwf a (bin_sum k sm) sa -> qwf b (bin_sum k sm) sb -> trok (Bin k a b) sm cx tr ->
  qwf (Bin k a b) sm st /\ trok (Bin k a b) sm cx tr'.
Proof.
  intros H Hn Ha Hb Ht. destruct fin as [o|].
  - destruct (finish_some k a b ns sa sb tr o) as (st2 & d & E & Hi & Hd). rewrite E in H. inv H.
    split; [apply qwf_inert; exact Hi|]. destruct Hd as [->| ->]; tk.
  - rewrite finish_none in H. inv H. rewrite qwf_bin. auto.
Qed.

Lemma conc_b_done_q k a b sm cx ns sa sb' tr ob st tr' r :
  is_seq k = false -> StopQ a ->
  nok sm ns -> qwf a (bin_sum k sm) sa -> qwf b (bin_sum k sm) sb' -> trok (Bin k a b) sm cx tr ->
  conc_b_done k a b ns sa sb' tr ob cx = (st, tr', r) ->
  qwf (Bin k a b) sm st /\ trok (Bin k a b) sm cx tr'.
Proof.
  intros Hk Sa Hn Ha Hb Ht H. unfold conc_b_done in H.
  destruct (conc_child_done k ns true ob) as [[ns1 newly] fin] eqn:Hc.
  apply ccd_spec in Hc. destruct Hc as (He1 & _).
  assert (Hn1 : nok sm ns1) by (eapply nok_env; eassumption).
  destruct fin as [o1|].
  - eapply finish_q; eauto.
  - destruct newly.
    + destruct (stop a sa cx) as [[sa0 tra0] ra0] eqn:Hs.
      assert (Hsp : s_sp (bin_sum k sm) = true) by (rewrite bin_sum_conc by exact Hk; reflexivity).
      destruct (Sa _ _ _ _ _ _ Hs Hsp Ha) as [Ha0 Hta0].
      destruct (conc_reap k a (sa0, tra0, ra0)) as [[sa' tra] ra] eqn:Hr.
      destruct (conc_reap_q _ _ _ _ _ _ _ _ _ _ Hr Ha0 Hta0) as (Ha' & Hta & _).
      apply (trok_bin_a k a b) in Hta.
      destruct ra as [oa|].
      * destruct (conc_child_done k ns1 false oa) as [[ns2 x] fin2] eqn:Hc2.
        apply ccd_spec in Hc2. destruct Hc2 as (He2 & _).
        eapply finish_q; eauto with calc. eapply nok_env; eassumption.
      * inv H. rewrite qwf_bin. auto with calc.
    + inv H. rewrite qwf_bin. auto.
Qed.

Lemma conc_a_done_q k a b sm cx ns sa' sb tr oa st tr' r :
  is_seq k = false -> StopQ b ->
  nok sm ns -> qwf a (bin_sum k sm) sa' -> qwf b (bin_sum k sm) sb -> trok (Bin k a b) sm cx tr ->
  conc_a_done k a b ns sa' sb tr oa cx = (st, tr', r) ->
  qwf (Bin k a b) sm st /\ trok (Bin k a b) sm cx tr'.
Proof.
  intros Hk Sb Hn Ha Hb Ht H. unfold conc_a_done in H.
  destruct (conc_child_done k ns false oa) as [[ns1 newly] fin] eqn:Hc.
  apply ccd_spec in Hc. destruct Hc as (He1 & _).
  assert (Hn1 : nok sm ns1) by (eapply nok_env; eassumption).
  destruct fin as [o1|].
  - eapply finish_q; eauto.
  - destruct newly.
    + destruct (stop b sb cx) as [[sb0 trb0] rb0] eqn:Hs.
      assert (Hsp : s_sp (bin_sum k sm) = true) by (rewrite bin_sum_conc by exact Hk; reflexivity).
      destruct (Sb _ _ _ _ _ _ Hs Hsp Hb) as [Hb0 Htb0].
      destruct (conc_reap k b (sb0, trb0, rb0)) as [[sb' trb] rb] eqn:Hr.
      destruct (conc_reap_q _ _ _ _ _ _ _ _ _ _ Hr Hb0 Htb0) as (Hb' & Htb & _).
      apply (trok_bin_b k a b) in Htb.
      destruct rb as [ob|].
      * destruct (conc_child_done k ns1 true ob) as [[ns2 x] fin2] eqn:Hc2.
        apply ccd_spec in Hc2. destruct Hc2 as (He2 & _).
        eapply finish_q; eauto with calc. eapply nok_env; eassumption.
      * inv H. rewrite qwf_bin. auto with calc.
    + inv H. rewrite qwf_bin. auto.
Qed.

Lemma start_conc_q k a b en cx st tr r :
  is_seq k = false -> StartQ a -> StopQ a -> StartQ b ->
  start_conc k a b en cx = (st, tr, r) -> good_env en ->
  qwf (Bin k a b) (summ en) st /\ trok (Bin k a b) (summ en) cx tr.
Proof.
  intros Hk Sa Pa Sb H Hg. unfold start_conc in H.
  destruct (start a (env_own en (e_stopped en)) cx) as [[sa0 tra0] ra0] eqn:Ha.
  destruct (Sa _ _ _ _ _ Ha (good_own _ _)) as [Hqa0 Hta0]. rewrite summ_own in Hqa0, Hta0.
  rewrite <- (bin_sum_conc k) in Hqa0, Hta0 by exact Hk.
  destruct (conc_reap k a (sa0, tra0, ra0)) as [[sa tra] ra] eqn:Hra.
  destruct (conc_reap_q _ _ _ _ _ _ _ _ _ _ Hra Hqa0 Hta0) as (Hqa & Hta & _).
  apply (trok_bin_a k a b) in Hta.
  destruct (match ra with
            | Some oa => conc_child_done k (conc_ns0 en) false oa
            | None => (conc_ns0 en, false, None) end) as [[ns1 x1] x2] eqn:Hm.
  assert (Hn1 : nok (summ en) ns1).
  { destruct ra.
    - apply ccd_spec in Hm. destruct Hm as (He & _). split; rewrite He; [reflexivity|exact Hg].
    - inv Hm. split; [reflexivity|exact Hg]. }
  destruct (start b (env_own en (own_stop ns1)) cx) as [[sb0 trb0] rb0] eqn:Hb.
  destruct (Sb _ _ _ _ _ Hb (good_own _ _)) as [Hqb0 Htb0]. rewrite summ_own in Hqb0, Htb0.
  rewrite <- (bin_sum_conc k) in Hqb0, Htb0 by exact Hk.
  destruct (conc_reap k b (sb0, trb0, rb0)) as [[sb trb] rb] eqn:Hrb.
  destruct (conc_reap_q _ _ _ _ _ _ _ _ _ _ Hrb Hqb0 Htb0) as (Hqb & Htb & _).
  apply (trok_bin_b k a b) in Htb.
  destruct rb as [ob|].
  - eapply conc_b_done_q; [..|exact H]; eauto with calc.
  - inv H. rewrite qwf_bin. auto with calc.
Qed.

Lemma opt_stop_q k c smc cx (d : bool) sc sc' tr r :
  StopQ c -> s_sp smc = true -> qwf c smc sc ->
  (if d then (sc, [], None) else conc_reap k c (stop c sc cx)) = (sc', tr, r) ->
  qwf c smc sc' /\ trok c smc cx tr.
Proof.
  intros P Hsp Hq H. destruct d; [inv H; auto with calc|].
  destruct (stop c sc cx) as [[s0 t0] r0] eqn:Hs.
  destruct (P _ _ _ _ _ _ Hs Hsp Hq) as [Q T].
  destruct (conc_reap_q _ _ _ _ _ _ _ _ _ _ H Q T) as (Q' & T' & _). auto.
Qed.

Lemma stop_conc_q k a b sm cx ns sa sb st' tr r :
  is_seq k = false -> StopQ a -> StopQ b ->
  s_sp sm = true -> nok sm ns -> qwf a (bin_sum k sm) sa -> qwf b (bin_sum k sm) sb ->
  stop_conc k a b ns sa sb cx = (st', tr, r) ->
  qwf (Bin k a b) sm st' /\ trok (Bin k a b) sm cx tr.
Proof.
  intros Hk Pa Pb Hsp Hn Hqa Hqb H. unfold stop_conc in H. cbv zeta in H.
  change (leaky k) with false in H.
  assert (Hsp' := bin_sum_sp k sm Hsp).
  destruct (if bdone (ns_set_own (stopped_ns ns) true) then (sb, [], None) else conc_reap k b (stop b sb cx))
    as [[sb' trb] rb] eqn:Hb.
  destruct (opt_stop_q _ _ _ _ _ _ _ _ _ Pb Hsp' Hqb Hb) as [Hqb' Htb].
  apply (trok_bin_b k a b) in Htb.
  destruct (match rb with
            | Some ob => conc_child_done k (ns_set_own (stopped_ns ns) true) true ob
            | None => (ns_set_own (stopped_ns ns) true, false, None) end) as [[ns2 x] fin1] eqn:Hm.
  assert (Hn0 : nok sm (ns_set_own (stopped_ns ns) true)).
  { apply (nok_env sm (stopped_ns ns)); [reflexivity|]. apply nok_stopped; assumption. }
  assert (Hn2 : nok sm ns2).
  { destruct rb.
    - apply ccd_spec in Hm. destruct Hm as (He & _). eapply nok_env; eassumption.
    - inv Hm. exact Hn0. }
  destruct fin1 as [o1|].
  - eapply finish_q; eauto.
  - destruct (if adone ns2 then (sa, [], None) else conc_reap k a (stop a sa cx)) as [[sa' tra] ra] eqn:Ha.
    destruct (opt_stop_q _ _ _ _ _ _ _ _ _ Pa Hsp' Hqa Ha) as [Hqa' Hta].
    apply (trok_bin_a k a b) in Hta.
    destruct (match ra with
              | Some oa => conc_child_done k ns2 false oa
              | None => (ns2, false, None) end) as [[ns3 y] fin2] eqn:Hm2.
    assert (Hn3 : nok sm ns3).
    { destruct ra.
      - apply ccd_spec in Hm2. destruct Hm2 as (He & _). eapply nok_env; eassumption.
      - inv Hm2. exact Hn2. }
    eapply finish_q; eauto with calc.
Qed.

Lemma child_ev_q thr cat c smc cx sc id oin o sc' tr r hit :
  LeafevQ c -> qwf c smc sc ->
  child_ev thr cat c sc id oin o cx = ((sc', tr, r), hit) ->
  qwf c smc sc' /\ trok c smc cx tr.
Proof.
  intros L Hq H. apply child_ev_none in H. destruct H as (oin' & ro & h & E & _).
  exact (L _ _ _ _ _ _ _ _ _ E Hq).
Qed.

Lemma opt_leafev_q k c smc cx (d : bool) sc (X : res * bool) sc' tr r hit :
  (forall s1 t1 r1 h1, X = ((s1, t1, r1), h1) -> qwf c smc s1 /\ trok c smc cx t1) -> qwf c smc sc ->
  (if d then ((sc, [], None), false) else reap_ev k c X) = ((sc', tr, r), hit) ->
  qwf c smc sc' /\ trok c smc cx tr.
Proof.
  intros L Hq H. destruct d; [inv H; auto with calc|].
  destruct X as [[[s0 t0] r0] h0] eqn:Hs.
  destruct (L _ _ _ _ eq_refl) as [Q T].
  unfold reap_ev in H. simpl in H. injection H as H Hh.
  destruct (conc_reap_q _ _ _ _ _ _ _ _ _ _ H Q T) as (Q' & T' & _). auto.
Qed.

Lemma leafev_conc_q k a b sm cx ns sa sb id o st' tr r hit :
  is_seq k = false ->
  LeafevQ a -> LeafevQ b -> StopQ a -> StopQ b ->
  nok sm ns -> qwf a (bin_sum k sm) sa -> qwf b (bin_sum k sm) sb ->
  leafev_conc k a b ns sa sb id o cx = (st', tr, r, hit) ->
  qwf (Bin k a b) sm st' /\ trok (Bin k a b) sm cx tr.
Proof.
  intros Hk La Lb Pa Pb Hn Hqa Hqb H. unfold leafev_conc in H.
  destruct (if adone ns then (sa, [], None, false)
            else reap_ev k a (child_ev (bin_throw k false) false a sa id (tmode o) o cx))
    as [[[sa' tra] ra] hita] eqn:Ha.
  destruct (opt_leafev_q k a (bin_sum k sm) cx _ _ _ _ _ _ _
              (fun s1 t1 r1 h1 E => child_ev_q _ _ _ _ _ _ _ _ _ _ _ _ _ La Hqa E) Hqa Ha) as [Hqa' Hta].
  apply (trok_bin_a k a b) in Hta.
  destruct hita.
  - destruct ra as [oa|].
    + injection H as H Hhit. eapply conc_a_done_q; [..|exact H]; eauto with calc.
    + inv H. rewrite qwf_bin. auto.
  - destruct (if bdone ns then (sb, [], None, false) else reap_ev k b (leafev b sb id (tmode o) cx))
      as [[[sb' trb] rb] hitb] eqn:Hb.
    destruct (opt_leafev_q k b (bin_sum k sm) cx _ _ _ _ _ _ _
                (fun s1 t1 r1 h1 E => Lb _ _ _ _ _ _ _ _ _ E Hqb) Hqb Hb) as [Hqb' Htb].
    apply (trok_bin_b k a b) in Htb.
    destruct rb as [ob|].
    + injection H as H Hhit. eapply conc_b_done_q; [..|exact H]; eauto with calc.
    + inv H. rewrite qwf_bin. auto.
Qed.

(* ---- the main induction --------------------------------------------------------------------------- *)
Lemma is_unst_true k : is_unst k = true -> k = UUnstoppable.
Proof. destruct k; intros H; try discriminate H; reflexivity. Qed.
Lemma un_sum_sp k sm : is_unst k = false -> s_sp sm = true -> s_sp (un_sum k sm) = true.
Proof. destruct k; intros H H2; try discriminate H; try assumption; try reflexivity. destruct q; assumption. Qed.
Lemma un_own_sp k sm : un_own k = true -> s_sp (un_sum k sm) = true.
Proof. destruct k; intros H; try discriminate H; reflexivity. Qed.

Lemma start_leaflike_q (e : sexpr) id en cx st tr r (mk : bool -> ost * option outcome) :
  (forall sm, sees e sm id sm) -> In id (leaf_ids e) -> (forall sm st, qwf e sm st) ->
  (if e_stopped en
   then (fst (mk true), [TLeafStart id true (e_stoppable en) (e_q0 en) (e_q1 en) (e_sched en) cx; TLeafStop id], snd (mk true))
   else (fst (mk false), [TLeafStart id false (e_stoppable en) (e_q0 en) (e_q1 en) (e_sched en) cx], snd (mk false)))
  = (st, tr, r) ->
  good_env en -> qwf e (summ en) st /\ trok e (summ en) cx tr.
Proof.
  intros Hsee Hin Hq H Hg. split; [apply Hq|].
  destruct (e_stopped en) eqn:Es; inv H; repeat constructor; simpl; auto; try apply (Hsee (summ en)).
  - intros Hp. apply Hg in Hp. congruence.
Qed.

Lemma all_q e : StartQ e /\ StopQ e /\ LeafevQ e.
Proof.
  induction e as [v|x| |n|id|id|id c|id lvl| |idc|k s IH|k a IHa b IHb].
  - (* Just *)
    split; [|split].
    + intros en cx st tr r H Hg. simpl in H. inv H. auto with calc.
    + intros sm cx st st' tr r H Hsp Hq. destruct st; simpl in H; inv H; auto with calc.
    + intros sm cx st i o st' tr r hit H Hq. destruct st; simpl in H; inv H; auto with calc.
  - split; [|split].
    + intros en cx st tr r H Hg. simpl in H. inv H. auto with calc.
    + intros sm cx st st' tr r H Hsp Hq. destruct st; simpl in H; inv H; auto with calc.
    + intros sm cx st i o st' tr r hit H Hq. destruct st; simpl in H; inv H; auto with calc.
  - split; [|split].
    + intros en cx st tr r H Hg. simpl in H. inv H. auto with calc.
    + intros sm cx st st' tr r H Hsp Hq. destruct st; simpl in H; inv H; auto with calc.
    + intros sm cx st i o st' tr r hit H Hq. destruct st; simpl in H; inv H; auto with calc.
  - split; [|split].
    + intros en cx st tr r H Hg. simpl in H. inv H. auto with calc.
    + intros sm cx st st' tr r H Hsp Hq. destruct st; simpl in H; inv H; auto with calc.
    + intros sm cx st i o st' tr r hit H Hq. destruct st; simpl in H; inv H; auto with calc.
  - (* Leaf *)
    split; [|split].
    + intros en cx st tr r H Hg. simpl in H.
      eapply (start_leaflike_q (Leaf id) id en cx st tr r (fun b => (OLeaf false b, None)));
        [constructor|simpl; auto|intros; destruct st0; exact I| |exact Hg].
      simpl. destruct (e_stopped en); exact H.
    + intros sm cx st st' tr r H Hsp Hq. split; [destruct st'; exact I|].
      destruct st as [|c sn| | |]; simpl in H; try (inv H; constructor).
      destruct c, sn; inv H; repeat constructor; simpl; auto.
    + intros sm cx st i o st' tr r hit H Hq. split; [destruct st'; exact I|].
      destruct st as [|c sn| | |]; simpl in H; try (inv H; constructor).
      destruct c; [inv H; constructor|]. destruct (Nat.eqb i id); inv H; constructor.
  - (* LeafN *)
    split; [|split].
    + intros en cx st tr r H Hg. simpl in H.
      eapply (start_leaflike_q (LeafN id) id en cx st tr r (fun b => (OLeaf b b, if b then Some ODone else None)));
        [constructor|simpl; auto|intros; destruct st0; exact I| |exact Hg].
      simpl. destruct (e_stopped en); exact H.
    + intros sm cx st st' tr r H Hsp Hq. split; [destruct st'; exact I|].
      destruct st as [|c sn| | |]; simpl in H; try (inv H; constructor).
      destruct c, sn; inv H; repeat constructor; simpl; auto.
    + intros sm cx st i o st' tr r hit H Hq. split; [destruct st'; exact I|].
      destruct st as [|c sn| | |]; simpl in H; try (inv H; constructor).
      destruct c; [inv H; constructor|]. destruct (Nat.eqb i id); inv H; constructor.
  - (* Sched *)
    split; [|split].
    + intros en cx st tr r H Hg. simpl in H. inv H. split; [exact I|]. repeat constructor; simpl; auto.
    + intros sm cx st st' tr r H Hsp Hq. split; [destruct st'; exact I|].
      destruct st as [|cc sn| | |]; simpl in H; try (inv H; constructor).
      destruct cc, sn; inv H; repeat constructor; simpl; auto.
    + intros sm cx st i o st' tr r hit H Hq. split; [destruct st'; exact I|].
      destruct st as [|cc sn| | |]; simpl in H; try (inv H; constructor).
      destruct cc; [inv H; constructor|]. destruct (Nat.eqb i id); inv H; constructor.
  - (* LeafR *)
    split; [|split].
    + intros en cx st tr r H Hg. simpl in H.
      eapply (start_leaflike_q (LeafR id lvl) id en cx st tr r (fun b => (OLeaf false b, None)));
        [constructor|simpl; auto|intros; destruct st0; exact I| |exact Hg].
      simpl. destruct (e_stopped en); exact H.
    + intros sm cx st st' tr r H Hsp Hq. split; [destruct st'; exact I|].
      destruct st as [|c sn| | |]; simpl in H; try (inv H; constructor).
      destruct c, sn; inv H; repeat constructor; simpl; auto.
    + intros sm cx st i o st' tr r hit H Hq. split; [destruct st'; exact I|].
      destruct st as [|c sn| | |vv]; simpl in H; try (inv H; constructor).
      * destruct c; [inv H; constructor|]. destruct (Nat.eqb i id) eqn:E; [|inv H; constructor].
        apply Nat.eqb_eq in E. subst i.
        destruct o; inv H; repeat constructor; simpl; auto.
      * destruct (Nat.eqb i id); inv H; constructor.
  - (* StopIf *)
    split; [|split].
    + intros en cx st tr r H Hg. simpl in H. inv H. auto with calc.
    + intros sm cx st st' tr r H Hsp Hq. destruct st; simpl in H; inv H; auto with calc.
    + intros sm cx st i o st' tr r hit H Hq. destruct st; simpl in H; inv H; auto with calc.
  - (* LeafC *)
    split; [|split].
    + intros en cx st tr r H Hg. simpl in H. inv H. auto with calc.
    + intros sm cx st st' tr r H Hsp Hq. destruct st; simpl in H; inv H; auto with calc.
    + intros sm cx st i o st' tr r hit H Hq. destruct st; simpl in H; inv H; auto with calc.
  - (* Un *)
    destruct IH as (Ss & Ps & Ls). split; [|split].
    + intros en cx st tr r H Hg. rewrite start_un in H.
      destruct (sthrows (Un k s)); [unfold start_thrown in H; injection H as <- <- <-; split; [apply qwf_fin|exact (trok_sconn (Un k s) (summ en) cx (e_alloc en))]|].
      destruct (start s (un_env k en) cx) as [[sc tr1] r1] eqn:Hs.
      destruct (Ss _ _ _ _ _ Hs (good_un k en Hg)) as [Hq Ht]. rewrite summ_un in Hq, Ht.
      apply trok_un in Ht.
      assert (Htp : trok (Un k s) (summ en) cx (un_pre k en ++ tr1)) by auto with calc.
      destruct r1 as [o1|].
      * eapply un_fin_q; [apply nok_un_nst; exact Hg|exact Hq|exact Htp|exact Ht|exact Hq|exact H].
      * inv H. rewrite qwf_un. split; auto. split; [apply nok_un_nst; exact Hg|exact Hq].
    + intros sm cx st st' tr r H Hsp Hq.
      destruct st as [|c sn|ns sc sb|sa sb|vv];
        [rewrite stop_fin in H; inv H; auto with calc
        |simpl in H; inv H; auto with calc
        |
        |rewrite stop_inert_st in H by exact I; inv H; auto with calc
        |simpl in H; inv H; auto with calc].
      rewrite qwf_un in Hq. destruct Hq as [Hn Hq].
      destruct (is_unst k) eqn:Hk.
      * apply is_unst_true in Hk. subst k. rewrite stop_un_unst in H. inv H.
        rewrite qwf_un. auto with calc.
      * rewrite stop_un in H by exact Hk. unfold stop_un_body in H.
        assert (Hns : nok sm (stopped_ns ns)) by (apply nok_stopped; assumption).
        destruct (un_own k && own_stop ns)%bool.
        { inv H. rewrite qwf_un. auto with calc. }
        set (ns2 := if un_own k then ns_set_own (stopped_ns ns) true else stopped_ns ns) in H.
        assert (Hn2 : nok sm ns2).
        { unfold ns2. destruct (un_own k); [eapply nok_env; [|exact Hns]; reflexivity|exact Hns]. }
        clearbody ns2.
        destruct (stop s sc cx) as [[sc' tr1] r1] eqn:Hs.
        assert (Hsp' : s_sp (un_sum k sm) = true) by (apply un_sum_sp; assumption).
        destruct (Ps _ _ _ _ _ _ Hs Hsp' Hq) as [Hq' Ht]. apply trok_un in Ht.
        destruct r1 as [o1|].
        -- destruct (start s (un_env k (n_env ns2)) cx) as [[sc0 tr0] rr0] eqn:H0.
           destruct Hn2 as [Hs2 Hg2].
           destruct (Ss _ _ _ _ _ H0 (good_un k _ Hg2)) as [Hq0 Ht0]. rewrite summ_un, Hs2 in Hq0, Ht0.
           apply trok_un in Ht0.
           eapply un_fin_q; [split; eassumption|exact Hq'|exact Ht|exact Ht0|exact Hq0|exact H].
        -- inv H. rewrite qwf_un. auto.
    + intros sm cx st i o st' tr r hit H Hq.
      destruct st as [|c sn|ns sc sb|sa sb|vv];
        [rewrite leafev_fin in H; inv H; auto with calc
        |simpl in H; inv H; auto with calc
        |
        |rewrite leafev_inert_st in H by exact I; inv H; auto with calc
        |simpl in H; inv H; auto with calc].
      rewrite qwf_un in Hq. destruct Hq as [Hn Hq].
      rewrite leafev_un in H. unfold leafev_un_body in H.
      destruct (child_ev (un_throw k) (un_catch k) s sc i (un_in k o) o cx) as [[[sc' tr1] r1] h1] eqn:Hs.
      destruct (child_ev_q _ _ _ _ _ _ _ _ _ _ _ _ _ Ls Hq Hs) as [Hq' Ht]. apply trok_un in Ht.
      destruct r1 as [o1|].
      * injection H as H Hh.
        destruct (start s (un_env k (n_env ns)) cx) as [[sc0 tr0] rr0] eqn:H0.
        destruct Hn as [Hs2 Hg2].
        destruct (Ss _ _ _ _ _ H0 (good_un k _ Hg2)) as [Hq0 Ht0]. rewrite summ_un, Hs2 in Hq0, Ht0.
        apply trok_un in Ht0.
        eapply un_fin_q; [split; eassumption|exact Hq'|exact Ht|exact Ht0|exact Hq0|exact H].
      * destruct (un_own k && fired (e_ss (n_env ns)) tr1)%bool eqn:Hf.
        2:{ inv H. rewrite qwf_un. auto. }
        apply andb_true_iff in Hf. destruct Hf as [Hown _].
        unfold fired_body in H.
        destruct (if own_stop ns then (ns, (sc', [], None)) else (ns_set_own ns true, stop s sc' cx))
          as [ns1 [[sc1 tr2] r2]] eqn:Hm.
        assert (Hm' : nok sm ns1 /\ qwf s (un_sum k sm) sc1 /\ trok (Un k s) sm cx tr2).
        { destruct (own_stop ns).
          - inv Hm. auto with calc.
          - destruct (stop s sc' cx) as [[sc1' tr2'] r2'] eqn:Hst. inv Hm.
            destruct (Ps _ _ _ _ _ _ Hst (un_own_sp k sm Hown) Hq') as [Q T].
            split; [eapply nok_env; [|exact Hn]; reflexivity|]. split; [exact Q|apply trok_un; exact T]. }
        destruct Hm' as (Hn1 & Hq1 & Ht2).
        destruct r2 as [oc|].
        -- injection H as H Hh. eapply un_done_q; [exact H|]. tk.
        -- destruct (leafev s sc1 i o cx) as [[[sc3 tr3] r3] h3] eqn:Hs3.
           destruct (Ls _ _ _ _ _ _ _ _ _ Hs3 Hq1) as [Hq3 Ht3]. apply trok_un in Ht3.
           destruct r3 as [oc|].
           ++ injection H as H Hh. eapply un_done_q; [exact H|]. tk.
           ++ inv H. rewrite qwf_un. split; [auto|tk].
  - (* Bin *)
    destruct IHa as (Sa & Pa & La). destruct IHb as (Sb & Pb & Lb).
    destruct (is_seq k) eqn:Hk.
    + split; [|split].
      * intros en cx st tr r H Hg. rewrite start_bin_seq in H by exact Hk.
        destruct (sthrows (Bin k a b)); [unfold start_thrown in H; injection H as <- <- <-; split; [apply qwf_fin|exact (trok_sconn (Bin k a b) (summ en) cx (e_alloc en))]|]. unfold start_seq in H.
        destruct (start a en cx) as [[sa tra] ra] eqn:Ha.
        destruct (Sa _ _ _ _ _ Ha Hg) as [Hqa Hta].
        rewrite <- (bin_sum_seq k (summ en) Hk) in Hqa, Hta. apply (trok_bin_a k a b) in Hta.
        destruct ra as [oa|].
        -- destruct (rbe_of b en oa cx) as [[sbl trbl] rbl] eqn:Hrb.
           destruct (rbe_of_q k a b _ _ _ _ _ _ Hk Sb Hg Hrb) as [Ql Tl].
           eapply a_done_q with (ns := mk_nst PFirst en);
             [exact Hk|exact Sb|split; [reflexivity|exact Hg]|exact Hta|exact Hqa|exact Hta|exact Ql|exact Tl|exact H].
        -- inv H. rewrite qwf_bin. split; auto.
           split; [split; [reflexivity|exact Hg]|]. split; auto with calc.
      * intros sm cx st st' tr r H Hsp Hq.
        destruct st as [|c sn|ns sa sb|sa sb|vv];
          [rewrite stop_fin in H; inv H; auto with calc
          |simpl in H; inv H; auto with calc
          |
          |rewrite stop_inert_st in H by exact I; inv H; auto with calc
          |simpl in H; inv H; auto with calc].
        rewrite qwf_bin in Hq. destruct Hq as (Hn & Hqa & Hqb).
        assert (Hsp' := bin_sum_sp k sm Hsp).
        assert (Hns : nok sm (stopped_ns ns)) by (apply nok_stopped; assumption).
        rewrite stop_bin, Hk in H.
        assert (R0 : forall sa0 tra0 ra0 sbl trbl rbl,
                   start a (n_env (stopped_ns ns)) cx = (sa0, tra0, ra0) ->
                   r0bl_of b (n_env (stopped_ns ns)) (sa0, tra0, ra0) cx = (sbl, trbl, rbl) ->
                   qwf a (bin_sum k sm) sa0 /\ trok (Bin k a b) sm cx tra0 /\
                   qwf b (bin_sum k sm) sbl /\ trok (Bin k a b) sm cx trbl).
        { intros sa0 tra0 ra0 sbl trbl rbl E1 E2. destruct Hns as [Hs2 Hg2].
          destruct (Sa _ _ _ _ _ E1 Hg2) as [Q T]. rewrite Hs2 in Q, T.
          rewrite <- (bin_sum_seq k sm Hk) in Q, T. apply (trok_bin_a k a b) in T.
          destruct (r0bl_of_q k a b _ _ _ _ _ _ Hk Sb Hg2 E2) as [Q2 T2]. rewrite Hs2 in Q2, T2. auto. }
        destruct (ph ns).
        -- unfold stop_seq1 in H. destruct (stop a sa cx) as [[sa' tra] ra] eqn:Ha.
           destruct (Pa _ _ _ _ _ _ Ha Hsp' Hqa) as [Hqa' Hta]. apply (trok_bin_a k a b) in Hta.
           destruct ra as [oa|].
           ++ destruct (start a (n_env (stopped_ns ns)) cx) as [[sa0 tra0] ra0] eqn:E1.
              destruct (r0bl_of b (n_env (stopped_ns ns)) (sa0, tra0, ra0) cx) as [[sbl trbl] rbl] eqn:E2.
              destruct (R0 _ _ _ _ _ _ eq_refl E2) as (Q1 & T1 & Q2 & T2).
              eapply a_done_q; [exact Hk|exact Sb|exact Hns|exact Hta|exact Q1|exact T1|exact Q2|exact T2|exact H].
           ++ inv H. rewrite qwf_bin. auto.
        -- unfold stop_seq2 in H. destruct (stop b sb cx) as [[sb' trb] rb] eqn:Hb.
           destruct (Pb _ _ _ _ _ _ Hb Hsp' Hqb) as [Hqb' Htb]. apply (trok_bin_b k a b) in Htb.
           destruct rb as [ob|].
           ++ destruct (start a (n_env (stopped_ns ns)) cx) as [[sa0 tra0] ra0] eqn:E1.
              destruct (r0bl_of b (n_env (stopped_ns ns)) (sa0, tra0, ra0) cx) as [[sbl trbl] rbl] eqn:E2.
              destruct (R0 _ _ _ _ _ _ eq_refl E2) as (Q1 & T1 & Q2 & T2).
              eapply b_done_q; [exact Hk|exact Hns|exact Htb|exact Q1|exact T1|exact Q2|exact T2|exact H].
           ++ inv H. rewrite qwf_bin. auto.
        -- unfold stop_seq2 in H. destruct (stop b sb cx) as [[sb' trb] rb] eqn:Hb.
           destruct (Pb _ _ _ _ _ _ Hb Hsp' Hqb) as [Hqb' Htb]. apply (trok_bin_b k a b) in Htb.
           destruct rb as [ob|].
           ++ destruct (start a (n_env (stopped_ns ns)) cx) as [[sa0 tra0] ra0] eqn:E1.
              destruct (r0bl_of b (n_env (stopped_ns ns)) (sa0, tra0, ra0) cx) as [[sbl trbl] rbl] eqn:E2.
              destruct (R0 _ _ _ _ _ _ eq_refl E2) as (Q1 & T1 & Q2 & T2).
              eapply b_done_q; [exact Hk|exact Hns|exact Htb|exact Q1|exact T1|exact Q2|exact T2|exact H].
           ++ inv H. rewrite qwf_bin. auto.
      * intros sm cx st i o st' tr r hit H Hq.
        destruct st as [|c sn|ns sa sb|sa sb|vv];
          [rewrite leafev_fin in H; inv H; auto with calc
          |simpl in H; inv H; auto with calc
          |
          |rewrite leafev_inert_st in H by exact I; inv H; auto with calc
          |simpl in H; inv H; auto with calc].
        rewrite qwf_bin in Hq. destruct Hq as (Hn & Hqa & Hqb).
        rewrite leafev_bin_seq in H by exact Hk.
        assert (R0 : forall sa0 tra0 ra0 sbl trbl rbl,
                   start a (n_env ns) cx = (sa0, tra0, ra0) ->
                   r0bl_of b (n_env ns) (sa0, tra0, ra0) cx = (sbl, trbl, rbl) ->
                   qwf a (bin_sum k sm) sa0 /\ trok (Bin k a b) sm cx tra0 /\
                   qwf b (bin_sum k sm) sbl /\ trok (Bin k a b) sm cx trbl).
        { intros sa0 tra0 ra0 sbl trbl rbl E1 E2. destruct Hn as [Hs2 Hg2].
          destruct (Sa _ _ _ _ _ E1 Hg2) as [Q T]. rewrite Hs2 in Q, T.
          rewrite <- (bin_sum_seq k sm Hk) in Q, T. apply (trok_bin_a k a b) in T.
          destruct (r0bl_of_q k a b _ _ _ _ _ _ Hk Sb Hg2 E2) as [Q2 T2]. rewrite Hs2 in Q2, T2. auto. }
        destruct (ph ns).
        -- unfold leafev_seq1 in H.
           destruct (child_ev (bin_throw k false) (bin_catch k false) a sa i (bin_in k false o) o cx)
             as [[[sa' tra] ra] h1] eqn:Ha.
           destruct (child_ev_q _ _ _ _ _ _ _ _ _ _ _ _ _ La Hqa Ha) as [Hqa' Hta]. apply (trok_bin_a k a b) in Hta.
           destruct ra as [oa|].
           ++ injection H as H Hh.
              destruct (start a (n_env ns) cx) as [[sa0 tra0] ra0] eqn:E1.
              destruct (r0bl_of b (n_env ns) (sa0, tra0, ra0) cx) as [[sbl trbl] rbl] eqn:E2.
              destruct (R0 _ _ _ _ _ _ eq_refl E2) as (Q1 & T1 & Q2 & T2).
              eapply a_done_q; [exact Hk|exact Sb|exact Hn|exact Hta|exact Q1|exact T1|exact Q2|exact T2|exact H].
           ++ inv H. rewrite qwf_bin. auto.
        -- unfold leafev_seq2 in H.
           destruct (child_ev (bin_throw k true) (bin_catch k true) b sb i (bin_in k true o) o cx)
             as [[[sb' trb] rb] h1] eqn:Hb.
           destruct (child_ev_q _ _ _ _ _ _ _ _ _ _ _ _ _ Lb Hqb Hb) as [Hqb' Htb]. apply (trok_bin_b k a b) in Htb.
           destruct rb as [ob|].
           ++ injection H as H Hh.
              destruct (start a (n_env ns) cx) as [[sa0 tra0] ra0] eqn:E1.
              destruct (r0bl_of b (n_env ns) (sa0, tra0, ra0) cx) as [[sbl trbl] rbl] eqn:E2.
              destruct (R0 _ _ _ _ _ _ eq_refl E2) as (Q1 & T1 & Q2 & T2).
              eapply b_done_q; [exact Hk|exact Hn|exact Htb|exact Q1|exact T1|exact Q2|exact T2|exact H].
           ++ inv H. rewrite qwf_bin. auto.
        -- unfold leafev_seq2 in H.
           destruct (child_ev (bin_throw k true) (bin_catch k true) b sb i (bin_in k true o) o cx)
             as [[[sb' trb] rb] h1] eqn:Hb.
           destruct (child_ev_q _ _ _ _ _ _ _ _ _ _ _ _ _ Lb Hqb Hb) as [Hqb' Htb]. apply (trok_bin_b k a b) in Htb.
           destruct rb as [ob|].
           ++ injection H as H Hh.
              destruct (start a (n_env ns) cx) as [[sa0 tra0] ra0] eqn:E1.
              destruct (r0bl_of b (n_env ns) (sa0, tra0, ra0) cx) as [[sbl trbl] rbl] eqn:E2.
              destruct (R0 _ _ _ _ _ _ eq_refl E2) as (Q1 & T1 & Q2 & T2).
              eapply b_done_q; [exact Hk|exact Hn|exact Htb|exact Q1|exact T1|exact Q2|exact T2|exact H].
           ++ inv H. rewrite qwf_bin. auto.
    + split; [|split].
      * intros en cx st tr r H Hg. rewrite start_bin_conc in H by exact Hk.
        destruct (sthrows (Bin k a b)); [unfold start_thrown in H; injection H as <- <- <-; split; [apply qwf_fin|exact (trok_sconn (Bin k a b) (summ en) cx (e_alloc en))]|].
        eapply start_conc_q; [..|exact H|exact Hg]; eauto with calc.
      * intros sm cx st st' tr r H Hsp Hq.
        destruct st as [|c sn|ns sa sb|sa sb|vv];
          [rewrite stop_fin in H; inv H; auto with calc
          |simpl in H; inv H; auto with calc
          |
          |rewrite stop_inert_st in H by exact I; inv H; auto with calc
          |simpl in H; inv H; auto with calc].
        rewrite qwf_bin in Hq. destruct Hq as (Hn & Hqa & Hqb).
        rewrite stop_bin, Hk in H.
        destruct (own_stop ns).
        -- inv H. rewrite qwf_bin. split; auto with calc. split; [apply nok_stopped; assumption|]. auto.
        -- eapply stop_conc_q; [..|exact H]; eauto with calc.
      * intros sm cx st i o st' tr r hit H Hq.
        destruct st as [|c sn|ns sa sb|sa sb|vv];
          [rewrite leafev_fin in H; inv H; auto with calc
          |simpl in H; inv H; auto with calc
          |
          |rewrite leafev_inert_st in H by exact I; inv H; auto with calc
          |simpl in H; inv H; auto with calc].
        rewrite qwf_bin in Hq. destruct Hq as (Hn & Hqa & Hqb).
        rewrite leafev_bin_conc in H by exact Hk.
        eapply leafev_conc_q; [..|exact H]; eauto with calc.
Qed.

Lemma start_q e : StartQ e. Proof. exact (proj1 (all_q e)). Qed.
Lemma stop_q e : StopQ e. Proof. exact (proj1 (proj2 (all_q e))). Qed.
Lemma leafev_q e : LeafevQ e. Proof. exact (proj2 (proj2 (all_q e))). Qed.

(* ================================================================================================ *)
(* Part 3: whole runs                                                                               *)
(* ================================================================================================ *)
Definition root_sum : qsum := (0, 0, true, 0%nat).

(* the context a script event is delivered on *)
Definition ctx_of (ev : sev) : nat :=
  match ev with EvLeaf _ _ cx => cx | EvStop cx => cx | EvRun c => c end.

(* an event of the batch produced by one call on context c *)
Definition xokc (e : sexpr) (c : nat) (x : xev) : Prop :=
  match x with
  | XT t => evok e root_sum c t
  | XRoot _ n cx => n = O /\ cx = c
  | XSkip => True
  | XRootDtor => True
  | XConnectThrow => True
  end.
Definition xok (e : sexpr) (x : xev) : Prop := exists c, xokc e c x.

Definition qok (e : sexpr) (q : list (nat * nat)) : Prop := forall c i, In (c, i) q -> In (i, c) (scheds e).

Definition IQ (e : sexpr) (rs : run_state) : Prop :=
  qwf e root_sum (r_st rs) /\ Forall (xok e) (r_tr rs) /\ qok e (r_queue rs).

Lemma no_root_leak e l : Forall (xok e) l -> filter is_root_leak l = [].
Proof.
  induction 1 as [|x l Hx Hl IH]; simpl; [reflexivity|].
  destruct x as [t| | | |]; simpl; auto. destruct t; simpl; auto. destruct root; [|auto].
  destruct Hx as [c Hx]. contradiction Hx.
Qed.

Lemma Forall_map_XT e c tr : trok e root_sum c tr -> Forall (xokc e c) (map XT tr).
Proof. induction 1; simpl; constructor; auto. Qed.
Lemma xokc_xok e c l : Forall (xokc e c) l -> Forall (xok e) l.
Proof. apply Forall_impl. intros x H. exists c. exact H. Qed.

Lemma enqueued_in tr c i : In (c, i) (enqueued tr) -> In (TSchedStart i c) tr.
Proof.
  induction tr as [|t tr IH]; simpl; [tauto|].
  destruct t; simpl; try (intros H; right; auto; fail).
  intros [H|H]; [inv H; auto|auto].
Qed.
Lemma dequeue_in c q i q' : dequeue c q = Some (i, q') -> In (c, i) q /\ forall x, In x q' -> In x q.
Proof.
  revert i q'. induction q as [|[c' id] q IH]; simpl; intros i q' H; [discriminate|].
  destruct (Nat.eqb c c') eqn:E.
  - apply Nat.eqb_eq in E. inv H. auto.
  - destruct (dequeue c q) as [[i2 r2]|]; [|discriminate]. inv H.
    destruct (IH _ _ eq_refl) as [H1 H2]. split; auto. intros x [->|Hx]; simpl; auto.
Qed.

(* one call: the batch it appends *)
Lemma absorb_q e rs st tr o cx :
  IQ e rs -> qwf e root_sum st -> trok e root_sum cx tr ->
  IQ e (absorb rs (st, tr, o) cx) /\
  exists d, r_tr (absorb rs (st, tr, o) cx) = r_tr rs ++ d /\ Forall (xokc e cx) d /\
            d = map XT tr ++ match o with Some oc => [XRoot oc 0 cx] | None => [] end.
Proof.
  unfold IQ, absorb. intros (H1 & H2 & H3) Hq Ht.
  assert (Hd : Forall (xokc e cx) (map XT tr)) by (apply Forall_map_XT; exact Ht).
  assert (Hall : Forall (xok e) (r_tr rs ++ map XT tr)).
  { apply Forall_app. split; [exact H2|]. eapply xokc_xok. exact Hd. }
  assert (Hq' : qok e (r_queue rs ++ enqueued tr)).
  { intros c i Hin. apply in_app_or in Hin. destruct Hin as [Hin|Hin]; [auto|].
    apply enqueued_in in Hin. unfold trok in Ht. rewrite Forall_forall in Ht. exact (Ht _ Hin). }
  destruct o as [oc|]; simpl.
  - rewrite (no_root_leak e _ Hall). simpl. split.
    + split; [exact Hq|]. split; [|exact Hq'].
      apply Forall_app. split; [exact Hall|]. constructor; [|constructor]. exists cx. simpl. auto.
    + exists (map XT tr ++ [XRoot oc 0 cx]). split; [rewrite app_assoc; reflexivity|]. split; [|reflexivity].
      apply Forall_app. split; [exact Hd|]. constructor; [|constructor]. simpl. auto.
  - split; [auto|]. exists (map XT tr). rewrite app_nil_r. auto.
Qed.

Lemma good_root pre : good_env (root_env pre).
Proof. unfold good_env. simpl. discriminate. Qed.

Lemma run_start_q e pre :
  IQ e (run_start e pre) /\ Forall (xokc e 0%nat) (r_tr (run_start e pre)).
Proof.
  unfold run_start. destruct (cthrows e).
  { assert (Hc : Forall (xokc e 0%nat) (map XT (fst (conn e 0)) ++ [XConnectThrow])).
    { apply Forall_app. split; [|repeat constructor]. apply Forall_map_XT.
      eapply trok_aev. apply conn_aev. }
    split; [|exact Hc]. split; [apply qwf_fin|]. split; [eapply xokc_xok; exact Hc|]. intros c i []. }
  destruct (start e (root_env pre) 0) as [[st tr] r] eqn:H.
  destruct (start_q e _ _ _ _ _ H (good_root pre)) as [Hq Ht].
  change (summ (root_env pre)) with root_sum in Hq, Ht.
  assert (I0 : IQ e {| r_st := OFin; r_stopped := pre; r_roots := 0; r_tr := []; r_queue := [] |}).
  { split; [apply qwf_fin|]. split; [constructor|]. intros c i []. }
  destruct (absorb_q e _ st tr r 0%nat I0 Hq Ht) as [HI (d & E & Hd & _)].
  split; [exact HI|]. rewrite E. simpl. exact Hd.
Qed.

Definition skip_like (rs rs' : run_state) : Prop :=
  r_st rs' = r_st rs /\ r_tr rs' = r_tr rs ++ [XSkip] /\ (forall x, In x (r_queue rs') -> In x (r_queue rs)).

(* one script event: the state changes by one call of leafev / stop on the event's context *)
Inductive step_kind (e : sexpr) (rs rs' : run_state) (ev : sev) : Prop :=
| sk_skip : skip_like rs rs' -> step_kind e rs rs' ev
| sk_leaf id o st tr r :
    (ev = EvLeaf id o (ctx_of ev) \/ (ev = EvRun (ctx_of ev) /\ In (ctx_of ev, id) (r_queue rs) /\ o = OVal 0)) ->
    leafev e (r_st rs) id o (ctx_of ev) = (st, tr, r, true) ->
    r_st rs' = st ->
    r_tr rs' = r_tr rs ++ map XT tr ++ match r with Some oc => [XRoot oc 0 (ctx_of ev)] | None => [] end ->
    step_kind e rs rs' ev
| sk_stop st tr r :
    ev = EvStop (ctx_of ev) -> r_stopped rs = false ->
    stop e (r_st rs) (ctx_of ev) = (st, tr, r) ->
    r_st rs' = st ->
    r_tr rs' = r_tr rs ++ map XT tr ++ match r with Some oc => [XRoot oc 0 (ctx_of ev)] | None => [] end ->
    step_kind e rs rs' ev.

Lemma run_ev_q e rs ev :
  IQ e rs ->
  IQ e (run_ev e rs ev) /\
  (exists d, r_tr (run_ev e rs ev) = r_tr rs ++ d /\ Forall (xokc e (ctx_of ev)) d) /\
  step_kind e rs (run_ev e rs ev) ev.
Proof.
  intros HI. destruct ev as [id o cx|cx|c]; simpl.
  - destruct (leafev e (r_st rs) id o cx) as [[[st tr] r] hit] eqn:H.
    destruct (leafev_q e root_sum _ _ _ _ _ _ _ _ H (proj1 HI)) as [Hq Ht].
    destruct hit.
    + destruct (absorb_q e rs st tr r cx HI Hq Ht) as [HI' (d & E & Hd & Ed)].
      split; [exact HI'|]. split; [eauto|].
      eapply sk_leaf; [left; reflexivity|exact H|destruct r; reflexivity|].
      rewrite E, Ed. reflexivity.
    + destruct HI as (H1 & H2 & H3). split; [|split].
      * split; [exact H1|]. split; [|exact H3]. simpl. apply Forall_app. split; auto.
        repeat constructor. exists 0%nat. exact I.
      * exists [XSkip]. split; [reflexivity|]. repeat constructor.
      * apply sk_skip. split; [reflexivity|]. split; [reflexivity|auto].
  - destruct (r_stopped rs) eqn:Est.
    + destruct HI as (H1 & H2 & H3). split; [|split].
      * split; [exact H1|]. split; [|exact H3]. simpl. apply Forall_app. split; auto.
        repeat constructor. exists 0%nat. exact I.
      * exists [XSkip]. split; [reflexivity|]. repeat constructor.
      * apply sk_skip. split; [reflexivity|]. split; [reflexivity|auto].
    + destruct (stop e (r_st rs) cx) as [[st tr] r] eqn:H.
      destruct (stop_q e root_sum _ _ _ _ _ H eq_refl (proj1 HI)) as [Hq Ht].
      set (rs0 := {| r_st := r_st rs; r_stopped := true; r_roots := r_roots rs; r_tr := r_tr rs; r_queue := r_queue rs |}).
      assert (HI0 : IQ e rs0) by exact HI.
      destruct (absorb_q e rs0 st tr r cx HI0 Hq Ht) as [HI' (d & E & Hd & Ed)].
      split; [exact HI'|]. split; [exists d; split; [exact E|exact Hd]|].
      eapply sk_stop; [reflexivity|exact Est|exact H|destruct r; reflexivity|].
      rewrite E, Ed. reflexivity.
  - destruct (dequeue c (r_queue rs)) as [[id q']|] eqn:Hdq.
    + apply dequeue_in in Hdq. destruct Hdq as [Hin Hsub].
      set (rs0 := {| r_st := r_st rs; r_stopped := r_stopped rs; r_roots := r_roots rs; r_tr := r_tr rs; r_queue := q' |}).
      assert (HI0 : IQ e rs0).
      { destruct HI as (H1 & H2 & H3). split; [exact H1|]. split; [exact H2|].
        intros c' i Hi. apply H3. apply Hsub. exact Hi. }
      destruct (leafev e (r_st rs) id (OVal 0) c) as [[[st tr] r] hit] eqn:H.
      destruct (leafev_q e root_sum _ _ _ _ _ _ _ _ H (proj1 HI)) as [Hq Ht].
      destruct hit.
      * destruct (absorb_q e rs0 st tr r c HI0 Hq Ht) as [HI' (d & E & Hd & Ed)].
        split; [exact HI'|]. split; [exists d; split; [exact E|exact Hd]|].
        eapply sk_leaf; [right; split; [reflexivity|split; [exact Hin|reflexivity]]|exact H|destruct r; reflexivity|].
        rewrite E, Ed. reflexivity.
      * destruct HI0 as (H1 & H2 & H3). split; [|split].
        -- split; [exact H1|]. split; [|exact H3]. simpl. apply Forall_app. split; auto.
           repeat constructor. exists 0%nat. exact I.
        -- exists [XSkip]. split; [reflexivity|]. repeat constructor.
        -- apply sk_skip. split; [reflexivity|]. split; [reflexivity|]. simpl. auto.
    + destruct HI as (H1 & H2 & H3). split; [|split].
      * split; [exact H1|]. split; [|exact H3]. simpl. apply Forall_app. split; auto.
        repeat constructor. exists 0%nat. exact I.
      * exists [XSkip]. split; [reflexivity|]. repeat constructor.
      * apply sk_skip. split; [reflexivity|]. split; [reflexivity|auto].
Qed.

Theorem run_q e pre script : IQ e (run e pre script).
Proof.
  apply run_invariant; [apply run_start_q|]. intros rs ev H. apply run_ev_q. exact H.
Qed.

(* the events the owner's destruction of the root operation appends *)
Lemma exec_tr e pre script :
  exists tl, r_tr (exec e pre script) = r_tr (run e pre script) ++ tl /\
             Forall (fun x => x = XRootDtor \/ exists t, x = XT t /\ In t (dtor e (r_st (run e pre script)))) tl.
Proof.
  rewrite exec_run. unfold run_end. destruct (r_roots (run e pre script)).
  - exists []. rewrite app_nil_r. split; [reflexivity|constructor].
  - eexists. split; [reflexivity|]. constructor; [auto|].
    rewrite Forall_forall. intros x Hx. apply in_map_iff in Hx. destruct Hx as (t & <- & Ht). eauto.
Qed.

(* every event of a run concerns a leaf / schedule operation of the expression with the statically determined
   query answers; no TLeak; the root completes with no registration left on its token *)
Theorem run_events_ok e pre script : Forall (xok e) (r_tr (exec e pre script)).
Proof.
  destruct (exec_tr e pre script) as (tl & -> & Htl).
  apply Forall_app. split; [exact (proj1 (proj2 (run_q e pre script)))|].
  eapply Forall_impl; [|exact Htl]. intros x [->|(t & -> & Ht)]; exists 0%nat; [exact I|].
  pose proof (dtor_ok e root_sum 0%nat (r_st (run e pre script))) as Hd.
  unfold trok in Hd. rewrite Forall_forall in Hd. exact (Hd _ Ht).
Qed.

Definition is_dtor_ev (t : tev) : Prop :=
  match t with TLeafDtor _ | TSchedDtor _ | TFree _ => True | _ => False end.
Lemma dtor_only e : forall st, Forall is_dtor_ev (dtor e st).
Proof.
  induction e; intros st; destruct st; simpl; try (constructor; simpl; auto; fail);
    try (destruct k; simpl; try constructor; auto; try (apply Forall_app; split; [auto|repeat constructor]); fail).
  - destruct (dtor_b_first k); apply Forall_app; auto.
  - destruct (dtor_b_first k); apply Forall_app; auto.
Qed.

(* leaf starts and root completions of [exec] are those of the script part *)
Lemma exec_in_start e pre script id s sp a b sch cx :
  In (XT (TLeafStart id s sp a b sch cx)) (r_tr (exec e pre script)) ->
  In (XT (TLeafStart id s sp a b sch cx)) (r_tr (run e pre script)).
Proof.
  destruct (exec_tr e pre script) as (tl & -> & Htl). intros H. apply in_app_or in H.
  destruct H as [H|H]; [exact H|]. rewrite Forall_forall in Htl.
  destruct (Htl _ H) as [E|(t & E & Ht)]; [discriminate|]. inv E.
  pose proof (dtor_only e (r_st (run e pre script))) as Hd. rewrite Forall_forall in Hd.
  exact (match Hd _ Ht with end).
Qed.
Lemma exec_in_root e pre script o n cx :
  In (XRoot o n cx) (r_tr (exec e pre script)) -> In (XRoot o n cx) (r_tr (run e pre script)).
Proof.
  destruct (exec_tr e pre script) as (tl & -> & Htl). intros H. apply in_app_or in H.
  destruct H as [H|H]; [exact H|]. rewrite Forall_forall in Htl.
  destruct (Htl _ H) as [E|(t & E & Ht)]; discriminate.
Qed.

(* C12, relational form, for ALL expressions and scripts *)
Theorem queries_sees e pre script id st sp a b sch cx :
  In (XT (TLeafStart id st sp a b sch cx)) (r_tr (exec e pre script)) ->
  sees e root_sum id (a, b, sp, sch) /\ (sp = false -> st = false).
Proof.
  intros H. pose proof (run_events_ok e pre script) as HF.
  rewrite Forall_forall in HF. destruct (HF _ H) as [c (H1 & H2 & _)]. auto.
Qed.

(* ---- completion_ctx: contexts never change inside one call ------------------------------------------ *)
Definition on_ctx (c : nat) (x : xev) : Prop :=
  match x with
  | XT (TLeafStart _ _ _ _ _ _ cx) => cx = c
  | XRoot _ _ cx => cx = c
  | _ => True
  end.
Lemma xokc_on_ctx e c x : xokc e c x -> on_ctx c x.
Proof. destruct x as [t| | | |]; simpl; try tauto. destruct t; simpl; tauto. Qed.

(* call level *)
Theorem start_ctx e en cx st tr r id s sp a b sch cx' :
  good_env en -> start e en cx = (st, tr, r) -> In (TLeafStart id s sp a b sch cx') tr -> cx' = cx.
Proof.
  intros Hg H Hin. destruct (start_q e _ _ _ _ _ H Hg) as [_ Ht].
  unfold trok in Ht. rewrite Forall_forall in Ht. exact (proj2 (proj2 (Ht _ Hin))).
Qed.
Theorem stop_ctx e sm st cx st' tr r id s sp a b sch cx' :
  s_sp sm = true -> qwf e sm st -> stop e st cx = (st', tr, r) -> In (TLeafStart id s sp a b sch cx') tr -> cx' = cx.
Proof.
  intros Hsp Hq H Hin. destruct (stop_q e _ _ _ _ _ _ H Hsp Hq) as [_ Ht].
  unfold trok in Ht. rewrite Forall_forall in Ht. exact (proj2 (proj2 (Ht _ Hin))).
Qed.
Theorem leafev_ctx e sm st i o cx st' tr r hit id s sp a b sch cx' :
  qwf e sm st -> leafev e st i o cx = (st', tr, r, hit) -> In (TLeafStart id s sp a b sch cx') tr -> cx' = cx.
Proof.
  intros Hq H Hin. destruct (leafev_q e _ _ _ _ _ _ _ _ _ H Hq) as [_ Ht].
  unfold trok in Ht. rewrite Forall_forall in Ht. exact (proj2 (proj2 (Ht _ Hin))).
Qed.

(* run level: everything a script event causes - leaf starts, the root's completion - happens on the context
   the event is delivered on; start() runs on context 0 *)
Theorem completion_ctx e pre s1 ev :
  exists d, r_tr (run e pre (s1 ++ [ev])) = r_tr (run e pre s1) ++ d /\ Forall (on_ctx (ctx_of ev)) d.
Proof.
  rewrite run_snoc. destruct (run_ev_q e _ ev (run_q e pre s1)) as (_ & (d & E & Hd) & _).
  exists d. split; [exact E|]. eapply Forall_impl; [|exact Hd]. intros x. apply xokc_on_ctx.
Qed.
Theorem start_on_ctx0 e pre : Forall (on_ctx 0%nat) (r_tr (run e pre [])).
Proof.
  destruct (run_start_q e pre) as [_ H]. eapply Forall_impl; [|exact H]. intros x. apply xokc_on_ctx.
Qed.

(* ================================================================================================ *)
(* Part 4: C11 - via / typed_via / with_scheduler_affinity / on                                     *)
(* ================================================================================================ *)

(* Scripts address harness leaves; a queued schedule() operation is run by EvRun only (the generator gives
   schedule operations identifiers the scripts never use). *)
Definition no_ev_on (id : nat) (script : list sev) : Prop :=
  Forall (fun ev => forall o cx, ev <> EvLeaf id o cx) script.

(* a "hop": an operation that never completes inline, never completes from a stop request, and completes only
   when its schedule() item [id] is run *)
Definition hop (b : sexpr) (id : nat) : Prop :=
  (forall en cx, snd (start b en cx) = None) /\
  (forall st cx, snd (stop b st cx) = None) /\
  (forall st i o cx, snd (fst (leafev b st i o cx)) <> None -> i = id).

Lemma hop_sched id c : hop (Sched id c) id.
Proof.
  split; [|split].
  - reflexivity.
  - intros st cx. destruct st as [|cc sn| | |]; try reflexivity. destruct cc, sn; reflexivity.
  - intros st i o cx. destruct st as [|cc sn| | |]; simpl; try congruence.
    destruct cc; simpl; [congruence|]. destruct (Nat.eqb i id) eqn:E; simpl; [|congruence].
    intros _. apply Nat.eqb_eq. exact E.
Qed.

Lemma hop_unst_sched id c : hop (Un UUnstoppable (Sched id c)) id.
Proof.
  split; [|split].
  - reflexivity.
  - intros st cx. destruct st; reflexivity.
  - intros st i o cx. destruct st as [|cc sn|ns sc sb| |]; simpl; try congruence.
    destruct sc as [|cc sn| | |]; simpl; try congruence.
    destruct cc; simpl; [congruence|]. destruct (Nat.eqb i id) eqn:E; simpl; [|congruence].
    intros _. apply Nat.eqb_eq. exact E.
Qed.

(* finally(s, hop): the source's result - value, error or done - is held until the hop completed *)
Lemma finally_a_done s b id ns sa tra oa cx r0a r0bl :
  hop b id -> snd (a_done BFinally s b ns sa tra oa cx r0a r0bl) = None.
Proof.
  intros (Hs & _ & _). unfold a_done, after_first.
  specialize (Hs (n_env ns) cx). destruct oa; destruct (start b (n_env ns) cx) as [[sb trb] rb]; simpl in Hs; subst rb;
  reflexivity.
Qed.

Lemma finally_start_none s b id en cx :
  hop b id -> cthrows s = false -> snd (start (Bin BFinally s b) en cx) = None.
Proof.
  intros Hh Hc. rewrite start_bin_seq by reflexivity.
  replace (sthrows (Bin BFinally s b)) with false by (unfold sthrows; simpl; rewrite Hc; reflexivity).
  unfold start_seq.
  destruct (start s en cx) as [[sa tra] ra]. destruct ra; [|reflexivity].
  eapply finally_a_done. exact Hh.
Qed.

Lemma finally_stop_none s b id st cx : hop b id -> snd (stop (Bin BFinally s b) st cx) = None.
Proof.
  intros Hh. destruct st as [|cc sn|ns sa sb|sa sb|vv]; try reflexivity.
  rewrite stop_bin. cbn [is_seq].
  assert (H2 : snd (stop_seq2 BFinally s b ns sa sb cx) = None).
  { unfold stop_seq2. destruct Hh as (_ & Hp & _). specialize (Hp sb cx).
    destruct (stop b sb cx) as [[sb' trb] rb]. simpl in Hp. subst rb. reflexivity. }
  destruct (ph ns); try exact H2.
  unfold stop_seq1. destruct (stop s sa cx) as [[sa' tra] ra]. destruct ra; [|reflexivity].
  eapply finally_a_done. exact Hh.
Qed.

Lemma finally_leafev_some s b id st i o cx :
  hop b id -> snd (fst (leafev (Bin BFinally s b) st i o cx)) <> None -> i = id.
Proof.
  intros Hh. destruct st as [|cc sn|ns sa sb|sa sb|vv]; try (simpl; congruence).
  rewrite leafev_bin_seq by reflexivity.
  assert (H2 : snd (fst (leafev_seq2 BFinally s b ns sa sb i o cx)) <> None -> i = id).
  { unfold leafev_seq2. destruct Hh as (_ & _ & Hl).
    destruct (child_ev (bin_throw BFinally true) (bin_catch BFinally true) b sb i (bin_in BFinally true o) o cx)
      as [[[sb' trb] rb] hh] eqn:Ec.
    destruct (child_ev_none _ _ _ _ _ _ _ _ _ _ _ _ Ec) as (oin' & ro & h & E & Hro).
    specialize (Hl sb i oin' cx). rewrite E in Hl. simpl in Hl.
    destruct rb; [intros _; apply Hl; intros En; apply Hro in En; discriminate|simpl; congruence]. }
  destruct (ph ns); try exact H2.
  unfold leafev_seq1.
  destruct (child_ev (bin_throw BFinally false) (bin_catch BFinally false) s sa i (bin_in BFinally false o) o cx)
    as [[[sa' tra] ra] hh]. destruct ra; [|simpl; congruence].
  pose proof (finally_a_done s b id ns sa' tra o0 cx (start s (n_env ns) cx)
                (r0bl_of b (n_env ns) (start s (n_env ns) cx) cx) Hh) as Hn.
  destruct (a_done BFinally s b ns sa' tra o0 cx (start s (n_env ns) cx)
                (r0bl_of b (n_env ns) (start s (n_env ns) cx) cx)) as [[x y] z].
  simpl in Hn. subst z. simpl. congruence.
Qed.

(* the root of finally(s, hop on c) completes only on context c *)
Theorem finally_hop_ctx s b id c pre script :
  hop b id -> (forall c', In (id, c') (scheds (Bin BFinally s b)) -> c' = c) ->
  no_ev_on id script ->
  forall o n cx, In (XRoot o n cx) (r_tr (exec (Bin BFinally s b) pre script)) -> cx = c.
Proof.
  intros Hh Hid Hsc o n cx Hin. apply exec_in_root in Hin. revert o n cx Hin.
  set (e := Bin BFinally s b) in *.
  assert (Inv : IQ e (run e pre script) /\ forall o n cx, In (XRoot o n cx) (r_tr (run e pre script)) -> cx = c).
  { apply (run_invariant_s e pre (fun rs => IQ e rs /\ forall o n cx, In (XRoot o n cx) (r_tr rs) -> cx = c)
                            (fun ev => forall o cx, ev <> EvLeaf id o cx)); [| |exact Hsc].
    - split; [apply run_start_q|]. unfold run_start.
      destruct (cthrows e) eqn:Hct.
      { simpl. intros o n cx Hin. apply in_app_or in Hin. destruct Hin as [Hin|[Hin|[]]]; [|discriminate].
        apply in_map_iff in Hin. destruct Hin as (t & E & _). discriminate. }
      pose proof (finally_start_none s b id (root_env pre) 0 Hh Hct) as Hn. fold e in Hn.
      destruct (start e (root_env pre) 0) as [[st tr] r]. simpl in Hn. subst r. simpl.
      intros o n cx Hin. apply in_map_iff in Hin. destruct Hin as (t & E & _). discriminate.
    - intros rs ev Hev [HI Hroots]. destruct (run_ev_q e rs ev HI) as (HI' & _ & Hk).
      split; [exact HI'|]. intros o n cx Hin.
      destruct Hk as [(_ & Etr & _)|i oo st tr r Hwhich Hl _ Etr|st tr r _ _ Hs _ Etr]; rewrite Etr in Hin.
      + apply in_app_or in Hin. destruct Hin as [Hin|[Hin|[]]]; [eauto|discriminate].
      + apply in_app_or in Hin. destruct Hin as [Hin|Hin]; [eauto|].
        apply in_app_or in Hin. destruct Hin as [Hin|Hin].
        { apply in_map_iff in Hin. destruct Hin as (t & E & _). discriminate. }
        destruct r as [oc|]; [|contradiction Hin]. destruct Hin as [Hin|[]]. inv Hin.
        assert (i = id).
        { apply (finally_leafev_some s b id (r_st rs) i oo (ctx_of ev) Hh). fold e. rewrite Hl. simpl. congruence. }
        subst i. destruct Hwhich as [Hw|(Hw & Hq & _)].
        * exfalso. exact (Hev _ _ Hw).
        * apply Hid. exact (proj2 (proj2 HI) _ _ Hq).
      + apply in_app_or in Hin. destruct Hin as [Hin|Hin]; [eauto|].
        apply in_app_or in Hin. destruct Hin as [Hin|Hin].
        { apply in_map_iff in Hin. destruct Hin as (t & E & _). discriminate. }
        pose proof (finally_stop_none s b id (r_st rs) (ctx_of ev) Hh) as Hn. fold e in Hn.
        rewrite Hs in Hn. simpl in Hn. subst r. contradiction Hin. }
  exact (proj2 Inv).
Qed.

(* via(s, scheduler of c) = typed_via: EVERY completion of the root - value, error and done of s, and the done
   the hop itself produces when stop was requested before its item ran - is delivered on context c, because
   finally() holds s's result until schedule(c)'s item has run, and that item is run by context c. *)
Theorem via_completes_on_ctx id c s pre script :
  ~ In id (map fst (scheds s)) -> no_ev_on id script ->
  forall o n cx, In (XRoot o n cx) (r_tr (exec (via id c s) pre script)) -> cx = c.
Proof.
  intros Hfresh Hsc. unfold via. apply finally_hop_ctx with (id := id); [apply hop_sched| |exact Hsc].
  intros c' Hin. simpl in Hin. apply in_app_or in Hin. destruct Hin as [Hin|[Hin|[]]]; [|inv Hin; reflexivity].
  exfalso. apply Hfresh. apply in_map_iff. exists (id, c'). auto.
Qed.

(* with_scheduler_affinity, non-affine branch: finally(s, unstoppable(schedule(c))) with c = get_scheduler(receiver) *)
Theorem wsa_via_completes_on_ctx id c s pre script :
  ~ In id (map fst (scheds s)) -> no_ev_on id script ->
  forall o n cx, In (XRoot o n cx) (r_tr (exec (wsa_via id c s) pre script)) -> cx = c.
Proof.
  intros Hfresh Hsc. unfold wsa_via. apply finally_hop_ctx with (id := id); [apply hop_unst_sched| |exact Hsc].
  intros c' Hin. simpl in Hin. apply in_app_or in Hin. destruct Hin as [Hin|[Hin|[]]]; [|inv Hin; reflexivity].
  exfalso. apply Hfresh. apply in_map_iff. exists (id, c'). auto.
Qed.

(* ---- on(scheduler of c, s) = sequence(schedule(c), with_query_value(s, get_scheduler, c)) ---------- *)
(* the schedule() item has not run yet: s has not been started *)
Definition on_pending (st : ost) : Prop :=
  match st with ONode ns _ _ => ph ns = PFirst | _ => False end.

Definition is_leaf_start (x : xev) : Prop :=
  match x with XT (TLeafStart _ _ _ _ _ _ _) => True | _ => False end.

Lemma sched_leafev id c sa i o cx :
  exists sa' ra hit, leafev (Sched id c) sa i o cx = (sa', [], ra, hit) /\ (hit = true -> i = id) /\
                     (ra <> None -> hit = true).
Proof.
  destruct sa as [|cc sn| | |]; simpl; try (do 3 eexists; split; [reflexivity|split; congruence]).
  destruct cc; [do 3 eexists; split; [reflexivity|split; congruence]|].
  destruct (Nat.eqb i id) eqn:E; do 3 eexists; (split; [reflexivity|split; try congruence]).
  intros _. apply Nat.eqb_eq. exact E.
Qed.
Lemma sched_child_ev thr cat id c sa i oin o cx :
  exists sa' ra hit, child_ev thr cat (Sched id c) sa i oin o cx = (sa', [], ra, hit) /\ (hit = true -> i = id) /\
                     (ra <> None -> hit = true) /\ (ra = None \/ ra = Some (OVal 0) \/ ra = Some ODone).
Proof.
  unfold child_ev.
  destruct sa as [|cc sn| | |]; simpl; try (do 3 eexists; split; [reflexivity|split; [congruence|split; [congruence|auto]]]).
  destruct cc; [do 3 eexists; split; [reflexivity|split; [congruence|split; [congruence|auto]]]|].
  destruct (Nat.eqb i id) eqn:E; [|do 3 eexists; split; [reflexivity|split; [congruence|split; [congruence|auto]]]].
  apply Nat.eqb_eq in E. destruct sn; simpl; do 3 eexists; (split; [reflexivity|split; [auto|split; [auto|auto]]]).
Qed.
Lemma sched_stop id c sa cx : exists sa', stop (Sched id c) sa cx = (sa', [], None).
Proof. destruct sa as [|cc sn| | |]; simpl; eauto. destruct cc, sn; eauto. Qed.

Lemma on_sees id c s sm i x : sees (on id c s) sm i x -> sees s (s_q0 sm, s_q1 sm, s_sp sm, c) i x.
Proof.
  unfold on. intros H. inversion H as [| | | |k a b sm' i' x' Ha|k a b sm' i' x' Hb]; subst.
  - inversion Ha.
  - inversion Hb as [| | |k s' sm' i' x' Hs| |]; subst. exact Hs.
Qed.

Lemma on_start id c s en cx :
  start (on id c s) en cx =
  (ONode (mk_nst PFirst en) (OLeaf false (e_stopped en)) OFin, [TSchedStart id c], None).
Proof. reflexivity. Qed.

(* a call that leaves the operation pending found it pending and started nothing *)
Lemma on_leafev_to_pending id c s st0 i o cx st tr r hit :
  leafev (on id c s) st0 i o cx = (st, tr, r, hit) -> on_pending st -> on_pending st0 /\ tr = [].
Proof.
  unfold on. intros H Hp.
  destruct st0 as [|cc sn|ns sa sb|sa sb|vv]; try (simpl in H; inv H; auto; fail).
  rewrite leafev_bin_seq in H by reflexivity.
  assert (H2 : forall st tr r hit, leafev_seq2 BSeq (Sched id c) (Un (UWithSched c) s) ns sa sb i o cx = (st, tr, r, hit) ->
               on_pending st -> ph ns = PFirst).
  { clear. intros st tr r hit H Hp. unfold leafev_seq2 in H.
    destruct (child_ev (bin_throw BSeq true) (bin_catch BSeq true) (Un (UWithSched c) s) sb i (bin_in BSeq true o) o cx)
      as [[[sb' trb] rb] hh].
    destruct rb; [|inv H; exact Hp]. unfold b_done, seq_final in H. simpl in H. inv H. contradiction Hp. }
  destruct (ph ns) eqn:Eph; try (specialize (H2 _ _ _ _ H Hp); discriminate).
  split; [exact Eph|]. unfold leafev_seq1 in H.
  destruct (sched_child_ev (bin_throw BSeq false) (bin_catch BSeq false) id c sa i (bin_in BSeq false o) o cx)
    as (sa' & ra & hh & E & _ & _ & Hra). rewrite E in H.
  destruct Hra as [->|[->| ->]]; [inv H; reflexivity| |].
  2:{ exfalso. unfold a_done, after_first, seq_pass in H. simpl in H. inv H. exact Hp. }
  exfalso. unfold a_done, after_first in H.
  destruct (start (Un (UWithSched c) s) (n_env ns) cx) as [[sb' trb] rb].
  destruct rb; [unfold seq_final in H; simpl in H; inv H; exact Hp|]. inv H. simpl in Hp. discriminate.
Qed.

Lemma on_stop_to_pending id c s st0 cx st tr r :
  stop (on id c s) st0 cx = (st, tr, r) -> on_pending st -> on_pending st0 /\ tr = [].
Proof.
  unfold on. intros H Hp.
  destruct st0 as [|cc sn|ns sa sb|sa sb|vv]; try (simpl in H; inv H; auto; fail).
  rewrite stop_bin in H. cbn [is_seq] in H.
  assert (H2 : forall st tr r, stop_seq2 BSeq (Sched id c) (Un (UWithSched c) s) ns sa sb cx = (st, tr, r) ->
               on_pending st -> ph ns = PFirst).
  { clear. intros st tr r H Hp. unfold stop_seq2 in H.
    destruct (stop (Un (UWithSched c) s) sb cx) as [[sb' trb] rb].
    destruct rb; [|inv H; exact Hp]. unfold b_done, seq_final in H. simpl in H. inv H. contradiction Hp. }
  destruct (ph ns) eqn:Eph; try (specialize (H2 _ _ _ H Hp); discriminate).
  split; [exact Eph|]. unfold stop_seq1 in H.
  destruct (sched_stop id c sa cx) as (sa' & E). rewrite E in H. inv H. reflexivity.
Qed.

Lemma absorb_st rs st tr o cx : r_st (absorb rs (st, tr, o) cx) = st.
Proof. destruct o; reflexivity. Qed.
Lemma absorb_tr_nil rs st o cx x :
  In x (r_tr (absorb rs (st, [], o) cx)) -> In x (r_tr rs) \/ exists oc n, x = XRoot oc n cx.
Proof.
  destruct o; simpl; rewrite app_nil_r; [|auto].
  intros H. apply in_app_or in H. destruct H as [H|[<-|[]]]; eauto.
Qed.
Lemma skip_tr rs x : In x (r_tr (skip rs)) -> In x (r_tr rs) \/ x = XSkip.
Proof. simpl. intros H. apply in_app_or in H. destruct H as [H|[<-|[]]]; auto. Qed.

(* while the operation is pending no leaf has been started *)
Theorem on_pending_no_starts id c s pre script :
  on_pending (r_st (run (on id c s) pre script)) ->
  forall x, In x (r_tr (run (on id c s) pre script)) -> ~ is_leaf_start x.
Proof.
  set (e := on id c s).
  apply (run_invariant e pre (fun rs => on_pending (r_st rs) -> forall x, In x (r_tr rs) -> ~ is_leaf_start x)).
  - unfold run_start. unfold e. rewrite on_start. simpl. intros _ x [<-|[]]. exact (fun H => H).
  - intros rs ev IH. unfold run_ev.
    assert (Hskip : forall rs0, r_st rs0 = r_st rs -> r_tr rs0 = r_tr rs ->
              on_pending (r_st (skip rs0)) -> forall x, In x (r_tr (skip rs0)) -> ~ is_leaf_start x).
    { intros rs0 E1 E2 Hp x Hx. apply skip_tr in Hx. rewrite E2 in Hx. change (r_st (skip rs0)) with (r_st rs0) in Hp.
      rewrite E1 in Hp. destruct Hx as [Hx| ->]; [exact (IH Hp _ Hx)|exact (fun H => H)]. }
    assert (Hleaf : forall rs0 i o cx st tr r, r_tr rs0 = r_tr rs ->
              leafev e (r_st rs) i o cx = (st, tr, r, true) ->
              on_pending (r_st (absorb rs0 (st, tr, r) cx)) ->
              forall x, In x (r_tr (absorb rs0 (st, tr, r) cx)) -> ~ is_leaf_start x).
    { intros rs0 i o cx st tr r E2 H Hp x Hx. rewrite absorb_st in Hp.
      destruct (on_leafev_to_pending _ _ _ _ _ _ _ _ _ _ _ H Hp) as [Hp0 ->].
      apply absorb_tr_nil in Hx. rewrite E2 in Hx.
      destruct Hx as [Hx|(oc & n & ->)]; [exact (IH Hp0 _ Hx)|exact (fun H => H)]. }
    destruct ev as [i o cx|cx|c0].
    + destruct (leafev e (r_st rs) i o cx) as [[[st tr] r] hit] eqn:H. destruct hit.
      * eapply Hleaf; [reflexivity|exact H].
      * apply Hskip; reflexivity.
    + destruct (r_stopped rs).
      * apply Hskip; reflexivity.
      * destruct (stop e (r_st rs) cx) as [[st tr] r] eqn:H.
        intros Hp x Hx. rewrite absorb_st in Hp.
        destruct (on_stop_to_pending _ _ _ _ _ _ _ _ H Hp) as [Hp0 ->].
        apply absorb_tr_nil in Hx.
        destruct Hx as [Hx|(oc & n & ->)]; [exact (IH Hp0 _ Hx)|exact (fun H => H)].
    + destruct (dequeue c0 (r_queue rs)) as [[i q']|].
      * destruct (leafev e (r_st rs) i (OVal 0) c0) as [[[st tr] r] hit] eqn:H. destruct hit.
        -- eapply Hleaf; [reflexivity|exact H].
        -- apply Hskip; reflexivity.
      * apply Hskip; reflexivity.
Qed.

Theorem on_pending_initially id c s pre : on_pending (r_st (run (on id c s) pre [])).
Proof. reflexivity. Qed.

(* the call that finds the operation pending and starts leaves is the run of the schedule() item *)
Lemma on_leafev_pending id c s ns sa sb i o cx st tr r hit :
  ph ns = PFirst -> leafev (on id c s) (ONode ns sa sb) i o cx = (st, tr, r, hit) ->
  (hit = true -> i = id) /\ (hit = false -> tr = []).
Proof.
  unfold on. intros Eph H. rewrite leafev_bin_seq in H by reflexivity. rewrite Eph in H.
  unfold leafev_seq1 in H.
  destruct (sched_child_ev (bin_throw BSeq false) (bin_catch BSeq false) id c sa i (bin_in BSeq false o) o cx)
    as (sa' & ra & hh & E & Hi & Hr & _). rewrite E in H.
  destruct ra as [oa|].
  - injection H as _ <-. split; [exact Hi|]. intros ->. specialize (Hr ltac:(discriminate)). discriminate.
  - inv H. auto.
Qed.

(* on() starts its sender on the scheduler's context: the leaves started inline by s's start() - i.e. in the
   step that finds the operation pending - start on context c, that step is the run of the schedule() item on c,
   and they see get_scheduler = c unless an adaptor inside s overrides it ([sees]).  Leaves that s starts
   later (successors, repetitions, retries) are started by whatever call completes their predecessor, on that
   call's context: [completion_ctx]. *)
Theorem on_starts_on_ctx id c s pre s1 ev :
  ~ In id (map fst (scheds s)) -> no_ev_on id (s1 ++ [ev]) ->
  on_pending (r_st (run (on id c s) pre s1)) ->
  exists d, r_tr (run (on id c s) pre (s1 ++ [ev])) = r_tr (run (on id c s) pre s1) ++ d /\
    forall i st sp q0 q1 sch cx, In (XT (TLeafStart i st sp q0 q1 sch cx)) d ->
      cx = c /\ ev = EvRun c /\ sees s (0, 0, true, c) i (q0, q1, sp, sch).
Proof.
  intros Hfresh Hsc Hp. set (e := on id c s) in *. rewrite run_snoc.
  pose proof (run_q e pre s1) as HI. set (rs := run e pre s1) in *.
  destruct (run_ev_q e rs ev HI) as (_ & (d & E & Hd) & Hk).
  exists d. split; [exact E|]. intros i st sp q0 q1 sch cx Hin.
  rewrite Forall_forall in Hd. pose proof (Hd _ Hin) as Hx. simpl in Hx. destruct Hx as (Hsees & _ & Hcx).
  assert (Hev : ev = EvRun c).
  { assert (Hev0 : forall o cx, ev <> EvLeaf id o cx).
    { unfold no_ev_on in Hsc. rewrite Forall_forall in Hsc. apply Hsc. apply in_or_app. right. left. reflexivity. }
    destruct Hk as [(_ & Etr & _)|i' oo st' tr r Hwhich Hl _ Etr|st' tr r _ _ Hs _ Etr]; rewrite E in Etr;
      apply app_inv_head in Etr; subst d.
    - destruct Hin as [Hin|[]]. discriminate.
    - destruct (r_st rs) as [|cc sn|ns sa sb|sa sb|vv] eqn:Est; try contradiction Hp.
      destruct (on_leafev_pending _ _ _ _ _ _ _ _ _ _ _ _ _ Hp Hl) as [Hi _]. specialize (Hi eq_refl). subst i'.
      destruct Hwhich as [Hw|(Hw & Hq & _)]; [exfalso; exact (Hev0 _ _ Hw)|].
      rewrite Hw. f_equal. pose proof (proj2 (proj2 HI) _ _ Hq) as Hs. unfold e, on in Hs. simpl in Hs.
      destruct Hs as [Hs|Hs]; [inv Hs; reflexivity|]. exfalso. apply Hfresh.
      apply in_map_iff. exists (id, ctx_of ev). auto.
    - destruct (r_st rs) as [|cc sn|ns sa sb|sa sb|vv] eqn:Est; try contradiction Hp.
      unfold e, on in Hs. rewrite stop_bin in Hs. cbn [is_seq] in Hs. simpl in Hp. rewrite Hp in Hs.
      unfold stop_seq1 in Hs. destruct (sched_stop id c sa (ctx_of ev)) as (sa' & Es). rewrite Es in Hs. inv Hs.
      destruct Hin as []. }
  split; [rewrite Hcx, Hev; reflexivity|]. split; [exact Hev|].
  apply on_sees in Hsees. exact Hsees.
Qed.

(* over whole runs: the leaves of s see get_scheduler = c, up to the overrides inside s *)
Theorem on_sched_seen id c s pre script i st sp q0 q1 sch cx :
  In (XT (TLeafStart i st sp q0 q1 sch cx)) (r_tr (exec (on id c s) pre script)) ->
  sees s (0, 0, true, c) i (q0, q1, sp, sch).
Proof. intros H. apply queries_sees in H. destruct H as [H _]. apply on_sees in H. exact H. Qed.

(* when s contains no with_query_value(get_scheduler) of its own, every leaf sees exactly c *)
Fixpoint no_with_sched (e : sexpr) : Prop :=
  match e with
  | Un (UWithSched _) _ => False
  | Un _ s => no_with_sched s
  | Bin _ a b => no_with_sched a /\ no_with_sched b
  | _ => True
  end.
Lemma sees_sched_default e sm i x : sees e sm i x -> no_with_sched e -> s_sch x = s_sch sm.
Proof.
  induction 1; simpl; intros Hn; auto.
  - destruct k; try contradiction Hn; rewrite (IHsees Hn); try reflexivity. destruct q; reflexivity.
  - destruct Hn as [Hn _]. rewrite (IHsees Hn). unfold bin_sum. destruct (is_seq k); reflexivity.
  - destruct Hn as [_ Hn]. rewrite (IHsees Hn). unfold bin_sum. destruct (is_seq k); reflexivity.
Qed.
Theorem on_sched_is_c id c s pre script i st sp q0 q1 sch cx :
  no_with_sched s ->
  In (XT (TLeafStart i st sp q0 q1 sch cx)) (r_tr (exec (on id c s) pre script)) -> sch = c.
Proof.
  intros Hn H. apply on_sched_seen in H. exact (sees_sched_default _ _ _ _ H Hn).
Qed.

(* what via's root completes with: the item of schedule(c) runs; if stop was requested on the receiver's token
   before that ([seen]) the hop itself completes with done and s's result is discarded, otherwise the held
   result of s - value, error or done - is forwarded *)
Theorem via_result id c s ns sa sb i o cx st tr oc hit :
  leafev (via id c s) (ONode ns sa sb) i o cx = (st, tr, Some oc, hit) ->
  i = id /\ ph ns <> PFirst /\ st = OFin /\ tr = [TSchedDtor c] /\
  exists seen, sb = OLeaf false seen /\
    (seen = true -> oc = ODone) /\
    (seen = false -> saved ns = Some oc \/ (saved ns = None /\ oc = OVal 0)).
Proof.
  intros H.
  assert (Hi : i = id).
  { apply (finally_leafev_some s (Sched id c) id (ONode ns sa sb) i o cx (hop_sched id c)).
    fold (via id c s). rewrite H. simpl. congruence. }
  subst i. split; [reflexivity|]. unfold via in H. rewrite leafev_bin_seq in H by reflexivity.
  assert (H2 : leafev_seq2 BFinally s (Sched id c) ns sa sb id o cx = (st, tr, Some oc, hit) ->
               st = OFin /\ tr = [TSchedDtor c] /\
               exists seen, sb = OLeaf false seen /\ (seen = true -> oc = ODone) /\
                 (seen = false -> saved ns = Some oc \/ (saved ns = None /\ oc = OVal 0))).
  { clear H. intros H. unfold leafev_seq2, child_ev in H.
    destruct sb as [|cc seen| | |]; try (simpl in H; discriminate H).
    destruct cc; [simpl in H; discriminate H|].
    simpl in H. rewrite Nat.eqb_refl in H. unfold b_done, seq_final in H.
    destruct seen; simpl in H;
    injection H as <- <- Ho _; (split; [reflexivity|]); (split; [reflexivity|]);
    [exists true|exists false]; (split; [reflexivity|]).
    - split; [intros _|discriminate]. destruct (saved ns); congruence.
    - split; [discriminate|intros _]. destruct (saved ns); [left; congruence|right; split; congruence]. }
  destruct (ph ns) eqn:Eph.
  - exfalso. unfold leafev_seq1 in H.
    destruct (child_ev (bin_throw BFinally false) (bin_catch BFinally false) s sa id (bin_in BFinally false o) o cx)
      as [[[sa' tra] ra] hh].
    destruct ra; [|discriminate H].
    pose proof (finally_a_done s (Sched id c) id ns sa' tra o0 cx (start s (n_env ns) cx)
                  (r0bl_of (Sched id c) (n_env ns) (start s (n_env ns) cx) cx) (hop_sched id c)) as Hn.
    apply (f_equal (fun x => snd (fst x))) in H. cbn [fst snd] in H. rewrite Hn in H. discriminate H.
  - split; [discriminate|]. exact (H2 H).
  - split; [discriminate|]. exact (H2 H).
Qed.

(* at the root the receiver's scheduler is get_scheduler(root receiver) = the scheduler of context
   e_sched (root_env pre) = 0: with_scheduler_affinity completes there *)
Theorem wsa_via_root_sched id s pre script :
  ~ In id (map fst (scheds s)) -> no_ev_on id script ->
  forall o n cx, In (XRoot o n cx) (r_tr (exec (wsa_via id (e_sched (root_env pre)) s) pre script)) ->
                 cx = e_sched (root_env pre).
Proof. intros H1 H2. apply wsa_via_completes_on_ctx; assumption. Qed.

(* ================================================================================================ *)
(* Part 5: [stage 4] a value copy that throws is turned into set_error (C05)                        *)
(* ================================================================================================ *)
(* A completion OValT v (a value whose copy / move throws) that reaches a node which STORES its child's value
   surfaces at that node as OErr tcode:
   - finally: the store throws, the source's result becomes the error, and the completion sender is still
     connected and started; when it completes with a value the held error is delivered;
   - let_value (predecessor), done_as_optional: the node completes with the error;
   - when_all / when_any (either child): the child counts as having failed with the error. *)
Theorem thrown_store_is_error v :
  (forall a b ns sa tra cx r0a r0bl,
     a_done BFinally a b ns sa tra (OValT v) cx r0a r0bl =
     let '(sb, trb, rb) := start b (n_env ns) cx in
     match rb with
     | None => (ONode (ns_set_saved (ns_set_ph ns PSecond) (Some (OErr tcode))) OFin sb, (tra ++ dtor a sa) ++ trb, None)
     | Some ob => seq_final BFinally b sb ((tra ++ dtor a sa) ++ trb) (after_second BFinally (Some (OErr tcode)) ob)
     end) /\
  (forall w, after_second BFinally (Some (OErr tcode)) (OVal w) = OErr tcode) /\
  (forall a b ns sa tra cx r0a r0bl,
     a_done BLetV a b ns sa tra (OValT v) cx r0a r0bl = (OCompl sa OFin, tra, Some (OErr tcode))) /\
  (forall s sc tr, un_done UDoneOpt s sc tr (OValT v) = (OCompl sc OFin, tr ++ [], Some (OErr tcode))) /\
  (forall ns i, conc_child_done BWhenAll ns i (OValT v) = conc_child_done BWhenAll ns i (OErr tcode)) /\
  (forall ns i, conc_child_done BWhenAny ns i (OValT v) = conc_child_done BWhenAny ns i (OErr tcode)).
Proof. repeat split; reflexivity. Qed.

(* ... at the level of one external completion: whatever the source of a finally is, if the completion makes it
   deliver a throwing value, the finally node starts its completion sender (on the same context) holding the error *)
Theorem finally_thrown_runs_completion a b ns sa sb id o cx sa' tra v hit :
  ph ns = PFirst ->
  child_ev (bin_throw BFinally false) (bin_catch BFinally false) a sa id (bin_in BFinally false o) o cx
    = ((sa', tra, Some (OValT v)), hit) ->
  leafev (Bin BFinally a b) (ONode ns sa sb) id o cx =
  (let '(sb', trb, rb) := start b (n_env ns) cx in
   match rb with
   | None => (ONode (ns_set_saved (ns_set_ph ns PSecond) (Some (OErr tcode))) OFin sb', (tra ++ dtor a sa') ++ trb, None)
   | Some ob => seq_final BFinally b sb' ((tra ++ dtor a sa') ++ trb) (after_second BFinally (Some (OErr tcode)) ob)
   end, hit).
Proof.
  intros Hp Hc. rewrite leafev_bin_seq by reflexivity. rewrite Hp. unfold leafev_seq1. rewrite Hc.
  rewrite (proj1 (thrown_store_is_error v)). reflexivity.
Qed.

(* a harness leaf directly below: the script completion L<id>:t<v> *)
Lemma leaf_thrown_child_ev i seen v cx :
  child_ev (bin_throw BFinally false) (bin_catch BFinally false) (Leaf i) (OLeaf false seen) i
           (bin_in BFinally false (OValT v)) (OValT v) cx = ((OLeaf true seen, [], Some (OValT v)), true).
Proof. unfold child_ev. simpl. rewrite Nat.eqb_refl. reflexivity. Qed.
