(* C04 on the second-generation calculus Calc2: stop requests reach running children; completion never
   outlives a stop callback.  Uses the equation lemmas and the event invariant of Calc/Ctx2Proofs.v.
     Part 1  A4: nothing registered at completion (from the event invariant)
     Part 2  the liveness / stop-state invariant [live] for all Calc2 algorithms, including the own stop source
             of let_value_with_stop_source, restarts by repeat_effect_until / retry_when, when_any, completed
             but not yet destroyed operations ([OCompl]) and held LeafR completions ([OHeld])
     Part 3  A1 what [stop] does on a live state; A3 losers (when_all / stop_when / when_any) and the leaves under
             a let_value_with_stop_source whose source a LeafR requests
     Part 4  whole runs: A1, A2 lifted
     Part 5  the level a let_value_with_stop_source reacts to is its static nesting depth
     Part 6  (C11) with_scheduler_affinity's hop back cannot be cancelled
     Part 7  A5: prompt completion *)
From Coq Require Import ZArith List Bool Lia Arith.
From V Require Import Calc.Calc2Defs Calc.Ctx2Proofs.
Import ListNotations.
Import Calc2.

(* ================================================================================================ *)
(* Part 1: A4 - deregistered before completion                                                      *)
(* ================================================================================================ *)
Theorem root_completes_unregistered e pre script o n cx :
  In (XRoot o n cx) (r_tr (exec e pre script)) -> n = 0.
Proof.
  intros H. pose proof (run_events_ok e pre script) as HF. rewrite Forall_forall in HF.
  destruct (HF _ H) as [c [Hn _]]. exact Hn.
Qed.

Theorem no_leak e pre script root : ~ In (XT (TLeak root)) (r_tr (exec e pre script)).
Proof.
  intros H. pose proof (run_events_ok e pre script) as HF. rewrite Forall_forall in HF.
  destruct (HF _ H) as [c Hc]. exact Hc.
Qed.

(* the guard is not vacuous: stop_when as written before the fix completed with the callback registered *)
Theorem leak_as_written_refuted :
  leaky_as_written BStopWhen = true /\ leaky BStopWhen = false /\
  (forall a b ns sa sb tr o, finish_conc BStopWhen a b ns sa sb tr (Some o) (leaky_as_written BStopWhen) =
                         (OCompl sa sb, tr ++ (if reg ns then [TLeak (e_root (n_env ns))] else []), Some o)).
Proof. split; [reflexivity|]. split; reflexivity. Qed.

(* ================================================================================================ *)
(* Part 2: the stop-state invariant                                                                 *)
(* ================================================================================================ *)

(* running harness leaves [OLeaf false s] with [p s], on the current path(s); [cross] = also below unstoppable.
   (schedule() operations register no stop callback and are not listed; a LeafR whose callable is running,
   [OHeld], has completed its underlying leaf) *)
Fixpoint lv (cross : bool) (p : bool -> bool) (e : sexpr) (st : ost) : list nat :=
  match e, st with
  | Leaf id, OLeaf false s => if p s then [id] else []
  | LeafN id, OLeaf false s => if p s then [id] else []
  | LeafR id _, OLeaf false s => if p s then [id] else []
  | Un k s, ONode _ sc _ => if (is_unst k && negb cross)%bool then [] else lv cross p s sc
  | Bin k a b, ONode ns sa sb =>
      if is_seq k then
        match ph ns with PFirst => lv cross p a sa | _ => lv cross p b sb end
      else lv cross p a sa ++ lv cross p b sb
  | _, _ => []
  end.
(* running leaves connected (through chained stop sources) to the stop token of the receiver of e *)
Definition reach : sexpr -> ost -> list nat := lv false (fun _ => true).
Definition reach_unseen : sexpr -> ost -> list nat := lv false negb.
Definition reach_seen : sexpr -> ost -> list nat := lv false (fun s => s).
Definition running_leaves : sexpr -> ost -> list nat := lv true (fun _ => true).

(* no operation state, or a completed one: nothing can happen to it any more.  [stage 5] a completed allocate
   keeps its node (it still owns its block): a node all of whose children are done *)
Fixpoint done_st (st : ost) : Prop :=
  match st with
  | OFin | OCompl _ _ | OLeaf true _ => True
  | ONode _ a b => done_st a /\ done_st b
  | _ => False
  end.
Lemma inert_done st : inert st -> done_st st.
Proof. destruct st; simpl; tauto. Qed.

Lemma conc_reap_none k c sc tr : conc_reap k c (sc, tr, None) = (sc, tr, None).
Proof. destruct k; reflexivity. Qed.

Lemma stop_done e : forall st cx, done_st st -> exists st', stop e st cx = (st', [], None) /\ done_st st'.
Proof.
  induction e as [v|x| |n|id|id|id c|id lvl| |idc|k s IH|k a IHa b IHb]; intros st cx Hd;
    try (exists st; split; [|exact Hd]; destruct st as [|cc ss| | |]; try reflexivity;
         try (destruct cc; [reflexivity|contradiction Hd]); fail).
  - destruct st as [|cc ss|ns sc sb|sa sb|vv]; try contradiction Hd;
      try (eexists; split; [reflexivity|exact Hd]).
    destruct Hd as [Hc Hb]. destruct (is_unst k) eqn:Hk.
    + apply is_unst_true in Hk. subst k. rewrite stop_un_unst. eexists. split; [reflexivity|]. split; assumption.
    + rewrite stop_un by exact Hk. unfold stop_un_body.
      destruct (un_own k && own_stop ns)%bool; [eexists; split; [reflexivity|]; split; [assumption|exact I]|].
      destruct (IH sc cx Hc) as (sc' & E & Hd'). rewrite E. eexists. split; [reflexivity|]. split; [assumption|exact I].
  - destruct st as [|cc ss|ns sa sb|sa0 sb0|vv]; try contradiction Hd;
      try (eexists; split; [reflexivity|exact Hd]).
    destruct Hd as [Ha Hb]. rewrite stop_bin.
    destruct (IHa sa cx Ha) as (sa' & Ea & Ha'). destruct (IHb sb cx Hb) as (sb' & Eb & Hb').
    destruct (is_seq k).
    + destruct (ph ns).
      * unfold stop_seq1. rewrite Ea. eexists. split; [reflexivity|]. split; assumption.
      * unfold stop_seq2. rewrite Eb. eexists. split; [reflexivity|]. split; assumption.
      * unfold stop_seq2. rewrite Eb. eexists. split; [reflexivity|]. split; assumption.
    + destruct (own_stop ns); [eexists; split; [reflexivity|]; split; assumption|].
      unfold stop_conc. cbv zeta. rewrite Ea, Eb.
      change (bdone (ns_set_own (stopped_ns ns) true)) with (bdone ns).
      change (adone (ns_set_own (stopped_ns ns) true)) with (adone ns).
      rewrite !conc_reap_none.
      destruct (bdone ns); simpl; change (adone (ns_set_own (stopped_ns ns) true)) with (adone ns);
        destruct (adone ns); simpl;
        eexists; (split; [reflexivity|]); split; assumption.
Qed.

Lemma fired_nil lvl : fired lvl [] = false.
Proof. reflexivity. Qed.

Lemma leafev_done e : forall st id o cx, done_st st ->
  exists st', leafev e st id o cx = ((st', [], None), false) /\ done_st st'.
Proof.
  induction e as [v|x| |n|i|i|i c|i lvl| |idc|k s IH|k a IHa b IHb]; intros st id o cx Hd;
    try (exists st; split; [|exact Hd]; destruct st as [|cc ss| | |]; try reflexivity; try contradiction Hd;
         try (destruct cc; [reflexivity|contradiction Hd]); fail).
  - destruct st as [|cc ss|ns sc sb|sa sb|vv]; try contradiction Hd;
      try (eexists; split; [reflexivity|exact Hd]).
    destruct Hd as [Hc Hb]. rewrite leafev_un. unfold leafev_un_body, child_ev.
    destruct (IH sc id (un_in k o) cx Hc) as (sc' & E & Hd'). rewrite E. cbn [thrown].
    rewrite fired_nil, andb_false_r. eexists. split; [reflexivity|]. split; [assumption|exact I].
  - destruct st as [|cc ss|ns sa sb|sa0 sb0|vv]; try contradiction Hd;
      try (eexists; split; [reflexivity|exact Hd]).
    destruct Hd as [Ha Hb]. destruct (is_seq k) eqn:Hk.
    + rewrite leafev_bin_seq by exact Hk. destruct (ph ns).
      * unfold leafev_seq1, child_ev.
        destruct (IHa sa id (bin_in k false o) cx Ha) as (sa' & E & Hd'). rewrite E. cbn [thrown].
        eexists. split; [reflexivity|]. split; assumption.
      * unfold leafev_seq2, child_ev.
        destruct (IHb sb id (bin_in k true o) cx Hb) as (sb' & E & Hd'). rewrite E. cbn [thrown].
        eexists. split; [reflexivity|]. split; assumption.
      * unfold leafev_seq2, child_ev.
        destruct (IHb sb id (bin_in k true o) cx Hb) as (sb' & E & Hd'). rewrite E. cbn [thrown].
        eexists. split; [reflexivity|]. split; assumption.
    + rewrite leafev_bin_conc by exact Hk. unfold leafev_conc, child_ev, reap_ev.
      destruct (IHa sa id (tmode o) cx Ha) as (sa' & Ea & Ha'). rewrite Ea. cbn [thrown fst snd].
      destruct (IHb sb id (tmode o) cx Hb) as (sb' & Eb & Hb'). rewrite Eb. cbn [fst snd].
      rewrite !conc_reap_none.
      destruct (adone ns), (bdone ns); simpl;
        eexists; (split; [reflexivity|]); split; assumption.
Qed.

Lemma lv_inert c p e : forall st, done_st st -> lv c p e st = [].
Proof.
  induction e; intros st Hd; destruct st as [|cc ss|ns sa sb|sa0 sb0|vv]; simpl in *; try contradiction;
    try reflexivity; try (destruct cc; [reflexivity|contradiction]).
  - destruct Hd as [Hc _]. rewrite (IHe _ Hc). destruct (is_unst k && negb c)%bool; reflexivity.
  - destruct Hd as [Ha Hb]. rewrite (IHe1 _ Ha), (IHe2 _ Hb). destruct (is_seq k); [destruct (ph ns)|]; reflexivity.
Qed.
Lemma lv_fin c p e : lv c p e OFin = [].
Proof. apply lv_inert. exact I. Qed.
Lemma lv_un c p k s ns sc sb :
  lv c p (Un k s) (ONode ns sc sb) = if (is_unst k && negb c)%bool then [] else lv c p s sc.
Proof. reflexivity. Qed.
Lemma lv_seq1 c p k a b ns sa sb : is_seq k = true -> ph ns = PFirst ->
  lv c p (Bin k a b) (ONode ns sa sb) = lv c p a sa.
Proof. intros H1 H2. simpl. rewrite H1, H2. reflexivity. Qed.
Lemma lv_seq2 c p k a b ns sa sb : is_seq k = true -> ph ns <> PFirst ->
  lv c p (Bin k a b) (ONode ns sa sb) = lv c p b sb.
Proof. intros H1 H2. simpl. rewrite H1. destruct (ph ns); congruence. Qed.
Lemma lv_conc c p k a b ns sa sb : is_seq k = false ->
  lv c p (Bin k a b) (ONode ns sa sb) = lv c p a sa ++ lv c p b sb.
Proof. intros H1. simpl. rewrite H1. reflexivity. Qed.

Lemma lv_split c p e : forall st id,
  In id (lv c (fun _ => true) e st) -> In id (lv c p e st) \/ In id (lv c (fun s => negb (p s)) e st).
Proof.
  induction e; intros st i H; destruct st as [|cc s|ns sa sb|sa sb|vv]; simpl in *; try contradiction.
  - destruct cc; [contradiction|]. destruct (p s); simpl; auto.
  - destruct cc; [contradiction|]. destruct (p s); simpl; auto.
  - destruct cc; [contradiction|]. destruct (p s); simpl; auto.
  - destruct (is_unst k && negb c)%bool; [contradiction|]. auto.
  - destruct (is_seq k).
    + destruct (ph ns); auto.
    + apply in_app_or in H. rewrite !in_app_iff. destruct H as [H|H]; [apply IHe1 in H|apply IHe2 in H]; tauto.
Qed.

Lemma lv_ids c p e : forall st id, In id (lv c p e st) -> In id (leaf_ids e).
Proof.
  induction e; intros st i H; destruct st as [|cc s|ns sa sb|sa sb|vv]; simpl in *; try contradiction.
  - destruct cc; [contradiction|]. destruct (p s); simpl in *; auto.
  - destruct cc; [contradiction|]. destruct (p s); simpl in *; auto.
  - destruct cc; [contradiction|]. destruct (p s); simpl in *; auto.
  - destruct (is_unst k && negb c)%bool; [contradiction|]. eauto.
  - apply in_or_app. destruct (is_seq k).
    + destruct (ph ns); eauto.
    + apply in_app_or in H. destruct H; eauto.
Qed.

Definition chld (P : Prop) (sa : ost) (d : bool) : Prop := if d then done_st sa else P.

(* the stop token the child of a unary node is connected to *)
Definition un_tok (k : ukind) (tok : bool) (ns : nst) : bool :=
  if is_unst k then false else if un_own k then own_stop ns else tok.

(* [live tok e st]: st is the state of a started, uncompleted operation of e whose receiver's stop token
   currently answers stop_requested() = tok.  Every node on a path along which stop requests propagate knows
   the current stop state; running leaves and queued schedule() operations connected to the token have seen
   the request iff it was made; an own stop source (when_all / stop_when / when_any /
   let_value_with_stop_source) is requested whenever the outer token is; a live node has a live child and its
   completed children are done_st. *)
Fixpoint live (tok : bool) (e : sexpr) (st : ost) {struct e} : Prop :=
  match e, st with
  | Leaf _, OLeaf c s => c = false /\ s = tok
  | LeafN _, OLeaf c s => c = false /\ s = tok
  | Sched _ _, OLeaf c s => c = false /\ s = tok
  | LeafR _ _, OLeaf c s => c = false /\ s = tok
  | LeafR _ _, OHeld _ => True
  | Un k s, ONode ns sc _ =>
      (is_unst k = false -> e_stopped (n_env ns) = tok) /\
      (un_own k = true -> tok = true -> own_stop ns = true) /\
      live (un_tok k tok ns) s sc
  | Bin k a b, ONode ns sa sb =>
      e_stopped (n_env ns) = tok /\
      if is_seq k then
        match ph ns with PFirst => live tok a sa | _ => live tok b sb end
      else
        (tok = true -> own_stop ns = true) /\
        (if adone ns then done_st sa else live (own_stop ns) a sa) /\
        (if bdone ns then done_st sb else live (own_stop ns) b sb) /\
        (adone ns && bdone ns)%bool = false
  | _, _ => False
  end.

Lemma live_not_done e : forall tok st, live tok e st -> done_st st -> False.
Proof.
  induction e; intros tok st HL Hd; destruct st as [|cc ss|ns sa sb|sa0 sb0|vv]; simpl in *; try contradiction;
    try (destruct HL as [-> _]; contradiction).
  - destruct HL as (_ & _ & HL). destruct Hd as [Hd _]. exact (IHe _ _ HL Hd).
  - destruct HL as [_ HL]. destruct Hd as [Ha Hb]. destruct (is_seq k).
    + destruct (ph ns); eauto.
    + destruct HL as (_ & La & Lb & Hn). destruct (adone ns); [destruct (bdone ns); [discriminate|]|]; eauto.
Qed.
Lemma live_un tok k s ns sc sb :
  live tok (Un k s) (ONode ns sc sb) =
  ((is_unst k = false -> e_stopped (n_env ns) = tok) /\
   (un_own k = true -> tok = true -> own_stop ns = true) /\ live (un_tok k tok ns) s sc).
Proof. reflexivity. Qed.
Lemma live_seq1 tok k a b ns sa sb : is_seq k = true -> ph ns = PFirst ->
  live tok (Bin k a b) (ONode ns sa sb) = (e_stopped (n_env ns) = tok /\ live tok a sa).
Proof. intros H1 H2. simpl. rewrite H1, H2. reflexivity. Qed.
Lemma live_seq2 tok k a b ns sa sb : is_seq k = true -> ph ns <> PFirst ->
  live tok (Bin k a b) (ONode ns sa sb) = (e_stopped (n_env ns) = tok /\ live tok b sb).
Proof. intros H1 H2. simpl. rewrite H1. destruct (ph ns); congruence. Qed.
Lemma live_conc tok k a b ns sa sb : is_seq k = false ->
  live tok (Bin k a b) (ONode ns sa sb) =
  (e_stopped (n_env ns) = tok /\ (tok = true -> own_stop ns = true) /\
   chld (live (own_stop ns) a sa) sa (adone ns) /\ chld (live (own_stop ns) b sb) sb (bdone ns) /\
   (adone ns && bdone ns)%bool = false).
Proof. intros H1. simpl. rewrite H1. reflexivity. Qed.

(* once the token is stopped, every running leaf connected to it has seen the request *)
Lemma live_true_unseen e : forall st, live true e st -> reach_unseen e st = [].
Proof.
  unfold reach_unseen.
  induction e; intros st H; destruct st as [|cc ss|ns sa sb|sa sb|vv]; simpl in *; try contradiction; try reflexivity.
  - destruct H as [-> ->]. reflexivity.
  - destruct H as [-> ->]. reflexivity.
  - destruct H as [-> ->]. reflexivity.
  - destruct H as (_ & Ho & H). unfold un_tok in H. destruct (is_unst k); simpl; [reflexivity|].
    destruct (un_own k); [rewrite (Ho eq_refl eq_refl) in H|]; auto.
  - destruct H as [_ H]. destruct (is_seq k).
    + destruct (ph ns); auto.
    + destruct H as (Ho & Ha & Hb & _). rewrite (Ho eq_refl) in Ha, Hb.
      assert (Ea : lv false negb e1 sa = []) by (destruct (adone ns); [apply lv_inert; exact Ha|auto]).
      assert (Eb : lv false negb e2 sb = []) by (destruct (bdone ns); [apply lv_inert; exact Hb|auto]).
      rewrite Ea, Eb. reflexivity.
Qed.

(* ---- leaf starts see the stop state --------------------------------------------------------------- *)
Fixpoint under_unst (e : sexpr) : list nat :=
  match e with
  | Un k s => if is_unst k then leaf_ids s else under_unst s
  | Bin _ a b => under_unst a ++ under_unst b
  | _ => []
  end.
(* leaves not below unstoppable *)
Fixpoint sreach (e : sexpr) : list nat :=
  match e with
  | Leaf id => [id]
  | LeafN id => [id]
  | LeafR id _ => [id]
  | Un k s => if is_unst k then [] else sreach s
  | Bin _ a b => sreach a ++ sreach b
  | _ => []
  end.

(* an event of a call made while the receiver's token answers tok: a leaf that is started belongs to the
   expression, and once stop was requested it starts with a stopped token unless it sits below unstoppable *)
Definition sok (e : sexpr) (tok : bool) (t : tev) : Prop :=
  match t with
  | TLeafStart id s _ _ _ _ _ => In id (leaf_ids e) /\ (tok = true -> s = true \/ In id (under_unst e))
  | _ => True
  end.
Definition trs (e : sexpr) (tok : bool) (tr : list tev) : Prop := Forall (sok e tok) tr.

Definition no_start (t : tev) : Prop := match t with TLeafStart _ _ _ _ _ _ _ => False | _ => True end.
Lemma trs_nostart e tok tr : Forall no_start tr -> trs e tok tr.
Proof. apply Forall_impl. intros t. destruct t; simpl; tauto. Qed.
Lemma trs_nil e tok : trs e tok [].
Proof. constructor. Qed.
Lemma trs_app e tok t1 t2 : trs e tok t1 -> trs e tok t2 -> trs e tok (t1 ++ t2).
Proof. intros. apply Forall_app. auto. Qed.
Lemma trs_cons e tok t tr : no_start t -> trs e tok tr -> trs e tok (t :: tr).
Proof. intros H1 H2. constructor; auto. destruct t; simpl in *; tauto. Qed.
Lemma trs_calls e tok tr : Forall is_call tr -> trs e tok tr.
Proof. apply Forall_impl. intros t. destruct t; simpl; tauto. Qed.
Lemma trs_dtor e tok c st : trs e tok (dtor c st).
Proof.
  apply trs_nostart. eapply Forall_impl; [|apply dtor_only]. intros t. destruct t; simpl; tauto.
Qed.
Lemma trs_weaken e tok tok' tr : (tok = true -> tok' = true) -> trs e tok' tr -> trs e tok tr.
Proof.
  intros Hw. apply Forall_impl. intros t. destruct t; simpl; tauto.
Qed.
Lemma trs_un k s tok tr : is_unst k = false -> trs s tok tr -> trs (Un k s) tok tr.
Proof. intros Hk. apply Forall_impl. intros t. destruct t; simpl; try tauto. rewrite Hk. tauto. Qed.
Lemma trs_unst k s tok tok' tr : is_unst k = true -> trs s tok' tr -> trs (Un k s) tok tr.
Proof. intros Hk. apply Forall_impl. intros t. destruct t; simpl; try tauto. rewrite Hk. tauto. Qed.
Lemma trs_bin_a k a b tok tr : trs a tok tr -> trs (Bin k a b) tok tr.
Proof.
  apply Forall_impl. intros t. destruct t; simpl; try tauto. rewrite !in_app_iff. intuition.
Qed.
Lemma trs_bin_b k a b tok tr : trs b tok tr -> trs (Bin k a b) tok tr.
Proof.
  apply Forall_impl. intros t. destruct t; simpl; try tauto. rewrite !in_app_iff. intuition.
Qed.
#[global] Hint Resolve trs_nil trs_app trs_bin_a trs_bin_b trs_dtor : calc2.

(* the child of a unary node *)
Lemma trs_un_gen k s tok ns tr :
  (un_own k = true -> tok = true -> own_stop ns = true) ->
  trs s (un_tok k tok ns) tr -> trs (Un k s) tok tr.
Proof.
  intros Ho H. unfold un_tok in H. destruct (is_unst k) eqn:Hk.
  - eapply trs_unst; eassumption.
  - apply trs_un; [exact Hk|]. destruct (un_own k); [|exact H].
    eapply trs_weaken; [|exact H]. auto.
Qed.

Definition resL (tok : bool) (e : sexpr) (st : ost) (r : option outcome) : Prop :=
  (r = None -> live tok e st) /\ (r <> None -> done_st st).
Lemma resL_some tok e st o : done_st st -> resL tok e st (Some o).
Proof. split; [discriminate|auto]. Qed.
Lemma resL_none tok e st : live tok e st -> resL tok e st None.
Proof. split; [auto|congruence]. Qed.
Lemma resL_fin tok e o : resL tok e OFin (Some o).
Proof. apply resL_some. exact I. Qed.
Lemma resL_compl tok e a b o : resL tok e (OCompl a b) (Some o).
Proof. apply resL_some. exact I. Qed.
#[global] Hint Resolve resL_fin resL_compl resL_none : calc2.

Definition StartL (e : sexpr) : Prop := forall en cx st tr r,
  start e en cx = (st, tr, r) ->
  resL (e_stopped en) e st r /\ trs e (e_stopped en) tr.
Definition StopL (e : sexpr) : Prop := forall tok cx st st' tr r,
  stop e st cx = (st', tr, r) -> live tok e st ->
  resL true e st' r /\ trs e true tr /\
  (forall id, In id (reach_unseen e st) -> In (TLeafStop id) tr).
Definition LeafevL (e : sexpr) : Prop := forall tok cx st id o st' tr r hit,
  leafev e st id o cx = (st', tr, r, hit) -> live tok e st ->
  resL tok e st' r /\ trs e tok tr.

Lemma dtor_nostart c st : Forall no_start (dtor c st).
Proof. eapply Forall_impl; [|apply dtor_only]. intros t. destruct t; simpl; tauto. Qed.

Ltac ts := repeat first [ apply trs_nil | assumption | apply trs_dtor
                        | apply trs_app | apply trs_cons; [exact I|] ].

(* ---- unary nodes ---------------------------------------------------------------------------------- *)
Lemma un_done_l tok k s sc tr o st tr' r :
  un_done k s sc tr o = (st, tr', r) -> trs (Un k s) tok tr ->
  resL tok (Un k s) st r /\ trs (Un k s) tok tr' /\ incl tr tr'.
Proof.
  unfold un_done. intros H Ht. destruct (un_result k o) as [tr2 o'] eqn:Hu.
  assert (Hc : trs (Un k s) tok tr2) by (apply trs_calls; eapply un_result_calls; eassumption).
  destruct (un_eager k o); inv H; (split; [auto with calc2|]); (split; [ts|]);
    intros x Hx; apply in_or_app; auto.
Qed.

Lemma rep_loop_l tok tokc k s sc0 tr0 rr0 :
  resL tokc s sc0 rr0 -> trs (Un k s) tok tr0 ->
  forall rest i i' sc' tr' r',
  rep_loop s (sc0, tr0, rr0) rest i = (i', (sc', tr', r')) ->
  trs (Un k s) tok tr' /\ (r' = None -> live tokc s sc') /\ (r' <> None -> done_st sc').
Proof.
  intros [R1 R2] Ht0. induction rest as [|x rest IH]; intros i i' sc' tr' r' H; simpl in H.
  - inv H. split; [ts|]. split; [discriminate|intros; exact I].
  - destruct x.
    + inv H. split; [ts|]. split; [discriminate|intros; exact I].
    + destruct rr0 as [o0|].
      * destruct o0.
        -- destruct (rep_loop s (sc0, tr0, Some (OVal v)) rest (S i)) as [i2 [[sc2 tr2] r2]] eqn:Hr.
           inv H. destruct (IH _ _ _ _ _ Hr) as (T & Q & N). split; [ts|auto].
        -- inv H. split; [ts|]. split; [discriminate|intros; exact I].
        -- inv H. split; [ts|]. split; [discriminate|intros; exact I].
        -- inv H. split; [ts|]. split; [discriminate|intros; exact I].
        -- inv H. split; [ts|]. split; [discriminate|intros; exact I].
      * inv H. split; [ts|]. split; [auto|congruence].
Qed.

Lemma rep_done_l tok l s ns sc tr o sc0 tr0 rr0 st tr' r :
  e_stopped (n_env ns) = tok -> resL tok s sc0 rr0 ->
  trs (Un (URepeat l) s) tok tr -> trs (Un (URepeat l) s) tok tr0 ->
  rep_done l s ns sc tr o (sc0, tr0, rr0) = (st, tr', r) ->
  resL tok (Un (URepeat l) s) st r /\ trs (Un (URepeat l) s) tok tr' /\ incl tr tr'.
Proof.
  intros He R0 Ht Ht0 H. rewrite rep_done_eq in H.
  destruct (is_val o); [|inv H; split; [auto with calc2|split; [assumption|apply incl_refl]]].
  destruct (rep_loop s (sc0, tr0, rr0) (skipn (n_iter ns) l) (n_iter ns)) as [i' [[sc' tr2] r2]] eqn:Hr.
  destruct (rep_loop_l tok tok (URepeat l) s _ _ _ R0 Ht0 _ _ _ _ _ _ Hr) as (T & Q & N).
  assert (Hall : trs (Un (URepeat l) s) tok (tr ++ dtor s sc ++ tr2)) by ts.
  assert (Hi : incl tr (tr ++ dtor s sc ++ tr2)) by (intros x Hx; apply in_or_app; auto).
  destruct r2; inv H; (split; [|auto]).
  - apply resL_some. apply N. discriminate.
  - apply resL_none. rewrite live_un. split; [intros _; reflexivity|]. split; [discriminate|].
    apply Q. reflexivity.
Qed.

Lemma un_fin_l tok k s ns sc tr o sc0 tr0 rr0 st tr' r :
  (forall l, k = URepeat l -> e_stopped (n_env ns) = tok /\ resL tok s sc0 rr0 /\ trs (Un k s) tok tr0) ->
  done_st sc ->
  trs (Un k s) tok tr ->
  un_fin k s ns sc tr o (sc0, tr0, rr0) = (st, tr', r) ->
  resL tok (Un k s) st r /\ trs (Un k s) tok tr' /\ incl tr tr'.
Proof.
  intros Hr Hdc Ht H. unfold un_fin in H.
  destruct k; try (eapply un_done_l; eassumption).
  - destruct (Hr l eq_refl) as (He & R0 & Ht0).
    eapply rep_done_l; [exact He|exact R0|exact Ht|exact Ht0|exact H].
  - inv H. split; [apply resL_some; simpl; auto|]. split; [assumption|apply incl_refl].
Qed.

(* [stage 5] the events of a throwing connect are block events: nothing is started *)
Lemma trs_aev e e' al tok tr : Forall (aev e al) tr -> trs e' tok tr.
Proof. intros H. apply trs_nostart. eapply Forall_impl; [|exact H]. intros t. destruct t; simpl; tauto. Qed.
Lemma trs_sconn e e' al tok : trs e' tok (sconn e al).
Proof. eapply trs_aev. apply sconn_aev. Qed.
Lemma trs_un_pre e' tok k en : trs e' tok (un_pre k en).
Proof. apply trs_nostart. destruct k; repeat constructor. Qed.

(* ---- sequential nodes ----------------------------------------------------------------------------- *)
Lemma seq_pass_l tok k a b sa tr o st tr' r :
  seq_pass k a sa tr o = (st, tr', r) -> trs (Bin k a b) tok tr ->
  resL tok (Bin k a b) st r /\ trs (Bin k a b) tok tr' /\ incl tr tr'.
Proof.
  unfold seq_pass. intros H Ht.
  destruct (eager_dtor k); inv H; (split; [auto with calc2|]); (split; [ts|]);
    intros x Hx; try apply in_or_app; auto.
Qed.
Lemma seq_final_l tok k a b sb tr o st tr' r :
  seq_final k b sb tr o = (st, tr', r) -> trs (Bin k a b) tok tr ->
  resL tok (Bin k a b) st r /\ trs (Bin k a b) tok tr' /\ incl tr tr'.
Proof.
  unfold seq_final. intros H Ht.
  destruct (eager_dtor k); inv H; (split; [auto with calc2|]); (split; [ts|]);
    intros x Hx; try apply in_or_app; auto.
Qed.

Lemma retry_err_l tok k a b sa0 tra0 ra0 sbl trbl rbl :
  resL tok a sa0 ra0 -> trs (Bin k a b) tok tra0 ->
  ((exists e', ra0 = Some (OErr e')) -> resL tok b sbl rbl) -> trs (Bin k a b) tok trbl ->
  forall rem i sbe trbe rbe e i' p' st' tr' r',
  resL tok b sbe rbe -> trs (Bin k a b) tok trbe ->
  retry_err a b (sa0, tra0, ra0) (sbl, trbl, rbl) rem i (sbe, trbe, rbe) e = (i', p', (st', tr', r')) ->
  trs (Bin k a b) tok tr' /\
  (r' = None -> exists sa sb, st' = OCompl sa sb /\
     ((p' = PFirst /\ live tok a sa) \/ (p' = PSecond /\ live tok b sb))) /\
  (r' <> None -> done_st st').
Proof.
  intros [Ra1 Ra2] Hta Rl Htl.
  induction rem as [|rem IH]; intros i sbe trbe rbe e i' p' st' tr' r' [Re1 Re2] Hte H; simpl in H.
  - inv H. split; [ts|]. split; [discriminate|intros; exact I].
  - destruct rbe as [ob|].
    + destruct ob.
      * destruct ra0 as [oa|].
        -- destruct oa.
           ++ inv H. split; [ts|]. split; [discriminate|intros; exact I].
           ++ destruct (retry_err a b (sa0, tra0, Some (OErr e0)) (sbl, trbl, rbl) rem (S i) (sbl, trbl, rbl) e0)
                as [[i2 p2] [[st2 tr2] r2]] eqn:Hr.
              inv H. destruct (IH _ _ _ _ _ _ _ _ _ _ (Rl (ex_intro _ e0 eq_refl)) Htl Hr) as (T & Q & N).
              split; [ts|auto].
           ++ inv H. split; [ts|]. split; [discriminate|intros; exact I].
           ++ inv H. split; [ts|]. split; [discriminate|intros; exact I].
           ++ inv H. split; [ts|]. split; [discriminate|intros; exact I].
        -- inv H. split; [ts|]. split; [|congruence].
           intros _. exists sa0, OFin. split; [reflexivity|]. left. auto.
      * inv H. split; [ts|]. split; [discriminate|intros; exact I].
      * inv H. split; [ts|]. split; [discriminate|intros; exact I].
      * inv H. split; [ts|]. split; [discriminate|intros; exact I].
      * inv H. split; [ts|]. split; [discriminate|intros; exact I].
    + inv H. split; [ts|]. split; [|congruence].
      intros _. exists OFin, sbe. split; [reflexivity|]. right. auto.
Qed.

Lemma retry_node_l tok n a b ns i' p' st' tr' r' tr0 st tr r :
  e_stopped (n_env ns) = tok ->
  trs (Bin (BRetry n) a b) tok tr0 -> trs (Bin (BRetry n) a b) tok tr' ->
  (r' = None -> exists sa sb, st' = OCompl sa sb /\
     ((p' = PFirst /\ live tok a sa) \/ (p' = PSecond /\ live tok b sb))) ->
  (r' <> None -> done_st st') ->
  retry_node ns (i', p', (st', tr', r')) tr0 = (st, tr, r) ->
  resL tok (Bin (BRetry n) a b) st r /\ trs (Bin (BRetry n) a b) tok tr /\ incl tr0 tr.
Proof.
  intros He Ht0 Ht' Q N H. unfold retry_node in H. destruct r' as [o|].
  - inv H. split; [apply resL_some; apply N; discriminate|]. split; [ts|].
    intros x Hx; apply in_or_app; auto.
  - destruct (Q eq_refl) as (sa & sb & -> & Hl). inv H. split; [|split; [ts|intros x Hx; apply in_or_app; auto]].
    apply resL_none. destruct Hl as [[-> Hl]|[-> Hl]].
    + rewrite live_seq1 by reflexivity. auto.
    + rewrite live_seq2 by (try reflexivity; simpl; discriminate). auto.
Qed.

Lemma rbe_of_l k a b en oa cx sbe trbe rbe :
  StartL b -> rbe_of b en oa cx = (sbe, trbe, rbe) ->
  trs (Bin k a b) (e_stopped en) trbe /\ ((exists e, oa = OErr e) -> resL (e_stopped en) b sbe rbe).
Proof.
  intros Sb H. unfold rbe_of in H.
  destruct oa; try (inv H; split; [ts|intros [e' E]; discriminate E]; fail).
  destruct (Sb _ _ _ _ _ H) as [R T]. split; [apply trs_bin_b; exact T|intros _; exact R].
Qed.
Lemma r0bl_of_l k a b en sa0 tra0 ra0 cx sbl trbl rbl :
  StartL b -> r0bl_of b en (sa0, tra0, ra0) cx = (sbl, trbl, rbl) ->
  trs (Bin k a b) (e_stopped en) trbl /\ ((exists e, ra0 = Some (OErr e)) -> resL (e_stopped en) b sbl rbl).
Proof.
  intros Sb H. unfold r0bl_of in H. simpl in H.
  destruct ra0 as [o|]; [destruct o|]; try (inv H; split; [ts|intros [e' E]; discriminate E]; fail).
  destruct (Sb _ _ _ _ _ H) as [R T]. split; [apply trs_bin_b; exact T|intros _; exact R].
Qed.

Lemma after_first_stopped k en o en2 sv : after_first k en o = inr (en2, sv) -> e_stopped en2 = e_stopped en.
Proof. intros H. apply after_first_env in H. destruct H as [->|[v ->]]; reflexivity. Qed.

Lemma a_done_l tok k a b ns sa tra oa cx sa0 tra0 ra0 sbl trbl rbl st tr r :
  is_seq k = true -> StartL b ->
  e_stopped (n_env ns) = tok -> trs (Bin k a b) tok tra ->
  resL tok a sa0 ra0 -> trs (Bin k a b) tok tra0 ->
  ((exists e', ra0 = Some (OErr e')) -> resL tok b sbl rbl) -> trs (Bin k a b) tok trbl ->
  a_done k a b ns sa tra oa cx (sa0, tra0, ra0) (sbl, trbl, rbl) = (st, tr, r) ->
  resL tok (Bin k a b) st r /\ trs (Bin k a b) tok tr /\ incl tra tr.
Proof.
  intros Hk Sb He Hta Ra0 Hta0 Rl Htl H.
  assert (Gen : match k with BRetry _ => True | _ =>
      match after_first k (n_env ns) oa with
      | inl o => seq_pass k a sa tra o
      | inr (en2, sv) =>
          let '(sb, trb, rb) := start b en2 cx in
          match rb with
          | None => (ONode (ns_set_saved (ns_set_ph ns PSecond) sv) OFin sb, (tra ++ dtor a sa) ++ trb, None)
          | Some ob => seq_final k b sb ((tra ++ dtor a sa) ++ trb) (after_second k sv ob)
          end
      end = (st, tr, r) -> resL tok (Bin k a b) st r /\ trs (Bin k a b) tok tr /\ incl tra tr end).
  { destruct k; try discriminate Hk; try exact I; intros H'.
    all: destruct (after_first _ (n_env ns) oa) as [o'|[en2 sv]] eqn:Haf;
      [eapply seq_pass_l; eassumption|];
      apply after_first_stopped in Haf;
      destruct (start b en2 cx) as [[sb trb] rb] eqn:Hb;
      destruct (Sb _ _ _ _ _ Hb) as [Rb Tb]; rewrite Haf, He in Rb, Tb;
      match goal with |- resL _ (Bin ?kk _ _) _ _ /\ _ =>
        assert (Htb' : trs (Bin kk a b) tok trb) by (apply trs_bin_b; exact Tb) end;
      destruct rb;
      [match goal with |- resL _ (Bin ?kk _ _) _ _ /\ _ =>
         destruct (seq_final_l tok kk a b _ _ _ _ _ _ H') as (X1 & X2 & X3); [ts|] end;
       split; [exact X1|split; [exact X2|]];
       intros x Hx; apply X3; apply in_or_app; left; apply in_or_app; left; exact Hx
      |injection H' as <- <- <-; split; [|split; [ts|intros x Hx; apply in_or_app; left; apply in_or_app; left; exact Hx]];
       apply resL_none; rewrite live_seq2 by (try reflexivity; simpl; discriminate);
       split; [exact He|apply Rb; reflexivity]]. }
  unfold a_done in H. destruct k; try (exact (Gen H)).
  clear Gen. unfold retry_a_done in H.
  destruct oa; try (inv H; split; [auto with calc2|split; [assumption|apply incl_refl]]; fail).
  destruct (rbe_of b (n_env ns) (OErr e) cx) as [[sbe trbe] rbe] eqn:Hrbe.
  destruct (rbe_of_l (BRetry n) a b _ _ _ _ _ _ Sb Hrbe) as [Te Re]. rewrite He in Te, Re.
  specialize (Re (ex_intro _ e eq_refl)).
  destruct (retry_err a b (sa0, tra0, ra0) (sbl, trbl, rbl) (n - n_iter ns) (n_iter ns) (sbe, trbe, rbe) e)
    as [[i' p'] [[st' tr'] r']] eqn:Hr.
  destruct (retry_err_l tok _ _ _ _ _ _ _ _ _ Ra0 Hta0 Rl Htl _ _ _ _ _ _ _ _ _ _ _ Re Te Hr) as (T & Q & N).
  destruct (retry_node_l tok n a b ns i' p' st' tr' r' (tra ++ dtor a sa) st tr r He) as (X1 & X2 & X3);
    [ts|exact T|exact Q|exact N|exact H|].
  split; [exact X1|split; [exact X2|]]. intros x Hx. apply X3. apply in_or_app. auto.
Qed.

Lemma b_done_l tok k a b ns sb trb ob sa0 tra0 ra0 sbl trbl rbl st tr r :
  is_seq k = true ->
  e_stopped (n_env ns) = tok -> trs (Bin k a b) tok trb ->
  resL tok a sa0 ra0 -> trs (Bin k a b) tok tra0 ->
  ((exists e', ra0 = Some (OErr e')) -> resL tok b sbl rbl) -> trs (Bin k a b) tok trbl ->
  b_done k a b ns sb trb ob (sa0, tra0, ra0) (sbl, trbl, rbl) = (st, tr, r) ->
  resL tok (Bin k a b) st r /\ trs (Bin k a b) tok tr /\ incl trb tr.
Proof.
  intros Hk He Htb Ra0 Hta0 Rl Htl H. unfold b_done in H.
  destruct k; try (eapply seq_final_l; eassumption).
  rewrite retry_b_done_eq in H.
  assert (Hi : forall x y, incl trb (trb ++ x ++ y)) by (intros x y z Hz; apply in_or_app; auto).
  assert (Hi2 : forall x, incl trb (trb ++ x)) by (intros x z Hz; apply in_or_app; auto).
  destruct (is_val ob); [|inv H; split; [auto with calc2|split; [ts|auto]]].
  destruct ra0 as [oa|].
  - destruct oa; try (inv H; split; [auto with calc2|split; [ts|auto]]; fail).
    destruct (retry_err a b (sa0, tra0, Some (OErr e)) (sbl, trbl, rbl) (n - n_iter ns) (n_iter ns) (sbl, trbl, rbl) e)
      as [[i' p'] [[st' tr'] r']] eqn:Hr.
    pose proof (Rl (ex_intro _ e eq_refl)) as Rl'.
    destruct (retry_err_l tok _ _ _ _ _ _ _ _ _ Ra0 Hta0 Rl Htl _ _ _ _ _ _ _ _ _ _ _ Rl' Htl Hr) as (T & Q & N).
    destruct (retry_node_l tok n a b ns i' p' st' tr' r' ((trb ++ dtor b sb ++ tra0) ++ dtor a sa0) st tr r He)
      as (X1 & X2 & X3); [ts|exact T|exact Q|exact N|exact H|].
    split; [exact X1|split; [exact X2|]]. intros x Hx. apply X3. apply in_or_app. left. apply Hi. exact Hx.
  - inv H. split; [|split; [ts|auto]]. apply resL_none. rewrite live_seq1 by reflexivity.
    split; [reflexivity|]. apply Ra0. reflexivity.
Qed.

(* ---- concurrent nodes ----------------------------------------------------------------------------- *)
Lemma conc_reap_l k c tokc sc tr r sc' tr' r' :
  conc_reap k c (sc, tr, r) = (sc', tr', r') -> resL tokc c sc r ->
  resL tokc c sc' r' /\ r' = r /\ (forall e tok, trs e tok tr -> trs e tok tr') /\ incl tr tr'.
Proof.
  unfold conc_reap. intros H R.
  destruct k; try (inv H; split; [exact R|split; [reflexivity|split; [auto|apply incl_refl]]]; fail).
  destruct r as [o|]; [destruct o|]; inv H;
    try (split; [exact R|split; [reflexivity|split; [auto|apply incl_refl]]]; fail).
  split; [auto with calc2|]. split; [reflexivity|]. split; [intros; ts|intros x Hx; apply in_or_app; auto].
Qed.

Lemma finish_l k a b ns sa sb tr o st tr' r :
  finish_conc k a b ns sa sb tr (Some o) false = (st, tr', r) ->
  done_st st /\ r = Some o /\ (forall e tok, trs e tok tr -> trs e tok tr') /\ incl tr tr'.
Proof.
  intros H. destruct (finish_some k a b ns sa sb tr o) as (st2 & d & E & Hi & Hd). rewrite E in H. inv H.
  split; [apply inert_done; exact Hi|]. split; [reflexivity|]. split; [|intros x Hx; apply in_or_app; auto].
  intros e tok Ht. destruct Hd as [->| ->]; ts.
Qed.

Lemma ccd_both_done k ns i o ns2 nw fin :
  conc_child_done k ns i o = (ns2, nw, fin) ->
  (if i then adone ns else bdone ns) = true -> fin <> None.
Proof.
  intros H Hd. apply ccd_spec in H. destruct H as (_ & _ & _ & E4 & E5 & _ & _ & Hf).
  intros E. apply Hf in E. rewrite E4, E5 in E. destruct i; rewrite Hd in E; discriminate.
Qed.

(* b completed (its state is done_st), a possibly still running *)
Lemma conc_b_done_l tok k a b ns sa sb' tr ob cx st tr' r :
  is_seq k = false -> StopL a ->
  e_stopped (n_env ns) = tok -> (tok = true -> own_stop ns = true) ->
  chld (live (own_stop ns) a sa) sa (adone ns) -> done_st sb' -> bdone ns = false ->
  trs (Bin k a b) tok tr ->
  conc_b_done k a b ns sa sb' tr ob cx = (st, tr', r) ->
  resL tok (Bin k a b) st r /\ trs (Bin k a b) tok tr' /\ incl tr tr'.
Proof.
  intros Hk Pa He Ho Ha Hsb Hbd Ht H. unfold conc_b_done in H.
  destruct (conc_child_done k ns true ob) as [[ns1 newly] fin] eqn:Hc.
  apply ccd_spec in Hc. destruct Hc as (E1 & _ & _ & E4 & E5 & E6 & E7 & Ef).
  destruct fin as [o1|].
  - destruct (finish_l _ _ _ _ _ _ _ _ _ _ _ H) as (Hi & -> & T & I2). split; [apply resL_some; exact Hi|auto].
  - assert (Had : adone ns = false).
    { destruct Ef as [Ef _]. specialize (Ef eq_refl). rewrite E4, E5, andb_true_r in Ef. exact Ef. }
    rewrite Had in Ha. simpl in Ha.
    destruct newly.
    + rewrite (E7 eq_refl) in *. simpl in E6.
      destruct (stop a sa cx) as [[sa0 tra0] ra0] eqn:Hs.
      destruct (Pa _ _ _ _ _ _ Hs Ha) as (R0 & T0 & _).
      destruct (conc_reap k a (sa0, tra0, ra0)) as [[sa' tra] ra] eqn:Hr.
      destruct (conc_reap_l _ _ _ _ _ _ _ _ _ Hr R0) as ([L1 L2] & -> & Tf & _).
      assert (Tt : trs (Bin k a b) tok (tr ++ tra)).
      { apply trs_app; [exact Ht|]. apply trs_bin_a. apply (trs_weaken a tok true); [auto|]. apply Tf. exact T0. }
      assert (I1 : incl tr (tr ++ tra)) by (intros x Hx; apply in_or_app; auto).
      destruct ra0 as [oa|].
      * destruct (conc_child_done k ns1 false oa) as [[ns2 x] fin2] eqn:Hc2.
        assert (Hf2 : fin2 <> None) by (eapply ccd_both_done; [exact Hc2|exact E5]).
        destruct fin2 as [o2|]; [|congruence].
        destruct (finish_l _ _ _ _ _ _ _ _ _ _ _ H) as (Hi & -> & T & I2).
        split; [apply resL_some; exact Hi|]. split; [auto|]. intros y Hy. auto.
      * inv H. split; [|auto]. apply resL_none. rewrite live_conc by exact Hk.
        rewrite E1, E4, E5, E6, Had. simpl. split; [reflexivity|]. split; [reflexivity|].
        split; [apply L1; reflexivity|]. split; [exact Hsb|reflexivity].
    + inv H. split; [|split; [exact Ht|apply incl_refl]].
      apply resL_none. rewrite live_conc by exact Hk.
      rewrite E1, E4, E5, E6, Had, orb_false_r. simpl. auto 6.
Qed.

Lemma conc_a_done_l tok k a b ns sa' sb tr oa cx st tr' r :
  is_seq k = false -> StopL b ->
  e_stopped (n_env ns) = tok -> (tok = true -> own_stop ns = true) ->
  chld (live (own_stop ns) b sb) sb (bdone ns) -> done_st sa' -> adone ns = false ->
  trs (Bin k a b) tok tr ->
  conc_a_done k a b ns sa' sb tr oa cx = (st, tr', r) ->
  resL tok (Bin k a b) st r /\ trs (Bin k a b) tok tr' /\ incl tr tr'.
Proof.
  intros Hk Pb He Ho Hb Hsa Had Ht H. unfold conc_a_done in H.
  destruct (conc_child_done k ns false oa) as [[ns1 newly] fin] eqn:Hc.
  apply ccd_spec in Hc. destruct Hc as (E1 & _ & _ & E4 & E5 & E6 & E7 & Ef).
  destruct fin as [o1|].
  - destruct (finish_l _ _ _ _ _ _ _ _ _ _ _ H) as (Hi & -> & T & I2). split; [apply resL_some; exact Hi|auto].
  - assert (Hbd : bdone ns = false).
    { destruct Ef as [Ef _]. specialize (Ef eq_refl). rewrite E4, E5 in Ef. exact Ef. }
    rewrite Hbd in Hb. simpl in Hb.
    destruct newly.
    + rewrite (E7 eq_refl) in *. simpl in E6.
      destruct (stop b sb cx) as [[sb0 trb0] rb0] eqn:Hs.
      destruct (Pb _ _ _ _ _ _ Hs Hb) as (R0 & T0 & _).
      destruct (conc_reap k b (sb0, trb0, rb0)) as [[sb' trb] rb] eqn:Hr.
      destruct (conc_reap_l _ _ _ _ _ _ _ _ _ Hr R0) as ([L1 L2] & -> & Tf & _).
      assert (Tt : trs (Bin k a b) tok (tr ++ trb)).
      { apply trs_app; [exact Ht|]. apply trs_bin_b. apply (trs_weaken b tok true); [auto|]. apply Tf. exact T0. }
      assert (I1 : incl tr (tr ++ trb)) by (intros x Hx; apply in_or_app; auto).
      destruct rb0 as [ob|].
      * destruct (conc_child_done k ns1 true ob) as [[ns2 x] fin2] eqn:Hc2.
        assert (Hf2 : fin2 <> None) by (eapply ccd_both_done; [exact Hc2|exact E4]).
        destruct fin2 as [o2|]; [|congruence].
        destruct (finish_l _ _ _ _ _ _ _ _ _ _ _ H) as (Hi & -> & T & I2).
        split; [apply resL_some; exact Hi|]. split; [auto|]. intros y Hy. auto.
      * inv H. split; [|auto]. apply resL_none. rewrite live_conc by exact Hk.
        rewrite E1, E4, E5, E6, Hbd. simpl. split; [reflexivity|]. split; [reflexivity|].
        split; [exact Hsa|]. split; [apply L1; reflexivity|reflexivity].
    + inv H. split; [|split; [exact Ht|apply incl_refl]].
      apply resL_none. rewrite live_conc by exact Hk.
      rewrite E1, E4, E5, E6, Hbd, orb_false_r. simpl. auto 6.
Qed.

Lemma start_conc_l k a b en cx st tr r :
  is_seq k = false -> StartL a -> StopL a -> StartL b ->
  start_conc k a b en cx = (st, tr, r) ->
  resL (e_stopped en) (Bin k a b) st r /\ trs (Bin k a b) (e_stopped en) tr.
Proof.
  intros Hk Sa Pa Sb H. unfold start_conc in H.
  destruct (start a (env_own en (e_stopped en)) cx) as [[sa0 tra0] ra0] eqn:Ha.
  destruct (Sa _ _ _ _ _ Ha) as [Ra0 Ta0].
  change (e_stopped (env_own en (e_stopped en))) with (e_stopped en) in *.
  destruct (conc_reap k a (sa0, tra0, ra0)) as [[sa tra] ra] eqn:Hra.
  destruct (conc_reap_l _ _ _ _ _ _ _ _ _ Hra Ra0) as ([La1 La2] & -> & Tfa & _).
  assert (Ta : trs (Bin k a b) (e_stopped en) tra) by (apply trs_bin_a; apply Tfa; exact Ta0).
  destruct (match ra0 with
            | Some oa => conc_child_done k (conc_ns0 en) false oa
            | None => (conc_ns0 en, false, None) end) as [[ns1 x1] x2] eqn:Hm.
  assert (F : n_env ns1 = en /\ bdone ns1 = false /\ (e_stopped en = true -> own_stop ns1 = true) /\
              chld (live (own_stop ns1) a sa) sa (adone ns1)).
  { destruct ra0 as [oa|].
    - apply ccd_spec in Hm. destruct Hm as (E1 & _ & _ & E4 & E5 & E6 & E7 & _).
      rewrite E1, E4, E5, E6. simpl. repeat split; auto.
      + intros ->. reflexivity.
      + apply La2. discriminate.
    - inv Hm. simpl. repeat split; auto. }
  destruct F as (F1 & F2 & F3 & F4).
  destruct (start b (env_own en (own_stop ns1)) cx) as [[sb0 trb0] rb0] eqn:Hb.
  destruct (Sb _ _ _ _ _ Hb) as [Rb0 Tb0].
  change (e_stopped (env_own en (own_stop ns1))) with (own_stop ns1) in *.
  destruct (conc_reap k b (sb0, trb0, rb0)) as [[sb trb] rb] eqn:Hrb.
  destruct (conc_reap_l _ _ _ _ _ _ _ _ _ Hrb Rb0) as ([Lb1 Lb2] & -> & Tfb & _).
  assert (Tb : trs (Bin k a b) (e_stopped en) trb).
  { apply trs_bin_b. apply (trs_weaken b _ (own_stop ns1)); [exact F3|]. apply Tfb. exact Tb0. }
  destruct rb0 as [ob|].
  - destruct (conc_b_done_l (e_stopped en) k a b ns1 sa sb (tra ++ trb) ob cx st tr r Hk Pa)
      as (R & T & _); auto.
    + rewrite F1. reflexivity.
    + apply Lb2. discriminate.
    + ts.
  - injection H as Hst Htr Hr. subst st tr r. split; [|ts].
    apply resL_none. rewrite live_conc by exact Hk. rewrite F1, F2.
    split; [reflexivity|]. split; [exact F3|]. split; [exact F4|]. split; [simpl; auto|].
    apply andb_false_r.
Qed.

(* the optional stop of one child inside the cancel callback of a concurrent node *)
Lemma opt_stop_l e k (d : bool) s s' tr r cx :
  StopL e -> chld (live false e s) s d ->
  (if d then (s, [], None) else conc_reap k e (stop e s cx)) = (s', tr, r) ->
  (r = None -> chld (live true e s') s' d) /\ (r <> None -> done_st s' /\ d = false) /\
  trs e true tr /\ (forall id, In id (reach_unseen e s) -> In (TLeafStop id) tr).
Proof.
  intros P Hc H. destruct d; simpl in *.
  - inv H. split; [auto|]. split; [congruence|]. split; [apply trs_nil|].
    unfold reach_unseen. rewrite lv_inert by exact Hc. intros id [].
  - destruct (stop e s cx) as [[s0 t0] r0] eqn:Hs.
    destruct (P _ _ _ _ _ _ Hs Hc) as (R0 & T & U).
    destruct (conc_reap_l _ _ _ _ _ _ _ _ _ H R0) as ([L1 L2] & -> & Tf & Ii). auto 6.
Qed.

Lemma opt_ccd k ns i (ro : option outcome) ns2 x fin :
  match ro with Some o => conc_child_done k ns i o | None => (ns, false, None) end = (ns2, x, fin) ->
  n_env ns2 = n_env ns /\ (own_stop ns = true -> own_stop ns2 = true) /\
  adone ns2 = match ro with Some _ => if i then adone ns else true | None => adone ns end /\
  bdone ns2 = match ro with Some _ => if i then true else bdone ns | None => bdone ns end /\
  (ro = None -> fin = None) /\
  (ro <> None -> (fin = None <-> (adone ns2 && bdone ns2)%bool = false)).
Proof.
  intros H. destruct ro as [o|].
  - apply ccd_spec in H. destruct H as (E1 & _ & _ & E4 & E5 & E6 & _ & Ef).
    rewrite E6. repeat split; auto; try congruence.
    + intros ->. reflexivity.
    + apply Ef.
    + apply Ef.
  - inv H. repeat split; auto; congruence.
Qed.

Lemma stop_conc_l tok k a b ns sa sb cx st' tr r :
  is_seq k = false -> StopL a -> StopL b -> own_stop ns = false ->
  live tok (Bin k a b) (ONode ns sa sb) ->
  stop_conc k a b ns sa sb cx = (st', tr, r) ->
  resL true (Bin k a b) st' r /\ trs (Bin k a b) true tr /\
  (forall id, In id (reach_unseen (Bin k a b) (ONode ns sa sb)) -> In (TLeafStop id) tr).
Proof.
  intros Hk Pa Pb Hown HL H. rewrite live_conc in HL by exact Hk.
  destruct HL as (He & Ho & Ha & Hb & Hd). rewrite Hown in Ha, Hb.
  unfold reach_unseen. rewrite lv_conc by exact Hk.
  unfold stop_conc in H. cbv zeta in H. change (leaky k) with false in H.
  change (bdone (ns_set_own (stopped_ns ns) true)) with (bdone ns) in H.
  destruct (if bdone ns then (sb, [], None) else conc_reap k b (stop b sb cx)) as [[sb' trb] rb] eqn:Hbs.
  destruct (opt_stop_l b k _ _ _ _ _ _ Pb Hb Hbs) as (B1 & B2 & B3 & B4).
  destruct (match rb with
            | Some ob => conc_child_done k (ns_set_own (stopped_ns ns) true) true ob
            | None => (ns_set_own (stopped_ns ns) true, false, None) end) as [[ns2 x] fin1] eqn:Hm.
  apply opt_ccd in Hm. simpl in Hm. destruct Hm as (M1 & M2 & M3 & M4 & M5 & M6).
  specialize (M2 eq_refl).
  destruct fin1 as [o1|].
  - destruct (finish_l _ _ _ _ _ _ _ _ _ _ _ H) as (Hi & -> & Tf & Ii).
    assert (Hrb : rb <> None) by (intros E; apply M5 in E; discriminate).
    destruct (B2 Hrb) as [Hsb' Hbd].
    destruct rb as [ob|]; [|congruence].
    assert (Had : adone ns = true).
    { destruct (M6 Hrb) as [_ M6b]. rewrite M3 in M6b.
      destruct (adone ns); [reflexivity|]. simpl in M6b. discriminate (M6b eq_refl). }
    rewrite Had in Ha. simpl in Ha.
    split; [apply resL_some; exact Hi|]. split; [apply Tf; apply trs_bin_b; exact B3|].
    intros id Hin. rewrite (lv_inert _ _ a sa Ha) in Hin. simpl in Hin. auto.
  - destruct (if adone ns2 then (sa, [], None) else conc_reap k a (stop a sa cx)) as [[sa' tra] ra] eqn:Has.
    rewrite M3 in Has.
    assert (Ha2 : chld (live false a sa) sa (match rb with Some _ => adone ns | None => adone ns end))
      by (destruct rb; exact Ha).
    destruct (opt_stop_l a k _ _ _ _ _ _ Pa Ha2 Has) as (A1 & A2 & A3 & A4).
    destruct (match ra with
              | Some oa => conc_child_done k ns2 false oa
              | None => (ns2, false, None) end) as [[ns3 y] fin2] eqn:Hm2.
    apply opt_ccd in Hm2. destruct Hm2 as (N1 & N2 & N3 & N4 & N5 & N6).
    specialize (N2 M2).
    assert (T : trs (Bin k a b) true (trb ++ tra)) by auto with calc2.
    assert (U : forall id, In id (lv false negb a sa ++ lv false negb b sb) -> In (TLeafStop id) (trb ++ tra)).
    { intros id Hin. apply in_app_or in Hin. apply in_or_app. destruct Hin; [right; auto|left; auto]. }
    destruct fin2 as [o2|].
    + destruct (finish_l _ _ _ _ _ _ _ _ _ _ _ H) as (Hi & -> & Tf & Ii).
      split; [apply resL_some; exact Hi|]. split; [auto|]. intros id Hin. apply Ii. auto.
    + rewrite finish_none in H. inv H. split; [|auto].
      apply resL_none. rewrite live_conc by exact Hk.
      rewrite N1, M1, N2, N3, N4, M3, M4. simpl.
      split; [reflexivity|]. split; [reflexivity|].
      assert (Hdd : (adone ns3 && bdone ns3)%bool = false).
      { destruct ra as [oa|].
        - apply N6; [discriminate|reflexivity].
        - rewrite N3, N4. destruct rb as [ob|].
          + apply M6; [discriminate|reflexivity].
          + rewrite M3, M4. exact Hd. }
      rewrite N3, N4, M3, M4 in Hdd.
      split; [|split; [|exact Hdd]].
      * destruct ra as [oa|].
        -- destruct (A2 ltac:(discriminate)) as [Hsa' _]. destruct rb; exact Hsa'.
        -- specialize (A1 eq_refl). destruct rb; exact A1.
      * destruct rb as [ob|].
        -- destruct (B2 ltac:(discriminate)) as [Hsb' _]. destruct ra; exact Hsb'.
        -- specialize (B1 eq_refl). destruct ra; exact B1.
Qed.

(* [stage 4] the child's result as its parent sees it (possibly re-delivered, possibly with a caught exception) *)
Lemma child_ev_l thr cat tok c sc id oin o cx sc' tr r hit :
  LeafevL c -> live tok c sc ->
  child_ev thr cat c sc id oin o cx = ((sc', tr, r), hit) ->
  resL tok c sc' r /\ trs c tok tr.
Proof.
  intros L HL H. apply child_ev_none in H. destruct H as (oin' & ro & h & E & Hro).
  destruct (L _ _ _ _ _ _ _ _ _ E HL) as [[R1 R2] T]. split; [|exact T].
  split; [intros En; apply R1; apply Hro; exact En|intros En; apply R2; intros E2; apply Hro in E2; contradiction].
Qed.

Lemma leafev_conc_l tok k a b ns sa sb id o cx st' tr r hit :
  is_seq k = false -> LeafevL a -> LeafevL b -> StopL a -> StopL b ->
  live tok (Bin k a b) (ONode ns sa sb) ->
  leafev_conc k a b ns sa sb id o cx = (st', tr, r, hit) ->
  resL tok (Bin k a b) st' r /\ trs (Bin k a b) tok tr.
Proof.
  intros Hk La Lb Pa Pb HL H. assert (HL0 := HL). rewrite live_conc in HL by exact Hk.
  destruct HL as (He & Ho & Ha & Hb & Hd). unfold leafev_conc in H.
  destruct (if adone ns then (sa, [], None, false)
            else reap_ev k a (child_ev (bin_throw k false) false a sa id (tmode o) o cx))
    as [[[sa' tra] ra] hita] eqn:Has.
  destruct hita.
  - destruct (adone ns) eqn:Had; [inv Has|]. simpl in Ha.
    destruct (child_ev (bin_throw k false) false a sa id (tmode o) o cx) as [[[sa0 tra0] ra0] h0] eqn:Hl.
    unfold reap_ev in Has. simpl in Has.
    injection Has as Has ->.
    destruct (child_ev_l _ _ _ _ _ _ _ _ _ _ _ _ _ La Ha Hl) as [R0 T0].
    destruct (conc_reap_l _ _ _ _ _ _ _ _ _ Has R0) as ([L1 L2] & -> & Tf & _).
    assert (Tt : trs (Bin k a b) tok tra).
    { apply trs_bin_a. apply (trs_weaken a _ (own_stop ns)); [exact Ho|]. apply Tf. exact T0. }
    destruct ra0 as [oa|].
    + injection H as H Hhit.
      destruct (conc_a_done_l tok k a b ns sa' sb tra oa cx st' tr r Hk Pb He Ho Hb) as (R & T & _); auto.
      apply L2. discriminate.
    + inv H. split; [|exact Tt].
      apply resL_none. rewrite live_conc by exact Hk. rewrite Had. simpl. auto 6.
  - destruct (if bdone ns then (sb, [], None, false) else reap_ev k b (leafev b sb id (tmode o) cx))
      as [[[sb' trb] rb] hitb] eqn:Hbs.
    destruct (bdone ns) eqn:Hbd.
    + inv Hbs. inv H. split; [apply resL_none; exact HL0|]. apply trs_nil.
    + simpl in Hb.
      destruct (leafev b sb id (tmode o) cx) as [[[sb0 trb0] rb0] h0] eqn:Hl. unfold reap_ev in Hbs. simpl in Hbs.
      injection Hbs as Hbs ->.
      destruct (Lb _ _ _ _ _ _ _ _ _ Hl Hb) as [R0 T0].
      destruct (conc_reap_l _ _ _ _ _ _ _ _ _ Hbs R0) as ([L1 L2] & -> & Tf & _).
      assert (Tt : trs (Bin k a b) tok trb).
      { apply trs_bin_b. apply (trs_weaken b _ (own_stop ns)); [exact Ho|]. apply Tf. exact T0. }
      assert (Ha' : chld (live (own_stop ns) a sa) sa (adone ns)).
      { destruct (adone ns) eqn:Had.
        - (* a done: the first [if] returned sa unchanged *) inv Has. exact Ha.
        - exact Ha. }
      destruct rb0 as [ob|].
      * injection H as H Hhit.
        destruct (conc_b_done_l tok k a b ns sa sb' trb ob cx st' tr r Hk Pa He Ho Ha') as (R & T & _); auto.
        apply L2. discriminate.
      * inv H. split; [|exact Tt].
        apply resL_none. rewrite live_conc by exact Hk. rewrite Hbd. simpl. auto 6.
Qed.

(* ---- the main induction --------------------------------------------------------------------------- *)
Lemma un_env_tok k en : e_stopped (un_env k en) = un_tok k (e_stopped en) (un_nst k en).
Proof. destruct k; try reflexivity. destruct q; reflexivity. Qed.
Lemma un_nst_env k en : n_env (un_nst k en) = en.
Proof. destruct k; reflexivity. Qed.
Lemma un_nst_own k en : un_own k = true -> e_stopped en = true -> own_stop (un_nst k en) = true.
Proof. destruct k; try discriminate. simpl. intros _ ->. apply orb_true_r. Qed.
Lemma un_env_repeat l en : un_env (URepeat l) en = en.
Proof. reflexivity. Qed.

Lemma start_leaflike_l (e : sexpr) id en cx st tr r (c1 : bool) :
  In id (leaf_ids e) ->
  (forall tok, live tok e (OLeaf false tok)) -> (forall s, done_st (OLeaf true s)) ->
  (if e_stopped en
   then (OLeaf c1 true, [TLeafStart id true (e_stoppable en) (e_q0 en) (e_q1 en) (e_sched en) cx; TLeafStop id],
         if c1 then Some ODone else None)
   else (OLeaf false false, [TLeafStart id false (e_stoppable en) (e_q0 en) (e_q1 en) (e_sched en) cx], None))
  = (st, tr, r) ->
  resL (e_stopped en) e st r /\ trs e (e_stopped en) tr.
Proof.
  intros Hin Hl Hd H. destruct (e_stopped en) eqn:Es; inv H.
  - split; [destruct c1; [apply resL_some; apply Hd|apply resL_none; apply Hl]|].
    repeat constructor; simpl; auto.
  - split; [apply resL_none; apply Hl|]. repeat constructor; simpl; auto; try discriminate.
Qed.

Lemma all_l e : StartL e /\ StopL e /\ LeafevL e.
Proof.
  induction e as [v|x| |n|i|i|i c|i lvl| |idc|k s IH|k a IHa b IHb].
  - split; [|split].
    + intros en cx st tr r H. simpl in H. inv H. auto with calc2.
    + intros tok cx st st' tr r H HL. destruct st; contradiction HL.
    + intros tok cx st id o st' tr r hit H HL. destruct st; contradiction HL.
  - split; [|split].
    + intros en cx st tr r H. simpl in H. inv H. auto with calc2.
    + intros tok cx st st' tr r H HL. destruct st; contradiction HL.
    + intros tok cx st id o st' tr r hit H HL. destruct st; contradiction HL.
  - split; [|split].
    + intros en cx st tr r H. simpl in H. inv H. auto with calc2.
    + intros tok cx st st' tr r H HL. destruct st; contradiction HL.
    + intros tok cx st id o st' tr r hit H HL. destruct st; contradiction HL.
  - split; [|split].
    + intros en cx st tr r H. simpl in H. inv H. auto with calc2.
    + intros tok cx st st' tr r H HL. destruct st; contradiction HL.
    + intros tok cx st id o st' tr r hit H HL. destruct st; contradiction HL.
  - (* Leaf *)
    split; [|split].
    + intros en cx st tr r H. simpl in H.
      apply (start_leaflike_l (Leaf i) i en cx st tr r false); [simpl; auto|simpl; auto|intros; exact I|].
      destruct (e_stopped en); exact H.
    + intros tok cx st st' tr r H HL. destruct st as [|cc sn| | |]; try contradiction HL.
      destruct HL as [-> ->]. destruct tok; simpl in H; inv H.
      * split; [apply resL_none; simpl; auto|]. split; [apply trs_nil|]. intros id [].
      * split; [apply resL_none; simpl; auto|]. split; [repeat constructor|].
        intros id [<-|[]]. left. reflexivity.
    + intros tok cx st id o st' tr r hit H HL. destruct st as [|cc sn| | |]; try contradiction HL.
      assert (HL0 := HL). destruct HL as [-> ->]. simpl in H.
      destruct (Nat.eqb id i); inv H; (split; [|apply trs_nil]); [apply resL_some; exact I|apply resL_none; exact HL0].
  - (* LeafN *)
    split; [|split].
    + intros en cx st tr r H. simpl in H.
      apply (start_leaflike_l (LeafN i) i en cx st tr r true); [simpl; auto|simpl; auto|intros; exact I|].
      destruct (e_stopped en); exact H.
    + intros tok cx st st' tr r H HL. destruct st as [|cc sn| | |]; try contradiction HL.
      destruct HL as [-> ->]. destruct tok; simpl in H; inv H.
      * split; [apply resL_none; simpl; auto|]. split; [apply trs_nil|]. intros id [].
      * split; [apply resL_some; exact I|]. split; [repeat constructor|].
        intros id [<-|[]]. left. reflexivity.
    + intros tok cx st id o st' tr r hit H HL. destruct st as [|cc sn| | |]; try contradiction HL.
      assert (HL0 := HL). destruct HL as [-> ->]. simpl in H.
      destruct (Nat.eqb id i); inv H; (split; [|apply trs_nil]); [apply resL_some; exact I|apply resL_none; exact HL0].
  - (* Sched *)
    split; [|split].
    + intros en cx st tr r H. simpl in H. inv H. split; [apply resL_none; simpl; auto|]. repeat constructor.
    + intros tok cx st st' tr r H HL. destruct st as [|cc sn| | |]; try contradiction HL.
      destruct HL as [-> ->]. destruct tok; simpl in H; inv H.
      * split; [apply resL_none; simpl; auto|]. split; [apply trs_nil|]. intros id [].
      * split; [apply resL_none; simpl; auto|]. split; [apply trs_nil|]. intros id [].
    + intros tok cx st id o st' tr r hit H HL. destruct st as [|cc sn| | |]; try contradiction HL.
      assert (HL0 := HL). destruct HL as [-> ->]. simpl in H.
      destruct (Nat.eqb id i); inv H; (split; [|apply trs_nil]); [apply resL_some; exact I|apply resL_none; exact HL0].
  - (* LeafR *)
    split; [|split].
    + intros en cx st tr r H. simpl in H.
      apply (start_leaflike_l (LeafR i lvl) i en cx st tr r false); [simpl; auto|simpl; auto|intros; exact I|].
      destruct (e_stopped en); exact H.
    + intros tok cx st st' tr r H HL. destruct st as [|cc sn| | |vv]; try contradiction HL.
      * destruct HL as [-> ->]. destruct tok; simpl in H; inv H.
        -- split; [apply resL_none; simpl; auto|]. split; [apply trs_nil|]. intros id [].
        -- split; [apply resL_none; simpl; auto|]. split; [repeat constructor|].
           intros id [<-|[]]. left. reflexivity.
      * simpl in H. inv H. split; [apply resL_none; exact I|]. split; [apply trs_nil|]. intros id [].
    + intros tok cx st id o st' tr r hit H HL. destruct st as [|cc sn| | |vv]; try contradiction HL.
      * assert (HL0 := HL). destruct HL as [-> ->]. simpl in H.
        destruct (Nat.eqb id i); [|inv H; split; [apply resL_none; exact HL0|apply trs_nil]].
        destruct o; inv H; (split; [|repeat constructor]);
          solve [apply resL_none; exact I|apply resL_some; exact I].
      * simpl in H. destruct (Nat.eqb id i); inv H; (split; [|apply trs_nil]);
          [apply resL_some; exact I|apply resL_none; exact I].
  - (* StopIf *)
    split; [|split].
    + intros en cx st tr r H. simpl in H. inv H. auto with calc2.
    + intros tok cx st st' tr r H HL. destruct st; contradiction HL.
    + intros tok cx st id o st' tr r hit H HL. destruct st; contradiction HL.
  - (* LeafC *)
    split; [|split].
    + intros en cx st tr r H. simpl in H. inv H. split; [apply resL_fin|apply trs_nil].
    + intros tok cx st st' tr r H HL. destruct st; contradiction HL.
    + intros tok cx st id o st' tr r hit H HL. destruct st; contradiction HL.
  - (* Un *)
    destruct IH as (Ss & Ps & Ls). split; [|split].
    + intros en cx st tr r H. rewrite start_un in H.
      destruct (sthrows (Un k s));
        [unfold start_thrown in H; injection H as <- <- <-; split; [apply resL_fin|exact (trs_sconn (Un k s) _ _ _)]|].
      destruct (start s (un_env k en) cx) as [[sc tr1] r1] eqn:Hs.
      destruct (Ss _ _ _ _ _ Hs) as [R1 T1]. rewrite un_env_tok in R1, T1.
      assert (T' : trs (Un k s) (e_stopped en) tr1).
      { eapply trs_un_gen; [|exact T1]. apply un_nst_own. }
      assert (Tp : trs (Un k s) (e_stopped en) (un_pre k en ++ tr1)) by (apply trs_app; [apply trs_un_pre|exact T']).
      destruct r1 as [o1|].
      * destruct (un_fin_l (e_stopped en) k s (un_nst k en) sc (un_pre k en ++ tr1) o1 sc tr1 (Some o1) st tr r)
          as (X1 & X2 & _); [|apply (proj2 R1); discriminate|exact Tp|exact H|auto].
        intros l ->. split; [reflexivity|]. split; [exact R1|exact T'].
      * inv H. split; [|exact Tp]. apply resL_none. rewrite live_un.
        split; [intros _; rewrite un_nst_env; reflexivity|]. split; [apply un_nst_own|]. apply R1. reflexivity.
    + intros tok cx st st' tr r H HL. destruct st as [|cc sn|ns sc sb|sa sb|vv]; try contradiction HL.
      rewrite live_un in HL. destruct HL as (He & Ho & HL).
      destruct (is_unst k) eqn:Hk.
      * apply is_unst_true in Hk. subst k. rewrite stop_un_unst in H. inv H.
        split; [apply resL_none; rewrite live_un; simpl; split; [discriminate|]; split; [discriminate|exact HL]|].
        split; [apply trs_nil|]. intros id [].
      * specialize (He eq_refl). rewrite stop_un in H by exact Hk. unfold stop_un_body in H.
        unfold reach_unseen. rewrite lv_un, Hk. simpl. unfold un_tok in HL. rewrite Hk in HL.
        destruct (un_own k) eqn:Hown; cbn [andb] in H.
        -- (* own stop source *)
           destruct (own_stop ns) eqn:Hos.
           ++ inv H. split; [|split; [apply trs_nil|]].
              ** apply resL_none. rewrite live_un. split; [reflexivity|]. split; [intros; exact Hos|].
                 unfold un_tok. rewrite Hk, Hown. simpl. rewrite Hos. exact HL.
              ** intros id Hin. pose proof (live_true_unseen s sc HL) as E. unfold reach_unseen in E.
                 rewrite E in Hin. contradiction Hin.
           ++ destruct (stop s sc cx) as [[sc' tr1] r1] eqn:Hs.
              destruct (Ps _ _ _ _ _ _ Hs HL) as (R1 & T1 & U1).
              apply (trs_un k) in T1; [|exact Hk].
              destruct r1 as [o1|].
              ** destruct (start s (un_env k (n_env (ns_set_own (stopped_ns ns) true))) cx) as [[sc0 tr0] rr0] eqn:H0.
                 destruct (un_fin_l true k s (ns_set_own (stopped_ns ns) true) sc' tr1 o1 sc0 tr0 rr0 st' tr r)
                   as (X1 & X2 & X3); [|apply (proj2 R1); discriminate|exact T1|exact H|].
                 { intros l E. subst k. discriminate Hown. }
                 split; [exact X1|]. split; [exact X2|]. intros id Hin. apply X3. auto.
              ** inv H. split; [|auto]. apply resL_none. rewrite live_un.
                 split; [reflexivity|]. split; [reflexivity|].
                 unfold un_tok. rewrite Hk, Hown. simpl. apply R1. reflexivity.
        -- destruct (stop s sc cx) as [[sc' tr1] r1] eqn:Hs.
           destruct (Ps _ _ _ _ _ _ Hs HL) as (R1 & T1 & U1).
           apply (trs_un k) in T1; [|exact Hk].
           destruct r1 as [o1|].
           ++ destruct (start s (un_env k (n_env (stopped_ns ns))) cx) as [[sc0 tr0] rr0] eqn:H0.
              destruct (un_fin_l true k s (stopped_ns ns) sc' tr1 o1 sc0 tr0 rr0 st' tr r) as (X1 & X2 & X3);
                [|apply (proj2 R1); discriminate|exact T1|exact H|].
              { intros l ->. rewrite un_env_repeat in H0. destruct (Ss _ _ _ _ _ H0) as [R0 T0].
                split; [reflexivity|]. split; [exact R0|]. apply trs_un; [reflexivity|exact T0]. }
              split; [exact X1|]. split; [exact X2|]. intros id Hin. apply X3. auto.
           ++ inv H. split; [|auto]. apply resL_none. rewrite live_un.
              split; [reflexivity|]. split; [rewrite Hown; discriminate|].
              unfold un_tok. rewrite Hk, Hown. apply R1. reflexivity.
    + intros tok cx st id o st' tr r hit H HL. destruct st as [|cc sn|ns sc sb|sa sb|vv]; try contradiction HL.
      assert (HL0 := HL). rewrite live_un in HL. destruct HL as (He & Ho & HL).
      rewrite leafev_un in H. unfold leafev_un_body in H.
      destruct (child_ev (un_throw k) (un_catch k) s sc id (un_in k o) o cx) as [[[sc' tr1] r1] h1] eqn:Hs.
      destruct (child_ev_l _ _ _ _ _ _ _ _ _ _ _ _ _ Ls HL Hs) as [R1 T1].
      assert (T' : trs (Un k s) tok tr1) by (eapply trs_un_gen; eassumption).
      destruct r1 as [o1|].
      * injection H as H Hh.
        destruct (start s (un_env k (n_env ns)) cx) as [[sc0 tr0] rr0] eqn:H0.
        destruct (un_fin_l tok k s ns sc' tr1 o1 sc0 tr0 rr0 st' tr r) as (X1 & X2 & _);
          [|apply (proj2 R1); discriminate|exact T'|exact H|auto].
        intros l ->. rewrite un_env_repeat in H0. destruct (Ss _ _ _ _ _ H0) as [R0 T0].
        rewrite (He eq_refl) in R0, T0.
        split; [exact (He eq_refl)|]. split; [exact R0|]. apply trs_un; [reflexivity|exact T0].
      * destruct (un_own k && fired (e_ss (n_env ns)) tr1)%bool eqn:Hf.
        2:{ inv H. split; [|exact T']. apply resL_none. rewrite live_un. split; [exact He|]. split; [exact Ho|].
            apply R1. reflexivity. }
        apply andb_true_iff in Hf. destruct Hf as [Hown _].
        assert (Hk : is_unst k = false) by (destruct k; try discriminate Hown; reflexivity).
        unfold un_tok in HL, R1, T1. rewrite Hk, Hown in HL, R1, T1.
        unfold fired_body in H.
        destruct (if own_stop ns then (ns, (sc', [], None)) else (ns_set_own ns true, stop s sc' cx))
          as [ns1 [[sc1 tr2] r2]] eqn:Hm.
        assert (Hm' : n_env ns1 = n_env ns /\ own_stop ns1 = true /\ resL true s sc1 r2 /\ trs (Un k s) tok tr2).
        { destruct (own_stop ns) eqn:Hos.
          - inv Hm. split; [reflexivity|]. split; [exact Hos|]. split; [exact R1|apply trs_nil].
          - destruct (stop s sc' cx) as [[sc1' tr2'] r2'] eqn:Hst. inv Hm.
            destruct (Ps _ _ _ _ _ _ Hst (proj1 R1 eq_refl)) as (Q & T & _).
            split; [reflexivity|]. split; [reflexivity|]. split; [exact Q|].
            apply trs_un; [exact Hk|]. apply (trs_weaken s tok true); [auto|exact T]. }
        destruct Hm' as (En1 & Eo1 & R2 & T2).
        destruct r2 as [oc|].
        -- injection H as H Hh. destruct (un_done_l tok k s sc1 (tr1 ++ tr2) oc st' tr r H) as (X1 & X2 & _); [ts|auto].
        -- destruct (leafev s sc1 id o cx) as [[[sc3 tr3] r3] h3] eqn:Hs3.
           destruct (Ls _ _ _ _ _ _ _ _ _ Hs3 (proj1 R2 eq_refl)) as [R3 T3].
           assert (T3' : trs (Un k s) tok tr3).
           { apply trs_un; [exact Hk|]. apply (trs_weaken s tok true); [auto|exact T3]. }
           destruct r3 as [oc|].
           ++ injection H as H Hh.
              destruct (un_done_l tok k s sc3 (tr1 ++ tr2 ++ tr3) oc st' tr r H) as (X1 & X2 & _); [ts|auto].
           ++ inv H. split; [|ts]. apply resL_none. rewrite live_un. rewrite En1.
              split; [exact He|]. split; [intros; exact Eo1|].
              unfold un_tok. rewrite Hk, Hown, Eo1. apply R3. reflexivity.
  - (* Bin *)
    destruct IHa as (Sa & Pa & La). destruct IHb as (Sb & Pb & Lb).
    destruct (is_seq k) eqn:Hk.
    + assert (R0 : forall en cx sa0 tra0 ra0 sbl trbl rbl,
                 start a en cx = (sa0, tra0, ra0) ->
                 r0bl_of b en (sa0, tra0, ra0) cx = (sbl, trbl, rbl) ->
                 resL (e_stopped en) a sa0 ra0 /\ trs (Bin k a b) (e_stopped en) tra0 /\
                 ((exists e', ra0 = Some (OErr e')) -> resL (e_stopped en) b sbl rbl) /\
                 trs (Bin k a b) (e_stopped en) trbl).
      { intros en cx sa0 tra0 ra0 sbl trbl rbl E1 E2.
        destruct (Sa _ _ _ _ _ E1) as [Q T]. apply (trs_bin_a k a b) in T.
        destruct (r0bl_of_l k a b _ _ _ _ _ _ _ _ Sb E2) as [T2 Q2]. auto. }
      split; [|split].
      * intros en cx st tr r H. rewrite start_bin_seq in H by exact Hk.
        destruct (sthrows (Bin k a b));
          [unfold start_thrown in H; injection H as <- <- <-; split; [apply resL_fin|exact (trs_sconn (Bin k a b) _ _ _)]|].
        unfold start_seq in H.
        destruct (start a en cx) as [[sa tra] ra] eqn:Ha.
        destruct (Sa _ _ _ _ _ Ha) as [R1 T1]. apply (trs_bin_a k a b) in T1.
        destruct ra as [oa|].
        -- destruct (rbe_of b en oa cx) as [[sbl trbl] rbl] eqn:Hrb.
           destruct (rbe_of_l k a b _ _ _ _ _ _ Sb Hrb) as [Tl Rl].
           destruct (a_done_l (e_stopped en) k a b (mk_nst PFirst en) sa tra oa cx sa tra (Some oa) sbl trbl rbl st tr r)
             as (X1 & X2 & _); auto.
           intros [e' E]. inv E. apply Rl. eauto.
        -- inv H. split; [|exact T1]. apply resL_none.
           rewrite live_seq1 by (auto; reflexivity). split; [reflexivity|]. apply R1. reflexivity.
      * intros tok cx st st' tr r H HL. destruct st as [|cc sn|ns sa sb|sa sb|vv]; try contradiction HL.
        rewrite stop_bin, Hk in H. unfold reach_unseen.
        destruct (ph ns) eqn:Hp.
        -- rewrite live_seq1 in HL by assumption. destruct HL as [He HL].
           rewrite lv_seq1 by assumption.
           unfold stop_seq1 in H. destruct (stop a sa cx) as [[sa' tra] ra] eqn:Ha.
           destruct (Pa _ _ _ _ _ _ Ha HL) as (R1 & T1 & U1). apply (trs_bin_a k a b) in T1.
           destruct ra as [oa|].
           ++ destruct (start a (n_env (stopped_ns ns)) cx) as [[sa0 tra0] ra0] eqn:E1.
              destruct (r0bl_of b (n_env (stopped_ns ns)) (sa0, tra0, ra0) cx) as [[sbl trbl] rbl] eqn:E2.
              destruct (R0 _ _ _ _ _ _ _ _ E1 E2) as (Q1 & Tq1 & Q2 & Tq2).
              destruct (a_done_l true k a b (stopped_ns ns) sa' tra oa cx sa0 tra0 ra0 sbl trbl rbl st' tr r)
                as (X1 & X2 & X3); auto.
           ++ inv H. split; [|auto]. apply resL_none.
              rewrite live_seq1 by (auto; exact Hp). split; [reflexivity|]. apply R1. reflexivity.
        -- assert (Hp' : ph ns <> PFirst) by congruence.
           rewrite live_seq2 in HL by assumption. destruct HL as [He HL].
           rewrite lv_seq2 by assumption.
           unfold stop_seq2 in H. destruct (stop b sb cx) as [[sb' trb] rb] eqn:Hb.
           destruct (Pb _ _ _ _ _ _ Hb HL) as (R1 & T1 & U1). apply (trs_bin_b k a b) in T1.
           destruct rb as [ob|].
           ++ destruct (start a (n_env (stopped_ns ns)) cx) as [[sa0 tra0] ra0] eqn:E1.
              destruct (r0bl_of b (n_env (stopped_ns ns)) (sa0, tra0, ra0) cx) as [[sbl trbl] rbl] eqn:E2.
              destruct (R0 _ _ _ _ _ _ _ _ E1 E2) as (Q1 & Tq1 & Q2 & Tq2).
              destruct (b_done_l true k a b (stopped_ns ns) sb' trb ob sa0 tra0 ra0 sbl trbl rbl st' tr r)
                as (X1 & X2 & X3); auto.
           ++ inv H. split; [|auto]. apply resL_none.
              rewrite live_seq2 by (auto; exact Hp'). split; [reflexivity|]. apply R1. reflexivity.
        -- assert (Hp' : ph ns <> PFirst) by congruence.
           rewrite live_seq2 in HL by assumption. destruct HL as [He HL].
           rewrite lv_seq2 by assumption.
           unfold stop_seq2 in H. destruct (stop b sb cx) as [[sb' trb] rb] eqn:Hb.
           destruct (Pb _ _ _ _ _ _ Hb HL) as (R1 & T1 & U1). apply (trs_bin_b k a b) in T1.
           destruct rb as [ob|].
           ++ destruct (start a (n_env (stopped_ns ns)) cx) as [[sa0 tra0] ra0] eqn:E1.
              destruct (r0bl_of b (n_env (stopped_ns ns)) (sa0, tra0, ra0) cx) as [[sbl trbl] rbl] eqn:E2.
              destruct (R0 _ _ _ _ _ _ _ _ E1 E2) as (Q1 & Tq1 & Q2 & Tq2).
              destruct (b_done_l true k a b (stopped_ns ns) sb' trb ob sa0 tra0 ra0 sbl trbl rbl st' tr r)
                as (X1 & X2 & X3); auto.
           ++ inv H. split; [|auto]. apply resL_none.
              rewrite live_seq2 by (auto; exact Hp'). split; [reflexivity|]. apply R1. reflexivity.
      * intros tok cx st id o st' tr r hit H HL. destruct st as [|cc sn|ns sa sb|sa sb|vv]; try contradiction HL.
        rewrite leafev_bin_seq in H by exact Hk.
        destruct (ph ns) eqn:Hp.
        -- rewrite live_seq1 in HL by assumption. destruct HL as [He HL].
           unfold leafev_seq1 in H.
           destruct (child_ev (bin_throw k false) (bin_catch k false) a sa id (bin_in k false o) o cx)
             as [[[sa' tra] ra] h1] eqn:Ha.
           destruct (child_ev_l _ _ _ _ _ _ _ _ _ _ _ _ _ La HL Ha) as [R1 T1]. apply (trs_bin_a k a b) in T1.
           destruct ra as [oa|].
           ++ injection H as H Hhit.
              destruct (start a (n_env ns) cx) as [[sa0 tra0] ra0] eqn:E1.
              destruct (r0bl_of b (n_env ns) (sa0, tra0, ra0) cx) as [[sbl trbl] rbl] eqn:E2.
              destruct (R0 _ _ _ _ _ _ _ _ E1 E2) as (Q1 & Tq1 & Q2 & Tq2). rewrite He in Q1, Tq1, Q2, Tq2.
              destruct (a_done_l tok k a b ns sa' tra oa cx sa0 tra0 ra0 sbl trbl rbl st' tr r)
                as (X1 & X2 & X3); auto.
           ++ inv H. split; [|auto]. apply resL_none.
              rewrite live_seq1 by (auto; exact Hp). split; [reflexivity|]. apply R1. reflexivity.
        -- assert (Hp' : ph ns <> PFirst) by congruence.
           rewrite live_seq2 in HL by assumption. destruct HL as [He HL].
           unfold leafev_seq2 in H.
           destruct (child_ev (bin_throw k true) (bin_catch k true) b sb id (bin_in k true o) o cx)
             as [[[sb' trb] rb] h1] eqn:Hb.
           destruct (child_ev_l _ _ _ _ _ _ _ _ _ _ _ _ _ Lb HL Hb) as [R1 T1]. apply (trs_bin_b k a b) in T1.
           destruct rb as [ob|].
           ++ injection H as H Hhit.
              destruct (start a (n_env ns) cx) as [[sa0 tra0] ra0] eqn:E1.
              destruct (r0bl_of b (n_env ns) (sa0, tra0, ra0) cx) as [[sbl trbl] rbl] eqn:E2.
              destruct (R0 _ _ _ _ _ _ _ _ E1 E2) as (Q1 & Tq1 & Q2 & Tq2). rewrite He in Q1, Tq1, Q2, Tq2.
              destruct (b_done_l tok k a b ns sb' trb ob sa0 tra0 ra0 sbl trbl rbl st' tr r)
                as (X1 & X2 & X3); auto.
           ++ inv H. split; [|auto]. apply resL_none.
              rewrite live_seq2 by (auto; exact Hp'). split; [reflexivity|]. apply R1. reflexivity.
        -- assert (Hp' : ph ns <> PFirst) by congruence.
           rewrite live_seq2 in HL by assumption. destruct HL as [He HL].
           unfold leafev_seq2 in H.
           destruct (child_ev (bin_throw k true) (bin_catch k true) b sb id (bin_in k true o) o cx)
             as [[[sb' trb] rb] h1] eqn:Hb.
           destruct (child_ev_l _ _ _ _ _ _ _ _ _ _ _ _ _ Lb HL Hb) as [R1 T1]. apply (trs_bin_b k a b) in T1.
           destruct rb as [ob|].
           ++ injection H as H Hhit.
              destruct (start a (n_env ns) cx) as [[sa0 tra0] ra0] eqn:E1.
              destruct (r0bl_of b (n_env ns) (sa0, tra0, ra0) cx) as [[sbl trbl] rbl] eqn:E2.
              destruct (R0 _ _ _ _ _ _ _ _ E1 E2) as (Q1 & Tq1 & Q2 & Tq2). rewrite He in Q1, Tq1, Q2, Tq2.
              destruct (b_done_l tok k a b ns sb' trb ob sa0 tra0 ra0 sbl trbl rbl st' tr r)
                as (X1 & X2 & X3); auto.
           ++ inv H. split; [|auto]. apply resL_none.
              rewrite live_seq2 by (auto; exact Hp'). split; [reflexivity|]. apply R1. reflexivity.
    + split; [|split].
      * intros en cx st tr r H. rewrite start_bin_conc in H by exact Hk.
        destruct (sthrows (Bin k a b));
          [unfold start_thrown in H; injection H as <- <- <-; split; [apply resL_fin|exact (trs_sconn (Bin k a b) _ _ _)]|].
        eapply start_conc_l; eauto.
      * intros tok cx st st' tr r H HL. destruct st as [|cc sn|ns sa sb|sa sb|vv]; try contradiction HL.
        rewrite stop_bin, Hk in H.
        destruct (own_stop ns) eqn:Hown.
        -- inv H. rewrite live_conc in HL by exact Hk. destruct HL as (He & Ho & Ha & Hb & Hd).
           rewrite Hown in Ha, Hb.
           split; [apply resL_none; rewrite live_conc by exact Hk; simpl; rewrite Hown; auto 6|].
           split; [apply trs_nil|]. unfold reach_unseen. rewrite lv_conc by exact Hk.
           assert (Ea : lv false negb a sa = []).
           { destruct (adone ns); simpl in Ha; [apply lv_inert; exact Ha|apply live_true_unseen; exact Ha]. }
           assert (Eb : lv false negb b sb = []).
           { destruct (bdone ns); simpl in Hb; [apply lv_inert; exact Hb|apply live_true_unseen; exact Hb]. }
           rewrite Ea, Eb. intros id [].
        -- eapply stop_conc_l; eauto.
      * intros tok cx st id o st' tr r hit H HL. destruct st as [|cc sn|ns sa sb|sa sb|vv]; try contradiction HL.
        rewrite leafev_bin_conc in H by exact Hk.
        eapply leafev_conc_l; eauto.
Qed.

Lemma start_l e : StartL e. Proof. exact (proj1 (all_l e)). Qed.
Lemma stop_l e : StopL e. Proof. exact (proj1 (proj2 (all_l e))). Qed.
Lemma leafev_l e : LeafevL e. Proof. exact (proj2 (proj2 (all_l e))). Qed.

(* ================================================================================================ *)
(* Part 3: what stop does                                                                           *)
(* ================================================================================================ *)
Lemma reach_split e st id : In id (reach e st) -> In id (reach_unseen e st) \/ In id (reach_seen e st).
Proof.
  intros H. apply (lv_split false (fun s => s)) in H. destruct H; [right|left]; assumption.
Qed.

(* A1: a stop request reaches every running leaf connected to the token - also through the own stop source of
   let_value_with_stop_source / when_all / stop_when / when_any (chained to the receiver's token), not through
   unstoppable; afterwards every connected running leaf has seen it *)
Theorem stop_reaches e tok st cx st' tr r :
  live tok e st -> stop e st cx = (st', tr, r) ->
  (forall id, In id (reach e st) -> In (TLeafStop id) tr \/ In id (reach_seen e st)) /\
  (forall id, In id (reach e st') -> In id (reach_seen e st')) /\
  (r = None -> live true e st') /\ (r <> None -> done_st st').
Proof.
  intros HL H. destruct (stop_l e _ _ _ _ _ _ H HL) as ([L1 L2] & _ & U).
  split; [|split; [|split; assumption]].
  - intros id Hin. apply reach_split in Hin. destruct Hin; auto.
  - intros id Hin. destruct r as [o|].
    + unfold reach in Hin. rewrite lv_inert in Hin by (apply L2; discriminate). contradiction.
    + apply reach_split in Hin. destruct Hin as [Hin|Hin]; [|exact Hin].
      rewrite (live_true_unseen e st' (L1 eq_refl)) in Hin. contradiction.
Qed.

(* the callbacks that run belong to leaves of the expression (in particular: a stop requested on the source of a
   let_value_with_stop_source touches nothing outside that operation) *)
Theorem stop_only_own_leaves e sm st cx st' tr r id :
  s_sp sm = true -> qwf e sm st -> stop e st cx = (st', tr, r) -> In (TLeafStop id) tr -> In id (leaf_ids e).
Proof.
  intros Hsp Hq H Hin. destruct (stop_q e _ _ _ _ _ _ H Hsp Hq) as [_ Ht].
  unfold trok in Ht. rewrite Forall_forall in Ht. exact (Ht _ Hin).
Qed.

(* ---- A3: losers are stopped -------------------------------------------------------------------------- *)
(* stop_when: any completion of one child stops the other; when_any: the first finisher stops the other;
   when_all: a child finishing with error or done stops the other *)
Definition loser_cond (k : bkind) (o : outcome) : Prop :=
  k = BStopWhen \/ k = BWhenAny \/ (k = BWhenAll /\ forall v, o <> OVal v).

Lemma when_any_first_finisher o : loser_cond BWhenAny o.
Proof. right. left. reflexivity. Qed.

Lemma ccd_newly k ns i o :
  own_stop ns = false -> loser_cond k o ->
  exists ns2 fin, conc_child_done k ns i o = (ns2, true, fin).
Proof.
  intros Hown Hk. unfold conc_child_done. cbv zeta.
  assert (N : match k with
              | BWhenAll => match conc_in k o with OVal _ => false | _ => negb (own_stop ns) end
              | _ => negb (own_stop ns) end = true).
  { rewrite Hown. destruct Hk as [->|[->|[-> Hv]]]; try reflexivity.
    destruct o; try reflexivity. exfalso. eapply Hv. reflexivity. }
  rewrite N. bmg; eauto.
Qed.

Lemma conc_reap_out k c r : snd (conc_reap k c r) = snd r.
Proof. destruct r as [[sc tr] o]. unfold conc_reap. destruct k; try reflexivity. destruct o as [[]|]; reflexivity. Qed.

Theorem losers_stopped_a k a b ns sa sb id o cx sa' tra oa st' tr r hit tok :
  is_seq k = false ->
  live tok (Bin k a b) (ONode ns sa sb) ->
  adone ns = false ->
  child_ev (bin_throw k false) false a sa id (tmode o) o cx = (sa', tra, Some oa, true) ->  (* the event completes child a *)
  loser_cond k oa -> own_stop ns = false -> bdone ns = false ->          (* b running, not yet told *)
  leafev (Bin k a b) (ONode ns sa sb) id o cx = (st', tr, r, hit) ->
  forall id', In id' (reach_unseen b sb) -> In (TLeafStop id') tr.
Proof.
  intros Hk HL Had Ha Hl Hown Hbd H id' Hin.
  rewrite live_conc in HL by exact Hk. destruct HL as (_ & _ & _ & Lb & _).
  rewrite Hbd, Hown in Lb. simpl in Lb.
  rewrite leafev_bin_conc in H by exact Hk. unfold leafev_conc in H. rewrite Had, Ha in H.
  unfold reap_ev in H. cbn [fst snd] in H.
  pose proof (conc_reap_out k a (sa', tra, Some oa)) as Eo.
  destruct (conc_reap k a (sa', tra, Some oa)) as [[sa2 tra2] ra2]. simpl in Eo. subst ra2.
  injection H as H _. unfold conc_a_done in H.
  destruct (ccd_newly k ns false oa Hown Hl) as (ns1 & fin & Hc). rewrite Hc in H.
  apply ccd_spec in Hc. destruct Hc as (_ & _ & _ & E4 & E5 & _ & _ & Ef).
  assert (fin = None) by (apply Ef; rewrite E4, E5, Hbd; reflexivity). subst fin.
  destruct (stop b sb cx) as [[sb0 trb0] rb0] eqn:Hs.
  destruct (stop_l b _ _ _ _ _ _ Hs Lb) as (R0 & _ & U).
  specialize (U _ Hin).
  destruct (conc_reap k b (sb0, trb0, rb0)) as [[sb' trb] rb] eqn:Hr.
  destruct (conc_reap_l _ _ _ _ _ _ _ _ _ Hr R0) as (_ & -> & _ & Ii).
  destruct rb0 as [ob|].
  - destruct (conc_child_done k ns1 true ob) as [[ns2 x] fin2] eqn:Hc2.
    destruct fin2 as [o2|].
    + destruct (finish_l _ _ _ _ _ _ _ _ _ _ _ H) as (_ & _ & _ & I2). apply I2. apply in_or_app. auto.
    + rewrite finish_none in H. inv H. apply in_or_app. auto.
  - inv H. apply in_or_app. auto.
Qed.

Theorem losers_stopped_b k a b ns sa sb id o cx sb' trb ob st' tr r hit tok :
  is_seq k = false ->
  live tok (Bin k a b) (ONode ns sa sb) ->
  (adone ns = false -> snd (leafev a sa id (tmode o) cx) = false) ->             (* the event is not for a *)
  bdone ns = false -> leafev b sb id (tmode o) cx = (sb', trb, Some ob, true) ->  (* it completes child b *)
  loser_cond k ob -> own_stop ns = false -> adone ns = false ->
  leafev (Bin k a b) (ONode ns sa sb) id o cx = (st', tr, r, hit) ->
  forall id', In id' (reach_unseen a sa) -> In (TLeafStop id') tr.
Proof.
  intros Hk HL Hmiss Hbd Hb Hl Hown Had H id' Hin.
  rewrite live_conc in HL by exact Hk. destruct HL as (_ & _ & La & _ & _).
  rewrite Had, Hown in La. simpl in La. specialize (Hmiss Had).
  rewrite leafev_bin_conc in H by exact Hk. unfold leafev_conc in H. rewrite Had in H.
  destruct (child_ev (bin_throw k false) false a sa id (tmode o) o cx) as [[[sa1 tra1] ra1] hita] eqn:Ec.
  apply child_ev_cases in Ec. destruct Ec as (Eh & _). rewrite Hmiss in Eh. subst hita.
  unfold reap_ev in H. cbn [fst snd] in H.
  destruct (conc_reap k a (sa1, tra1, ra1)) as [[sa2 tra2] ra2].
  rewrite Hbd, Hb in H. cbn [fst snd] in H.
  pose proof (conc_reap_out k b (sb', trb, Some ob)) as Eo.
  destruct (conc_reap k b (sb', trb, Some ob)) as [[sb2 trb2] rb2]. simpl in Eo. subst rb2.
  injection H as H _. unfold conc_b_done in H.
  destruct (ccd_newly k ns true ob Hown Hl) as (ns1 & fin & Hc). rewrite Hc in H.
  apply ccd_spec in Hc. destruct Hc as (_ & _ & _ & E4 & E5 & _ & _ & Ef).
  assert (fin = None) by (apply Ef; rewrite E4, E5, Had; reflexivity). subst fin.
  destruct (stop a sa cx) as [[sa0 tra0] ra0] eqn:Hs.
  destruct (stop_l a _ _ _ _ _ _ Hs La) as (R0 & _ & U).
  specialize (U _ Hin).
  destruct (conc_reap k a (sa0, tra0, ra0)) as [[sa' tra] ra] eqn:Hr.
  destruct (conc_reap_l _ _ _ _ _ _ _ _ _ Hr R0) as (_ & -> & _ & Ii).
  destruct ra0 as [oa|].
  - destruct (conc_child_done k ns1 false oa) as [[ns2 x] fin2] eqn:Hc2.
    destruct fin2 as [o2|].
    + destruct (finish_l _ _ _ _ _ _ _ _ _ _ _ H) as (_ & _ & _ & I2). apply I2. apply in_or_app. auto.
    + rewrite finish_none in H. inv H. apply in_or_app. auto.
  - inv H. apply in_or_app. auto.
Qed.


(* the stage-3 formulations: for an event that is not a re-delivery (scripts never deliver OValK) and, for child a,
   a completion that is not a throwing value, the node sees exactly the child's own result *)
Lemma tmode_plain o : is_k o = false -> tmode o = o.
Proof. destruct o; try reflexivity. discriminate. Qed.

Theorem losers_stopped_a_plain k a b ns sa sb id o cx sa' tra oa st' tr r hit tok :
  is_seq k = false ->
  live tok (Bin k a b) (ONode ns sa sb) ->
  is_k o = false -> (forall v, oa <> OValT v) ->
  adone ns = false -> leafev a sa id o cx = (sa', tra, Some oa, true) ->
  loser_cond k oa -> own_stop ns = false -> bdone ns = false ->
  leafev (Bin k a b) (ONode ns sa sb) id o cx = (st', tr, r, hit) ->
  forall id', In id' (reach_unseen b sb) -> In (TLeafStop id') tr.
Proof.
  intros Hk HL Ho Hoa Had Ha Hl Hown Hbd H.
  refine (losers_stopped_a k a b ns sa sb id o cx sa' tra oa st' tr r hit tok Hk HL Had _ Hl Hown Hbd H).
  unfold child_ev. rewrite (tmode_plain o Ho), Ha.
  destruct oa; try reflexivity. exfalso. eapply Hoa. reflexivity.
Qed.

Theorem losers_stopped_b_plain k a b ns sa sb id o cx sb' trb ob st' tr r hit tok :
  is_seq k = false ->
  live tok (Bin k a b) (ONode ns sa sb) ->
  is_k o = false ->
  (adone ns = false -> snd (leafev a sa id o cx) = false) ->
  bdone ns = false -> leafev b sb id o cx = (sb', trb, Some ob, true) ->
  loser_cond k ob -> own_stop ns = false -> adone ns = false ->
  leafev (Bin k a b) (ONode ns sa sb) id o cx = (st', tr, r, hit) ->
  forall id', In id' (reach_unseen a sa) -> In (TLeafStop id') tr.
Proof.
  intros Hk HL Ho Hm Hbd Hb Hl Hown Had H.
  rewrite <- (tmode_plain o Ho) in Hm, Hb.
  exact (losers_stopped_b k a b ns sa sb id o cx sb' trb ob st' tr r hit tok Hk HL Hm Hbd Hb Hl Hown Had H).
Qed.

(* ---- let_value_with_stop_source ---------------------------------------------------------------------- *)
(* an external stop request passes through the operation's own source to the leaves below it *)
Theorem stop_through_letss now s ns sc sb tok cx st' tr r :
  live tok (Un (ULetSS now) s) (ONode ns sc sb) ->
  stop (Un (ULetSS now) s) (ONode ns sc sb) cx = (st', tr, r) ->
  forall id, In id (reach_unseen s sc) -> In (TLeafStop id) tr.
Proof.
  intros HL H id Hin. destruct (stop_l _ _ _ _ _ _ _ H HL) as (_ & _ & U). apply U.
  unfold reach_unseen. rewrite lv_un. exact Hin.
Qed.

(* The event makes a LeafR below produce a value; its callable requests stop on the source of THIS operation
   (the request's level is this operation's nesting depth: [fired]); the source was not yet requested.  Then
   every running leaf under this operation that is connected to the source and has not seen stop gets its stop
   callback in this call, and afterwards the source is requested or the operation completed.  All callbacks
   of the call belong to leaves of this operation ([leafev_only_own_leaves]): nothing outside it is touched. *)
Theorem leafev_only_own_leaves e sm st i o cx st' tr r hit id :
  qwf e sm st -> leafev e st i o cx = (st', tr, r, hit) -> In (TLeafStop id) tr -> In id (leaf_ids e).
Proof.
  intros Hq H Hin. destruct (leafev_q e _ _ _ _ _ _ _ _ _ H Hq) as [_ Ht].
  unfold trok in Ht. rewrite Forall_forall in Ht. exact (Ht _ Hin).
Qed.

Lemma un_done_incl k s sc tr o st tr' r :
  un_done k s sc tr o = (st, tr', r) -> incl tr tr' /\ done_st st /\ r <> None.
Proof.
  unfold un_done. intros H. destruct (un_result k o) as [tr2 o'].
  destruct (un_eager k o); inv H; (split; [intros x Hx; apply in_or_app; auto|]); (split; [exact I|discriminate]).
Qed.

Theorem letss_request_reaches now s ns sc sb id o cx sc' tr0 st' tr r hit tok :
  live tok (Un (ULetSS now) s) (ONode ns sc sb) -> own_stop ns = false ->
  leafev s sc id o cx = (sc', tr0, None, true) -> fired (e_ss (n_env ns)) tr0 = true ->
  leafev (Un (ULetSS now) s) (ONode ns sc sb) id o cx = (st', tr, r, hit) ->
  (forall id', In id' (reach_unseen s sc') -> In (TLeafStop id') tr) /\
  (r = None -> exists ns1 sc1, st' = ONode ns1 sc1 OFin /\ own_stop ns1 = true /\ live true s sc1) /\
  (r <> None -> done_st st').
Proof.
  intros HL Hown Hl Hf H. rewrite live_un in HL. destruct HL as (He & Ho & HL).
  unfold un_tok in HL. simpl in HL.
  rewrite leafev_un in H. unfold leafev_un_body, child_ev in H.
  change (un_in (ULetSS now) o) with o in H. rewrite Hl in H. cbn [thrown] in H.
  cbn [un_own andb] in H. rewrite Hf in H. unfold fired_body in H. rewrite Hown in H.
  destruct (leafev_l s _ _ _ _ _ _ _ _ _ Hl HL) as [R1 _]. rewrite Hown in R1.
  destruct (stop s sc' cx) as [[sc1 tr1] r1] eqn:Hs.
  destruct (stop_l s _ _ _ _ _ _ Hs (proj1 R1 eq_refl)) as (R2 & _ & U).
  destruct r1 as [oc|].
  - destruct (un_done (ULetSS now) s sc1 (tr0 ++ tr1) oc) as [[x y] z] eqn:Hu.
    injection H as <- <- <- _. apply un_done_incl in Hu. destruct Hu as (Ii & Hd & Hz).
    split; [|split; [intros E; contradiction (Hz E)|intros _; exact Hd]].
    intros id' Hin. apply Ii. apply in_or_app. right. auto.
  - destruct (leafev s sc1 id o cx) as [[[sc2 tr2] r2] h2] eqn:Hl2.
    destruct (leafev_l s _ _ _ _ _ _ _ _ _ Hl2 (proj1 R2 eq_refl)) as [R3 _].
    destruct r2 as [oc|].
    + destruct (un_done (ULetSS now) s sc2 (tr0 ++ tr1 ++ tr2) oc) as [[x y] z] eqn:Hu.
      injection H as <- <- <- _. apply un_done_incl in Hu. destruct Hu as (Ii & Hd & Hz).
      split; [|split; [intros E; contradiction (Hz E)|intros _; exact Hd]].
      intros id' Hin. apply Ii. apply in_or_app. right. apply in_or_app. left. auto.
    + injection H as <- <- <- _. split; [|split; [|congruence]].
      * intros id' Hin. apply in_or_app. right. apply in_or_app. left. auto.
      * intros _. exists (ns_set_own ns true), sc2. split; [reflexivity|]. split; [reflexivity|].
        apply R3. reflexivity.
Qed.

(* ================================================================================================ *)
(* Part 4: whole runs                                                                               *)
(* ================================================================================================ *)
Definition liftx (Q : tev -> Prop) (x : xev) : Prop := match x with XT t => Q t | _ => True end.

(* reachable states are live, well-formed states, or completed *)
Definition IL (e : sexpr) (rs : run_state) : Prop :=
  done_st (r_st rs) \/ live (r_stopped rs) e (r_st rs).

Lemma resL_IL tok e st o : resL tok e st o -> done_st st \/ live tok e st.
Proof. intros [H1 H2]. destruct o; [left; apply H2; discriminate|right; auto]. Qed.

Lemma absorb_stopped rs st tr o cx : r_stopped (absorb rs (st, tr, o) cx) = r_stopped rs.
Proof. destruct o; reflexivity. Qed.

Lemma absorb_delta rs st tr o cx (Q : tev -> Prop) :
  Forall Q tr ->
  exists d, r_tr (absorb rs (st, tr, o) cx) = r_tr rs ++ d /\ Forall (liftx Q) d.
Proof.
  intros HQ. assert (HM : Forall (liftx Q) (map XT tr)).
  { induction HQ; simpl; constructor; auto. }
  destruct o as [oc|]; simpl.
  - eexists. rewrite <- app_assoc. split; [reflexivity|]. apply Forall_app. split; [exact HM|]. repeat constructor.
  - eexists. split; [reflexivity|exact HM].
Qed.

Lemma skip_delta rs (Q : tev -> Prop) :
  exists d, r_tr (skip rs) = r_tr rs ++ d /\ Forall (liftx Q) d.
Proof. exists [XSkip]. split; [reflexivity|repeat constructor]. Qed.

Definition is_stop_sev (ev : sev) : bool := match ev with EvStop _ => true | _ => false end.

(* one script event: the invariant is kept, the stop flag is updated, and the batch of events it appends consists
   of leaf starts that see the (new) stop state *)
Lemma run_ev_l e rs ev :
  IL e rs ->
  IL e (run_ev e rs ev) /\
  r_stopped (run_ev e rs ev) = (r_stopped rs || is_stop_sev ev)%bool /\
  exists d, r_tr (run_ev e rs ev) = r_tr rs ++ d /\ Forall (liftx (sok e (r_stopped (run_ev e rs ev)))) d.
Proof.
  intros HI. unfold run_ev. unfold IL in HI.
  assert (Leaf : forall rs0 id o cx,
            r_st rs0 = r_st rs -> r_stopped rs0 = r_stopped rs -> r_tr rs0 = r_tr rs ->
            let '(r, hit) := leafev e (r_st rs) id o cx in
            let rs' := if hit then absorb rs0 r cx else skip rs0 in
            IL e rs' /\ r_stopped rs' = r_stopped rs /\
            exists d, r_tr rs' = r_tr rs ++ d /\ Forall (liftx (sok e (r_stopped rs))) d).
  { intros rs0 id o cx E1 E2 E3.
    destruct (leafev e (r_st rs) id o cx) as [[[st tr] r] hit] eqn:H. cbv zeta.
    destruct hit.
    - destruct HI as [HD|HL].
      + destruct (leafev_done e _ id o cx HD) as (st1 & E & _). rewrite E in H. discriminate H.
      + destruct (leafev_l e _ _ _ _ _ _ _ _ _ H HL) as [R T].
        split; [unfold IL; rewrite absorb_st, absorb_stopped, E2; apply resL_IL in R; exact R|].
        split; [rewrite absorb_stopped; exact E2|].
        rewrite <- E3. apply absorb_delta. exact T.
    - split; [unfold IL; simpl; rewrite E1, E2; exact HI|]. split; [exact E2|].
      rewrite <- E3. apply skip_delta. }
  destruct ev as [id o cx|cx|c]; cbn [is_stop_sev].
  - rewrite orb_false_r. specialize (Leaf rs id o cx eq_refl eq_refl eq_refl).
    destruct (leafev e (r_st rs) id o cx) as [r hit]. destruct hit.
    + destruct Leaf as (A & B & C). rewrite B. auto.
    + destruct Leaf as (A & B & C). simpl in B |- *. auto.
  - destruct (r_stopped rs) eqn:Est.
    + split; [unfold IL; simpl; rewrite Est; exact HI|]. split; [simpl; exact Est|].
      simpl r_stopped. rewrite Est. apply skip_delta.
    + destruct (stop e (r_st rs) cx) as [[st tr] r] eqn:H.
      rewrite absorb_stopped. simpl r_stopped.
      destruct HI as [HD|HL].
      * destruct (stop_done e _ cx HD) as (st1 & E & HD1). rewrite E in H. inv H.
        split; [left; rewrite absorb_st; exact HD1|]. split; [reflexivity|]. exists []. split; [reflexivity|constructor].
      * destruct (stop_l e _ _ _ _ _ _ H HL) as (R & T & _).
        split; [unfold IL; rewrite absorb_st, absorb_stopped; apply resL_IL in R; exact R|].
        split; [reflexivity|].
        change (r_tr rs) with (r_tr {| r_st := r_st rs; r_stopped := true; r_roots := r_roots rs; r_tr := r_tr rs; r_queue := r_queue rs |}) at 2.
        apply absorb_delta. exact T.
  - rewrite orb_false_r. destruct (dequeue c (r_queue rs)) as [[id q']|].
    + set (rs0 := {| r_st := r_st rs; r_stopped := r_stopped rs; r_roots := r_roots rs; r_tr := r_tr rs; r_queue := q' |}).
      specialize (Leaf rs0 id (OVal 0%Z) c eq_refl eq_refl eq_refl).
      destruct (leafev e (r_st rs) id (OVal 0%Z) c) as [r hit]. destruct hit.
      * destruct Leaf as (A & B & C). rewrite B. auto.
      * destruct Leaf as (A & B & C). rewrite B. auto.
    + split; [exact HI|]. split; [reflexivity|]. apply skip_delta.
Qed.

Lemma run_start_l e pre :
  IL e (run_start e pre) /\ r_stopped (run_start e pre) = pre /\
  Forall (liftx (sok e pre)) (r_tr (run_start e pre)).
Proof.
  unfold run_start. destruct (cthrows e).
  { split; [left; exact I|]. split; [reflexivity|]. simpl. apply Forall_app. split; [|repeat constructor].
    pose proof (conn_aev e 0) as Hc. induction Hc as [|t l Ht _ IH]; simpl; constructor; auto.
    destruct t; simpl in *; tauto. }
  destruct (start e (root_env pre) 0) as [[st tr] r] eqn:H.
  destruct (start_l e _ _ _ _ _ H) as [R T]. simpl in R, T.
  split; [unfold IL; rewrite absorb_st, absorb_stopped; apply resL_IL in R; exact R|].
  split; [apply absorb_stopped|].
  destruct (absorb_delta {| r_st := OFin; r_stopped := pre; r_roots := 0; r_tr := []; r_queue := [] |} st tr r 0 _ T)
    as (d & E & Hd). rewrite E. exact Hd.
Qed.

Theorem run_live e pre script :
  IL e (run e pre script).
Proof.
  apply run_invariant; [apply run_start_l|]. intros rs ev H. apply run_ev_l. exact H.
Qed.

(* the stop flag of a run *)
Lemma fold_stopped e : forall script rs, IL e rs -> r_stopped rs = true ->
  IL e (fold_left (run_ev e) script rs) /\ r_stopped (fold_left (run_ev e) script rs) = true /\
  exists d, r_tr (fold_left (run_ev e) script rs) = r_tr rs ++ d /\ Forall (liftx (sok e true)) d.
Proof.
  induction script as [|ev script IH]; intros rs HI Hs; simpl.
  - split; [exact HI|]. split; [exact Hs|]. exists []. rewrite app_nil_r. split; [reflexivity|constructor].
  - destruct (run_ev_l e rs ev HI) as (HI' & Hs' & d1 & E1 & F1).
    rewrite Hs in Hs'. simpl in Hs'. rewrite Hs' in F1.
    destruct (IH _ HI' Hs') as (HI2 & Hs2 & d2 & E2 & F2).
    split; [exact HI2|]. split; [exact Hs2|]. exists (d1 ++ d2). rewrite E2, E1, app_assoc.
    split; [reflexivity|]. apply Forall_app. auto.
Qed.

(* A2: everything started after a stop request starts with a stopped token (unless below unstoppable) *)
Theorem after_stop_starts_stopped e pre s1 cx s2 :
  exists d, r_tr (run e pre (s1 ++ EvStop cx :: s2)) = r_tr (run e pre s1) ++ d /\
            Forall (liftx (sok e true)) d.
Proof.
  rewrite run_app.
  change (fold_left (run_ev e) (EvStop cx :: s2) (run e pre s1))
    with (fold_left (run_ev e) s2 (run_ev e (run e pre s1) (EvStop cx))).
  pose proof (run_live e pre s1) as HI.
  destruct (run_ev_l e _ (EvStop cx) HI) as (HI' & Hs' & d1 & E1 & F1).
  rewrite orb_true_r in Hs'. rewrite Hs' in F1.
  destruct (fold_stopped e s2 _ HI' Hs') as (_ & _ & d2 & E2 & F2).
  exists (d1 ++ d2). rewrite E2, E1, app_assoc. split; [reflexivity|]. apply Forall_app. auto.
Qed.

Theorem prestopped_starts_stopped e script :
  Forall (liftx (sok e true)) (r_tr (run e true script)).
Proof.
  destruct (run_start_l e true) as (HI & Hs & F0).
  destruct (fold_stopped e script _ HI Hs) as (_ & _ & d & E & F).
  unfold run. rewrite E. apply Forall_app. auto.
Qed.

Lemma sreach_ids e id : In id (sreach e) -> In id (leaf_ids e).
Proof.
  induction e; simpl; auto.
  - destruct (is_unst k); [intros []|auto].
  - rewrite !in_app_iff. tauto.
Qed.
Lemma under_ids e id : In id (under_unst e) -> In id (leaf_ids e).
Proof.
  induction e; simpl; auto.
  - destruct (is_unst k); auto.
  - rewrite !in_app_iff. tauto.
Qed.
Lemma sreach_not_under e id : NoDup (leaf_ids e) -> In id (sreach e) -> ~ In id (under_unst e).
Proof.
  induction e; simpl; intros ND H1 H2; try contradiction.
  - destruct (is_unst k); [contradiction|]. exact (IHe ND H1 H2).
  - apply in_app_or in H1. apply in_app_or in H2.
    pose proof (nodup_app_l _ _ _ ND) as ND1. pose proof (nodup_app_r _ _ _ ND) as ND2.
    destruct H1 as [H1|H1], H2 as [H2|H2]; [exact (IHe1 ND1 H1 H2)| | |exact (IHe2 ND2 H1 H2)].
    + eapply nodup_app_disj; [exact ND|apply sreach_ids; exact H1|apply under_ids; exact H2].
    + eapply nodup_app_disj; [exact ND|apply under_ids; exact H2|apply sreach_ids; exact H1].
Qed.

(* ... stated for the leaves connected to the root's token *)
Theorem after_stop_connected_start_stopped e pre s1 cx s2 :
  NoDup (leaf_ids e) ->
  exists d, r_tr (run e pre (s1 ++ EvStop cx :: s2)) = r_tr (run e pre s1) ++ d /\
    forall id s sp a b sch c, In (XT (TLeafStart id s sp a b sch c)) d -> In id (sreach e) -> s = true.
Proof.
  intros ND. destruct (after_stop_starts_stopped e pre s1 cx s2) as (d & E & F).
  exists d. split; [exact E|]. intros id s sp a b sch c Hin Hr.
  rewrite Forall_forall in F. specialize (F _ Hin). simpl in F.
  destruct F as [_ F]. destruct (F eq_refl) as [F'|F']; [exact F'|].
  exfalso. eapply sreach_not_under; eassumption.
Qed.

Theorem prestopped_connected_start_stopped e script id s sp a b sch c :
  NoDup (leaf_ids e) ->
  In (XT (TLeafStart id s sp a b sch c)) (r_tr (exec e true script)) -> In id (sreach e) -> s = true.
Proof.
  intros ND Hin Hr. apply exec_in_start in Hin.
  pose proof (prestopped_starts_stopped e script) as F. rewrite Forall_forall in F.
  specialize (F _ Hin). simpl in F. destruct F as [_ F]. destruct (F eq_refl) as [F'|F']; [exact F'|].
  exfalso. eapply sreach_not_under; eassumption.
Qed.

(* once stop was requested, every connected running leaf of the reached state has seen it *)
Theorem stopped_state_invariant e pre script :
  r_stopped (run e pre script) = true ->
  done_st (r_st (run e pre script)) \/
  (live true e (r_st (run e pre script)) /\ reach_unseen e (r_st (run e pre script)) = []).
Proof.
  intros Hs. destruct (run_live e pre script) as [H|H]; [auto|].
  rewrite Hs in H. right. split; [exact H|]. apply live_true_unseen. exact H.
Qed.

(* A1 on reachable states *)
Theorem run_stop_reaches e pre s1 cx st' tr r :
  stop e (r_st (run e pre s1)) cx = (st', tr, r) ->
  (forall id, In id (reach e (r_st (run e pre s1))) ->
              In (TLeafStop id) tr \/ In id (reach_seen e (r_st (run e pre s1)))) /\
  (forall id, In id (reach e st') -> In id (reach_seen e st')) /\
  (r <> None -> done_st st').
Proof.
  intros H. destruct (run_live e pre s1) as [HD|HL].
  - destruct (stop_done e _ cx HD) as (st1 & E & HD1). rewrite E in H. inv H.
    unfold reach. rewrite !lv_inert by assumption.
    split; [intros id []|]. split; [intros id []|congruence].
  - destruct (stop_reaches e _ _ _ _ _ _ HL H) as (A & B & C & D). auto.
Qed.

(* ================================================================================================ *)
(* Part 5: the level a let_value_with_stop_source reacts to is its nesting depth                    *)
(* ================================================================================================ *)
Definition un_dep (k : ukind) (d : nat) : nat := if un_own k then S d else d.
(* node state [ns] belongs to an operation started under d enclosing let_value_with_stop_source operations *)
Definition dep_is (ns : nst) (d : nat) : Prop := e_ss (n_env ns) = d.
Lemma dep_is_env ns ns' d : n_env ns' = n_env ns -> dep_is ns d -> dep_is ns' d.
Proof. unfold dep_is. intros ->. auto. Qed.

(* every node of the state was started under [d] enclosing let_value_with_stop_source operations, d counted
   statically along the path from the root *)
Fixpoint dwf (d : nat) (e : sexpr) (st : ost) : Prop :=
  match e, st with
  | Un k s, ONode ns sc _ => dep_is ns d /\ dwf (un_dep k d) s sc
  | Bin k a b, ONode ns sa sb => dep_is ns d /\ dwf d a sa /\ dwf d b sb
  | _, _ => True
  end.
Lemma dwf_inert d e st : inert st -> dwf d e st.
Proof. destruct st; simpl; try contradiction; intros _; destruct e; exact I. Qed.
Lemma dwf_fin d e : dwf d e OFin. Proof. destruct e; exact I. Qed.
Lemma dwf_compl d e a b : dwf d e (OCompl a b). Proof. destruct e; exact I. Qed.
Lemma dwf_leaf d e c s : dwf d e (OLeaf c s). Proof. destruct e; exact I. Qed.
Lemma dwf_held d e v : dwf d e (OHeld v). Proof. destruct e; exact I. Qed.
Lemma dwf_un d k s ns sc sb : dwf d (Un k s) (ONode ns sc sb) = (dep_is ns d /\ dwf (un_dep k d) s sc).
Proof. reflexivity. Qed.
Lemma dwf_bin d k a b ns sa sb :
  dwf d (Bin k a b) (ONode ns sa sb) = (dep_is ns d /\ dwf d a sa /\ dwf d b sb).
Proof. reflexivity. Qed.
#[global] Hint Resolve dwf_fin dwf_leaf dwf_compl dwf_held : calcd.

Lemma ss_un k en : e_ss (un_env k en) = un_dep k (e_ss en).
Proof. destruct k; try reflexivity. destruct q; reflexivity. Qed.
Lemma after_first_ss k en o en2 sv : after_first k en o = inr (en2, sv) -> e_ss en2 = e_ss en.
Proof. intros H. apply after_first_env in H. destruct H as [->|[v ->]]; reflexivity. Qed.

Definition StartD (e : sexpr) : Prop := forall en cx st tr r, start e en cx = (st, tr, r) -> dwf (e_ss en) e st.
Definition StopD (e : sexpr) : Prop := forall d cx st st' tr r, stop e st cx = (st', tr, r) -> dwf d e st -> dwf d e st'.
Definition LeafevD (e : sexpr) : Prop := forall d cx st id o st' tr r hit,
  leafev e st id o cx = (st', tr, r, hit) -> dwf d e st -> dwf d e st'.

Lemma un_done_d d k s sc tr o st tr' r : un_done k s sc tr o = (st, tr', r) -> dwf d (Un k s) st.
Proof. unfold un_done. intros H. destruct (un_result k o). destruct (un_eager k o); inv H; auto with calcd. Qed.

Lemma rep_loop_d dc s sc0 tr0 rr0 :
  dwf dc s sc0 ->
  forall rest i i' sc' tr' r',
  rep_loop s (sc0, tr0, rr0) rest i = (i', (sc', tr', r')) ->
  (r' = None -> dwf dc s sc') /\ (r' <> None -> inert sc').
Proof.
  intros Hq0. induction rest as [|x rest IH]; intros i i' sc' tr' r' H; simpl in H.
  - inv H. split; [discriminate|intros; exact I].
  - destruct x.
    + inv H. split; [discriminate|intros; exact I].
    + destruct rr0 as [o0|].
      * destruct o0.
        -- destruct (rep_loop s (sc0, tr0, Some (OVal v)) rest (S i)) as [i2 [[sc2 tr2] r2]] eqn:Hr.
           inv H. exact (IH _ _ _ _ _ Hr).
        -- inv H. split; [discriminate|intros; exact I].
        -- inv H. split; [discriminate|intros; exact I].
        -- inv H. split; [discriminate|intros; exact I].
        -- inv H. split; [discriminate|intros; exact I].
      * inv H. split; [auto|congruence].
Qed.

Lemma un_fin_d d k s ns sc tr o sc0 tr0 rr0 st tr' r :
  dep_is ns d -> dwf (un_dep k d) s sc -> dwf (un_dep k d) s sc0 ->
  un_fin k s ns sc tr o (sc0, tr0, rr0) = (st, tr', r) -> dwf d (Un k s) st.
Proof.
  intros Hn Hqc Hq0 H. unfold un_fin in H.
  destruct k; try (eapply un_done_d; eassumption).
  - rewrite rep_done_eq in H. destruct (is_val o); [|inv H; auto with calcd].
    destruct (rep_loop s (sc0, tr0, rr0) (skipn (n_iter ns) l) (n_iter ns)) as [i' [[sc' tr2] r2]] eqn:Hr.
    destruct (rep_loop_d _ _ _ _ _ Hq0 _ _ _ _ _ _ Hr) as (Q & N).
    destruct r2; injection H as <- <- <-.
    + apply dwf_inert. apply N. discriminate.
    + rewrite dwf_un. split; [exact Hn|auto].
  - injection H as <- <- <-. rewrite dwf_un. auto.
Qed.

Lemma seq_pass_d d k a b sa tr o st tr' r : seq_pass k a sa tr o = (st, tr', r) -> dwf d (Bin k a b) st.
Proof. unfold seq_pass. intros H. destruct (eager_dtor k); inv H; auto with calcd. Qed.
Lemma seq_final_d d k a b sb tr o st tr' r : seq_final k b sb tr o = (st, tr', r) -> dwf d (Bin k a b) st.
Proof. unfold seq_final. intros H. destruct (eager_dtor k); inv H; auto with calcd. Qed.

Lemma retry_err_d d a b sa0 tra0 ra0 sbl trbl rbl :
  dwf d a sa0 -> dwf d b sbl ->
  forall rem i sbe trbe rbe e i' p' st' tr' r',
  dwf d b sbe ->
  retry_err a b (sa0, tra0, ra0) (sbl, trbl, rbl) rem i (sbe, trbe, rbe) e = (i', p', (st', tr', r')) ->
  (r' = None -> exists sa sb, st' = OCompl sa sb /\ dwf d a sa /\ dwf d b sb) /\
  (r' <> None -> inert st').
Proof.
  intros Hqa Hql. induction rem as [|rem IH]; intros i sbe trbe rbe e i' p' st' tr' r' Hqe H; simpl in H.
  - inv H. split; [discriminate|intros; exact I].
  - destruct rbe as [ob|].
    + destruct ob.
      * destruct ra0 as [oa|].
        -- destruct oa.
           ++ inv H. split; [discriminate|intros; exact I].
           ++ destruct (retry_err a b (sa0, tra0, Some (OErr e0)) (sbl, trbl, rbl) rem (S i) (sbl, trbl, rbl) e0)
                as [[i2 p2] [[st2 tr2] r2]] eqn:Hr.
              inv H. exact (IH _ _ _ _ _ _ _ _ _ _ Hql Hr).
           ++ inv H. split; [discriminate|intros; exact I].
           ++ inv H. split; [discriminate|intros; exact I].
           ++ inv H. split; [discriminate|intros; exact I].
        -- inv H. split; [|congruence]. intros _. exists sa0, OFin. auto with calcd.
      * inv H. split; [discriminate|intros; exact I].
      * inv H. split; [discriminate|intros; exact I].
      * inv H. split; [discriminate|intros; exact I].
      * inv H. split; [discriminate|intros; exact I].
    + inv H. split; [|congruence]. intros _. exists OFin, sbe. auto with calcd.
Qed.

Lemma retry_node_d d n a b ns i' p' st' tr' r' tr0 st tr r :
  dep_is ns d ->
  (r' = None -> exists sa sb, st' = OCompl sa sb /\ dwf d a sa /\ dwf d b sb) ->
  (r' <> None -> inert st') ->
  retry_node ns (i', p', (st', tr', r')) tr0 = (st, tr, r) ->
  dwf d (Bin (BRetry n) a b) st.
Proof.
  intros Hn Q N H. unfold retry_node in H. destruct r' as [o|].
  - inv H. apply dwf_inert. apply N. discriminate.
  - destruct (Q eq_refl) as (sa & sb & -> & Qa & Qb). inv H. rewrite dwf_bin. auto.
Qed.

Lemma rbe_of_d b en oa cx sbe trbe rbe :
  StartD b -> rbe_of b en oa cx = (sbe, trbe, rbe) -> dwf (e_ss en) b sbe.
Proof.
  intros Sb H. unfold rbe_of in H. destruct oa; try (inv H; auto with calcd; fail).
  exact (Sb _ _ _ _ _ H).
Qed.
Lemma r0bl_of_d b en r0a cx sbe trbe rbe :
  StartD b -> r0bl_of b en r0a cx = (sbe, trbe, rbe) -> dwf (e_ss en) b sbe.
Proof.
  intros Sb H. unfold r0bl_of in H. destruct (res_err r0a); try (inv H; auto with calcd; fail).
  exact (Sb _ _ _ _ _ H).
Qed.

Lemma a_done_d d k a b ns sa tra oa cx sa0 tra0 ra0 sbl trbl rbl st tr r :
  is_seq k = true -> StartD b ->
  dep_is ns d -> dwf d a sa0 -> dwf d b sbl ->
  a_done k a b ns sa tra oa cx (sa0, tra0, ra0) (sbl, trbl, rbl) = (st, tr, r) ->
  dwf d (Bin k a b) st.
Proof.
  intros Hk Sb Hn Hqa0 Hql H.
  assert (Gen : match k with BRetry _ => True | _ =>
      match after_first k (n_env ns) oa with
      | inl o => seq_pass k a sa tra o
      | inr (en2, sv) =>
          let '(sb, trb, rb) := start b en2 cx in
          match rb with
          | None => (ONode (ns_set_saved (ns_set_ph ns PSecond) sv) OFin sb, (tra ++ dtor a sa) ++ trb, None)
          | Some ob => seq_final k b sb ((tra ++ dtor a sa) ++ trb) (after_second k sv ob)
          end
      end = (st, tr, r) -> dwf d (Bin k a b) st end).
  { destruct k; try discriminate Hk; try exact I; intros H'.
    all: destruct (after_first _ (n_env ns) oa) as [o'|[en2 sv]] eqn:Haf;
      [eapply seq_pass_d; eassumption|];
      apply after_first_ss in Haf;
      destruct (start b en2 cx) as [[sb trb] rb] eqn:Hb;
      pose proof (Sb _ _ _ _ _ Hb) as Hqb; rewrite Haf in Hqb; rewrite (Hn : e_ss (n_env ns) = d) in Hqb;
      destruct rb;
      [eapply seq_final_d; eassumption
      |injection H' as <- <- <-; rewrite dwf_bin; split; [exact Hn|split; auto with calcd]]. }
  unfold a_done in H. destruct k; try (exact (Gen H)).
  clear Gen. unfold retry_a_done in H.
  destruct oa; try (inv H; auto with calcd; fail).
  destruct (rbe_of b (n_env ns) (OErr e) cx) as [[sbe trbe] rbe] eqn:Hrbe.
  pose proof (rbe_of_d _ _ _ _ _ _ _ Sb Hrbe) as Qe. rewrite (Hn : e_ss (n_env ns) = d) in Qe.
  destruct (retry_err a b (sa0, tra0, ra0) (sbl, trbl, rbl) (n - n_iter ns) (n_iter ns) (sbe, trbe, rbe) e)
    as [[i' p'] [[st' tr'] r']] eqn:Hr.
  destruct (retry_err_d d _ _ _ _ _ _ _ _ Hqa0 Hql _ _ _ _ _ _ _ _ _ _ _ Qe Hr) as (Q & N).
  eapply retry_node_d; [exact Hn|exact Q|exact N|exact H].
Qed.

Lemma b_done_d d k a b ns sb trb ob sa0 tra0 ra0 sbl trbl rbl st tr r :
  is_seq k = true ->
  dep_is ns d -> dwf d a sa0 -> dwf d b sbl ->
  b_done k a b ns sb trb ob (sa0, tra0, ra0) (sbl, trbl, rbl) = (st, tr, r) ->
  dwf d (Bin k a b) st.
Proof.
  intros Hk Hn Hqa0 Hql H. unfold b_done in H.
  destruct k; try (eapply seq_final_d; eassumption).
  rewrite retry_b_done_eq in H.
  destruct (is_val ob); [|inv H; auto with calcd].
  destruct ra0 as [oa|].
  - destruct oa; try (inv H; auto with calcd; fail).
    destruct (retry_err a b (sa0, tra0, Some (OErr e)) (sbl, trbl, rbl) (n - n_iter ns) (n_iter ns) (sbl, trbl, rbl) e)
      as [[i' p'] [[st' tr'] r']] eqn:Hr.
    destruct (retry_err_d d _ _ _ _ _ _ _ _ Hqa0 Hql _ _ _ _ _ _ _ _ _ _ _ Hql Hr) as (Q & N).
    eapply retry_node_d; [exact Hn|exact Q|exact N|exact H].
  - inv H. rewrite dwf_bin. auto with calcd.
Qed.

Lemma conc_reap_d d k c sc tr r sc' tr' r' :
  conc_reap k c (sc, tr, r) = (sc', tr', r') -> dwf d c sc -> dwf d c sc'.
Proof.
  unfold conc_reap. intros H Hq. destruct k; try (inv H; auto; fail).
  destruct r as [o|]; [destruct o|]; inv H; auto with calcd.
Qed.

Lemma finish_d d k a b ns sa sb tr fin st tr' r :
  finish_conc k a b ns sa sb tr fin false = (st, tr', r) ->
  dep_is ns d -> dwf d a sa -> dwf d b sb -> dwf d (Bin k a b) st.
Proof.
  intros H Hn Ha Hb. destruct fin as [o|].
  - destruct (finish_some k a b ns sa sb tr o) as (st2 & dd & E & Hi & Hd). rewrite E in H. inv H.
    apply dwf_inert. exact Hi.
  - rewrite finish_none in H. inv H. rewrite dwf_bin. auto.
Qed.

Lemma conc_b_done_d d k a b ns sa sb' tr ob cx st tr' r :
  StopD a -> dep_is ns d -> dwf d a sa -> dwf d b sb' ->
  conc_b_done k a b ns sa sb' tr ob cx = (st, tr', r) -> dwf d (Bin k a b) st.
Proof.
  intros Pa Hn Ha Hb H. unfold conc_b_done in H.
  destruct (conc_child_done k ns true ob) as [[ns1 newly] fin] eqn:Hc.
  apply ccd_spec in Hc. destruct Hc as (He1 & _). apply (dep_is_env _ _ _ He1) in Hn.
  destruct fin as [o1|].
  - eapply finish_d; eauto.
  - destruct newly.
    + destruct (stop a sa cx) as [[sa0 tra0] ra0] eqn:Hs.
      pose proof (Pa _ _ _ _ _ _ Hs Ha) as Ha0.
      destruct (conc_reap k a (sa0, tra0, ra0)) as [[sa' tra] ra] eqn:Hr.
      pose proof (conc_reap_d _ _ _ _ _ _ _ _ _ Hr Ha0) as Ha'.
      destruct ra as [oa|].
      * destruct (conc_child_done k ns1 false oa) as [[ns2 x] fin2] eqn:Hc2.
        apply ccd_spec in Hc2. destruct Hc2 as (He2 & _). apply (dep_is_env _ _ _ He2) in Hn.
        eapply finish_d; eauto.
      * inv H. rewrite dwf_bin. auto.
    + inv H. rewrite dwf_bin. auto.
Qed.

Lemma conc_a_done_d d k a b ns sa' sb tr oa cx st tr' r :
  StopD b -> dep_is ns d -> dwf d a sa' -> dwf d b sb ->
  conc_a_done k a b ns sa' sb tr oa cx = (st, tr', r) -> dwf d (Bin k a b) st.
Proof.
  intros Pb Hn Ha Hb H. unfold conc_a_done in H.
  destruct (conc_child_done k ns false oa) as [[ns1 newly] fin] eqn:Hc.
  apply ccd_spec in Hc. destruct Hc as (He1 & _). apply (dep_is_env _ _ _ He1) in Hn.
  destruct fin as [o1|].
  - eapply finish_d; eauto.
  - destruct newly.
    + destruct (stop b sb cx) as [[sb0 trb0] rb0] eqn:Hs.
      pose proof (Pb _ _ _ _ _ _ Hs Hb) as Hb0.
      destruct (conc_reap k b (sb0, trb0, rb0)) as [[sb' trb] rb] eqn:Hr.
      pose proof (conc_reap_d _ _ _ _ _ _ _ _ _ Hr Hb0) as Hb'.
      destruct rb as [ob|].
      * destruct (conc_child_done k ns1 true ob) as [[ns2 x] fin2] eqn:Hc2.
        apply ccd_spec in Hc2. destruct Hc2 as (He2 & _). apply (dep_is_env _ _ _ He2) in Hn.
        eapply finish_d; eauto.
      * inv H. rewrite dwf_bin. auto.
    + inv H. rewrite dwf_bin. auto.
Qed.

Lemma start_conc_d k a b en cx st tr r :
  StartD a -> StopD a -> StartD b ->
  start_conc k a b en cx = (st, tr, r) -> dwf (e_ss en) (Bin k a b) st.
Proof.
  intros Sa Pa Sb H. unfold start_conc in H.
  destruct (start a (env_own en (e_stopped en)) cx) as [[sa0 tra0] ra0] eqn:Ha.
  pose proof (Sa _ _ _ _ _ Ha) as Hqa0. change (e_ss (env_own en (e_stopped en))) with (e_ss en) in Hqa0.
  destruct (conc_reap k a (sa0, tra0, ra0)) as [[sa tra] ra] eqn:Hra.
  pose proof (conc_reap_d _ _ _ _ _ _ _ _ _ Hra Hqa0) as Hqa.
  destruct (match ra with
            | Some oa => conc_child_done k (conc_ns0 en) false oa
            | None => (conc_ns0 en, false, None) end) as [[ns1 x1] x2] eqn:Hm.
  assert (Hn1 : dep_is ns1 (e_ss en)).
  { destruct ra.
    - apply ccd_spec in Hm. destruct Hm as (He & _). unfold dep_is. rewrite He. reflexivity.
    - inv Hm. reflexivity. }
  destruct (start b (env_own en (own_stop ns1)) cx) as [[sb0 trb0] rb0] eqn:Hb.
  pose proof (Sb _ _ _ _ _ Hb) as Hqb0. change (e_ss (env_own en (own_stop ns1))) with (e_ss en) in Hqb0.
  destruct (conc_reap k b (sb0, trb0, rb0)) as [[sb trb] rb] eqn:Hrb.
  pose proof (conc_reap_d _ _ _ _ _ _ _ _ _ Hrb Hqb0) as Hqb.
  destruct rb as [ob|].
  - eapply conc_b_done_d; [exact Pa|exact Hn1|exact Hqa|exact Hqb|exact H].
  - inv H. rewrite dwf_bin. auto.
Qed.

Lemma opt_stop_d d k c cx (dd : bool) sc sc' tr r :
  StopD c -> dwf d c sc ->
  (if dd then (sc, [], None) else conc_reap k c (stop c sc cx)) = (sc', tr, r) -> dwf d c sc'.
Proof.
  intros P Hq H. destruct dd; [inv H; auto|].
  destruct (stop c sc cx) as [[s0 t0] r0] eqn:Hs.
  pose proof (P _ _ _ _ _ _ Hs Hq) as Q. exact (conc_reap_d _ _ _ _ _ _ _ _ _ H Q).
Qed.

Lemma stop_conc_d d k a b ns sa sb cx st' tr r :
  StopD a -> StopD b ->
  dep_is ns d -> dwf d a sa -> dwf d b sb ->
  stop_conc k a b ns sa sb cx = (st', tr, r) -> dwf d (Bin k a b) st'.
Proof.
  intros Pa Pb Hn Hqa Hqb H. unfold stop_conc in H. cbv zeta in H.
  change (leaky k) with false in H.
  destruct (if bdone (ns_set_own (stopped_ns ns) true) then (sb, [], None) else conc_reap k b (stop b sb cx))
    as [[sb' trb] rb] eqn:Hb.
  pose proof (opt_stop_d _ _ _ _ _ _ _ _ _ Pb Hqb Hb) as Hqb'.
  destruct (match rb with
            | Some ob => conc_child_done k (ns_set_own (stopped_ns ns) true) true ob
            | None => (ns_set_own (stopped_ns ns) true, false, None) end) as [[ns2 x] fin1] eqn:Hm.
  assert (Hn2 : dep_is ns2 d).
  { destruct rb.
    - apply ccd_spec in Hm. destruct Hm as (He & _). exact (dep_is_env _ _ _ He Hn).
    - inv Hm. exact Hn. }
  destruct fin1 as [o1|].
  - eapply finish_d; eauto.
  - destruct (if adone ns2 then (sa, [], None) else conc_reap k a (stop a sa cx)) as [[sa' tra] ra] eqn:Ha.
    pose proof (opt_stop_d _ _ _ _ _ _ _ _ _ Pa Hqa Ha) as Hqa'.
    destruct (match ra with
              | Some oa => conc_child_done k ns2 false oa
              | None => (ns2, false, None) end) as [[ns3 y] fin2] eqn:Hm2.
    assert (Hn3 : dep_is ns3 d).
    { destruct ra.
      - apply ccd_spec in Hm2. destruct Hm2 as (He & _). exact (dep_is_env _ _ _ He Hn2).
      - inv Hm2. exact Hn2. }
    eapply finish_d; eauto.
Qed.

Lemma child_ev_d thr cat d c cx sc id oin o sc' tr r hit :
  LeafevD c -> dwf d c sc ->
  child_ev thr cat c sc id oin o cx = ((sc', tr, r), hit) -> dwf d c sc'.
Proof.
  intros L Hq H. apply child_ev_none in H. destruct H as (oin' & ro & h & E & _).
  exact (L _ _ _ _ _ _ _ _ _ E Hq).
Qed.

Lemma opt_leafev_d d k c (dd : bool) sc (X : res * bool) sc' tr r hit :
  (forall s1 t1 r1 h1, X = ((s1, t1, r1), h1) -> dwf d c s1) -> dwf d c sc ->
  (if dd then ((sc, [], None), false) else reap_ev k c X) = ((sc', tr, r), hit) ->
  dwf d c sc'.
Proof.
  intros L Hq H. destruct dd; [inv H; auto|].
  destruct X as [[[s0 t0] r0] h0] eqn:Hs.
  pose proof (L _ _ _ _ eq_refl) as Q.
  unfold reap_ev in H. simpl in H. injection H as H Hh.
  exact (conc_reap_d _ _ _ _ _ _ _ _ _ H Q).
Qed.

Lemma leafev_conc_d d k a b ns sa sb id o cx st' tr r hit :
  LeafevD a -> LeafevD b -> StopD a -> StopD b ->
  dep_is ns d -> dwf d a sa -> dwf d b sb ->
  leafev_conc k a b ns sa sb id o cx = (st', tr, r, hit) -> dwf d (Bin k a b) st'.
Proof.
  intros La Lb Pa Pb Hn Hqa Hqb H. unfold leafev_conc in H.
  destruct (if adone ns then (sa, [], None, false)
            else reap_ev k a (child_ev (bin_throw k false) false a sa id (tmode o) o cx))
    as [[[sa' tra] ra] hita] eqn:Ha.
  pose proof (opt_leafev_d d k a _ _ _ _ _ _ _
                (fun s1 t1 r1 h1 E => child_ev_d _ _ _ _ _ _ _ _ _ _ _ _ _ La Hqa E) Hqa Ha) as Hqa'.
  destruct hita.
  - destruct ra as [oa|].
    + injection H as H Hhit. eapply conc_a_done_d; [exact Pb|exact Hn|exact Hqa'|exact Hqb|exact H].
    + inv H. rewrite dwf_bin. auto.
  - destruct (if bdone ns then (sb, [], None, false) else reap_ev k b (leafev b sb id (tmode o) cx))
      as [[[sb' trb] rb] hitb] eqn:Hb.
    pose proof (opt_leafev_d d k b _ _ _ _ _ _ _
                  (fun s1 t1 r1 h1 E => Lb _ _ _ _ _ _ _ _ _ E Hqb) Hqb Hb) as Hqb'.
    destruct rb as [ob|].
    + injection H as H Hhit. eapply conc_b_done_d; [exact Pa|exact Hn|exact Hqa|exact Hqb'|exact H].
    + inv H. rewrite dwf_bin. auto.
Qed.

Lemma all_d e : StartD e /\ StopD e /\ LeafevD e.
Proof.
  induction e as [v|x| |n|id|id|id c|id lvl| |idc|k s IH|k a IHa b IHb];
    try (split; [|split];
         [intros en cx st tr r H; destruct st; exact I
         |intros d cx st st' tr r H Hq; destruct st'; exact I
         |intros d cx st i o st' tr r hit H Hq; destruct st'; exact I]).
  - (* Un *)
    destruct IH as (Ss & Ps & Ls). split; [|split].
    + intros en cx st tr r H. rewrite start_un in H.
      destruct (sthrows (Un k s)); [unfold start_thrown in H; injection H as <- <- <-; apply dwf_fin|].
      destruct (start s (un_env k en) cx) as [[sc tr1] r1] eqn:Hs.
      pose proof (Ss _ _ _ _ _ Hs) as Hq. rewrite ss_un in Hq.
      destruct r1 as [o1|].
      * eapply un_fin_d; [|exact Hq|exact Hq|exact H]. unfold dep_is. destruct k; reflexivity.
      * inv H. rewrite dwf_un. split; [unfold dep_is; destruct k; reflexivity|exact Hq].
    + intros d cx st st' tr r H Hq.
      destruct st as [|c sn|ns sc sb|sa sb|vv];
        [rewrite stop_fin in H; inv H; auto with calcd
        |simpl in H; inv H; auto with calcd
        |
        |rewrite stop_inert_st in H by exact I; inv H; auto with calcd
        |simpl in H; inv H; auto with calcd].
      rewrite dwf_un in Hq. destruct Hq as [Hn Hq].
      destruct (is_unst k) eqn:Hk.
      * apply is_unst_true in Hk. subst k. rewrite stop_un_unst in H. inv H. rewrite dwf_un. auto.
      * rewrite stop_un in H by exact Hk. unfold stop_un_body in H.
        destruct (un_own k && own_stop ns)%bool.
        { inv H. rewrite dwf_un. auto. }
        set (ns2 := if un_own k then ns_set_own (stopped_ns ns) true else stopped_ns ns) in H.
        assert (Hn2 : dep_is ns2 d) by (unfold ns2; destruct (un_own k); exact Hn).
        clearbody ns2.
        destruct (stop s sc cx) as [[sc' tr1] r1] eqn:Hs.
        pose proof (Ps _ _ _ _ _ _ Hs Hq) as Hq'.
        destruct r1 as [o1|].
        -- destruct (start s (un_env k (n_env ns2)) cx) as [[sc0 tr0] rr0] eqn:H0.
           pose proof (Ss _ _ _ _ _ H0) as Hq0. rewrite ss_un in Hq0. rewrite (Hn2 : e_ss (n_env ns2) = d) in Hq0.
           eapply un_fin_d; [exact Hn2|exact Hq'|exact Hq0|exact H].
        -- inv H. rewrite dwf_un. auto.
    + intros d cx st i o st' tr r hit H Hq.
      destruct st as [|c sn|ns sc sb|sa sb|vv];
        [rewrite leafev_fin in H; inv H; auto with calcd
        |simpl in H; inv H; auto with calcd
        |
        |rewrite leafev_inert_st in H by exact I; inv H; auto with calcd
        |simpl in H; inv H; auto with calcd].
      rewrite dwf_un in Hq. destruct Hq as [Hn Hq].
      rewrite leafev_un in H. unfold leafev_un_body in H.
      destruct (child_ev (un_throw k) (un_catch k) s sc i (un_in k o) o cx) as [[[sc' tr1] r1] h1] eqn:Hs.
      pose proof (child_ev_d _ _ _ _ _ _ _ _ _ _ _ _ _ Ls Hq Hs) as Hq'.
      destruct r1 as [o1|].
      * injection H as H Hh.
        destruct (start s (un_env k (n_env ns)) cx) as [[sc0 tr0] rr0] eqn:H0.
        pose proof (Ss _ _ _ _ _ H0) as Hq0. rewrite ss_un in Hq0. rewrite (Hn : e_ss (n_env ns) = d) in Hq0.
        eapply un_fin_d; [exact Hn|exact Hq'|exact Hq0|exact H].
      * destruct (un_own k && fired (e_ss (n_env ns)) tr1)%bool eqn:Hf.
        2:{ inv H. rewrite dwf_un. auto. }
        unfold fired_body in H.
        destruct (if own_stop ns then (ns, (sc', [], None)) else (ns_set_own ns true, stop s sc' cx))
          as [ns1 [[sc1 tr2] r2]] eqn:Hm.
        assert (Hm' : dep_is ns1 d /\ dwf (un_dep k d) s sc1).
        { destruct (own_stop ns).
          - inv Hm. auto.
          - destruct (stop s sc' cx) as [[sc1' tr2'] r2'] eqn:Hst. inv Hm.
            split; [exact Hn|]. exact (Ps _ _ _ _ _ _ Hst Hq'). }
        destruct Hm' as (Hn1 & Hq1).
        destruct r2 as [oc|].
        -- injection H as H Hh. eapply un_done_d; exact H.
        -- destruct (leafev s sc1 i o cx) as [[[sc3 tr3] r3] h3] eqn:Hs3.
           pose proof (Ls _ _ _ _ _ _ _ _ _ Hs3 Hq1) as Hq3.
           destruct r3 as [oc|].
           ++ injection H as H Hh. eapply un_done_d; exact H.
           ++ inv H. rewrite dwf_un. auto.
  - (* Bin *)
    destruct IHa as (Sa & Pa & La). destruct IHb as (Sb & Pb & Lb).
    destruct (is_seq k) eqn:Hk.
    + assert (R0 : forall en cx sa0 tra0 ra0 sbl trbl rbl,
                 start a en cx = (sa0, tra0, ra0) ->
                 r0bl_of b en (sa0, tra0, ra0) cx = (sbl, trbl, rbl) ->
                 dwf (e_ss en) a sa0 /\ dwf (e_ss en) b sbl).
      { intros en cx sa0 tra0 ra0 sbl trbl rbl E1 E2. split; [exact (Sa _ _ _ _ _ E1)|].
        exact (r0bl_of_d _ _ _ _ _ _ _ Sb E2). }
      split; [|split].
      * intros en cx st tr r H. rewrite start_bin_seq in H by exact Hk.
        destruct (sthrows (Bin k a b)); [unfold start_thrown in H; injection H as <- <- <-; apply dwf_fin|].
        unfold start_seq in H.
        destruct (start a en cx) as [[sa tra] ra] eqn:Ha.
        pose proof (Sa _ _ _ _ _ Ha) as Hqa.
        destruct ra as [oa|].
        -- destruct (rbe_of b en oa cx) as [[sbl trbl] rbl] eqn:Hrb.
           pose proof (rbe_of_d _ _ _ _ _ _ _ Sb Hrb) as Ql.
           eapply a_done_d with (ns := mk_nst PFirst en); [exact Hk|exact Sb|reflexivity|exact Hqa|exact Ql|exact H].
        -- inv H. rewrite dwf_bin. split; [reflexivity|]. split; auto with calcd.
      * intros d cx st st' tr r H Hq.
        destruct st as [|c sn|ns sa sb|sa sb|vv];
          [rewrite stop_fin in H; inv H; auto with calcd
          |simpl in H; inv H; auto with calcd
          |
          |rewrite stop_inert_st in H by exact I; inv H; auto with calcd
          |simpl in H; inv H; auto with calcd].
        rewrite dwf_bin in Hq. destruct Hq as (Hn & Hqa & Hqb).
        rewrite stop_bin, Hk in H.
        destruct (ph ns).
        -- unfold stop_seq1 in H. destruct (stop a sa cx) as [[sa' tra] ra] eqn:Ha.
           pose proof (Pa _ _ _ _ _ _ Ha Hqa) as Hqa'.
           destruct ra as [oa|].
           ++ destruct (start a (n_env (stopped_ns ns)) cx) as [[sa0 tra0] ra0] eqn:E1.
              destruct (r0bl_of b (n_env (stopped_ns ns)) (sa0, tra0, ra0) cx) as [[sbl trbl] rbl] eqn:E2.
              destruct (R0 _ _ _ _ _ _ _ _ E1 E2) as (Q1 & Q2). change (e_ss (n_env (stopped_ns ns))) with (e_ss (n_env ns)) in Q1, Q2.
              rewrite (Hn : e_ss (n_env ns) = d) in Q1, Q2.
              eapply a_done_d with (ns := stopped_ns ns); [exact Hk|exact Sb|exact Hn|exact Q1|exact Q2|exact H].
           ++ inv H. rewrite dwf_bin. auto.
        -- unfold stop_seq2 in H. destruct (stop b sb cx) as [[sb' trb] rb] eqn:Hb.
           pose proof (Pb _ _ _ _ _ _ Hb Hqb) as Hqb'.
           destruct rb as [ob|].
           ++ destruct (start a (n_env (stopped_ns ns)) cx) as [[sa0 tra0] ra0] eqn:E1.
              destruct (r0bl_of b (n_env (stopped_ns ns)) (sa0, tra0, ra0) cx) as [[sbl trbl] rbl] eqn:E2.
              destruct (R0 _ _ _ _ _ _ _ _ E1 E2) as (Q1 & Q2). change (e_ss (n_env (stopped_ns ns))) with (e_ss (n_env ns)) in Q1, Q2.
              rewrite (Hn : e_ss (n_env ns) = d) in Q1, Q2.
              eapply b_done_d with (ns := stopped_ns ns); [exact Hk|exact Hn|exact Q1|exact Q2|exact H].
           ++ inv H. rewrite dwf_bin. auto.
        -- unfold stop_seq2 in H. destruct (stop b sb cx) as [[sb' trb] rb] eqn:Hb.
           pose proof (Pb _ _ _ _ _ _ Hb Hqb) as Hqb'.
           destruct rb as [ob|].
           ++ destruct (start a (n_env (stopped_ns ns)) cx) as [[sa0 tra0] ra0] eqn:E1.
              destruct (r0bl_of b (n_env (stopped_ns ns)) (sa0, tra0, ra0) cx) as [[sbl trbl] rbl] eqn:E2.
              destruct (R0 _ _ _ _ _ _ _ _ E1 E2) as (Q1 & Q2). change (e_ss (n_env (stopped_ns ns))) with (e_ss (n_env ns)) in Q1, Q2.
              rewrite (Hn : e_ss (n_env ns) = d) in Q1, Q2.
              eapply b_done_d with (ns := stopped_ns ns); [exact Hk|exact Hn|exact Q1|exact Q2|exact H].
           ++ inv H. rewrite dwf_bin. auto.
      * intros d cx st i o st' tr r hit H Hq.
        destruct st as [|c sn|ns sa sb|sa sb|vv];
          [rewrite leafev_fin in H; inv H; auto with calcd
          |simpl in H; inv H; auto with calcd
          |
          |rewrite leafev_inert_st in H by exact I; inv H; auto with calcd
          |simpl in H; inv H; auto with calcd].
        rewrite dwf_bin in Hq. destruct Hq as (Hn & Hqa & Hqb).
        rewrite leafev_bin_seq in H by exact Hk.
        destruct (ph ns).
        -- unfold leafev_seq1 in H.
           destruct (child_ev (bin_throw k false) (bin_catch k false) a sa i (bin_in k false o) o cx)
             as [[[sa' tra] ra] h1] eqn:Ha.
           pose proof (child_ev_d _ _ _ _ _ _ _ _ _ _ _ _ _ La Hqa Ha) as Hqa'.
           destruct ra as [oa|].
           ++ injection H as H Hh.
              destruct (start a (n_env ns) cx) as [[sa0 tra0] ra0] eqn:E1.
              destruct (r0bl_of b (n_env ns) (sa0, tra0, ra0) cx) as [[sbl trbl] rbl] eqn:E2.
              destruct (R0 _ _ _ _ _ _ _ _ E1 E2) as (Q1 & Q2). rewrite (Hn : e_ss (n_env ns) = d) in Q1, Q2.
              eapply a_done_d; [exact Hk|exact Sb|exact Hn|exact Q1|exact Q2|exact H].
           ++ inv H. rewrite dwf_bin. auto.
        -- unfold leafev_seq2 in H.
           destruct (child_ev (bin_throw k true) (bin_catch k true) b sb i (bin_in k true o) o cx)
             as [[[sb' trb] rb] h1] eqn:Hb.
           pose proof (child_ev_d _ _ _ _ _ _ _ _ _ _ _ _ _ Lb Hqb Hb) as Hqb'.
           destruct rb as [ob|].
           ++ injection H as H Hh.
              destruct (start a (n_env ns) cx) as [[sa0 tra0] ra0] eqn:E1.
              destruct (r0bl_of b (n_env ns) (sa0, tra0, ra0) cx) as [[sbl trbl] rbl] eqn:E2.
              destruct (R0 _ _ _ _ _ _ _ _ E1 E2) as (Q1 & Q2). rewrite (Hn : e_ss (n_env ns) = d) in Q1, Q2.
              eapply b_done_d; [exact Hk|exact Hn|exact Q1|exact Q2|exact H].
           ++ inv H. rewrite dwf_bin. auto.
        -- unfold leafev_seq2 in H.
           destruct (child_ev (bin_throw k true) (bin_catch k true) b sb i (bin_in k true o) o cx)
             as [[[sb' trb] rb] h1] eqn:Hb.
           pose proof (child_ev_d _ _ _ _ _ _ _ _ _ _ _ _ _ Lb Hqb Hb) as Hqb'.
           destruct rb as [ob|].
           ++ injection H as H Hh.
              destruct (start a (n_env ns) cx) as [[sa0 tra0] ra0] eqn:E1.
              destruct (r0bl_of b (n_env ns) (sa0, tra0, ra0) cx) as [[sbl trbl] rbl] eqn:E2.
              destruct (R0 _ _ _ _ _ _ _ _ E1 E2) as (Q1 & Q2). rewrite (Hn : e_ss (n_env ns) = d) in Q1, Q2.
              eapply b_done_d; [exact Hk|exact Hn|exact Q1|exact Q2|exact H].
           ++ inv H. rewrite dwf_bin. auto.
    + split; [|split].
      * intros en cx st tr r H. rewrite start_bin_conc in H by exact Hk.
        destruct (sthrows (Bin k a b)); [unfold start_thrown in H; injection H as <- <- <-; apply dwf_fin|].
        eapply start_conc_d; [exact Sa|exact Pa|exact Sb|exact H].
      * intros d cx st st' tr r H Hq.
        destruct st as [|c sn|ns sa sb|sa sb|vv];
          [rewrite stop_fin in H; inv H; auto with calcd
          |simpl in H; inv H; auto with calcd
          |
          |rewrite stop_inert_st in H by exact I; inv H; auto with calcd
          |simpl in H; inv H; auto with calcd].
        rewrite dwf_bin in Hq. destruct Hq as (Hn & Hqa & Hqb).
        rewrite stop_bin, Hk in H.
        destruct (own_stop ns).
        -- inv H. rewrite dwf_bin. auto.
        -- eapply stop_conc_d; [exact Pa|exact Pb|exact Hn|exact Hqa|exact Hqb|exact H].
      * intros d cx st i o st' tr r hit H Hq.
        destruct st as [|c sn|ns sa sb|sa sb|vv];
          [rewrite leafev_fin in H; inv H; auto with calcd
          |simpl in H; inv H; auto with calcd
          |
          |rewrite leafev_inert_st in H by exact I; inv H; auto with calcd
          |simpl in H; inv H; auto with calcd].
        rewrite dwf_bin in Hq. destruct Hq as (Hn & Hqa & Hqb).
        rewrite leafev_bin_conc in H by exact Hk.
        eapply leafev_conc_d; [exact La|exact Lb|exact Pa|exact Pb|exact Hn|exact Hqa|exact Hqb|exact H].
Qed.

(* every reachable state: each node was started under as many let_value_with_stop_source operations as
   enclose it in the expression; so the source a TReqStop of level lvl fires is the one of the lvl-th
   enclosing let_value_with_stop_source (0 = outermost) *)
Theorem run_depth e pre script : dwf 0 e (r_st (run e pre script)).
Proof.
  apply (run_invariant e pre (fun rs => dwf 0 e (r_st rs))).
  - unfold run_start. destruct (cthrows e); [apply dwf_fin|].
    destruct (start e (root_env pre) 0) as [[st tr] r] eqn:H.
    rewrite absorb_st. exact (proj1 (all_d e) _ _ _ _ _ H).
  - intros rs ev HI. unfold run_ev. destruct ev as [id o cx|cx|c].
    + destruct (leafev e (r_st rs) id o cx) as [[[st tr] r] hit] eqn:H. destruct hit.
      * rewrite absorb_st. exact (proj2 (proj2 (all_d e)) _ _ _ _ _ _ _ _ _ H HI).
      * exact HI.
    + destruct (r_stopped rs); [exact HI|].
      destruct (stop e (r_st rs) cx) as [[st tr] r] eqn:H.
      rewrite absorb_st. exact (proj1 (proj2 (all_d e)) _ _ _ _ _ _ H HI).
    + destruct (dequeue c (r_queue rs)) as [[id q']|]; [|exact HI].
      destruct (leafev e (r_st rs) id (OVal 0%Z) c) as [[[st tr] r] hit] eqn:H. destruct hit.
      * rewrite absorb_st. exact (proj2 (proj2 (all_d e)) _ _ _ _ _ _ _ _ _ H HI).
      * exact HI.
Qed.

Lemma dwf_letss d now s ns sc sb :
  dwf d (Un (ULetSS now) s) (ONode ns sc sb) -> e_ss (n_env ns) = d /\ dwf (S d) s sc.
Proof. exact (fun H => H). Qed.

(* the callable of LeafR id lvl requests stop on level lvl; the request is the last event of the call until the
   matching let_value_with_stop_source reacts to it *)
Lemma leafr_requests id lvl seen v cx :
  leafev (LeafR id lvl) (OLeaf false seen) id (OVal v) cx = ((OHeld v, [TReqStop id lvl], None), true) /\
  fired lvl [TReqStop id lvl] = true.
Proof. unfold fired. simpl. rewrite !Nat.eqb_refl. split; reflexivity. Qed.

(* ================================================================================================ *)
(* Part 6: with_scheduler_affinity's hop back cannot be cancelled (C11)                             *)
(* ================================================================================================ *)
(* wsa_via = finally(s, unstoppable(schedule(c))): in a live state the schedule() operation never sees a stop
   request, so the root completes - on c, [wsa_via_completes_on_ctx] - with the held result of s, whatever
   was requested in between (via, whose hop is stoppable, may replace it by done: [via_result]) *)
Lemma unst_sched_child_ev thr cat id c ns' sb' oin o cx :
  child_ev thr cat (Un UUnstoppable (Sched id c)) (ONode ns' (OLeaf false false) sb') id oin o cx =
  ((OCompl (OLeaf true false) OFin, [], Some (OVal 0%Z)), true).
Proof. unfold child_ev. simpl. rewrite Nat.eqb_refl. reflexivity. Qed.

Theorem wsa_via_result id c s tok ns sa sb i o cx st tr oc hit :
  live tok (wsa_via id c s) (ONode ns sa sb) ->
  leafev (wsa_via id c s) (ONode ns sa sb) i o cx = (st, tr, Some oc, hit) ->
  i = id /\ ph ns <> PFirst /\ (saved ns = Some oc \/ (saved ns = None /\ oc = OVal 0%Z)).
Proof.
  intros HL H.
  assert (Hi : i = id).
  { apply (finally_leafev_some s (Un UUnstoppable (Sched id c)) id (ONode ns sa sb) i o cx (hop_unst_sched id c)).
    fold (wsa_via id c s). rewrite H. simpl. congruence. }
  subst i. split; [reflexivity|]. unfold wsa_via in H, HL. rewrite leafev_bin_seq in H by reflexivity.
  destruct (ph ns) eqn:Eph.
  - exfalso. unfold leafev_seq1 in H.
    destruct (child_ev (bin_throw BFinally false) (bin_catch BFinally false) s sa id (bin_in BFinally false o) o cx)
      as [[[sa' tra] ra] hh].
    destruct ra; [|discriminate H].
    pose proof (finally_a_done s (Un UUnstoppable (Sched id c)) id ns sa' tra o0 cx (start s (n_env ns) cx)
                  (r0bl_of (Un UUnstoppable (Sched id c)) (n_env ns) (start s (n_env ns) cx) cx) (hop_unst_sched id c)) as Hn.
    apply (f_equal (fun x => snd (fst x))) in H. cbn [fst snd] in H. rewrite Hn in H. discriminate H.
  - split; [discriminate|].
    rewrite live_seq2 in HL by (try reflexivity; congruence). destruct HL as [_ HL].
    destruct sb as [|cc sn|ns' sc sb'|? ?|?]; try contradiction HL.
    rewrite live_un in HL. destruct HL as (_ & _ & HL). unfold un_tok in HL. simpl in HL.
    destruct sc as [|cc seen| | |]; try contradiction HL. destruct HL as [-> ->].
    unfold leafev_seq2 in H. rewrite unst_sched_child_ev in H. unfold b_done, seq_final in H. simpl in H.
    injection H as _ _ Ho _. destruct (saved ns); [left|right; split]; congruence.
  - split; [discriminate|].
    rewrite live_seq2 in HL by (try reflexivity; congruence). destruct HL as [_ HL].
    destruct sb as [|cc sn|ns' sc sb'|? ?|?]; try contradiction HL.
    rewrite live_un in HL. destruct HL as (_ & _ & HL). unfold un_tok in HL. simpl in HL.
    destruct sc as [|cc seen| | |]; try contradiction HL. destruct HL as [-> ->].
    unfold leafev_seq2 in H. rewrite unst_sched_child_ev in H. unfold b_done, seq_final in H. simpl in H.
    injection H as _ _ Ho _. destruct (saved ns); [left|right; split]; congruence.
Qed.

(* ... on the states a run reaches *)
Theorem wsa_via_run_result id c s pre s1 ns sa sb i o cx st tr oc hit :
  r_st (run (wsa_via id c s) pre s1) = ONode ns sa sb ->
  leafev (wsa_via id c s) (ONode ns sa sb) i o cx = (st, tr, Some oc, hit) ->
  i = id /\ ph ns <> PFirst /\ (saved ns = Some oc \/ (saved ns = None /\ oc = OVal 0%Z)).
Proof.
  intros E H. destruct (run_live (wsa_via id c s) pre s1) as [HD|HL]; rewrite E in *.
  - destruct (leafev_done (wsa_via id c s) _ i o cx HD) as (st1 & E1 & _). rewrite E1 in H. discriminate H.
  - eapply wsa_via_result; eassumption.
Qed.

(* ================================================================================================ *)
(* Part 7: A5 - prompt completion                                                                   *)
(* ================================================================================================ *)
(* what an uncompleted operation is waiting for: running harness leaves (also below unstoppable), LeafR
   callables in progress, queued schedule() operations *)
Fixpoint pending (e : sexpr) (st : ost) : list nat :=
  match e, st with
  | Leaf id, OLeaf false _ => [id]
  | LeafN id, OLeaf false _ => [id]
  | LeafR id _, OLeaf false _ => [id]
  | LeafR id _, OHeld _ => [id]
  | Sched id _, OLeaf false _ => [id]
  | Un k s, ONode _ sc _ => pending s sc
  | Bin k a b, ONode ns sa sb =>
      if is_seq k then
        match ph ns with PFirst => pending a sa | _ => pending b sb end
      else pending a sa ++ pending b sb
  | _, _ => []
  end.

Lemma live_pending e : forall tok st, live tok e st -> pending e st <> [].
Proof.
  induction e; intros tok st H; destruct st as [|cc ss|ns sa sb|sa sb|vv]; simpl in *; try contradiction;
    try (match type of H with _ = _ /\ _ => destruct H as [Hc _]; subst; discriminate end); try discriminate.
  - destruct H as (_ & _ & H). exact (IHe _ _ H).
  - destruct H as [_ H]. destruct (is_seq k).
    + destruct (ph ns); [exact (IHe1 _ _ H)|exact (IHe2 _ _ H)|exact (IHe2 _ _ H)].
    + destruct H as (_ & Ha & Hb & Hd). intros E. apply app_eq_nil in E. destruct E as [Ea Eb].
      destruct (adone ns); [destruct (bdone ns); [discriminate|]|].
      * exact (IHe2 _ _ Hb Eb).
      * exact (IHe1 _ _ Ha Ea).
Qed.

(* a stop request on a live operation either completes it, or leaves it waiting for something that does not
   react to stop (an inert leaf, a leaf below unstoppable, a queued schedule() item) *)
Theorem stop_prompt e tok st cx st' tr r :
  live tok e st -> stop e st cx = (st', tr, r) ->
  (r = None -> pending e st' <> []) /\ (r <> None -> done_st st').
Proof.
  intros HL H. destruct (stop_reaches e _ _ _ _ _ _ HL H) as (_ & _ & L1 & L2).
  split; [|exact L2]. intros E. eapply live_pending. exact (L1 E).
Qed.
