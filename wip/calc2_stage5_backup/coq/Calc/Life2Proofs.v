(* C02 on the second-generation sender calculus (Calc/Calc2Defs.v, module Calc2): operation states are
   destroyed exactly once, never while running, and nothing touches them after completion / destruction --
   for ALL sender expressions (repeat_effect_until over any answer list, retry_when with any budget) and
   ALL scripts.  Nothing here changes the model.

   The trace has no "leaf completed" event (an external completion is a script event, a stop-reactive
   completion happens inside the leaf's stop callback), so the property is stated with life-cycle
   automata per KEY (a leaf id, or a scheduler context for schedule() operations, whose destruction
   event carries only the context).  The automaton state is (r, d) = number of running / of
   completed-but-not-destroyed operation states of the key.

   Coarse automaton   life k m r d tr r' d'          (used for whole runs and the counting corollaries)
         start  k : r+d < m, r := r+1         (m = number of leaves of the expression with key k;
                                               with unique leaf ids m = 1: never started while alive)
         touch  k : needs r >= 1              (TLeafStop / TReqStop: only a RUNNING leaf is touched)
         dtor   k : needs d >= 1, d := d-1    (only a COMPLETED operation state is destroyed: never early,
                                               never twice, never before start)
         (silent) : r >= 1, r := r-1, d := d+1  (the completion itself)

   Refined automaton  lifeX k m rho ext r d p tr r' d' p'    (used for one call of start / stop / leafev)
       the silent completion must be JUSTIFIED: either the external event being processed is addressed to
       the key (ext = true: EvLeaf id for leaf id; any leaf event for a scheduler context), or the leaf is
       stop-reactive (rho id) and its stop callback has just run (the TLeafStop event grants one permit p).
       So an operation state that is running and is neither addressed by the current event nor
       stop-reactive cannot complete, hence (dtor needs d >= 1) cannot be destroyed, during that call.

   The (r, d) at every call boundary are the numbers read off the model's own state ([nr], [nd]:
   [OLeaf false _] / [OHeld _] = running, [OLeaf true _] = completed and alive).                      *)
From Coq Require Import ZArith List Bool Arith Lia.
From V Require Import Calc.Calc2Defs Calc.Once2Proofs.
Import ListNotations.
Import Calc2.

(* ------------------------------------------------------------------------------------------------ *)
(* The coarse life-cycle automaton                                                                  *)
(* ------------------------------------------------------------------------------------------------ *)

Inductive key := KLeaf (id : nat) | KSched (c : nat) | KAlloc (a : nat).   (* [stage 5] KAlloc a: the blocks of allocator a *)
Inductive act := AStart | ATouch | ADtor.

Definition lkb (k : key) (id : nat) : bool := match k with KLeaf i => Nat.eqb i id | _ => false end.
Definition skb (k : key) (c : nat) : bool := match k with KSched i => Nat.eqb i c | _ => false end.
Definition akb (k : key) (a : nat) : bool := match k with KAlloc i => Nat.eqb i a | _ => false end.
Definition is_alloc (k : key) : bool := match k with KAlloc _ => true | _ => false end.
Definition lk (k : key) (id : nat) : nat := if lkb k id then 1 else 0.
Definition sk (k : key) (c : nat) : nat := if skb k c then 1 else 0.
Definition ak (k : key) (a : nat) : nat := if akb k a then 1 else 0.
Definition alk (k : key) : nat := if is_alloc k then 1 else 0.

(* what an event means for key k *)
Definition ev_act (k : key) (t : tev) : option act :=
  match t with
  | TLeafStart id _ _ _ _ _ _ => if lkb k id then Some AStart else None
  | TLeafStop id => if lkb k id then Some ATouch else None
  | TReqStop id _ => if lkb k id then Some ATouch else None
  | TLeafDtor id => if lkb k id then Some ADtor else None
  | TSchedStart _ c => if skb k c then Some AStart else None
  | TSchedDtor c => if skb k c then Some ADtor else None
  | TAlloc a => if akb k a then Some AStart else None     (* a block is taken *)
  | TFree a => if akb k a then Some ADtor else None       (* ... and returned *)
  | _ => None
  end.

Inductive life (k : key) (m : nat) : nat -> nat -> list tev -> nat -> nat -> Prop :=
| L_nil : forall r d, life k m r d [] r d
| L_compl : forall r d tr r' d', life k m r (S d) tr r' d' -> life k m (S r) d tr r' d'
| L_start : forall r d t tr r' d', ev_act k t = Some AStart -> r + d < m \/ is_alloc k = true ->
    life k m (S r) d tr r' d' -> life k m r d (t :: tr) r' d'
| L_touch : forall r d t tr r' d', ev_act k t = Some ATouch ->
    life k m (S r) d tr r' d' -> life k m (S r) d (t :: tr) r' d'
| L_dtor : forall r d t tr r' d', ev_act k t = Some ADtor ->
    life k m r d tr r' d' -> life k m r (S d) (t :: tr) r' d'
| L_skip : forall r d t tr r' d', ev_act k t = None ->
    life k m r d tr r' d' -> life k m r d (t :: tr) r' d'.

Lemma life_app : forall k m r d t1 r1 d1 t2 r2 d2,
  life k m r d t1 r1 d1 -> life k m r1 d1 t2 r2 d2 -> life k m r d (t1 ++ t2) r2 d2.
Proof.
  intros k m r d t1 r1 d1 t2 r2 d2 H. induction H; intros H2; simpl; auto.
  - apply L_compl; auto.
  - apply L_start; auto.
  - apply L_touch; auto.
  - apply L_dtor; auto.
  - apply L_skip; auto.
Qed.

(* the total number of alive operation states never exceeds the capacity *)
Lemma life_bound : forall k m r d tr r' d', life k m r d tr r' d' -> is_alloc k = false -> r + d <= m -> r' + d' <= m.
Proof.
  intros k m r d tr r' d' H A. induction H; intros B; auto; apply IHlife; try lia.
  destruct H0 as [H0|H0]; [lia|congruence].
Qed.

(* ------------------------------------------------------------------------------------------------ *)
(* The refined automaton: completions must be justified                                             *)
(* ------------------------------------------------------------------------------------------------ *)

Inductive xact := XStart | XTouch | XTouchC | XDtor.

(* rho id: leaf id is stop-reactive, its TLeafStop is a completing touch *)
Definition ev_xact (k : key) (rho : nat -> bool) (t : tev) : option xact :=
  match t with
  | TLeafStart id _ _ _ _ _ _ => if lkb k id then Some XStart else None
  | TLeafStop id => if lkb k id then Some (if rho id then XTouchC else XTouch) else None
  | TReqStop id _ => if lkb k id then Some XTouch else None
  | TLeafDtor id => if lkb k id then Some XDtor else None
  | TSchedStart _ c => if skb k c then Some XStart else None
  | TSchedDtor c => if skb k c then Some XDtor else None
  | TAlloc a => if akb k a then Some XStart else None
  | TFree a => if akb k a then Some XDtor else None
  | _ => None
  end.

(* is an external leaf event with this id addressed to key k?  (a queued schedule() item is addressed by
   its id, which the destruction event does not carry: every leaf event may concern a scheduler key) *)
Definition key_addr (k : key) (id : nat) : bool := match k with KLeaf i => Nat.eqb i id | _ => true end.

Inductive lifeX (k : key) (m : nat) (rho : nat -> bool) (ext : bool)
  : nat -> nat -> nat -> list tev -> nat -> nat -> nat -> Prop :=
| X_nil : forall r d p, lifeX k m rho ext r d p [] r d p
| X_ext : forall r d p tr r' d' p', ext = true ->
    lifeX k m rho ext r (S d) p tr r' d' p' -> lifeX k m rho ext (S r) d p tr r' d' p'
| X_cb : forall r d p tr r' d' p',
    lifeX k m rho ext r (S d) p tr r' d' p' -> lifeX k m rho ext (S r) d (S p) tr r' d' p'
| X_start : forall r d p t tr r' d' p', ev_xact k rho t = Some XStart -> r + d < m \/ is_alloc k = true ->
    lifeX k m rho ext (S r) d p tr r' d' p' -> lifeX k m rho ext r d p (t :: tr) r' d' p'
| X_touch : forall r d p t tr r' d' p', ev_xact k rho t = Some XTouch ->
    lifeX k m rho ext (S r) d p tr r' d' p' -> lifeX k m rho ext (S r) d p (t :: tr) r' d' p'
| X_touchC : forall r d p t tr r' d' p', ev_xact k rho t = Some XTouchC ->
    lifeX k m rho ext (S r) d (S p) tr r' d' p' -> lifeX k m rho ext (S r) d p (t :: tr) r' d' p'
| X_dtor : forall r d p t tr r' d' p', ev_xact k rho t = Some XDtor ->
    lifeX k m rho ext r d p tr r' d' p' -> lifeX k m rho ext r (S d) p (t :: tr) r' d' p'
| X_skip : forall r d p t tr r' d' p', ev_xact k rho t = None ->
    lifeX k m rho ext r d p tr r' d' p' -> lifeX k m rho ext r d p (t :: tr) r' d' p'.

Lemma xact_act : forall k rho t,
  ev_act k t = match ev_xact k rho t with
               | Some XStart => Some AStart
               | Some XTouch => Some ATouch
               | Some XTouchC => Some ATouch
               | Some XDtor => Some ADtor
               | None => None
               end.
Proof.
  intros k rho t. destruct t; simpl; try reflexivity;
    try (destruct (lkb k id); try reflexivity; destruct (rho id); reflexivity);
    try (destruct (skb k c); reflexivity); destruct (akb k a); reflexivity.
Qed.

(* forgetting the justification *)
Lemma lifeX_coarse : forall k m rho ext r d p tr r' d' p',
  lifeX k m rho ext r d p tr r' d' p' -> life k m r d tr r' d'.
Proof.
  intros k m rho ext r d p tr r' d' p' H. induction H.
  - apply L_nil.
  - apply L_compl; assumption.
  - apply L_compl; assumption.
  - apply L_start; [rewrite (xact_act k rho), H; reflexivity|assumption|assumption].
  - apply L_touch; [rewrite (xact_act k rho), H; reflexivity|assumption].
  - apply L_touch; [rewrite (xact_act k rho), H; reflexivity|assumption].
  - apply L_dtor; [rewrite (xact_act k rho), H; reflexivity|assumption].
  - apply L_skip; [rewrite (xact_act k rho), H; reflexivity|assumption].
Qed.

Lemma lifeX_app : forall k m rho ext r d p t1 r1 d1 p1 t2 r2 d2 p2,
  lifeX k m rho ext r d p t1 r1 d1 p1 -> lifeX k m rho ext r1 d1 p1 t2 r2 d2 p2 ->
  lifeX k m rho ext r d p (t1 ++ t2) r2 d2 p2.
Proof.
  intros k m rho ext r d p t1 r1 d1 p1 t2 r2 d2 p2 H. induction H; intros H2; simpl; auto.
  - apply X_ext; auto.
  - apply X_cb; auto.
  - apply X_start; auto.
  - apply X_touch; auto.
  - apply X_touchC; auto.
  - apply X_dtor; auto.
  - apply X_skip; auto.
Qed.

(* other operation states of the same key do not disturb a life cycle *)
Lemma lifeX_frame : forall k m rho ext r d p tr r' d' p', lifeX k m rho ext r d p tr r' d' p' ->
  forall x y z, x + y <= z -> lifeX k (m + z) rho ext (r + x) (d + y) p tr (r' + x) (d' + y) p'.
Proof.
  intros k m rho ext r d p tr r' d' p' H. induction H; intros x y z Hz; simpl.
  - apply X_nil.
  - apply X_ext; [assumption|]. exact (IHlifeX x y z Hz).
  - apply X_cb. exact (IHlifeX x y z Hz).
  - apply X_start; [assumption|destruct H0; [left; lia|right; assumption]|]. exact (IHlifeX x y z Hz).
  - apply X_touch; [assumption|]. exact (IHlifeX x y z Hz).
  - apply X_touchC; [assumption|]. exact (IHlifeX x y z Hz).
  - apply X_dtor; [assumption|]. exact (IHlifeX x y z Hz).
  - apply X_skip; [assumption|]. exact (IHlifeX x y z Hz).
Qed.

(* whatever permits are available: the form in which calls compose *)
Definition lifeQ (k : key) (m : nat) (rho : nat -> bool) (ext : bool)
           (r d : nat) (tr : list tev) (r' d' : nat) : Prop :=
  forall p, exists p', lifeX k m rho ext r d p tr r' d' p'.

Lemma Q_nil : forall k m rho ext r d, lifeQ k m rho ext r d [] r d.
Proof. intros k m rho ext r d p. exists p. apply X_nil. Qed.

Lemma Q_app : forall k m rho ext r d t1 r1 d1 t2 r2 d2,
  lifeQ k m rho ext r d t1 r1 d1 -> lifeQ k m rho ext r1 d1 t2 r2 d2 -> lifeQ k m rho ext r d (t1 ++ t2) r2 d2.
Proof.
  intros k m rho ext r d t1 r1 d1 t2 r2 d2 H1 H2 p. destruct (H1 p) as (p1 & A). destruct (H2 p1) as (p2 & B).
  exists p2. eapply lifeX_app; eassumption.
Qed.

Lemma Q_frame : forall k m rho ext r d tr r' d', lifeQ k m rho ext r d tr r' d' ->
  forall x y z, x + y <= z -> lifeQ k (m + z) rho ext (r + x) (d + y) tr (r' + x) (d' + y).
Proof.
  intros k m rho ext r d tr r' d' H x y z Hz p. destruct (H p) as (p' & A). exists p'.
  apply lifeX_frame; assumption.
Qed.

Lemma Q_frame_l : forall k m rho ext r d tr r' d', lifeQ k m rho ext r d tr r' d' ->
  forall x y z, x + y <= z -> lifeQ k (z + m) rho ext (x + r) (y + d) tr (x + r') (y + d').
Proof.
  intros. rewrite (Nat.add_comm z m), (Nat.add_comm x r), (Nat.add_comm y d), (Nat.add_comm x r'), (Nat.add_comm y d').
  apply Q_frame; assumption.
Qed.

Lemma Q_skip : forall k m rho ext r d t tr r' d', ev_xact k rho t = None ->
  lifeQ k m rho ext r d tr r' d' -> lifeQ k m rho ext r d (t :: tr) r' d'.
Proof. intros k m rho ext r d t tr r' d' E H p. destruct (H p) as (p' & A). exists p'. apply X_skip; assumption. Qed.

Lemma Q_skips : forall k m rho ext r d tr, Forall (fun t => ev_xact k rho t = None) tr -> lifeQ k m rho ext r d tr r d.
Proof. intros k m rho ext r d tr H. induction H; [apply Q_nil|apply Q_skip; assumption]. Qed.

Lemma Q_coarse : forall k m rho ext r d tr r' d', lifeQ k m rho ext r d tr r' d' -> life k m r d tr r' d'.
Proof. intros k m rho ext r d tr r' d' H. destruct (H 0) as (p' & A). eapply lifeX_coarse; eassumption. Qed.

(* ------------------------------------------------------------------------------------------------ *)
(* Reading the automaton state off an operation state                                               *)
(* ------------------------------------------------------------------------------------------------ *)

Section Key.
Variable k : key.
Variable rho : nat -> bool.
Variable ext : bool.

(* running operation states of key k inside st *)
Fixpoint nr (e : sexpr) (st : ost) {struct e} : nat :=
  match st with
  | OFin => 0
  | OLeaf c _ =>
      match e with
      | Leaf id | LeafN id | LeafR id _ => if c then 0 else lk k id
      | Sched _ cc => if c then 0 else sk k cc
      | _ => 0
      end
  | OHeld _ => match e with LeafR id _ => lk k id | _ => 0 end
  | ONode _ sa sb | OCompl sa sb =>
      match e with
      | Un _ s => nr s sa
      | Bin _ a b => nr a sa + nr b sb
      | _ => 0
      end
  end.

(* completed operation states of key k that are still alive (not destroyed) inside st *)
Fixpoint nd (e : sexpr) (st : ost) {struct e} : nat :=
  match st with
  | OFin => 0
  | OLeaf c _ =>
      match e with
      | Leaf id | LeafN id | LeafR id _ => if c then lk k id else 0
      | Sched _ cc => if c then sk k cc else 0
      | _ => 0
      end
  | OHeld _ => 0
  | ONode ns sa sb =>
      match e with
      | Un UAllocate s => ak k (e_alloc (n_env ns)) + nd s sa    (* [stage 5] the block of a started allocate *)
      | Un _ s => nd s sa
      | Bin _ a b => nd a sa + nd b sb
      | _ => 0
      end
  | OCompl sa sb =>
      match e with
      | Un _ s => nd s sa
      | Bin _ a b => nd a sa + nd b sb
      | _ => 0
      end
  end.

(* the block held by a unary node itself *)
Definition blk (kk : ukind) (st : ost) : nat :=
  match st with
  | ONode ns _ _ => match kk with UAllocate => ak k (e_alloc (n_env ns)) | _ => 0 end
  | _ => 0
  end.
Definition ublk (kk : ukind) : nat := match kk with UAllocate => alk k | _ => 0 end.

(* the number of leaves with key k in the expression *)
Fixpoint cap (e : sexpr) : nat :=
  match e with
  | Leaf id | LeafN id | LeafR id _ => lk k id
  | Sched _ c => sk k c
  | Un kk s => ublk kk + cap s
  | Bin _ a b => cap a + cap b
  | _ => 0
  end.

Lemma ak_le : forall a, ak k a <= alk k.
Proof. intros. unfold ak, alk, akb, is_alloc. destruct k; try lia. destruct (Nat.eqb a0 a); lia. Qed.

Lemma blk_le : forall kk st, blk kk st <= ublk kk.
Proof. intros kk st. destruct st; simpl; try lia. destruct kk; simpl; try lia. apply ak_le. Qed.

Lemma nr_fin : forall e, nr e OFin = 0.
Proof. destruct e; reflexivity. Qed.
Lemma nd_fin : forall e, nd e OFin = 0.
Proof. destruct e; reflexivity. Qed.

Lemma cnt_le_cap : forall e st, nr e st + nd e st <= cap e.
Proof.
  induction e as [v|x| |n|id|id|id c|id lvl| |id|kk s IHs|kk a IHa b IHb]; intros st;
    destruct st as [|cc sn|ns sa sb|sa sb|v']; simpl; try lia; try (destruct cc; lia).
  - specialize (IHs sa). destruct kk; simpl; try lia. pose proof (ak_le (e_alloc (n_env ns))). lia.
  - specialize (IHs sa). lia.
  - specialize (IHa sa). specialize (IHb sb). lia.
  - specialize (IHa sa). specialize (IHb sb). lia.
Qed.

Lemma done_nr : forall e st, done_st e st -> nr e st = 0.
Proof.
  induction e as [v|x| |n|id|id|id c|id lvl| |id|kk s IHs|kk a IHa b IHb]; intros st H;
    destruct st as [|[|] sn|ns sa sb|sa sb|v']; simpl in *; try contradiction; try reflexivity.
  - destruct kk; try contradiction. destruct sb; try contradiction. auto.
  - destruct sb; try (destruct kk; contradiction). destruct kk; auto.
  - destruct H as (Ha & Hb). rewrite (IHa _ Ha), (IHb _ Hb). reflexivity.
Qed.

(* the destructor cascade of a completed operation destroys exactly its alive operation states *)
Lemma dtor_life : forall e st, done_st e st ->
  forall m r d, lifeQ k m rho ext r (nd e st + d) (dtor e st) r d.
Proof.
  assert (LF : forall id m r d, lifeQ k m rho ext r (lk k id + d) [TLeafDtor id] r d).
  { intros id m r d p. exists p. unfold lk. destruct (lkb k id) eqn:E; simpl.
    - apply X_dtor; [simpl; rewrite E; reflexivity|apply X_nil].
    - apply X_skip; [simpl; rewrite E; reflexivity|apply X_nil]. }
  induction e as [v|x| |n|id|id|id c|id lvl| |id|kk s IHs|kk a IHa b IHb]; intros st H m r d;
    destruct st as [|[|] sn|ns sa sb|sa sb|v']; simpl in *; try contradiction; try apply Q_nil; try apply LF;
    try (destruct kk; contradiction); try (destruct kk; apply Q_nil).
  - intros p. exists p. unfold sk. destruct (skb k c) eqn:E; simpl.
    + apply X_dtor; [simpl; rewrite E; reflexivity|apply X_nil].
    + apply X_skip; [simpl; rewrite E; reflexivity|apply X_nil].
  - destruct kk; try contradiction. destruct sb; try contradiction.
    apply Q_app with (r1 := r) (d1 := ak k (e_alloc (n_env ns)) + d).
    + replace (ak k (e_alloc (n_env ns)) + nd s sa + d) with (nd s sa + (ak k (e_alloc (n_env ns)) + d)) by lia.
      apply IHs. exact H.
    + intros p. exists p. unfold ak. destruct (akb k (e_alloc (n_env ns))) eqn:E; simpl.
      * apply X_dtor; [simpl; rewrite E; reflexivity|apply X_nil].
      * apply X_skip; [simpl; rewrite E; reflexivity|apply X_nil].
  - destruct sb; try (destruct kk; contradiction). assert (done_st s sa) as H' by (destruct kk; exact H).
    destruct kk; apply IHs; exact H'.
  - destruct H as (Ha & Hb). destruct (dtor_b_first kk).
    + apply Q_app with (r1 := r) (d1 := nd a sa + d).
      * replace (nd a sa + nd b sb + d) with (nd b sb + (nd a sa + d)) by lia. apply IHb. exact Hb.
      * apply IHa. exact Ha.
    + apply Q_app with (r1 := r) (d1 := nd b sb + d).
      * rewrite <- Nat.add_assoc. apply IHa. exact Ha.
      * apply IHb. exact Hb.
Qed.

(* ---- life cycles between operation states ---- *)

Definition lifeS (e : sexpr) (st : ost) (tr : list tev) (st' : ost) : Prop :=
  lifeQ k (cap e) rho ext (nr e st) (nd e st) tr (nr e st') (nd e st').

Definition lifeP (a b : sexpr) (sa sb : ost) (tr : list tev) (sa' sb' : ost) : Prop :=
  lifeQ k (cap a + cap b) rho ext (nr a sa + nr b sb) (nd a sa + nd b sb) tr
        (nr a sa' + nr b sb') (nd a sa' + nd b sb').

Definition kid (st : ost) : ost := match st with ONode _ a _ => a | OCompl a _ => a | _ => OFin end.
Definition kid2 (st : ost) : ost := match st with ONode _ _ b => b | OCompl _ b => b | _ => OFin end.

Lemma lifeS_refl : forall e st, lifeS e st [] st.
Proof. intros. apply Q_nil. Qed.

Lemma lifeS_app : forall e s1 t1 s2 t2 s3, lifeS e s1 t1 s2 -> lifeS e s2 t2 s3 -> lifeS e s1 (t1 ++ t2) s3.
Proof. intros. eapply Q_app; eassumption. Qed.

Lemma lifeS_dtor : forall e st, done_st e st -> lifeS e st (dtor e st) OFin.
Proof.
  intros e st H. unfold lifeS. rewrite (done_nr e st H), nr_fin, nd_fin.
  replace (nd e st) with (nd e st + 0) by lia. apply dtor_life; exact H.
Qed.

Lemma lifeS_skips : forall e st tr, Forall (fun t => ev_xact k rho t = None) tr -> lifeS e st tr st.
Proof. intros. apply Q_skips. assumption. Qed.

Lemma nr_un : forall kk s st, nr (Un kk s) st = nr s (kid st).
Proof. intros. destruct st; simpl; try reflexivity; destruct s; reflexivity. Qed.
Lemma nd_un : forall kk s st, nd (Un kk s) st = blk kk st + nd s (kid st).
Proof. intros. destruct st; simpl; try reflexivity; try (destruct s; reflexivity); destruct kk; reflexivity. Qed.
Lemma nr_bin : forall kk a b st, nr (Bin kk a b) st = nr a (kid st) + nr b (kid2 st).
Proof. intros. destruct st; simpl; try reflexivity; destruct a, b; reflexivity. Qed.
Lemma nd_bin : forall kk a b st, nd (Bin kk a b) st = nd a (kid st) + nd b (kid2 st).
Proof. intros. destruct st; simpl; try reflexivity; destruct a, b; reflexivity. Qed.

Lemma lifeS_un : forall kk s st tr st', lifeS s (kid st) tr (kid st') -> blk kk st = blk kk st' ->
  lifeS (Un kk s) st tr st'.
Proof.
  intros kk s st tr st' H B. unfold lifeS in *. rewrite !nr_un, !nd_un, <- B.
  change (cap (Un kk s)) with (ublk kk + cap s).
  apply (Q_frame_l _ _ _ _ _ _ _ _ _ H 0 (blk kk st) (ublk kk)). simpl. apply blk_le.
Qed.

Lemma blk_eq : forall kk ns a b ns' a' b', e_alloc (n_env ns) = e_alloc (n_env ns') ->
  blk kk (ONode ns a b) = blk kk (ONode ns' a' b').
Proof. intros kk ns a b ns' a' b' E. simpl. rewrite E. reflexivity. Qed.

Lemma blk_other : forall kk st, kk <> UAllocate -> blk kk st = 0.
Proof. intros kk st H. destruct st; simpl; try reflexivity. destruct kk; try reflexivity. congruence. Qed.

Lemma lifeS_bin : forall kk a b st tr st',
  lifeP a b (kid st) (kid2 st) tr (kid st') (kid2 st') -> lifeS (Bin kk a b) st tr st'.
Proof. intros kk a b st tr st' H. unfold lifeS, lifeP in *. rewrite !nr_bin, !nd_bin. exact H. Qed.

Lemma lifeP_nil : forall a b sa sb, lifeP a b sa sb [] sa sb.
Proof. intros. apply Q_nil. Qed.

Lemma lifeP_app : forall a b sa sb t1 sa1 sb1 t2 sa2 sb2,
  lifeP a b sa sb t1 sa1 sb1 -> lifeP a b sa1 sb1 t2 sa2 sb2 -> lifeP a b sa sb (t1 ++ t2) sa2 sb2.
Proof. intros. eapply Q_app; eassumption. Qed.

Lemma lifeP_a : forall a b sa sb tr sa', lifeS a sa tr sa' -> lifeP a b sa sb tr sa' sb.
Proof.
  intros a b sa sb tr sa' H. unfold lifeP. apply Q_frame; [exact H|apply cnt_le_cap].
Qed.

Lemma lifeP_b : forall a b sa sb tr sb', lifeS b sb tr sb' -> lifeP a b sa sb tr sa sb'.
Proof.
  intros a b sa sb tr sb' H. unfold lifeP. apply Q_frame_l; [exact H|apply cnt_le_cap].
Qed.

Lemma lifeP_dtor_a : forall a b sa sb, done_st a sa -> lifeP a b sa sb (dtor a sa) OFin sb.
Proof. intros. apply lifeP_a. apply lifeS_dtor. assumption. Qed.

Lemma lifeP_dtor_b : forall a b sa sb, done_st b sb -> lifeP a b sa sb (dtor b sb) sa OFin.
Proof. intros. apply lifeP_b. apply lifeS_dtor. assumption. Qed.

Lemma lifeP_skips : forall a b sa sb tr, Forall (fun t => ev_xact k rho t = None) tr -> lifeP a b sa sb tr sa sb.
Proof. intros. apply Q_skips. assumption. Qed.

End Key.

Arguments lifeS k rho ext e st tr st' : simpl never.
Arguments lifeP k rho ext a b sa sb tr sa' sb' : simpl never.
(* ------------------------------------------------------------------------------------------------ *)
(* The helper functions that assemble a result                                                      *)
(* ------------------------------------------------------------------------------------------------ *)

Section Helpers.
Variable k : key.
Variable rho : nat -> bool.
Variable ext : bool.
(* [stage 5] a block counts as completed (alive, not running) from the moment it is taken: for the keys of
   allocators that silent step is always allowed *)
Hypothesis Hal : is_alloc k = true -> ext = true.

(* the events of a result take the automaton from the state before the call to the state after *)
Definition Lgood (e : sexpr) (st0 : ost) (r : res) : Prop := lifeS k rho ext e st0 (snd (fst r)) (fst (fst r)).
(* shape and life cycle together; GL = for a freshly started operation *)
Definition GLs (e : sexpr) (st0 : ost) (r : res) : Prop := good2 e r /\ Lgood e st0 r.
Local Notation GL e r := (GLs e OFin r).

Lemma lifeP_cons_skip : forall a b sa sb t tr sa' sb', ev_xact k rho t = None ->
  lifeP k rho ext a b sa sb tr sa' sb' -> lifeP k rho ext a b sa sb (t :: tr) sa' sb'.
Proof. intros. apply Q_skip; assumption. Qed.

Lemma lifeS_cons_skip : forall e st t tr st', ev_xact k rho t = None ->
  lifeS k rho ext e st tr st' -> lifeS k rho ext e st (t :: tr) st'.
Proof. intros. apply Q_skip; assumption. Qed.

Ltac pieceP :=
  first [ eapply lifeP_a; eassumption
        | eapply lifeP_b; eassumption
        | eapply lifeP_dtor_a; eassumption
        | eapply lifeP_dtor_b; eassumption
        | eapply lifeP_skips; solve [repeat constructor | assumption]
        | eassumption ].
Ltac chainP :=
  cbn [kid kid2]; rewrite <- ?app_assoc, ?app_nil_r;
  repeat first [ apply lifeP_nil | pieceP | apply lifeP_cons_skip; [reflexivity|]
               | eapply lifeP_app; [pieceP|] ].

Ltac pieceS :=
  first [ eassumption
        | eapply lifeS_dtor; eassumption
        | eapply lifeS_skips; solve [repeat constructor | assumption] ].
Ltac chainS :=
  cbn [kid kid2]; rewrite <- ?app_assoc, ?app_nil_r;
  repeat first [ apply lifeS_refl | pieceS | apply lifeS_cons_skip; [reflexivity|]
               | eapply lifeS_app; [pieceS|] ].

Lemma un_result_skips : forall kk o, Forall (fun t => ev_xact k rho t = None) (fst (un_result kk o)).
Proof. intros kk o. destruct kk, o; simpl; repeat constructor. Qed.

Ltac blk0 := simpl; first [reflexivity | apply blk_other; solve [assumption | discriminate]
                           | match goal with |- context [blk _ _ ?st] => destruct st; reflexivity end].

Lemma un_done_L : forall kk s st0 sc tr o, kk <> UAllocate -> done_st s sc -> lifeS k rho ext s (kid st0) tr sc ->
  Lgood (Un kk s) st0 (un_done kk s sc tr o).
Proof.
  intros kk s st0 sc tr o NA D H. unfold un_done. pose proof (un_result_skips kk o) as SK.
  destruct (un_result kk o) as [tr2 o']. simpl in SK.
  destruct (un_eager kk o); unfold Lgood; simpl; (apply lifeS_un; [chainS|blk0]).
Qed.

(* ---- [stage 5] blocks: connect, unwinding, the start of an allocate ---- *)
Definition is_free (t : tev) : Prop := match t with TFree _ => True | _ => False end.
Fixpoint frees (tr : list tev) : nat :=
  match tr with [] => 0 | TFree a :: r => ak k a + frees r | _ :: r => frees r end.

Lemma frees_app : forall l1 l2, frees (l1 ++ l2) = frees l1 + frees l2.
Proof. induction l1 as [|t l1 IH]; simpl; intros; auto. destruct t; rewrite ?IH; auto. lia. Qed.

Lemma unw_frees : forall e al, Forall is_free (unw e al).
Proof.
  induction e as [v|x| |n|id|id|id c|id lvl| |id|kk s IHs|kk a IHa b IHb]; intros al; simpl; try constructor.
  - destruct kk; auto. apply Forall_app. split; [auto|repeat constructor].
  - destruct kk; auto; apply Forall_app; auto.
Qed.

Lemma akb_alloc : forall a, akb k a = true -> is_alloc k = true.
Proof. intros a. unfold akb, is_alloc. destruct k; auto. Qed.

Lemma free1_life : forall a m r d, lifeQ k m rho ext r (ak k a + d) [TFree a] r d.
Proof.
  intros a m r d p. exists p. unfold ak. destruct (akb k a) eqn:E; simpl.
  - apply X_dtor; [simpl; rewrite E; reflexivity|apply X_nil].
  - apply X_skip; [simpl; rewrite E; reflexivity|apply X_nil].
Qed.

Lemma free_life : forall tr, Forall is_free tr -> forall m r d, lifeQ k m rho ext r (frees tr + d) tr r d.
Proof.
  intros tr H. induction H as [|t tr Ht H IH]; intros m r d; simpl; [apply Q_nil|].
  destruct t; simpl in Ht; try contradiction.
  change (TFree a :: tr) with ([TFree a] ++ tr). apply Q_app with (r1 := r) (d1 := frees tr + d); [|apply IH].
  rewrite <- Nat.add_assoc. apply free1_life.
Qed.

Lemma alloc_life : forall a m r d, lifeQ k m rho ext r d [TAlloc a] r (ak k a + d).
Proof.
  intros a m r d p. exists p. unfold ak. destruct (akb k a) eqn:E; simpl.
  - apply X_start; [simpl; rewrite E; reflexivity|right; eapply akb_alloc; eassumption|].
    apply X_ext; [apply Hal; eapply akb_alloc; eassumption|apply X_nil].
  - apply X_skip; [simpl; rewrite E; reflexivity|apply X_nil].
Qed.

Lemma Q_cast : forall m r d tr r' d' d0 d0', lifeQ k m rho ext r d tr r' d' -> d = d0 -> d' = d0' ->
  lifeQ k m rho ext r d0 tr r' d0'.
Proof. intros. subst. assumption. Qed.

(* connect(e): the blocks taken are held afterwards (they are the ones unwinding returns), or, if connect
   threw, all returned *)
Lemma conn_life : forall e al m r d,
  lifeQ k m rho ext r d (fst (conn e al)) r ((if snd (conn e al) then 0 else frees (unw e al)) + d).
Proof.
  induction e as [v|x| |n|id|id|id c|id lvl| |id|kk s IHs|kk a IHa b IHb]; intros al m r d;
    try (simpl; apply Q_nil).
  - destruct kk; try (simpl; apply IHs).
    simpl. specialize (IHs al m r (ak k al + d)). destruct (conn s al) as [tr th]. simpl in *.
    change (TAlloc al :: tr ++ (if th then [TFree al] else [])) with ([TAlloc al] ++ tr ++ (if th then [TFree al] else [])).
    eapply Q_app; [apply alloc_life|]. eapply Q_app; [exact IHs|]. destruct th.
    + apply free1_life.
    + rewrite frees_app. simpl. eapply Q_cast; [apply Q_nil|reflexivity|lia].
  - destruct kk; try (simpl; apply IHa); try (simpl; apply Q_nil).
    + (* when_all: b first *)
      simpl. pose proof (IHb al m r d) as Hb. destruct (conn b al) as [trb thb]. simpl in Hb.
      destruct thb; [exact Hb|].
      pose proof (IHa al m r (frees (unw b al) + d)) as Ha. destruct (conn a al) as [tra tha]. simpl in Ha.
      destruct tha; simpl.
      * eapply Q_app; [exact Hb|]. eapply Q_app; [exact Ha|]. apply free_life. apply unw_frees.
      * eapply Q_app; [exact Hb|]. eapply Q_cast; [exact Ha|reflexivity|]. rewrite frees_app. lia.
    + (* stop_when: a first *)
      simpl. pose proof (IHa al m r d) as Ha. destruct (conn a al) as [tra tha]. simpl in Ha.
      destruct tha; [exact Ha|].
      pose proof (IHb al m r (frees (unw a al) + d)) as Hb. destruct (conn b al) as [trb thb]. simpl in Hb.
      destruct thb; simpl.
      * eapply Q_app; [exact Ha|]. eapply Q_app; [exact Hb|]. apply free_life. apply unw_frees.
      * eapply Q_app; [exact Ha|]. eapply Q_cast; [exact Hb|reflexivity|]. rewrite frees_app. lia.
Qed.

Lemma conn_throws : forall e al, snd (conn e al) = cthrows e.
Proof.
  induction e as [v|x| |n|id|id|id c|id lvl| |id|kk s IHs|kk a IHa b IHb]; intros al; simpl; try reflexivity.
  - destruct kk; try apply IHs. specialize (IHs al). destruct (conn s al) as [tr th]. exact IHs.
  - destruct kk; try apply IHa; try reflexivity.
    + specialize (IHb al). specialize (IHa al). destruct (conn b al) as [trb thb]. simpl in IHb. rewrite <- IHb, <- IHa.
      destruct thb; simpl; [rewrite orb_true_r; reflexivity|]. destruct (conn a al) as [tra tha]. simpl.
      destruct tha; reflexivity.
    + specialize (IHb al). specialize (IHa al). destruct (conn a al) as [tra tha]. simpl in IHa. rewrite <- IHb, <- IHa.
      destruct tha; simpl; [reflexivity|]. destruct (conn b al) as [trb thb]. simpl.
      destruct thb; reflexivity.
Qed.

(* a late connect that throws: whatever it took it returned; nothing was started *)
Lemma sconn_life : forall e al m r d, sthrows e = true -> lifeQ k m rho ext r d (sconn e al) r d.
Proof.
  intros e al m r d H.
  assert (G : forall e', cthrows e' = true -> lifeQ k m rho ext r d (fst (conn e' al)) r d).
  { intros e' C. pose proof (conn_life e' al m r d) as L. rewrite conn_throws, C in L. exact L. }
  unfold sthrows in H. destruct e as [v|x| |n|id|id|id c|id lvl| |id|kk s|kk a b]; simpl in H; try discriminate;
    try (apply G; simpl; rewrite orb_false_r in H; exact H).
  - apply G. reflexivity.
  - destruct kk; try (unfold sconn; apply G; simpl; rewrite orb_false_r in H; exact H).
    unfold sconn. apply G. simpl. exact H.
Qed.

Lemma un_own_not_alloc : forall kk x, un_own kk && x = true -> kk <> UAllocate.
Proof. intros kk x H E. subst. discriminate. Qed.

Lemma un_pre_nil : forall kk en, kk <> UAllocate -> un_pre kk en = [].
Proof. intros kk en H. destruct kk; try reflexivity. congruence. Qed.

(* the start of a unary node: allocate takes its block from the allocator of the receiver's environment *)
Lemma un_start_L : forall kk s en sc x tr0 r, lifeS k rho ext s OFin tr0 sc ->
  Lgood (Un kk s) OFin (ONode (un_nst kk en) sc x, un_pre kk en ++ tr0, r).
Proof.
  intros kk s en sc x tr0 r H. unfold Lgood, lifeS in *. simpl fst. simpl snd.
  rewrite !nr_un, !nd_un. simpl kid. rewrite nr_fin, nd_fin in *.
  change (cap k (Un kk s)) with (ublk k kk + cap k s).
  destruct kk; try exact (Q_frame_l _ _ _ _ _ _ _ _ _ H 0 0 0 (le_n 0)).
  simpl. change (TAlloc (e_alloc en) :: tr0) with ([TAlloc (e_alloc en)] ++ tr0).
  eapply Q_app; [eapply Q_cast; [apply alloc_life|reflexivity|reflexivity]|].
  pose proof (Q_frame_l _ _ _ _ _ _ _ _ _ H 0 (ak k (e_alloc en)) (alk k) (ak_le k _)) as F.
  eapply Q_cast; [exact F|simpl; lia|reflexivity].
Qed.

Lemma seq_pass_L : forall kk a b st0 sa tr o, done_st a sa -> lifeP k rho ext a b (kid st0) (kid2 st0) tr sa OFin ->
  Lgood (Bin kk a b) st0 (seq_pass kk a sa tr o).
Proof.
  intros kk a b st0 sa tr o D H. unfold seq_pass.
  destruct (eager_dtor kk); unfold Lgood; simpl; apply lifeS_bin; chainP.
Qed.

Lemma seq_final_L : forall kk a b st0 sb tr o, done_st b sb -> lifeP k rho ext a b (kid st0) (kid2 st0) tr OFin sb ->
  Lgood (Bin kk a b) st0 (seq_final kk b sb tr o).
Proof.
  intros kk a b st0 sb tr o D H. unfold seq_final.
  destruct (eager_dtor kk); unfold Lgood; simpl; apply lifeS_bin; chainP.
Qed.

Lemma conc_reap_L : forall kk c st0 r, good2 c r -> Lgood c st0 r -> Lgood c st0 (conc_reap kk c r).
Proof.
  intros kk c st0 [[sc tr] [[v|x| |v|v]|]] G H; destruct kk; simpl; auto.
  unfold Lgood in *; simpl in *. unfold good2 in G. chainS.
Qed.

Lemma finish_conc_L : forall kk a b st0 ns sa sb tr fin leak,
  (fin <> None -> done_st a sa /\ done_st b sb) ->
  lifeP k rho ext a b (kid st0) (kid2 st0) tr sa sb ->
  Lgood (Bin kk a b) st0 (finish_conc kk a b ns sa sb tr fin leak).
Proof.
  intros kk a b st0 ns sa sb tr [o|] leak D H; unfold finish_conc.
  - destruct D as (Da & Db); [discriminate|].
    assert (forall X : list tev, X = [] \/ X = [TLeak (e_root (n_env ns))] ->
            Lgood (Bin kk a b) st0 (OCompl sa sb, tr ++ X, Some o)) as G.
    { intros X [->| ->]; unfold Lgood; simpl; apply lifeS_bin; chainP. }
    assert (Lgood (Bin kk a b) st0 (OCompl sa sb, tr, Some o)) as G0.
    { unfold Lgood; simpl; apply lifeS_bin; chainP. }
    assert (Lgood (Bin kk a b) st0 (OFin, tr ++ dtor a sa ++ dtor b sb, Some o)) as G1.
    { unfold Lgood; simpl; apply lifeS_bin; chainP. }
    destruct kk; try (apply G; destruct (leak && reg ns); auto).
    destruct o; auto.
  - unfold Lgood; simpl; apply lifeS_bin; chainP.
Qed.

(* repeat_effect_until *)
Lemma rep_loop_L : forall s r0 rest i, GL s r0 ->
  match rep_loop s r0 rest i with
  | (_, (sc', tr', r')) =>
      match r' with
      | None => lifeS k rho ext s OFin tr' sc'
      | Some _ => lifeS k rho ext s OFin tr' (kid sc') /\ forall kk, blk k kk sc' = 0
      end
  end.
Proof.
  intros s [[sc tr] r] rest. induction rest as [|x rest IH]; intros i (G & H); simpl.
  - split; [chainS|reflexivity].
  - destruct x; [split; [chainS|reflexivity]|]. unfold Lgood in H; simpl in H. unfold good2 in G.
    destruct r as [[v|x| |v|v]|]; try solve [chainS | split; [chainS|reflexivity]].
    specialize (IH (S i) (conj G H)).
    destruct (rep_loop s (sc, tr, Some (OVal v)) rest (S i)) as [i' [[sc' tr'] r']].
    destruct r'; [destruct IH as (IH & B); split; [chainS|exact B]|chainS].
Qed.

Lemma rep_done_L : forall l s st0 ns sc tr o r0,
  done_st s sc -> lifeS k rho ext s (kid st0) tr sc -> GL s r0 ->
  Lgood (Un (URepeat l) s) st0 (rep_done l s ns sc tr o r0).
Proof.
  intros l s st0 ns sc tr o r0 D H G. unfold rep_done.
  destruct o; try solve [unfold Lgood; simpl; (apply lifeS_un; [chainS|blk0])];
  pose proof (rep_loop_L s r0 (skipn (n_iter ns) l) (n_iter ns) G) as R;
  destruct (rep_loop s r0 (skipn (n_iter ns) l) (n_iter ns)) as [i' [[sc' tr'] r']];
  (destruct r'; [destruct R as (R & B)|]); unfold Lgood; simpl;
  (apply lifeS_un; [chainS|try rewrite B; blk0]).
Qed.

(* retry_when *)
Lemma retry_err_L : forall a b r0a r0bl rem i rbe e,
  GL a r0a -> (res_err r0a <> None -> GL b r0bl) -> GL b rbe ->
  match retry_err a b r0a r0bl rem i rbe e with
  | (_, _, (st', tr', _)) => lifeP k rho ext a b OFin OFin tr' (kid st') (kid2 st')
  end.
Proof.
  intros a b [[sa tra] ra] r0bl rem. induction rem as [|rem IH]; intros i [[sb trb] rb] e Ga Gl Gb; simpl.
  - chainP.
  - destruct Ga as (Ga & La). destruct Gb as (Gb & Lb). unfold good2 in Ga, Gb. unfold Lgood in La, Lb.
    simpl in La, Lb.
    destruct rb as [[v|x| |v|v]|]; try solve [chainP].
    destruct ra as [[v'|x'| |v'|v']|]; try solve [chainP].
    assert (GL b r0bl) as Gl' by (apply Gl; simpl; discriminate).
    specialize (IH (S i) r0bl x' (conj Ga La) Gl Gl').
    destruct (retry_err a b (sa, tra, Some (OErr x')) r0bl rem (S i) r0bl x') as [[i' p'] [[st' tr'] r']].
    chainP.
Qed.

Lemma retry_node_L : forall kk a b st0 ns x tr0,
  lifeP k rho ext a b (kid st0) (kid2 st0) tr0 OFin OFin ->
  (match x with (_, _, (st', tr', _)) => lifeP k rho ext a b OFin OFin tr' (kid st') (kid2 st') end) ->
  Lgood (Bin kk a b) st0 (retry_node ns x tr0).
Proof.
  intros kk a b st0 ns [[i' p'] [[st' tr'] r']] tr0 H0 H. unfold retry_node.
  destruct r' as [o|].
  - unfold Lgood; simpl; apply lifeS_bin; chainP.
  - destruct st'; unfold Lgood; simpl; apply lifeS_bin; simpl in H; chainP.
Qed.

Lemma retry_a_done_L : forall n a b st0 ns sa tr oa r0a r0bl rbe,
  done_st a sa -> lifeP k rho ext a b (kid st0) (kid2 st0) tr sa OFin ->
  GL a r0a -> (res_err r0a <> None -> GL b r0bl) -> (forall e, oa = OErr e -> GL b rbe) ->
  Lgood (Bin (BRetry n) a b) st0 (retry_a_done n a b ns sa tr oa r0a r0bl rbe).
Proof.
  intros n a b st0 ns sa tr oa r0a r0bl rbe D H Ga Gl Gb. unfold retry_a_done.
  destruct oa as [v|x| |v|v]; try solve [unfold Lgood; simpl; apply lifeS_bin; chainP].
  apply retry_node_L; [chainP|]. apply retry_err_L; auto. eapply Gb; reflexivity.
Qed.

Lemma retry_b_done_L : forall n a b st0 ns sb tr ob r0a r0bl,
  done_st b sb -> lifeP k rho ext a b (kid st0) (kid2 st0) tr OFin sb ->
  GL a r0a -> (res_err r0a <> None -> GL b r0bl) ->
  Lgood (Bin (BRetry n) a b) st0 (retry_b_done n a b ns sb tr ob r0a r0bl).
Proof.
  intros n a b st0 ns sb tr ob [[sa tra] ra] r0bl D H Ga Gl. unfold retry_b_done.
  destruct ob as [v|x| |v|v]; try solve [unfold Lgood; simpl; apply lifeS_bin; chainP];
  pose proof Ga as (Ga' & La); unfold good2 in Ga'; unfold Lgood in La; simpl in La;
  (destruct ra as [[v'|x'| |v'|v']|]; try solve [unfold Lgood; simpl; apply lifeS_bin; chainP]);
  (apply retry_node_L; [chainP|]); apply retry_err_L; auto; apply Gl; simpl; discriminate.
Qed.

(* the shapes in which start / stop / leafev pass the pre-computed restarts to retry_when's helpers *)
Lemma retry_bl_GL : forall b r en cx, (forall en cx, GL b (start b en cx)) ->
  res_err r <> None ->
  GL b (match res_err r with Some e => start b (env_bind en e) cx | None => (OFin, [], None) end).
Proof. intros b r en cx IH H. destruct (res_err r); [apply IH|congruence]. Qed.

Lemma retry_bl_start_GL : forall b (sa : ost) (tra : list tev) oa en cx, (forall en cx, GL b (start b en cx)) ->
  res_err (sa, tra, Some oa) <> None ->
  GL b (match oa with OErr e => start b (env_bind en e) cx | _ => (OFin, [], None) end).
Proof. intros b sa tra oa en cx IH H. destruct oa; simpl in H; try congruence. apply IH. Qed.

Lemma retry_be_GL : forall b oa en cx, (forall en cx, GL b (start b en cx)) ->
  forall e, oa = OErr e ->
  GL b (match oa with OErr e => start b (env_bind en e) cx | _ => (OFin, [], None) end).
Proof. intros b oa en cx IH e ->. apply IH. Qed.

End Helpers.

Lemma conc_reap_GL : forall k rho ext kk c st0 r, GLs k rho ext c st0 r -> GLs k rho ext c st0 (conc_reap kk c r).
Proof. intros k rho ext kk c st0 r (G & L). split; [apply conc_reap_good; exact G|apply conc_reap_L; assumption]. Qed.

(* ------------------------------------------------------------------------------------------------ *)
(* Symbolic execution of the big matches                                                            *)
(* ------------------------------------------------------------------------------------------------ *)

Ltac pieceP :=
  first [ eapply lifeP_a; eassumption
        | eapply lifeP_b; eassumption
        | eapply lifeP_dtor_a; eassumption
        | eapply lifeP_dtor_b; eassumption
        | eapply lifeP_skips; solve [repeat constructor | assumption]
        | eassumption ].
Ltac chainP :=
  cbn [kid kid2]; rewrite <- ?app_assoc, ?app_nil_r;
  repeat first [ apply lifeP_nil | pieceP | apply lifeP_cons_skip; [reflexivity|]
               | eapply lifeP_app; [pieceP|] ].
Ltac pieceS :=
  first [ eassumption
        | eapply lifeS_dtor; eassumption
        | eapply lifeS_skips; solve [repeat constructor | assumption] ].
Ltac chainS :=
  cbn [kid kid2]; rewrite <- ?app_assoc, ?app_nil_r;
  repeat first [ apply lifeS_refl | pieceS | apply lifeS_cons_skip; [reflexivity|]
               | eapply lifeS_app; [pieceS|] ].

Opaque conc_child_done un_result after_first after_second is_seq un_done seq_pass seq_final conc_reap
       finish_conc rep_done retry_a_done retry_b_done un_own un_nst un_env fired res_err dtor
       thrown un_in bin_in tmode un_throw bin_throw un_catch bin_catch sthrows sconn un_pre.
Arguments good2 e r : simpl never.
Arguments Lgood k rho ext e st0 r : simpl never.
Arguments GLs k rho ext e st0 r : simpl never.

Ltac simpl_gl :=
  repeat match goal with
         | H : GLs _ _ _ _ _ (fst (_, _)) |- _ => simpl fst in H
         | H : GLs _ _ _ _ _ (_, _, _) |- _ => destruct H as [? ?]
         | H : good2 _ (_, _, _) |- _ => unfold good2 in H; simpl in H
         | H : Lgood _ _ _ _ _ (_, _, _) |- _ => unfold Lgood in H; simpl in H
         end.

Ltac lstep_on k rho ext x :=
  lazymatch x with
  | start ?a ?en ?cx =>
      try (assert (GLs k rho ext a OFin (start a en cx)) by auto);
      revert_about x; destruct x as [[? ?] [?|]]; intros; simpl_gl; subst
  | stop ?a ?st ?cx =>
      try (assert (GLs k rho ext a st (stop a st cx)) by auto);
      revert_about x; destruct x as [[? ?] [?|]]; intros; simpl_gl; subst
  | leafev ?a ?st ?id ?o ?cx =>
      try (assert (GLs k rho ext a st (fst (leafev a st id o cx))) by auto);
      revert_about x; destruct x as [[[? ?] [?|]] ?]; intros; simpl_gl; subst
  | conc_reap ?kk ?a (start ?a ?en ?cx) =>
      try (assert (GLs k rho ext a OFin x) by (apply conc_reap_GL; auto));
      revert_about x; destruct x as [[? ?] [?|]]; intros; simpl_gl; subst
  | conc_reap ?kk ?a (stop ?a ?st ?cx) =>
      try (assert (GLs k rho ext a st x) by (apply conc_reap_GL; auto));
      revert_about x; destruct x as [[? ?] [?|]]; intros; simpl_gl; subst
  | conc_reap ?kk ?a (?s, ?t, ?r) =>
      try (match goal with
           | H : lifeS _ _ _ a ?st0 t s |- _ =>
               assert (GLs k rho ext a st0 x)
                 by (apply conc_reap_GL; split; [unfold good2; simpl; auto|unfold Lgood; simpl; exact H])
           end);
      revert_about x; destruct x as [[? ?] [?|]]; intros; simpl_gl; subst
  | conc_child_done ?kk ?ns ?i ?o =>
      let E := fresh "E" in
      destruct x as [[? ?] ?] eqn:E;
      apply ccd_spec in E; simpl in E; rw_flags_in E; simpl in E;
      destruct E as (? & ? & E);
      match type of E with match ?f with _ => _ end => destruct f; try discriminate E end;
      clear E
  | thrown (?s, ?t, None) => rewrite (thrown_none s t)
  | thrown (?s, ?t, Some ?oc) =>
      let E := fresh "E" in
      destruct (thrown_some s t oc) as [E|(? & ? & E)]; [rewrite E|subst; rewrite E]
  | un_throw _ => destruct x
  | bin_throw _ _ => destruct x
  | sthrows _ => destruct x eqn:?
  | after_first _ _ _ => destruct x as [?|[? ?]]
  | un_result _ _ => destruct x as [? ?]
  | own_stop _ => destruct x eqn:?
  | Nat.eqb _ _ => destruct x eqn:?
  | andb _ _ => destruct x eqn:?
  | _ => is_var x; destruct x
  end.

Ltac lstep :=
  simpl; rw_flags; simpl;
  lazymatch goal with
  | |- Lgood ?k ?rho ?ext _ _ ?t => let x := head_scrut t in lstep_on k rho ext x
  end.

Ltac blkeq :=
  simpl; repeat match goal with |- context [if ?b then _ else _] => destruct b end; simpl; reflexivity.

Ltac gl_tuple := split; [unfold good2; simpl; solve [auto]|unfold Lgood; simpl; solve [auto]].

Ltac finish_L :=
  simpl; rw_flags; simpl; rewrite ?un_pre_nil by discriminate; simpl;
  first
    [ solve [unfold Lgood, lifeS; simpl; apply sconn_life; assumption]
    | apply un_start_L; [assumption | solve [chainS]]
    | apply un_done_L; [first [discriminate | eapply un_own_not_alloc; eassumption] | solve [auto] | solve [chainS]]
    | apply rep_done_L; [solve [auto] | solve [chainS] | solve [auto | gl_tuple]]
    | apply seq_pass_L; [solve [auto] | solve [chainP]]
    | apply seq_final_L; [solve [auto] | solve [chainP]]
    | apply retry_a_done_L;
        [ solve [auto] | solve [chainP] | solve [auto | gl_tuple]
        | solve [apply retry_bl_GL; auto | apply retry_bl_start_GL; auto]
        | solve [apply retry_be_GL; auto | intros; discriminate] ]
    | apply retry_b_done_L;
        [ solve [auto] | solve [chainP] | solve [auto | gl_tuple] | solve [apply retry_bl_GL; auto] ]
    | apply finish_conc_L;
        [ let X := fresh in intros X; first [ exfalso; apply X; reflexivity | split; solve [auto] ]
        | solve [chainP] ]
    | unfold Lgood; simpl;
      first [ apply lifeS_un; [solve [chainS] | solve [blkeq]] | apply lifeS_bin; solve [chainP] | solve [chainS] ] ].

(* ------------------------------------------------------------------------------------------------ *)
(* start / stop / leafev: the events of every call are a legal continuation of every life cycle      *)
(* ------------------------------------------------------------------------------------------------ *)

(* ------------------------------------------------------------------------------------------------ *)
(* start / stop / leafev: the events of every call are a legal continuation of every life cycle      *)
(* ------------------------------------------------------------------------------------------------ *)

(* the stop-reactive leaves of an expression *)
Fixpoint leafN_ids (e : sexpr) : list nat :=
  match e with
  | LeafN id => [id]
  | Un _ s => leafN_ids s
  | Bin _ a b => leafN_ids a ++ leafN_ids b
  | _ => []
  end.

(* rho knows the stop-reactive leaves of e *)
Definition Rok (rho : nat -> bool) (e : sexpr) : Prop := forall id, In id (leafN_ids e) -> rho id = true.

Lemma lkb_addr : forall k id, lkb k id = true -> key_addr k id = true.
Proof. destruct k; simpl; auto; discriminate. Qed.

Lemma skb_addr : forall k c id, skb k c = true -> key_addr k id = true.
Proof. destruct k; simpl; auto; discriminate. Qed.

(* the start of an expression whose (late) connect throws *)
Ltac sthrow_solve :=
  split; [unfold good2; solve [exact I | apply done_fin]
         |unfold Lgood, lifeS; simpl; apply sconn_life; assumption].

Section LeafL.
Variable k : key.
Variable rho : nat -> bool.
Variable ext : bool.

Lemma XL_start : forall id m (x1 x2 : bool) q0 q1 sch cx, lk k id <= m ->
  lifeQ k m rho ext 0 0 [TLeafStart id x1 x2 q0 q1 sch cx] (lk k id) 0.
Proof.
  intros id m x1 x2 q0 q1 sch cx H p. exists p. unfold lk in *. destruct (lkb k id) eqn:E.
  - apply X_start; [simpl; rewrite E; reflexivity|left; lia|apply X_nil].
  - apply X_skip; [simpl; rewrite E; reflexivity|apply X_nil].
Qed.

(* the stop callback of a leaf / the callable of LeafR runs: the leaf is running, and stays running *)
Lemma XL_touch : forall id m t d, (t = TLeafStop id \/ exists l, t = TReqStop id l) ->
  lifeQ k m rho ext (lk k id) d [t] (lk k id) d.
Proof.
  intros id m t d H p. unfold lk. destruct (lkb k id) eqn:E.
  - destruct H as [->|(l & ->)].
    + destruct (rho id) eqn:R.
      * exists (S p). apply X_touchC; [simpl; rewrite E, R; reflexivity|apply X_nil].
      * exists p. apply X_touch; [simpl; rewrite E, R; reflexivity|apply X_nil].
    + exists p. apply X_touch; [simpl; rewrite E; reflexivity|apply X_nil].
  - exists p. apply X_skip; [destruct H as [->|(l & ->)]; simpl; rewrite E; reflexivity|apply X_nil].
Qed.

(* a stop-reactive leaf completes from its stop callback *)
Lemma XL_stopN : forall id m, rho id = true -> lifeQ k m rho ext (lk k id) 0 [TLeafStop id] 0 (lk k id).
Proof.
  intros id m R p. exists p. unfold lk. destruct (lkb k id) eqn:E.
  - apply X_touchC; [simpl; rewrite E, R; reflexivity|]. apply X_cb. apply X_nil.
  - apply X_skip; [simpl; rewrite E; reflexivity|apply X_nil].
Qed.

(* the external completion of the addressed leaf *)
Lemma XL_ext : forall id m, (lkb k id = true -> ext = true) -> lifeQ k m rho ext (lk k id) 0 [] 0 (lk k id).
Proof.
  intros id m H p. exists p. unfold lk. destruct (lkb k id) eqn:E.
  - apply X_ext; [apply H; reflexivity|apply X_nil].
  - apply X_nil.
Qed.

End LeafL.

Ltac leaf_solveX :=
  unfold GLs, good2, Lgood, lifeS; simpl;
  split; [solve [auto]|];
  repeat first
   [ apply Q_nil
   | apply XL_start; apply le_n
   | apply XL_stopN; solve [auto]
   | apply XL_touch; solve [eauto]
   | apply XL_ext; solve [auto]
   | match goal with
     | |- lifeQ _ _ _ _ _ _ (?a :: ?b :: ?l) _ _ => change (a :: b :: l) with ([a] ++ (b :: l)); eapply Q_app
     end ].

Lemma life_all : forall k rho ext e, (is_alloc k = true -> ext = true) -> Rok rho e ->
  (forall en cx, GLs k rho ext e OFin (start e en cx)) /\
  (forall st cx, wf2 e st -> GLs k rho ext e st (stop e st cx)) /\
  (forall st id o cx, wf2 e st -> (key_addr k id = true -> ext = true) ->
     GLs k rho ext e st (fst (leafev e st id o cx))).
Proof.
  intros k rho ext e Hal. revert e.
  assert (TRIV : forall e, (forall st, ~ wf2 e st) ->
            (forall en cx, exists o, start e en cx = if sthrows e then (OFin, sconn e (e_alloc en), Some (OErr ccode))
                                                   else (OFin, [], Some o)) ->
            (forall en cx, GLs k rho ext e OFin (start e en cx)) /\
            (forall st cx, wf2 e st -> GLs k rho ext e st (stop e st cx)) /\
            (forall st id o cx, wf2 e st -> (key_addr k id = true -> ext = true) ->
               GLs k rho ext e st (fst (leafev e st id o cx)))).
  { intros e NW ST. split; [|split]; try (intros; exfalso; eapply NW; eassumption).
    intros en cx. destruct (ST en cx) as (o & E). rewrite E. destruct (sthrows e) eqn:TH; [sthrow_solve|].
    split; [unfold good2; apply done_fin|]. unfold Lgood, lifeS. simpl. apply Q_nil. }
  induction e as [v|x| |n|id|id|id c|id lvl| |id|kk s IHs|kk a IHa b IHb]; intros Hr.
  - apply TRIV; [intros st; destruct st; simpl; auto|intros; eexists; reflexivity].
  - apply TRIV; [intros st; destruct st; simpl; auto|intros; eexists; reflexivity].
  - apply TRIV; [intros st; destruct st; simpl; auto|intros; eexists; reflexivity].
  - apply TRIV; [intros st; destruct st; simpl; auto|intros; eexists; reflexivity].
  - (* Leaf *)
    split; [|split].
    + intros en cx. simpl. destruct (sthrows _) eqn:TH; [sthrow_solve|]. destruct (e_stopped en); leaf_solveX.
    + intros st cx H. destruct st as [|[|] [|]| | |]; simpl in *; try contradiction; leaf_solveX.
    + intros st id0 o cx H Hx. destruct st as [|[|] sn| | |]; simpl in *; try contradiction.
      destruct (Nat.eqb id0 id) eqn:E; [apply Nat.eqb_eq in E; subst; assert (lkb k id = true -> ext = true) by (intros L; apply Hx, lkb_addr, L)|]; leaf_solveX.
  - (* LeafN *)
    assert (rho id = true) as R by (apply Hr; simpl; auto).
    split; [|split].
    + intros en cx. simpl. destruct (sthrows _) eqn:TH; [sthrow_solve|]. destruct (e_stopped en); leaf_solveX.
    + intros st cx H. destruct st as [|[|] [|]| | |]; simpl in *; try contradiction; leaf_solveX.
    + intros st id0 o cx H Hx. destruct st as [|[|] [|]| | |]; simpl in *; try contradiction.
      destruct (Nat.eqb id0 id) eqn:E; [apply Nat.eqb_eq in E; subst; assert (lkb k id = true -> ext = true) by (intros L; apply Hx, lkb_addr, L)|]; leaf_solveX.
  - (* Sched *)
    assert (ST : forall m, sk k c <= m -> lifeQ k m rho ext 0 0 [TSchedStart id c] (sk k c) 0).
    { intros m Hm p. exists p. unfold sk in *. destruct (skb k c) eqn:E.
      - apply X_start; [simpl; rewrite E; reflexivity|left; lia|apply X_nil].
      - apply X_skip; [simpl; rewrite E; reflexivity|apply X_nil]. }
    assert (CO : forall m id0, (key_addr k id0 = true -> ext = true) -> lifeQ k m rho ext (sk k c) 0 [] 0 (sk k c)).
    { intros m id0 Hx p. exists p. unfold sk. destruct (skb k c) eqn:E; [|apply X_nil].
      apply X_ext; [apply Hx; eapply skb_addr; exact E|apply X_nil]. }
    split; [|split].
    + intros en cx. simpl. destruct (sthrows _) eqn:TH; [sthrow_solve|].
      unfold GLs, good2, Lgood, lifeS; simpl. split; [destruct (e_stopped en); exact I|].
      apply ST. apply le_n.
    + intros st cx H. destruct st as [|[|] [|]| | |]; simpl in *; try contradiction;
        unfold GLs, good2, Lgood, lifeS; simpl; (split; [exact I|apply Q_nil]).
    + intros st id0 o cx H Hx. destruct st as [|[|] sn| | |]; simpl in *; try contradiction.
      destruct (Nat.eqb id0 id); unfold GLs, good2, Lgood, lifeS; simpl; (split; [exact I|]);
        [apply (CO _ id0 Hx)|apply Q_nil].
  - (* LeafR *)
    split; [|split].
    + intros en cx. simpl. destruct (sthrows _) eqn:TH; [sthrow_solve|]. destruct (e_stopped en); leaf_solveX.
    + intros st cx H. destruct st as [|[|] [|]| | |]; simpl in *; try contradiction; leaf_solveX.
    + intros st id0 o cx H Hx. destruct st as [|[|] sn| | |]; simpl in *; try contradiction.
      * destruct (Nat.eqb id0 id) eqn:E; [apply Nat.eqb_eq in E; subst; assert (lkb k id = true -> ext = true) by (intros L; apply Hx, lkb_addr, L); destruct o|]; leaf_solveX.
      * destruct (Nat.eqb id0 id) eqn:E; [apply Nat.eqb_eq in E; subst; assert (lkb k id = true -> ext = true) by (intros L; apply Hx, lkb_addr, L)|]; leaf_solveX.
  - (* StopIf *)
    apply TRIV; [intros st; destruct st; simpl; auto|intros; eexists; reflexivity].
  - (* LeafC *)
    apply TRIV; [intros st; destruct st; simpl; auto|intros; exists (OErr ccode); reflexivity].
  - (* Un *)
    assert (Rok rho s) as Hrs by exact Hr.
    destruct (IHs Hrs) as (IH1 & IH2 & IH3). split; [|split].
    + intros en cx. split; [apply spec_all|]. repeat lstep; finish_L.
    + intros st cx H. split; [apply spec_all; exact H|].
      destruct st as [| |ns sc sx| |]; simpl in H; try contradiction.
      destruct sx; try contradiction.
      destruct kk; simpl; repeat lstep; finish_L.
    + intros st id o cx H Hx. split; [apply spec_all; exact H|].
      destruct st as [| |ns sc sx| |]; simpl in H; try contradiction.
      destruct sx; try contradiction.
      repeat lstep; finish_L.
  - (* Bin *)
    assert (Rok rho a) as Hra by (intros i Hi; apply Hr; simpl; apply in_or_app; auto).
    assert (Rok rho b) as Hrb by (intros i Hi; apply Hr; simpl; apply in_or_app; auto).
    destruct (IHa Hra) as (IHa1 & IHa2 & IHa3). destruct (IHb Hrb) as (IHb1 & IHb2 & IHb3).
    split; [|split].
    + intros en cx. split; [apply spec_all|]. destruct (is_seq kk) eqn:Hk.
      * repeat lstep; finish_L.
      * repeat lstep; finish_L.
    + intros st cx H. split; [apply spec_all; exact H|].
      destruct st as [| |ns sa sb| |]; simpl in H; try contradiction.
      destruct (is_seq kk) eqn:Hk.
      * destruct (ph ns) eqn:P0; try contradiction; destruct H as (Ha & Hb); subst;
          repeat lstep; finish_L.
      * destruct H as (Ha & Hb & Hab).
        destruct (adone ns) eqn:A0; destruct (bdone ns) eqn:B0; simpl in Hab; try discriminate; subst;
          repeat lstep; finish_L.
    + intros st id o cx H Hx. split; [apply spec_all; exact H|].
      destruct st as [| |ns sa sb| |]; simpl in H; try contradiction.
      destruct (is_seq kk) eqn:Hk.
      * destruct (ph ns) eqn:P0; try contradiction; destruct H as (Ha & Hb); subst;
          repeat lstep; finish_L.
      * destruct H as (Ha & Hb & Hab).
        destruct (adone ns) eqn:A0; destruct (bdone ns) eqn:B0; simpl in Hab; try discriminate; subst;
          repeat lstep; finish_L.
Qed.

Transparent conc_child_done un_result after_first after_second is_seq un_done seq_pass seq_final conc_reap
       finish_conc rep_done retry_a_done retry_b_done un_own un_nst un_env fired res_err dtor
       thrown un_in bin_in tmode un_throw bin_throw un_catch bin_catch sthrows sconn un_pre.
Arguments good2 e r : simpl nomatch.

(* the canonical rho of an expression: its stop-reactive leaf ids *)
Definition rho_of (e : sexpr) (id : nat) : bool := existsb (Nat.eqb id) (leafN_ids e).

Lemma rho_of_ok : forall e, Rok (rho_of e) e.
Proof.
  intros e id H. unfold rho_of. apply existsb_exists. exists id. split; [exact H|apply Nat.eqb_refl].
Qed.

(* the three entry points, stated separately.  start and stop are not addressed to any key (ext = false):
   operation states complete in them only from their own stop callback *)
Lemma alloc_addr : forall k id, is_alloc k = true -> key_addr k id = true.
Proof. destruct k; simpl; auto; discriminate. Qed.

Theorem start_life : forall k rho ext e en cx st tr r, (is_alloc k = true -> ext = true) -> Rok rho e ->
  start e en cx = (st, tr, r) -> lifeS k rho ext e OFin tr st.
Proof.
  intros k rho ext e en cx st tr r A R H. pose proof (proj2 (proj1 (life_all k rho ext e A R) en cx)) as L.
  unfold Lgood in L. rewrite H in L. exact L.
Qed.

Theorem stop_life : forall k rho ext e st0 cx st tr r, (is_alloc k = true -> ext = true) -> Rok rho e -> wf2 e st0 ->
  stop e st0 cx = (st, tr, r) -> lifeS k rho ext e st0 tr st.
Proof.
  intros k rho ext e st0 cx st tr r A R W H.
  pose proof (proj2 (proj1 (proj2 (life_all k rho ext e A R)) st0 cx W)) as L.
  unfold Lgood in L. rewrite H in L. exact L.
Qed.

Theorem leafev_life : forall k rho e st0 id o cx st tr r hit, Rok rho e -> wf2 e st0 ->
  leafev e st0 id o cx = ((st, tr, r), hit) -> lifeS k rho (key_addr k id) e st0 tr st.
Proof.
  intros k rho e st0 id o cx st tr r hit R W H.
  pose proof (proj2 (proj2 (proj2 (life_all k rho (key_addr k id) e (alloc_addr k id) R)) st0 id o cx W (fun x => x))) as L.
  unfold Lgood in L. rewrite H in L. exact L.
Qed.

(* is a running leaf ever destroyed?  No: a completed operation contains no running operation state, and
   every destruction cascade the model emits is [dtor] of a completed operation (that is what the dtor
   rule of the automata checks event by event). *)
Theorem done_no_running : forall k e st, done_st e st -> nr k e st = 0.
Proof. exact done_nr. Qed.

(* What "justified" buys: in a call that is not addressed to key k (start, stop, a leaf event with another
   id), if k is not stop-reactive, NO operation state of k completes: every running one is still running
   afterwards (r' = r + starts), and only operation states that were completed BEFORE the call are
   destroyed (d = d' + dtors). *)
Definition rho_key (k : key) (rho : nat -> bool) : bool := match k with KLeaf i => rho i | _ => false end.

Fixpoint cntx (k : key) (rho : nat -> bool) (a : xact) (tr : list tev) : nat :=
  match tr with
  | [] => 0
  | t :: r =>
      (match ev_xact k rho t, a with
       | Some XStart, XStart => 1 | Some XTouch, XTouch => 1 | Some XTouchC, XTouchC => 1 | Some XDtor, XDtor => 1
       | _, _ => 0
       end) + cntx k rho a r
  end.

Lemma no_touchC : forall k rho t, rho_key k rho = false -> ev_xact k rho t <> Some XTouchC.
Proof.
  intros k rho t H. destruct t; simpl; try discriminate;
    try (destruct (lkb k id) eqn:E; try discriminate);
    try (destruct (skb k c); discriminate); try (destruct (akb k a); discriminate).
  destruct k as [i|c|a]; simpl in *; try discriminate. apply Nat.eqb_eq in E. subst. rewrite H. discriminate.
Qed.

Theorem no_completion_unaddressed : forall k m rho r d tr r' d' p',
  lifeX k m rho false r d 0 tr r' d' p' -> rho_key k rho = false ->
  r' = r + cntx k rho XStart tr /\ d = d' + cntx k rho XDtor tr.
Proof.
  intros k m rho r d tr r' d' p' H R.
  remember 0 as p eqn:Ep. revert Ep.
  induction H; intros Ep; subst; simpl; try discriminate.
  - lia.
  - specialize (IHlifeX eq_refl). rewrite H. lia.
  - specialize (IHlifeX eq_refl). rewrite H. lia.
  - exfalso. exact (no_touchC k rho t R H).
  - specialize (IHlifeX eq_refl). rewrite H. lia.
  - specialize (IHlifeX eq_refl). rewrite H. lia.
Qed.

(* ------------------------------------------------------------------------------------------------ *)
(* Whole runs                                                                                       *)
(* ------------------------------------------------------------------------------------------------ *)

(* the model events of a run-level trace *)
Fixpoint tevs (tr : list xev) : list tev :=
  match tr with
  | [] => []
  | XT t :: r => t :: tevs r
  | _ :: r => tevs r
  end.

Lemma tevs_app : forall l1 l2, tevs (l1 ++ l2) = tevs l1 ++ tevs l2.
Proof. induction l1 as [|x l1 IH]; simpl; intros; auto. destruct x; simpl; rewrite IH; reflexivity. Qed.

Lemma tevs_XT : forall tr, tevs (map XT tr) = tr.
Proof. induction tr as [|t tr IH]; simpl; congruence. Qed.

Lemma tevs_skips : forall n, tevs (repeat XSkip n) = [].
Proof. induction n; simpl; auto. Qed.

(* ---- one script event at a time (refined automaton, boundary states pinned by the model) ---- *)

(* is the script event addressed to key k?  EvRun c is addressed like the item it dequeues *)
Definition step_ext (k : key) (rs : run_state) (ev : sev) : bool :=
  is_alloc k ||
  match ev with
  | EvLeaf id _ _ => key_addr k id
  | EvStop _ => false
  | EvRun c => match dequeue c (r_queue rs) with Some (id, _) => key_addr k id | None => false end
  end.

Lemma ext_alloc : forall k x, is_alloc k = true -> is_alloc k || x = true.
Proof. intros k x H. rewrite H. reflexivity. Qed.

Lemma ext_addr : forall k id, key_addr k id = true -> is_alloc k || key_addr k id = true.
Proof. intros k id H. rewrite H. apply orb_true_r. Qed.

(* [sim] (the stop request recorded in a completed allocate) does not change what the automata read *)
Lemma sim_cnt : forall k e st st', sim e st st' -> nr k e st' = nr k e st /\ nd k e st' = nd k e st.
Proof.
  intros k. induction e as [v|x| |n|id|id|id c|id lvl| |id|kk s IHs|kk a IHa b IHb]; intros st st' [->|S]; auto;
    simpl in S; try contradiction.
  destruct kk; try contradiction. destruct st as [| |ns sc sx| |]; try contradiction.
  destruct sx; try contradiction. destruct st' as [| |ns' sc' sx'| |]; try contradiction.
  destruct sx'; try contradiction. destruct S as (E & S). destruct (IHs _ _ S) as (A & B). simpl.
  rewrite A, B, E. auto.
Qed.

Definition step_ok (k : key) (e : sexpr) (ext : bool) (rs rs' : run_state) : Prop :=
  exists suf, r_tr rs' = r_tr rs ++ suf /\
    lifeQ k (cap k e) (rho_of e) ext (nr k e (r_st rs)) (nd k e (r_st rs)) (tevs suf)
          (nr k e (r_st rs')) (nd k e (r_st rs')).

Lemma absorb_step : forall k e ext rs r cx, Lgood k (rho_of e) ext e (r_st rs) r -> step_ok k e ext rs (absorb rs r cx).
Proof.
  intros k e ext rs [[st tr] [o|]] cx L; unfold Lgood, lifeS in L; simpl in L; unfold step_ok, absorb; simpl.
  - eexists. split; [rewrite <- app_assoc; reflexivity|]. rewrite tevs_app, tevs_XT. simpl. rewrite app_nil_r. exact L.
  - eexists. split; [reflexivity|]. rewrite tevs_XT. exact L.
Qed.

Lemma skip_step : forall k e ext rs, step_ok k e ext rs (skip rs).
Proof. intros. exists [XSkip]. split; [reflexivity|]. simpl. apply Q_nil. Qed.

Lemma run_ev_step : forall k e rs ev, RInv2 e rs -> step_ok k e (step_ext k rs ev) rs (run_ev e rs ev).
Proof.
  assert (FIN : forall k e ext rs ev, done_st e (r_st rs) -> step_ok k e ext rs (run_ev e rs ev)).
  { intros k e ext rs ev Hf. destruct (run_ev_fin e rs ev Hf) as (S & _ & _ & C). unfold step_ok.
    destruct (sim_cnt k e _ _ S) as (A & B). rewrite A, B.
    destruct C as [C|C]; rewrite C.
    + exists []. split; [rewrite app_nil_r; reflexivity|apply Q_nil].
    + exists [XSkip]. split; [reflexivity|apply Q_nil]. }
  intros k e rs ev [(H0 & C0 & Hw)|[(H1 & Hf)|(H0 & C0 & Hf)]].
  - unfold step_ext. destruct ev as [id o cx|cx|c]; simpl.
    + pose proof (proj2 (proj2 (proj2 (life_all k (rho_of e) (is_alloc k || key_addr k id) e (ext_alloc k _) (rho_of_ok e)))
                   _ id o cx Hw (ext_addr k id))) as G.
      destruct (leafev e (r_st rs) id o cx) as [r hit]. simpl in G.
      destruct hit; [apply absorb_step; assumption|apply skip_step].
    + destruct (r_stopped rs); [apply skip_step|].
      apply (absorb_step k e (is_alloc k || false) {| r_st := r_st rs; r_stopped := true; r_roots := r_roots rs; r_tr := r_tr rs;
                                      r_queue := r_queue rs |}).
      simpl. apply (proj2 (life_all k (rho_of e) (is_alloc k || false) e (ext_alloc k _) (rho_of_ok e))). exact Hw.
    + destruct (dequeue c (r_queue rs)) as [[id q']|]; [|apply skip_step].
      pose proof (proj2 (proj2 (proj2 (life_all k (rho_of e) (is_alloc k || key_addr k id) e (ext_alloc k _) (rho_of_ok e)))
                   _ id (OVal 0%Z) c Hw (ext_addr k id))) as G.
      destruct (leafev e (r_st rs) id (OVal 0%Z) c) as [r hit]. simpl in G.
      destruct hit.
      * apply (absorb_step k e _ {| r_st := r_st rs; r_stopped := r_stopped rs; r_roots := r_roots rs;
                                    r_tr := r_tr rs; r_queue := q' |}). exact G.
      * apply (skip_step k e _ {| r_st := r_st rs; r_stopped := r_stopped rs; r_roots := r_roots rs;
                                  r_tr := r_tr rs; r_queue := q' |}).
  - apply FIN. exact Hf.
  - apply FIN. rewrite Hf. apply done_fin.
Qed.

(* (a) never early, per script event: the events the model emits for one script event take every key's
   refined automaton from the state read off the model before the event to the state read off after it;
   the start() call likewise from nothing *)
Theorem C02_step : forall k e pre script ev,
  let rs := run e pre script in
  step_ok k e (step_ext k rs ev) rs (run e pre (script ++ [ev])).
Proof.
  intros k e pre script ev. cbv zeta. rewrite run_app. simpl. apply run_ev_step. apply run_inv.
Qed.

Theorem C02_step_start : forall k e pre,
  lifeQ k (cap k e) (rho_of e) (is_alloc k) 0 0 (tevs (r_tr (run e pre [])))
        (nr k e (r_st (run e pre []))) (nd k e (r_st (run e pre []))).
Proof.
  intros k e pre. unfold run. simpl. unfold run_start. destruct (cthrows e) eqn:C.
  - (* [stage 5] the root connect threw: the blocks taken were all returned, nothing else happened *)
    simpl. rewrite tevs_app, tevs_XT. simpl. rewrite app_nil_r, nr_fin, nd_fin.
    pose proof (conn_life k (rho_of e) (is_alloc k) (fun x => x) e 0 (cap k e) 0 0) as L.
    rewrite conn_throws, C in L. exact L.
  - pose proof (proj2 (proj1 (life_all k (rho_of e) (is_alloc k) e (fun x => x) (rho_of_ok e)) (root_env pre) 0%nat)) as L.
    unfold Lgood, lifeS in L. rewrite nr_fin, nd_fin in L.
    destruct (start e (root_env pre) 0%nat) as [[st tr] [o|]]; simpl in *.
    + rewrite tevs_app, tevs_XT. simpl. rewrite app_nil_r. exact L.
    + rewrite tevs_XT. exact L.
Qed.

(* ---- whole traces (coarse automaton) ---- *)

(* the automaton state of key k after a run is the one read off the run's operation state *)
Definition LInv (k : key) (e : sexpr) (rs : run_state) : Prop :=
  life k (cap k e) 0 0 (tevs (r_tr rs)) (nr k e (r_st rs)) (nd k e (r_st rs)).

Lemma step_LInv : forall k e ext rs rs', LInv k e rs -> step_ok k e ext rs rs' -> LInv k e rs'.
Proof.
  intros k e ext rs rs' I (suf & E & L). unfold LInv in *. rewrite E, tevs_app.
  eapply life_app; [exact I|]. eapply Q_coarse. exact L.
Qed.

Lemma run_LInv : forall k e pre script, LInv k e (run e pre script).
Proof.
  intros k e pre script. induction script as [|ev script IH] using rev_ind.
  - unfold LInv. eapply Q_coarse. apply C02_step_start.
  - eapply step_LInv; [exact IH|]. apply C02_step.
Qed.

(* C02, automaton form: the whole trace of a run, INCLUDING the owner's destruction of the completed root
   operation, is a legal life cycle for every key, ending in the state read off the final operation state *)
Theorem C02_life : forall k e pre script,
  let rs := exec e pre script in
  life k (cap k e) 0 0 (tevs (r_tr rs)) (nr k e (r_st rs)) (nd k e (r_st rs)).
Proof.
  intros k e pre script. cbv zeta. rewrite exec_run.
  pose proof (run_LInv k e pre script) as I. unfold LInv in I.
  destruct (run_inv e pre script) as ([(H & _ & W)|[(H & F)|(H & _ & F)]] & _); unfold run_end; rewrite H; try exact I.
  simpl. rewrite tevs_app. simpl. rewrite tevs_XT, nr_fin, nd_fin.
  eapply life_app; [exact I|]. pose proof (lifeS_dtor k (rho_of e) false e _ F) as D. unfold lifeS in D.
  rewrite nr_fin, nd_fin in D. eapply Q_coarse. exact D.
Qed.

(* (d) nothing leaked: when the root completed, the run ends with every operation state destroyed *)
Theorem C02_all_destroyed_at_end : forall k e pre script,
  r_roots (exec e pre script) = 1%nat \/ cthrows e = true ->
  r_st (exec e pre script) = OFin /\
  life k (cap k e) 0 0 (tevs (r_tr (exec e pre script))) 0 0.
Proof.
  intros k e pre script H.
  assert (r_st (exec e pre script) = OFin) as F.
  { destruct H as [H|H].
    - rewrite exec_run, run_end_st. rewrite exec_run, run_end_roots in H. rewrite H. reflexivity.
    - destruct (C01_2_connect_throw e pre script H) as (E & _ & F & _). rewrite E. exact F. }
  split; [exact F|]. pose proof (C02_life k e pre script) as L. cbv zeta in L.
  rewrite F, nr_fin, nd_fin in L. exact L.
Qed.

(* ------------------------------------------------------------------------------------------------ *)
(* What a legal life cycle means in terms of event counts                                           *)
(* ------------------------------------------------------------------------------------------------ *)

Definition act_eqb (a b : act) : bool :=
  match a, b with AStart, AStart => true | ATouch, ATouch => true | ADtor, ADtor => true | _, _ => false end.

Definition is_act (k : key) (a : act) (t : tev) : bool :=
  match ev_act k t with Some a' => act_eqb a a' | None => false end.

(* number of events with meaning a for key k *)
Fixpoint cnt (k : key) (a : act) (tr : list tev) : nat :=
  match tr with
  | [] => 0
  | t :: r => (if is_act k a t then 1 else 0) + cnt k a r
  end.

Lemma cnt_app : forall k a l1 l2, cnt k a (l1 ++ l2) = cnt k a l1 + cnt k a l2.
Proof. induction l1 as [|t l1 IH]; simpl; intros; auto. rewrite IH. lia. Qed.

(* started = alive + destroyed *)
Lemma life_balance : forall k m r d tr r' d', life k m r d tr r' d' ->
  r + d + cnt k AStart tr = r' + d' + cnt k ADtor tr.
Proof.
  intros k m r d tr r' d' H. induction H; simpl; unfold is_act; try rewrite H; simpl; lia.
Qed.

Lemma life_split : forall k m r d tr r' d', life k m r d tr r' d' ->
  forall p q, tr = p ++ q -> exists r1 d1, life k m r d p r1 d1 /\ life k m r1 d1 q r' d'.
Proof.
  intros k m r d tr r' d' H. induction H; intros p q E.
  - symmetry in E. apply app_eq_nil in E. destruct E as (-> & ->). exists r, d. split; apply L_nil.
  - destruct (IHlife p q E) as (r1 & d1 & A & B). exists r1, d1. split; [apply L_compl; exact A|exact B].
  - destruct p as [|t' p]; simpl in E.
    + subst q. exists r, d. split; [apply L_nil|apply L_start; assumption].
    + inversion E; subst. destruct (IHlife p q eq_refl) as (r1 & d1 & A & B).
      exists r1, d1. split; [apply L_start; assumption|exact B].
  - destruct p as [|t' p]; simpl in E.
    + subst q. exists (S r), d. split; [apply L_nil|apply L_touch; assumption].
    + inversion E; subst. destruct (IHlife p q eq_refl) as (r1 & d1 & A & B).
      exists r1, d1. split; [apply L_touch; assumption|exact B].
  - destruct p as [|t' p]; simpl in E.
    + subst q. exists r, (S d). split; [apply L_nil|apply L_dtor; assumption].
    + inversion E; subst. destruct (IHlife p q eq_refl) as (r1 & d1 & A & B).
      exists r1, d1. split; [apply L_dtor; assumption|exact B].
  - destruct p as [|t' p]; simpl in E.
    + subst q. exists r, d. split; [apply L_nil|apply L_skip; assumption].
    + inversion E; subst. destruct (IHlife p q eq_refl) as (r1 & d1 & A & B).
      exists r1, d1. split; [apply L_skip; assumption|exact B].
Qed.

(* what the automaton requires when an event is read *)
Lemma life_head : forall k m r d tr r' d', life k m r d tr r' d' ->
  forall t q, tr = t :: q ->
  match ev_act k t with
  | Some AStart => r + d < m \/ is_alloc k = true
  | Some ATouch => 1 <= r
  | Some ADtor => 1 <= r + d
  | None => True
  end.
Proof.
  intros k m r d tr r' d' H. induction H; intros t0 q E; try discriminate.
  - specialize (IHlife t0 q E). destruct (ev_act k t0) as [[| |]|]; auto; try lia.
    destruct IHlife; [left; lia|right; assumption].
  - inversion E; subst. rewrite H. assumption.
  - inversion E; subst. rewrite H. lia.
  - inversion E; subst. rewrite H. lia.
  - inversion E; subst. rewrite H. exact I.
Qed.

(* at every point of a legal trace (from nothing alive): destroyed <= started <= destroyed + capacity
   ([stage 5] no capacity for the blocks of an allocator) *)
Theorem life_prefix_counts : forall k m tr r' d', life k m 0 0 tr r' d' ->
  forall p q, tr = p ++ q ->
  cnt k ADtor p <= cnt k AStart p /\ (is_alloc k = false -> cnt k AStart p <= cnt k ADtor p + m).
Proof.
  intros k m tr r' d' H p q E. destruct (life_split _ _ _ _ _ _ _ H p q E) as (r1 & d1 & A & _).
  pose proof (life_balance _ _ _ _ _ _ _ A) as B. split; [lia|]. intros NA.
  pose proof (life_bound _ _ _ _ _ _ _ A NA) as C.
  assert (r1 + d1 <= m) by (apply C; lia). lia.
Qed.

(* ... and when an event for key k is read:
     start : fewer than capacity are alive            (unique key: the previous instance was destroyed)
     touch : a started, not yet destroyed instance exists   (nothing touches a destroyed operation state)
     dtor  : a started, not yet destroyed instance exists   (never before start, never twice)        *)
Theorem life_at_event : forall k m tr r' d', life k m 0 0 tr r' d' ->
  forall p t q, tr = p ++ t :: q ->
  match ev_act k t with
  | Some AStart => cnt k AStart p < cnt k ADtor p + m \/ is_alloc k = true
  | Some ATouch => cnt k ADtor p < cnt k AStart p
  | Some ADtor => cnt k ADtor p < cnt k AStart p
  | None => True
  end.
Proof.
  intros k m tr r' d' H p t q E. destruct (life_split _ _ _ _ _ _ _ H p (t :: q) E) as (r1 & d1 & A & B).
  pose proof (life_balance _ _ _ _ _ _ _ A) as Bal. pose proof (life_head _ _ _ _ _ _ _ B t q eq_refl) as Hd.
  destruct (ev_act k t) as [[| |]|]; auto; try lia. destruct Hd; [left; lia|right; assumption].
Qed.

(* with unique leaf ids the capacity of a leaf key is at most 1 *)
Lemma cap_leaf_count : forall id e, cap (KLeaf id) e = count_occ Nat.eq_dec (leaf_ids e) id.
Proof.
  assert (L : forall id id', lk (KLeaf id) id' = count_occ Nat.eq_dec [id'] id).
  { intros. unfold lk. simpl. destruct (Nat.eq_dec id' id); destruct (Nat.eqb_spec id id'); congruence. }
  induction e as [v|x| |n|id'|id'|id' c|id' lvl| |id'|kk s IHs|kk a IHa b IHb]; try (apply L); simpl; auto.
  - destruct kk; simpl; exact IHs.
  - rewrite count_occ_app. congruence.
Qed.

Lemma cap_nodup : forall id e, NoDup (leaf_ids e) -> cap (KLeaf id) e <= 1.
Proof. intros id e H. rewrite cap_leaf_count. apply (proj1 (NoDup_count_occ Nat.eq_dec _) H). Qed.

(* ------------------------------------------------------------------------------------------------ *)
(* C02 on whole runs, in terms of the trace                                                         *)
(* ------------------------------------------------------------------------------------------------ *)

(* (b) per instance: with unique leaf ids the TLeafStart / TLeafDtor events of one leaf alternate, starting
   with a start -- between two consecutive starts there is exactly one destruction.  Stated on every
   prefix p of the trace: #dtor <= #start <= #dtor + 1 *)
Theorem C02_dtor_at_most_once : forall e pre script id p q,
  NoDup (leaf_ids e) -> tevs (r_tr (exec e pre script)) = p ++ q ->
  cnt (KLeaf id) ADtor p <= cnt (KLeaf id) AStart p /\ cnt (KLeaf id) AStart p <= cnt (KLeaf id) ADtor p + 1.
Proof.
  intros e pre script id p q ND E.
  destruct (life_prefix_counts _ _ _ _ _ (C02_life (KLeaf id) e pre script) p q E) as (A & B).
  pose proof (cap_nodup id e ND). specialize (B eq_refl). lia.
Qed.

(* (a)(c) what holds when an event of leaf id is emitted (unique leaf ids):
     TLeafStart id               : every earlier instance has been destroyed
     TLeafStop id / TReqStop id  : the current instance is started and not destroyed (and, by [life], running)
     TLeafDtor id                : the current instance is started and not yet destroyed (and, by [life],
                                   completed: the automaton reads a dtor only in a state with d >= 1)     *)
Theorem C02_no_event_after_dtor : forall e pre script id p t q,
  NoDup (leaf_ids e) -> tevs (r_tr (exec e pre script)) = p ++ t :: q ->
  match ev_act (KLeaf id) t with
  | Some AStart => cnt (KLeaf id) AStart p = cnt (KLeaf id) ADtor p
  | Some ATouch => cnt (KLeaf id) AStart p = cnt (KLeaf id) ADtor p + 1
  | Some ADtor => cnt (KLeaf id) AStart p = cnt (KLeaf id) ADtor p + 1
  | None => True
  end.
Proof.
  intros e pre script id p t q ND E.
  pose proof (life_at_event _ _ _ _ _ (C02_life (KLeaf id) e pre script) p t q E) as A.
  destruct (C02_dtor_at_most_once e pre script id p (t :: q) ND E) as (B & C).
  pose proof (cap_nodup id e ND). destruct (ev_act (KLeaf id) t) as [[| |]|]; auto; try lia.
  destruct A as [A|A]; [lia|discriminate A].
Qed.

(* the same for schedule() operations of one context (their destruction event carries only the context):
   at every point destroyed <= started <= destroyed + number of schedule() leaves of that context, a
   destruction only when one is alive *)
Theorem C02_sched : forall e pre script c,
  (forall p q, tevs (r_tr (exec e pre script)) = p ++ q ->
     cnt (KSched c) ADtor p <= cnt (KSched c) AStart p /\
     cnt (KSched c) AStart p <= cnt (KSched c) ADtor p + cap (KSched c) e) /\
  (forall p q, tevs (r_tr (exec e pre script)) = p ++ TSchedDtor c :: q ->
     cnt (KSched c) ADtor p < cnt (KSched c) AStart p).
Proof.
  intros e pre script c. split.
  - intros p q E. destruct (life_prefix_counts _ _ _ _ _ (C02_life (KSched c) e pre script) p q E) as (A & B).
    split; [exact A|exact (B eq_refl)].
  - intros p q E. pose proof (life_at_event _ _ _ _ _ (C02_life (KSched c) e pre script) p _ q E) as A.
    simpl in A. rewrite Nat.eqb_refl in A. exact A.
Qed.

(* (d) nothing leaked: if the root completed, every started operation state of every key was destroyed *)
Theorem C02_balanced_at_end : forall k e pre script,
  r_roots (exec e pre script) = 1%nat \/ cthrows e = true ->
  cnt k AStart (tevs (r_tr (exec e pre script))) = cnt k ADtor (tevs (r_tr (exec e pre script))).
Proof.
  intros k e pre script H. destruct (C02_all_destroyed_at_end k e pre script H) as (_ & L).
  pose proof (life_balance _ _ _ _ _ _ _ L). lia.
Qed.

(* (e) the shape of the run-level trace *)
Definition plain_x (x : xev) : Prop := match x with XT _ => True | XSkip => True | _ => False end.
Definition is_dtor_ev (t : tev) : Prop :=
  match t with TLeafDtor _ => True | TSchedDtor _ => True | TFree _ => True | _ => False end.

Lemma dtor_only_dtors : forall e st, Forall is_dtor_ev (dtor e st).
Proof.
  induction e as [v|x| |n|id|id|id c|id lvl| |id|kk s IHs|kk a IHa b IHb]; intros st;
    destruct st as [|cc sn|ns sa sb|sa sb|v']; try destruct kk; simpl;
    repeat first [ apply Forall_nil | apply IHs | apply IHa | apply IHb
                 | apply Forall_cons; [exact I|]
                 | apply Forall_app; split ].
Qed.

Definition SInv (rs : run_state) : Prop :=
  match r_roots rs with
  | O => Forall plain_x (r_tr rs)
  | S _ => exists p o n cx j, r_tr rs = p ++ XRoot o n cx :: repeat XSkip j /\ Forall plain_x p
  end.

Lemma plain_XT : forall tr, Forall plain_x (map XT tr).
Proof. induction tr; simpl; constructor; simpl; auto. Qed.

Lemma absorb_SInv : forall rs r cx, r_roots rs = 0%nat -> SInv rs -> SInv (absorb rs r cx).
Proof.
  intros rs [[st tr] [o|]] cx H0 S; unfold SInv in *; rewrite H0 in S; unfold absorb; simpl; rewrite ?H0.
  - eexists _, _, _, _, 0%nat. split; [reflexivity|]. apply Forall_app. split; [exact S|apply plain_XT].
  - apply Forall_app. split; [exact S|apply plain_XT].
Qed.

Lemma skip_SInv : forall rs, SInv rs -> SInv (skip rs).
Proof.
  intros rs S. unfold SInv, skip in *; simpl. destruct (r_roots rs).
  - apply Forall_app. split; [exact S|repeat constructor].
  - destruct S as (p & o & n0 & cx & j & E & P). exists p, o, n0, cx, (S j). split; [|exact P].
    rewrite E, <- app_assoc. simpl. rewrite repeat_cons. reflexivity.
Qed.

Lemma run_ev_SInv : forall e rs ev, cthrows e = false -> RInv2 e rs -> SInv rs -> SInv (run_ev e rs ev).
Proof.
  intros e rs ev CT [(H0 & _ & Hw)|[(H1 & Hf)|(_ & C & _)]] S; [| |congruence].
  - destruct ev as [id o cx|cx|c]; simpl.
    + destruct (leafev e (r_st rs) id o cx) as [r hit].
      destruct hit; [apply absorb_SInv; assumption|apply skip_SInv; assumption].
    + destruct (r_stopped rs); [apply skip_SInv; assumption|]. apply absorb_SInv; assumption.
    + destruct (dequeue c (r_queue rs)) as [[id q']|]; [|apply skip_SInv; assumption].
      destruct (leafev e (r_st rs) id (OVal 0%Z) c) as [r hit].
      destruct hit; [apply absorb_SInv; assumption|apply (skip_SInv {| r_st := r_st rs; r_stopped := r_stopped rs;
        r_roots := r_roots rs; r_tr := r_tr rs; r_queue := q' |}); assumption].
  - destruct (run_ev_fin e rs ev Hf) as (_ & _ & B & C). unfold SInv in *. rewrite B.
    destruct C as [C|C]; rewrite C; [exact S|]. rewrite H1 in *.
    destruct S as (p & o & n0 & cx & j & E & P). exists p, o, n0, cx, (S j). split; [|exact P].
    rewrite E, <- app_assoc. simpl. rewrite repeat_cons. reflexivity.
Qed.

Lemma run_SInv : forall e pre script, cthrows e = false -> SInv (run e pre script).
Proof.
  intros e pre script CT. unfold run.
  assert (forall rs, RInv2 e rs -> SInv rs -> SInv (fold_left (run_ev e) script rs)) as F.
  { induction script as [|ev script IH]; simpl; intros rs R S; [exact S|].
    apply IH; [apply run_ev_RInv; exact R|apply run_ev_SInv; assumption]. }
  apply F; [apply run_start_RInv|]. unfold run_start. rewrite CT. apply absorb_SInv; [reflexivity|].
  unfold SInv. simpl. constructor.
Qed.

(* the root completes once ([XRoot]); after it there are only skipped script events, then the owner's
   [XRootDtor], then nothing but destruction events (operation states, [stage 5] blocks); before it neither
   XRoot nor XRootDtor.  If the root did not complete its operation state is not destroyed (it is still
   running).  [stage 5] If connecting the expression threw there is only the connect (blocks taken and
   returned), XConnectThrow and skipped script events. *)
Theorem C02_root_dtor_last : forall e pre script,
  (r_roots (exec e pre script) = 1%nat ->
   exists p o n cx j,
     r_tr (exec e pre script) =
       p ++ XRoot o n cx :: repeat XSkip j ++ XRootDtor :: map XT (dtor e (r_st (run e pre script))) /\
     Forall plain_x p /\ Forall is_dtor_ev (dtor e (r_st (run e pre script)))) /\
  (r_roots (exec e pre script) = 0%nat -> cthrows e = false -> Forall plain_x (r_tr (exec e pre script))) /\
  (cthrows e = true -> exists j, r_tr (exec e pre script) = map XT (fst (conn e 0)) ++ XConnectThrow :: repeat XSkip j).
Proof.
  intros e pre script. split; [|split].
  - intros H. destruct (cthrows e) eqn:CT.
    + destruct (C01_2_connect_throw e pre script CT) as (E & R0 & _). rewrite E in H. congruence.
    + rewrite exec_run, run_end_roots in H. rewrite exec_run, run_end_tr.
      pose proof (run_SInv e pre script CT) as S. unfold SInv in S. rewrite H in *.
      destruct S as (p & o & n0 & cx & j & E & P). exists p, o, n0, cx, j. split; [|split].
      * rewrite E, <- app_assoc. reflexivity.
      * exact P.
      * apply dtor_only_dtors.
  - intros H CT. rewrite exec_run, run_end_roots in H. rewrite exec_run, run_end_tr.
    pose proof (run_SInv e pre script CT) as S. unfold SInv in S. rewrite H in *.
    rewrite app_nil_r. exact S.
  - intros CT. destruct (C01_2_connect_throw e pre script CT) as (E & _ & _ & n & _ & T). rewrite E.
    exists n. exact T.
Qed.

(* ------------------------------------------------------------------------------------------------ *)
(* (a) never early, in terms of the model state                                                     *)
(* ------------------------------------------------------------------------------------------------ *)

Lemma cntx_start : forall k rho tr, cntx k rho XStart tr = cnt k AStart tr.
Proof.
  induction tr as [|t tr IH]; simpl; [reflexivity|]. unfold is_act. rewrite (xact_act k rho t), IH.
  destruct (ev_xact k rho t) as [[| | |]|]; reflexivity.
Qed.

Lemma cntx_dtor : forall k rho tr, cntx k rho XDtor tr = cnt k ADtor tr.
Proof.
  induction tr as [|t tr IH]; simpl; [reflexivity|]. unfold is_act. rewrite (xact_act k rho t), IH.
  destruct (ev_xact k rho t) as [[| | |]|]; reflexivity.
Qed.

(* A script event that is not addressed to key k, for k not stop-reactive (a plain leaf, a LeafR, a
   scheduler context): every operation state of k that was running before the event is still running after
   it (none completed, so none was destroyed), and every destruction of k in this step destroyed an
   operation state that had completed BEFORE the step. *)
Theorem C02_dtor_after_completion : forall k e pre script ev,
  let rs := run e pre script in
  let rs' := run e pre (script ++ [ev]) in
  rho_key k (rho_of e) = false -> step_ext k rs ev = false ->
  exists suf, r_tr rs' = r_tr rs ++ suf /\
    nr k e (r_st rs') = nr k e (r_st rs) + cnt k AStart (tevs suf) /\
    nd k e (r_st rs) = nd k e (r_st rs') + cnt k ADtor (tevs suf).
Proof.
  intros k e pre script ev rs rs' R X. destruct (C02_step k e pre script ev) as (suf & E & L).
  fold rs in E, L. fold rs' in E, L. rewrite X in L. exists suf. split; [exact E|].
  destruct (L 0) as (p' & A). destruct (no_completion_unaddressed _ _ _ _ _ _ _ _ _ A R) as (B & C).
  rewrite cntx_start in B. rewrite cntx_dtor in C. split; assumption.
Qed.

(* the same for the start() call: nothing of a non-reactive key completes, nothing of it is destroyed *)
Theorem C02_start_no_completion : forall k e pre,
  rho_key k (rho_of e) = false -> is_alloc k = false ->
  nr k e (r_st (run e pre [])) = cnt k AStart (tevs (r_tr (run e pre []))) /\
  nd k e (r_st (run e pre [])) = 0 /\ cnt k ADtor (tevs (r_tr (run e pre []))) = 0.
Proof.
  intros k e pre R NA. pose proof (C02_step_start k e pre) as L. rewrite NA in L. destruct (L 0) as (p' & A).
  destruct (no_completion_unaddressed _ _ _ _ _ _ _ _ _ A R) as (B & C).
  rewrite cntx_start in B. rewrite cntx_dtor in C. lia.
Qed.

(* with unique leaf ids: a plain leaf or LeafR id is not stop-reactive *)
Lemma rho_of_leaf : forall e id, ~ In id (leafN_ids e) -> rho_key (KLeaf id) (rho_of e) = false.
Proof.
  intros e id H. simpl. unfold rho_of. destruct (existsb (Nat.eqb id) (leafN_ids e)) eqn:E; [|reflexivity].
  apply existsb_exists in E. destruct E as (x & Hx & Ex). apply Nat.eqb_eq in Ex. subst. contradiction.
Qed.

Lemma rho_of_sched : forall e c, rho_key (KSched c) (rho_of e) = false.
Proof. reflexivity. Qed.

(* ------------------------------------------------------------------------------------------------ *)
(* [stage 5] blocks: taken from and returned to the allocator visible at the allocate node          *)
(* ------------------------------------------------------------------------------------------------ *)

Fixpoint nalloc (a : nat) (tr : list tev) : nat :=
  match tr with
  | [] => 0
  | TAlloc a' :: r => (if Nat.eqb a a' then 1 else 0) + nalloc a r
  | _ :: r => nalloc a r
  end.
Fixpoint nfree (a : nat) (tr : list tev) : nat :=
  match tr with
  | [] => 0
  | TFree a' :: r => (if Nat.eqb a a' then 1 else 0) + nfree a r
  | _ :: r => nfree a r
  end.

Lemma nalloc_cnt : forall a tr, nalloc a tr = cnt (KAlloc a) AStart tr.
Proof.
  induction tr as [|t tr IH]; simpl; [reflexivity|]. rewrite IH. unfold is_act.
  destruct t; simpl; try reflexivity; destruct (Nat.eqb a a0); reflexivity.
Qed.

Lemma nfree_cnt : forall a tr, nfree a tr = cnt (KAlloc a) ADtor tr.
Proof.
  induction tr as [|t tr IH]; simpl; [reflexivity|]. rewrite IH. unfold is_act.
  destruct t; simpl; try reflexivity; destruct (Nat.eqb a a0); reflexivity.
Qed.

(* for every allocator: never more blocks returned than taken, and when the root completed (and its operation
   was destroyed) or the root connect threw, every block taken was returned to the same allocator *)
Theorem C02_blocks_balanced : forall e pre script a,
  (forall p q, tevs (r_tr (exec e pre script)) = p ++ q -> nfree a p <= nalloc a p) /\
  (r_roots (exec e pre script) = 1%nat \/ cthrows e = true ->
   nfree a (tevs (r_tr (exec e pre script))) = nalloc a (tevs (r_tr (exec e pre script)))).
Proof.
  intros e pre script a. split.
  - intros p q E. rewrite nfree_cnt, nalloc_cnt.
    exact (proj1 (life_prefix_counts _ _ _ _ _ (C02_life (KAlloc a) e pre script) p q E)).
  - intros H. rewrite nfree_cnt, nalloc_cnt. symmetry. apply C02_balanced_at_end. exact H.
Qed.

(* which allocator: allocate takes its block from get_allocator of the receiver it is connected to (e_alloc of
   the environment it is started in) and keeps that environment in its node state; its destructor returns the
   block to e_alloc of the stored environment; only with_allocator changes e_alloc; the root answers 0 *)
Theorem alloc_start_id : forall s en cx, sthrows (Un UAllocate s) = false ->
  exists sc tr0 r, start (Un UAllocate s) en cx = (ONode (mk_nst PFirst en) sc OFin, TAlloc (e_alloc en) :: tr0, r).
Proof.
  intros s en cx H. simpl. rewrite H. destruct (start s _ cx) as [[sc tr0] [o|]]; simpl;
    eexists _, _, _; reflexivity.
Qed.

Theorem alloc_dtor_id : forall s ns sc x, dtor (Un UAllocate s) (ONode ns sc x) = dtor s sc ++ [TFree (e_alloc (n_env ns))].
Proof. reflexivity. Qed.

Theorem alloc_conn_id : forall s al, exists tr, fst (conn (Un UAllocate s) al) = TAlloc al :: tr.
Proof. intros s al. simpl. destruct (conn s al) as [tr th]. eexists; reflexivity. Qed.

Theorem un_env_alloc : forall kk en,
  e_alloc (un_env kk en) = match kk with UWithAlloc a => a | _ => e_alloc en end.
Proof. intros kk en. destruct kk; try reflexivity. destruct q; reflexivity. Qed.

Theorem env_alloc_kept : forall en b v,
  e_alloc (env_with_stop en b) = e_alloc en /\ e_alloc (env_bind en v) = e_alloc en /\
  e_alloc (env_own en b) = e_alloc en /\ e_alloc (root_env b) = 0.
Proof. intros. repeat split. Qed.

(* a stop request does not change the allocator stored in a node (all node-state updates keep e_alloc) *)
