From Coq Require Import ZArith List Bool.
From V Require Import Calc.Calc2Defs Calc.Ctx2Proofs Calc.Query2Proofs.
Import ListNotations.
Import Calc2.
Local Open Scope Z_scope.

(* every leaf start of every run (first start, restarts by repeat_effect_until / retry_when, successors, on
   whatever context) carries exactly the statically determined answers to the two custom queries, to
   stop_possible and to get_scheduler: the innermost with_query_value / with_query_value(get_scheduler) / on()
   override wins; unstoppable, when_all, stop_when, when_any and let_value_with_stop_source decide
   stop_possible; no other algorithm changes any query *)
Theorem C12_calc2_queries_static : forall e pre script id st sp q0 q1 sch cx,
  NoDup (leaf_ids e) ->
  In (XT (TLeafStart id st sp q0 q1 sch cx)) (r_tr (exec e pre script)) ->
  static_q2 e id = Some (q0, q1, sp, sch).
Proof. exact queries_static. Qed.
Print Assumptions C12_calc2_queries_static.

(* for all expressions (identifiers may repeat), relationally *)
Theorem C12_calc2_queries_sees : forall e pre script id st sp q0 q1 sch cx,
  In (XT (TLeafStart id st sp q0 q1 sch cx)) (r_tr (exec e pre script)) ->
  sees e root_sum id (q0, q1, sp, sch) /\ (sp = false -> st = false).
Proof. exact queries_sees. Qed.
Print Assumptions C12_calc2_queries_sees.

Theorem C12_calc2_queries_innermost : forall e pre script id st sp q0 q1 sch cx,
  In (XT (TLeafStart id st sp q0 q1 sch cx)) (r_tr (exec e pre script)) ->
  exists p, path_to e id p /\
    q0 = inner_q0 (rev p) 0 /\ q1 = inner_q1 (rev p) 0 /\ sp = inner_sp (rev p) true /\ sch = inner_sch (rev p) 0.
Proof. exact queries_innermost. Qed.
Print Assumptions C12_calc2_queries_innermost.

Theorem C12_calc2_sees_static : forall e, NoDup (leaf_ids e) ->
  forall sm id x, sees e sm id x -> static_q2_from e sm id = Some x.
Proof. exact sees_static. Qed.
Print Assumptions C12_calc2_sees_static.

Theorem C12_calc2_static_q2_sees : forall e sm id x, static_q2_from e sm id = Some x -> sees e sm id x.
Proof. exact static_q2_sees. Qed.
Print Assumptions C12_calc2_static_q2_sees.

(* the library's scheduler compositions *)
Theorem C12_calc2_static_q2_on : forall id c s i, static_q2 (on id c s) i = static_q2_from s (0, 0, true, c) i.
Proof. exact static_q2_on. Qed.
Print Assumptions C12_calc2_static_q2_on.
Theorem C12_calc2_static_q2_via : forall id c s i, static_q2 (via id c s) i = static_q2 s i.
Proof. exact static_q2_via. Qed.
Print Assumptions C12_calc2_static_q2_via.
Theorem C12_calc2_static_q2_wsa_via : forall id c s i, static_q2 (wsa_via id c s) i = static_q2 s i.
Proof. exact static_q2_wsa_via. Qed.
Print Assumptions C12_calc2_static_q2_wsa_via.

(* [stage 5] get_allocator: allocate() obtains its memory from exactly the allocator visible at that point - the
   fold of the with_allocator overrides along the path to that allocate node, the root receiver's allocator 0
   otherwise - and returns it to the same allocator (on destruction, and when a connect below throws) *)
Theorem C12_calc2_alloc_visible : forall e pre script a,
  In (XT (TAlloc a)) (r_tr (exec e pre script)) \/ In (XT (TFree a)) (r_tr (exec e pre script)) ->
  alloc_at e 0%nat a.
Proof. exact alloc_visible. Qed.
Print Assumptions C12_calc2_alloc_visible.

Theorem C12_calc2_alloc_static : forall e pre script a,
  In (XT (TAlloc a)) (r_tr (exec e pre script)) \/ In (XT (TFree a)) (r_tr (exec e pre script)) ->
  In a (static_allocs e).
Proof. exact alloc_static. Qed.
Print Assumptions C12_calc2_alloc_static.

Theorem C12_calc2_alloc_innermost : forall e pre script a,
  In (XT (TAlloc a)) (r_tr (exec e pre script)) \/ In (XT (TFree a)) (r_tr (exec e pre script)) ->
  exists p, alloc_path e p /\ a = inner_al (rev p) 0%nat.
Proof. exact alloc_innermost. Qed.
Print Assumptions C12_calc2_alloc_innermost.

Theorem C12_calc2_alloc_at_in : forall e al a, alloc_at e al a -> In a (allocs_from e al).
Proof. exact alloc_at_in. Qed.
Print Assumptions C12_calc2_alloc_at_in.
Theorem C12_calc2_in_alloc_at : forall e al a, In a (allocs_from e al) -> alloc_at e al a.
Proof. exact in_alloc_at. Qed.
Print Assumptions C12_calc2_in_alloc_at.

(* the invariant behind it: every node state of every reachable state - also of completed operations that are
   kept until their parent destroys them - remembers the statically visible allocator *)
Theorem C12_calc2_run_ia : forall e pre script,
  awf e 0%nat (r_st (run e pre script)) /\ Forall (xaok e) (r_tr (run e pre script)).
Proof. exact run_ia. Qed.
Print Assumptions C12_calc2_run_ia.

(* every event of every run concerns a leaf / schedule operation of the expression; no TLeak *)
Theorem C12_calc2_run_events_ok : forall e pre script, Forall (xok e) (r_tr (exec e pre script)).
Proof. exact run_events_ok. Qed.
Print Assumptions C12_calc2_run_events_ok.

Example C12_calc2_alloc_ex :
  let ex := Un (UWithAlloc 3) (Bin BWhenAll (Un UAllocate (Leaf 1))
                 (Un (UWithAlloc 5) (Bin BSeq (Un UAllocate (LeafN 2)) (Un UAllocate (LeafC 9))))) in
  static_allocs ex = [3; 5; 5]%nat /\
  (* blocks from 3 and 5; the successor's connect throws: its block goes back to 5 at once; the first block of 5 was
     returned when sequence destroyed its predecessor; the block of 3 when the owner destroys the root operation *)
  r_tr (exec ex false [EvLeaf 2 (OVal 1) 0; EvLeaf 1 (OVal 1) 0]) =
    [XT (TAlloc 3); XT (TLeafStart 1 false true 0 0 0 0); XT (TAlloc 5); XT (TLeafStart 2 false true 0 0 0 0);
     XT (TLeafDtor 2); XT (TFree 5); XT (TAlloc 5); XT (TFree 5); XT (TLeafStop 1); XRoot (OErr 78) 0 0; XRootDtor;
     XT (TLeafDtor 1); XT (TFree 3)] /\
  (* connect of the whole expression throws: both blocks are unwound to their own allocators *)
  r_tr (exec (Un UAllocate (Un (UWithAlloc 4) (Un UAllocate (LeafC 1)))) false []) =
    [XT (TAlloc 0); XT (TAlloc 4); XT (TFree 4); XT (TFree 0); XConnectThrow].
Proof. vm_compute. repeat split. Qed.

Example C12_calc2_ex :
  let ex :=
    Un (UWithQ 0 7)
       (Bin BWhenAll
            (Un UUnstoppable (on 100 2 (Bin BSeq (Leaf 1) (Un (UWithQ 1 5) (LeafN 2)))))
            (Un (UWithSched 3)
              (Bin BWhenAny (Un (UWithQ 0 9) (Leaf 3))
                 (Un (ULetSS false) (Un UUnstoppable (Un (URepeat [false; true]) (Un (UWithSched 1) (LeafR 4 0)))))))) in
  NoDup (leaf_ids ex) /\
  map (static_q2 ex) [1; 2; 3; 4; 5]%nat =
    [Some (7, 0, false, 2%nat); Some (7, 5, false, 2%nat); Some (9, 0, true, 3%nat); Some (7, 0, false, 1%nat); None] /\
  (* leaf 4 is started twice (repeat_effect_until), on contexts 0 and 5, with the same answers *)
  r_tr (exec ex false [EvRun 2; EvLeaf 4 (OVal 1) 5; EvLeaf 1 (OVal 1) 6; EvLeaf 4 (OVal 1) 1; EvLeaf 2 (OVal 3) 0]) =
    [XT (TSchedStart 100 2); XT (TLeafStart 3 false true 9 0 3 0);
     XT (TLeafStart 4 false false 7 0 1 0); XT (TSchedDtor 2);
     XT (TLeafStart 1 false false 7 0 2 2); XT (TReqStop 4 0);
     XT (TLeafDtor 4); XT (TPred false);
     XT (TLeafStart 4 false false 7 0 1 5); XT (TLeafDtor 1);
     XT (TLeafStart 2 false false 7 5 2 6); XT (TReqStop 4 0);
     XT (TLeafDtor 4); XT (TPred true); XT (TLeafStop 3)].
Proof.
  intros ex. split; [repeat constructor; simpl; intuition discriminate|].
  vm_compute. split; reflexivity.
Qed.
