From Coq Require Import ZArith List Bool.
From V Require Import Calc.Calc2Defs Calc.Ctx2Proofs Calc.Stop2Proofs.
Import ListNotations.
Import Calc2.

(* A4: deregistered before completion *)
Theorem C04_calc2_root_completes_unregistered : forall e pre script o n cx,
  In (XRoot o n cx) (r_tr (exec e pre script)) -> n = 0.
Proof. exact root_completes_unregistered. Qed.
Print Assumptions C04_calc2_root_completes_unregistered.

Theorem C04_calc2_no_leak : forall e pre script root, ~ In (XT (TLeak root)) (r_tr (exec e pre script)).
Proof. exact no_leak. Qed.
Print Assumptions C04_calc2_no_leak.

Theorem C04_calc2_leak_as_written_refuted :
  leaky_as_written BStopWhen = true /\ leaky BStopWhen = false /\
  (forall a b ns sa sb tr o, finish_conc BStopWhen a b ns sa sb tr (Some o) (leaky_as_written BStopWhen) =
                         (OCompl sa sb, tr ++ (if reg ns then [TLeak (e_root (n_env ns))] else []), Some o)).
Proof. exact leak_as_written_refuted. Qed.
Print Assumptions C04_calc2_leak_as_written_refuted.

(* reachable states are live, well-formed states (or completed) *)
Theorem C04_calc2_run_live : forall e pre script,
  done_st (r_st (run e pre script)) \/ live (r_stopped (run e pre script)) e (r_st (run e pre script)).
Proof. exact run_live. Qed.
Print Assumptions C04_calc2_run_live.

(* A1: a stop request reaches every running leaf connected to the token, also through the own stop source of
   let_value_with_stop_source / when_all / stop_when / when_any; not through unstoppable *)
Theorem C04_calc2_stop_reaches : forall e tok st cx st' tr r,
  live tok e st -> stop e st cx = (st', tr, r) ->
  (forall id, In id (reach e st) -> In (TLeafStop id) tr \/ In id (reach_seen e st)) /\
  (forall id, In id (reach e st') -> In id (reach_seen e st')) /\
  (r = None -> live true e st') /\ (r <> None -> done_st st').
Proof. exact stop_reaches. Qed.
Print Assumptions C04_calc2_stop_reaches.

Theorem C04_calc2_run_stop_reaches : forall e pre s1 cx st' tr r,
  stop e (r_st (run e pre s1)) cx = (st', tr, r) ->
  (forall id, In id (reach e (r_st (run e pre s1))) ->
              In (TLeafStop id) tr \/ In id (reach_seen e (r_st (run e pre s1)))) /\
  (forall id, In id (reach e st') -> In id (reach_seen e st')) /\
  (r <> None -> done_st st').
Proof. exact run_stop_reaches. Qed.
Print Assumptions C04_calc2_run_stop_reaches.

Theorem C04_calc2_stop_through_letss : forall now s ns sc sb tok cx st' tr r,
  live tok (Un (ULetSS now) s) (ONode ns sc sb) ->
  stop (Un (ULetSS now) s) (ONode ns sc sb) cx = (st', tr, r) ->
  forall id, In id (reach_unseen s sc) -> In (TLeafStop id) tr.
Proof. exact stop_through_letss. Qed.
Print Assumptions C04_calc2_stop_through_letss.

(* a LeafR below requests stop on THIS let_value_with_stop_source's source (level = its nesting depth): all
   running leaves under it that are connected to the source get their callback in the same call *)
Theorem C04_calc2_letss_request_reaches : forall now s ns sc sb id o cx sc' tr0 st' tr r hit tok,
  live tok (Un (ULetSS now) s) (ONode ns sc sb) -> own_stop ns = false ->
  leafev s sc id o cx = (sc', tr0, None, true) -> fired (e_ss (n_env ns)) tr0 = true ->
  leafev (Un (ULetSS now) s) (ONode ns sc sb) id o cx = (st', tr, r, hit) ->
  (forall id', In id' (reach_unseen s sc') -> In (TLeafStop id') tr) /\
  (r = None -> exists ns1 sc1, st' = ONode ns1 sc1 OFin /\ own_stop ns1 = true /\ live true s sc1) /\
  (r <> None -> done_st st').
Proof. exact letss_request_reaches. Qed.
Print Assumptions C04_calc2_letss_request_reaches.

(* which source reacts: in every reachable state a let_value_with_stop_source node reacts to exactly the level
   that equals its static nesting depth (number of enclosing let_value_with_stop_source, 0 = outermost), and the
   callable of LeafR id lvl requests level lvl *)
Theorem C04_calc2_run_depth : forall e pre script, dwf 0 e (r_st (run e pre script)).
Proof. exact run_depth. Qed.
Print Assumptions C04_calc2_run_depth.

Theorem C04_calc2_dwf_letss : forall d now s ns sc sb,
  dwf d (Un (ULetSS now) s) (ONode ns sc sb) -> e_ss (n_env ns) = d /\ dwf (S d) s sc.
Proof. exact dwf_letss. Qed.
Print Assumptions C04_calc2_dwf_letss.

Theorem C04_calc2_leafr_requests : forall id lvl seen v cx,
  leafev (LeafR id lvl) (OLeaf false seen) id (OVal v) cx = ((OHeld v, [TReqStop id lvl], None), true) /\
  fired lvl [TReqStop id lvl] = true.
Proof. exact leafr_requests. Qed.
Print Assumptions C04_calc2_leafr_requests.

(* ... and every stop callback of a call on an operation belongs to a leaf of that operation *)
Theorem C04_calc2_leafev_only_own_leaves : forall e sm st i o cx st' tr r hit id,
  qwf e sm st -> leafev e st i o cx = (st', tr, r, hit) -> In (TLeafStop id) tr -> In id (leaf_ids e).
Proof. exact leafev_only_own_leaves. Qed.
Print Assumptions C04_calc2_leafev_only_own_leaves.

Theorem C04_calc2_stop_only_own_leaves : forall e sm st cx st' tr r id,
  s_sp sm = true -> qwf e sm st -> stop e st cx = (st', tr, r) -> In (TLeafStop id) tr -> In id (leaf_ids e).
Proof. exact stop_only_own_leaves. Qed.
Print Assumptions C04_calc2_stop_only_own_leaves.

(* A2: leaves started after the stop request start stopped *)
Theorem C04_calc2_after_stop_starts_stopped : forall e pre s1 cx s2,
  exists d, r_tr (run e pre (s1 ++ EvStop cx :: s2)) = r_tr (run e pre s1) ++ d /\
            Forall (liftx (sok e true)) d.
Proof. exact after_stop_starts_stopped. Qed.
Print Assumptions C04_calc2_after_stop_starts_stopped.

Theorem C04_calc2_after_stop_connected_start_stopped : forall e pre s1 cx s2,
  NoDup (leaf_ids e) ->
  exists d, r_tr (run e pre (s1 ++ EvStop cx :: s2)) = r_tr (run e pre s1) ++ d /\
    forall id s sp a b sch c, In (XT (TLeafStart id s sp a b sch c)) d -> In id (sreach e) -> s = true.
Proof. exact after_stop_connected_start_stopped. Qed.
Print Assumptions C04_calc2_after_stop_connected_start_stopped.

Theorem C04_calc2_prestopped_connected_start_stopped : forall e script id s sp a b sch c,
  NoDup (leaf_ids e) ->
  In (XT (TLeafStart id s sp a b sch c)) (r_tr (exec e true script)) -> In id (sreach e) -> s = true.
Proof. exact prestopped_connected_start_stopped. Qed.
Print Assumptions C04_calc2_prestopped_connected_start_stopped.

Theorem C04_calc2_stopped_state_invariant : forall e pre script,
  r_stopped (run e pre script) = true ->
  done_st (r_st (run e pre script)) \/
  (live true e (r_st (run e pre script)) /\ reach_unseen e (r_st (run e pre script)) = []).
Proof. exact stopped_state_invariant. Qed.
Print Assumptions C04_calc2_stopped_state_invariant.

(* A3: losers are stopped - stop_when: any completion; when_any: the first finisher; when_all: error / done *)
Theorem C04_calc2_losers_stopped_a : forall k a b ns sa sb id o cx sa' tra oa st' tr r hit tok,
  is_seq k = false ->
  live tok (Bin k a b) (ONode ns sa sb) ->
  adone ns = false ->
  child_ev (bin_throw k false) false a sa id (tmode o) o cx = (sa', tra, Some oa, true) ->
  loser_cond k oa -> own_stop ns = false -> bdone ns = false ->
  leafev (Bin k a b) (ONode ns sa sb) id o cx = (st', tr, r, hit) ->
  forall id', In id' (reach_unseen b sb) -> In (TLeafStop id') tr.
Proof. exact losers_stopped_a. Qed.
Print Assumptions C04_calc2_losers_stopped_a.

(* the stage-3 statement: the event is not a re-delivery and a's completion is not a throwing value *)
Theorem C04_calc2_losers_stopped_a_plain : forall k a b ns sa sb id o cx sa' tra oa st' tr r hit tok,
  is_seq k = false ->
  live tok (Bin k a b) (ONode ns sa sb) ->
  is_k o = false -> (forall v, oa <> OValT v) ->
  adone ns = false -> leafev a sa id o cx = (sa', tra, Some oa, true) ->
  loser_cond k oa -> own_stop ns = false -> bdone ns = false ->
  leafev (Bin k a b) (ONode ns sa sb) id o cx = (st', tr, r, hit) ->
  forall id', In id' (reach_unseen b sb) -> In (TLeafStop id') tr.
Proof. exact losers_stopped_a_plain. Qed.
Print Assumptions C04_calc2_losers_stopped_a_plain.

Theorem C04_calc2_losers_stopped_b : forall k a b ns sa sb id o cx sb' trb ob st' tr r hit tok,
  is_seq k = false ->
  live tok (Bin k a b) (ONode ns sa sb) ->
  (adone ns = false -> snd (leafev a sa id (tmode o) cx) = false) ->
  bdone ns = false -> leafev b sb id (tmode o) cx = (sb', trb, Some ob, true) ->
  loser_cond k ob -> own_stop ns = false -> adone ns = false ->
  leafev (Bin k a b) (ONode ns sa sb) id o cx = (st', tr, r, hit) ->
  forall id', In id' (reach_unseen a sa) -> In (TLeafStop id') tr.
Proof. exact losers_stopped_b. Qed.
Print Assumptions C04_calc2_losers_stopped_b.

Theorem C04_calc2_losers_stopped_b_plain : forall k a b ns sa sb id o cx sb' trb ob st' tr r hit tok,
  is_seq k = false ->
  live tok (Bin k a b) (ONode ns sa sb) ->
  is_k o = false ->
  (adone ns = false -> snd (leafev a sa id o cx) = false) ->
  bdone ns = false -> leafev b sb id o cx = (sb', trb, Some ob, true) ->
  loser_cond k ob -> own_stop ns = false -> adone ns = false ->
  leafev (Bin k a b) (ONode ns sa sb) id o cx = (st', tr, r, hit) ->
  forall id', In id' (reach_unseen a sa) -> In (TLeafStop id') tr.
Proof. exact losers_stopped_b_plain. Qed.
Print Assumptions C04_calc2_losers_stopped_b_plain.

Theorem C04_calc2_when_any_first_finisher : forall o, loser_cond BWhenAny o.
Proof. exact when_any_first_finisher. Qed.
Print Assumptions C04_calc2_when_any_first_finisher.

(* A5: a stop request on a live operation completes it unless it still waits for something that does not react
   to stop (inert leaf, leaf below unstoppable, queued schedule() item, LeafR callable in progress) *)
Theorem C04_calc2_stop_prompt : forall e tok st cx st' tr r,
  live tok e st -> stop e st cx = (st', tr, r) ->
  (r = None -> pending e st' <> []) /\ (r <> None -> done_st st').
Proof. exact stop_prompt. Qed.
Print Assumptions C04_calc2_stop_prompt.

Local Open Scope Z_scope.
(* The Calc theorems "a leaf starts at most once" / "no event for a leaf after it completed" do NOT carry over:
   repeat_effect_until (and retry_when) connect and start their source again, so leaf 0 below is started twice and
   gets a stop callback after its first completion.  Likewise "stop leaves a running LEAF unless it completes"
   becomes [pending]: via(leaf, sched) after the leaf completed waits for a queued schedule() item only. *)
Example C04_calc2_start_once_refuted :
  r_tr (exec (Un (URepeat [false; true]) (LeafN 0)) false [EvLeaf 0 (OVal 1) 0; EvStop 1]) =
    [XT (TLeafStart 0 false true 0 0 0 0); XT (TLeafDtor 0); XT (TPred false);
     XT (TLeafStart 0 false true 0 0 0 0); XT (TLeafStop 0); XRoot ODone 0 1; XRootDtor; XT (TLeafDtor 0)] /\
  (let rs := run (via 100 1 (Leaf 0)) false [EvLeaf 0 (OVal 1) 0; EvStop 1] in
   r_roots rs = 0%nat /\ running_leaves (via 100 1 (Leaf 0)) (r_st rs) = [] /\
   pending (via 100 1 (Leaf 0)) (r_st rs) = [100%nat]).
Proof. vm_compute. repeat split. Qed.

Example C04_calc2_ex :
  let ex :=
    Bin BWhenAll
        (Bin BLetD (LeafN 0) (Un (ULetSS false) (Bin BWhenAll (LeafR 1 0) (Bin BSeq (Leaf 6) (LeafN 2)))))
        (Bin BWhenAny (Un UUnstoppable (Un (UWithQ 0 3) (Leaf 3))) (Bin BSeq (Leaf 4) (LeafN 5))) in
  NoDup (leaf_ids ex) /\
  (* stop reaches the connected running leaves 0 and 5, not 3 (unstoppable); the successors 1, 6 start stopped *)
  (let rs := run ex false [EvLeaf 4 (OVal 1) 0] in
   reach ex (r_st rs) = [0; 5]%nat /\ running_leaves ex (r_st rs) = [0; 3; 5]%nat) /\
  r_tr (exec ex false [EvLeaf 4 (OVal 1) 0; EvStop 2; EvLeaf 1 ODone 1; EvLeaf 6 ODone 1; EvLeaf 3 (OVal 0) 3]) =
    [XT (TLeafStart 0 false true 0 0 0 0); XT (TLeafStart 3 false false 3 0 0 0);
     XT (TLeafStart 4 false true 0 0 0 0); XT (TLeafDtor 4);
     XT (TLeafStart 5 false true 0 0 0 0); XT (TLeafStop 5);
     XT (TLeafStop 0); XT (TLeafDtor 0);
     XT (TLeafStart 1 true true 0 0 0 2); XT (TLeafStop 1);
     XT (TLeafStart 6 true true 0 0 0 2); XT (TLeafStop 6);
     XT (TLeafDtor 3); XT (TLeafDtor 5); XRoot ODone 0 3; XRootDtor;
     XT (TLeafDtor 1); XT (TLeafDtor 6)] /\
  (* LeafR 1 requests stop on the let_value_with_stop_source's source: leaf 6 (under it) is stopped at once,
     leaves 3, 4 (outside) are not; leaf 2, started later under the source, starts stopped; when the
     operation then completes with done the outer when_all stops the loser 4 *)
  r_tr (exec ex false [EvLeaf 0 ODone 0; EvLeaf 1 (OVal 9) 1; EvLeaf 6 (OVal 9) 1]) =
    [XT (TLeafStart 0 false true 0 0 0 0); XT (TLeafStart 3 false false 3 0 0 0);
     XT (TLeafStart 4 false true 0 0 0 0); XT (TLeafDtor 0);
     XT (TLeafStart 1 false true 0 0 0 0); XT (TLeafStart 6 false true 0 0 0 0);
     XT (TReqStop 1 0); XT (TLeafStop 6); XT (TLeafDtor 6);
     XT (TLeafStart 2 true true 0 0 0 1); XT (TLeafStop 2); XT (TLeafStop 4)] /\
  (* when_any: the first finisher (3) stops the other child *)
  r_tr (exec ex false [EvLeaf 3 (OVal 7) 0; EvLeaf 4 (OVal 7) 0]) =
    [XT (TLeafStart 0 false true 0 0 0 0); XT (TLeafStart 3 false false 3 0 0 0);
     XT (TLeafStart 4 false true 0 0 0 0); XT (TLeafDtor 3);
     XT (TLeafStop 4); XT (TLeafDtor 4);
     XT (TLeafStart 5 true true 0 0 0 0); XT (TLeafStop 5); XT (TLeafDtor 5)].
Proof.
  intros ex. split; [repeat constructor; simpl; intuition discriminate|].
  vm_compute. repeat split.
Qed.
