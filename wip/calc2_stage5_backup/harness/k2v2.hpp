// k2v2.hpp — second-generation K2 harness (model Calc2, ocaml handler "calc2"): k2.hpp plus
//   * leaves whose operation state logs its destruction (`dtor <id>`) and its completion (`fin <id>`,
//     an implementation-only marker used by the direct C02 monitor), `root_dtor` when the owner
//     destroys the completed root operation;
//   * execution contexts: a global current-context tag, set by the script for every event; harness
//     schedulers `sched{c}` (one FIFO per context, run by the script event R<c>); leaves and the root
//     receiver log the context they are started / completed on and the receiver's get_scheduler;
//   * more algorithms: let_value_with_stop_source (lvss / leafr), stop_if_requested, just_from, defer,
//     repeat_effect_until (predicate driven by a bit list), retry_when (function granting n retries), into_variant;
//   * value-copy fault points: every value travelling through a generated expression is a tracked `payload`
//     (live-object count, C02) whose copy / move constructor throws err{77} when the object is armed; a script
//     completion `L<id>:t<v>` makes the leaf send an armed payload.  All helpers below take payloads by
//     reference (no copy of their own) and build fresh, unarmed payloads for their results;
//   * bound values: a leaf inside a let_value successor may watch the payload the successor was built from (it lives in the
//     let_value operation, which must destroy the successor operation first): start and destructor of the leaf's
//     operation state log `start_watch_dead` / `dtor_watch_dead` (implementation-only) if that payload is gone.
#pragma once
#include "k2.hpp"
#include <unifex/scheduler_concepts.hpp>
#include <unifex/via.hpp>
#include <unifex/typed_via.hpp>
#include <unifex/on.hpp>
#if __cplusplus > 201703L   // with_scheduler_affinity.hpp needs coroutine support (it includes connect_awaitable.hpp unguarded)
#include <unifex/with_scheduler_affinity.hpp>
#include <unifex/stop_if_requested.hpp>     // includes await_transform.hpp unguarded: C++20 builds only, too
#define K2V2_HAVE_WSA 1
#endif
#include <unifex/let_value_with_stop_source.hpp>
#include <unifex/just_from.hpp>
#include <unifex/defer.hpp>
#include <unifex/repeat_effect_until.hpp>
#include <unifex/retry_when.hpp>
#include <unifex/into_variant.hpp>
#include <unifex/when_any.hpp>
#include <unifex/allocate.hpp>
#include <unifex/with_allocator.hpp>
#include <deque>
#include <map>

namespace k2v2 {
using k2::log; using k2::err; using k2::code_of; using k2::CTL; using k2::leaf_ctl;

inline int cur_ctx = 0;

// ---- the tracked value type -----------------------------------------------------------------------------
inline int live_payloads = 0;
constexpr int THROW_CODE = 77;
constexpr unsigned PAYLOAD_LIVE = 0xA11CE5u;
struct payload {
  int v; bool armed;
  volatile unsigned alive_ = PAYLOAD_LIVE;   // cleared by the destructor; read by the leaves that watch a bound value
  bool is_alive() const noexcept { return alive_ == PAYLOAD_LIVE; }
  explicit payload(int x, bool a = false) noexcept : v(x), armed(a) { ++live_payloads; }
  payload(const payload& o) : v(o.v), armed(false) { if (o.armed) throw err{THROW_CODE}; ++live_payloads; }
  payload(payload&& o) : v(o.v), armed(false) { if (o.armed) throw err{THROW_CODE}; ++live_payloads; }
  payload& operator=(const payload&) = delete;
  ~payload() { alive_ = 0xDEADu; --live_payloads; }
};
inline auto just(int v) { return unifex::just(payload(v)); }
// the callable table over payloads: the argument is taken by reference, the result is a fresh object
inline int void_result = 0;   // what a void upon_error / upon_done callable computed (picked up by the then() on top)
struct pfn {
  k2::fnobj f;
  payload operator()(const payload& p) const { return payload(f(p.v)); }
  payload operator()() const { return payload(f(void_result)); }
};
template <typename S> auto thenf(S&& s, k2::fnobj f) { return unifex::then((S&&)s, pfn{f}); }
template <typename S> auto voided(S&& s) { return unifex::then((S&&)s, [](const payload&) noexcept {}); }
template <typename S> auto uerr(S&& s, k2::fnobj f) {
  return unifex::upon_error((S&&)s, [f](std::exception_ptr e) { return payload(f(code_of(e))); });
}
template <typename S> auto udone(S&& s, k2::fnobj f) {
  return unifex::upon_done((S&&)s, [f]() { return payload(f(0)); });
}
// the other three branches of upon_error.hpp / upon_done.hpp: callable noexcept (_nx), returning void (_v; the value
// is then produced by a then() on top: model term (then (add 0) (uerr f s))), or both
template <typename S> auto uerr_nx(S&& s, k2::fnobj f) {
  return unifex::upon_error((S&&)s, [f](std::exception_ptr e) noexcept { return payload(f(code_of(e))); });
}
template <typename S> auto udone_nx(S&& s, k2::fnobj f) {
  return unifex::upon_done((S&&)s, [f]() noexcept { return payload(f(0)); });
}
template <typename S> auto uerr_v(S&& s, k2::fnobj f) {
  return unifex::then(unifex::upon_error((S&&)s, [f](std::exception_ptr e) { void_result = f(code_of(e)); }), pfn{k2::fnobj{'a', 0, 0}});
}
template <typename S> auto udone_v(S&& s, k2::fnobj f) {
  return unifex::then(unifex::upon_done((S&&)s, [f]() { void_result = f(0); }), pfn{k2::fnobj{'a', 0, 0}});
}
template <typename S> auto uerr_v_nx(S&& s, k2::fnobj f) {
  return unifex::then(unifex::upon_error((S&&)s, [f](std::exception_ptr e) noexcept { void_result = f(code_of(e)); }), pfn{k2::fnobj{'a', 0, 0}});
}
template <typename S> auto udone_v_nx(S&& s, k2::fnobj f) {
  return unifex::then(unifex::upon_done((S&&)s, [f]() noexcept { void_result = f(0); }), pfn{k2::fnobj{'a', 0, 0}});
}
struct mat_fold {
  payload operator()(unifex::tag_t<unifex::set_value>, const payload& p) const noexcept { return payload(3 * p.v); }
  payload operator()(unifex::tag_t<unifex::set_error>, std::exception_ptr e) const noexcept { return payload(3 * code_of(e) + 1); }
  payload operator()(unifex::tag_t<unifex::set_done>) const noexcept { return payload(2); }
};
template <typename S> auto mat(S&& s) { return unifex::then(unifex::materialize((S&&)s), mat_fold{}); }
template <typename S> auto dopt(S&& s) {
  return unifex::then(unifex::done_as_optional((S&&)s),
                      [](const std::optional<payload>& o) noexcept { return o ? payload(o->v) : payload(-1); });
}
// inline completing sender with the uniform signature (value payload / error exception_ptr / done)
template <typename Receiver>
struct inl_op {
  char kind; int val; Receiver r;
  void start() noexcept {
    if (kind == 'e') unifex::set_error(std::move(r), std::make_exception_ptr(err{val}));
    else unifex::set_done(std::move(r));
  }
};
struct inl {
  template <template <typename...> class Variant, template <typename...> class Tuple>
  using value_types = Variant<Tuple<payload>>;
  template <template <typename...> class Variant>
  using error_types = Variant<std::exception_ptr>;
  static constexpr bool sends_done = true;
  static constexpr unifex::blocking_kind blocking = unifex::blocking_kind::always_inline;
  static constexpr bool is_always_scheduler_affine = true;
  char kind; int val;
  template <typename R>
  friend inl_op<unifex::remove_cvref_t<R>> tag_invoke(unifex::tag_t<unifex::connect>, const inl& s, R&& r) {
    return inl_op<unifex::remove_cvref_t<R>>{s.kind, s.val, (R&&)r};
  }
};

// ---- harness scheduler: one FIFO per context ---------------------------------------------------------
struct task_base {
  void (*execute)(task_base*) noexcept;
};
constexpr int NCTX = 4;
inline std::deque<task_base*> QUEUE[NCTX];

template <typename Receiver>
struct sched_op final : task_base {
  int c; Receiver r;
  bool started_ = false, ran_ = false;
  template <typename R2>
  sched_op(int cc, R2&& rr) : task_base{&run}, c(cc), r((R2&&)rr) {}
  sched_op(sched_op&&) = delete;
  ~sched_op() {
    if (!started_) { log("sdtor_ns " + std::to_string(c)); return; }
    if (!ran_) {   // destroyed while still queued
      log("sdtor_early " + std::to_string(c));
      auto& q = QUEUE[c];
      for (auto it = q.begin(); it != q.end(); ++it) if (*it == this) { q.erase(it); break; }
      return;
    }
    log("sdtor " + std::to_string(c));
  }
  void start() noexcept {
    started_ = true;
    log("enq " + std::to_string(c));
    QUEUE[c].push_back(this);
  }
  static void run(task_base* t) noexcept {
    auto& self = *static_cast<sched_op*>(t);
    self.ran_ = true;
    using token_t = unifex::stop_token_type_t<Receiver&>;
    if constexpr (unifex::is_stop_never_possible_v<token_t>) {
      unifex::set_value(std::move(self.r));
    } else {
      if (unifex::get_stop_token(self.r).stop_requested()) unifex::set_done(std::move(self.r));
      else unifex::set_value(std::move(self.r));
    }
  }
};

struct sched {
  int c;
  struct sender {
    template <template <typename...> class Variant, template <typename...> class Tuple>
    using value_types = Variant<Tuple<>>;
    template <template <typename...> class Variant>
    using error_types = Variant<>;
    static constexpr bool sends_done = true;
    static constexpr unifex::blocking_kind blocking = unifex::blocking_kind::never;
    static constexpr bool is_always_scheduler_affine = false;
    int c;
    template <typename R>
    friend sched_op<unifex::remove_cvref_t<R>> tag_invoke(unifex::tag_t<unifex::connect>, const sender& s, R&& r) {
      return sched_op<unifex::remove_cvref_t<R>>{s.c, (R&&)r};
    }
  };
  sender schedule() const noexcept { return sender{c}; }
  friend bool operator==(sched a, sched b) noexcept { return a.c == b.c; }
  friend bool operator!=(sched a, sched b) noexcept { return a.c != b.c; }
};

// run the oldest queued item of context c on context c; false = nothing queued
inline bool run_one(int c) {
  auto& q = QUEUE[c];
  if (q.empty()) return false;
  task_base* t = q.front(); q.pop_front();
  cur_ctx = c;
  t->execute(t);
  return true;
}

// schedule() as an expression of the uniform signature (value int)
inline auto sched_leaf(int c) { return unifex::then(unifex::schedule(sched{c}), []() noexcept { return payload(0); }); }

// with_scheduler_affinity(s, sched): the library returns s itself when s is statically scheduler-affine and
// finally(s, unstoppable(schedule(sched))) otherwise; the model term (Calc2.wsa_via) is the second branch, so
// the harness makes the argument non-affine with a transparent wrapper.
template <typename S>
struct nonaffine_sender {
  template <template <typename...> class Variant, template <typename...> class Tuple>
  using value_types = unifex::sender_value_types_t<S, Variant, Tuple>;
  template <template <typename...> class Variant>
  using error_types = unifex::sender_error_types_t<S, Variant>;
  static constexpr bool sends_done = unifex::sender_traits<S>::sends_done;
  static constexpr unifex::blocking_kind blocking = unifex::sender_traits<S>::blocking;
  static constexpr bool is_always_scheduler_affine = false;
  S s;
  template <typename R>
  friend auto tag_invoke(unifex::tag_t<unifex::connect>, nonaffine_sender&& self, R&& r) {
    return unifex::connect(std::move(self.s), (R&&)r);
  }
  template <typename R>
  friend auto tag_invoke(unifex::tag_t<unifex::connect>, const nonaffine_sender& self, R&& r) {
    return unifex::connect(self.s, (R&&)r);
  }
};
#ifdef K2V2_HAVE_WSA
template <typename S> auto wsa(S&& s, sched sc) {
  return unifex::with_scheduler_affinity(nonaffine_sender<unifex::remove_cvref_t<S>>{(S&&)s}, sc);
}
#endif

// ---- leaves with observable lifetime ---------------------------------------------------------------------
template <typename Receiver>
struct leaf_op {
  struct cb {
    leaf_op* self;
    void operator()() noexcept {
      log("stopseen " + std::to_string(self->id));
      if (self->reactive) { CTL[self->id].completed = true; do_complete(self, 'd', 0); }
    }
  };
  using token_t = unifex::stop_token_type_t<Receiver&>;
  using cb_t = typename token_t::template callback_type<cb>;
  int id; bool reactive;
  Receiver r;
  unifex::manual_lifetime<cb_t> stopcb;
  bool cb_live = false, started_ = false, done_ = false;

  volatile unsigned alive_ = 0x600DC0DEu;     // destructor canary: a second destructor call on the same storage is reported
  const payload* watch;              // bound value of the enclosing let_value successor (or null)
  template <typename R2>
  leaf_op(int i, bool re, const payload* w, R2&& rr) : id(i), reactive(re), r((R2&&)rr), watch(w) {
    log("ctor " + std::to_string(id));   // implementation-only marker (C02 monitor: constructions vs destructions)
  }
  leaf_op(leaf_op&&) = delete;
  ~leaf_op() {
    if (alive_ != 0x600DC0DEu) { log("dtor_dead " + std::to_string(alive_ == 0xDEADDEADu ? id : -1)); return; }
    alive_ = 0xDEADDEADu;
    if (watch && !watch->is_alive()) log("dtor_watch_dead " + std::to_string(id));   // C02: the value this op refers to is gone
    if (!started_) { log("dtor_ns " + std::to_string(id)); return; }
    if (!done_) {   // destroyed before it completed: C02 violation (reported by the monitor)
      log("dtor_early " + std::to_string(id));
      if (cb_live) { cb_live = false; stopcb.destruct(); }
      if (CTL[id].op == this) CTL[id].completed = true;
      return;
    }
    log("dtor " + std::to_string(id));
  }

  void start() noexcept {
    auto& c = CTL[id];
    c.op = this; c.complete_fn = &do_complete; c.started = true; c.completed = false;
    started_ = true;
    if (watch && !watch->is_alive()) log("start_watch_dead " + std::to_string(id));
    auto tok = unifex::get_stop_token(r);
    char buf[200];
    std::snprintf(buf, sizeof buf, "start %d stopped=%d stoppable=%d q0=%d q1=%d sch=%d ctx=%d", id, (int)tok.stop_requested(),
                  (int)tok.stop_possible(), k2::get_q0(r), k2::get_q1(r), unifex::get_scheduler(r).c, cur_ctx);
    log(buf);
    if (reactive && tok.stop_requested()) {   // would complete from inside the callback's constructor
      log("stopseen " + std::to_string(id));
      c.completed = true;
      do_complete(this, 'd', 0);
      return;
    }
    cb_live = true;
    stopcb.construct(tok, cb{this});   // may run the callback inline, which may complete (and destroy) us
  }
  static void do_complete(void* p, char kind, int v) {
    auto* self = static_cast<leaf_op*>(p);
    if (self->cb_live) { self->cb_live = false; self->stopcb.destruct(); }
    self->done_ = true;
    log("fin " + std::to_string(self->id));
    if (kind == 'v' || kind == 't') {
      // the receiver contract: if set_value exits with an exception the sender completes with set_error
      // (as just.hpp does); kind 't' = the value's copy / move throws when somebody stores it
      auto& r = self->r;     // the operation state may be gone when set_value returns normally, not when it throws
      try { unifex::set_value(std::move(r), payload(v, kind == 't')); }
      catch (...) { unifex::set_error(std::move(r), std::current_exception()); }
    }
    else if (kind == 'e') unifex::set_error(std::move(self->r), std::make_exception_ptr(err{v}));
    else unifex::set_done(std::move(self->r));
  }
};

struct leaf {
  template <template <typename...> class Variant, template <typename...> class Tuple>
  using value_types = Variant<Tuple<payload>>;
  template <template <typename...> class Variant>
  using error_types = Variant<std::exception_ptr>;
  static constexpr bool sends_done = true;
  static constexpr unifex::blocking_kind blocking = unifex::blocking_kind::maybe;
  static constexpr bool is_always_scheduler_affine = false;
  int id; bool reactive; const payload* watch = nullptr;
  template <typename R>
  friend leaf_op<unifex::remove_cvref_t<R>> tag_invoke(unifex::tag_t<unifex::connect>, const leaf& s, R&& r) {
    return leaf_op<unifex::remove_cvref_t<R>>{s.id, s.reactive, s.watch, (R&&)r};
  }
};

// when_all of two, values folded as Calc2.combine does (Z.modulo: the result is never negative; k2::combine uses
// C++ %, which differs for negative operands such as done_as_optional's -1)
inline int combine(int x, int y) { long long m = 1000003; return (int)((((long long)x * 31 + y) % m + m) % m); }
template <typename A, typename B> auto wall(A&& a, B&& b) {
  return unifex::then(unifex::when_all((A&&)a, (B&&)b), [](auto&& va, auto&& vb) noexcept {
    return payload(combine(std::get<0>(std::get<0>(va)).v, std::get<0>(std::get<0>(vb)).v));
  });
}

// ---- stage 3: more algorithms ---------------------------------------------------------------------------
// let_value_with_stop_source(f): f receives the operation's stop source; `now` = f requests stop before returning
// (f runs when the operation is connected); the body gets a pointer to the source (captured by leafr callables)
template <typename F> auto lvss(bool now, F f) {
  return unifex::let_value_with_stop_source([now, f](auto& ss) {
    if (now) ss.request_stop();
    return f(&ss);
  });
}
// a leaf whose value is passed through a callable that first requests stop on the given source
template <typename Src> auto leafr(int id, Src* src, const payload* watch = nullptr) {
  return unifex::then(leaf{id, false, watch}, [id, src](const payload& p) noexcept {
    log("reqstop " + std::to_string(id));
    src->request_stop();
    return payload(p.v);
  });
}
#ifdef K2V2_HAVE_WSA
inline auto stopif() { return unifex::then(unifex::stop_if_requested(), []() noexcept { return payload(0); }); }
#endif
inline auto jfrom(k2::fnobj f) { return unifex::just_from([f] { return payload(f(0)); }); }
// repeat_effect_until's predicate: the k-th call returns bit k of `bits` (k < n), true afterwards
struct predlist {
  unsigned bits; int n; int k = 0;
  bool operator()() noexcept {
    bool b = k >= n ? true : ((bits >> k) & 1u) != 0;
    ++k;
    log(b ? "pred 1" : "pred 0");
    return b;
  }
};
template <typename S> auto repeat(S&& s, predlist p) {
  return unifex::then(unifex::repeat_effect_until(voided((S&&)s), p), []() noexcept { return payload(0); });
}
// retry_when's function grants n retries: its sender is sequence(gate, trigger); the gate passes (value) for the
// first n errors and fails with the error afterwards
template <typename Receiver>
struct gate_op {
  bool ok; int e; Receiver r;
  void start() noexcept {
    log(ok ? "gate 1" : "gate 0");
    if (ok) unifex::set_value(std::move(r));
    else unifex::set_error(std::move(r), std::make_exception_ptr(err{e}));
  }
};
struct gate {
  template <template <typename...> class Variant, template <typename...> class Tuple>
  using value_types = Variant<Tuple<>>;
  template <template <typename...> class Variant>
  using error_types = Variant<std::exception_ptr>;
  static constexpr bool sends_done = false;
  static constexpr unifex::blocking_kind blocking = unifex::blocking_kind::always_inline;
  static constexpr bool is_always_scheduler_affine = true;
  bool ok; int e;
  template <typename R>
  friend gate_op<unifex::remove_cvref_t<R>> tag_invoke(unifex::tag_t<unifex::connect>, const gate& s, R&& r) {
    return gate_op<unifex::remove_cvref_t<R>>{s.ok, s.e, (R&&)r};
  }
};
template <typename A, typename G> auto retry(A&& a, int n, G g) {
  return unifex::retry_when((A&&)a, [n, cnt = 0, g](std::exception_ptr ep) mutable {
    int e = code_of(ep);
    bool ok = cnt++ < n;
    return unifex::sequence(gate{ok, e}, voided(g(e)));
  });
}
template <typename A, typename B> auto wany(A&& a, B&& b) { return unifex::when_any((A&&)a, (B&&)b); }
template <typename S> auto intov(S&& s) {
  return unifex::then(unifex::into_variant((S&&)s), [](auto&& v) noexcept { return payload(std::get<0>(std::get<0>(v)).v); });
}

// ---- counting allocators (stage 5): allocate(s) takes the child operation's block from get_allocator(receiver) ------
inline std::map<void*, int> BLOCKS;      // live blocks -> the allocator they came from
template <typename T>
struct calloc {
  using value_type = T;
  int a;
  explicit calloc(int id) noexcept : a(id) {}
  template <typename U> calloc(const calloc<U>& o) noexcept : a(o.a) {}
  T* allocate(std::size_t n) {
    void* p = ::operator new(n * sizeof(T));
    BLOCKS[p] = a;
    log("alloc " + std::to_string(a));
    return static_cast<T*>(p);
  }
  void deallocate(T* p, std::size_t) noexcept {
    auto it = BLOCKS.find(p);
    if (it == BLOCKS.end()) log("free_unknown " + std::to_string(a));
    else if (it->second != a) log("free_foreign " + std::to_string(a) + " from " + std::to_string(it->second));
    else log("free " + std::to_string(a));
    if (it != BLOCKS.end()) { BLOCKS.erase(it); ::operator delete(p); }
  }
  template <typename U> friend bool operator==(const calloc& x, const calloc<U>& y) noexcept { return x.a == y.a; }
  template <typename U> friend bool operator!=(const calloc& x, const calloc<U>& y) noexcept { return x.a != y.a; }
};
template <typename S> auto walloc(S&& s, int a) { return unifex::with_allocator((S&&)s, calloc<std::byte>{a}); }

// ---- a sender whose connect() throws (stage 5) -------------------------------------------------------------
constexpr int CONNECT_THROW_CODE = 78;
struct leafc {
  template <template <typename...> class Variant, template <typename...> class Tuple>
  using value_types = Variant<Tuple<payload>>;
  template <template <typename...> class Variant>
  using error_types = Variant<std::exception_ptr>;
  static constexpr bool sends_done = true;
  static constexpr unifex::blocking_kind blocking = unifex::blocking_kind::maybe;
  static constexpr bool is_always_scheduler_affine = false;
  int id;
  template <typename R>
  friend leaf_op<unifex::remove_cvref_t<R>> tag_invoke(unifex::tag_t<unifex::connect>, const leafc& s, R&&) {
    log("cthrow " + std::to_string(s.id));   // implementation-only marker
    throw err{CONNECT_THROW_CODE};
  }
};

// ---- root receiver: the root's scheduler is that of context 0 ----------------------------------------
using k2::counting_token;
struct root_receiver {
  counting_token tok;
  static std::string tail() { return " regs=" + std::to_string(k2::live_regs) + " ctx=" + std::to_string(cur_ctx); }
  void set_value(const payload& p) && noexcept { ++k2::roots; log("root value " + std::to_string(p.v) + tail()); }
  void set_error(std::exception_ptr e) && noexcept { ++k2::roots; log("root error " + std::to_string(code_of(e)) + tail()); }
  void set_done() && noexcept { ++k2::roots; log("root done" + tail()); }
  friend counting_token tag_invoke(unifex::tag_t<unifex::get_stop_token>, const root_receiver& r) noexcept { return r.tok; }
  friend sched tag_invoke(unifex::tag_t<unifex::get_scheduler>, const root_receiver&) noexcept { return sched{0}; }
  friend calloc<std::byte> tag_invoke(unifex::tag_t<unifex::get_allocator>, const root_receiver&) noexcept { return calloc<std::byte>{0}; }
};

// ---- running one case ----------------------------------------------------------------------------------
// script tokens:  L<id>:<k><val>[@ctx]   S[@ctx]   R<ctx>
struct script_ev { char what; int id; char kind; int val; int ctx; };
inline std::vector<script_ev> parse_script(std::istream& is) {
  std::vector<script_ev> s; std::string tok;
  while (is >> tok) {
    int ctx = 0;
    auto at = tok.find('@');
    if (at != std::string::npos) { ctx = std::stoi(tok.substr(at + 1)); tok = tok.substr(0, at); }
    if (tok == "S") { s.push_back({'S', 0, 0, 0, ctx}); continue; }
    if (tok[0] == 'R') { s.push_back({'R', 0, 0, 0, std::stoi(tok.substr(1))}); continue; }
    auto colon = tok.find(':');
    int id = std::stoi(tok.substr(1, colon - 1));
    char k = tok[colon + 1];
    int v = tok.size() > colon + 2 ? std::stoi(tok.substr(colon + 2)) : 0;
    s.push_back({'L', id, k, v, ctx});
  }
  return s;
}

template <typename MakeSender>
std::string run_case(MakeSender mk, bool prestop, const std::vector<script_ev>& script) {
  k2::LOG.clear(); k2::roots = 0; k2::live_regs = 0;
  for (auto& c : CTL) c = leaf_ctl{};
  for (auto& q : QUEUE) q.clear();
  cur_ctx = 0; live_payloads = 0;
  for (auto& b : BLOCKS) ::operator delete(b.first);     // blocks of an earlier run whose root never completed
  BLOCKS.clear();
  unifex::inplace_stop_source ext;
  if (prestop) ext.request_stop();
  using op_t = unifex::connect_result_t<decltype(mk()), root_receiver>;
  alignas(alignof(op_t) > 64 ? alignof(op_t) : 64) static unsigned char storage[sizeof(op_t) + 64];
  std::memset(storage, 0xAB, sizeof storage);
  op_t* op = nullptr;
  try {
    op = ::new (static_cast<void*>(storage)) op_t(unifex::connect(mk(), root_receiver{counting_token{ext.get_token()}}));
  } catch (const err& e) {
    // connect() of the whole expression threw: nothing was started; whatever had been constructed is gone again
    log(e.code == CONNECT_THROW_CODE ? "connect_throw" : "connect_throw " + std::to_string(e.code));
  }
  if (op) unifex::start(*op);
  for (auto& ev : script) {
    log("|");                 // batch marker: what follows is caused by the next script event
    if (ev.what == 'S') {
      cur_ctx = ev.ctx;
      if (ext.stop_requested()) log("skip"); else ext.request_stop();
    } else if (ev.what == 'R') {
      if (ev.ctx < 0 || ev.ctx >= NCTX || !run_one(ev.ctx)) log("skip");
    } else {
      cur_ctx = ev.ctx;
      auto& c = CTL[ev.id];
      if (c.started && !c.completed) { c.completed = true; c.complete_fn(c.op, ev.kind, ev.val); }
      else log("skip");
    }
  }
  cur_ctx = 0;
  log("|");
  if (k2::roots > 0) {
    log("root_dtor"); op->~op_t();
    log("plive " + std::to_string(live_payloads));   // implementation-only: tracked values still alive (C02: must be 0)
    log("blive " + std::to_string(BLOCKS.size()));   // implementation-only: blocks not returned (C12: must be 0)
  } else if (!op) {
    log("plive " + std::to_string(live_payloads));
    log("blive " + std::to_string(BLOCKS.size()));
  }
  std::string out;
  for (auto& l : k2::LOG) { if (!out.empty()) out += ";"; out += l; }
  return out + " # roots=" + std::to_string(k2::roots);
}

using case_fn = std::string (*)(bool, const std::vector<script_ev>&);

inline int main_loop(case_fn* cases, int ncases) {
  std::string line;
  while (std::getline(std::cin, line)) {
    std::istringstream is(line);
    int idx, prestop; std::string bar;
    is >> idx >> prestop >> bar;
    auto script = parse_script(is);
    if (idx < 0 || idx >= ncases) { std::cout << "ERR index\n"; continue; }
    std::cout << cases[idx](prestop != 0, script) << "\n";
    std::cout.flush();
  }
  return 0;
}

}  // namespace k2v2
