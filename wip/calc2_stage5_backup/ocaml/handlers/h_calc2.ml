open Model
open Conv
open Calc2
(* s-expression reader for sender terms *)
type sx = A of string | L of sx list
let tokenize s =
  let b = Buffer.create 16 and out = ref [] in
  let flush () = if Buffer.length b > 0 then (out := Buffer.contents b :: !out; Buffer.clear b) in
  String.iter (fun c -> match c with
    | '(' | ')' -> flush (); out := String.make 1 c :: !out
    | ' ' | '\t' -> flush ()
    | c -> Buffer.add_char b c) s;
  flush (); List.rev !out
let rec parse toks = match toks with
  | "(" :: r -> let (items, r') = parse_list r in (L items, r')
  | a :: r -> (A a, r)
  | [] -> failwith "eof"
and parse_list toks = match toks with
  | ")" :: r -> ([], r)
  | _ -> let (x, r) = parse toks in let (xs, r') = parse_list r in (x :: xs, r')
let zi s = z_of_int (int_of_string s)
let ni s = nat_of_int (int_of_string s)
let fn_of = function
  | L [A "add"; A k] -> FAdd (zi k) | L [A "mul"; A k] -> FMul (zi k)
  | L [A "throw"; A e] -> FThrow (zi e) | L [A "throwif"; A x; A e] -> FThrowIf (zi x, zi e)
  | _ -> failwith "fn"
let rec ex = function
  | L [A "just"; A v] -> Just (zi v) | L [A "jerr"; A e] -> JustErr (zi e) | L [A "jdone"] -> JustDone
  | L [A "var"; A n] -> Var (nat_of_int (int_of_string n))
  | L [A "leaf"; A i] -> Leaf (nat_of_int (int_of_string i))
  | L [A "leafn"; A i] -> LeafN (nat_of_int (int_of_string i))
  | L [A "sched"; A i; A c] -> Sched (ni i, ni c)
  | L [A "withsched"; A c; e] -> Un (UWithSched (ni c), ex e)
  (* the library's compositions: the model term is the Gallina definition *)
  | L [A "via"; A i; A c; e] -> via (ni i) (ni c) (ex e)
  | L [A "tvia"; A i; A c; e] -> via (ni i) (ni c) (ex e)
  | L [A "on"; A i; A c; e] -> on (ni i) (ni c) (ex e)
  | L [A "wsav"; A i; A c; e] -> wsa_via (ni i) (ni c) (ex e)
  | L [A "leafr"; A i; A l] -> LeafR (ni i, ni l)
  | L [A "stopif"] -> StopIf
  | L [A "leafc"; A i] -> LeafC (ni i)
  | L [A "alloc"; e] -> Un (UAllocate, ex e)
  | L [A "walloc"; A a; e] -> Un (UWithAlloc (ni a), ex e)
  | L [A "lvss"; A now; e] -> Un (ULetSS (now = "1"), ex e)
  | L [A "repeat"; A bits; e] ->
    Un (URepeat (List.filter_map (fun c -> if c = '1' then Some true else if c = '0' then Some false else None)
                   (List.init (String.length bits) (String.get bits))), ex e)
  | L [A "intov"; e] -> Un (UIntoVar, ex e)
  | L [A "retry"; A n; a; b] -> Bin (BRetry (ni n), ex a, ex b)
  | L [A "wany"; a; b] -> Bin (BWhenAny, ex a, ex b)
  | L [A "jfrom"; f] -> just_from (fn_of f)
  | L [A "defer"; e] -> defer (ex e)
  | L [A "then"; f; e] -> Un (UThen (fn_of f), ex e)
  | L [A "uerr"; f; e] -> Un (UUponErr (fn_of f), ex e)
  | L [A "udone"; f; e] -> Un (UUponDone (fn_of f), ex e)
  | L [A "withq"; A q; A v; e] -> Un (UWithQ (nat_of_int (int_of_string q), zi v), ex e)
  | L [A "unstop"; e] -> Un (UUnstoppable, ex e)
  | L [A "mat"; e] -> Un (UMat, ex e)
  | L [A "dopt"; e] -> Un (UDoneOpt, ex e)
  | L [A "letv"; a; b] -> Bin (BLetV, ex a, ex b) | L [A "lete"; a; b] -> Bin (BLetE, ex a, ex b)
  | L [A "letd"; a; b] -> Bin (BLetD, ex a, ex b) | L [A "seq"; a; b] -> Bin (BSeq, ex a, ex b)
  | L [A "fin"; a; b] -> Bin (BFinally, ex a, ex b) | L [A "wall"; a; b] -> Bin (BWhenAll, ex a, ex b)
  | L [A "swhen"; a; b] -> Bin (BStopWhen, ex a, ex b)
  | _ -> failwith "sexpr"
let i z = string_of_int (int_of_z z)
let b01 b = if b then "1" else "0"
let str_fn = function
  | FAdd k -> "add(" ^ i k ^ ")" | FMul k -> "mul(" ^ i k ^ ")" | FThrow e -> "throw(" ^ i e ^ ")"
  | FThrowIf (x, e) -> "throwif(" ^ i x ^ "," ^ i e ^ ")"
let str_out = function OVal v -> "value " ^ i v | OErr e -> "error " ^ i e | ODone -> "done"
  | OValT v -> "value " ^ i v    (* the root receiver takes the value by reference *)
  | OValK v -> "valueK " ^ i v   (* never produced *)
let render = function
  | XT (TLeafStart (id, st, sp, q0, q1, sch, cx)) ->
    Printf.sprintf "start %d stopped=%s stoppable=%s q0=%s q1=%s sch=%d ctx=%d" (int_of_nat id) (b01 st) (b01 sp) (i q0) (i q1)
      (int_of_nat sch) (int_of_nat cx)
  | XT (TSchedStart (_, c)) -> Printf.sprintf "enq %d" (int_of_nat c)
  | XT (TSchedDtor c) -> Printf.sprintf "sdtor %d" (int_of_nat c)
  | XT (TReqStop (id, _)) -> Printf.sprintf "reqstop %d" (int_of_nat id)
  | XT (TPred b) -> "pred " ^ b01 b
  | XT (TGate b) -> "gate " ^ b01 b
  | XT (TAlloc a) -> Printf.sprintf "alloc %d" (int_of_nat a)
  | XT (TFree a) -> Printf.sprintf "free %d" (int_of_nat a)
  | XT (TLeafStop id) -> Printf.sprintf "stopseen %d" (int_of_nat id)
  | XT (TCall (f, x)) -> Printf.sprintf "call %s %s" (str_fn f) (i x)
  | XT (TLeak r) -> Printf.sprintf "leak %s" (b01 r)
  | XRoot (o, n, cx) -> Printf.sprintf "root %s regs=%d ctx=%d" (str_out o) (int_of_nat n) (int_of_nat cx)
  | XT (TLeafDtor id) -> Printf.sprintf "dtor %d" (int_of_nat id)
  | XRootDtor -> "root_dtor"
  | XConnectThrow -> "connect_throw"
  | XSkip -> "skip"
(* script tokens: L<id>:<k><val>[@ctx]  S[@ctx]  R<ctx> *)
let script_of toks = List.map (fun t ->
    let (t, cx) = match String.index_opt t '@' with
      | Some a -> (String.sub t 0 a, int_of_string (String.sub t (a + 1) (String.length t - a - 1)))
      | None -> (t, 0) in
    if t = "S" then EvStop (nat_of_int cx) else
    if t.[0] = 'R' then EvRun (nat_of_int (int_of_string (String.sub t 1 (String.length t - 1)))) else
      let c = String.index t ':' in
      let id = int_of_string (String.sub t 1 (c - 1)) in
      let k = t.[c + 1] in
      let v = if String.length t > c + 2 then int_of_string (String.sub t (c + 2) (String.length t - c - 2)) else 0 in
      EvLeaf (nat_of_int id, (match k with 'v' -> OVal (z_of_int v) | 't' -> OValT (z_of_int v) | 'e' -> OErr (z_of_int v) | _ -> ODone), nat_of_int cx)) toks
let () =
  (* calc2 <prestop> <sexpr ...> | <script ...> *)
  Registry.register "calc2" (fun args ->
    let rec split acc = function [] -> (List.rev acc, []) | "|" :: r -> (List.rev acc, r) | x :: r -> split (x :: acc) r in
    match args with
    | pre :: rest ->
      let (etoks, stoks) = split [] rest in
      let (sx, _) = parse (tokenize (String.concat " " etoks)) in
      (* exec, unfolded so that a batch marker "|" can be printed in front of the events of every script step
         (and of the final destruction), as the harness does; the marker-free trace is exactly r_tr (exec ...) *)
      let e = ex sx in
      let script = script_of stoks in
      let rs0 = run_start e (pre = "1") in
      let buf = ref (List.map render (r_tr rs0)) in
      let step rs rs' =
        let n = List.length (r_tr rs) in
        buf := !buf @ ("|" :: List.map render (List.filteri (fun i _ -> i >= n) (r_tr rs'))) in
      let rs = List.fold_left (fun rs ev -> let rs' = run_ev e rs ev in step rs rs'; rs') rs0 script in
      let rsf = run_end e rs in
      step rs rsf;
      assert (r_tr rsf = r_tr (exec e (pre = "1") script));
      String.concat ";" !buf ^ " # roots=" ^ string_of_int (int_of_nat (r_roots rsf))
    | _ -> "ERR args")
