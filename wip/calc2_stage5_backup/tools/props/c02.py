"""C02 — operation states and captured objects are destroyed exactly once, never early.
Theorems: coq/Properties_C02_calc2.v over the Calc2 model (operation-state lifetimes of every leaf instance in
every expression and script). Tie: K2v2 — the real algorithms over leaves whose operation states log their
destruction, operation state in 0xAB-poisoned storage, plus the direct life-cycle monitor on the implementation
trace. (Self-owning heap operations: C09; cancel wrappers: C19; streams: C13.)"""
import re
import k2v2, vlib
LEVEL = "proof"
def run(chk, replay=None):
    chk.cov["trusted_base"] = [
        "Coq 8.16.1 kernel; Print Assumptions closed for every theorem of Properties_C02_calc2.v",
        "extraction ExtrOcamlBasic only; ocaml/handlers/h_calc2.ml",
        "harness/k2v2.hpp (leaf op-states with logging destructors), tools/k2v2.py (batch-wise comparison of stop-callback order)",
        "modelled not verified: lifetimes of stored values / callables / receivers (only operation states of leaves and scheduler items are "
        "tracked); throwing copies/connect/allocation are not in the model (callable throws are)"]
    chk.cov["rule"] = "K2v2: generated expressions x scripts; non-trivial = script with a stop or a non-value completion"
    chk.prove()
    fault_probe(chk)
    k2v2.standard_k2v2(chk)


def _expect(name, k):
    """what the documentation promises for probe <name> when the k-th connect() of the source throws (k = 0: never)"""
    kind, script = name.split("_", 1)
    if kind == "repeat":
        rounds, script = (3, "v") if script == "3" else (4, script)
    connects, starts, n = 0, 0, 0
    connects += 1
    if connects == k:
        return "-", 1      # the first connect throws out of connect()
    while True:
        o = script[min(starts, len(script) - 1)]
        starts += 1
        if kind == "retry":
            if o in "vd":
                return o, 0
        else:
            if o in "ed":
                return o, 0
            n += 1
            if n >= rounds:
                return "v", 0
        connects += 1
        if connects == k:
            return "e", 0


def fault_probe(chk):
    """harness/k3_c02_probe.cpp: the k-th connect() of the source throws under retry_when / repeat_effect_until (the re-connecting
    algorithms): construction/destruction balance of the source's operation states, no destructor on a dead or never constructed
    object, the documented completion - evaluated directly on the real code."""
    exe, err = vlib.build_driver("k3_c02_probe", "plain17")
    if err:
        p = chk.replay_file("c02probe_build", {"kind": "build-failure", "error": err[-3000:]})
        chk.violation("c02probe/build", p, no_input=True, text="k3_c02_probe does not compile against /repo")
        return
    rc, out = vlib.sh([exe], timeout=120)
    n = 0
    for l in out.splitlines():
        m = re.match(r"(\S+) k=(\d+) completion=(.) connects=(\d+) ctor=(\d+) dtor=(\d+) dead_dtor=(\d+) live_end=(\d+) threw_out=(\d)", l)
        if not m:
            continue
        n += 1
        name, k, comp = m.group(1), int(m.group(2)), m.group(3)
        ctor, dtor, dead, live, threw = (int(m.group(i)) for i in (5, 6, 7, 8, 9))
        chk.count("c02probe:%s:%d" % (name, k), k > 0)
        wc, wt = _expect(name, k)
        why = None
        if dead:
            why = "%d destructor call(s) on an operation state that was not alive (destroyed twice or never constructed)" % dead
        elif live or ctor != dtor:
            why = "operation states constructed=%d destroyed=%d still alive=%d" % (ctor, dtor, live)
        elif (comp, threw) != (wc, wt):
            why = "completion=%s threw_out=%d, documented completion=%s threw_out=%d" % (comp, threw, wc, wt)
        if why:
            p = chk.replay_file("c02probe_%s_%d" % (name, k), {"kind": "fault-probe", "probe": name, "k": k, "line": l, "why": why,
                                                             "replay": exe + " | grep '%s k=%d'" % (name, k)})
            chk.violation("c02probe/%s/k%d" % (name, k), p, text="%s with the %d-th connect throwing: %s" % (name, k, why))
        else:
            chk.cov["traces_validated_against_impl"] += 1
    if rc != 0 or "END" not in out or n < 20:
        p = chk.replay_file("c02probe_run", {"kind": "probe-crash", "rc": rc, "out": out[-2000:], "replay": exe})
        chk.violation("c02probe/crash", p, text="fault probe program failed rc=%d after %d probes" % (rc, n))
    chk.cov["fault_probes"] = n
