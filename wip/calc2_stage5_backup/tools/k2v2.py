"""K2 program differential, second generation: the Calc2 model (coq/Calc/Calc2Defs.v, ocaml handler
"calc2") against the real library through harness/k2v2.hpp.  Reuses the expression generator, the
callable table and the canonicalisation of tools/k2.py; adds
  stage 1  lifetimes: `dtor <id>` of every leaf operation state, `root_dtor`, direct C02 monitor;
  stage 2  execution contexts: every script event carries a context (`L0:v5@2`, `S@1`), harness schedulers
           `sched{c}` with one FIFO per context run by `R<c>`, get_scheduler as a third query, and the
           library's own compositions via / typed_via / on / with_scheduler_affinity: the C++ side calls the
           real unifex function, the model side uses the Gallina definition over finally / sequence /
           with_query_value / unstoppable / schedule;
  stage 4  value-copy fault points: every value is a tracked k2v2::payload; a script completion `L0:t5` sends one whose
           copy / move throws when stored (model outcome OValT); live payload objects are counted (`plive`, C02).
  stage 5  throwing connect: `leafc` = a sender whose connect() throws err{78}; placed mostly where the algorithms connect a
           child late (inside their try); the leaf operation states log their construction (`ctor`, implementation-only)
           and the C02 monitor balances constructions against destructions, also when the root connect throws.
           blocks: `alloc` = unifex::allocate(s), `walloc a` = with_allocator(s, counting allocator a); events
           `alloc a` / `free a` (the harness also checks that a block goes back to the allocator it came from).
  stage 3  more algorithms: let_value_with_stop_source (+ leaves whose callable requests stop on a chosen
           enclosing source), stop_if_requested, just_from, defer, repeat_effect_until (predicate = bit
           list), retry_when (n granted retries), into_variant.
Development switches (never used by registered checks): VERIF_CALC2_DRIVER=<exe> runs a privately built
model driver, VERIF_K2V2_HDR=<dir> takes k2v2.hpp from <dir> instead of harness/."""
import hashlib, os, random, re
import vlib, k2

HDR_DIR = os.environ.get("VERIF_K2V2_HDR", vlib.HARNESS)
FNS = ("add", "mul", "throw", "throwif")


# ------------------------------------------------------------------------------------------ generation
NCTX = 4
UN2 = ["withsched", "via", "tvia", "on", "wsav"]     # stage 2 unary forms


class Gen2(k2.Gen):
    """k2.Gen plus the stage-2 forms.  Sched operations get ids from 100 up (never addressed by scripts)."""
    def __init__(self, rng, max_leaves=4, kinds=None, p_new=0.3, wsa=False):
        super().__init__(rng, max_leaves, kinds)
        self.nsched = 0
        self.nss = 0          # enclosing let_value_with_stop_source operations
        self.p_new = p_new
        self.un2 = UN2 if wsa else [k for k in UN2 if k != "wsav"]   # wsav and stopif need a C++20 build
        self.cxx20 = wsa

    def sid(self):
        self.nsched += 1
        return 99 + self.nsched

    def leafish(self, nbound):
        r = self.rng
        if self.nsched < 4 and r.random() < self.p_new * 0.4:
            return ("sched", self.sid(), r.randrange(NCTX))
        if self.nss > 0 and self.nleaf < self.max_leaves and r.random() < 0.4:
            self.nleaf += 1
            return ("leafr", self.nleaf - 1, r.randrange(self.nss))
        c = r.random()
        if c < self.p_new * 0.2 and self.cxx20: return ("stopif",)
        if c < self.p_new * 0.3: return ("jfrom", self.fn())
        return super().leafish(nbound)

    def expr(self, size, nbound=0):
        r = self.rng
        if size > 1 and r.random() < self.p_new * 0.9:
            k = r.choice(["lvss", "lvss", "repeat", "retry", "intov", "defer", "alloc", "alloc", "walloc"])
            if k == "alloc":
                return (k, self.expr(size - 1, nbound))
            if k == "walloc":
                return (k, r.randint(1, 2), self.expr(size - 1, nbound))
            if k == "lvss":
                self.nss += 1
                sub = self.expr(size - 1, nbound)
                self.nss -= 1
                return (k, 1 if r.random() < 0.2 else 0, sub)
            if k == "repeat":
                n = r.randint(0, 3)
                return (k, "b" + "".join(r.choice("001") for _ in range(n)), self.expr(size - 1, nbound))
            if k in ("intov", "defer"):
                return (k, self.expr(size - 1, nbound))
            if size > 2:
                sa = r.randint(1, size - 2)
                a = self.expr(sa, nbound)
                b = self.expr(size - 1 - sa, nbound + 1)
                return ("retry", r.randint(0, 2), a, b)
        if size > 1 and r.random() < self.p_new * 0.4:
            sa = r.randint(1, size - 1)
            return ("wany", self.expr(sa, nbound), self.expr(size - sa, nbound))
        if size > 1 and r.random() < self.p_new:
            k = r.choice(self.un2)
            if k != "withsched" and self.nsched >= 4:
                k = "withsched"
            c = r.randrange(NCTX)
            if k == "withsched":
                return (k, c, self.expr(size - 1, nbound))
            i = self.sid()
            return (k, i, c, self.expr(size - 1, nbound))
        return super().expr(size, nbound)


def lvalue_lete(e, lv=False):
    """let_error's connect() does not compile for an lvalue sender (finding: let_error.hpp builds
    operation_type<Source,...> whose constructor takes Source&& from s.source_); repeat_effect_until and
    retry_when connect their source as an lvalue, which propagates through every sender stored as a member.
    Second finding of the same kind: let_value_with_stop_source's sender has an unconstrained forwarding
    constructor, so it cannot be copied from a non-const lvalue, which sequence does with its successor when
    sequence itself is connected as an lvalue.
    True if e has a let_error / such a let_value_with_stop_source (the generator then draws another expression)."""
    k = e[0]
    if k == "lete" and lv:
        return True
    if k == "seq" and lv and e[2][0] == "lvss":
        return True
    if k in ("repeat",):
        return lvalue_lete(e[2], True)
    if k == "retry":
        return lvalue_lete(e[2], True) or lvalue_lete(e[3], False)
    if k in ("letv", "lete", "letd"):
        return lvalue_lete(e[1], lv) or lvalue_lete(e[2], False)
    if k in ("lvss", "defer"):
        return lvalue_lete(e[-1], False)
    return any(lvalue_lete(x, lv) for x in subexprs(e))


def throw_hits_noexcept(e):
    """Finding (stage 4): let_value's successor_receiver::set_value is declared noexcept but forwards to a receiver
    whose set_value may throw (into_variant's tuple construction, let_error's by-value parameters, stop_when's
    result_ emplace): a value with a throwing move sent by a let_value successor (also defer = let_value(just(), f))
    into such a consumer ends in std::terminate.  True if e contains a throwing consumer whose by-reference chain
    reaches a let_value successor before a catching forwarder (the generator then draws another expression)."""
    def chain(x):
        k = x[0]
        if k in ("uerr", "udone"): return chain(x[2])
        if k == "lvss": return chain(x[2])
        if k == "letd": return chain(x[1]) or chain(x[2])
        if k == "retry": return chain(x[2])
        if k == "letv": return True
        if k == "defer": return True
        return False
    k = e[0]
    if k == "intov" and chain(e[1]): return True
    if k == "lete" and (chain(e[1]) or chain(e[2])): return True
    if k == "swhen" and chain(e[1]): return True
    return any(throw_hits_noexcept(x) for x in subexprs(e))


LEAFISH = ("leaf", "leafn", "leafr", "just", "jerr", "jdone", "var", "sched", "stopif", "jfrom")


def leaf_positions(e, lazy=False, path=()):
    """(path, lazy) of every leaf-like node; lazy = the library connects it late, inside an algorithm's try
    (second child of the sequential kinds, retry_when's trigger, the bodies of defer / on, when_any's children)"""
    k = e[0]
    if k in LEAFISH:
        return [(path, lazy)]
    out = []
    for i, x in enumerate(e):
        if not (i > 0 and isinstance(x, tuple) and x and isinstance(x[0], str) and x[0] not in FNS):
            continue
        lz = lazy
        if k in ("letv", "lete", "letd", "seq", "fin") and i == 2: lz = True
        if k == "retry" and i == 3: lz = True
        if k in ("defer", "on", "wany"): lz = True
        out += leaf_positions(x, lz, path + (i,))
    return out


def place_leafc(rng, e, ident=40):
    """replace one leaf-like node of e by a sender whose connect throws (mostly in a late-connected position)"""
    pos = leaf_positions(e)
    lazy = [p for p, lz in pos if lz]
    eager = [p for p, lz in pos if not lz]
    pool = lazy if lazy and (not eager or rng.random() < 0.85) else eager
    if not pool:
        return e
    path = rng.choice(pool)
    def put(t, path):
        if not path:
            return ("leafc", ident)
        return t[:path[0]] + (put(t[path[0]], path[1:]),) + t[path[0] + 1:]
    return put(e, path)


def lvss_reactive(e, root=True):
    """Finding (runtime, use after destroy): a let_value_with_stop_source operation forwards its child's completion
    at once; if the child completes synchronously from a stop callback that runs inside stopSource_.request_stop()
    (a stop-reactive leaf) and the parent destroys the finished operation right away (finally, let_error, let_done,
    let_value, sequence, ...), the source is destroyed while its request_stop() is still running
    (out/calc2/repro_lvss_stop_source_destroyed_in_request_stop.cpp).  Depending on what overwrites the storage the
    real code then spins forever in inplace_stop_source::lock or crashes.  True if e has a stop-reactive leaf inside a
    let_value_with_stop_source that is not the root operation (the generator then draws another expression)."""
    if e[0] == "lvss" and not root and "leafn" in kinds_of(e):
        return True
    return any(lvss_reactive(x, False) for x in subexprs(e))


def subexprs(e):
    return [x for x in e[1:] if isinstance(x, tuple) and x and isinstance(x[0], str) and x[0] not in FNS]


def leaves(e, acc=None):
    acc = [] if acc is None else acc
    if e[0] in ("leaf", "leafn", "leafr"):
        acc.append(e[1])
    for x in subexprs(e):
        leaves(x, acc)
    return acc


def scheds(e, acc=None):
    """contexts of the schedule() operations of e (explicit and inside via/on/wsav)"""
    acc = [] if acc is None else acc
    if e[0] == "sched": acc.append(e[2])
    if e[0] in ("via", "tvia", "on", "wsav"): acc.append(e[2])
    for x in subexprs(e):
        scheds(x, acc)
    return acc


RAW = [False]
def to_raw(e):
    """to_model without the then() that stands for a void upon_error / upon_done callable (corpus selection by prefix)"""
    RAW[0] = True
    try:
        return to_model(e)
    finally:
        RAW[0] = False


def to_model(e):
    k = e[0]
    if k == "sched": return "(sched %d %d)" % (e[1], e[2])
    if k == "withsched": return "(withsched %d %s)" % (e[1], to_model(e[2]))
    if k in ("via", "tvia", "on", "wsav"): return "(%s %d %d %s)" % (k, e[1], e[2], to_model(e[3]))
    if k in ("just", "jerr", "var", "leaf", "leafn"): return "(%s %d)" % (k, e[1])
    if k == "jdone": return "(jdone)"
    if k == "stopif": return "(stopif)"
    if k == "leafc": return "(leafc %d)" % e[1]
    if k == "alloc": return "(alloc %s)" % to_model(e[1])
    if k == "walloc": return "(walloc %d %s)" % (e[1], to_model(e[2]))
    if k == "leafr": return "(leafr %d %d)" % (e[1], e[2])
    if k == "jfrom": return "(jfrom (%s))" % " ".join(map(str, e[1]))
    if k in ("lvss", "repeat"): return "(%s %s %s)" % (k, e[1], to_model(e[2]))
    if k in ("intov", "defer"): return "(%s %s)" % (k, to_model(e[1]))
    if k == "retry": return "(retry %d %s %s)" % (e[1], to_model(e[2]), to_model(e[3]))
    if k in ("uerr", "udone") and upon_variant(e[1])[0] and not RAW[0]:
        # the callable returns void: the value is produced by a then() on top (k2v2::uerr_v / udone_v)
        return "(then (add 0) (%s (%s) %s))" % (k, " ".join(map(str, e[1])), to_model(e[2]))
    if k in ("then", "uerr", "udone"):
        return "(%s (%s) %s)" % (k, " ".join(map(str, e[1])), to_model(e[2]))
    if k == "withq": return "(withq %d %d %s)" % (e[1], e[2], to_model(e[3]))
    if k in ("unstop", "mat", "dopt"): return "(%s %s)" % (k, to_model(e[1]))
    return "(%s %s %s)" % (k, to_model(e[1]), to_model(e[2]))


def upon_variant(f):
    """(void?, noexcept?) of the callable handed to upon_error / upon_done, a function of the callable's constant:
    upon_error.hpp / upon_done.hpp have one branch for each of the four combinations"""
    v = f[1] % 4
    return (v in (1, 3), v in (2, 3) and f[0] in ("add", "mul"))


def upon_cpp(k, f, sub):
    void, nx = upon_variant(f)
    return "k2v2::%s%s%s(%s, %s)" % (k, "_v" if void else "", "_nx" if nx else "", sub, k2.cpp_fn(f))


def to_cpp(e, bound=(), ss=()):
    """bound: tuple of C++ variable names, innermost first; ss: names of the pointers to the stop sources of the
    enclosing let_value_with_stop_source operations, outermost first"""
    return _cpp(e, bound, ss, None)


def _cpp(e, bound, ss, watch=None):
    """watch: name of the pointer to the payload bound by the innermost enclosing let_value successor; the leaves of the
    successor expression refer to it (C02: the successor operation must be destroyed before the bound value)"""
    def to_cpp(x, b=bound, w=None):
        return _cpp(x, b, ss, w or watch)
    k = e[0]
    if k == "stopif": return "k2v2::stopif()"
    if k == "leafc": return "k2v2::leafc{%d}" % e[1]
    if k == "alloc": return "unifex::allocate(%s)" % to_cpp(e[1])
    if k == "walloc": return "k2v2::walloc(%s, %d)" % (to_cpp(e[2]), e[1])
    if k == "leafr": return "k2v2::leafr(%d, %s%s)" % (e[1], ss[e[2]], ", " + watch if watch else "")
    if k == "jfrom": return "k2v2::jfrom(%s)" % k2.cpp_fn(e[1])
    if k == "lvss":
        p = "p%d" % len(ss)
        return "k2v2::lvss(%s, [=](auto* %s) { return %s; })" % ("true" if e[1] else "false", p, _cpp(e[2], bound, ss + (p,), watch))
    if k == "repeat":
        bits = e[1][1:]
        val = sum(1 << i for i, c in enumerate(bits) if c == "1")
        return "k2v2::repeat(%s, k2v2::predlist{%du, %d})" % (to_cpp(e[2]), val, len(bits))
    if k == "intov": return "k2v2::intov(%s)" % to_cpp(e[1])
    if k == "defer": return "unifex::defer([=]() { return %s; })" % to_cpp(e[1])
    if k == "retry":
        x = "x%d" % len(bound)
        return "k2v2::retry(%s, %d, [=](int %s) { return %s; })" % (to_cpp(e[2]), e[1], x, to_cpp(e[3], (x,) + bound))
    if k == "leaf": return "k2v2::leaf{%d,false%s}" % (e[1], "," + watch if watch else "")
    if k == "leafn": return "k2v2::leaf{%d,true%s}" % (e[1], "," + watch if watch else "")
    if k == "just": return "k2v2::just(%d)" % e[1]
    if k == "jerr": return "k2v2::inl{'e',%d}" % e[1]
    if k == "jdone": return "k2v2::inl{'d',0}"
    if k == "var": return "k2v2::just(int(%s))" % bound[e[1]]
    if k == "sched": return "k2v2::sched_leaf(%d)" % e[2]
    if k == "withsched": return "unifex::with_query_value(%s, unifex::get_scheduler, k2v2::sched{%d})" % (to_cpp(e[2], bound), e[1])
    if k == "via": return "unifex::via(%s, k2v2::sched{%d})" % (to_cpp(e[3], bound), e[2])
    if k == "tvia": return "unifex::typed_via(%s, k2v2::sched{%d})" % (to_cpp(e[3], bound), e[2])
    if k == "on": return "unifex::on(k2v2::sched{%d}, %s)" % (e[2], to_cpp(e[3], bound))
    if k == "wsav": return "k2v2::wsa(%s, k2v2::sched{%d})" % (to_cpp(e[3], bound), e[2])
    if k == "then": return "k2v2::thenf(%s, %s)" % (to_cpp(e[2], bound), k2.cpp_fn(e[1]))
    if k in ("uerr", "udone"): return upon_cpp(k, e[1], to_cpp(e[2], bound))
    if k == "withq": return "unifex::with_query_value(%s, k2::get_q%d, %d)" % (to_cpp(e[3], bound), e[1], e[2])
    if k == "unstop": return "unifex::unstoppable(%s)" % to_cpp(e[1], bound)
    if k == "mat": return "k2v2::mat(%s)" % to_cpp(e[1], bound)
    if k == "dopt": return "k2v2::dopt(%s)" % to_cpp(e[1], bound)
    a = to_cpp(e[1], bound)
    if k == "letv":
        x = "x%d" % len(bound)
        return "unifex::let_value(%s, [=](k2v2::payload& p%s) { int %s = p%s.v; const k2v2::payload* w%s = &p%s; return %s; })" % (
            a, x, x, x, x, x, to_cpp(e[2], (x,) + bound, "w" + x))
    if k == "lete":
        x = "x%d" % len(bound)
        return "unifex::let_error(%s, [=](auto&& ep%s) { int %s = k2::code_of(ep%s); return %s; })" % (
            a, x, x, x, to_cpp(e[2], (x,) + bound))
    b = to_cpp(e[2], bound)
    if k == "letd": return "unifex::let_done(%s, [=]() { return %s; })" % (a, b)
    if k == "seq": return "unifex::sequence(k2v2::voided(%s), %s)" % (a, b)
    if k == "fin": return "unifex::finally(%s, k2v2::voided(%s))" % (a, b)
    if k == "wall": return "k2v2::wall(%s, %s)" % (a, b)
    if k == "wany": return "k2v2::wany(%s, %s)" % (a, b)
    if k == "swhen": return "unifex::stop_when(%s, k2v2::voided(%s))" % (a, b)
    raise ValueError(k)


def gen_scripts(rng, e, n):
    """k2.gen_scripts' shapes with a context on every event and R<c> events for the queued schedule()s"""
    ls = sorted(set(leaves(e)))
    ctxs = scheds(e)
    multi = bool(ctxs) or rng.random() < 0.5
    def at():
        return "@%d" % rng.randrange(NCTX) if multi and rng.random() < 0.7 else ""
    def ev(i):
        c = rng.random()
        if c < 0.6: return "L%d:%s%d%s" % (i, "t" if rng.random() < 0.2 else "v", rng.randint(0, 12), at())
        if c < 0.8: return "L%d:e%d%s" % (i, rng.randint(30, 39), at())
        return "L%d:d%s" % (i, at())
    def rn():
        return "R%d" % (rng.choice(ctxs) if ctxs and rng.random() < 0.85 else rng.randrange(NCTX))
    out = []
    for _ in range(n):
        prestop = 1 if rng.random() < 0.12 else 0
        body = []
        order = ls[:]
        rng.shuffle(order)
        for i in order:
            if rng.random() < 0.85:
                body.append(ev(i))
        if rng.random() < 0.1 and ls:
            body.append(ev(rng.choice(ls)))
        for _ in range(len(ctxs) + (1 if ctxs and rng.random() < 0.3 else 0)):
            if rng.random() < 0.8:
                body.insert(rng.randint(0, len(body)), rn())
        if rng.random() < 0.55:
            body.insert(rng.randint(0, len(body)), "S" + at())
        if rng.random() < 0.85:                       # drain: complete / run whatever got started later
            for _ in range(3):
                for c in sorted(set(ctxs)):
                    body.append("R%d" % c)
                for i in ls:
                    body.append(ev(i))
            for c in sorted(set(ctxs)) * 2:
                body.append("R%d" % c)
        out.append((prestop, " ".join(body)))
    out.append((0, ""))
    out.append((0, "S"))
    return out


# ------------------------------------------------------------------------------------------ TU emission
def header_hash():
    return hashlib.sha256(open(os.path.join(HDR_DIR, "k2v2.hpp"), "rb").read()).hexdigest()[:12]


def emit_tu(cases):
    hdr = "k2v2.hpp" if HDR_DIR == vlib.HARNESS else os.path.join(HDR_DIR, "k2v2.hpp")   # a private header by absolute path
    src = ["// k2v2.hpp %s" % header_hash(), '#include "%s"' % hdr, ""]
    for i, e in enumerate(cases):
        src.append("static std::string case_%d(bool pre, const std::vector<k2v2::script_ev>& s) {" % i)
        src.append("  return k2v2::run_case([] { return %s; }, pre, s);" % to_cpp(e))
        src.append("}")
    src.append("static k2v2::case_fn CASES[] = {%s};" % ", ".join("case_%d" % i for i in range(len(cases))))
    src.append("int main() { return k2v2::main_loop(CASES, %d); }" % len(cases))
    return "\n".join(src) + "\n"


# ------------------------------------------------------------------------------------------ comparison
# implementation-only markers: they feed the monitors, the model does not predict them
IMPL_ONLY = ("fin ", "plive ", "blive ", "ctor ", "cthrow ", "dtor_ns ", "sdtor_ns ", "dtor_watch_dead ", "start_watch_dead ")


def allocs_first(body):
    """within every batch (`|` markers) the `alloc` events are moved to the front: the library takes the blocks of a whole
    expression while it connects it, before anything is started; the model connects and starts a subexpression in one
    step, so it shows the same allocations interleaved with the start events of the same batch"""
    out, cur = [], []
    def flush():
        out.extend(sorted(x for x in cur if x.startswith("alloc ")) + [x for x in cur if not x.startswith("alloc ")])
    for x in body.split(";"):
        if x == "|":
            flush(); cur = []; out.append("|")
        elif x:
            cur.append(x)
    flush()
    return ";".join(out)


def canon(trace):
    """k2.canon (stop cascades sorted, model-only `leak` dropped) after removing the implementation-only
    `fin <id>` completion markers (they feed the monitor)."""
    body, _, tail = trace.partition(" # ")
    evs = [x for x in allocs_first(body).split(";") if x and x != "|" and not x.startswith(IMPL_ONLY)]
    return k2.canon(";".join(evs) + " # " + tail)


def canon_weak(trace):
    """Fallback canonical form for runs in which ONE stop request reached several callbacks of one stop source
    in an order the structural model does not reproduce (the library runs them most-recently-registered first;
    the model, like Calc, runs the second child's before the first child's and does not track registration
    order, see k2.canon).  The trace is cut at the batch markers `|` (one batch = the consequences of one script
    event).  A batch with fewer than two `stopseen` must match exactly; a batch with two or more is compared as
    a multiset of events plus, per leaf, the order of that leaf's own events."""
    body, _, tail = trace.partition(" # ")
    batches, cur = [], []
    for x in allocs_first(body).split(";"):
        if not x or x.startswith("leak ") or x.startswith(IMPL_ONLY):
            continue
        if x == "|":
            batches.append(cur); cur = []
        else:
            cur.append(x)
    batches.append(cur)
    out = []
    for b in batches:
        if sum(1 for x in b if x.startswith("stopseen ")) < 2:
            out.append(tuple(b))
            continue
        per = {}
        for x in b:
            w = x.split()
            if w[0] in ("start", "stopseen", "dtor", "reqstop") and len(w) > 1:
                per.setdefault(w[1], []).append(w[0])
        out.append((tuple(sorted(b)), tuple(sorted((k, tuple(v)) for k, v in per.items()))))
    return (tuple(out), tail)


def monitor_ctx(e, evs):
    """C11 (first half) on the implementation trace: the root of via(s, sched c) completes on context c;
    a leaf directly under on(sched c, .) is started on context c with get_scheduler = c."""
    if e[0] in ("via", "tvia", "wsav"):
        for x in evs:
            if x.startswith("root ") and not x.endswith("ctx=%d" % e[2]):
                return "C11: %s on context %d completed its receiver elsewhere: %s" % (e[0], e[2], x)
    def walk(t):
        if t[0] == "on" and t[3][0] in ("leaf", "leafn"):
            for x in evs:
                if x.startswith("start %d " % t[3][1]) and not x.endswith("sch=%d ctx=%d" % (t[2], t[2])):
                    return "C11: on(sched %d, leaf %d) started the leaf as: %s" % (t[2], t[3][1], x)
        for s in subexprs(t):
            r = walk(s)
            if r: return r
        return ""
    return walk(e)


BOUND_DEAD = "C02: bound value destroyed before the successor operation that refers to it"


def monitor(trace, e=None):
    """the properties themselves on an implementation trace.
    C01 at most one root completion; C04 no live registration on the root token at completion;
    C02 (lifetimes): every started leaf operation state is destroyed at most once, exactly once when the
    root operation was destroyed, never before that leaf completed, no event of a leaf after its
    destruction; nothing but destruction after the root completed."""
    body, _, tail = trace.partition(" # ")
    evs = [x for x in body.split(";") if x and x != "|"]
    for x in evs:
        if x.startswith("dtor_watch_dead ") or x.startswith("start_watch_dead "):
            return BOUND_DEAD + " (leaf %s, %s)" % (x.split()[1], "destructor" if x.startswith("dtor") else "start")
    roots = [x for x in evs if x.startswith("root ") ]
    if len(roots) > 1:
        return "C01: %d root completions" % len(roots)
    for r in roots:
        m = re.search(r"regs=(-?\d+)", r)
        if m and int(m.group(1)) != 0:
            return "C04: %s live stop-callback registration(s) on the receiver's token at completion" % m.group(1)
    if roots:
        after = evs[evs.index(roots[0]) + 1:]
        bad = [x for x in after if not (x == "skip" or x == "root_dtor" or x.startswith("dtor ") or x.startswith("sdtor ") or x.startswith("plive ")
                                        or x.startswith("blive ") or x.startswith("free ")
                                        or x.startswith("dtor_ns ") or x.startswith("sdtor_ns "))]
        if bad:
            return "C02: activity after the root completed: %r" % bad[:3]
    # per-leaf life cycle: ctor -> start -> (stopseen)* -> fin -> dtor, or ctor -> dtor_ns when a connect() threw before
    # the operation was started; a leaf id may be connected again after its operation state was destroyed
    state = {}
    cthrown = False
    for x in evs:
        w = x.split()
        if w[0] == "cthrow":
            cthrown = True
        if w[0] in ("ctor", "start", "stopseen", "fin", "dtor", "dtor_early", "dtor_ns", "dtor_dead") and len(w) > 1:
            i = w[1]
            s = state.get(i, "none")
            if w[0] == "ctor":
                if s not in ("none", "dead"):
                    return "C02: leaf %s connected while its previous operation state is alive (%s)" % (i, s)
                state[i] = "made"
            elif w[0] == "start":
                if s != "made":
                    return "C02: leaf %s started in state %s" % (i, s)
                state[i] = "run"
            elif w[0] == "stopseen":
                if s != "run":
                    return "C02: stop callback of leaf %s ran in state %s" % (i, s)
            elif w[0] == "fin":
                if s != "run":
                    return "C02: leaf %s completed in state %s" % (i, s)
                state[i] = "fin"
            elif w[0] == "dtor":
                if s != "fin":
                    return "C02: operation state of leaf %s destroyed in state %s" % (i, s)
                state[i] = "dead"
            elif w[0] == "dtor_early":
                return "C02: operation state of leaf %s destroyed before the leaf completed" % i
            elif w[0] == "dtor_dead":
                return "C02: operation state of leaf %s destroyed a second time" % i
            elif w[0] == "dtor_ns":
                if s != "made" or not cthrown:
                    return "C02: operation state of leaf %s destroyed without having been started (state %s, %s)" % (
                        i, s, "after a throwing connect" if cthrown else "no connect threw")
                state[i] = "dead"
    made = sorted(i for i, s in state.items() if s == "made")
    if made:
        return "C02: leaf operation state(s) %s constructed, never started and never destroyed" % ",".join(made)
    if "connect_throw" in evs:
        if any(x.startswith("start ") or x.startswith("enq ") or x.startswith("root ") for x in evs):
            return "C02: activity although connect() of the whole expression threw"
        alive = sorted(i for i, s in state.items() if s != "dead")
        if alive:
            return "C02: leaf operation state(s) %s survive a throwing connect()" % ",".join(alive)
    if "root_dtor" in evs:
        alive = sorted(i for i, s in state.items() if s != "dead")
        if alive:
            return "C02: leaf operation state(s) %s not destroyed with the root operation" % ",".join(alive)
        if sum(1 for x in evs if x.startswith("enq ")) != sum(1 for x in evs if x.startswith("sdtor ")):
            return "C02: schedule() operations started and destroyed differ in number"
    for x in evs:
        if x.startswith("sdtor_early") or (x.startswith("sdtor_ns") and not cthrown):
            return "C02: schedule() operation state: " + x
        if x.startswith("free_unknown") or x.startswith("free_foreign"):
            return "C12: block returned to an allocator it did not come from: " + x
        if x.startswith("blive ") and x != "blive 0":
            return "C12: %s block(s) never returned to their allocator" % x.split()[1]
        if x.startswith("plive ") and x != "plive 0":
            return "C02: %s tracked value object(s) alive after the operation was destroyed" % x.split()[1]
    if e is not None:
        return monitor_ctx(e, evs)
    return ""


CORPUS = list(k2.CORPUS) + [
    ("letv", ("wall", ("leaf", 0), ("leaf", 1)), ("swhen", ("leaf", 2), ("leafn", 3))),
    ("lete", ("wall", ("leaf", 0), ("leafn", 1)), ("then", ("add", 1), ("var", 0))),
    ("letd", ("swhen", ("leaf", 0), ("leafn", 1)), ("leaf", 2)),
    ("dopt", ("wall", ("leafn", 0), ("leaf", 1))),
    ("fin", ("seq", ("leaf", 0), ("leaf", 1)), ("wall", ("leaf", 2), ("leafn", 3))),
    # stage 2
    ("via", 100, 1, ("leaf", 0)),
    ("tvia", 100, 2, ("wall", ("leaf", 0), ("leafn", 1))),
    ("on", 100, 3, ("leaf", 0)),
    ("on", 100, 1, ("via", 101, 2, ("swhen", ("leaf", 0), ("leafn", 1)))),
    ("wsav", 100, 1, ("letv", ("leaf", 0), ("on", 101, 2, ("leaf", 1)))),
    ("wall", ("sched", 100, 1), ("on", 101, 1, ("leafn", 0))),
    ("swhen", ("via", 100, 1, ("leaf", 0)), ("sched", 101, 1)),
    ("letv", ("sched", 100, 2), ("withsched", 3, ("leaf", 0))),
    # stage 3
    ("lvss", 0, ("wall", ("leafr", 0, 0), ("leafn", 1))),
    ("lvss", 0, ("swhen", ("leafn", 0), ("leafr", 1, 0))),
    ("lvss", 1, ("wall", ("leaf", 0), ("leafn", 1))),
    ("lvss", 0, ("unstop", ("lvss", 0, ("wall", ("leafr", 0, 0), ("wall", ("leafr", 1, 1), ("leafn", 2)))))),
    ("repeat", "b001", ("seq", ("leaf", 0), ("just", 1))),
    ("repeat", "b00", ("just", 1)),
    ("repeat", "b0", ("wall", ("leaf", 0), ("leafn", 1))),
    ("retry", 2, ("letv", ("leaf", 0), ("jerr", 21)), ("leaf", 1)),
    ("retry", 2, ("jerr", 21), ("just", 1)),
    ("retry", 1, ("wall", ("leaf", 0), ("leafn", 1)), ("then", ("add", 1), ("var", 0))),
    ("intov", ("wall", ("leaf", 0), ("stopif",))),
    ("wany", ("leaf", 0), ("leaf", 1)),
    ("wany", ("leafn", 0), ("leaf", 1)),
    ("wany", ("wall", ("leaf", 0), ("leafn", 1)), ("letv", ("leaf", 2), ("jerr", 22))),
    ("fin", ("wany", ("leafn", 0), ("leafn", 1)), ("leaf", 2)),
    ("wany", ("just", 3), ("leaf", 0)),
    ("wany", ("jerr", 23), ("wany", ("leaf", 0), ("jdone",))),
    # stage 4: a throwing value met by every kind of consumer
    ("fin", ("leaf", 0), ("leaf", 1)),
    ("fin", ("leaf", 0), ("letv", ("leaf", 1), ("jdone",))),
    ("letv", ("leaf", 0), ("then", ("add", 1), ("var", 0))),
    ("wall", ("leaf", 0), ("uerr", ("add", 1), ("leaf", 1))),
    ("swhen", ("uerr", ("add", 2), ("leaf", 0)), ("leaf", 1)),
    ("swhen", ("withq", 0, 3, ("udone", ("add", 2), ("leaf", 0))), ("leafn", 1)),
    ("intov", ("uerr", ("add", 1), ("withq", 0, 5, ("leaf", 0)))),
    ("intov", ("uerr", ("add", 1), ("leaf", 0))),
    ("intov", ("seq", ("leaf", 0), ("uerr", ("mul", 2), ("leaf", 1)))),
    ("intov", ("letd", ("leaf", 0), ("uerr", ("mul", 2), ("leaf", 1)))),
    ("lete", ("letd", ("leaf", 0), ("leaf", 1)), ("then", ("add", 1), ("var", 0))),
    ("lete", ("jerr", 21), ("udone", ("add", 3), ("leaf", 0))),
    ("lete", ("unstop", ("uerr", ("add", 1), ("leaf", 0))), ("leaf", 1)),
    ("dopt", ("leaf", 0)),
    ("mat", ("leaf", 0)),
    ("retry", 1, ("leaf", 0), ("leaf", 1)),
    ("intov", ("retry", 1, ("uerr", ("throw", 55), ("leaf", 0)), ("leaf", 1))),
    ("repeat", "b0", ("leaf", 0)),
    ("lvss", 0, ("wall", ("leafr", 0, 0), ("leafn", 1))),
    ("intov", ("lvss", 0, ("uerr", ("add", 4), ("leaf", 0)))),
    ("wany", ("leaf", 0), ("leaf", 1)),
    ("via", 100, 1, ("leaf", 0)),
    ("on", 100, 1, ("leaf", 0)),
    ("swhen", ("on", 100, 1, ("leaf", 0)), ("leaf", 1)),
    ("then", ("add", 1), ("leaf", 0)),
    ("leaf", 0),
    # stage 5: a sender whose connect() throws, wherever a child is connected late ...
    ("seq", ("leaf", 0), ("leafc", 40)),
    ("seq", ("wall", ("leaf", 0), ("leafn", 1)), ("wall", ("leaf", 2), ("leafc", 40))),
    ("letv", ("leaf", 0), ("swhen", ("leaf", 1), ("leafc", 40))),
    ("lete", ("leaf", 0), ("then", ("add", 1), ("leafc", 40))),
    ("letd", ("leafn", 0), ("leafc", 40)),
    ("fin", ("leaf", 0), ("leafc", 40)),
    ("fin", ("leaf", 0), ("wall", ("leaf", 1), ("leafc", 40))),
    ("retry", 2, ("leaf", 0), ("leafc", 40)),
    ("retry", 1, ("leaf", 0), ("seq", ("leaf", 1), ("leafc", 40))),
    ("wany", ("leaf", 0), ("leafc", 40)),
    ("wany", ("leaf", 0), ("wany", ("leaf", 1), ("leafc", 40))),
    ("wall", ("leaf", 0), ("wany", ("leafc", 40), ("leaf", 1))),
    ("defer", ("wall", ("leaf", 0), ("leafc", 40))),
    ("on", 100, 1, ("wall", ("leaf", 0), ("leafc", 40))),
    ("via", 100, 1, ("seq", ("leaf", 0), ("lvss", 0, ("leafc", 40)))),
    ("uerr", ("add", 1), ("seq", ("leaf", 0), ("repeat", "b0", ("leafc", 40)))),
    # blocks
    ("alloc", ("leaf", 0)),
    ("walloc", 1, ("wall", ("alloc", ("leaf", 0)), ("walloc", 2, ("alloc", ("alloc", ("leafn", 1)))))),
    ("seq", ("alloc", ("leaf", 0)), ("alloc", ("leafc", 40))),
    ("letv", ("leaf", 0), ("walloc", 2, ("alloc", ("wall", ("alloc", ("leaf", 1)), ("leafc", 40))))),
    ("letv", ("leaf", 0), ("alloc", ("wall", ("leafc", 40), ("alloc", ("leaf", 1))))),
    ("fin", ("alloc", ("leaf", 0)), ("swhen", ("alloc", ("leaf", 1)), ("alloc", ("leafc", 40)))),
    ("wany", ("alloc", ("leaf", 0)), ("walloc", 1, ("alloc", ("leafc", 40)))),
    ("repeat", "b0", ("alloc", ("leaf", 0))),
    ("intov", ("alloc", ("uerr", ("add", 1), ("leaf", 0)))),
    # the four branches of upon_done.hpp / upon_error.hpp (callable void or not, noexcept or not; see upon_variant)
    ("intov", ("udone", ("throw", 51), ("leaf", 0))),
    ("lete", ("udone", ("throwif", 0, 63), ("leaf", 0)), ("leaf", 1)),
    ("intov", ("uerr", ("throw", 55), ("seq", ("leaf", 0), ("leaf", 1)))),
    ("udone", ("add", 3), ("swhen", ("leaf", 0), ("leaf", 1))),
    ("fin", ("uerr", ("mul", 6), ("udone", ("mul", 7), ("leaf", 0))), ("leaf", 1)),
    ("walloc", 2, ("wall", ("alloc", ("leaf", 0)), ("alloc", ("leafc", 40)))),
    ("wall", ("alloc", ("leafc", 40)), ("alloc", ("leaf", 0))),
    ("swhen", ("alloc", ("leaf", 0)), ("walloc", 1, ("alloc", ("lvss", 0, ("leafc", 40))))),
    # ... and where it is connected by the root connect
    ("wall", ("leaf", 0), ("leafc", 40)),
    ("swhen", ("leafc", 40), ("leaf", 0)),
    ("then", ("add", 1), ("letv", ("leafc", 40), ("leaf", 0))),
    ("lvss", 0, ("wall", ("leaf", 0), ("seq", ("leafc", 40), ("leaf", 1)))),
    ("defer", ("letv", ("just", 5), ("then", ("add", 1), ("var", 0)))),
    ("letv", ("just", 7), ("defer", ("wall", ("var", 0), ("jfrom", ("add", 2))))),
]


def model_run(lines):
    drv = os.environ.get("VERIF_CALC2_DRIVER")
    if not drv:
        return vlib.model_run(lines)
    rc, out, err = vlib.sh2([drv], input="\n".join(lines) + "\n", timeout=900)
    res = out.split("\n")
    if res and res[-1] == "":
        res.pop()
    if rc != 0 or len(res) != len(lines):
        raise RuntimeError("private model driver: rc=%d, %d outputs for %d inputs %s" % (rc, len(res), len(lines), err[-300:]))
    return res


def kinds_of(e):
    return re.findall(r"\((\w+)", to_model(e))


def run_k2v2(chk, n_tus, cases_per_tu, scripts_per_case, size_range=(2, 8), cfg="plain17", tag="k2v2", corpus=None,
             gen=None, seed_salt=0):
    """Returns the statistics record; registers violations on chk."""
    rng = random.Random(chk.seed * 7919 + 23 + seed_salt)
    tus = []
    for t in range(n_tus):
        cases = []
        for c in range(cases_per_tu):
            while True:
                g = gen(rng) if gen else Gen2(rng, wsa=cfg.endswith("20"))
                e = g.expr(rng.randint(*size_range))
                if not lvss_reactive(e) and not lvalue_lete(e):   # throw_hits_noexcept shapes are allowed since the let_value successor fix in /repo
                    break
            if rng.random() < 0.25:
                e = place_leafc(rng, e)
                if rng.random() < 0.3:
                    e = place_leafc(rng, e, 41)
            cases.append(e)
        tus.append(cases)
    corpus = CORPUS if corpus is None else corpus
    if not cfg.endswith("20"):
        corpus = [c for c in corpus if "wsav" not in to_model(c) and "stopif" not in to_model(c)]
    if corpus:
        tus = [corpus[i:i + cases_per_tu] for i in range(0, len(corpus), cases_per_tu)] + tus
    cd = vlib.cache_dir()
    gen_dir = os.path.join(cd, "k2src")
    os.makedirs(gen_dir, exist_ok=True)
    extra = "" if HDR_DIR == vlib.HARNESS else "-I%s" % HDR_DIR
    jobs = []
    for cases in tus:
        src = emit_tu(cases)
        h = hashlib.sha256(src.encode()).hexdigest()[:12]
        p = os.path.join(gen_dir, "%s_%s.cpp" % (tag, h))
        if not os.path.exists(p):
            open(p, "w").write(src)
        jobs.append(("%s_%s" % (tag, h), cfg, p, extra, True))
    built = vlib.build_many(jobs)
    stats = chk.cov.setdefault("k2v2", {"programs": 0, "scripts": 0, "kinds": {}, "roots_completed": 0,
                                        "compile_failures": 0, "disagreements": 0, "dtor_events": 0,
                                        "callback_order_only": 0, "sched_runs": 0, "ctx_nonzero_events": 0,
                                        "throwing_values": 0, "throws_observed": 0,
                                        "connect_throws": 0, "root_connect_throws": 0, "allocations": 0})
    for (name, cfgn, p, _, _), cases in zip(jobs, tus):
        exe, err = built[(name, cfgn)]
        if err:
            stats["compile_failures"] += 1
            rp = chk.replay_file("k2v2_build_" + name, {"kind": "build-failure", "tu": p, "error": err[-3000:],
                                                         "cases": [to_model(c) for c in cases]})
            chk.violation("k2v2/build", rp, no_input=True,
                          text="generated TU does not compile against /repo: " + err[-300:].replace("\n", " "))
            continue
        ilines, mlines, meta = [], [], []
        for i, e in enumerate(cases):
            stats["programs"] += 1
            for k in kinds_of(e):
                stats["kinds"][k] = stats["kinds"].get(k, 0) + 1
            for pre, sc in gen_scripts(rng, e, scripts_per_case):
                ilines.append("%d %d | %s" % (i, pre, sc))
                mlines.append("calc2 %d %s | %s" % (pre, to_model(e), sc))
                meta.append((e, pre, sc))
        iout = vlib.run_impl_lines(exe, ilines, chunk=400, timeout=60)   # a spinning case must not stall the check
        mout = model_run(mlines)
        for (e, pre, sc), io, mo, il in zip(meta, iout, mout, ilines):
            stats["scripts"] += 1
            nontriv = ("S" in sc.split() or pre) and len(leaves(e)) >= 1 or "error" in io or "done" in io
            chk.count((to_model(e), pre, sc), nontriv)
            if "root " in io:
                stats["roots_completed"] += 1
            stats["dtor_events"] += io.count("dtor ")
            stats["sched_runs"] += io.count("sdtor ")
            stats["throwing_values"] += len(re.findall(r":t\d", sc))
            stats["throws_observed"] += io.count("error 77")
            stats["connect_throws"] += io.count("cthrow ")
            stats["allocations"] += io.count("alloc ")
            stats["root_connect_throws"] += io.count("connect_throw")
            stats["ctx_nonzero_events"] += len(re.findall(r"ctx=[1-9]", io))
            mon = monitor(io, e) if not io.startswith("CRASH") else "crash: " + io[:200]
            ci, cm = (canon(io), canon(mo)) if not io.startswith("CRASH") else (io, mo)
            if ci != cm and not mon and not io.startswith("CRASH") and canon_weak(io) == canon_weak(mo):
                stats["callback_order_only"] += 1      # same run up to the callback order of one stop source
                cm = ci
            if ci == cm and not mon:
                chk.cov["traces_validated_against_impl"] += 1
                if nontriv:
                    chk.sample({"expr": to_model(e), "prestop": pre, "script": sc, "trace": io[:300]}, limit=8)
                continue
            chk.cov["disagreements_checked"] += 1
            stats["disagreements"] += 1
            rec = {"kind": "k2v2", "expr": to_model(e), "cpp": to_cpp(e), "prestop": pre, "script": sc, "impl": io, "model": mo,
                   "monitor": mon, "obligation": "K2 correspondence Calc2.exec vs the real algorithms",
                   "replay": "echo '%s' | %s" % (il, exe)}
            rp = chk.replay_file("k2v2_%s" % hashlib.sha256((to_model(e) + sc).encode()).hexdigest()[:10], rec)
            kinds = "+".join(sorted(set(kinds_of(e)) - {"leaf", "leafn", "just", "jerr", "jdone", "var"} - set(FNS)))
            if mon.startswith(BOUND_DEAD):
                chk.violation("k2v2/monitor/C02/bound-value-dead", rp, text="%s | %s | %s" % (to_model(e), sc, mon))
            elif mon:
                chk.violation("k2v2/monitor/%s/%s" % (mon.split(":")[0], kinds), rp, text="%s | %s | %s" % (to_model(e), sc, mon))
            else:
                chk.violation("k2v2/corr/%s" % kinds, rp, no_input=True,
                              text="%s | pre=%d %s | impl=%s | model=%s" % (to_model(e), pre, sc, ci[:300], cm[:300]))
    return stats


LVSS_KEY = "k2v2/lvss/stop-source-destroyed-in-request_stop"


def lvss_probe(chk):
    """One deterministic probe for the known finding that the generator steers around (lvss_reactive): harness/k3_lvss_probe.cpp
    (let_value_with_stop_source in a heap block under finally, child completing from its stop callback) built with ASan.
    heap-use-after-free in inplace_stop_source::lock / request_stop  =>  violation LVSS_KEY; any other failure of the probe
    gets another key; a clean run (the defect is fixed) reports nothing."""
    exe, err = vlib.build_driver("k3_lvss_probe", "asan17")
    st = chk.cov.setdefault("k2v2_lvss_probe", {})
    if err:
        st["result"] = "build-failure"
        rp = chk.replay_file("k2v2_lvss_probe", {"kind": "build-failure", "error": err[-3000:]})
        chk.violation("k2v2/lvss/probe-build", rp, no_input=True, text="harness/k3_lvss_probe.cpp does not build: " + err[-300:].replace("\n", " "))
        return
    rc, out, errtxt = vlib.sh2([exe], timeout=120, env={"ASAN_OPTIONS": "detect_leaks=0"})
    txt = out + errtxt
    rec = {"kind": "k2v2-lvss-probe", "replay": exe, "rc": rc, "output": txt[-4000:],
           "source": "harness/k3_lvss_probe.cpp", "obligation": "C02/C03: an operation does not touch its state after completing"}
    if rc == 0 and "completed: done" in out and "AddressSanitizer" not in txt:
        st["result"] = "clean"
        return
    rp = chk.replay_file("k2v2_lvss_probe", rec)
    if "heap-use-after-free" in txt and "inplace_stop_source" in txt:
        st["result"] = "use-after-free in inplace_stop_source"
        chk.violation(LVSS_KEY, rp, text="let_value_with_stop_source: its stop source is destroyed while its own request_stop() runs "
                      "(heap-use-after-free in inplace_stop_source::lock); replay: " + exe)
    else:
        st["result"] = "other failure rc=%d" % rc
        chk.violation("k2v2/lvss/probe-other", rp, no_input=True, text="lvss probe failed differently: rc=%d %s" % (rc, txt[-300:].replace("\n", " ")))


def quick_corpus():
    """two translation units of hand-picked cases touching every stage (the whole CORPUS runs in the thorough tier)"""
    want = ["(swhen (leafn 0) (leafn 1))", "(letv (wall", "(dopt (wall", "(fin (seq", "(tvia 100 2", "(on 100 1 (via", "(wall (sched",
            "(letv (sched", "(lvss 0 (wall (leafr", "(lvss 0 (unstop", "(repeat b001", "(retry 2 (letv", "(retry 1 (wall", "(defer (letv",
            "(wany (wall", "(fin (wany",
            "(fin (leaf 0) (leaf 1))", "(lete (unstop", "(intov (uerr (add 1) (withq", "(swhen (uerr", "(wall (leaf 0) (uerr",
            "(letv (leaf 0) (then", "(intov (retry", "(dopt (leaf 0))",
            "(seq (wall (leaf 0) (leafn 1)) (wall (leaf 2) (leafc", "(fin (leaf 0) (wall (leaf 1) (leafc", "(wany (leaf 0) (leafc",
            "(intov (udone (throw 51)", "(lete (udone (throwif 0 63)", "(intov (uerr (throw 55) (seq", "(udone (add 3)",
            "(retry 1 (leaf 0) (seq", "(letv (leaf 0) (walloc 2", "(wall (alloc (leafc", "(walloc 1 (wall (alloc", "(fin (alloc"]
    out = []
    for w in want:
        out += [c for c in CORPUS if to_raw(c).startswith(w)][:1]
    return out


def standard_k2v2(chk):
    quick = chk.tier == "quick"
    if chk.pid == "C04" or os.environ.get("VERIF_LVSS_PROBE"):     # the known finding is reported by one property only
        lvss_probe(chk)
    c20 = [c for c in CORPUS if "wsav" in to_model(c) or "stopif" in to_model(c)]
    run_k2v2(chk, n_tus=5 if quick else 40, cases_per_tu=8, scripts_per_case=24 if quick else 60,
             corpus=quick_corpus() if quick else None)
    # C++20 build: the same plus with_scheduler_affinity and stop_if_requested (their headers need coroutine support)
    return run_k2v2(chk, n_tus=1 if quick else 6, cases_per_tu=8, scripts_per_case=24 if quick else 60, cfg="plain20",
                    corpus=(c20[:3] if quick else c20 + [CORPUS[0]]), seed_salt=1000)
