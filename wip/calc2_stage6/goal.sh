#!/bin/bash
# usage: goal.sh Calc/File.v LINE [extra tactic text] -- show the goals after line LINE (file truncated there)
cd /tmp/c2s6/coq
f=$1; n=$2; extra=$3
tmp=$(dirname $f)/Tmp_goal_$$.v
head -n $n $f > $tmp
echo "$extra" >> $tmp
echo "Show." >> $tmp
timeout ${CQ_TIMEOUT:-1800} coqc -Q . V $tmp 2>&1 | grep -v "^WARNING conda" | tail -${GOAL_LINES:-60} | cut -c1-400
rm -f $tmp $(dirname $f)/Tmp_goal_$$.* $(dirname $f)/.Tmp_goal_$$.aux
