import sys
sys.path.insert(0, "/tmp/c2s6")
from pat import find_patterns, branches
for f in sys.argv[1:]:
    s = open(f).read()
    out, last, n = [], 0, 0
    spans = [(a, b) for a, b in find_patterns(s)]
    # also nested patterns: find every '[' ... ']' group inside as-patterns with 5 branches starting with '|'
    # simple approach: scan all bracket groups in the file that follow ' as ' or are nested in such
    def groups(a, b):
        res = []
        depth, st = 0, []
        for i in range(a, b):
            if s[i] == '[': st.append(i)
            elif s[i] == ']':
                j = st.pop(); res.append((j, i + 1))
        return res
    todo = set()
    for a, b in spans:
        for g in groups(a, b):
            p = s[g[0]:g[1]]
            br = branches(p)
            if len(br) == 5 and br[0].strip() == "":
                todo.add(g)
    for a, b in sorted(todo, key=lambda g: -g[1]):
        s = s[:b - 1] + "|? ? ?" + s[b - 1:]
        n += 1
    open(f, "w").write(s)
    print(f, n)
