#!/bin/bash
# private model driver: extraction of the private coq tree + h_calc2 only
set -e
cd /tmp/c2s6/coq && timeout 900 coqc -Q . V Calc/Calc2Defs.v && timeout 900 coqc -Q . V Extract.v > /dev/null
cd /tmp/c2s6/ocaml && mkdir -p _build && cp model.ml model.mli conv.ml registry.ml lockstep.ml handlers/h_calc2.ml driver.ml _build/
cd _build && timeout 900 ocamlfind ocamlopt -O2 -w -a -o driver model.mli model.ml conv.ml registry.ml lockstep.ml h_calc2.ml driver.ml 2>&1 | grep -v "options -O2" | tail -5
ls -la /tmp/c2s6/ocaml/_build/driver
