#!/usr/bin/env python3
"""private dev runner: python3 /tmp/c2s6/run.py [quick|thorough|corpus] ; uses the private k2v2.py, header and model driver"""
import os, sys, time
os.environ.setdefault("VERIF_CALC2_DRIVER", "/tmp/c2s6/ocaml/_build/driver")
os.environ.setdefault("VERIF_K2V2_HDR", "/tmp/c2s6/hdr")
os.environ["VERIF_DEV_SKIP_PROOF"] = "1"
sys.path.insert(0, "/verif/tools"); sys.path.insert(0, "/tmp/c2s6/tools")
os.chdir("/verif")
import vlib, k2v2
assert k2v2.__file__.startswith("/tmp/c2s6"), k2v2.__file__
mode = sys.argv[1] if len(sys.argv) > 1 else "quick"
chk = vlib.Check("C02", "thorough" if mode == "thorough" else "quick")
t0 = time.time()
if mode == "corpus":
    k2v2.run_k2v2(chk, n_tus=0, cases_per_tu=8, scripts_per_case=40)
else:
    k2v2.standard_k2v2(chk)
print("seconds", round(time.time() - t0, 1))
print({k: v for k, v in chk.cov.get("k2v2", {}).items() if k != "kinds"})
print("violations", len(chk.violations))
import json
for v in chk.violations[:12]:
    key, rp = v[0], v[1]
    try:
        d = json.load(open(rp))
        print("V", key, "|", d.get("expr"), "|", d.get("script"), "| mon:", d.get("monitor"))
        print("   impl :", d.get("impl", "")[:700])
        print("   model:", d.get("model", "")[:700])
    except Exception as ex:
        print("V", key, rp, ex)
