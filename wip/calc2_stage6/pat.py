import re, sys
def find_patterns(s):
    """yield (start, end) of top-level bracket patterns following ' as '"""
    i = 0
    while True:
        j = s.find(" as [", i)
        if j < 0: return
        k = j + 4
        depth = 0
        m = k
        while m < len(s):
            if s[m] == '[': depth += 1
            elif s[m] == ']':
                depth -= 1
                if depth == 0: break
            m += 1
        yield (k, m + 1)
        i = k + 1   # also look inside (nested patterns are handled by recursion below)
def branches(p):
    # p includes outer brackets
    inner = p[1:-1]
    out, depth, cur = [], 0, ""
    for c in inner:
        if c == '[' or c == '(': depth += 1
        if c == ']' or c == ')': depth -= 1
        if c == '|' and depth == 0:
            out.append(cur); cur = ""
        else: cur += c
    out.append(cur)
    return out
if __name__ == "__main__":
    import collections
    cnt = collections.Counter()
    for f in sys.argv[1:]:
        s = open(f).read()
        for a, b in find_patterns(s):
            p = s[a:b]
            if len(branches(p)) == 5:
                cnt[p] += 1
    for p, n in cnt.most_common():
        print(n, p)
