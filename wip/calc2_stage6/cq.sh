#!/bin/bash
# usage: cq.sh Calc/File.v  -- compile in the private tree, print first error + source context
cd /tmp/c2s6/coq
out=$(timeout ${CQ_TIMEOUT:-1800} coqc -Q . V "$1" 2>&1 | grep -v "^WARNING conda" | tail -25)
echo "$out" | cut -c1-600
ln=$(echo "$out" | grep -o 'line [0-9]*' | head -1 | grep -o '[0-9]*')
if [ -n "$ln" ]; then echo "---- source around line $ln"; sed -n "$((ln-${CQ_CTX:-6})),$((ln+3))p" "$1" | cut -c1-260; fi
