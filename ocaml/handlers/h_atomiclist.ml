open Model
open Conv
open AtomicList
(* atomiclist <nn> <prog> <prog> ... | tid tid ...
   prog: string over B<d> F<d> P Q R<d> D U L E (K ignored), "-" = empty.
   Events are printed exactly as the driver k1_atomic_list.cpp names the real accesses.  The driver
   overwrites a node's storage (0xDD) once it has been handed back and no try_remove of it is
   pending in any program; values read from / compared with such storage are printed FREED by
   both sides (the unit's projection masks them the same way). *)
let n2s n = string_of_int (int_of_nat n)
let parse_prog (s : string) : op list =
  let n = String.length s in
  let d i = nat_of_int (Char.code s.[i] - 48) in
  let rec go i acc =
    if i >= n then List.rev acc else
      match s.[i] with
      | 'B' -> go (i + 2) (OPushBack (d (i + 1)) :: acc)
      | 'F' -> go (i + 2) (OPushFront (d (i + 1)) :: acc)
      | 'R' -> go (i + 2) (ORemove (d (i + 1)) :: acc)
      | 'P' -> go (i + 1) (OPop false :: acc)
      | 'Q' -> go (i + 1) (OPop true :: acc)
      | 'D' -> go (i + 1) (OLatchDrain :: acc)
      | 'U' -> go (i + 1) (OUnlatch :: acc)
      | 'L' -> go (i + 1) (OIsLatched :: acc)
      | 'E' -> go (i + 1) (OEmpty :: acc)
      | _ -> go (i + 1) acc in
  go 0 []
let lname = function LHead l -> "h" ^ n2s l | LRest n -> "n" ^ n2s n ^ ".rest"
let laddr = function None -> "0" | Some k -> "&" ^ lname k
let pname = function PNull -> "0" | PNode n -> "n" ^ n2s n | PSent l -> "S" ^ n2s l | PLatch l -> "X" ^ n2s l
let tagged p lk = if not lk then pname p else (match p with PNull -> "1" | _ -> pname p ^ "|1")
let oname = function PNode n -> "n" ^ n2s n | PSent l -> "s" ^ n2s l | PLatch l -> "x" ^ n2s l | PNull -> "null"
let sres = function RUnit -> "u" | RNone -> "none" | RNode n -> "n" ^ n2s n | RBool b -> if b then "1" else "0"
(* node whose storage the event accesses *)
let accessed = function
  | EAcq (LRest n, _) | ERel (LRest n, _) | EStLink (LRest n, _) | ELdLink (LRest n, _, _) | ECas (LRest n, _, _, _, _) -> Some n
  | ELdSelf (PNode n, _) | EStSelf (PNode n, _) -> Some n
  | _ -> None
let render dead e =
  let m = match accessed e with Some n when dead n -> true | _ -> false in
  let v s = if m then "FREED" else s in
  match e with
  | EAcq (k, p) -> Printf.sprintf "%s C.acq %s" (lname k) (v (Printf.sprintf "%s->%s ok" (pname p) (tagged p true)))
  | ERel (k, p) -> Printf.sprintf "%s S.rel %s" (lname k) (v (pname p))
  | ELdSelf (x, l) -> Printf.sprintf "%s.self L.acq %s" (oname x) (v (laddr l))
  | EStSelf (x, l) -> Printf.sprintf "%s.self S.%s %s" (oname x) (if l = None then "rlx" else "rel") (v (laddr l))
  | EStLink (k, p) -> Printf.sprintf "%s S.rlx %s" (lname k) (v (pname p))
  | ELdLink (k, p, lk) -> Printf.sprintf "%s L.rlx %s" (lname k) (v (tagged p lk))
  | ECas (k, p, ok, seen, slk) ->
    if ok then Printf.sprintf "%s C.rlx %s" (lname k) (v (Printf.sprintf "%s->%s ok" (pname p) (tagged p true)))
    else Printf.sprintf "%s C.rlx %s" (lname k) (v (Printf.sprintf "%s->%s fail" (tagged seen slk) (tagged p true)))
  | ERet r -> "ret " ^ sres r
  | ESkip -> "skip"
  | ECrash -> "crash"
let rec split_bar acc = function
  | "|" :: r -> (List.rev acc, r)
  | x :: r -> split_bar (x :: acc) r
  | [] -> (List.rev acc, [])
(* a try_remove of node n is still to come or running in some thread *)
let pending_remove (s : st) (n : nat) : bool =
  List.exists (fun th ->
      List.exists (fun o -> o = ORemove n) th.prog ||
      (match th.tpc with
       | PR0 a | PR1 (a, _, _) | PR1u (a, _, _, _) | PR2 (a, _) | PR3 (a, _, _) | PR4 (a, _, _) | PR5 (a, _, _) | PR6 a -> a = n
       | PT0 (KRem a, _) | PT1 (KRem a, _) | PT2 (KRem a, _) | PT3 (KRem a, _, _) | PT4 (KRem a, _, _) -> a = n
       | _ -> false)) s.thr
let () =
  Registry.register "atomiclist" (fun args ->
    match args with
    | nn :: rest ->
      let (progs, tids) = split_bar [] rest in
      let init = AtomicList.init (nat_of_int (int_of_string nn)) (List.map parse_prog progs) in
      let arr = Array.of_list (ints_of_words tids) in
      let n = Array.length arr in
      let buf = Buffer.create 256 in
      let add t s = if Buffer.length buf > 0 then Buffer.add_char buf ';';
        Buffer.add_string buf (Printf.sprintf "t%d %s" t s) in
      let rec go i st =
        if i >= n then st else
          let t = arr.(i) in
          match AtomicList.step (nat_of_int t) st with
          | None -> add t "DISABLED"; st
          | Some (st', evs) ->
            let dead x = let r = List.nth_opt st.nodes (int_of_nat x) in
              (match r with Some r -> r.n_freed && not (pending_remove st x) | None -> false) in
            List.iter (fun e -> add t (render dead e)) evs;
            go (i + List.length evs) st' in
      let st = go 0 init in
      let b01 b = if b then "1" else "0" in
      let nl = List.length st.lists in
      let chains = String.concat "" (List.init nl (fun l ->
          let r = List.nth st.lists l in
          "[" ^ (if r.l_head = PLatch (nat_of_int l) then "X" else
                   String.concat "" (List.map n2s (AtomicList.chain_of st (nat_of_int l)))) ^ "]")) in
      let absl = String.concat "" (List.init nl (fun l ->
          let r = List.nth st.lists l in
          "[" ^ (if r.l_alatch then "X" else "") ^ String.concat "" (List.map n2s r.l_abs) ^ "]")) in
      Printf.sprintf "%s # chains=%s abs=%s uaf=%s crash=%s linbad=%s embad=%s quiescent=%s" (Buffer.contents buf)
        chains absl (b01 st.uaf) (b01 st.crash) (b01 st.linbad) (b01 st.embad) (b01 (AtomicList.quiescent st))
    | _ -> "ERR args")
