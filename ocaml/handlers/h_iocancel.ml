open Model
open Conv
open IoCancel
(* iocancel <as_written|fixed> <r|w> <L|R> <pre 0|1> <nstop> <ready0 0|1> <fail errno|-> <pollable 0|1> | tid tid ...
   events are rendered exactly as tools/units/io.py (class EpollIoCancel) projects the implementation trace *)
let ename e = match e with
  | 0 -> "0" | 1 -> "EPERM" | 2 -> "ENOENT" | 11 -> "EAGAIN" | 14 -> "EFAULT" | 17 -> "EEXIST" | 21 -> "EISDIR"
  | 9 -> "EBADF" | 22 -> "EINVAL" | 32 -> "EPIPE" | n -> Printf.sprintf "E%d" n
let str_q = function QComp -> "COMP" | QDone -> "DONE"
(* the model only distinguishes EAGAIN / EPERM / any other errno; the other one of a run is the
   errno given as the `fail` argument *)
let other = ref "EOTHER"
let kname = function KAgain -> "EAGAIN" | KPerm -> "EPERM" | KOther -> !other
let kind_of_errno n = if n = 11 then KAgain else if n = 1 then KPerm else KOther
let str_res = function RValue -> "value" | RError e -> "error " ^ kname e | RDone -> "done"
let render = function
  | ESys SOk -> "!io ok"
  | ESys (SFail e) -> "!io -1 " ^ kname e
  | EState (io_add, oi, oc) ->
    let o = int_of_nat oi * 65536 + int_of_nat oc in
    Printf.sprintf "op.state A.acq_rel %d->%d" o (o + (if io_add then 65536 else 1))
  | ECenqAdd o -> let o = int_of_nat o in Printf.sprintf "op.cenq A.sc %d->%d" o (o + 1)
  | ECenqSub o -> let o = int_of_nat o in Printf.sprintf "op.cenq U.sc %d->%d" o (o - 1)
  | ECenqLoad v -> Printf.sprintf "op.cenq L.sc %d" (int_of_nat v)
  | EDenqAdd o -> let o = int_of_nat o in Printf.sprintf "op.denq A.sc %d->%d" o (o + 1)
  | EDenqSub o -> let o = int_of_nat o in Printf.sprintf "op.denq U.sc %d->%d" o (o - 1)
  | ESrcReg ok -> if ok then "src REG" else "src REG-INLINE"
  | ESrcSet won -> if won then "src SET" else "src SET-LATE"
  | ESrcUnreg -> "src UNREG"
  | ECbStore -> "op.cbdone S.rel 1"
  | ECbLoad -> "op.cbdone L.acq 1"
  | EAdd e -> "!ADD " ^ ename (int_of_nat e)
  | EDel e -> "!DEL " ^ ename (int_of_nat e)
  | EDeliver -> "!deliver"
  | EStale -> "!STALE"
  | ERqEnq it -> "rq ENQ " ^ str_q it
  | ERqDeq it -> "rq DEQ " ^ str_q it
  | EPeer -> "!peer"
  | EComplete r -> "!complete " ^ str_res r
  | ECrash -> "!CRASH"
let b01 b = if b then "1" else "0"
let () =
  Registry.register "iocancel" (fun args ->
    match args with
    | variant :: kind :: start :: pre :: nstop :: ready0 :: fail :: pollable :: "|" :: tids ->
      let p = { fixed = (variant = "fixed"); is_write = (kind = "w"); remote = (start = "R"); pre = (pre = "1");
                ready0 = (ready0 = "1");
                fail = (if fail = "-" then None else (other := ename (int_of_string fail); Some (kind_of_errno (int_of_string fail))));
                pollable = (pollable = "1") } in
      let step t s = IoCancel.step (nat_of_int t) s in
      let (cfg, tr) = Lockstep.run step render (IoCancel.init p (nat_of_int (int_of_string nstop))) (ints_of_words tids) in
      let st = cfg.co in
      Printf.sprintf "%s # completed=%s uaf=%s stale=%s crashed=%s reg=%s ready=%s xfer=%d errs=%s stopped=%s parked_ok=%s queued=%d"
        tr (str_list (fun r -> String.concat ":" (String.split_on_char ' ' (str_res r))) (List.rev st.completed)) (b01 st.uaf) (b01 st.stale) (b01 (IoCancel.crashed st))
        (b01 st.reg) (b01 st.ready) (int_of_nat st.xfer) (str_list kname (List.rev st.errs))
        (b01 st.stopped) (b01 (IoCancel.parked_ok st))
        (List.length st.batch + List.length st.localq + List.length st.remoteq)
    | _ -> "ERR args")
