(* C18 part A: AnyBox (coq/Proto/AnyBoxDefs.v) against harness/k3_anybox.cpp.
   input : anybox <uniq|obj> <isz> <ial> <req> <nvars> | <sz:al:nt> ... | <op> <op> ...
   output: per valid op "ev;...;ret X" joined by " / ", then the end-of-run destruction, then
           " # live=<n> blocks=<n> bad=0"   (the driver's format)
   anybox_clean: same input, prints the sub-list of operation tokens whose precondition holds
   (step <> None) when run in order -- used by the generator to make random sequences well-formed. *)
open Model
open Conv

let split_bars args =
  let rec go cur acc = function
    | [] -> List.rev (List.rev cur :: acc)
    | "|" :: r -> go [] (List.rev cur :: acc) r
    | x :: r -> go (x :: cur) acc r in
  go [] [] args

let n = nat_of_int
let i = int_of_nat

let render_res = function
  | AnyBox.ROk -> "ok"
  | AnyBox.RVal p -> string_of_int (i p)
  | AnyBox.RMf -> "mf"
  | AnyBox.RBoom k -> "threw boom " ^ string_of_int (i k)
  | AnyBox.ROom -> "threw oom"
  | AnyBox.RPerr p -> "threw perr " ^ string_of_int (i p)
  | AnyBox.RRef (p, same) ->
    (match p with Some p -> string_of_int (i p) | None -> "mf") ^ (if same then " eq" else " ne")
  | AnyBox.REnd -> "end"

let render = function
  | AnyBox.Ctor k -> Printf.sprintf "ctor %d" (i k)
  | AnyBox.Move (a, b) -> Printf.sprintf "move %d<-%d" (i a) (i b)
  | AnyBox.Copy (a, b) -> Printf.sprintf "copy %d<-%d" (i a) (i b)
  | AnyBox.MThrow k -> Printf.sprintf "mthrow %d" (i k)
  | AnyBox.AThrow k -> Printf.sprintf "athrow %d" (i k)
  | AnyBox.Dtor k -> Printf.sprintf "dtor %d" (i k)
  | AnyBox.Alloc (b, k) -> Printf.sprintf "alloc %d %d" (i b) (i k)
  | AnyBox.Dealloc (b, k) -> Printf.sprintf "dealloc %d %d" (i b) (i k)
  | AnyBox.Ret r -> "ret " ^ render_res r

let parse_cfg = function
  | [k; isz; ial; req; nv] ->
    ({ AnyBox.ckind = (if k = "uniq" then AnyBox.KUniq else AnyBox.KObj);
       AnyBox.isz = n (int_of_string isz); AnyBox.ial = n (int_of_string ial);
       AnyBox.req = (req = "1") }, int_of_string nv)
  | _ -> failwith "cfg"

let parse_cls tok =
  match String.split_on_char ':' tok with
  | [s; a; t] -> { AnyBox.sz = n (int_of_string s); AnyBox.al = n (int_of_string a); AnyBox.nt = (t = "1") }
  | _ -> failwith "class"

let parse_op classes tok =
  let cls c = List.nth classes (int_of_string c) in
  let num x = n (int_of_string x) in
  match String.split_on_char ':' tok with
  | ["N"; v; c; p; m; a] ->
    let inpl = (m = "I" || m = "J") and hdr = (m = "J" || m = "D") in
    AnyBox.ONew (num v, cls c, num p, inpl, hdr, num a)
  | ["MC"; v; w; a] -> AnyBox.OMoveC (num v, num w, num a)
  | ["MA"; v; w; a] -> AnyBox.OMoveA (num v, num w, num a)
  | ["AV"; v; c; p; a] -> AnyBox.OAssignV (num v, cls c, num p, num a)
  | ["SW"; v; w; a] -> AnyBox.OSwap (num v, num w, num a)
  | ["IV"; v] -> AnyBox.OInv (num v)
  | ["PK"; v; d; t] -> AnyBox.OPoke (num v, num d, t = "1")
  | ["RF"; v; w] -> AnyBox.ORef (num v, num w)
  | ["DL"; v] -> AnyBox.ODel (num v)
  | _ -> failwith ("op " ^ tok)

let evs_str evs = String.concat ";" (List.map render evs)

let go args =
  match split_bars args with
  | [c; cl; ops] ->
    let (cfg, nv) = parse_cfg c in
    let classes = List.map parse_cls cl in
    (cfg, nv, classes, ops)
  | [c; cl] -> let (cfg, nv) = parse_cfg c in (cfg, nv, List.map parse_cls cl, [])
  | _ -> failwith "args"

let count_live vars =
  List.fold_left (fun (o, b) x -> match x with
      | Some (AnyBox.Inline _) -> (o + 1, b)
      | Some (AnyBox.Heap (_, _, _)) -> (o + 1, b + 1)
      | _ -> (o, b)) (0, 0) vars

let () =
  Registry.register "anybox" (fun args ->
      let (cfg, nv, classes, ops) = go args in
      let buf = Buffer.create 256 in
      let st = List.fold_left (fun st tok ->
          match AnyBox.step cfg st (parse_op classes tok) with
          | Some (st', evs) -> Buffer.add_string buf (evs_str evs ^ " / "); st'
          | None -> Buffer.add_string buf ("INVALID " ^ tok ^ " / "); st)
          (AnyBox.init (n nv)) ops in
      let (st', evs) = AnyBox.finish st in
      let (lo, lb) = count_live st'.AnyBox.vars in
      Buffer.add_string buf (evs_str evs);
      Buffer.contents buf ^ Printf.sprintf " # live=%d blocks=%d bad=0" lo lb);
  Registry.register "anybox_clean" (fun args ->
      let (cfg, nv, classes, ops) = go args in
      let (_, keep) = List.fold_left (fun (st, keep) tok ->
          match AnyBox.step cfg st (parse_op classes tok) with
          | Some (st', _) -> (st', tok :: keep)
          | None -> (st, keep)) (AnyBox.init (n nv), []) ops in
      String.concat " " (List.rev keep))
