(* K1 handler for Proto/StopSourceDefs.v.
   input:  stopsource <threads> <bodies> | tid tid ...
     threads: thread programs separated by '/', instructions by ',':  R<c> D<c> S Q W<c>   ('-' = empty)
     bodies : '-' or  <c>=<instrs>/<c>=<instrs>   (callback bodies, same instruction syntax)
   output: <model trace> # fin=<per thread 0/1> stop=<0/1> locked=<0/1> list=<ids> cbs=<c:cst.xst.dst.completed,...> *)
open Model
open Conv
module SS = StopSource

let parse_instr w =
  let n () = nat_of_int (int_of_string (String.sub w 1 (String.length w - 1))) in
  match w.[0] with
  | 'R' -> SS.IReg (n ())
  | 'D' -> SS.IDereg (n ())
  | 'S' -> SS.IReqStop
  | 'Q' -> SS.IStopReq
  | 'W' -> SS.IWait (n ())
  | _ -> failwith ("bad instruction " ^ w)
let parse_prog s =
  if s = "-" || s = "" then []
  else List.map parse_instr (List.filter (fun w -> w <> "" && w <> "-") (String.split_on_char ',' s))
let parse_threads s = List.map parse_prog (String.split_on_char '/' s)
let parse_bodies s =
  if s = "-" then []
  else begin
    let items = List.map (fun it ->
      match String.index_opt it '=' with
      | Some i -> (int_of_string (String.sub it 0 i), parse_prog (String.sub it (i + 1) (String.length it - i - 1)))
      | None -> failwith ("bad body " ^ it)) (String.split_on_char '/' s) in
    let mx = List.fold_left (fun a (c, _) -> max a c) (-1) items in
    List.init (mx + 1) (fun c -> match List.assoc_opt c items with Some p -> p | None -> [])
  end

let b01 b = if b then "1" else "0"
let render (_, e) =
  let n = int_of_nat in
  match e with
  | SS.EAcq (ar, o, nw) -> Printf.sprintf "state ACQ.%s %d->%d" (if ar then "acq_rel" else "acq") (n o) (n nw)
  | SS.ERel v -> Printf.sprintf "state REL.rel %d" (n v)
  | SS.EObs (a, v) -> Printf.sprintf "state OBS.%s %d" (if a then "acq" else "rlx") (n v)
  | SS.EExec c -> Printf.sprintf "exec %d" (n c)
  | SS.EEnd c -> Printf.sprintf "end %d" (n c)
  | SS.EDone c -> Printf.sprintf "cb%d.done S.rel 1" (n c)
  | SS.EWait c -> Printf.sprintf "cb%d.done L.acq 1" (n c)
  | SS.EDeregBegin c -> Printf.sprintf "dereg %d" (n c)
  | SS.EDeregRet c -> Printf.sprintf "dret %d" (n c)
  | SS.ERsRet b -> Printf.sprintf "rs %s" (b01 b)
  | SS.EWaitReg c -> Printf.sprintf "waitreg %d" (n c)

let str_cst = function SS.CNew -> "new" | SS.CReg -> "reg" | SS.CLinked -> "linked" | SS.CPopped -> "popped"
  | SS.CInl -> "inl" | SS.CUnlinked -> "unlinked"
let str_xst = function SS.XNone -> "x0" | SS.XRun t -> "xrun" ^ string_of_int (int_of_nat t) | SS.XEnded -> "xend"
let str_dst = function SS.DNone -> "d0" | SS.DStarted t -> "dstart" ^ string_of_int (int_of_nat t)
  | SS.DDone t -> "ddone" ^ string_of_int (int_of_nat t)

let () =
  Registry.register "stopsource" (fun args ->
    match args with
    | ths :: bods :: "|" :: tids ->
      let progs = parse_threads ths in
      let bodies = parse_bodies bods in
      let ncb = 8 in
      let step t s = SS.step (nat_of_int t) s in
      let (st, tr) = Lockstep.run step render (SS.init progs bodies) (ints_of_words tids) in
      let nthreads = List.length progs in
      let fin = String.concat "" (List.init nthreads (fun t -> b01 (SS.finished st (nat_of_int t)))) in
      let cbs = String.concat "," (List.init ncb (fun c ->
        let (((cs, xs), ds), comp) = SS.cb_summary st (nat_of_int c) in
        Printf.sprintf "%d:%s.%s.%s.%s" c (str_cst cs) (str_xst xs) (str_dst ds) (b01 comp))) in
      Printf.sprintf "%s # fin=%s stop=%s locked=%s list=%s cbs=%s" tr fin (b01 st.SS.stop) (b01 st.SS.locked)
        (str_list (fun c -> string_of_int (int_of_nat c)) st.SS.lst) cbs
    | _ -> "ERR args")
