(* K1 handler for Proto/StopSourceDefs.v.
   input:  stopsource <threads> <bodies> | tid tid ...
     threads: thread programs separated by '/', instructions by ',':  R<c> D<c> S Q W<c>   ('-' = empty)
     bodies : '-' or  <c>=<instrs>/<c>=<instrs>   (callback bodies, same instruction syntax)
   output: <model trace> # fin=<per thread 0/1> stop=<0/1> locked=<0/1> list=<ids> cbs=<c:cst.xst.dst.completed,...> *)
open Model
open Conv
module SS = StopSource

let parse_instr w =
  let n () = nat_of_int (int_of_string (String.sub w 1 (String.length w - 1))) in
  match w.[0] with
  | 'R' -> SS.IReg (n ())
  | 'D' -> SS.IDereg (n ())
  | 'S' -> SS.IReqStop
  | 'Q' -> SS.IStopReq
  | 'W' -> SS.IWait (n ())
  | _ -> failwith ("bad instruction " ^ w)
let parse_prog s =
  if s = "-" || s = "" then []
  else List.map parse_instr (List.filter (fun w -> w <> "" && w <> "-") (String.split_on_char ',' s))
let parse_threads s = List.map parse_prog (String.split_on_char '/' s)
let parse_bodies s =
  if s = "-" then []
  else begin
    let items = List.map (fun it ->
      match String.index_opt it '=' with
      | Some i -> (int_of_string (String.sub it 0 i), parse_prog (String.sub it (i + 1) (String.length it - i - 1)))
      | None -> failwith ("bad body " ^ it)) (String.split_on_char '/' s) in
    let mx = List.fold_left (fun a (c, _) -> max a c) (-1) items in
    List.init (mx + 1) (fun c -> match List.assoc_opt c items with Some p -> p | None -> [])
  end

let b01 b = if b then "1" else "0"
let render (_, e) =
  let n = int_of_nat in
  match e with
  | SS.EAcq (ar, o, nw) -> Printf.sprintf "state ACQ.%s %d->%d" (if ar then "acq_rel" else "acq") (n o) (n nw)
  | SS.ERel v -> Printf.sprintf "state REL.rel %d" (n v)
  | SS.EObs (a, v) -> Printf.sprintf "state OBS.%s %d" (if a then "acq" else "rlx") (n v)
  | SS.EExec c -> Printf.sprintf "exec %d" (n c)
  | SS.EEnd c -> Printf.sprintf "end %d" (n c)
  | SS.EDone c -> Printf.sprintf "cb%d.done S.rel 1" (n c)
  | SS.EWait c -> Printf.sprintf "cb%d.done L.acq 1" (n c)
  | SS.EDeregBegin c -> Printf.sprintf "dereg %d" (n c)
  | SS.EDeregRet c -> Printf.sprintf "dret %d" (n c)
  | SS.ERsRet b -> Printf.sprintf "rs %s" (b01 b)
  | SS.EWaitReg c -> Printf.sprintf "waitreg %d" (n c)

let str_cst = function SS.CNew -> "new" | SS.CReg -> "reg" | SS.CLinked -> "linked" | SS.CPopped -> "popped"
  | SS.CInl -> "inl" | SS.CUnlinked -> "unlinked"
let str_xst = function SS.XNone -> "x0" | SS.XRun t -> "xrun" ^ string_of_int (int_of_nat t) | SS.XEnded -> "xend"
let str_dst = function SS.DNone -> "d0" | SS.DStarted t -> "dstart" ^ string_of_int (int_of_nat t)
  | SS.DDone t -> "ddone" ^ string_of_int (int_of_nat t)

let () =
  Registry.register "stopsource" (fun args ->
    match args with
    | ths :: bods :: "|" :: tids ->
      let progs = parse_threads ths in
      let bodies = parse_bodies bods in
      let ncb = 8 in
      let step t s = SS.step (nat_of_int t) s in
      let (st, tr) = Lockstep.run step render (SS.init progs bodies) (ints_of_words tids) in
      let nthreads = List.length progs in
      let fin = String.concat "" (List.init nthreads (fun t -> b01 (SS.finished st (nat_of_int t)))) in
      let cbs = String.concat "," (List.init ncb (fun c ->
        let (((cs, xs), ds), comp) = SS.cb_summary st (nat_of_int c) in
        Printf.sprintf "%d:%s.%s.%s.%s" c (str_cst cs) (str_xst xs) (str_dst ds) (b01 comp))) in
      Printf.sprintf "%s # fin=%s stop=%s locked=%s list=%s cbs=%s" tr fin (b01 st.SS.stop) (b01 st.SS.locked)
        (str_list (fun c -> string_of_int (int_of_nat c)) st.SS.lst) cbs
    | _ -> "ERR args")

(* ---- two-source units (fused_stop_source / inplace_stop_token_adapter) -------------------------
   Each source is compared with the same model on its own projection.
   stopsource_up: the upstream source; the forwarding callback (id >= 8) is the library's functor and
     logs nothing, so its EExec / EEnd events are hidden; a step with only hidden events is taken
     eagerly (the body of the forwarding callback has no access to the upstream source).
   stopsource_in: the inner source; request_stop calls made by the forwarding callback appear as
     placeholder instructions F in the thread programs; a leading pseudo thread id 1000+mask says
     which placeholders (in thread-major order) actually ran (bit set -> S, clear -> dropped);
     ERsRet is hidden (the forwarding functor discards the result). *)
let lockstep_hidden (visible : SS.evk -> bool) nthreads init tids : SS.st * string =
  let buf = Buffer.create 256 in
  let add t str = if Buffer.length buf > 0 then Buffer.add_char buf ';';
    Buffer.add_string buf (Printf.sprintf "t%d %s" t str) in
  let rec eager st =
    let rec try_t t =
      if t >= nthreads then None else
        match SS.step (nat_of_int t) st with
        | Some (st', evs) when List.for_all (fun (_, e) -> not (visible e)) evs -> Some st'
        | _ -> try_t (t + 1) in
    match try_t 0 with Some st' -> eager st' | None -> st in
  let arr = Array.of_list tids in
  let n = Array.length arr in
  let rec go i st =
    if i >= n then st else
      let t = arr.(i) in
      match SS.step (nat_of_int t) st with
      | None -> add t "DISABLED"; st
      | Some (st', evs) ->
        let vis = List.filter (fun (_, e) -> visible e) evs in
        if vis = [] then (add t "SILENT"; st')
        else (List.iter (fun e -> add t (render e)) vis; go (i + List.length vis) (eager st'))
  in
  let st = go 0 (eager init) in
  (st, Buffer.contents buf)

let summary nthreads st =
  let fin = String.concat "" (List.init nthreads (fun t -> b01 (SS.finished st (nat_of_int t)))) in
  Printf.sprintf "fin=%s stop=%s locked=%s" fin (b01 st.SS.stop) (b01 st.SS.locked)

let () =
  Registry.register "stopsource_up" (fun args ->
    match args with
    | ths :: bods :: "|" :: tids ->
      let progs = parse_threads ths in
      let bodies = parse_bodies bods in
      let visible = function
        | SS.EExec c | SS.EEnd c -> int_of_nat c < 8
        | _ -> true in
      let n = List.length progs in
      let (st, tr) = lockstep_hidden visible n (SS.init progs bodies) (ints_of_words tids) in
      Printf.sprintf "%s # %s" tr (summary n st)
    | _ -> "ERR args");
  Registry.register "stopsource_in" (fun args ->
    match args with
    | ths :: bods :: "|" :: tids ->
      let tids = ints_of_words tids in
      let (mask, tids, prefix) = match tids with
        | m :: rest when m >= 1000 -> (m - 1000, rest, Printf.sprintf "t%d cfg" m)
        | _ -> (0, tids, "") in
      (* resolve placeholders *)
      let k = ref 0 in
      let progs = List.map (fun th ->
        let ws = List.filter (fun w -> w <> "" && w <> "-") (String.split_on_char ',' th) in
        List.concat (List.map (fun w ->
          if w = "F" then begin
            let bit = (mask lsr !k) land 1 in incr k;
            if bit = 1 then [SS.IReqStop] else [] end
          else [parse_instr w]) ws)) (String.split_on_char '/' ths) in
      let bodies = parse_bodies bods in
      let visible = function SS.ERsRet _ -> false | _ -> true in
      let n = List.length progs in
      let (st, tr) = lockstep_hidden visible n (SS.init progs bodies) tids in
      let tr = if prefix = "" then tr else if tr = "" then prefix else prefix ^ ";" ^ tr in
      Printf.sprintf "%s # %s" tr (summary n st)
    | _ -> "ERR args")
