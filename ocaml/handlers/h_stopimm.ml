open Model
open Conv
open StopImmediately
(* stopimm <as_written|fixed9|fixed9b|fixed> <stop|nostop> | tid tid ...
   events are rendered exactly as tools/units/stream_proto.py (class StopImmediately) projects the
   implementation trace of harness/k1_stop_immediately.cpp *)
let sstate_n = function
  | SNotStarted -> 0 | SCompleted -> 1 | SActive -> 2 | SStopped -> 3 | SCleanupReq -> 4
let kind_s = function KVal -> "v" | KDone -> "d" | KErr -> "e"
let cas_order site ok = match site, ok with
  | CsCb, _ -> "rlx"
  | CsH1, _ -> "rlx"
  | CsH2, true -> "rel" | CsH2, false -> "acq"
  | CsCl, true -> "rel" | CsCl, false -> "acq"
let b01 b = if b then "1" else "0"
let render = function
  | EStL v -> Printf.sprintf "si.state L.acq %d" (sstate_n v)
  | EStS v -> Printf.sprintf "si.state S.rlx %d" (sstate_n v)
  | EStC (site, o, n, ok) ->
    Printf.sprintf "si.state C.%s %d->%d %s" (cas_order site ok) (sstate_n o) (sstate_n n) (if ok then "ok" else "fail")
  | ESrcSet -> "si.src C.acq_rel 0->3 ok"
  | ESrcEnd -> "si.src S.rel 1"
  | EExtChk v -> Printf.sprintf "ext.state L.acq %d" (int_of_nat v)
  | EExtObs locked -> Printf.sprintf "ext.state OBS %d" (if locked then 3 else 1)
  | EExtAcq (arel, o, n) ->
    Printf.sprintf "ext.state C.%s %d->%d ok" (if arel then "acq_rel" else "acq") (int_of_nat o) (int_of_nat n)
  | EExtRel v -> Printf.sprintf "ext.state S.rel %d" (int_of_nat v)
  | ECbDone -> "cb.completed S.rel 1"
  | ECbWait -> "cb.completed L.acq 1"
  | EConsNextCtor -> "!cons.next.ctor"
  | EConsNext k -> "!cons.next " ^ kind_s k
  | EConsNextDtor -> "!cons.next.dtor"
  | EConsCleanupCtor -> "!cons.cleanup.ctor"
  | EConsCleanup k -> "!cons.cleanup " ^ kind_s k
  | EConsCleanupDtor -> "!cons.cleanup.dtor"
  | EStreamDestroyed -> "!stream.destroyed"
  | EConsFinished -> "!cons.finished"
  | ESrcNextCtor -> "!src.next.ctor"
  | ESrcNextStart -> "!src.next.start"
  | ESrcNextComplete k -> "!src.next.complete " ^ kind_s k
  | ESrcNextDtor -> "!src.next.dtor"
  | ESrcCleanupCtor -> "!src.cleanup.ctor"
  | ESrcCleanupStart -> "!src.cleanup.start"
  | ESrcCleanupComplete -> "!src.cleanup.complete d"
  | ESrcCleanupDtor -> "!src.cleanup.dtor"
  | ESrcStartBad -> "!src.next.start BAD"
  | EDeadReceiver -> "!si.handle_signal dead-receiver BAD"
let () =
  Registry.register "stopimm" (fun args ->
    match args with
    | variant :: stop :: "|" :: tids ->
      let p = { p_fix_start = (variant = "fixed" || variant = "fixed9");
                p_fix_signal = (variant = "fixed" || variant = "fixed9b");
                p_stop = (stop = "stop") } in
      let step t s = StopImmediately.step (nat_of_int t) s in
      let (st, tr) = Lockstep.run step render (StopImmediately.init p) (ints_of_words tids) in
      let g = st.g in
      Printf.sprintf "%s # quiescent=%s finished=%s uaf=%s bad=%s wrong=%s cbwon=%s srcever=%s srcout=%s"
        tr (b01 (StopImmediately.quiescent st)) (b01 g.finished) (b01 g.uaf) (b01 g.bad) (b01 g.wrong)
        (b01 g.cb_won) (b01 g.src_ever) (b01 st.m.src_out)
    | _ -> "ERR args")
