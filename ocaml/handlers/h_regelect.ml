open Model
open Conv
open RegElect
let outcome_of_char = function 'v' -> OVal | 'e' -> OErr | _ -> ODone
let str_outcome = function OVal -> "value" | OErr -> "error" | ODone -> "done"
let b01 b = if b then "1" else "0"
let str_cbk = function
  | BNew -> "new" | BReg -> "reg" | BInline -> "inline" | BExec -> "exec" | BDone -> "done"
  | BUnlinked -> "unlinked" | BRemoved -> "removed" | BJoined -> "joined"
(* every event is printed exactly as tools/units/when_all.py projects the implementation's event *)
let render = function
  | EReg false -> "ext REG C.acq_rel 0->2 ok"
  | EReg true -> "ext REG-INLINE"
  | ESet -> "ext SET C.acq_rel 0->3 ok"
  | EDereg stopped -> Printf.sprintf "ext DEREG C.acq %s ok" (if stopped then "1->3" else "0->2")
  | EWait -> "cb L.acq 1"
  | ECbDone -> "cb S.rel 1"
  | ERc (sub, o, n) -> Printf.sprintf "rc %s %d->%d" (if sub then "U.acq_rel" else "A.rlx") (int_of_z o) (int_of_z n)
  | EDoeX o -> Printf.sprintf "doe X.rlx %s->1" (b01 o)
  | EDoeL v -> Printf.sprintf "doe L.rlx %s" (b01 v)
  | EOwn false -> "own SET C.acq_rel 0->3 ok"
  | EOwn true -> "own OBS"
  | EStart (i, b) -> Printf.sprintf "start %d stop=%s" (int_of_nat i) (b01 b)
  | ERoot o -> "root " ^ str_outcome o
  | EDestroy -> "op_destroyed"
let () =
  (* regelect <range|stopwhen> <outcomes | -> <stop|nostop|prestop> | tid tid ... *)
  Registry.register "regelect" (fun args ->
    match args with
    | v :: outs :: sm :: "|" :: tids ->
      let outs = if outs = "-" then "" else outs in
      let os = List.init (String.length outs) (fun i -> outcome_of_char outs.[i]) in
      let var = if v = "stopwhen" then VStopWhen else VRange in
      let s0 = RegElect.init var os (sm = "stop") (sm = "prestop") in
      let step t s = RegElect.step (nat_of_int t) s in
      let (st, tr) = Lockstep.run step render s0 (ints_of_words tids) in
      Printf.sprintf "%s # delivered=%s destroyed=%s late=%d badreg=%d own=%s cbk=%s registered=%s quiescent=%s" tr
        (str_list str_outcome (List.rev (RegElect.delivered st))) (b01 (RegElect.destroyed st))
        (int_of_nat (RegElect.late st)) (int_of_nat (RegElect.badreg st)) (b01 (RegElect.own st))
        (str_cbk (RegElect.cbk st)) (b01 (RegElect.registered (RegElect.cbk st))) (b01 (RegElect.quiescent st))
    | _ -> "ERR args")
