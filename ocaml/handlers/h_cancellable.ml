open Model
open Conv
open Cancellable
let b01 b = if b then "1" else "0"
let str_outcome = function OVal -> "value" | ODone -> "done"
let n = int_of_nat
let render = function
  | EReg inl -> "ext REG " ^ b01 inl
  | ESet -> "ext SET"
  | EDereg -> "ext DEREG"
  | ECbS -> "cb S.rel 1"
  | ECbL -> "cb L.acq 1"
  | EStOr (o, w) -> Printf.sprintf "state O.acq_rel %d->%d" (n o) (n w)
  | EStL v -> Printf.sprintf "state L.acq %d" (n v)
  | ESyncS -> "sync S.rel 1"
  | ESyncL v -> "sync L.acq " ^ b01 v
  | ESlotS -> "slot S.rel 1"
  | ESlotC (o, w, ok) ->
    if ok then Printf.sprintf "slot C.acq_rel %d->%d ok" (n o) (n w)
    else Printf.sprintf "slot C.acq %d->%d fail" (n o) (n w)
  | ENStart -> "nested.start"
  | ENStop -> "nested.stop"
  | ERoot o -> "root " ^ str_outcome o
  | EDestroyed -> "op_destroyed"
let () =
  (* cancellable <early 0|1> <nested s|a|n> <fx 0|1> | tid tid ... *)
  Registry.register "cancellable" (fun args ->
    match args with
    | e :: m :: f :: "|" :: tids ->
      let p = { early = (e = "1");
                nm = (match m with "s" -> NSync | "a" -> NAsync | _ -> NNone);
                fx = (f = "1") } in
      let step t s = Cancellable.step p (nat_of_int t) s in
      let (st, tr) = Lockstep.run step render (Cancellable.init p) (ints_of_words tids) in
      Printf.sprintf "%s # completions=%s late=%d hooks=%d hook_bad=%s dangling=%d destroyed=%s quiescent=%s enabled=%s" tr
        (str_list str_outcome (List.rev (Cancellable.completions st)))
        (n (Cancellable.late st)) (n (Cancellable.hooks st)) (b01 (Cancellable.hook_bad st))
        (n (Cancellable.dangling st)) (b01 (Cancellable.destroyed st))
        (b01 (Cancellable.quiescent p st))
        (String.concat "," (List.filter_map (fun t -> match step t st with Some _ -> Some (string_of_int t) | None -> None) [0; 1; 2; 3]))
    | _ -> "ERR args")
