open Model
open Conv
open Calc
(* s-expression reader for sender terms *)
type sx = A of string | L of sx list
let tokenize s =
  let b = Buffer.create 16 and out = ref [] in
  let flush () = if Buffer.length b > 0 then (out := Buffer.contents b :: !out; Buffer.clear b) in
  String.iter (fun c -> match c with
    | '(' | ')' -> flush (); out := String.make 1 c :: !out
    | ' ' | '\t' -> flush ()
    | c -> Buffer.add_char b c) s;
  flush (); List.rev !out
let rec parse toks = match toks with
  | "(" :: r -> let (items, r') = parse_list r in (L items, r')
  | a :: r -> (A a, r)
  | [] -> failwith "eof"
and parse_list toks = match toks with
  | ")" :: r -> ([], r)
  | _ -> let (x, r) = parse toks in let (xs, r') = parse_list r in (x :: xs, r')
let zi s = z_of_int (int_of_string s)
let fn_of = function
  | L [A "add"; A k] -> FAdd (zi k) | L [A "mul"; A k] -> FMul (zi k)
  | L [A "throw"; A e] -> FThrow (zi e) | L [A "throwif"; A x; A e] -> FThrowIf (zi x, zi e)
  | _ -> failwith "fn"
let rec ex = function
  | L [A "just"; A v] -> Just (zi v) | L [A "jerr"; A e] -> JustErr (zi e) | L [A "jdone"] -> JustDone
  | L [A "var"; A n] -> Var (nat_of_int (int_of_string n))
  | L [A "leaf"; A i] -> Leaf (nat_of_int (int_of_string i))
  | L [A "leafn"; A i] -> LeafN (nat_of_int (int_of_string i))
  | L [A "then"; f; e] -> Un (UThen (fn_of f), ex e)
  | L [A "uerr"; f; e] -> Un (UUponErr (fn_of f), ex e)
  | L [A "udone"; f; e] -> Un (UUponDone (fn_of f), ex e)
  | L [A "withq"; A q; A v; e] -> Un (UWithQ (nat_of_int (int_of_string q), zi v), ex e)
  | L [A "unstop"; e] -> Un (UUnstoppable, ex e)
  | L [A "mat"; e] -> Un (UMat, ex e)
  | L [A "dopt"; e] -> Un (UDoneOpt, ex e)
  | L [A "letv"; a; b] -> Bin (BLetV, ex a, ex b) | L [A "lete"; a; b] -> Bin (BLetE, ex a, ex b)
  | L [A "letd"; a; b] -> Bin (BLetD, ex a, ex b) | L [A "seq"; a; b] -> Bin (BSeq, ex a, ex b)
  | L [A "fin"; a; b] -> Bin (BFinally, ex a, ex b) | L [A "wall"; a; b] -> Bin (BWhenAll, ex a, ex b)
  | L [A "swhen"; a; b] -> Bin (BStopWhen, ex a, ex b)
  | _ -> failwith "sexpr"
let i z = string_of_int (int_of_z z)
let b01 b = if b then "1" else "0"
let str_fn = function
  | FAdd k -> "add(" ^ i k ^ ")" | FMul k -> "mul(" ^ i k ^ ")" | FThrow e -> "throw(" ^ i e ^ ")"
  | FThrowIf (x, e) -> "throwif(" ^ i x ^ "," ^ i e ^ ")"
let str_out = function OVal v -> "value " ^ i v | OErr e -> "error " ^ i e | ODone -> "done"
let render = function
  | XT (TLeafStart (id, st, sp, q0, q1)) ->
    Printf.sprintf "start %d stopped=%s stoppable=%s q0=%s q1=%s" (int_of_nat id) (b01 st) (b01 sp) (i q0) (i q1)
  | XT (TLeafStop id) -> Printf.sprintf "stopseen %d" (int_of_nat id)
  | XT (TCall (f, x)) -> Printf.sprintf "call %s %s" (str_fn f) (i x)
  | XT (TLeak r) -> Printf.sprintf "leak %s" (b01 r)
  | XRoot (o, n) -> Printf.sprintf "root %s regs=%d" (str_out o) (int_of_nat n)
  | XSkip -> "skip"
let script_of toks = List.map (fun t ->
    if t = "S" then EvStop else
      let c = String.index t ':' in
      let id = int_of_string (String.sub t 1 (c - 1)) in
      let k = t.[c + 1] in
      let v = if String.length t > c + 2 then int_of_string (String.sub t (c + 2) (String.length t - c - 2)) else 0 in
      EvLeaf (nat_of_int id, (match k with 'v' -> OVal (z_of_int v) | 'e' -> OErr (z_of_int v) | _ -> ODone))) toks
let () =
  (* calc <prestop> <sexpr ...> | <script ...> *)
  Registry.register "calc" (fun args ->
    let rec split acc = function [] -> (List.rev acc, []) | "|" :: r -> (List.rev acc, r) | x :: r -> split (x :: acc) r in
    match args with
    | pre :: rest ->
      let (etoks, stoks) = split [] rest in
      let (sx, _) = parse (tokenize (String.concat " " etoks)) in
      (* one batch per script event, separated by "|" (the first batch is start()) *)
      let e = ex sx in
      let rs0 = run_start e (pre = "1") in
      let buf = Buffer.create 256 in
      let emit evs = List.iter (fun x -> if Buffer.length buf > 0 then Buffer.add_char buf ';'; Buffer.add_string buf x) evs in
      let drop n l = let rec go n l = if n <= 0 then l else match l with [] -> [] | _ :: r -> go (n - 1) r in go n l in
      emit (List.map render (r_tr rs0));
      let rs = List.fold_left (fun rs ev ->
          let rs' = run_ev e rs ev in
          emit ("|" :: List.map render (drop (List.length (r_tr rs)) (r_tr rs')));
          rs') rs0 (script_of stoks) in
      Buffer.contents buf ^ " # roots=" ^ string_of_int (int_of_nat (r_roots rs))
    | _ -> "ERR args")
