open Model
open Conv
open Future
(* future <as_written|fixed> <v|e|d> <nofault|fault> <drop|await|stop|conndrop> | tid tid ...
   events are rendered exactly as tools/units/future.py projects the implementation trace *)
let fstate_n = function
  | FInit -> 0 | FAband -> 1 | FValue -> 2 | FError -> 3 | FDoneS -> 4 | FComplete -> 5 | FPoison -> 238
let evst_s = function EvNull -> "0" | EvWaiter -> "W" | EvSig -> "SIG" | EvPoison -> "POISON"
let cas_order site ok = match site, ok with
  | CsComplete, true -> "rlx" | CsComplete, false -> "acq"
  | CsNegotiate, true -> "rel" | CsNegotiate, false -> "acq"
  | CsConsume, true -> "rel" | CsConsume, false -> "acq"
  | CsDrop, true -> "rel" | CsDrop, false -> "rlx"
  | CsDropNeg, true -> "rel" | CsDropNeg, false -> "acq"
  | CsAbandon, _ -> "rlx"
let str_result = function RVal -> "value" | RErr -> "error" | RDone -> "done"
let str_member = function MVal -> "values_" | MErr -> "error_"
let b01 b = if b then "1" else "0"
let render = function
  | EStL v -> Printf.sprintf "fut.state L.rlx %d" (fstate_n v)
  | EStLa v -> Printf.sprintf "fut.state L.acq %d" (fstate_n v)
  | EStS v -> Printf.sprintf "fut.state S.rlx %d" (fstate_n v)
  | EStC (site, o, n, ok) ->
    Printf.sprintf "fut.state C.%s %d->%d %s" (cas_order site ok) (fstate_n o) (fstate_n n) (if ok then "ok" else "fail")
  | EEvX o -> Printf.sprintf "fut.evt X.acq_rel %s->SIG" (evst_s o)
  | EEvL v -> Printf.sprintf "fut.evt L.acq %s" (evst_s v)
  | EEvC (o, ok) -> if ok then Printf.sprintf "fut.evt C.rel %s->W ok" (evst_s o)
    else Printf.sprintf "fut.evt C.acq %s->W fail" (evst_s o)
  | ESrcSet -> "fut.src SET"
  | ESrcEnd -> "fut.src END"
  | EExtObs locked -> Printf.sprintf "ext.state OBS %d" (if locked then 3 else 1)
  | EExtAcq (arel, o, n) ->
    Printf.sprintf "ext.state C.%s %d->%d ok" (if arel then "acq_rel" else "acq") (int_of_nat o) (int_of_nat n)
  | EExtRel v -> Printf.sprintf "ext.state S.rel %d" (int_of_nat v)
  | ECbDone -> "cb.completed S.rel 1"
  | ECbWait -> "cb.completed L.acq 1"
  | EValCtor -> "!val.ctor shared"
  | EValDtor ok -> if ok then "!val.dtor shared" else "!val.dtor BAD shared"
  | EThrow -> "!val.move THROWS"
  | EDealloc -> "!fut.dealloc"
  | EPost -> "!sched.post"
  | ERoot r -> "!root " ^ str_result r
  | ETerminate -> "!TERMINATE"
let () =
  Registry.register "future" (fun args ->
    match args with
    | variant :: out :: fault :: prog :: "|" :: tids ->
      let p = { p_fixed = (variant = "fixed");
                p_out = (match out with "v" -> OVal | "e" -> OErr | _ -> ODone);
                p_fault = (fault = "fault");
                p_prog = (match prog with "drop" -> PDrop | "await" -> PAwait | "conndrop" -> PConnDrop | _ -> PStop) } in
      let step t s = Future.step (nat_of_int t) s in
      let (st, tr) = Lockstep.run step render (Future.init p) (ints_of_words tids) in
      let g = st.g in
      Printf.sprintf "%s # quiescent=%s deleted=%d constructed=%s destroyed=%s roots=%s uaf=%s bad=%s srcstop=%s abwon=%s opwon=%s expected=%s"
        tr (b01 (Future.quiescent st)) (int_of_nat g.deleted)
        (match g.constructed with Some m -> str_member m | None -> "none")
        (str_list str_member (List.rev g.destroyed)) (str_list str_result (List.rev g.roots))
        (b01 g.uaf) (b01 g.bad) (b01 g.src_stop) (b01 g.ab_won) (b01 g.op_won)
        (str_result (Future.expected p))
    | _ -> "ERR args")

(* spawnfault <detached|future> <alloc|nestfut|nestop|connect|none>
   -> threw/allocs/deallocs/started refs=<n>   (the SpawnFault model's prediction for one run) *)
let () =
  Registry.register "spawnfault" (fun args ->
    match args with
    | [fn; stage] ->
      let g = if fn = "future" then SpawnFault.Future else SpawnFault.Detached in
      let f = match stage with
        | "alloc" -> Some SpawnFault.SAlloc | "nestfut" -> Some SpawnFault.SNestFut
        | "nestop" -> Some SpawnFault.SNestOp | "connect" -> Some SpawnFault.SConnect
        | _ -> None in
      let s = SpawnFault.run false g f in
      Printf.sprintf "%s/%d/%d/%d refs=%d" (b01 s.SpawnFault.threw) (int_of_nat s.SpawnFault.allocs)
        (int_of_nat s.SpawnFault.deallocs) (int_of_nat s.SpawnFault.started) (int_of_nat s.SpawnFault.refs)
    | _ -> "ERR args")
