open Model
open Conv
(* autoreset <ready0> <prog> <prog> ... | tid tid ...   prog: string over S D N<d>, "-" = empty *)
let parse_prog (s : string) : AutoReset.cmd list =
  let n = String.length s in
  let rec go i acc =
    if i >= n then List.rev acc else
      match s.[i] with
      | 'S' -> go (i + 1) (AutoReset.ASet :: acc)
      | 'D' -> go (i + 1) (AutoReset.ASetDone :: acc)
      | 'N' -> go (i + 2) (AutoReset.ANext (nat_of_int (Char.code s.[i + 1] - 48)) :: acc)
      | _ -> go (i + 1) acc in
  go 0 []
let sp = function EventV1.PNull -> "0" | EventV1.PSig -> "SIG" | EventV1.POp w -> Printf.sprintf "w%d" (int_of_nat w)
let b01 b = if b then "1" else "0"
let render_ev = function
  | EventV1.EWaitLoad (_, p) -> "aare.evt L.acq " ^ sp p
  | EventV1.EWaitCas (w, o, ok) ->
    if ok then Printf.sprintf "aare.evt C.rel %s->w%d ok" (sp o) (int_of_nat w)
    else Printf.sprintf "aare.evt C.acq %s->w%d fail" (sp o) (int_of_nat w)
  | EventV1.ESetX o -> Printf.sprintf "aare.evt X.acq_rel %s->SIG" (sp o)
  | EventV1.EResetCas (o, ok) ->
    if ok then "aare.evt C.acq_rel SIG->0 ok" else Printf.sprintf "aare.evt C.acq %s->0 fail" (sp o)
  | EventV1.EReadyLoad p -> "aare.evt L.acq " ^ sp p
  | EventV1.EReady b -> "ready=" ^ b01 b
  | EventV1.EResume w -> Printf.sprintf "w%d handoff" (int_of_nat w)
let render = function
  | AutoReset.ELock -> "aare.mutex ML.rlx 0->1"
  | AutoReset.EUnlock -> "aare.mutex MU.rlx 1->0"
  | AutoReset.EEv e -> render_ev e
  | AutoReset.ENext (w, b) -> Printf.sprintf "next %d %s" (int_of_nat w) (if b then "value" else "done")
let str_pc = function
  | AutoReset.AIdle -> "idle" | AutoReset.ASetEv -> "setev" | AutoReset.AUnlock _ -> "unlock"
  | AutoReset.AWaitEv w -> Printf.sprintf "waitev%d" (int_of_nat w)
  | AutoReset.ASusp w -> Printf.sprintf "susp%d" (int_of_nat w)
  | AutoReset.AResetEv w -> Printf.sprintf "resetev%d" (int_of_nat w)
let rec split_bar acc = function
  | "|" :: r -> (List.rev acc, r)
  | x :: r -> split_bar (x :: acc) r
  | [] -> (List.rev acc, [])
let () =
  Registry.register "autoreset" (fun args ->
    match args with
    | r0 :: rest ->
      let (progs, tids) = split_bar [] rest in
      let init = AutoReset.init (r0 = "1") (List.map parse_prog progs) in
      let step t s = AutoReset.step (nat_of_int t) s in
      let (st, tr) = Lockstep.run step render init (ints_of_words tids) in
      let ws l = str_list (fun w -> string_of_int (int_of_nat w)) l in
      Printf.sprintf "%s # results=[%s] pcs=[%s] state=%s stk=[%s] top=%s mutex=%s quiescent=%s" tr
        (str_list (fun (w, b) -> Printf.sprintf "%d:%s" (int_of_nat w) (if b then "v" else "d")) (List.rev st.AutoReset.results))
        (str_list str_pc (AutoReset.pcs st))
        (match st.AutoReset.s3v with AutoReset.Unset -> "UNSET" | AutoReset.SSet -> "SET" | AutoReset.Done -> "DONE")
        (ws st.AutoReset.ev.EventV1.stk) (sp st.AutoReset.ev.EventV1.top)
        (match st.AutoReset.mtx with None -> "free" | Some t -> string_of_int (int_of_nat t))
        (b01 (AutoReset.quiescent st))
    | _ -> "ERR args")
