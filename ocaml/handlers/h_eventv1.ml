open Model
open Conv
open EventV1
(* eventv1 <sig0> <prog> <prog> ... | tid tid ...   prog: string over S R Y W<d>, "-" = empty *)
let parse_prog (s : string) : cmd list =
  let n = String.length s in
  let rec go i acc =
    if i >= n then List.rev acc else
      match s.[i] with
      | 'S' -> go (i + 1) (CSet :: acc)
      | 'R' -> go (i + 1) (CReset :: acc)
      | 'Y' -> go (i + 1) (CReady :: acc)
      | 'W' -> go (i + 2) (CWait (nat_of_int (Char.code s.[i + 1] - 48)) :: acc)
      | _ -> go (i + 1) acc in
  go 0 []
let sp = function PNull -> "0" | PSig -> "SIG" | POp w -> Printf.sprintf "w%d" (int_of_nat w)
let b01 b = if b then "1" else "0"
let render = function
  | EWaitLoad (_, p) -> "evt.state L.acq " ^ sp p
  | EWaitCas (w, o, ok) ->
    if ok then Printf.sprintf "evt.state C.rel %s->w%d ok" (sp o) (int_of_nat w)
    else Printf.sprintf "evt.state C.acq %s->w%d fail" (sp o) (int_of_nat w)
  | ESetX o -> Printf.sprintf "evt.state X.acq_rel %s->SIG" (sp o)
  | EResetCas (o, ok) ->
    if ok then "evt.state C.acq_rel SIG->0 ok" else Printf.sprintf "evt.state C.acq %s->0 fail" (sp o)
  | EReadyLoad p -> "evt.state L.acq " ^ sp p
  | EReady b -> "ready=" ^ b01 b
  | EResume w -> Printf.sprintf "w%d handoff" (int_of_nat w)
let rec split_bar acc = function
  | "|" :: r -> (List.rev acc, r)
  | x :: r -> split_bar (x :: acc) r
  | [] -> (List.rev acc, [])
let () =
  Registry.register "eventv1" (fun args ->
    match args with
    | sig0 :: rest ->
      let (progs, tids) = split_bar [] rest in
      let init = EventV1.init (sig0 = "1") (List.map parse_prog progs) in
      let step t s = EventV1.step (nat_of_int t) s in
      let (st, tr) = Lockstep.run step render init (ints_of_words tids) in
      let ws l = str_list (fun w -> string_of_int (int_of_nat w)) l in
      Printf.sprintf "%s # resumed=[%s] stk=[%s] top=%s quiescent=%s" tr
        (ws (List.rev st.resumed)) (ws st.stk) (sp st.top) (b01 (EventV1.quiescent st))
    | _ -> "ERR args")
