open Model
open Conv
(* asyncpass <stop|deaf> <thread,thread,...> | tid tid ...
   threads: c x a tc ta s<k>   (same syntax as harness/k1_async_pass.cpp) *)
let kind_of_string s =
  match s with
  | "c" -> AsyncPass.TCall | "x" -> AsyncPass.TThrow | "a" -> AsyncPass.TAccept
  | "tc" -> AsyncPass.TTryCall | "ta" -> AsyncPass.TTryAccept
  | _ when String.length s >= 2 && s.[0] = 's' ->
      AsyncPass.TStop (nat_of_int (int_of_string (String.sub s 1 (String.length s - 1))))
  | _ -> AsyncPass.TNone
let str_word = function
  | AsyncPass.WIdle -> "0"
  | AsyncPass.WCaller i -> Printf.sprintf "c%d" (int_of_nat i)
  | AsyncPass.WAcceptor j -> Printf.sprintf "a%d|1" (int_of_nat j)
let str_ord = function AsyncPass.OAcq -> "acq" | AsyncPass.ORel -> "rel" | AsyncPass.OAcqRel -> "acq_rel"
let b01 b = if b then "1" else "0"
let csnum a b c = (if a then 1 else 0) + (if b then 2 else 0) + (if c then 4 else 0)
let pay p = 100 + int_of_nat p
let str_res = function
  | AsyncPass.RValue -> "value" | AsyncPass.RDone -> "done"
  | AsyncPass.RGot p -> Printf.sprintf "got %d" (pay p)
  | AsyncPass.RErr p -> Printf.sprintf "error %d" (pay p)
  | AsyncPass.RBad -> "BAD"
let render = function
  | AsyncPass.EWLoad v -> "w L.acq " ^ str_word v
  | AsyncPass.ECas (o, e, d) -> Printf.sprintf "w C.%s %s->%s ok" (str_ord o) (str_word e) (str_word d)
  | AsyncPass.ECasFail (a, d) -> Printf.sprintf "w C.acq %s->%s fail" (str_word a) (str_word d)
  | AsyncPass.ECs (k, bit, a, b, c) ->
      let o = csnum a b c in
      Printf.sprintf "cs%d O.acq_rel %d->%d" (int_of_nat k) o (o lor (int_of_nat bit))
  | AsyncPass.ESync k -> Printf.sprintf "sync%d S.rel 1" (int_of_nat k)
  | AsyncPass.ESyncLoad (k, b) -> Printf.sprintf "sync%d L.acq %s" (int_of_nat k) (b01 b)
  | AsyncPass.EReg (k, b) -> Printf.sprintf "ext%d REG %s" (int_of_nat k) (b01 b)
  | AsyncPass.ESet k -> Printf.sprintf "ext%d SET" (int_of_nat k)
  | AsyncPass.ESeen k -> Printf.sprintf "ext%d SEEN" (int_of_nat k)
  | AsyncPass.EDereg k -> Printf.sprintf "ext%d DEREG" (int_of_nat k)
  | AsyncPass.EObs (k, b) -> Printf.sprintf "ext%d OBS %s" (int_of_nat k) (b01 b)
  | AsyncPass.EDeliver (k, caller, r) ->
      Printf.sprintf "!%s %d %s" (if caller then "call" else "accept") (int_of_nat k) (str_res r)
  | AsyncPass.ETry (t, acc, r) ->
      if acc then Printf.sprintf "!tryaccept %d %s" (int_of_nat t)
          (match r with Some AsyncPass.RDone | None -> "none" | Some r -> str_res r)
      else Printf.sprintf "!trycall %d %s" (int_of_nat t)
          (match r with Some AsyncPass.RValue -> "1" | _ -> "0")
  | AsyncPass.ETerminate -> "!terminate"
let () =
  Registry.register "asyncpass" (fun args ->
    match args with
    | hop :: prog :: "|" :: tids ->
      let kinds = List.map kind_of_string (String.split_on_char ',' prog) in
      let n = List.length kinds in
      let step t s = AsyncPass.step (nat_of_int t) s in
      let init = AsyncPass.init (hop = "stop") kinds in
      let (st, tr) = Lockstep.run step render init (ints_of_words tids) in
      let per t =
        let k = nat_of_int t in
        let d = AsyncPass.delivered st k in
        let r = AsyncPass.tres st k in
        Printf.sprintf "%d:%s%s" t (String.concat "+" (List.rev_map str_res d))
          (match r with None -> "" | Some r -> "try=" ^ str_res r) in
      Printf.sprintf "%s # w=%s aborted=%s all_done=%s res=[%s]" tr (str_word (AsyncPass.w st))
        (b01 (AsyncPass.aborted st)) (b01 (AsyncPass.all_done st))
        (String.concat ";" (List.init n per))
    | _ -> "ERR args")
