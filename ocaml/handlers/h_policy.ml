open Model
(* policy <bottom> <p1> ... <pn>: the policy bulk_schedule reads under bulk_transform(..(src,f1,p1)..,fn,pn) over <bottom> *)
let pol_of = function
  | "seq" -> Policy.Seq | "unseq" -> Policy.Unseq | "par" -> Policy.Par | "par_unseq" -> Policy.ParUnseq
  | s -> failwith ("policy " ^ s)
let show = function
  | Policy.Seq -> "seq" | Policy.Unseq -> "unseq" | Policy.Par -> "par" | Policy.ParUnseq -> "par_unseq"
let () =
  Registry.register "policy" (fun args ->
    match args with
    | b :: ps ->
      let bot = (match b with "none" -> Policy.BNone | "join" -> Policy.BJoin | s -> Policy.BPol (pol_of s)) in
      let p = Policy.chain (List.map pol_of ps) bot in
      show p
    | _ -> "ERR args")
