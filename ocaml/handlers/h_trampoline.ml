open Model
open Conv
(* tramp <depth> <tree>     tree ::= '(' ['!'] tree* ')' ; operations are numbered in preorder *)
let parse_tree (s : string) : Tramp.tree * int =
  let pos = ref 0 and next = ref 0 in
  let rec node () =
    incr pos;                                   (* '(' *)
    let l = !next in incr next;
    let stopped = !pos < String.length s && s.[!pos] = '!' in
    if stopped then incr pos;
    let kids = ref [] in
    while !pos < String.length s && s.[!pos] = '(' do kids := node () :: !kids done;
    incr pos;                                   (* ')' *)
    Tramp.Node (nat_of_int l, stopped, List.rev !kids) in
  let t = node () in (t, !next)
let () =
  Registry.register "tramp" (fun args ->
    match args with
    | [d; tree] ->
      let (t, n) = parse_tree tree in
      let st = Tramp.eval (nat_of_int (int_of_string d)) t in
      let ent e = Printf.sprintf "%d:%s:%d:%d" (int_of_nat e.Tramp.e_label) (if e.Tramp.e_done then "d" else "v")
          (int_of_nat e.Tramp.e_nest) (int_of_nat e.Tramp.e_depth) in
      Printf.sprintf "%s max=%d returned_after=%d/%d cleared=%d" (str_list ent st.Tramp.log)
        (int_of_nat (Tramp.max_nest st)) (List.length st.Tramp.log) n (if Tramp.finished st then 1 else 0)
    | _ -> "ERR args")
