open Model
open Conv
open MutexV2
let b01 b = if b then "1" else "0"
let n2s n = string_of_int (int_of_nat n)
let render = function
  | ESrcAcq (i, o, n, ar) -> Printf.sprintf "src%s C.%s %s->%s ok" (n2s i) (if ar then "acq_rel" else "acq") (n2s o) (n2s n)
  | ESrcObs (i, v) -> Printf.sprintf "src%s OBS %s" (n2s i) (n2s v)
  | ESrcRel (i, v) -> Printf.sprintf "src%s S.rel %s" (n2s i) (n2s v)
  | ESrcLd (i, v) -> Printf.sprintf "src%s L.acq %s" (n2s i) (n2s v)
  | ECsLd (i, v) -> Printf.sprintf "cs%s L.acq %s" (n2s i) (n2s v)
  | ECsOr (i, o, n) -> Printf.sprintf "cs%s O.acq_rel %s->%s" (n2s i) (n2s o) (n2s n)
  | ELockX (ar, old) -> Printf.sprintf "locked X.%s %s->1" (if ar then "acq_rel" else "acq") (b01 old)
  | ELockSt -> "locked S.rel 0"
  | EPushClaim i -> "q CLAIM " ^ n2s i
  | EPushPub i -> "q PUB " ^ n2s i
  | EPopTake x -> "q TAKE " ^ n2s x
  | EPop None -> "q POP none"
  | EPop (Some k) -> "q POP " ^ n2s k
  | ERemove (i, ok) -> Printf.sprintf "q REMOVE %s %s" (n2s i) (if ok then "ok" else "fail")
  | EEmpty b -> "q EMPTY " ^ b01 b
  | ESyncSt i -> Printf.sprintf "sync%s S.rel 1" (n2s i)
  | ESyncLd (i, v) -> Printf.sprintf "sync%s L.acq %s" (n2s i) (b01 v)
  | ECbDoneSt i -> Printf.sprintf "cbdone%s S.rel 1" (n2s i)
  | ECbDoneLd i -> Printf.sprintf "cbdone%s L.acq 1" (n2s i)
  | EComplete (k, OValue, _) -> "acquire " ^ n2s k
  | EComplete (k, ODone, _) -> "done " ^ n2s k
  | ETryAcq t -> "acquire " ^ n2s t
  | ETryFail t -> "tryfail " ^ n2s t
  | ERelease t -> "release " ^ n2s t
let str_outcome = function OValue -> "value" | ODone -> "done"
let () =
  (* mutexv2 <fixed 0|1> <stopmask> <ntry> | tid tid ... *)
  Registry.register "mutexv2" (fun args ->
    match args with
    | fx :: mask :: nt :: "|" :: tids ->
      let hs = List.init (String.length mask) (fun i -> mask.[i] = '1') in
      let hs = if mask = "-" then [] else hs in
      let step t s = MutexV2.step (nat_of_int t) s in
      let s0 = MutexV2.init (fx = "1") hs (nat_of_int (int_of_string nt)) in
      let (st, tr) = Lockstep.run step render s0 (ints_of_words tids) in
      Printf.sprintf "%s # quiescent=%s locked=%s queue=%s tokens=%d res=%s" tr
        (b01 (MutexV2.quiescent st)) (b01 (MutexV2.locked st))
        (str_list n2s (MutexV2.queue st)) (int_of_nat (MutexV2.tokens st))
        (String.concat "/" (List.init (List.length hs) (fun i -> str_list str_outcome (List.rev (MutexV2.o_res (MutexV2.ops st (nat_of_int i)))))))
    | _ -> "ERR args")
