open Model
open Conv
open StopOnRequest
let b01 b = if b then "1" else "0"
let cbs_int = function INIT -> 0 | ALLC -> 1 | ATLEAST -> 2
let render = function
  | EReg (i, false) -> Printf.sprintf "src%d REG C.acq_rel 0->2 ok" (int_of_nat i)
  | EReg (i, true) -> Printf.sprintf "src%d REG-INLINE" (int_of_nat i)
  | ESet i -> Printf.sprintf "src%d SET C.acq_rel 0->3 ok" (int_of_nat i)
  | EXchg o -> Printf.sprintf "cbs X.acq_rel %d->2" (cbs_int o)
  | ECas INIT -> "cbs C.acq_rel 0->1 ok"
  | ECas o -> Printf.sprintf "cbs C.acq %d->1 fail" (cbs_int o)
  | EDereg (i, stopped) ->
    Printf.sprintf "src%d DEREG C.acq %s ok" (int_of_nat i) (if stopped then "1->3" else "0->2")
  | EWait i -> Printf.sprintf "cb%d L.acq 1" (int_of_nat i)
  | ECbDone i -> Printf.sprintf "cb%d S.rel 1" (int_of_nat i)
  | ERoot -> "root done"
  | EDestroy -> "op_destroyed"
let () =
  (* stoponrequest <n> <reqmask> <premask> | tid tid ...   (masks: n+1 characters 0/1) *)
  Registry.register "stoponrequest" (fun args ->
    match args with
    | n :: req :: pre :: "|" :: tids ->
      let bit m i = let k = int_of_nat i in k < String.length m && m.[k] = '1' in
      let s0 = StopOnRequest.init (nat_of_int (int_of_string n)) (bit req) (bit pre) in
      let step t s = StopOnRequest.step (nat_of_int t) s in
      let (st, tr) = Lockstep.run step render s0 (ints_of_words tids) in
      Printf.sprintf "%s # completions=%d freed=%s destroyed=%s late=%d badtd=%d cbs=%d quiescent=%s" tr
        (int_of_nat (StopOnRequest.completions st)) (b01 (StopOnRequest.freed st))
        (b01 (StopOnRequest.destroyed st)) (int_of_nat (StopOnRequest.late st))
        (int_of_nat (StopOnRequest.badtd st)) (cbs_int (StopOnRequest.cbs st))
        (b01 (StopOnRequest.quiescent st))
    | _ -> "ERR args")
