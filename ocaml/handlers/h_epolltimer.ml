(* K1 handler for the EpollTimer model (coq/Proto/EpollTimerDefs.v):
   epolltimer <spec,spec,...> | tid tid ...
   spec = <due>:<L|R>:<N|P|S|B<j>>   due time (microseconds relative to the epoch, may be negative),
          start mode (Local: by the Starter item on the I/O thread, Remote: own thread),
          stop mode (None, Pre-stopped, remote Stopper thread, stopped By the completion of operation j).
   Events are rendered exactly as tools/units/epoll_timers.py projects the implementation trace. *)
open Model
open Conv
open EpollTimer
let zi z = string_of_z z
let ni n = string_of_int (int_of_nat n)
let str_item = function Starter -> "STARTER" | Op i -> "op" ^ ni i
let str_ptr = function PNull -> "0" | PInactive -> "INACTIVE" | PItem it -> str_item it
let hp h = "heap=" ^ (match h with [] -> "-" | _ -> str_list ni h)
let render = function
  | ESrcLd (i, b) -> Printf.sprintf "src%s LD %s" (ni i) (if b then "1" else "0")
  | ESrcReg (i, ok) -> Printf.sprintf "src%s %s" (ni i) (if ok then "REG" else "REG-INLINE")
  | ESrcUnreg i -> Printf.sprintf "src%s UNREG" (ni i)
  | ESrcSet (i, won) -> Printf.sprintf "src%s %s" (ni i) (if won then "SET" else "SET-LATE")
  | ECbDone i -> Printf.sprintf "op%s.cbdone S.rel 1" (ni i)
  | ECbSeen i -> Printf.sprintf "op%s.cbdone L.acq 1" (ni i)
  | EStLd (i, w) -> Printf.sprintf "op%s.state L.rlx %s" (ni i) (ni w)
  | EStAdd (i, o, n) -> Printf.sprintf "op%s.state A.acq_rel %s->%s" (ni i) (ni o) (ni n)
  | ERqPush (old, it) -> Printf.sprintf "rq.head C.acq_rel %s->%s ok" (str_ptr old) (str_item it)
  | ERqMark -> "rq.head C.rel 0->INACTIVE ok"
  | ERqTake top -> Printf.sprintf "rq.head X.acq %s->0" (str_ptr top)
  | EWrite -> "!write evfd"
  | ERead v -> Printf.sprintf "!read evfd v=%s" (ni v)
  | EWait (evr, tmr) ->
    "!epoll_wait -> " ^ (match evr, tmr with
        | true, true -> "evfd,timer" | true, false -> "evfd" | false, true -> "timer" | false, false -> "none")
  | ETfdRead -> "!read timerfd"
  | ESetTime (t, h) -> Printf.sprintf "!settime %s %s" (match t with Some v -> zi v | None -> "off") (hp h)
  | ENow (t, h) -> Printf.sprintf "!now %s %s" (zi t) (hp h)
  | EFire (i, t, h) -> Printf.sprintf "!fire %s %s %s" (ni i) (zi t) (hp h)
  | EDone (i, t, h) -> Printf.sprintf "!done %s %s %s" (ni i) (zi t) (hp h)
  | EClock t -> "clock " ^ zi t
let spec_of w =
  match String.split_on_char ':' w with
  | [d; sm; km] ->
    let sm = if sm = "L" then SLocal else SRemote in
    let km = match km.[0] with
      | 'N' -> KNone | 'P' -> KPre | 'S' -> KRemote
      | 'B' -> KBy (nat_of_int (int_of_string (String.sub km 1 (String.length km - 1))))
      | _ -> failwith "stop mode" in
    ((z_of_string d, sm), km)
  | _ -> failwith "spec"
let b01 b = if b then "1" else "0"
let () =
  Registry.register "epolltimer" (fun args ->
    match args with
    | specs :: "|" :: tids ->
      let sp = List.map spec_of (List.filter (fun x -> x <> "") (String.split_on_char ',' specs)) in
      let step t s = EpollTimer.step (nat_of_int t) s in
      let (st, tr) = Lockstep.run step render (EpollTimer.init sp) (ints_of_words tids) in
      Printf.sprintf "%s # completions=%s heap=%s lq=%d pend=%d rq=%d bad=%s blocked=%s quiescent=%s alldone=%s now=%s pops=%s"
        tr (str_list ni (EpollTimer.completions st)) (str_list ni (EpollTimer.ids st.heap))
        (List.length st.lq) (List.length st.pend) (List.length st.rq) (b01 st.bad)
        (b01 (EpollTimer.io_blocked st)) (b01 (EpollTimer.quiescent st)) (b01 (EpollTimer.all_done st))
        (zi st.now) (str_list ni st.pops)
    | _ -> "ERR args")
