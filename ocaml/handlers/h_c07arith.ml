(* C07 K3: the extracted MonoClock / SortedInsert functions (coq/Arith/MonoClockDefs.v,
   SortedInsertDefs.v), printed in the format of harness/k3_c07.cpp.
   Names: those Defs files are not wrapped in a Module, so the extracted identifiers are top-level
   ones of Model ([eqb] gets a numeric suffix there, so [neqb] is used instead). *)
open Model
open Conv
let zs = z_of_string
let mk s n = { sec = zs s; ns = zs n }
let show t = Printf.sprintf "%s %s" (string_of_z t.sec) (string_of_z t.ns)
let b01 b = if b then "1" else "0"

(* queue ops: iK insert (ids in insertion order), p pop, t top, rI remove, xI requeue (cancel) *)
let run_queue ~(insert : timer -> timer list -> timer list) ops =
  let log = Buffer.create 64 in
  let add s = if Buffer.length log > 0 then Buffer.add_char log ','; Buffer.add_string log s in
  let next = ref 0 and cancels = ref 0 in
  let q = ref [] in
  List.iter (fun tok ->
    let arg () = String.sub tok 1 (String.length tok - 1) in
    match tok.[0] with
    | 'i' -> q := insert (zs (arg ()), nat_of_int !next) !q; incr next
    | 'p' -> (match heap_pop !q with
              | None -> add "pE"
              | Some (h, tl) -> add ("p" ^ string_of_int (int_of_nat (id h))); q := tl)
    | 't' -> (match heap_top !q with
              | None -> add "tE"
              | Some h -> add ("t" ^ string_of_int (int_of_nat (id h))))
    | 'r' -> q := heap_remove (nat_of_int (int_of_string (arg ()))) !q
    | 'x' -> (* the k-th cancel happens at a clock value below every queued due time and not
                below the previous cancel's *)
             incr cancels;
             q := requeue (nat_of_int (int_of_string (arg ()))) (Z.add (zs "-1000000000000") (z_of_int !cancels)) !q
    | _ -> ()) ops;
  Printf.sprintf "%s | %s | %s" (Buffer.contents log)
    (str_list (fun t -> string_of_int (int_of_nat (id t))) !q)
    (if sorted_dueb !q then "ok" else "model-unsorted")

let () =
  Registry.register "mc_norm" (function [s; n] -> show (from_s_ns (zs s) (zs n)) | _ -> "ERR args");
  Registry.register "mc_add" (function [s; n; d] -> show (add_dur (mk s n) (zs d)) | _ -> "ERR args");
  Registry.register "mc_sub" (function [s; n; d] -> show (sub_dur (mk s n) (zs d)) | _ -> "ERR args");
  Registry.register "mc_diff" (function [s1; n1; s2; n2] -> string_of_z (diff (mk s1 n1) (mk s2 n2)) | _ -> "ERR args");
  Registry.register "mc_cmp" (function
    | [s1; n1; s2; n2] ->
      let a = mk s1 n1 and b = mk s2 n2 in
      String.concat " " (List.map b01 [lt a b; not (neqb a b); le a b; gt a b; ge a b; neqb a b])
    | _ -> "ERR args");
  (* value of a raw pair in ns, and whether it is canonical: used by the direct monitor *)
  Registry.register "mc_value" (function [s; n] -> Printf.sprintf "%s %s" (string_of_z (value (mk s n))) (b01 (canonicalb (mk s n))) | _ -> "ERR args");
  Registry.register "sq_heap" (fun ops -> run_queue ~insert:heap_insert ops);
  Registry.register "sq_timed" (fun ops -> run_queue ~insert:insert_timed ops)
