open Model
(* calc_traits <sexpr ...>  ->  blocking=<int> sends_done=<0|1> affine=<0|1> rt_blocking=<int>
   the mirrored compile-time sender traits (Calc/TraitsDefs.v) of the C++ expression that
   tools/k2.py to_cpp emits for the term; integers as unifex::blocking_kind::_enum (blocking.hpp) *)
let bk_int = function
  | CalcTraits.BAlwaysInline -> 0 | CalcTraits.BAlways -> 1 | CalcTraits.BMaybe -> 2 | CalcTraits.BNever -> 3
let () =
  Registry.register "calc_traits" (fun args ->
    let (sx, _) = H_calc.parse (H_calc.tokenize (String.concat " " args)) in
    let e = H_calc.ex sx in
    Printf.sprintf "blocking=%d sends_done=%s affine=%s rt_blocking=%d" (bk_int (CalcTraits.blocking_of e))
      (H_calc.b01 (CalcTraits.sends_done_of e)) (H_calc.b01 (CalcTraits.affine_of e))
      (bk_int (CalcTraits.rt_blocking_of e)))
