open Model
open Conv
open ThreadPool
(* threadpool <race:0|1> <k> <counts: n1,n2,..> | tid tid ... *)
let str_item (p, j) = Printf.sprintf "%d.%d" (int_of_nat p) (int_of_nat j)
let render = function
  | ESpawn w -> Printf.sprintf "thr%d SP" (int_of_nat w)
  | EFetch o -> Printf.sprintf "next A.rlx %d->%d" (int_of_nat o) (int_of_nat o + 1)
  | ELock q -> Printf.sprintf "q%d ML 0" (int_of_nat q)
  | ETryLock (q, ok) -> Printf.sprintf "q%d ML %d" (int_of_nat q) (if ok then 0 else 1)
  | EEnq (q, _) -> Printf.sprintf "q%d ML 0" (int_of_nat q)
  | EUnlock q -> Printf.sprintf "q%d MU" (int_of_nat q)
  | ENotify q -> Printf.sprintf "q%d CN" (int_of_nat q)
  | EWait q -> Printf.sprintf "q%d CW" (int_of_nat q)
  | EJoin w -> Printf.sprintf "thr%d J" (int_of_nat w)
  | ERun (it, _) -> Printf.sprintf "run %s value" (str_item it)
  | ESpurious w -> Printf.sprintf "spurious %d" (int_of_nat w)
let commas s = if s = "-" || s = "" then [] else String.split_on_char ',' s
let () =
  Registry.register "threadpool" (fun args ->
    match args with
    | rc :: k :: counts :: "|" :: tids ->
      let cs = List.map (fun x -> nat_of_int (int_of_string x)) (commas counts) in
      let step t s = ThreadPool.step (nat_of_int t) s in
      let (st, tr) = Lockstep.run step render (ThreadPool.init (rc = "1") (nat_of_int (int_of_string k)) cs) (ints_of_words tids) in
      Printf.sprintf "%s # final=%d executed=%s queued=%s late=%s" tr
        (if ThreadPool.final st then 1 else 0)
        (str_list (fun (it, w) -> str_item it ^ "@" ^ string_of_int (int_of_nat w)) st.ThreadPool.executed)
        (str_list str_item (ThreadPool.queued st)) (str_list str_item st.ThreadPool.late)
    | _ -> "ERR args")
