open Model
open Conv
open TCalc
(* handlers for the coroutine-task calculus (property C10):
     tcalc <prestop> <body s-expression> | <script>     -> the model's trace, rendered as harness/k2t.hpp logs
     tmon <trace>                                       -> the extracted monitor TCalc.monitor on an
                                                           implementation trace ("ok" / "bad <index> <event>") *)
type sx = A of string | L of sx list
let tokenize s =
  let b = Buffer.create 16 and out = ref [] in
  let flush () = if Buffer.length b > 0 then (out := Buffer.contents b :: !out; Buffer.clear b) in
  String.iter (fun c -> match c with
    | '(' | ')' -> flush (); out := String.make 1 c :: !out
    | ' ' | '\t' -> flush ()
    | c -> Buffer.add_char b c) s;
  flush (); List.rev !out
let rec parse toks = match toks with
  | "(" :: r -> let (items, r') = parse_list r in (L items, r')
  | a :: r -> (A a, r)
  | [] -> failwith "eof"
and parse_list toks = match toks with
  | ")" :: r -> ([], r)
  | _ -> let (x, r) = parse toks in let (xs, r') = parse_list r in (x :: xs, r')
let zi s = z_of_int (int_of_string s)
let ni s = nat_of_int (int_of_string s)
let arg_of = function
  | L [A "c"; A v] -> AConst (zi v)
  | L [A "v"; A n; A k] -> AVar (ni n, zi k)
  | _ -> failwith "arg"
let rec aw_of = function
  | L [A "just"; a] -> AJust (arg_of a) | L [A "err"; A e] -> AErr (zi e) | L [A "done"] -> ADone
  | L [A "awjust"; a] -> AAwJust (arg_of a) | L [A "awerr"; A e] -> AAwErr (zi e)
  | L [A "leaf"; A i] -> ALeaf (LPlain, ni i) | L [A "leafn"; A i] -> ALeaf (LReactive, ni i)
  | L [A "awleaf"; A i] -> ALeaf (LAw, ni i)
  | L [A "task"; b] -> ATask (co_of b)
  | _ -> failwith "aw"
and co_of = function
  | L [A "ret"; a] -> CRet (arg_of a) | L [A "throw"; A e] -> CThrow (zi e)
  | L [A "await"; s; k] -> CAwait (aw_of s, co_of k)
  | L [A "local"; A i; k] -> CLocal (ni i, co_of k)
  | L [A "atexit"; A c; A l; k] ->
    let li = int_of_string l in
    CAtExit ({ c_id = ni c; c_leaf = (if li < 0 then None else Some (nat_of_int li)) }, co_of k)
  | L [A "try"; b; h] -> CTry (co_of b, co_of h)
  | _ -> failwith "coexpr"
let i z = string_of_int (int_of_z z)
let n x = string_of_int (int_of_nat x)
let b01 b = if b then "1" else "0"
let str_out = function OVal v -> "value " ^ i v | OErr e -> "error " ^ i e | ODone -> "done"
let render = function
  | TFrame k -> "frame " ^ n k
  | TLocalCtor (f, id) -> "ctor " ^ n f ^ " " ^ n id
  | TLocalDtor (f, id) -> "dtor " ^ n f ^ " " ^ n id
  | TCleanupReg (f, c) -> "reg " ^ n f ^ " " ^ n c
  | TCleanupRun (f, c) -> "cleanup " ^ n f ^ " " ^ n c
  | TCleanupEnd (f, c) -> "cleanupend " ^ n f ^ " " ^ n c
  | TFrameDestroyed k -> "framedtor " ^ n k
  | TLeafStart (id, st, sp) -> Printf.sprintf "start %s stopped=%s stoppable=%s" (n id) (b01 st) (b01 sp)
  | TAwStart id -> "awstart " ^ n id
  | TLeafStopSeen id -> "stopseen " ^ n id
  | TLeafDone (id, o) -> "leafdone " ^ n id ^ " " ^ str_out o
  | TStopReq -> "stop"
  | TRoot o -> "root " ^ str_out o
  | TOpDtor -> "opdtor"
  | TSkip -> "skip"
  | TTerminate -> "terminate"
let out_of = function
  | "value" :: v :: _ -> OVal (zi v) | "error" :: e :: _ -> OErr (zi e) | "done" :: _ -> ODone
  | _ -> failwith "outcome"
let bit s = (* "stopped=1" *) s.[String.length s - 1] = '1'
let unrender s =
  match Conv.words s with
  | ["frame"; k] -> TFrame (ni k)
  | ["ctor"; f; id] -> TLocalCtor (ni f, ni id)
  | ["dtor"; f; id] -> TLocalDtor (ni f, ni id)
  | ["reg"; f; c] -> TCleanupReg (ni f, ni c)
  | ["cleanup"; f; c] -> TCleanupRun (ni f, ni c)
  | ["cleanupend"; f; c] -> TCleanupEnd (ni f, ni c)
  | ["framedtor"; k] -> TFrameDestroyed (ni k)
  | ["start"; id; st; sp] -> TLeafStart (ni id, bit st, bit sp)
  | ["awstart"; id] -> TAwStart (ni id)
  | ["stopseen"; id] -> TLeafStopSeen (ni id)
  | "leafdone" :: id :: rest -> TLeafDone (ni id, out_of rest)
  | ["stop"] -> TStopReq
  | "root" :: rest -> TRoot (out_of rest)
  | ["opdtor"] -> TOpDtor
  | ["skip"] -> TSkip
  | ["terminate"] -> TTerminate
  | _ -> failwith ("event " ^ s)
let script_of toks = List.map (fun t ->
    if t = "S" then EvStop else
      let c = String.index t ':' in
      let id = int_of_string (String.sub t 1 (c - 1)) in
      let k = t.[c + 1] in
      let v = if String.length t > c + 2 then int_of_string (String.sub t (c + 2) (String.length t - c - 2)) else 0 in
      EvLeaf (nat_of_int id, (match k with 'v' -> OVal (z_of_int v) | 'e' -> OErr (z_of_int v) | _ -> ODone))) toks
let () =
  Registry.register "tcalc" (fun args ->
    let rec split acc = function [] -> (List.rev acc, []) | "|" :: r -> (List.rev acc, r) | x :: r -> split (x :: acc) r in
    match args with
    | pre :: rest ->
      let (etoks, stoks) = split [] rest in
      let (sx, _) = parse (tokenize (String.concat " " etoks)) in
      let rs = exec (co_of sx) (pre = "1") (script_of stoks) in
      let tr = r_tr rs in
      let r = int_of_nat (roots tr) in
      String.concat ";" (List.map render tr) ^ " # roots=" ^ string_of_int r ^ (if r > 0 then " live=0" else "")
    | _ -> "ERR args");
  Registry.register "tmon" (fun args ->
    let s = String.concat " " args in
    let body = match String.index_opt s '#' with Some k -> String.sub s 0 k | None -> s in
    let evs = List.filter (fun x -> String.trim x <> "") (String.split_on_char ';' body) in
    let tr = List.map unrender evs in
    if monitor tr then "ok"
    else
      let k = int_of_nat (mon_first_bad m0 tr O) in
      if k >= List.length tr then "bad end (accepted so far, final condition fails)"
      else Printf.sprintf "bad %d %s" k (render (List.nth tr k)))
