open Model
open Conv
open BasicSender
let b01 b = if b then "1" else "0"
let n = int_of_nat
let str_outcome = function OVal -> "value" | ODone -> "done"
let render = function
  | EReg inl -> "ext REG " ^ b01 inl
  | ESet -> "ext SET"
  | ESetNo -> "ext SETNO"
  | EDereg -> "ext DEREG"
  | ECbS -> "cb S.rel 1"
  | ECbL -> "cb L.acq 1"
  | ELock (o, w) -> Printf.sprintf "mutex ML.rlx %d->%d" (n o) (n w)
  | EUnlock (o, w) -> Printf.sprintf "mutex MU.rlx %d->%d" (n o) (n w)
  | EBStart -> "body.start"
  | EBCallback -> "body.callback"
  | EBStop -> "body.stop"
  | ECall i -> Printf.sprintf "cb%d.call" (n i)
  | ERet i -> Printf.sprintf "cb%d.ret" (n i)
  | ESlotS -> "slot S.rel 1"
  | ESlotC (o, w, ok) ->
    if ok then Printf.sprintf "slot C.acq_rel %d->%d ok" (n o) (n w)
    else Printf.sprintf "slot C.acq %d->%d fail" (n o) (n w)
  | ERoot o -> "root " ^ str_outcome o
  | EDestroyed -> "op_destroyed"
let () =
  (* basicsender <first s|i|f|u|n> <second 0|1> <breq n|v|s> <restop 0|1> | tid tid ... *)
  Registry.register "basicsender" (fun args ->
    match args with
    | f :: s2 :: bq :: rs :: "|" :: tids ->
      let p = { first = (match f with "s" -> FSync | "i" -> FInl | "f" -> FSafe | "u" -> FUnsafe | _ -> FNone);
                second = (s2 = "1");
                breq = (match bq with "v" -> BValStop | "s" -> BStopVal | _ -> BNo);
                restop = (rs = "1") } in
      let step t s = BasicSender.step p (nat_of_int t) s in
      let (st, tr) = Lockstep.run step render (BasicSender.init p) (ints_of_words tids) in
      Printf.sprintf "%s # completions=%s calls=%s nstop=%d badstop=%d late=%d destroyed=%s enabled=%s" tr
        (str_list str_outcome (List.rev (BasicSender.completions st)))
        (str_list str_outcome (List.rev (BasicSender.calls st)))
        (n (BasicSender.nstop st)) (n (BasicSender.badstop st))
        (n (BasicSender.late st)) (b01 (BasicSender.destroyed st))
        (String.concat "," (List.filter_map (fun t -> match step t st with Some _ -> Some (string_of_int t) | None -> None) [0; 1; 2; 3; 4]))
    | _ -> "ERR args")
