open Model
open Conv
open AtomicQueue
(* atomicqueue <active:0|1> <counts: n1,n2,..; a trailing 'o' = that producer uses enqueue_or_mark_active> <script over D R I M A F> | tid tid ... *)
let str_item (p, j) = Printf.sprintf "%d.%d" (int_of_nat p) (int_of_nat j)
let str_ptr = function PNull -> "0" | PInactive -> "INACTIVE" | PItem it -> "i" ^ str_item it
let render = function
  | ELoad v -> "head L.rlx " ^ str_ptr v
  | EEnqCas (cur, it, ok) ->
    if ok then Printf.sprintf "head C.acq_rel %s->i%s ok" (str_ptr cur) (str_item it)
    else Printf.sprintf "head C.acq %s->i%s fail" (str_ptr cur) (str_item it)
  | EWake it -> "wake " ^ str_item it
  | EOrmCas (cur, it, tonull, ok) ->
    let nw = if tonull then "0" else "i" ^ str_item it in
    if ok then Printf.sprintf "head C.acq_rel %s->%s ok" (str_ptr cur) nw
    else Printf.sprintf "head C.acq %s->%s fail" (str_ptr cur) nw
  | EDirect it -> "direct " ^ str_item it
  | EMarkInactive (cur, ok) ->
    if ok then "head C.rel 0->INACTIVE ok" else Printf.sprintf "head C.rlx %s->INACTIVE fail" (str_ptr cur)
  | EMarkActive (cur, ok) ->
    if ok then "head C.acq INACTIVE->0 ok" else Printf.sprintf "head C.rlx %s->0 fail" (str_ptr cur)
  | EXchg old -> Printf.sprintf "head X.acq %s->0" (str_ptr old)
  | EBatch b -> Printf.sprintf "batch [%s]" (str_list str_item b)
  | EBatchRev b -> Printf.sprintf "rbatch [%s]" (str_list str_item b)
let op_of_char = function
  | 'D' -> OpDeq | 'R' -> OpDeqRev | 'I' -> OpTryInactive | 'M' -> OpInactiveOrDeq | 'A' -> OpTryActive | _ -> OpFinal
let commas s = if s = "-" || s = "" then [] else String.split_on_char ',' s
let () =
  Registry.register "atomicqueue" (fun args ->
    match args with
    | act :: counts :: scr :: "|" :: tids ->
      let is_o x = String.length x > 0 && x.[String.length x - 1] = 'o' in
      let num x = if is_o x then String.sub x 0 (String.length x - 1) else x in
      let cs = List.map (fun x -> nat_of_int (int_of_string (num x))) (commas counts) in
      let kinds = List.map is_o (commas counts) in
      let ops = List.init (String.length scr) (fun i -> op_of_char scr.[i]) in
      let step t s = AtomicQueue.step (nat_of_int t) s in
      let (st, tr) = Lockstep.run step render (AtomicQueue.init (act = "1") cs kinds ops) (ints_of_words tids) in
      Printf.sprintf "%s # final=%d delivered=%s enq=%s stack=%s inactive=%d marks=%d wakes=%d actives=%d" tr
        (if AtomicQueue.final st then 1 else 0)
        (str_list str_item st.AtomicQueue.delivered) (str_list str_item st.AtomicQueue.enq)
        (str_list str_item st.AtomicQueue.stack) (if st.AtomicQueue.inactive then 1 else 0)
        (int_of_nat st.AtomicQueue.marks) (int_of_nat st.AtomicQueue.wakes) (int_of_nat st.AtomicQueue.actives)
    | _ -> "ERR args")
