open Model
open Conv
open Scope
(* scope <strict:0|1> <variant:v2|v1|v0> <plans: string over s,t,p,d | -> <progs: p,p,..  each a string
   over c(lose) s(top) w(ait) y(sync) d(one)> | tid tid ...
   thread ids: references 0..n-1, joiners n.. *)
let plan_of_char = function 'd' -> PDrop | 't' -> PDetach | 'p' -> PFail | _ -> PStart
let jop_of_char = function
  | 'c' -> JClose | 's' -> JStop | 'w' -> JWait | 'y' -> JSync | _ -> JDone
let b01 b = if b then "1" else "0"
let render v0 e =
  let rmw = if v0 then "rel" else "acq_rel" in
  match e with
  | ELoad v -> Printf.sprintf "op L.rlx %d" (int_of_z v)
  | ECas (f, d, ok) -> Printf.sprintf "op C.rlx %d->%d %s" (int_of_z f) (int_of_z d) (if ok then "ok" else "fail")
  | ESub o -> Printf.sprintf "op U.%s %d->%d" rmw (int_of_z o) (int_of_z o - 2)
  | EAnd o -> Printf.sprintf "op N.%s %d->%d" rmw (int_of_z o) ((int_of_z o) land (-2))
  | ESet -> "evt SET"
  | EResume j -> Printf.sprintf "resume %d" (int_of_nat j)
  | EWait r -> "wait " ^ b01 r
  | EStop already -> if already then "stop NOP" else "stop SET"
  | ESync v -> Printf.sprintf "op L.acq %d" (int_of_z v)
  | ENestStart i -> Printf.sprintf "leaf %d start" (int_of_nat i)
  | ELeafDone i -> Printf.sprintf "leaf %d done" (int_of_nat i)
  | ENestDone i -> Printf.sprintf "nest %d done" (int_of_nat i)
  | EJoinDone j -> Printf.sprintf "join %d done" (int_of_nat j)
let str_spc = function
  | SLoad -> "L" | SCas _ -> "C" | SRejected -> "R" | SAdmitted -> "A" | SRunning -> "G"
  | SSub -> "U" | SSet -> "S" | SFin true -> "F" | SFin false -> "f"
let chars s = List.init (String.length s) (fun i -> s.[i])
let () =
  Registry.register "scope" (fun args ->
    match args with
    | strict :: variant :: plans :: progs :: "|" :: tids ->
      let plans = if plans = "-" then [] else List.map plan_of_char (chars plans) in
      let progs = if progs = "-" then [] else
          List.map (fun p -> List.map jop_of_char (chars p)) (String.split_on_char ',' progs) in
      let step t s = Scope.step (nat_of_int t) s in
      let (st, tr) = Lockstep.run step (render (variant = "v0")) (Scope.init (strict = "1") plans progs)
          (ints_of_words tids) in
      Printf.sprintf "%s # quiescent=%s joins_over=%s setting=%s joined=%s sp=%s evt=%s w=%d stopped=%s" tr
        (b01 (Scope.quiescent st)) (b01 (Scope.joins_over st)) (b01 (Scope.someone_setting st))
        (str_list (fun j -> string_of_int (int_of_nat j)) (List.rev (Scope.joined st)))
        (String.concat "" (List.map (fun (_, p) -> str_spc p) (Scope.sps st)))
        (b01 (Scope.evt st)) (int_of_z (Scope.w st)) (b01 (Scope.stopped st))
    | _ -> "ERR args")
