open Model
open Conv
open TypeEraseNext
(* typeerasenext <stop|nostop> | tid tid ...
   events are rendered exactly as tools/units/stream_proto_te.py projects the implementation trace
   (values / error codes and the kind done / error of the cleanup completion are stripped by the
   projection: the driver's monitor checks them) *)
let str_kind = function KV -> "v" | KD -> "d" | KE -> "e"
let str_result = function RVal -> "v" | RDone -> "d" | RErr -> "e"
let b01 b = if b then "1" else "0"
let render = function
  | ERefAdd o -> let o = int_of_nat o in Printf.sprintf "te.ref A.rlx %d->%d" o (o + 1)
  | ERefSub (_, o) -> let o = int_of_nat o in Printf.sprintf "te.ref U.acq_rel %d->%d" o (o - 1)
  | ETeSrcSet -> "te.src C.acq_rel 0->3 ok"
  | ETeSrcEnd -> "te.src S.rel 1"
  | EExtObs locked -> Printf.sprintf "ext.state OBS %d" (if locked then 3 else 1)
  | EExtAcq (arel, o, n) ->
    Printf.sprintf "ext.state C.%s %d->%d ok" (if arel then "acq_rel" else "acq") (int_of_nat o) (int_of_nat n)
  | EExtRel v -> Printf.sprintf "ext.state S.rel %d" (int_of_nat v)
  | ECbDone -> "cb.completed S.rel 1"
  | ECbWait -> "cb.completed L.acq 1"
  | EConsNextCtor -> "!cons.next.ctor"
  | EConsNext r -> "!cons.next " ^ str_result r
  | EConsNextDtor -> "!cons.next.dtor"
  | EConsCleanupCtor -> "!cons.cleanup.ctor"
  | EConsCleanup -> "!cons.cleanup"
  | EConsCleanupDtor -> "!cons.cleanup.dtor"
  | ESrcNextCtor -> "!src.next.ctor"
  | ESrcNextStart -> "!src.next.start"
  | ESrcNextComplete k -> "!src.next.complete " ^ str_kind k
  | ESrcNextDtor -> "!src.next.dtor"
  | ESrcCleanupCtor -> "!src.cleanup.ctor"
  | ESrcCleanupStart -> "!src.cleanup.start"
  | ESrcCleanupComplete -> "!src.cleanup.complete"
  | ESrcCleanupDtor -> "!src.cleanup.dtor"
  | EStreamDestroyed -> "!stream.destroyed"
  | EConsFinished -> "!cons.finished"
  | EStopReturned -> "!stop.returned"
let () =
  Registry.register "typeerasenext" (fun args ->
    match args with
    | stop :: "|" :: tids ->
      let p : TypeEraseNext.params = (stop = "stop") in  (* one-field record: extracted as bool *)
      let step t s = TypeEraseNext.step (nat_of_int t) s in
      let (st, tr) = Lockstep.run step render (TypeEraseNext.init p) (ints_of_words tids) in
      let f = st.fl and r = st.rd and g = st.g in
      Printf.sprintf "%s # quiescent=%s ndel=%d delivered=%s srcres=%s cbwon=%s cbfirst=%s cblast=%s fwd=%s ref=%d finished=%s ended=%s uaf=%s dup=%s vad=%s early=%s nofwd=%s clash=%s bad=%s"
        tr (b01 (TypeEraseNext.quiescent st)) (int_of_nat r.ndel)
        (match r.delivered with Some x -> str_result x | None -> "none")
        (match r.src_res with Some k -> str_kind k | None -> "none")
        (b01 r.cb_won) (b01 r.cb_first) (b01 r.cb_last) (b01 r.fwd) (int_of_nat st.m.ref)
        (b01 g.finished) (b01 f.ended) (b01 f.uaf) (b01 f.dup) (b01 f.vad) (b01 f.early) (b01 f.nofwd)
        (b01 f.clash) (b01 f.bad)
    | _ -> "ERR args")
