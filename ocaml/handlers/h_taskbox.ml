open Model
open Conv
open TaskBox
(* taskbox <k> | N<i> M<i>:<j> D<i> A<i> ...   -> the model's trace rendered as harness/k3_taskbox.cpp logs *)
let n x = string_of_int (int_of_nat x)
let render = function
  | BFrame k -> "frame " ^ n k
  | BDestroyed k -> "framedtor " ^ n k
  | BBody k -> "ctor " ^ n k ^ " 1;dtor " ^ n k ^ " 1"
  | BRoot k -> "root value " ^ n k
  | BSkip -> "skip"
let op_of s =
  let rest = String.sub s 1 (String.length s - 1) in
  match s.[0] with
  | 'N' -> ONew (nat_of_int (int_of_string rest))
  | 'D' -> ODrop (nat_of_int (int_of_string rest))
  | 'A' -> OAwait (nat_of_int (int_of_string rest))
  | 'M' -> let c = String.index rest ':' in
    OMove (nat_of_int (int_of_string (String.sub rest 0 c)),
           nat_of_int (int_of_string (String.sub rest (c + 1) (String.length rest - c - 1))))
  | _ -> failwith "op"
let () =
  Registry.register "taskbox" (fun args ->
    match args with
    | k :: "|" :: ops ->
      let tr = exec (nat_of_int (int_of_string k)) (List.map op_of ops) in
      String.concat ";" (List.map render tr) ^ " # live=0 payload=0"
    | _ -> "ERR args")
