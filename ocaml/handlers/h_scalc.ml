open Model
open Conv
open SCalc
(* K2-stream: `scalc <variant> <prestop> <consumer sexpr> <pipeline sexpr> | <script>`  *)
type sx = A of string | L of sx list
let tokenize s =
  let b = Buffer.create 16 and out = ref [] in
  let flush () = if Buffer.length b > 0 then (out := Buffer.contents b :: !out; Buffer.clear b) in
  String.iter (fun c -> match c with
    | '(' | ')' -> flush (); out := String.make 1 c :: !out
    | ' ' | '\t' -> flush ()
    | c -> Buffer.add_char b c) s;
  flush (); List.rev !out
let rec parse toks = match toks with
  | "(" :: r -> let (items, r') = parse_list r in (L items, r')
  | a :: r -> (A a, r)
  | [] -> failwith "eof"
and parse_list toks = match toks with
  | ")" :: r -> ([], r)
  | _ -> let (x, r) = parse toks in let (xs, r') = parse_list r in (x :: xs, r')
let zi s = z_of_int (int_of_string s)
let ni s = nat_of_int (int_of_string s)
let fn_of = function
  | L [A "add"; A k] -> FAdd (zi k) | L [A "mul"; A k] -> FMul (zi k)
  | L [A "throwif"; A x; A e] -> FThrowIf (zi x, zi e)
  | _ -> failwith "fn"
let pred_of = function
  | L [A "lt"; A k] -> PLt (zi k) | L [A "ne"; A k] -> PNe (zi k) | L [A "even"] -> PEven
  | L [A "pthrowif"; A x; A e] -> PThrowIf (zi x, zi e)
  | _ -> failwith "pred"
let rfn_of = function
  | L [A "sum"] -> RSum | L [A "horner"] -> RHorner | L [A "rthrowif"; A x; A e] -> RThrowIf (zi x, zi e)
  | _ -> failwith "rfn"
let cons_of = function
  | L [A "reduce"; A i; f] -> CReduce (zi i, rfn_of f)
  | L [A "foreach"; g] -> CForEach (fn_of g)
  | _ -> failwith "cons"
let ad_of = function
  | L [A "id"] -> AId | L [A "then"; f] -> AThen (fn_of f)
  | L [A "avia"; A i] -> AVia (ni i) | L [A "atvia"; A i] -> ATypedVia (ni i)
  | L [A "aon"; A i] -> AOn (ni i) | L [A "adelay"; A i; A d] -> ADelay (ni i, ni d)
  | _ -> failwith "sadapt"
let rec ex = function
  | L [A "range"; A a; A b] -> SRange (zi a, zi b)
  | L [A "single"; A v] -> SSingle (zi v)
  | L [A "src"; A i; A r] -> SSrc (ni i, r = "1")
  | L [A "never"] -> SNever
  | L [A "tr"; f; s] -> STransform (fn_of f, ex s)
  | L [A "fi"; p; s] -> SFilter (pred_of p, ex s)
  | L [A "tu"; s; A t; A r] -> STakeUntil (ex s, ni t, r = "1")
  | L [A "si"; s] -> SStopImm (ex s)
  | L [A "te"; s] -> STypeErase (ex s)
  | L [A "na"; a; s] -> SNextAdapt (ad_of a, ex s)
  | L [A "ca"; a; s] -> SCleanupAdapt (ad_of a, ex s)
  | L [A "ad1"; a; s] -> SAdapt1 (ad_of a, ex s)
  | L [A "ad2"; a; c; s] -> SAdapt2 (ad_of a, ad_of c, ex s)
  | L [A "via"; A i; s] -> via_stream (ni i) (ex s)
  | L [A "tvia"; A i; s] -> typed_via_stream (ni i) (ex s)
  | L [A "on"; A i; s] -> on_stream (ni i) (ex s)
  | L [A "delay"; A i; A d; s] -> delay (ni i) (ni d) (ex s)
  | _ -> failwith "stexpr"
let i z = string_of_int (int_of_z z)
let n x = string_of_int (int_of_nat x)
let b01 b = if b then "1" else "0"
let str_fn = function
  | FAdd k -> "add(" ^ i k ^ ")" | FMul k -> "mul(" ^ i k ^ ")"
  | FThrowIf (x, e) -> "throwif(" ^ i x ^ "," ^ i e ^ ")"
let str_pred = function
  | PLt k -> "lt(" ^ i k ^ ")" | PNe k -> "ne(" ^ i k ^ ")" | PEven -> "even()"
  | PThrowIf (x, e) -> "pthrowif(" ^ i x ^ "," ^ i e ^ ")"
let str_out = function OVal v -> "value " ^ i v | OErr e -> "error " ^ i e | ODone -> "done"
let render = function
  | XT (TNextStart (id, k, st)) -> Printf.sprintf "nstart %s %s stopped=%s" (n id) (n k) (b01 st)
  | XT (TNextStopSeen (id, k)) -> Printf.sprintf "nstop %s %s" (n id) (n k)
  | XT (TNextDone (id, k, o)) -> Printf.sprintf "ndone %s %s %s" (n id) (n k) (str_out o)
  | XT (TCleanupStart id) -> Printf.sprintf "cstart %s" (n id)
  | XT (TCleanupDone (id, o)) -> Printf.sprintf "cdone %s %s" (n id) (str_out o)
  | XT (TOpDel id) -> Printf.sprintf "opdel C %s" (n id)
  | XT (TCall (f, x)) -> Printf.sprintf "call %s %s" (str_fn f) (i x)
  | XT (TPred (p, x)) -> Printf.sprintf "pred %s %s" (str_pred p) (i x)
  | XT (THop (sid, d)) -> Printf.sprintf "hop %s %s" (n sid) (n d)
  | XT TFire -> "fire"
  | XT (TUaf k) -> "uaf " ^ n k
  | XFeed (a, x) -> Printf.sprintf "feed %s %s" (i a) (i x)
  | XRoot o -> "root " ^ str_out o
  | XSkip -> "skip"
let outcome_of t c =
  let k = t.[c + 1] in
  let v = if String.length t > c + 2 then int_of_string (String.sub t (c + 2) (String.length t - c - 2)) else 0 in
  match k with 'v' -> OVal (z_of_int v) | 'e' -> OErr (z_of_int v) | _ -> ODone
let script_of toks = List.map (fun t ->
    if t = "S" then EvStop else if t = "A" then EvArm else
      let c = String.index t ':' in
      let id = nat_of_int (int_of_string (String.sub t 1 (c - 1))) in
      if t.[0] = 'C' then EvClean (id, outcome_of t c) else EvNext (id, outcome_of t c)) toks
let () =
  Registry.register "scalc" (fun args ->
    let rec split acc = function [] -> (List.rev acc, []) | "|" :: r -> (List.rev acc, r) | x :: r -> split (x :: acc) r in
    match args with
    | vr :: pre :: rest ->
      let (etoks, stoks) = split [] rest in
      let toks = tokenize (String.concat " " etoks) in
      let (csx, toks') = parse toks in
      let (esx, _) = parse toks' in
      let v = if vr = "fixed" then fixed else if vr = "as_written" then as_written
        else if String.length vr = 4 then
          { v_tu_fixed = (vr.[0] = '1'); v_si_fixed = (vr.[1] = '1'); v_sierr_fixed = (vr.[2] = '1'); v_te_fixed = (vr.[3] = '1') }
        else failwith "variant" in
      let rs = exec v (cons_of csx) (ex esx) (nat_of_int (int_of_string pre)) (script_of stoks) in
      String.concat ";" (List.map render (x_tr rs)) ^ " # roots=" ^ string_of_int (int_of_nat (x_roots rs))
    | _ -> "ERR args")
