open Model
open Conv
open Canary
let b01 b = if b then "1" else "0"
let n = int_of_nat
(* pointer values: 0 null, 2 set, 3 locked *)
let pv nm v = match n v with 0 -> "0" | 2 -> nm | 3 -> nm ^ "|1" | k -> string_of_int k
let cas loc nm o w ok =
  if ok then Printf.sprintf "%s C.acq_rel %s->%s ok" loc (pv nm o) (pv nm w)
  else Printf.sprintf "%s C.acq %s->%s fail" loc (pv nm o) (pv nm w)
let render = function
  | EWsC (o, w, ok) ->
    if ok then Printf.sprintf "ws C.acq_rel %d->%d ok" (n o) (n w)
    else Printf.sprintf "ws C.acq %d->%d fail" (n o) (n w)
  | EWsS v -> Printf.sprintf "ws S.rel %d" (n v)
  | EWsX (o, w) -> Printf.sprintf "ws X.acq_rel %d->%d" (n o) (n w)
  | EWsL v -> Printf.sprintf "ws L.acq %d" (n v)
  | EWcL v -> "wc L.rlx " ^ pv "C" v
  | EWcLa v -> "wc L.acq " ^ pv "C" v
  | EWcC (o, w, ok) -> cas "wc" "C" o w ok
  | EWcS v -> "wc S.rel " ^ pv "C" v
  | ECwL v -> "cw L.rlx " ^ pv "W" v
  | ECwLa v -> "cw L.acq " ^ pv "W" v
  | ECwC (o, w, ok) -> cas "cw" "W" o w ok
  | ECwS v -> "cw S.rel " ^ pv "W" v
  | EUse -> "use"
  | EWGone -> "w_gone"
  | ECGone -> "c_gone"
let () =
  (* canary <watched 0|1> <ask 0|1> | tid tid ... *)
  Registry.register "canary" (fun args ->
    match args with
    | w :: a :: "|" :: tids ->
      let p = { watched = (w = "1"); ask = (a = "1") } in
      let step t s = Canary.step p (nat_of_int t) s in
      let (st, tr) = Lockstep.run step render (Canary.init p) (ints_of_words tids) in
      Printf.sprintf "%s # late=%d blocked_unheld=%s quiescent=%s guard=%s" tr
        (n (Canary.late st)) (b01 (Canary.blocked_unheld st)) (b01 (Canary.quiescent p st))
        (match Canary.guard st with None -> "none" | Some g -> b01 g)
    | _ -> "ERR args")
