(* handler "asyncstack": runs a traced run (per-thread forests of start / completion / sync_wait brackets,
   reconstructed from the implementation's snapshots by tools/props/c20.py) on the extracted AsyncStack
   model and prints the model's snapshot of the stepping thread's root chain at every observation point.
     asyncstack <pars> | <thread 0 forest> ; <thread 1 forest> ; ...
       pars   : comma separated parent op ids, '-' for none
       forest : (S n ...) (C n ...) (W n m ...) (L ...) (O tag)
   and "asyncgen <wait 0|1> <nthreads> <aexp> | id@thread ..." : the generator of runs of the model.
   Scheduling: lowest enabled thread first that is not waiting in sync_wait; all schedules are covered
   by the theorems, the tie replays one. *)
open Model
open Conv
open AsyncStack
type sx = A of string | L of sx list
let tokenize s =
  let b = Buffer.create 16 and out = ref [] in
  let flush () = if Buffer.length b > 0 then (out := Buffer.contents b :: !out; Buffer.clear b) in
  String.iter (fun c -> match c with
    | '(' | ')' -> flush (); out := String.make 1 c :: !out
    | ' ' | '\t' -> flush ()
    | c -> Buffer.add_char b c) s;
  flush (); List.rev !out
let rec parse toks = match toks with
  | "(" :: r -> let (items, r') = parse_list r in (L items, r')
  | a :: r -> (A a, r)
  | [] -> failwith "eof"
and parse_list toks = match toks with
  | ")" :: r -> ([], r)
  | [] -> failwith "eof in list"
  | _ -> let (x, r) = parse toks in let (xs, r') = parse_list r in (x :: xs, r')
let rec parse_all toks = match toks with [] -> [] | _ -> let (x, r) = parse toks in x :: parse_all r
let ni s = nat_of_int (int_of_string s)
let rec act_of = function
  | L (A "S" :: A n :: body) -> AStart (ni n, List.map act_of body)
  | L (A "C" :: A n :: body) -> AComplete (ni n, List.map act_of body)
  | L (A "W" :: A n :: A m :: body) -> AWait (ni n, ni m, List.map act_of body)
  | L (A "L" :: body) -> ALoop (List.map act_of body)
  | L [A "O"; A t] -> AObs (ni t)
  | _ -> failwith "act"
let rec aexp_of = function
  | L [A "leaf"; A i] -> XLeaf (ni i) | L [A "inl"] -> XInl
  | L [A "un"; a] -> XUn (aexp_of a) | L [A "seq"; a; b] -> XSeq (aexp_of a, aexp_of b)
  | L [A "par"; a; b] -> XPar (aexp_of a, aexp_of b)
  | _ -> failwith "aexp"
let rec str_act = function
  | AStart (n, b) -> "(S " ^ String.concat " " (string_of_int (int_of_nat n) :: List.map str_act b) ^ ")"
  | AComplete (n, b) -> "(C " ^ String.concat " " (string_of_int (int_of_nat n) :: List.map str_act b) ^ ")"
  | AWait (n, m, b) -> "(W " ^ String.concat " " (string_of_int (int_of_nat n) :: string_of_int (int_of_nat m) :: List.map str_act b) ^ ")"
  | ALoop b -> "(L " ^ String.concat " " (List.map str_act b) ^ ")"
  | AObs t -> "(O " ^ string_of_int (int_of_nat t) ^ ")"
let split_on sep l =
  let rec go acc cur = function
    | [] -> List.rev (List.rev cur :: acc)
    | x :: r when x = sep -> go (List.rev cur :: acc) [] r
    | x :: r -> go acc (x :: cur) r in
  go [] [] l
let fuel = nat_of_int 200
let str_frame s f =
  let fi = int_of_nat f and no = int_of_nat (nops s) in
  if fi < no then "o" ^ string_of_int fi else "c" ^ string_of_int (fi - no)
let snapshot s t =
  let rs = root_chain s fuel (cur s t) in
  if rs = [] then "none" else
  String.concat " " (List.map (fun r ->
    let ro = roots s r in
    match r_top ro with
    | None -> "E:-"
    | Some f ->
      let k = if int_of_nat f < int_of_nat (nops s) then "S" else "C" in
      k ^ ":" ^ String.concat ">" (List.map (str_frame s) (chain s fuel f))
        ^ (match f_root (frames s f) with Some r' when r' = r -> "" | _ -> "!cache")) rs)
let opt = function None -> "-" | Some r -> string_of_int (int_of_nat r)
let run_model pars progs =
  let s0 = init pars progs in
  let nt = List.length progs in
  let buf = Buffer.create 256 in
  let add x = if Buffer.length buf > 0 then Buffer.add_char buf ';'; Buffer.add_string buf x in
  let nacts = ref 0 and ndeacts = ref 0 and nassert = ref 0 and steps = ref 0 in
  let rec go s =
    if !steps > 200000 then s else
    (* first thread that can move *)
    let rec pick t = if t >= nt then None else
        match step (nat_of_int t) s with Some (s', evs) -> Some (t, s', evs) | None -> pick (t + 1) in
    match pick 0 with
    | None -> s
    | Some (t, s', evs) ->
      incr steps;
      List.iter (function
        | EObs tag -> add (Printf.sprintf "obs %d t%d %s" (int_of_nat tag) t (snapshot s' (nat_of_int t)))
        | EActivate _ -> incr nacts
        | EDeactivate _ -> incr ndeacts
        | EEnsure (_, Some _) -> incr ndeacts
        | EAssert w -> incr nassert; add (Printf.sprintf "ASSERT %d t%d" (int_of_nat w) t)
        | _ -> ()) evs;
      go s' in
  let s = go s0 in
  let curs = String.concat "," (List.init nt (fun t -> opt (cur s (nat_of_int t)))) in
  let live = ref 0 in
  for r = 0 to int_of_nat (nroots s) - 1 do if r_live (roots s (nat_of_int r)) then incr live done;
  let stale = ref 0 in
  for f = 0 to int_of_nat (nops s) - 1 do
    (match f_root (frames s (nat_of_int f)) with Some _ -> incr stale | None -> ()) done;
  Printf.sprintf "%s # failed=%s quiescent=%s cur=%s live_roots=%d acts=%d deacts=%d asserts=%d stalecache=%d"
    (Buffer.contents buf) (if failed s then "1" else "0") (if quiescent s then "1" else "0") curs !live !nacts !ndeacts
    !nassert !stale
let () =
  Registry.register "asyncstack" (fun args ->
    match split_on "|" args with
    | [[ps]; rest] ->
      let pars = List.map (fun x -> if x = "-" then None else Some (ni x)) (String.split_on_char ',' ps) in
      let progs = List.map (fun ws -> List.map act_of (parse_all (tokenize (String.concat " " ws)))) (split_on ";" rest) in
      run_model pars progs
    | _ -> "ERR args");
  Registry.register "asyncgen" (fun args ->
    match split_on "|" args with
    | [w :: nt :: etoks; sc] ->
      let (sx, _) = parse (tokenize (String.concat " " etoks)) in
      let script = List.map (fun x -> match String.split_on_char '@' x with
          | [i; t] -> (ni i, ni t) | _ -> failwith "script") sc in
      let (pars, progs) = gen (aexp_of sx) (w = "1") (ni nt) script in
      let ps = String.concat "," (List.map opt pars) in
      ps ^ " | " ^ String.concat " ; " (List.map (fun p -> String.concat " " (List.map str_act p)) progs)
        ^ " => " ^ run_model pars progs
    | _ -> "ERR args")
