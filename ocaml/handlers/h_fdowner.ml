open Model
open Conv
open FdOwner
(* fdowner <exch 0|1> <reuse 0|1> <nslots> | op op ...     ops: n<i> e<i> c<i>,<j> a<i>,<j> x<i> d<i> o
   output (the format of harness/k3_fdowner.cpp):
     log: o<n> = the kernel handed out n; c<n>:ok / c<n>:EBADF = close(n)
     slots: per slot  - (dead)  e (alive, fd_ = -1)  <n> (alive, fd_ = n)
     open: the numbers open at the end *)
let parse_op w =
  let two s = match String.split_on_char ',' s with [a; b] -> (nat_of_int (int_of_string a), nat_of_int (int_of_string b)) | _ -> failwith "op" in
  let arg = String.sub w 1 (String.length w - 1) in
  match w.[0] with
  | 'n' -> ONew (nat_of_int (int_of_string arg))
  | 'e' -> OEmpty (nat_of_int (int_of_string arg))
  | 'c' -> let (i, j) = two arg in OMoveCtor (i, j)
  | 'a' -> let (i, j) = two arg in OMoveAssign (i, j)
  | 'x' -> OClose (nat_of_int (int_of_string arg))
  | 'd' -> ODestroy (nat_of_int (int_of_string arg))
  | 'o' -> OOther
  | _ -> failwith "op"
let show_ev = function
  | EOpen n -> Printf.sprintf "o%d" (int_of_nat n)
  | EClose (n, Some _) -> Printf.sprintf "c%d:ok" (int_of_nat n)
  | EClose (n, None) -> Printf.sprintf "c%d:EBADF" (int_of_nat n)
let () =
  Registry.register "fdowner" (fun args ->
    match args with
    | exch :: reuse :: k :: "|" :: ops ->
      let st = FdOwner.run_ops (exch = "1") (reuse = "1") (List.map parse_op ops) in
      let k = int_of_string k in
      let slot i = match st.slots (nat_of_int i) with
        | None -> "-" | Some None -> "e" | Some (Some n) -> string_of_int (int_of_nat n) in
      Printf.sprintf "log=%s slots=%s open=%s"
        (str_list show_ev st.log)
        (String.concat "," (List.init k slot))
        (str_list (fun (n, _) -> string_of_int (int_of_nat n)) (List.sort compare (List.map (fun (n, i) -> (int_of_nat n, i)) st.tbl) |> List.map (fun (n, i) -> (nat_of_int n, i))))
    | _ -> "ERR args")
