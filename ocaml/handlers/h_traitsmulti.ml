open Model
open Conv
(* traitsmulti <LV|LE|WA|SW|VAR|SEQ> <start ctx> <thrown 0|1> <sel> | <comp> <comp> ...
     comp = <blocking>/<sends_done>/<affine>:<I|S|A>:<v<i>|e<j>|d>:<ctx>    (ctx 0 = the start context, d > 0 = context d)
            declared traits of the component (integers as unifex::blocking_kind::_enum) and the ONE behaviour picked for it
     LV / LE : first comp = predecessor / source, the others = the successor / final sender types in signature order
     WA      : the children; <sel> = completion order i,j,k
     SW      : stop_when: source, trigger; <sel> = completion order over 0 = source, 1 = trigger
     VAR     : the alternatives; <sel> = index of the active alternative
     SEQ     : the senders in order
   ->  T <blocking>/<sends_done>/<affine> rt=<blocking> | O <I|S|A> <outcome> <ctx> | sound=<0|1> comps=<0|1>
   mirrored traits (Calc/TraitsMultiDefs.v), the observation of the model's semantics, whether the mirrored
   traits are sound for it, whether every component's declared traits are sound for its picked behaviour *)
let bk_of_int = function
  | 0 -> CalcTraits.BAlwaysInline | 1 -> CalcTraits.BAlways | 2 -> CalcTraits.BMaybe | 3 -> CalcTraits.BNever
  | n -> failwith ("blocking kind " ^ string_of_int n)
let int_of_bk = H_calc_traits.bk_int
let b01 b = if b then "1" else "0"
let time_of = function "I" -> TraitsMulti.TInline | "S" -> TraitsMulti.TSync | "A" -> TraitsMulti.TAsync | s -> failwith ("timing " ^ s)
let str_time = function TraitsMulti.TInline -> "I" | TraitsMulti.TSync -> "S" | TraitsMulti.TAsync -> "A"
let out_of s =
  if s = "d" then TraitsMulti.ODone
  else let n = nat_of_int (int_of_string (String.sub s 1 (String.length s - 1))) in
    match s.[0] with 'v' -> TraitsMulti.OVal n | 'e' -> TraitsMulti.OErr n | _ -> failwith ("outcome " ^ s)
let str_out = function
  | TraitsMulti.ODone -> "d" | TraitsMulti.OVal n -> "v" ^ string_of_int (int_of_nat n)
  | TraitsMulti.OErr n -> "e" ^ string_of_int (int_of_nat n)
let parse_comp w =
  match String.split_on_char ':' w with
  | [d; t; o; c] ->
    (match List.map int_of_string (String.split_on_char '/' d) with
     | [b; s; a] ->
       let tr = { CalcTraits.t_blocking = bk_of_int b; CalcTraits.t_sends_done = (s = 1); CalcTraits.t_affine = (a = 1) } in
       let c = int_of_string c in
       let bh = { TraitsMulti.b_time = time_of t; TraitsMulti.b_out = out_of o;
                  TraitsMulti.b_ctx = (if c = 0 then None else Some (nat_of_int c)) } in
       (tr, bh)
     | _ -> failwith ("declared " ^ d))
  | _ -> failwith ("component " ^ w)
let str_traits t rt =
  Printf.sprintf "T %d/%s/%s rt=%d" (int_of_bk t.CalcTraits.t_blocking) (b01 t.CalcTraits.t_sends_done)
    (b01 t.CalcTraits.t_affine) (int_of_bk rt)
let str_obs o =
  Printf.sprintf "O %s %s %d" (str_time o.TraitsMulti.o_time) (str_out o.TraitsMulti.o_out) (int_of_nat o.TraitsMulti.o_ctx)
let () =
  Registry.register "traitsmulti" (fun args ->
    let (a, cs) = H_findif.split_bar args in
    match a with
    | [comb; c; thrown; sel] ->
      let c = nat_of_int (int_of_string c) and thrown = (thrown = "1") in
      let comps = List.map parse_comp cs in
      let trs = List.map fst comps and bhs = List.map snd comps in
      let sel_list () = if sel = "-" then [] else List.map (fun x -> nat_of_int (int_of_string x)) (String.split_on_char ',' sel) in
      let (t, rt, o) =
        match comb, trs, bhs with
        | "LV", p :: ss, pb :: sbs ->
          (TraitsMulti.tr_let_value p ss, TraitsMulti.rt_let_value p.CalcTraits.t_blocking ss,
           TraitsMulti.let_value_obs c pb sbs thrown)
        | "LE", p :: ss, pb :: sbs ->
          (TraitsMulti.tr_let_error p ss, TraitsMulti.rt_let_error p.CalcTraits.t_blocking ss,
           TraitsMulti.let_error_obs c pb sbs thrown)
        | "WA", _, _ ->
          (TraitsMulti.tr_when_all trs, TraitsMulti.rt_when_all trs, TraitsMulti.when_all_obs c bhs (sel_list ()))
        | "SW", [sr; tg], [sb; tb] ->
          (Some (TraitsMulti.tr_stop_when sr tg),
           Some (TraitsMulti.rt_stop_when sr.CalcTraits.t_blocking tg.CalcTraits.t_blocking),
           TraitsMulti.stop_when_obs c sb tb (sel_list ()))
        | "VAR", _, _ ->
          let k = int_of_string sel in
          (TraitsMulti.tr_variant trs, TraitsMulti.rt_variant trs,
           (match List.nth_opt bhs k with Some b -> Some (TraitsMulti.variant_obs c b) | None -> None))
        | "SEQ", f :: r, fb :: rbs ->
          (Some (TraitsMulti.tr_sequence_n f r), Some (TraitsMulti.rt_sequence_n f r), Some (TraitsMulti.sequence_obs c fb rbs))
        | _ -> failwith ("combinator " ^ comb) in
      let comps_sound = List.for_all (fun (tr, bh) -> TraitsMulti.sound_beh tr bh) comps in
      let ts = match t, rt with Some t, Some rt -> str_traits t rt | _ -> "T ill-formed" in
      let os = match o with Some o -> str_obs o | None -> "O none" in
      let snd_ = match t, o with Some t, Some o -> b01 (TraitsMulti.sound_obs t c o) | _ -> "-" in
      Printf.sprintf "%s | %s | sound=%s comps=%s" ts os snd_ (b01 comps_sound)
    | _ -> "ERR args")
