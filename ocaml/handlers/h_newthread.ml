open Model
open Conv
open NewThread
(* newthread <counts: n1,n2,..> <stops: x.j,..|-> | tid tid ... *)
let str_item (p, j) = Printf.sprintf "%d.%d" (int_of_nat p) (int_of_nat j)
let item_of_string s =
  match String.split_on_char '.' s with
  | [p; j] -> (nat_of_int (int_of_string p), nat_of_int (int_of_string j))
  | _ -> failwith "item"
let kind b = if b then "done" else "value"
let render = function
  | ECount (add, o) -> let o = int_of_nat o in
    if add then Printf.sprintf "count A.rlx %d->%d" o (o + 1) else Printf.sprintf "count U.rlx %d->%d" o (o - 1)
  | ELoadCount v -> Printf.sprintf "count L.rlx %d" (int_of_nat v)
  | ECLock -> "cm ML" | ECUnlock -> "cm MU" | ECWait -> "cv CW" | ECNotify -> "cv CN"
  | EOpLock it -> Printf.sprintf "op %s ML" (str_item it)
  | EOpUnlock it -> Printf.sprintf "op %s MU" (str_item it)
  | EObs (it, b) -> Printf.sprintf "obs %s %d" (str_item it) (if b then 1 else 0)
  | ERun (it, b) -> Printf.sprintf "run %s %s" (str_item it) (kind b)
  | EJoin -> "join"
  | ESpurious -> "spurious"
let commas s = if s = "-" || s = "" then [] else String.split_on_char ',' s
let () =
  Registry.register "newthread" (fun args ->
    match args with
    | counts :: stops :: "|" :: tids ->
      let cs = List.map (fun x -> nat_of_int (int_of_string x)) (commas counts) in
      let sl = List.map item_of_string (commas stops) in
      let step t s = NewThread.step (nat_of_int t) s in
      let (st, tr) = Lockstep.run step render (NewThread.init cs sl) (ints_of_words tids) in
      Printf.sprintf "%s # final=%d count=%d completed=%s retired=%s" tr
        (if NewThread.final st then 1 else 0) (int_of_nat st.NewThread.count)
        (str_list (fun (it, b) -> str_item it ^ ":" ^ kind b) st.NewThread.completed)
        (str_list str_item st.NewThread.retired)
    | _ -> "ERR args")
