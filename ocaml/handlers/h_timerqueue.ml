(* K1 handler for the TimerQueue model (coq/Proto/TimerQueueDefs.v):
   timerqueue <now0> <spec,spec,...> | tid tid ...     spec = a<d> (schedule_after d) or t<T> (schedule_at T) *)
open Model
open Conv
open TimerQueue
let zi z = string_of_z z
let ni n = string_of_int (int_of_nat n)
let render = function
  | EStart i -> "start " ^ ni i
  | ESrcCas (i, strong, o, n) -> Printf.sprintf "src%s C.%s %s->%s ok" (ni i) (if strong then "acq_rel" else "acq") (zi o) (zi n)
  | ESrcSt (i, v) -> Printf.sprintf "src%s S.rel %s" (ni i) (zi v)
  | ESrcObs (i, v) -> Printf.sprintf "src%s L.rlx %s" (ni i) (zi v)
  | ESrcLd (i, v) -> Printf.sprintf "src%s L.acq %s" (ni i) (zi v)
  | ECbDone i -> Printf.sprintf "cb%s S.rel 1" (ni i)
  | ECbSeen i -> Printf.sprintf "cb%s L.acq 1" (ni i)
  | EML -> "mutex ML" | EMU -> "mutex MU" | ECW -> "cv CW" | ECN -> "cv CN"
  | EFire (i, t) -> Printf.sprintf "fire %s %s" (ni i) (zi t)
  | EDone (i, t) -> Printf.sprintf "done %s %s" (ni i) (zi t)
  | EClock t -> "clock " ^ zi t
  | EJoin -> "join"
let spec_of s =
  let v = z_of_string (String.sub s 1 (String.length s - 1)) in
  (s.[0] = 'a', v)
let () =
  Registry.register "timerqueue" (fun args ->
    match args with
    | now0 :: specs :: "|" :: tids ->
      let sp = List.map spec_of (List.filter (fun x -> x <> "") (String.split_on_char ',' specs)) in
      let step t s = TimerQueue.step (nat_of_int t) s in
      let (st, tr) = Lockstep.run step render (TimerQueue.init (z_of_string now0) sp) (ints_of_words tids) in
      Printf.sprintf "%s # completions=%s queue=%s quiescent=%s now=%s" tr
        (str_list ni (TimerQueue.completions st)) (str_list ni (TimerQueue.queue_ids st))
        (if TimerQueue.quiescent st then "1" else "0") (zi (TimerQueue.now st))
    | _ -> "ERR args")

(* unsafeloop <uninit|null> <now0> <spec,spec,...> | tid tid ...   (coq/Proto/UnsafeLoopDefs.v) *)
let render_ul = function
  | UnsafeLoop.EStart i -> "start " ^ ni i
  | UnsafeLoop.EStop i -> "stop " ^ ni i
  | UnsafeLoop.EUninit i -> "uninit " ^ ni i
  | UnsafeLoop.EFire (i, t) -> Printf.sprintf "fire %s %s" (ni i) (zi t)
  | UnsafeLoop.EDone (i, t) -> Printf.sprintf "done %s %s" (ni i) (zi t)
  | UnsafeLoop.EClock t -> "clock " ^ zi t
  | UnsafeLoop.EEnter -> "enter"
  | UnsafeLoop.EExit -> "exit"
let () =
  Registry.register "unsafeloop" (fun args ->
    match args with
    | l0 :: now0 :: specs :: "|" :: tids ->
      let sp = List.map spec_of (List.filter (fun x -> x <> "") (String.split_on_char ',' specs)) in
      let l0 = if l0 = "null" then UnsafeLoop.LNull else UnsafeLoop.LUninit in
      let step t s = UnsafeLoop.step (nat_of_int t) s in
      let (st, tr) = Lockstep.run step render_ul (UnsafeLoop.init l0 (z_of_string now0) sp) (ints_of_words tids) in
      Printf.sprintf "%s # completions=%s queue=%s crashed=%s inloop=%s now=%s" tr
        (str_list ni (UnsafeLoop.completions st)) (str_list ni (UnsafeLoop.queue_ids st))
        (if UnsafeLoop.crashed st then "1" else "0") (if UnsafeLoop.inloop st then "1" else "0") (zi (UnsafeLoop.now st))
    | _ -> "ERR args")
