open Model
open Conv
(* predicate: offsets listed after '|' match *)
let pred_of hits = fun z -> List.mem (int_of_z z) hits
let split_bar args =
  let rec go acc = function [] -> (List.rev acc, []) | "|" :: r -> (List.rev acc, r) | x :: r -> go (x :: acc) r in go [] args
let show (r, v) = Printf.sprintf "%d [%s]" (int_of_z r) (str_list (fun z -> string_of_int (int_of_z z)) v)
let () =
  Registry.register "find_par" (fun args -> let (a, h) = split_bar args in
    let n = int_of_string (List.hd a) in show (find_par (pred_of (ints_of_words h)) (z_of_int n)));
  Registry.register "find_par_w" (fun args -> let (a, h) = split_bar args in
    let n = int_of_string (List.hd a) in show (find_par_w (pred_of (ints_of_words h)) (z_of_int n)));
  Registry.register "find_seq" (fun args -> let (a, h) = split_bar args in
    let n = int_of_string (List.hd a) in show (find_seq (pred_of (ints_of_words h)) (z_of_int n)));
  Registry.register "bulk_indices" (fun args ->
    match args with
    | [n; k] ->
      let sa = if k = "none" then None else Some (z_of_int (int_of_string k)) in
      let (v, t) = bulk_indices (z_of_int (int_of_string n)) sa in
      Printf.sprintf "%s [%s]" (match t with TValue -> "value" | TDone -> "done")
        (str_list (fun z -> string_of_int (int_of_z z)) v)
    | _ -> "ERR args")
