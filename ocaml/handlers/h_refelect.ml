open Model
open Conv
open RefElect
let outcome_of_char = function 'v' -> OVal | 'e' -> OErr | _ -> ODone
let str_outcome = function OVal -> "value" | OErr -> "error" | ODone -> "done"
let b01 b = if b then "1" else "0"
let render = function
  | ERc (sub, o, n) -> Printf.sprintf "rc %s %d->%d" (if sub then "U.acq_rel" else "A.rlx") (int_of_z o) (int_of_z n)
  | EDoeX o -> Printf.sprintf "doe X.rlx %s->1" (b01 o)
  | EDoeL v -> Printf.sprintf "doe L.rlx %s" (b01 v)
  | EExtSet -> "ext SET"
  | EExtObs b -> Printf.sprintf "ext OBS %s" (b01 b)
  | ERoot o -> "root " ^ str_outcome o
let () =
  (* refelect <outcomes> | tid tid ... *)
  Registry.register "refelect" (fun args ->
    match args with
    | outs :: "|" :: tids ->
      let os = List.init (String.length outs) (fun i -> outcome_of_char outs.[i]) in
      let step t s = RefElect.step (nat_of_int t) s in
      let (st, tr) = Lockstep.run step render (RefElect.init os) (ints_of_words tids) in
      Printf.sprintf "%s # delivered=%s quiescent=%s" tr
        (str_list str_outcome (List.rev (RefElect.delivered st))) (b01 (RefElect.quiescent st))
    | _ -> "ERR args")
