open Model
open Conv
open SrThunk
(* srthunk <v|e|d> <ignored program words> | tid tid ...   (logical threads: 0 callback, 1 deferred stop, 2 completion) *)
let kname = function Some k -> (match int_of_nat k with 0 -> "value" | 1 -> "error" | _ -> "done") | None -> "unset"
let render = function
  | ERc (sub, o, n) -> Printf.sprintf "rc %s %d->%d" (if sub then "U.acq_rel" else "A.rlx") (int_of_z o) (int_of_z n)
  | EEnq -> "enq"
  | ERoot k -> "root " ^ kname k
let () =
  Registry.register "srthunk" (fun args ->
    let rec split = function [] -> [] | "|" :: r -> r | _ :: r -> split r in
    let tids = split args in
    let k = match args with w :: _ when w = "e" -> 1 | w :: _ when w = "d" -> 2 | _ -> 0 in
    let step t s = SrThunk.step (nat_of_int t) s in
    let (st, tr) = Lockstep.run step render (SrThunk.init (nat_of_int k)) (ints_of_words tids) in
    Printf.sprintf "%s # resumed=%d quiescent=%s" tr (List.length (SrThunk.resumed st))
      (if SrThunk.quiescent st then "1" else "0"))
