open Model
open Conv
open MutexV1
let b01 b = if b then "1" else "0"
let str_wv = function WInact -> "INACT" | WNull -> "0" | WPtr j -> "w" ^ string_of_int (int_of_nat j)
let render = function
  | ELd v -> "aq L.rlx " ^ str_wv v
  | ECasLock (o, n, ok) ->
    if ok then Printf.sprintf "aq C.acq_rel %s->%s ok" (str_wv o) (str_wv n)
    else Printf.sprintf "aq C.acq %s->%s fail" (str_wv o) (str_wv n)
  | ECasTry (o, ok) ->
    if ok then "aq C.acq INACT->0 ok" else Printf.sprintf "aq C.rlx %s->0 fail" (str_wv o)
  | ECasUnl (o, ok) ->
    if ok then "aq C.rel 0->INACT ok" else Printf.sprintf "aq C.rlx %s->INACT fail" (str_wv o)
  | EXchg o -> Printf.sprintf "aq X.acq %s->0" (str_wv o)
  | EAcquire (i, _) -> "acquire " ^ string_of_int (int_of_nat i)
  | ERelease i -> "release " ^ string_of_int (int_of_nat i)
  | ETryFail t -> "tryfail " ^ string_of_int (int_of_nat t)
let () =
  (* mutexv1 <nlock> <ntry> | tid tid ... *)
  Registry.register "mutexv1" (fun args ->
    match args with
    | nl :: nt :: "|" :: tids ->
      let step t s = MutexV1.step (nat_of_int t) s in
      let s0 = MutexV1.init (nat_of_int (int_of_string nl)) (nat_of_int (int_of_string nt)) in
      let (st, tr) = Lockstep.run step render s0 (ints_of_words tids) in
      Printf.sprintf "%s # quiescent=%s holders=%d waiting=%d unlocked=%s pending=%d" tr
        (b01 (MutexV1.quiescent st)) (int_of_nat (MutexV1.holders st)) (int_of_nat (MutexV1.waiting st))
        (b01 (match MutexV1.w st with None -> true | Some _ -> false))
        (List.length (MutexV1.pend st))
    | _ -> "ERR args")
