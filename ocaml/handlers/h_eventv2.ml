(* v2::async_manual_reset_event: lock-step handler for model EventV2 (coq/Proto/EventV2Defs.v).
   eventv2 <fixed 0|1> <sig0 0|1> <prog> <prog> ... | tid tid ...
   prog: string over S (set) R (reset) Y (ready) W<d> (start wait d) X<d> (request stop on the source of
   wait d); any other character (K = the driver's kick, '-') is skipped, so a K-only thread is an empty program. *)
open Model
open Conv
open EventV2
let parse_prog (s : string) : cmd list =
  let n = String.length s in
  let rec go i acc =
    if i >= n then List.rev acc else
      match s.[i] with
      | 'S' -> go (i + 1) (CSet :: acc)
      | 'R' -> go (i + 1) (CReset :: acc)
      | 'Y' -> go (i + 1) (CReady :: acc)
      | 'W' -> go (i + 2) (CWait (nat_of_int (Char.code s.[i + 1] - 48)) :: acc)
      | 'X' -> go (i + 2) (CStop (nat_of_int (Char.code s.[i + 1] - 48)) :: acc)
      | _ -> go (i + 1) acc in
  go 0 []
let b01 b = if b then "1" else "0"
let n2s n = string_of_int (int_of_nat n)
let hv = function VNil -> "NIL" | VLatch -> "LATCH" | VW w -> "w" ^ n2s w
let render = function
  | EReg (w, inl) -> Printf.sprintf "w%s register%s" (n2s w) (if inl then " inline" else "")
  | ECsOr (w, o, n) -> Printf.sprintf "w%s.state O.acq_rel %s->%s" (n2s w) (n2s o) (n2s n)
  | ECsLd (w, v) -> Printf.sprintf "w%s.state L.acq %s" (n2s w) (n2s v)
  | EHeadAcq v -> Printf.sprintf "evt.head C.acq %s->%s|1 ok" (hv v) (hv v)
  | EHeadRel v -> "evt.head S.rel " ^ hv v
  | EHeadLd l -> "evt.head L.acq " ^ (if l then "LATCH" else "-")
  | EReady b -> "ready=" ^ b01 b
  | ESyncLd (w, v) -> Printf.sprintf "w%s.sync L.acq %s" (n2s w) (b01 v)
  | ESyncSt w -> Printf.sprintf "w%s.sync S.rel 1" (n2s w)
  | ESplice w -> Printf.sprintf "w%s.self S.rel LOCAL" (n2s w)
  | ETake w -> Printf.sprintf "w%s.self S.rlx 0" (n2s w)
  | EPopNone -> "set returned"
  | ERemove (w, true) -> Printf.sprintf "w%s.self S.rlx 0" (n2s w)
  | ERemove (w, false) -> Printf.sprintf "w%s.self L.acq 0" (n2s w)
  | EDereg w -> Printf.sprintf "w%s deregister" (n2s w)
  | EHandoff w -> Printf.sprintf "w%s handoff" (n2s w)
  | EValue w -> Printf.sprintf "w%s value" (n2s w)
  | EDone w -> Printf.sprintf "w%s done" (n2s w)
  | EReq (w, r) -> Printf.sprintf "w%s stop_requested reg=%s" (n2s w) (b01 r)
  | ECbRet w -> Printf.sprintf "w%s callback_returned" (n2s w)
let rec split_bar acc = function
  | "|" :: r -> (List.rev acc, r)
  | x :: r -> split_bar (x :: acc) r
  | [] -> (List.rev acc, [])
let str_out = function OValue -> "value" | ODone -> "done"
let str_how = function None -> "-" | Some HLatched -> "latched" | Some HDrained -> "drained" | Some HRemoved -> "removed"
let () =
  Registry.register "eventv2" (fun args ->
    match args with
    | fx :: sig0 :: rest ->
      let (progs, tids) = split_bar [] rest in
      let init = EventV2.init (fx = "1") (sig0 = "1") (List.map parse_prog progs) in
      let step t s = EventV2.step (nat_of_int t) s in
      let (st, tr) = Lockstep.run step render init (ints_of_words tids) in
      Printf.sprintf "%s # quiescent=%s stuck=%s latched=%s hl=%s evl=[%s] ops=%s late=%d/%d/%d" tr
        (b01 (EventV2.quiescent st)) (b01 (EventV2.stuck st)) (b01 st.latched) (b01 (st.hl <> HFree)) (str_list n2s st.evl)
        (String.concat "/" (List.mapi (fun i o ->
             Printf.sprintf "w%d:%s:%s:req%s" i (str_how o.o_how) (str_list str_out (List.rev o.o_res)) (b01 o.o_req)) st.ops))
        (int_of_nat st.late_state) (int_of_nat st.late_self) (int_of_nat st.late_other)
    | _ -> "ERR args");
  (* units/event.py EventV2Logic / EventV2Lifetime are monitor-only (the property is evaluated directly on
     the implementation's runs by harness/k1_event_v2.cpp): an empty model trace for the generic K1 machinery *)
  Registry.register "eventv2_none" (fun _ -> " # no model (monitor-only unit)")
