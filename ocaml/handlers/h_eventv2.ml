(* v2::async_manual_reset_event has no Coq model yet: the K1 unit is monitor-only (the property is
   evaluated directly on the implementation's runs by harness/k1_event_v2.cpp); this handler stands
   in for the model with an empty trace so that the generic K1 machinery can be reused. *)
let () = Registry.register "eventv2_none" (fun _ -> " # no model (monitor-only unit)")
