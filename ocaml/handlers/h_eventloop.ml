open Model
open Conv
open EventLoop
(* eventloop <race:0|1> <counts: n1,n2,..> <cancels: p.j,p.j,..|-> | tid tid ... *)
let str_item (p, j) = Printf.sprintf "%d.%d" (int_of_nat p) (int_of_nat j)
let item_of_string s =
  match String.split_on_char '.' s with
  | [p; j] -> (nat_of_int (int_of_string p), nat_of_int (int_of_string j))
  | _ -> failwith "item"
let kind b = if b then "done" else "value"
let render = function
  | ESpawn -> "thread SP"
  | ELock -> "mutex ML"
  | EEnq _ -> "mutex ML"
  | EUnlock -> "mutex MU"
  | ENotifyOne -> "cv CN 1"
  | ENotifyAll -> "cv CN 2"
  | EWait -> "cv CW"
  | EJoin -> "thread J"
  | ECancel it -> "cancel " ^ str_item it
  | EObs (it, b) -> Printf.sprintf "obs %s %d" (str_item it) (if b then 1 else 0)
  | ERun (it, b) -> Printf.sprintf "run %s %s" (str_item it) (kind b)
  | ESpurious -> "spurious"
let commas s = if s = "-" || s = "" then [] else String.split_on_char ',' s
let () =
  Registry.register "eventloop" (fun args ->
    match args with
    | rc :: counts :: cancels :: "|" :: tids ->
      let cs = List.map (fun x -> nat_of_int (int_of_string x)) (commas counts) in
      let cl = List.map item_of_string (commas cancels) in
      let step t s = EventLoop.step (nat_of_int t) s in
      let (st, tr) = Lockstep.run step render (EventLoop.init (rc = "1") cs cl) (ints_of_words tids) in
      Printf.sprintf "%s # final=%d executed=%s queue=%s late=%s" tr
        (if EventLoop.final st then 1 else 0)
        (str_list (fun (it, b) -> str_item it ^ ":" ^ kind b) (EventLoop.executed st))
        (str_list str_item (EventLoop.queue st)) (str_list str_item (EventLoop.late st))
    | _ -> "ERR args")
