open Model
open Conv
open TakeUntil
(* takeuntil <as_written|fixed> <stop|nostop> | tid tid ...
   events are rendered exactly as tools/units/stream_proto_tu.py projects the implementation trace *)
let kind_s = function KV -> "v" | KD -> "d" | KE -> "e"
let b01 b = if b then "1" else "0"
let de e = if e then "e" else "d"
let life_s = function LNone -> "none" | LNew -> "new" | LOut -> "out" | LRun -> "run" | LDead -> "dead"
let render = function
  | EConsNextCtor -> "!cons.next.ctor"
  | EConsNextDtor -> "!cons.next.dtor"
  | ECons k -> "!cons.next " ^ kind_s k
  | EConsClCtor -> "!cons.cleanup.ctor"
  | EConsClDtor -> "!cons.cleanup.dtor"
  | EConsCl CDone -> "!cons.cleanup d"
  | EConsCl CErrSrc -> "!cons.cleanup e 7"
  | EConsCl CErrTrg -> "!cons.cleanup e 8"
  | EStreamDestroyed -> "!stream.destroyed"
  | EConsFinished -> "!cons.finished"
  | ESrcNextCtor -> "!src.next.ctor"
  | ESrcNextStart -> "!src.next.start"
  | ESrcNextDtor -> "!src.next.dtor"
  | ESrcNextComplete k -> "!src.next.complete " ^ kind_s k
  | ETrgNextCtor -> "!trg.next.ctor"
  | ETrgNextStart -> "!trg.next.start"
  | ETrgNextComplete -> "!trg.next.complete"
  | ETrgNextDtor -> "!trg.next.dtor"
  | ESrcClCtor -> "!src.cleanup.ctor"
  | ESrcClStart -> "!src.cleanup.start"
  | ESrcClComplete e -> "!src.cleanup.complete " ^ de e
  | ESrcClCompleteBad -> "!src.cleanup.complete BAD"
  | ESrcClDtor ok -> if ok then "!src.cleanup.dtor" else "!src.cleanup.dtor BAD"
  | ETrgClCtor -> "!trg.cleanup.ctor"
  | ETrgClStart -> "!trg.cleanup.start"
  | ETrgClComplete e -> "!trg.cleanup.complete " ^ de e
  | ETrgClCompleteBad -> "!trg.cleanup.complete BAD"
  | ETrgClDtor ok -> if ok then "!trg.cleanup.dtor" else "!trg.cleanup.dtor BAD"
  | EViolOutstanding -> "!VIOL src.cleanup destroyed while outstanding"
  | EExtObs locked -> Printf.sprintf "ext.state OBS %d" (if locked then 3 else 1)
  | EExtAcq (arel, o, n) ->
    Printf.sprintf "ext.state C.%s %d->%d ok" (if arel then "acq_rel" else "acq") (int_of_nat o) (int_of_nat n)
  | EExtRel v -> Printf.sprintf "ext.state S.rel %d" (int_of_nat v)
  | ECbDone -> "cb.completed S.rel 1"
  | ECbWait -> "cb.completed L.acq 1"
  | ESrcObs locked -> Printf.sprintf "tu.src OBS %d" (if locked then 3 else 1)
  | ESrcAcq -> "tu.src C.acq_rel 0->3 ok"
  | ESrcRel -> "tu.src S.rel 1"
  | EReadyL v -> "tu.ready L.acq " ^ b01 v
  | EReadyX o -> Printf.sprintf "tu.ready X.acq_rel %s->1" (b01 o)
  | ECompL v -> "tu.completed L.acq " ^ b01 v
  | ECompX o -> Printf.sprintf "tu.completed X.acq_rel %s->1" (b01 o)
let () =
  Registry.register "takeuntil" (fun args ->
    match args with
    | variant :: stop :: "|" :: tids ->
      let p = { p_fixed = (variant = "fixed"); p_stop = (stop = "stop") } in
      let step t s = TakeUntil.step (nat_of_int t) s in
      let (st, tr) = Lockstep.run step render (TakeUntil.init p) (ints_of_words tids) in
      let g = st.g in
      Printf.sprintf "%s # quiescent=%s finished=%s uaf=%s baddtor=%s dup=%s ordbad=%s srccl=%s trgcl=%s srcclctor=%d srccldtor=%d trgclctor=%d trgcldtor=%d clcompl=%d tca=%s tcb=%s finsrc=%s fintrg=%s"
        tr (b01 (TakeUntil.quiescent st)) (b01 g.finished) (b01 g.uaf) (b01 g.bad_dtor) (b01 g.dup) (b01 g.ord_bad)
        (life_s g.src_cl) (life_s g.trg_cl)
        (int_of_nat g.src_cl_ctor) (int_of_nat g.src_cl_dtor) (int_of_nat g.trg_cl_ctor) (int_of_nat g.trg_cl_dtor)
        (int_of_nat g.cl_compl) (b01 g.tc_a) (b01 g.tc_b) (b01 g.fin_src) (b01 g.fin_trg)
    | _ -> "ERR args")
