open Model
open Conv
open DetachOnCancel
(* detach <v|e|d> <stop|nostop|prestop> <late|inline> [hold] | tid tid ... *)
let outcome_of_char = function 'v' -> OVal | 'e' -> OErr | _ -> ODone
let str_outcome = function OVal -> "value" | OErr -> "error" | ODone -> "done"
let b01 b = if b then "1" else "0"
(* the word parentOp_ as dsched prints it: "op|count" (name_value of the parent op), null -> count *)
let word p c = if p then (if c = 0 then "op" else Printf.sprintf "op|%d" c) else string_of_int c
let render = function
  | EExtReg inl -> if inl then "ext REG inline" else "ext REG ok"
  | EExtSet -> "ext SET"
  | EExtDereg -> "ext DEREG"
  | ECbDone -> "cb S.rel 1"
  | ECbWait -> "cb L.acq 1"
  | EWLoad (p, c) -> "w L.rlx " ^ word p (int_of_nat c)
  | EWCas (p, c, ok) ->
    if ok then Printf.sprintf "w C.acq_rel %s->2 ok" (word p (int_of_nat c))
    else Printf.sprintf "w C.rlx %s->2 fail" (word p (int_of_nat c))
  | EWSub (p, c) -> let c = int_of_nat c in Printf.sprintf "w U.acq_rel %s->%s" (word p c) (word p (c - 1))
  | ESrcSet -> "src SET"
  | ESrcReg seen -> "src REG " ^ b01 seen
  | EChildDestroyed -> "child.destroyed"
  | ERoot o -> "root " ^ str_outcome o
  | EOpDestroyed -> "op_destroyed"
let () =
  Registry.register "detach" (fun args ->
    let rec split acc = function
      | "|" :: r -> (List.rev acc, r)
      | x :: r -> split (x :: acc) r
      | [] -> (List.rev acc, []) in
    let (ps, tids) = split [] args in
    match ps with
    | out :: sm :: rest ->
      let inl = List.mem "inline" rest and hold = List.mem "hold" rest in
      let p = { p_out = outcome_of_char out.[0];
                p_stop = (match sm with "stop" -> Stop | "prestop" -> PreStop | _ -> NoStop);
                p_inl = inl; p_hold = hold } in
      let step t s = DetachOnCancel.step (nat_of_int t) s in
      let (st, tr) = Lockstep.run step render (DetachOnCancel.init p) (ints_of_words tids) in
      Printf.sprintf "%s # delivered=%s freed=%d late=%d opd=%s cbdtor=%d underflow=%s quiescent=%s" tr
        (str_list (fun (o, t) -> Printf.sprintf "%s@%d" (str_outcome o) (int_of_nat t)) (List.rev st.delivered))
        (int_of_nat st.freed) (int_of_nat st.late) (b01 st.opd) (int_of_nat st.cbdtor)
        (b01 st.underflow) (b01 (DetachOnCancel.quiescent st))
    | _ -> "ERR args")
