open Model
open Conv
open RemoteQueue
(* remotequeue <counts, comma separated or -> <number of stoppers> <pre: 0|1> | tid tid ...
   events are rendered exactly as tools/units/io.py (class EpollRemoteQueue) projects the
   implementation trace *)
let str_item = function IWork (p, j) -> Printf.sprintf "p%d.%d" (int_of_nat p) (int_of_nat j) | IStop -> "STOP"
let str_ptr = function PNull -> "0" | PInactive -> "INACTIVE" | PItem it -> str_item it
let render = function
  | ELoad v -> "rq.head L.rlx " ^ str_ptr v
  | EEnqCas (cur, it, ok) ->
    if ok then Printf.sprintf "rq.head C.acq_rel %s->%s ok" (str_ptr cur) (str_item it)
    else Printf.sprintf "rq.head C.acq %s->%s fail" (str_ptr cur) (str_item it)
  | EMark (cur, ok) ->
    if ok then "rq.head C.rel 0->INACTIVE ok" else Printf.sprintf "rq.head C.rlx %s->INACTIVE fail" (str_ptr cur)
  | EXchg old -> Printf.sprintf "rq.head X.acq %s->0" (str_ptr old)
  | EWrite -> "!write evfd"
  | EWaitRet -> "!epoll_wait -> evfd"
  | ERead v -> Printf.sprintf "!read evfd v=%d" (int_of_nat v)
  | EExec it -> "!exec " ^ str_item it
  | EReturn -> "!run returned"
  | ESrcReg ok -> if ok then "src REG" else "src REG-INLINE"
  | ESrcSet won -> if won then "src SET" else "src SET-LATE"
let b01 b = if b then "1" else "0"
let () =
  Registry.register "remotequeue" (fun args ->
    match args with
    | counts :: nstop :: pre :: "|" :: tids ->
      let cs = if counts = "-" then [] else List.map (fun w -> nat_of_int (int_of_string w)) (String.split_on_char ',' counts) in
      let step t s = RemoteQueue.step (nat_of_int t) s in
      let (st, tr) = Lockstep.run step render (RemoteQueue.init cs (nat_of_int (int_of_string nstop)) (pre = "1")) (ints_of_words tids) in
      Printf.sprintf "%s # returned=%s blocked=%s efd=%d tokens=%d enq=%s executed=%s pending=%s queued=%d"
        tr (b01 (RemoteQueue.returned st)) (b01 (RemoteQueue.blocked st)) (int_of_nat st.efd) (int_of_nat st.tokens)
        (str_list str_item st.enq) (str_list str_item (RemoteQueue.executed st)) (str_list str_item st.pending)
        (List.length st.stack)
    | _ -> "ERR args")
