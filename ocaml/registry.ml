let tbl : (string, string list -> string) Hashtbl.t = Hashtbl.create 64
let register name f = Hashtbl.replace tbl name f
