(* one case per input line: "<handler> <args...>"; one result line per case *)
let () =
  try
    while true do
      let line = input_line stdin in
      match Conv.words line with
      | [] -> print_string "\n"
      | h :: args ->
        (match Hashtbl.find_opt Registry.tbl h with
         | None -> print_string ("ERR unknown-handler " ^ h ^ "\n")
         | Some f -> (try print_string (f args ^ "\n") with e -> print_string ("ERR " ^ Printexc.to_string e ^ "\n")))
    done
  with End_of_file -> ()
