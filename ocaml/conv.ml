(* glue between OCaml ints/strings and the extracted inductive numbers (trusted) *)
open Model
let rec pos_of_int n = if n <= 1 then XH else if n land 1 = 0 then XO (pos_of_int (n lsr 1)) else XI (pos_of_int (n lsr 1))
let rec int_of_pos = function XH -> 1 | XO p -> 2 * int_of_pos p | XI p -> 2 * int_of_pos p + 1
let z_of_int n = if n = 0 then Z0 else if n > 0 then Zpos (pos_of_int n) else Zneg (pos_of_int (-n))
let int_of_z = function Z0 -> 0 | Zpos p -> int_of_pos p | Zneg p -> - (int_of_pos p)
let rec nat_of_int n = if n <= 0 then O else S (nat_of_int (n - 1))
let rec int_of_nat = function O -> 0 | S n -> 1 + int_of_nat n
(* arbitrary precision decimal <-> Z via strings, for values beyond 62 bits *)
let z_of_string s =
  let neg = String.length s > 0 && s.[0] = '-' in
  let s = if neg then String.sub s 1 (String.length s - 1) else s in
  let ten = z_of_int 10 in
  let acc = ref Z0 in
  String.iter (fun c -> acc := Z.add (Z.mul !acc ten) (z_of_int (Char.code c - 48))) s;
  if neg then Z.opp !acc else !acc
let string_of_z z =
  let ten = z_of_int 10 in
  let rec go z acc = if z = Z0 then acc else
      let q = Z.div z ten and r = Z.modulo z ten in go q (string_of_int (int_of_z r) ^ acc) in
  match z with Z0 -> "0" | Zpos _ -> go z "" | Zneg _ -> "-" ^ go (Z.opp z) ""
let words s = List.filter (fun w -> w <> "") (String.split_on_char ' ' s)
let ints_of_words ws = List.map int_of_string ws
let str_list f l = String.concat "," (List.map f l)
