(* generic K1 lock-step: replay the thread ids of the projected implementation trace on a model *)
let run (step : int -> 's -> ('s * 'e list) option) (render : 'e -> string) (init : 's)
    (tids : int list) : 's * string =
  let arr = Array.of_list tids in
  let n = Array.length arr in
  let buf = Buffer.create 256 in
  let add t s = if Buffer.length buf > 0 then Buffer.add_char buf ';';
    Buffer.add_string buf (Printf.sprintf "t%d %s" t s) in
  let rec go i st silent =
    if i >= n then st else
      let t = arr.(i) in
      match step t st with
      | None -> add t "DISABLED"; st
      | Some (st', []) -> if silent > 8 then (add t "SILENT-LOOP"; st') else go i st' (silent + 1)
      | Some (st', evs) -> List.iter (fun e -> add t (render e)) evs; go (i + List.length evs) st' 0
  in
  let st = go 0 init 0 in
  (st, Buffer.contents buf)
