"""Shared machinery for /verif checks: Coq build + assumption scraping, OCaml model driver,
C++ harness builds (cached by a hash of /repo's working tree), evidence, known findings."""
import hashlib, json, os, re, subprocess, sys, time, shutil, random
from concurrent.futures import ThreadPoolExecutor

VERIF = os.path.dirname(os.path.dirname(os.path.abspath(__file__)))
REPO = os.environ.get("VERIF_REPO", "/repo")
COQ = os.path.join(VERIF, "coq")
OCAML = os.path.join(VERIF, "ocaml")
HARNESS = os.path.join(VERIF, "harness")
CACHE = os.path.join(VERIF, ".cache")
OUT = os.path.join(VERIF, "out")
NPROC = int(os.environ.get("VERIF_JOBS", "16"))

ALLOWED_AXIOMS = (  # stdlib axioms that may appear under Print Assumptions (named in DESIGN section 3)
    "functional_extensionality_dep", "proof_irrelevance", "classic", "JMeq_eq", "eq_rect_eq",
    "propositional_extensionality",
)


def sh(cmd, timeout=1800, cwd=None, env=None, input=None):
    """Run a command, return (rc, stdout+stderr)."""
    e = dict(os.environ)
    if env:
        e.update(env)
    try:
        p = subprocess.run(cmd, shell=isinstance(cmd, str), cwd=cwd, env=e, input=input,
                           stdout=subprocess.PIPE, stderr=subprocess.STDOUT, timeout=timeout,
                           text=True, errors="replace")
        return p.returncode, p.stdout
    except subprocess.TimeoutExpired as ex:
        out = ex.stdout if isinstance(ex.stdout, str) else (ex.stdout or b"").decode(errors="replace")
        return 124, (out or "") + "\n[timeout after %ss]" % timeout


def sh2(cmd, timeout=1800, cwd=None, env=None, input=None):
    """Like sh but stdout and stderr separately: (rc, out, err)."""
    e = dict(os.environ)
    if env:
        e.update(env)
    try:
        p = subprocess.run(cmd, shell=isinstance(cmd, str), cwd=cwd, env=e, input=input,
                           stdout=subprocess.PIPE, stderr=subprocess.PIPE, timeout=timeout,
                           text=True, errors="replace")
        return p.returncode, p.stdout, p.stderr
    except subprocess.TimeoutExpired:
        return 124, "", "[timeout after %ss]" % timeout


# ----------------------------------------------------------------------------- repo hash
def repo_hash():
    """Hash of the *working tree* content of /repo/include and /repo/source."""
    h = hashlib.sha256()
    for top in ("include", "source"):
        for d, dirs, files in os.walk(os.path.join(REPO, top)):
            dirs.sort()
            for f in sorted(files):
                p = os.path.join(d, f)
                h.update(os.path.relpath(p, REPO).encode())
                try:
                    with open(p, "rb") as fh:
                        h.update(hashlib.sha256(fh.read()).digest())
                except OSError:
                    pass
    return h.hexdigest()[:16]


# ----------------------------------------------------------------------------- Coq
def coq_makefile():
    mk = os.path.join(COQ, "Makefile")
    cp = os.path.join(COQ, "_CoqProject")
    if not os.path.exists(mk) or os.path.getmtime(mk) < os.path.getmtime(cp):
        rc, out = sh("coq_makefile -f _CoqProject -o Makefile", cwd=COQ, timeout=120)
        if rc != 0:
            raise RuntimeError("coq_makefile failed:\n" + out)


class _BuildLock:
    """serialises Coq/OCaml builds of concurrent check invocations (shared build directories)"""
    def __enter__(self):
        import fcntl
        self.f = open(os.path.join(VERIF, ".lock_build"), "w")
        fcntl.flock(self.f, fcntl.LOCK_EX)
    def __exit__(self, *a):
        self.f.close()


def _coq_make_nolock(targets, timeout=1500):
    coq_makefile()
    rc, out = sh("make -k -j%d %s" % (NPROC, " ".join(targets)), cwd=COQ, timeout=timeout)
    return rc == 0, out


def coq_make(targets, timeout=1500):
    """make the given .vo targets (full .vo build). Returns (ok, log)."""
    with _BuildLock():
        return _coq_make_nolock(targets, timeout)


def coq_property(pid, timeout=1500):
    """Build every Properties_<pid>*.vo (and everything they need), then re-run coqc on each property
    file to capture `Print Assumptions` output.  Returns dict with obligations etc."""
    import glob
    t0 = time.time()
    vfiles = sorted(os.path.basename(p) for p in glob.glob(os.path.join(COQ, "Properties_%s*.v" % pid))
                    if re.fullmatch(r"Properties_%s(_\w+)?\.v" % pid, os.path.basename(p)))
    res = {"ok": True, "log": "", "theorems": [], "assumptions": {}, "bad_axioms": [], "examples": [],
           "files": vfiles,
           "checker_cmd": "make -C coq %s && for each: coqc -Q coq V <file> (Print Assumptions scraped)" % " ".join(v + "o" for v in vfiles)}
    if not vfiles:
        res["ok"] = False
        res["failed"] = "no Properties_%s*.v" % pid
        return res
    ok, log = coq_make([v + "o" for v in vfiles], timeout=timeout)
    res["ok"], res["log"] = ok, log[-4000:]
    for vfile in vfiles:
        src = open(os.path.join(COQ, vfile)).read()
        src_nc = re.sub(r"\(\*.*?\*\)", "", src, flags=re.S)
        thms = re.findall(r"^\s*(?:Theorem|Lemma|Corollary)\s+(\w+)", src_nc, re.M)
        res["theorems"] += thms
        res["examples"] += re.findall(r"^\s*Example\s+(\w+)", src_nc, re.M)
        if not ok:
            continue
        rc, out = sh("coqc -Q . V %s" % vfile, cwd=COQ, timeout=timeout)
        if rc != 0:
            res["ok"] = False
            res["failed"] = _first_coq_error(out)
            continue
        names = re.findall(r"Print Assumptions\s+(\w+)\s*\.", src_nc)
        blocks = re.split(r"(?=Closed under the global context|Axioms:)", out)
        blocks = [b for b in blocks if b.startswith("Closed under") or b.startswith("Axioms:")]
        for i, n in enumerate(names):
            if i >= len(blocks):
                res["assumptions"][n] = "?"
                res["bad_axioms"].append((n, "no Print Assumptions output"))
                continue
            b = blocks[i]
            if b.startswith("Closed under"):
                res["assumptions"][n] = "closed"
            else:
                axs = re.findall(r"^\s*([A-Za-z_][\w.']*)\s*:", b, re.M)
                res["assumptions"][n] = axs
                for a in axs:
                    if a.split(".")[-1] not in ALLOWED_AXIOMS:
                        res["bad_axioms"].append((n, a))
        for t in thms:
            if t not in names:
                res["bad_axioms"].append((t, "theorem without Print Assumptions"))
    if not ok:
        res["failed"] = _first_coq_error(log)
    if res["bad_axioms"]:
        res["ok"] = False
        res["failed"] = "axioms: %r" % (res["bad_axioms"],)
    # forbidden tokens anywhere in the development (comments stripped)
    bad = []
    for d, _, files in os.walk(COQ):
        for f in files:
            if f.endswith(".v"):
                txt = re.sub(r"\(\*.*?\*\)", "", open(os.path.join(d, f)).read(), flags=re.S)
                for m in re.finditer(r"\b(Admitted|admit|Axiom|Axioms|Parameter|Parameters|Conjecture|Abort All)\b|Unset Guard|bypass_check|Admit Obligations|-type-in-type", txt):
                    bad.append("%s: %s" % (f, m.group(0)))
    if bad:
        res["ok"] = False
        res["failed"] = "forbidden tokens: " + "; ".join(bad[:5])
    res["coq_s"] = time.time() - t0
    return res


def _first_coq_error(log):
    m = re.search(r'File "([^"]+)", line (\d+)[^\n]*\n(?:.*\n)*?Error:[^\n]*(?:\n[^\n]+){0,6}', log)
    return m.group(0)[:1500] if m else log[-1500:]


# ----------------------------------------------------------------------------- OCaml model driver
def model_build(timeout=900):
    """Extract the executable models (coq/Extract.v) and build ocaml/_build/driver."""
    with _BuildLock():
        return _model_build_locked(timeout)


def _model_build_locked(timeout):
    bdir = os.path.join(OCAML, "_build")
    os.makedirs(bdir, exist_ok=True)
    ok, log = _coq_make_nolock(["Extract.vo"], timeout)
    if not ok:
        raise RuntimeError("extraction failed:\n" + _first_coq_error(log))
    base = ["model.mli", "model.ml", "conv.ml", "registry.ml", "lockstep.ml"]
    hdir = os.path.join(OCAML, "handlers")
    handlers = ["handlers/" + f for f in sorted(os.listdir(hdir)) if f.endswith(".ml")]
    srcs = base + handlers + ["driver.ml"]
    stamp = os.path.join(bdir, "stamp")
    h = hashlib.sha256()
    for s_ in srcs:
        h.update(open(os.path.join(OCAML, s_), "rb").read())
    key = h.hexdigest()
    exe = os.path.join(bdir, "driver")
    if os.path.exists(exe) and os.path.exists(stamp) and open(stamp).read() == key:
        return exe
    for s_ in srcs:
        shutil.copy(os.path.join(OCAML, s_), os.path.join(bdir, os.path.basename(s_)))
    def link(hs):
        names = [os.path.basename(x) for x in base + hs + ["driver.ml"]]
        return sh("ocamlfind ocamlopt -O2 -w -a -o driver " + " ".join(names) + " 2>&1 || ocamlfind ocamlopt -w -a -o driver "
                  + " ".join(names), cwd=bdir, timeout=timeout)
    rc, out = link(handlers)
    if rc != 0:
        # a handler of a unit that is mid-edit must not take every other unit down: drop the handlers
        # that do not compile on their own (their units will report 'unknown-handler')
        rc0, out0 = sh("ocamlfind ocamlopt -w -a -c " + " ".join(os.path.basename(x) for x in base), cwd=bdir, timeout=timeout)
        if rc0 != 0:
            raise RuntimeError("ocaml build failed:\n" + out0[-3000:])
        good = []
        for hnd in handlers:
            rc1, out1 = sh("ocamlfind ocamlopt -w -a -c " + " ".join(os.path.basename(x) for x in good + [hnd]), cwd=bdir, timeout=timeout)
            if rc1 == 0:
                good.append(hnd)
            else:
                sys.stderr.write("model_build: dropping handler %s: %s\n" % (hnd, out1[-300:].replace("\n", " ")))
        rc, out = link(good)
        if rc != 0:
            raise RuntimeError("ocaml build failed:\n" + out[-3000:])
    open(stamp, "w").write(key)
    return exe


def model_run(lines, timeout=900):
    """Feed case lines to the extracted model; returns output lines (one per input line)."""
    exe = model_build()
    rc, out, err = sh2([exe], input="\n".join(lines) + "\n", timeout=timeout)
    if rc != 0:
        raise RuntimeError("model driver failed rc=%d: %s" % (rc, err[-2000:]))
    res = out.split("\n")
    if res and res[-1] == "":
        res.pop()
    if len(res) != len(lines):
        raise RuntimeError("model driver: %d outputs for %d inputs\n%s" % (len(res), len(lines), err[-500:]))
    return res


# ----------------------------------------------------------------------------- C++ builds
LIB_SOURCES = [
    "async_auto_reset_event.cpp", "async_manual_reset_event_v1.cpp", "async_manual_reset_event_v2.cpp",
    "async_mutex_v1.cpp", "async_mutex_v2.cpp", "async_pass.cpp", "async_stack.cpp",
    "atomic_intrusive_list.cpp", "exception.cpp", "inplace_stop_token.cpp", "manual_event_loop.cpp",
    "static_thread_pool.cpp", "task.cpp", "thread_unsafe_event_loop.cpp",
    "timed_single_thread_context.cpp", "trampoline_scheduler.cpp",
    "linux/mmap_region.cpp", "linux/monotonic_clock.cpp", "linux/safe_file_descriptor.cpp",
    "linux/io_epoll_context.cpp", "linux/io_uring_context.cpp", "linux/io_uring_syscall.cpp",
]

CONFIGS = {
    # name: (std, extra flags, shim?)
    "shim17": ("c++17", "-O1 -g -DNDEBUG", True),
    "shim20": ("c++20", "-O1 -g -DNDEBUG -fcoroutines", True),
    "plain17": ("c++17", "-O1 -g -DNDEBUG", False),
    "plain20": ("c++20", "-O1 -g -DNDEBUG -fcoroutines", False),
    "asan17": ("c++17", "-O1 -g -DNDEBUG -fsanitize=address,undefined -fno-sanitize-recover=all", False),
    "asan20": ("c++20", "-O1 -g -DNDEBUG -fcoroutines -fsanitize=address,undefined -fno-sanitize-recover=all", False),
    "shimasan17": ("c++17", "-O1 -g -DNDEBUG -fsanitize=address,undefined -fno-sanitize-recover=all", True),
    "shimasan20": ("c++20", "-O1 -g -DNDEBUG -fcoroutines -fsanitize=address,undefined -fno-sanitize-recover=all", True),
    "shimdbg20": ("c++20", "-O0 -g -fcoroutines", True),     # asserts + async stacks on, under schedule control (C20: coroutine path)
    "dbg17": ("c++17", "-O0 -g -DUNIFEX_LOG_DANGLING_STOP_CALLBACKS=0", False),
    "dbg20": ("c++20", "-O0 -g -fcoroutines", False),
    "vis17": ("c++17", "-O1 -g -DNDEBUG -DUNIFEX_ENABLE_CONTINUATION_VISITATIONS=1", False),
    "vis20": ("c++20", "-O1 -g -DNDEBUG -fcoroutines -DUNIFEX_ENABLE_CONTINUATION_VISITATIONS=1", False),
    "dbgvis17": ("c++17", "-O0 -g -DUNIFEX_ENABLE_CONTINUATION_VISITATIONS=1", False),
    "dbgvis20": ("c++20", "-O0 -g -fcoroutines -DUNIFEX_ENABLE_CONTINUATION_VISITATIONS=1", False),
}


def _cxx_flags(cfg):
    std, extra, shim = CONFIGS[cfg]
    fl = "-std=%s %s -pthread -fno-access-control -w -I%s/include -I%s" % (std, extra, REPO, HARNESS)
    if shim:
        fl += " -include %s/verif_shim.hpp" % HARNESS
    return fl


def cache_dir():
    d = os.path.join(CACHE, repo_hash() + "-" + harness_hash())
    os.makedirs(d, exist_ok=True)
    return d


_hh = None
def harness_hash():
    global _hh
    if _hh is None:
        h = hashlib.sha256()
        for f in sorted(os.listdir(HARNESS)):
            if f.endswith((".hpp", ".h")) or f in ("dsched.cpp",):
                h.update(open(os.path.join(HARNESS, f), "rb").read())
        _hh = h.hexdigest()[:8]
    return _hh


def prune_cache(keep=10, min_age_s=3 * 3600):
    """drop old cache directories; never one touched recently (another check may be building into it)"""
    if not os.path.isdir(CACHE):
        return
    now = time.time()
    ds = sorted((os.path.join(CACHE, d) for d in os.listdir(CACHE)), key=os.path.getmtime)
    for d in ds[:-keep]:
        if now - os.path.getmtime(d) > min_age_s:
            shutil.rmtree(d, ignore_errors=True)


def build_lib(cfg, sources=None):
    """Compile /repo/source/*.cpp (working tree) under configuration cfg into a static library
    inside the cache dir for the current tree hash.  Returns (path, error-or-None)."""
    cd = cache_dir()
    lib = os.path.join(cd, "libunifex_%s.a" % cfg)
    if os.path.exists(lib):
        return lib, None
    srcs = sources or LIB_SOURCES
    od = os.path.join(cd, "obj_" + cfg)
    os.makedirs(od, exist_ok=True)
    fl = _cxx_flags(cfg)
    extra = [os.path.join(HARNESS, "dsched.cpp")] if CONFIGS[cfg][2] else []

    def comp(s):
        src = s if os.path.isabs(s) else os.path.join(REPO, "source", s)
        o = os.path.join(od, os.path.basename(s).replace(".cpp", ".o"))
        f = fl
        if os.path.basename(s) == "dsched.cpp":   # the scheduler itself uses the real std primitives
            f = fl.replace(" -include %s/verif_shim.hpp" % HARNESS, "")
        rc, out = sh("g++ %s -c %s -o %s" % (f, src, o), timeout=900)
        return (o, rc, out)
    with ThreadPoolExecutor(NPROC) as ex:
        rs = list(ex.map(comp, list(srcs) + extra))
    for o, rc, out in rs:
        if rc != 0:
            return None, "compile error in library source (%s):\n%s" % (o, out[-3000:])
    rc, out = sh("ar rcs %s %s" % (lib + ".tmp", " ".join(o for o, _, _ in rs)))
    if rc != 0:
        return None, out
    os.rename(lib + ".tmp", lib)
    return lib, None


def build_driver(name, cfg, src=None, extra_flags="", link_lib=True):
    """Compile harness/<name>.cpp against /repo's working tree. Returns (exe, error-or-None)."""
    cd = cache_dir()
    src = src or os.path.join(HARNESS, name + ".cpp")
    h = hashlib.sha256(open(src, "rb").read() + extra_flags.encode()).hexdigest()[:10]
    exe = os.path.join(cd, "%s_%s_%s" % (name, cfg, h))
    if os.path.exists(exe):
        return exe, None
    lib = ""
    if link_lib:
        lib, err = build_lib(cfg)
        if err:
            return None, err
    rc, out = sh("g++ %s %s %s -o %s.tmp %s -lpthread" % (_cxx_flags(cfg), extra_flags, src, exe, lib), timeout=1200)
    if rc != 0:
        return None, "compile error in driver %s:\n%s" % (name, out[-4000:])
    os.rename(exe + ".tmp", exe)
    return exe, None


def build_many(jobs):
    """jobs: list of (name, cfg[, src[, extra]]) built in parallel. Returns dict name->(exe, err)."""
    cfgs = sorted(set(j[1] for j in jobs))
    with ThreadPoolExecutor(max(1, len(cfgs))) as ex:
        list(ex.map(build_lib, cfgs))
    def one(j):
        return (j[0], j[1]), build_driver(*j)
    with ThreadPoolExecutor(NPROC) as ex:
        return dict(ex.map(one, jobs))


# ----------------------------------------------------------------------------- findings / evidence
def known_findings():
    """Parse KNOWN_FINDINGS.txt: lines 'finding: property=<id> key=<signature> <text>' and
    'fixed: property=<id> <commit> <text>'."""
    res = {"finding": [], "fixed": []}
    p = os.path.join(VERIF, "KNOWN_FINDINGS.txt")
    if os.path.exists(p):
        for l in open(p):
            l = l.strip()
            if l.startswith("finding:"):
                m = re.match(r"finding:\s*property=(\S+)\s+key=(\S+)\s*(.*)", l)
                if m:
                    res["finding"].append({"property": m.group(1), "key": m.group(2), "text": m.group(3)})
            elif l.startswith("fixed:"):
                res["fixed"].append(l)
    return res


class Check:
    """One run of one property's check: collects violations, counters and writes the evidence."""
    def __init__(self, pid, tier, level="proof"):
        self.pid, self.tier, self.level = pid, tier, level
        self.seed = int(os.environ.get("VERIF_SEED", "1") or 1)
        self.rng = random.Random(self.seed * 1000003 + sum(map(ord, pid)))
        self.t0 = time.time()
        self.violations = []      # (key, replay_path, suffix)
        self.known_printed = []
        self.cov = {"evaluations": 0, "distinct_nontrivial": 0, "samples": [], "rule": "",
                    "traces_validated_against_impl": 0, "disagreements_checked": 0,
                    "obligations": 0, "discharged": 0, "checker_cmd": "", "trusted_base": []}
        self.assumptions = []
        self._distinct = set()
        self.known = [f for f in known_findings()["finding"] if f["property"] == pid]
        os.makedirs(os.path.join(OUT, pid), exist_ok=True)

    # --- counters
    def count(self, case_key, nontrivial):
        self.cov["evaluations"] += 1
        if nontrivial:
            self._distinct.add(case_key)

    def sample(self, s, limit=6):
        if len(self.cov["samples"]) < limit:
            self.cov["samples"].append(s)

    # --- coq
    def prove(self):
        if os.environ.get("VERIF_DEV_SKIP_PROOF"):   # development only, never used by registered commands
            return True
        r = coq_property(self.pid)
        n = len(r["theorems"])
        self.cov["obligations"] += n
        self.cov["checker_cmd"] = r["checker_cmd"]
        self.cov["theorems"] = r["theorems"]
        self.cov["print_assumptions"] = r["assumptions"]
        self.cov["coq_s"] = round(r.get("coq_s", 0), 1)
        if r["ok"]:
            self.cov["discharged"] += n
        else:
            path = self.replay_file("proof", {"kind": "proof-obligation", "property": self.pid,
                                              "file": "coq/Properties_%s*.v" % self.pid,
                                              "failed": r.get("failed", ""), "log_tail": r["log"][-1500:]})
            self.violation("proof:" + self.pid, path, no_input=True)
        return r["ok"]

    # --- violations
    def replay_file(self, tag, obj):
        p = os.path.join(OUT, self.pid, "replay_%s_%s.json" % (re.sub(r"\W+", "_", tag)[:60], self.tier))
        with open(p, "w") as f:
            json.dump(obj, f, indent=1, default=str)
        return p

    def violation(self, key, replay_path, no_input=False, text=""):
        """key: signature of the failing case, matched against KNOWN_FINDINGS.txt."""
        for f in self.known:
            if re.fullmatch(f["key"], key) or f["key"] == key:
                msg = "KNOWN-FINDING: property=%s %s [%s]" % (self.pid, f["text"], key)
                if msg not in self.known_printed:
                    self.known_printed.append(msg)
                    print(msg)
                return False
        if any(v[0] == key for v in self.violations):
            return True
        self.violations.append((key, replay_path, no_input, text))
        return True

    def finish(self):
        self.cov["distinct_nontrivial"] = len(self._distinct)
        ev = {"property_id": self.pid, "tier": self.tier, "seed": self.seed, "level": self.level,
              "coverage": self.cov, "assumptions": self.assumptions,
              "wall_s": round(time.time() - self.t0, 2), "violations": len(self.violations),
              "known_findings_reported": self.known_printed,
              "repo_tree_hash": repo_hash()}
        # runs against a private copy of the repository (seeded-change tests) must not overwrite the evidence of /repo
        evdir = os.path.join(VERIF, "evidence") if os.path.realpath(REPO) == "/repo" else os.path.join(OUT, "evidence_private_repo")
        os.makedirs(evdir, exist_ok=True)
        with open(os.path.join(evdir, self.pid + ".json"), "w") as f:
            json.dump(ev, f, indent=1, default=str)
        for key, path, no_input, text in self.violations:
            print("VIOLATION property=%s replay=%s%s" % (self.pid, path, " no-failing-input-found" if no_input else ""))
            if text:
                print("  " + text)
        return 1 if self.violations else 0


# ----------------------------------------------------------------------------- line-based differential
def run_impl_lines(exe, lines, timeout=600, env=None, chunk=200):
    """Run a line-driven C++ driver on the cases; a crash is isolated to the single case.
    Returns list of output strings ('CRASH rc=.. <stderr tail>' for a crashing case)."""
    res = []
    def run(ls):
        rc, out, err = sh2([exe], input="\n".join(ls) + "\n", timeout=timeout, env=env)
        o = out.split("\n")
        if o and o[-1] == "":
            o.pop()
        return rc, o, err
    i = 0
    while i < len(lines):
        part = lines[i:i + chunk]
        rc, o, err = run(part)
        if rc == 0 and len(o) == len(part):
            res.extend(o)
        else:
            for l in part:   # isolate
                rc1, o1, err1 = run([l])
                if rc1 == 0 and len(o1) == 1:
                    res.append(o1[0])
                else:
                    tail = " ".join(err1.strip().split("\n")[-3:])[:300]
                    res.append("CRASH rc=%d %s" % (rc1, tail))
        i += chunk
    return res
