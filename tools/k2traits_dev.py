#!/usr/bin/env python3
"""development driver for tools/k2traits.py:  python3 tools/k2traits_dev.py [n_tus] [cases_per_tu] [seed]
generates random K2 expressions, builds the TUs against $VERIF_REPO (default /repo), compares the
compile-time traits with the Coq mirror, prints statistics and every disagreement.  Writes no evidence."""
import json, os, sys
sys.path.insert(0, os.path.dirname(os.path.abspath(__file__)))
import vlib, k2traits

def main():
    n_tus = int(sys.argv[1]) if len(sys.argv) > 1 else 4
    per = int(sys.argv[2]) if len(sys.argv) > 2 else 15
    if len(sys.argv) > 3:
        os.environ["VERIF_SEED"] = sys.argv[3]
    chk = vlib.Check("C11dev", "quick")
    stats = k2traits.run_traits(chk, n_tus, per, monitor=bool(os.environ.get("K2T_MONITOR")))
    print(json.dumps(stats, indent=1))
    for key, path, _, text in chk.violations:
        print("VIOLATION", key, path)
        print("  " + text[:400])
    return 1 if chk.violations else 0

if __name__ == "__main__":
    sys.exit(main())
