"""K2 program differential for COROUTINE TASKS (property C10): generate coroutine bodies (terms of
TCalc.coexpr) + event scripts, emit C++20 translation units in which every body is a coroutine lambda
returning unifex::task<int> over harness/k2t.hpp, connect each task as a sender to the root receiver,
run the scripts, and compare the traces event by event with the extracted model (handler "tcalc");
the extracted monitor TCalc.monitor (handler "tmon") and an independent Python monitor are evaluated on
the implementation's traces."""
import hashlib, os, random, re
import vlib

# ------------------------------------------------------------------------------------------ generation
class Gen:
    """ids: leaves 0.., locals 1.., cleanups 1..; all unique inside one case"""
    def __init__(self, rng, max_leaves=6, max_tasks=3, max_trys=2):
        self.rng = rng
        self.nleaf = 0; self.nlocal = 0; self.ncleanup = 0; self.ntask = 1; self.ntry = 0
        self.max_leaves, self.max_tasks, self.max_trys = max_leaves, max_tasks, max_trys
        self.cleanup_leaves = set()
        self.aw_leaves = set()

    def arg(self, nb):
        r = self.rng
        if nb > 0 and r.random() < 0.7:
            return ("v", r.randrange(nb), r.randint(0, 9))
        return ("c", r.randint(0, 40))

    def new_leaf(self):
        self.nleaf += 1
        return self.nleaf - 1

    def aw(self, size, nb):
        r = self.rng
        c = r.random()
        if c < 0.42 and self.nleaf < self.max_leaves:
            k = r.choice(["leaf", "leaf", "leaf", "leafn", "leafn", "awleaf"])
            i = self.new_leaf()
            if k == "awleaf": self.aw_leaves.add(i)
            return (k, i)
        if c < 0.62 and self.ntask < self.max_tasks and size >= 2:
            self.ntask += 1
            return ("task", self.body(r.randint(1, max(1, size - 1)), nb, 0))
        c = r.random()
        if c < 0.40: return ("just", self.arg(nb))
        if c < 0.55: return ("awjust", self.arg(nb))
        if c < 0.72: return ("err", r.randint(20, 29))
        if c < 0.82: return ("awerr", r.randint(30, 39))
        return ("done",)

    def body(self, size, nb, intry):
        r = self.rng
        if size <= 0:
            c = r.random()
            if c < (0.45 if intry else 0.2): return ("throw", r.randint(50, 59))
            return ("ret", self.arg(nb))
        c = r.random()
        if c < 0.42:
            s = self.aw(size, nb)
            return ("await", s, self.body(size - 1, nb + 1, intry))
        if c < 0.62:
            self.nlocal += 1
            i = self.nlocal
            return ("local", i, self.body(size - 1, nb, intry))
        if c < 0.86:
            self.ncleanup += 1
            cid = self.ncleanup
            lf = -1
            if r.random() < 0.35 and self.nleaf < self.max_leaves:
                lf = self.new_leaf()
                self.cleanup_leaves.add(lf)
            return ("atexit", cid, lf, self.body(size - 1, nb, intry))
        if self.ntry < self.max_trys and size >= 2:
            self.ntry += 1
            sb = r.randint(1, size - 1)
            b = self.body(sb, nb, intry + 1)
            h = self.body(size - 1 - sb, nb + 1, intry)
            return ("try", b, h)
        return self.body(size - 1, nb, intry)


def walk(e, f):
    """f(node) on every coexpr / aw node"""
    f(e)
    for x in e[1:]:
        if isinstance(x, tuple) and x and isinstance(x[0], str) and x[0] not in ("c", "v"):
            walk(x, f)


def info(e):
    """(all leaf ids, cleanup leaf ids, awaitable leaf ids, kinds)"""
    ls, cl, al, kinds = [], set(), set(), {}
    def f(n):
        kinds[n[0]] = kinds.get(n[0], 0) + 1
        if n[0] in ("leaf", "leafn", "awleaf"):
            ls.append(n[1])
            if n[0] == "awleaf": al.add(n[1])
        if n[0] == "atexit" and n[2] >= 0:
            ls.append(n[2]); cl.add(n[2])
    walk(e, f)
    return sorted(set(ls)), cl, al, kinds


def marg(a):
    return "(c %d)" % a[1] if a[0] == "c" else "(v %d %d)" % (a[1], a[2])


def to_model(e):
    k = e[0]
    if k == "ret": return "(ret %s)" % marg(e[1])
    if k == "throw": return "(throw %d)" % e[1]
    if k == "await": return "(await %s %s)" % (to_model(e[1]), to_model(e[2]))
    if k == "local": return "(local %d %s)" % (e[1], to_model(e[2]))
    if k == "atexit": return "(atexit %d %d %s)" % (e[1], e[2], to_model(e[3]))
    if k == "try": return "(try %s %s)" % (to_model(e[1]), to_model(e[2]))
    if k in ("just", "awjust"): return "(%s %s)" % (k, marg(e[1]))
    if k in ("err", "awerr", "leaf", "leafn", "awleaf"): return "(%s %d)" % (k, e[1])
    if k == "done": return "(done)"
    if k == "task": return "(task %s)" % to_model(e[1])
    raise ValueError(k)


def carg(a, d):
    if a[0] == "c": return "%d" % a[1]
    return "x%d + %d" % (d - 1 - a[1], a[2])


def emit_aw(s, d, ind):
    """returns list of lines forming the operand expression (first line continues `co_await `)"""
    k = s[0]
    if k == "just": return ["k2t::inl{'v', %s}" % carg(s[1], d)]
    if k == "err": return ["k2t::inl{'e', %d}" % s[1]]
    if k == "done": return ["k2t::inl{'d', 0}"]
    if k == "awjust": return ["k2t::aw{'v', %s}" % carg(s[1], d)]
    if k == "awerr": return ["k2t::aw{'e', %d}" % s[1]]
    if k == "leaf": return ["k2t::leaf{%d, false}" % s[1]]
    if k == "leafn": return ["k2t::leaf{%d, true}" % s[1]]
    if k == "awleaf": return ["k2t::aw_leaf{%d}" % s[1]]
    if k == "task":
        params = "".join(", int x%d" % i for i in range(d))
        args = "".join(", x%d" % i for i in range(d))
        out = ["[](k2t::frame_tag ft%s) -> unifex::task<int> {" % params]
        out += emit_body(s[1], d, ind + "  ")
        out.append(ind + "}(k2t::frame_tag{}%s)" % args)
        return out
    raise ValueError(k)


def emit_body(e, d, ind):
    k = e[0]
    if k == "ret": return [ind + "co_return %s;" % carg(e[1], d)]
    if k == "throw": return [ind + "throw k2t::err{%d};" % e[1], ind + "co_return 0;"]
    if k == "await":
        op = emit_aw(e[1], d, ind)
        lines = [ind + "int x%d = co_await %s" % (d, op[0])] + op[1:]
        lines[-1] += ";"
        return lines + emit_body(e[2], d + 1, ind)
    if k == "local":
        return [ind + "k2t::local l%d{ft.n, %d};" % (e[1], e[1])] + emit_body(e[2], d, ind)
    if k == "atexit":
        return [ind + "co_await unifex::at_coroutine_exit(k2t::cleanup_fn, ft.n, %d, %d); k2t::logf(\"reg %%d %%d\", ft.n, %d);"
                % (e[1], e[2], e[1])] + emit_body(e[3], d, ind)
    if k == "try":
        return ([ind + "int x%d = 0;" % d, ind + "try {"] + emit_body(e[1], d, ind + "  ")
                + [ind + "} catch (const k2t::err& e_) { x%d = e_.code; }" % d] + emit_body(e[2], d + 1, ind))
    raise ValueError(k)


def emit_case(i, e):
    src = ["static std::string case_%d(bool pre, const std::vector<k2t::script_ev>& s) {" % i,
           "  return k2t::run_case([] {",
           "    return [](k2t::frame_tag ft) -> unifex::task<int> {"]
    src += emit_body(e, 0, "      ")
    src += ["    }(k2t::frame_tag{});", "  }, pre, s);", "}"]
    return src


def emit_tu(cases):
    src = ['#include "k2t.hpp"', ""]
    for i, e in enumerate(cases):
        src.append("// " + to_model(e))
        src += emit_case(i, e)
    src.append("static k2t::case_fn CASES[] = {%s};" % ", ".join("case_%d" % i for i in range(len(cases))))
    src.append("int main() { return k2t::main_loop(CASES, %d); }" % len(cases))
    return "\n".join(src) + "\n"


def gen_scripts(rng, e, n):
    ls, cl, al, _ = info(e)
    def ev(i, force_value=False):
        if i in cl or force_value: return "L%d:v%d" % (i, rng.randint(0, 9))
        c = rng.random()
        if c < 0.62: return "L%d:v%d" % (i, rng.randint(0, 12))
        if c < 0.80: return "L%d:e%d" % (i, rng.randint(40, 49))
        if i in al and rng.random() < 0.8: return "L%d:v%d" % (i, rng.randint(0, 12))
        return "L%d:d" % i
    out = []
    for _ in range(n):
        prestop = 1 if rng.random() < 0.1 else 0
        body = []
        # only one leaf is pending at a time: each round offers every leaf once, so every round completes the
        # pending leaf (if any); the others are skipped
        rounds = len(ls) + 1 if rng.random() < 0.9 else rng.randint(0, len(ls))
        happy = rng.random() < 0.3
        for _r in range(rounds):
            order = ls[:]
            rng.shuffle(order)
            body += [ev(i, happy) for i in order]
        if rng.random() < 0.55:
            body.insert(rng.randint(0, len(body)), "S")
            if rng.random() < 0.1:
                body.insert(rng.randint(0, len(body)), "S")
        out.append((prestop, " ".join(body)))
    out.append((0, ""))
    out.append((0, "S"))
    return out


# ------------------------------------------------------------------------------------------ direct monitor
def py_monitor(trace):
    """The property itself evaluated on an implementation trace, written independently of the Coq monitor:
    every constructed local destroyed exactly once; every registered cleanup run exactly once, finished,
    in reverse registration order within its frame; every created frame destroyed exactly once, after its
    locals and cleanups; all cleanups over before the root completes; root completes at most once; nothing
    but destruction after the root; no heap block left."""
    body, _, tail = trace.partition(" # ")
    evs = [x for x in body.split(";") if x]
    ctor, dtor, reg, run, end, fr, frd = {}, {}, {}, {}, {}, {}, {}
    regs_of, runs_of = {}, {}
    roots = 0
    opd = False
    for pos, x in enumerate(evs):
        w = x.split()
        if w[0] == "root":
            roots += 1
            if roots > 1: return "root: completed %d times" % roots
            for key in reg:
                if end.get(key, 0) != 1: return "cleanup: %s not finished before the root completed" % (key,)
            continue
        if w[0] == "opdtor": opd = True; continue
        if roots and w[0] not in ("dtor", "framedtor", "skip", "stop"):
            return "after-root: activity after the root completed: " + x
        if roots and w[0] in ("dtor", "framedtor") and not opd:
            return "after-root: destruction after the root completed but before the operation state is destroyed: " + x
        if w[0] in ("ctor", "dtor", "reg", "cleanup", "cleanupend"):
            key = (int(w[1]), int(w[2]))
            d = {"ctor": ctor, "dtor": dtor, "reg": reg, "cleanup": run, "cleanupend": end}[w[0]]
            d[key] = d.get(key, 0) + 1
            if d[key] > 1: return "%s: %s happened twice" % (w[0], key)
            if key[0] in frd: return "frame: %s in frame %d after the frame was destroyed" % (w[0], key[0])
            if w[0] == "dtor" and key not in ctor: return "local: %s destroyed but never constructed" % (key,)
            if w[0] == "cleanup":
                if key not in reg: return "cleanup: %s ran but was never registered" % (key,)
                runs_of.setdefault(key[0], []).append(key[1])
            if w[0] == "reg":
                if runs_of.get(key[0]): return "cleanup: registration in frame %d after its cleanups started" % key[0]
                regs_of.setdefault(key[0], []).append(key[1])
            if w[0] == "cleanupend" and key not in run: return "cleanup: %s ended but never ran" % (key,)
        if w[0] == "frame":
            fr[int(w[1])] = fr.get(int(w[1]), 0) + 1
        if w[0] == "framedtor":
            n = int(w[1])
            frd[n] = frd.get(n, 0) + 1
            if frd[n] > 1: return "frame: %d destroyed twice" % n
            if n not in fr: return "frame: %d destroyed but never created" % n
            for (f, i) in ctor:
                if f == n and (f, i) not in dtor: return "local: frame %d destroyed with local %d alive" % (n, i)
            for (f, c) in reg:
                if f == n and end.get((f, c), 0) != 1: return "cleanup: frame %d destroyed before cleanup %d finished" % (n, c)
    for f, rs in regs_of.items():
        if roots and runs_of.get(f, []) != rs[::-1]:
            return "cleanup: frame %d registered %r ran %r (not the reverse)" % (f, rs, runs_of.get(f, []))
    if roots:
        for key in ctor:
            if key not in dtor: return "local: %s never destroyed" % (key,)
        for n in fr:
            if n not in frd: return "frame: %d never destroyed" % n
        m = re.search(r"live=(-?\d+)", tail)
        if m and int(m.group(1)) != 0:
            return "heap: %s block(s) (coroutine frames / operation states) not released" % m.group(1)
    return ""


CORPUS = [
    # value / exception / done through two levels with cleanups that suspend
    ("local", 1, ("atexit", 1, -1, ("atexit", 2, 2, ("await", ("leaf", 0), ("local", 2,
        ("await", ("task", ("local", 3, ("atexit", 3, -1, ("await", ("leafn", 1), ("local", 4, ("ret", ("v", 0, 1))))))),
         ("ret", ("v", 0, 0)))))))),
    # try/catch around awaits; awaitable round trips
    ("local", 1, ("try", ("local", 2, ("atexit", 1, -1, ("await", ("awjust", ("c", 5)), ("await", ("leaf", 0), ("ret", ("v", 0, 2)))))),
        ("await", ("awleaf", 1), ("await", ("done",), ("ret", ("v", 2, 0)))))),
    # exception from a nested task caught by the parent; cleanup with a leaf in the child
    ("try", ("await", ("task", ("atexit", 1, 1, ("local", 1, ("await", ("leaf", 0), ("throw", 51))))), ("ret", ("v", 0, 0))),
        ("local", 2, ("await", ("leafn", 2), ("ret", ("v", 1, 3))))),
    # round trip: a task that only forwards what it awaits
    ("await", ("task", ("await", ("leaf", 0), ("ret", ("v", 0, 0)))), ("ret", ("v", 0, 0))),
    ("await", ("task", ("await", ("awerr", 33), ("ret", ("v", 0, 0)))), ("ret", ("v", 0, 0))),
    ("atexit", 1, -1, ("await", ("task", ("atexit", 2, -1, ("await", ("task", ("atexit", 3, 0, ("await", ("leafn", 1), ("ret", ("c", 1))))),
        ("ret", ("v", 0, 0))))), ("ret", ("v", 0, 0)))),
]


def run_k2t(chk, n_tus, cases_per_tu, scripts_per_case, size_range=(3, 9), cfg="plain20", tag="k2task", corpus=None):
    rng = random.Random(chk.seed * 104729 + 10)
    tus = []
    for t in range(n_tus):
        cases = []
        for c in range(cases_per_tu):
            g = Gen(rng)
            cases.append(g.body(rng.randint(*size_range), 0, 0))
        tus.append(cases)
    corpus = CORPUS if corpus is None else corpus
    if corpus:
        tus = [corpus[i:i + cases_per_tu] for i in range(0, len(corpus), cases_per_tu)] + tus
    cd = vlib.cache_dir()
    gen_dir = os.path.join(cd, "k2src")
    os.makedirs(gen_dir, exist_ok=True)
    extra = os.environ.get("K2T_EXTRA_FLAGS", "-g0")     # coroutine TUs compile slowly; no debug info needed
    jobs = []
    for cases in tus:
        src = emit_tu(cases)
        h = hashlib.sha256(src.encode()).hexdigest()[:12]
        p = os.path.join(gen_dir, "%s_%s.cpp" % (tag, h))
        if not os.path.exists(p):
            open(p, "w").write(src)
        jobs.append(("%s_%s" % (tag, h), cfg, p, extra, True))
    built = vlib.build_many(jobs)
    stats = chk.cov.setdefault("k2t", {"programs": 0, "scripts": 0, "kinds": {}, "roots": {"value": 0, "error": 0, "done": 0, "none": 0},
                                       "with_stop": 0, "compile_failures": 0, "distinct_traces": 0, "events": 0})
    distinct = set()
    # run every executable on its scripts; the model and the extracted monitor are run once on all lines
    per_tu = []
    for (name, cfgn, p, _, _), cases in zip(jobs, tus):
        exe, err = built[(name, cfgn)]
        if err:
            stats["compile_failures"] += 1
            rp = chk.replay_file("k2t_build_" + name, {"kind": "build-failure", "tu": p, "error": err[-3000:],
                                                        "cases": [to_model(c) for c in cases]})
            chk.violation("k2t/build", rp, no_input=True,
                          text="generated TU does not compile against the repository: " + err[-300:].replace("\n", " "))
            continue
        ilines, mlines, meta = [], [], []
        for i, e in enumerate(cases):
            stats["programs"] += 1
            for k, v in info(e)[3].items():
                stats["kinds"][k] = stats["kinds"].get(k, 0) + v
            for pre, sc in gen_scripts(rng, e, scripts_per_case):
                ilines.append("%d %d | %s" % (i, pre, sc))
                mlines.append("tcalc %d %s | %s" % (pre, to_model(e), sc))
                meta.append((e, pre, sc))
        iout = vlib.run_impl_lines(exe, ilines, chunk=400)
        per_tu.append((exe, ilines, mlines, meta, iout))
    all_m = [l for t in per_tu for l in t[2]]
    all_v = ["tmon " + (io if not io.startswith("CRASH") else "") for t in per_tu for io in t[4]]
    both = vlib.model_run(all_m + all_v) if all_m else []
    mall, vall = both[:len(all_m)], both[len(all_m):]
    pos = 0
    for exe, ilines, mlines, meta, iout in per_tu:
        mout, vout = mall[pos:pos + len(ilines)], vall[pos:pos + len(ilines)]
        pos += len(ilines)
        for (e, pre, sc), io, mo, vo, il in zip(meta, iout, mout, vout, ilines):
            stats["scripts"] += 1
            stopped = pre or "S" in sc.split()
            if stopped: stats["with_stop"] += 1
            m = re.search(r"root (value|error|done)", io)
            stats["roots"][m.group(1) if m else "none"] += 1
            nontriv = bool(stopped or (m and m.group(1) != "value") or "cleanup " in io)
            chk.count((to_model(e), pre, sc), nontriv)
            crashed = io.startswith("CRASH")
            expect_term = mo.split(" # ")[0].endswith("terminate")
            if crashed and expect_term:
                chk.cov["traces_validated_against_impl"] += 1
                continue
            mon = ""
            if crashed:
                mon = "crash: " + io[:200]
            else:
                pm = py_monitor(io)
                if pm: mon = pm
                elif vo != "ok": mon = "coqmon: " + vo
            if io == mo and not mon:
                chk.cov["traces_validated_against_impl"] += 1
                distinct.add(io)
                stats["events"] += io.count(";") + 1
                if nontriv:
                    chk.sample({"body": to_model(e), "prestop": pre, "script": sc, "trace": io[:400]}, limit=8)
                continue
            chk.cov["disagreements_checked"] += 1
            rec = {"kind": "k2t", "body": to_model(e), "cpp": "\n".join(emit_case(0, e)), "prestop": pre, "script": sc,
                   "impl": io, "model": mo, "monitor": mon, "coq_monitor": vo,
                   "obligation": "K2 correspondence TCalc.exec vs unifex::task / at_coroutine_exit",
                   "replay": "echo '%s' | %s" % (il, exe)}
            rp = chk.replay_file("k2t_%s" % hashlib.sha256((to_model(e) + sc).encode()).hexdigest()[:10], rec)
            kinds = "+".join(sorted(k for k in info(e)[3] if k in ("task", "try", "atexit", "local", "leafn", "awleaf", "awjust", "awerr", "done")))
            if mon:
                chk.violation("k2t/monitor/%s/%s" % (mon.split(":")[0], kinds), rp,
                              text="%s | pre=%d %s | %s" % (to_model(e), pre, sc, mon))
            else:
                # first differing event
                a, b = io.split(";"), mo.split(";")
                k = next((j for j in range(min(len(a), len(b))) if a[j] != b[j]), min(len(a), len(b)))
                chk.violation("k2t/corr/%s" % kinds, rp, no_input=True,
                              text="%s | pre=%d %s | event %d: impl=%s model=%s" % (
                                  to_model(e), pre, sc, k, ";".join(a[k:k + 3])[:120], ";".join(b[k:k + 3])[:120]))
    stats["distinct_traces"] = len(distinct)
    return stats


# ------------------------------------------------------------------------------------------ task objects (TaskBox)
def taskbox_monitor(trace):
    """every created frame destroyed exactly once, a body runs only in a live frame, nothing left at the end"""
    body, _, tail = trace.partition(" # ")
    created, destroyed = {}, {}
    for x in [y for y in body.split(";") if y]:
        w = x.split()
        if w[0] == "frame": created[int(w[1])] = created.get(int(w[1]), 0) + 1
        if w[0] == "framedtor":
            n = int(w[1]); destroyed[n] = destroyed.get(n, 0) + 1
            if destroyed[n] > 1: return "frame: %d destroyed twice" % n
            if n not in created: return "frame: %d destroyed but never created" % n
        if w[0] in ("ctor", "dtor") and int(w[1]) in destroyed: return "frame: body of %s ran after its frame was destroyed" % w[1]
    for n in created:
        if created[n] != 1: return "frame: %d created %d times" % (n, created[n])
        if destroyed.get(n, 0) != 1: return "frame: %d never destroyed (task object dropped / overwritten without destroying its coroutine)" % n
    m = re.search(r"live=(-?\d+) payload=(-?\d+)", tail)
    if not m: return "crash: " + trace[:200]
    if int(m.group(1)) != 0: return "heap: %s coroutine frame block(s) not released" % m.group(1)
    if int(m.group(2)) != 0: return "payload: %s by-value argument instance(s) not destroyed" % m.group(2)
    return ""


TASKBOX_CORPUS = [
    (1, "N0 N0 N0 A0"),                       # replace a pending task twice, await the survivor
    (2, "N0 M0:1 N0 A1 A0"),                  # move-construct, assign onto a moved-from task
    (2, "N0 N1 M0:1 A1"),                     # move-assign onto a pending task
    (3, "N0 N1 M0:1 M1:2 N0 D2 A1"),
    (2, "N0 D0 N0 N1 D1"),                    # destroy without awaiting
    (1, "N0 A0 N0 N0"),                       # assign onto an awaited (empty) task, then onto a pending one
]


def run_taskbox(chk, n_seqs, cfg="plain20"):
    rng = random.Random(chk.seed * 7001 + 3)
    exe, err = vlib.build_driver("k3_taskbox", cfg, extra_flags=os.environ.get("K2T_EXTRA_FLAGS", "-g0"))
    stats = chk.cov.setdefault("taskbox", {"sequences": 0, "ops": 0, "frames": 0, "assign_onto_pending": 0})
    if err:
        rp = chk.replay_file("taskbox_build", {"kind": "build-failure", "driver": "k3_taskbox", "error": err[-3000:]})
        chk.violation("taskbox/build", rp, no_input=True, text="k3_taskbox does not compile against the repository: " + err[-300:].replace("\n", " "))
        return
    cases = list(TASKBOX_CORPUS)
    for _ in range(n_seqs):
        k = rng.randint(1, 4)
        ops = []
        for _o in range(rng.randint(2, 14)):
            c = rng.random()
            i = rng.randrange(k + (1 if rng.random() < 0.05 else 0))
            if c < 0.40: ops.append("N%d" % i)
            elif c < 0.65: ops.append("M%d:%d" % (i, rng.randrange(k)))
            elif c < 0.80: ops.append("D%d" % i)
            else: ops.append("A%d" % i)
        cases.append((k, " ".join(ops)))
    ilines = ["%d | %s" % c for c in cases]
    iout = vlib.run_impl_lines(exe, ilines, chunk=500)
    mout = vlib.model_run(["taskbox " + l for l in ilines])
    for (k, ops), il, io, mo in zip(cases, ilines, iout, mout):
        stats["sequences"] += 1; stats["ops"] += len(ops.split()); stats["frames"] += io.count("frame ")
        pending_overwritten = bool(re.search(r"frame \d+;framedtor", mo))
        if pending_overwritten: stats["assign_onto_pending"] += 1
        chk.count(("taskbox", k, ops), pending_overwritten or "M" in ops)
        mon = ("crash: " + io[:200]) if io.startswith("CRASH") else taskbox_monitor(io)
        if io == mo and not mon:
            chk.cov["traces_validated_against_impl"] += 1
            if pending_overwritten: chk.sample({"taskbox": il, "trace": io[:300]}, limit=10)
            continue
        chk.cov["disagreements_checked"] += 1
        rec = {"kind": "taskbox", "slots": k, "ops": ops, "impl": io, "model": mo, "monitor": mon,
               "obligation": "K3 correspondence TaskBox.exec vs unifex::task<int> object operations",
               "replay": "echo '%s' | %s" % (il, exe)}
        rp = chk.replay_file("taskbox_%s" % hashlib.sha256(il.encode()).hexdigest()[:10], rec)
        if mon:
            chk.violation("taskbox/monitor/%s" % mon.split(":")[0], rp, text="%s | %s" % (il, mon))
        else:
            chk.violation("taskbox/corr", rp, no_input=True, text="%s | impl=%s | model=%s" % (il, io[:160], mo[:160]))
