"""K2 program differential: generate sender expressions + event scripts, emit C++ translation
units over the real unifex API (harness/k2.hpp) and the same cases as terms of the Calc model,
run both, compare traces event by event."""
import zlib
import hashlib, os, random, re
from concurrent.futures import ThreadPoolExecutor
import vlib

NT_QUERIES = True   # k2erase switches this off: any_sender_of's erased queries are declared noexcept
UN = ["then", "uerr", "udone", "withq", "unstop", "mat", "dopt"]
BIN = ["letv", "lete", "letd", "seq", "fin", "wall", "swhen"]

# ------------------------------------------------------------------------------------------ generation
class Gen:
    def __init__(self, rng, max_leaves=4, kinds=None):
        self.rng = rng
        self.max_leaves = max_leaves
        self.nleaf = 0
        self.kinds = kinds

    def fn(self):
        r = self.rng
        k = r.choice("aaammti")
        if k == "a": return ("add", r.randint(1, 9))
        if k == "m": return ("mul", r.randint(2, 5))
        if k == "t": return ("throw", r.randint(50, 59))
        return ("throwif", r.randint(0, 12), r.randint(60, 69))

    def leafish(self, nbound):
        r = self.rng
        c = r.random()
        if self.nleaf < self.max_leaves and c < 0.55:
            self.nleaf += 1
            return ("leafn" if r.random() < 0.25 else "leaf", self.nleaf - 1)
        if nbound > 0 and c < 0.75:
            return ("var", r.randrange(nbound))
        c = r.random()
        if c < 0.6: return ("just", r.randint(0, 12))
        if c < 0.8: return ("jerr", r.randint(20, 29))
        return ("jdone",)

    def expr(self, size, nbound=0):
        r = self.rng
        if size <= 1:
            return self.leafish(nbound)
        if r.random() < 0.35:
            k = r.choice(UN)
            sub = self.expr(size - 1, nbound)
            if k in ("then", "uerr", "udone"): return (k, self.fn(), sub)
            if k == "withq": return (k, r.randrange(2), r.randint(1, 99), sub)
            return (k, sub)
        k = r.choice(BIN)
        sa = r.randint(1, size - 1)
        a = self.expr(sa, nbound)
        nb = nbound + (1 if k in ("letv", "lete") else 0)
        b = self.expr(size - sa, nb)
        return (k, a, b)


def leaves(e, acc=None):
    acc = [] if acc is None else acc
    if e[0] in ("leaf", "leafn"):
        acc.append(e[1])
    else:
        for x in e[1:]:
            if isinstance(x, tuple) and x and isinstance(x[0], str) and x[0] not in ("add", "mul", "throw", "throwif"):
                leaves(x, acc)
    return acc


def to_model(e):
    k = e[0]
    if k in ("just", "jerr", "var", "leaf", "leafn"): return "(%s %d)" % (k, e[1])
    if k == "jdone": return "(jdone)"
    if k in ("then", "uerr", "udone"):
        return "(%s (%s) %s)" % (k, " ".join(map(str, e[1])), to_model(e[2]))
    if k == "withq": return "(withq %d %d %s)" % (e[1], e[2], to_model(e[3]))
    if k in ("unstop", "mat", "dopt"): return "(%s %s)" % (k, to_model(e[1]))
    return "(%s %s %s)" % (k, to_model(e[1]), to_model(e[2]))


def cpp_fn(f):
    if f[0] == "add": return "k2::fnobj{'a',%d,0}" % f[1]
    if f[0] == "mul": return "k2::fnobj{'m',%d,0}" % f[1]
    if f[0] == "throw": return "k2::fnobj{'t',%d,0}" % f[1]
    return "k2::fnobj{'i',%d,%d}" % (f[1], f[2])


def to_cpp(e, bound=()):
    """bound: tuple of C++ variable names, innermost first"""
    k = e[0]
    if k == "just": return "unifex::just(%d)" % e[1]
    if k == "jerr": return "k2::inl{'e',%d}" % e[1]
    if k == "jdone": return "k2::inl{'d',0}"
    if k == "var": return "unifex::just(int(%s))" % bound[e[1]]
    if k == "leaf": return "k2::leaf{%d,false}" % e[1]
    if k == "leafn": return "k2::leaf{%d,true}" % e[1]
    if k == "then": return "unifex::then(%s, %s)" % (to_cpp(e[2], bound), cpp_fn(e[1]))
    if k == "uerr": return "k2::uerr(%s, %s)" % (to_cpp(e[2], bound), cpp_fn(e[1]))
    if k == "udone": return "k2::udone(%s, %s)" % (to_cpp(e[2], bound), cpp_fn(e[1]))
    if k == "withq":
        if NT_QUERIES and e[2] % 3 == 0:   # a third of them: the harness look-alike whose query customisation is not noexcept
            return "k2::withq_nt<%d>(%s, %d)" % (e[1], to_cpp(e[3], bound), e[2])
        return "unifex::with_query_value(%s, k2::get_q%d, %d)" % (to_cpp(e[3], bound), e[1], e[2])
    if k == "unstop": return "unifex::unstoppable(%s)" % to_cpp(e[1], bound)
    if k == "mat": return "k2::mat(%s)" % to_cpp(e[1], bound)
    if k == "dopt":   # every other one (by content): the void-valued form, same model term
        return "k2::dopt%s(%s)" % ("_void" if zlib.crc32(repr(e[1]).encode()) % 2 == 0 else "", to_cpp(e[1], bound))
    a = to_cpp(e[1], bound)
    if k == "letv":
        x = "x%d" % len(bound)
        return "unifex::let_value(%s, [=](int& %s) { return %s; })" % (a, x, to_cpp(e[2], (x,) + bound))
    if k == "lete":
        x = "x%d" % len(bound)
        return "unifex::let_error(%s, [=](auto&& ep%s) { int %s = k2::code_of(ep%s); return %s; })" % (
            a, x, x, x, to_cpp(e[2], (x,) + bound))
    b = to_cpp(e[2], bound)
    if k == "letd": return "unifex::let_done(%s, [=]() { return %s; })" % (a, b)
    if k == "seq": return "unifex::sequence(k2::voided(%s), %s)" % (a, b)
    if k == "fin": return "unifex::finally(%s, k2::voided(%s))" % (a, b)
    if k == "wall": return "k2::wall(%s, %s)" % (a, b)
    if k == "swhen": return "unifex::stop_when(%s, k2::voided(%s))" % (a, b)
    raise ValueError(k)


def gen_scripts(rng, e, n):
    ls = sorted(set(leaves(e)))
    out = []
    def ev(i):
        c = rng.random()
        if c < 0.6: return "L%d:v%d" % (i, rng.randint(0, 12))
        if c < 0.8: return "L%d:e%d" % (i, rng.randint(30, 39))
        return "L%d:d" % i
    for _ in range(n):
        prestop = 1 if rng.random() < 0.12 else 0
        body = []
        order = ls[:]
        rng.shuffle(order)
        for i in order:
            if rng.random() < 0.85:
                body.append(ev(i))
        if rng.random() < 0.1 and ls:
            body.append(ev(rng.choice(ls)))          # duplicate completion attempt
        if rng.random() < 0.55:
            body.insert(rng.randint(0, len(body)), "S")
        if rng.random() < 0.85:                       # drain: complete whatever got started later
            for _ in range(3):
                for i in ls:
                    body.append(ev(i))
        out.append((prestop, " ".join(body)))
    # always include: empty script, stop only
    out.append((0, ""))
    out.append((0, "S"))
    return out


# ------------------------------------------------------------------------------------------ TU emission
def emit_tu(cases):
    src = ['#include "k2.hpp"', ""]
    for i, e in enumerate(cases):
        src.append("static std::string case_%d(bool pre, const std::vector<k2::script_ev>& s) {" % i)
        src.append("  return k2::run_case([] { return %s; }, pre, s);" % to_cpp(e))
        src.append("}")
        src.append("static std::string traits_%d() { return k2::traits_of([] { return %s; }); }" % (i, to_cpp(e)))
    src.append("static k2::case_fn CASES[] = {%s};" % ", ".join("case_%d" % i for i in range(len(cases))))
    src.append("static k2::traits_fn TRAITS[] = {%s};" % ", ".join("traits_%d" % i for i in range(len(cases))))
    src.append("int main() { return k2::main_loop(CASES, %d, TRAITS); }" % len(cases))
    return "\n".join(src) + "\n"


def canon(trace):
    """canonical form for the strict comparison: maximal runs of consecutive 'stopseen' are sorted, model-only 'leak'
    markers and the batch markers '|' are dropped."""
    body, _, tail = trace.partition(" # ")
    evs = [x for x in body.split(";") if x and x != "|" and not x.startswith("leak ")]
    out, run = [], []
    for x in evs:
        if x.startswith("stopseen "):
            run.append(x)
        else:
            out += sorted(run); run = []
            out.append(x)
    out += sorted(run)
    return ";".join(out) + " # " + tail


def _leaf_of(ev):
    m = re.match(r"(?:start|stopseen) (\d+)", ev)
    return m.group(1) if m else None


def batches_equal(a, b):
    """fallback when the strict comparison fails: the order in which ONE stop source runs its callbacks (most recently
    registered first) is not tracked by the structural model, and a stop-reactive leaf completing inside the cascade can
    put other events between two 'stopseen'.  Per script event (batch): identical if equal; a batch with >= 2 'stopseen'
    is compared as a multiset plus, per leaf, the order of that leaf's own events; events that are not leaf events
    (call / root / skip) must appear in the same relative order."""
    ba, _, ta = a.partition(" # ")
    bb, _, tb = b.partition(" # ")
    if ta != tb:
        return False
    sa = [[x for x in part.split(";") if x and not x.startswith("leak ")] for part in ba.split("|")]
    sb = [[x for x in part.split(";") if x and not x.startswith("leak ")] for part in bb.split("|")]
    if len(sa) != len(sb):
        return False
    for x, y in zip(sa, sb):
        if x == y:
            continue
        if sum(1 for e in x if e.startswith("stopseen ")) < 2 or sorted(x) != sorted(y):
            return False
        if [e for e in x if _leaf_of(e) is None] != [e for e in y if _leaf_of(e) is None]:
            return False
        leaves = set(_leaf_of(e) for e in x) - {None}
        for l in leaves:
            if [e for e in x if _leaf_of(e) == l] != [e for e in y if _leaf_of(e) == l]:
                return False
    return True


def monitor(trace):
    """the properties themselves on an implementation trace: C01 at most one root completion;
    C04 no live registration on the root token at completion."""
    body, _, tail = trace.partition(" # ")
    evs = [x for x in body.split(";") if x != "|"]
    roots = [x for x in evs if x.startswith("root ")]
    if len(roots) > 1:
        return "C01: %d root completions" % len(roots)
    for r in roots:
        m = re.search(r"regs=(-?\d+)", r)
        if m and int(m.group(1)) != 0:
            return "C04: %s live stop-callback registration(s) on the receiver's token at completion" % m.group(1)
    if roots and evs[-1] != roots[0] and any(not x.startswith("skip") for x in evs[evs.index(roots[0]) + 1:]):
        return "C02: activity after the root completed: %r" % evs[evs.index(roots[0]) + 1:][:3]
    return ""


CORPUS = [
    ("swhen", ("leafn", 0), ("leafn", 1)),                       # finding 5: completes from its cancel callback
    ("fin", ("jdone",), ("swhen", ("leaf", 0), ("leaf", 1))),    # finally: error owned by the completion op
    ("fin", ("just", 1), ("swhen", ("leaf", 0), ("leaf", 1))),
    ("fin", ("jerr", 21), ("wall", ("leaf", 0), ("leaf", 1))),
    ("wall", ("swhen", ("leafn", 0), ("leaf", 1)), ("leafn", 2)),
    ("letv", ("wall", ("leaf", 0), ("leaf", 1)), ("then", ("add", 1), ("var", 0))),
    ("unstop", ("swhen", ("leafn", 0), ("leafn", 1))),
    ("withq", 0, 7, ("wall", ("withq", 1, 9, ("leaf", 0)), ("leaf", 1))),
    ("withq", 1, 6, ("seq", ("just", 1), ("letv", ("leaf", 0), ("fin", ("leaf", 1), ("then", ("add", 1), ("leaf", 2)))))),   # non-noexcept query through sequence/let_value/finally/then
    ("withq", 0, 9, ("lete", ("jerr", 21), ("letd", ("jdone",), ("swhen", ("leaf", 0), ("leaf", 1))))),
    # stop cascade in which a reactive leaf's completion starts a new leaf between two stop callbacks (thorough-tier false alarm, now batch-compared)
    ("letv", ("swhen", ("udone", ("add", 7), ("fin", ("letv", ("leaf", 0), ("leafn", 1)), ("leaf", 2))), ("leafn", 3)), ("var", 0)),
    # done_as_optional over an int-valued and over a VOID-valued source (k2::dopt / k2::dopt_void, chosen by content)
    ("wall", ("dopt", ("leaf", 0)), ("dopt", ("leaf", 1))),
    ("letv", ("dopt", ("then", ("add", 1), ("leaf", 0))), ("dopt", ("leafn", 1))),
]


def run_k2(chk, n_tus, cases_per_tu, scripts_per_case, size_range=(2, 8), cfg="plain17", tag="k2", corpus=None,
           on_violation=None):
    """Returns list of per-case records; registers violations on chk."""
    rng = random.Random(chk.seed * 7919 + 17)
    tus = []
    for t in range(n_tus):
        cases = []
        for c in range(cases_per_tu):
            g = Gen(rng)
            cases.append(g.expr(rng.randint(*size_range)))
        tus.append(cases)
    corpus = CORPUS if corpus is None else corpus
    if corpus:
        tus = [corpus[i:i + cases_per_tu] for i in range(0, len(corpus), cases_per_tu)] + tus
    cd = vlib.cache_dir()
    gen_dir = os.path.join(cd, "k2src")
    os.makedirs(gen_dir, exist_ok=True)
    jobs = []
    for cases in tus:
        src = emit_tu(cases)
        h = hashlib.sha256(src.encode()).hexdigest()[:12]
        p = os.path.join(gen_dir, "%s_%s.cpp" % (tag, h))
        if not os.path.exists(p):
            open(p, "w").write(src)
        jobs.append(("%s_%s" % (tag, h), cfg, p, "", True))
    built = vlib.build_many(jobs)
    stats = chk.cov.setdefault("k2", {"programs": 0, "scripts": 0, "kinds": {}, "roots_completed": 0, "compile_failures": 0})
    for (name, cfgn, p, _, _), cases in zip(jobs, tus):
        exe, err = built[(name, cfgn)]
        if err:
            stats["compile_failures"] += 1
            rp = chk.replay_file("k2_build_" + name, {"kind": "build-failure", "tu": p, "error": err[-3000:],
                                                       "cases": [to_model(c) for c in cases]})
            chk.violation("k2/build", rp, no_input=True, text="generated TU does not compile against /repo: " + err[-300:].replace("\n", " "))
            continue
        ilines, mlines, meta = [], [], []
        for i, e in enumerate(cases):
            stats["programs"] += 1
            for k in re.findall(r"\((\w+)", to_model(e)):
                stats["kinds"][k] = stats["kinds"].get(k, 0) + 1
            for pre, sc in gen_scripts(rng, e, scripts_per_case):
                ilines.append("%d %d | %s" % (i, pre, sc))
                mlines.append("calc %d %s | %s" % (pre, to_model(e), sc))
                meta.append((e, pre, sc))
        iout = vlib.run_impl_lines(exe, ilines, chunk=400)
        mout = vlib.model_run(mlines)
        for (e, pre, sc), io, mo, il in zip(meta, iout, mout, ilines):
            stats["scripts"] += 1
            nontriv = ("S" in sc.split() or pre) and len(leaves(e)) >= 1 or "error" in io or "done" in io
            chk.count((to_model(e), pre, sc), nontriv)
            if "root " in io:
                stats["roots_completed"] += 1
            mon = monitor(io) if not io.startswith("CRASH") else "crash: " + io[:200]
            ci, cm = (canon(io), canon(mo)) if not io.startswith("CRASH") else (io, mo)
            if (ci == cm or (not io.startswith("CRASH") and batches_equal(io, mo))) and not mon:
                chk.cov["traces_validated_against_impl"] += 1
                if nontriv:
                    chk.sample({"expr": to_model(e), "prestop": pre, "script": sc, "trace": io[:300]}, limit=8)
                continue
            chk.cov["disagreements_checked"] += 1
            rec = {"kind": "k2", "expr": to_model(e), "cpp": to_cpp(e), "prestop": pre, "script": sc, "impl": io, "model": mo,
                   "monitor": mon, "obligation": "K2 correspondence Calc.exec vs the real algorithms",
                   "replay": "echo '%s' | %s" % (il, exe)}
            if on_violation and on_violation(chk, rec):
                continue
            rp = chk.replay_file("k2_%s" % hashlib.sha256((to_model(e) + sc).encode()).hexdigest()[:10], rec)
            kinds = "+".join(sorted(set(re.findall(r"\((\w+)", to_model(e))) & set(UN + BIN)))
            if mon:
                chk.violation("k2/monitor/%s/%s" % (mon.split(":")[0], kinds), rp, text="%s | %s | %s" % (to_model(e), sc, mon))
            else:
                # the model's root outcome is the documented result (Properties_C05_calc.v: exec = denotation); a run whose
                # root completion differs from it is a concrete failing input, not only a broken correspondence
                ri, rm = re.findall(r"root [^;#]*", io), re.findall(r"root [^;#]*", mo)
                chk.violation("k2/corr/%s" % kinds, rp, no_input=(ri == rm),
                              text="%s | pre=%d %s | impl=%s | model=%s" % (to_model(e), pre, sc, ci[:200], cm[:200]))
    return stats


def standard_k2(chk):
    """The K2 sample shared by the properties decided through the Calc model (C01, C02, C04, C05, C11, C12):
    same seed -> same translation units (cached), so the second property to run pays nothing."""
    quick = chk.tier == "quick"
    return run_k2(chk, n_tus=6 if quick else 40, cases_per_tu=8, scripts_per_case=24 if quick else 60)
