"""Generic K1 tie: run a dsched driver over (program, schedules), project each distinct
implementation trace onto a model's names, replay the thread ids on the extracted model and
compare event by event (memory order: equal or stronger than the model's annotation)."""
import re, vlib

ORDER_RANK = {"rlx": 0, "con": 1, "acq": 2, "rel": 2, "acq_rel": 3, "sc": 4}

def order_ok(impl, model):
    """impl order equal to or stronger than the model's annotation."""
    if impl == model:
        return True
    if impl == "sc":
        return True
    if impl == "acq_rel" and model in ("acq", "rel", "rlx", "con"):
        return True
    if model == "rlx":
        return True
    if model == "con" and impl == "acq":
        return True
    return False

_op_re = re.compile(r"^(.*\b[A-Z]{1,3})\.(rlx|con|acq_rel|acq|rel|sc)\b(.*)$")

def ev_equal(impl, model):
    if impl == model:
        return True, ""
    mi, mm = _op_re.match(impl), _op_re.match(model)
    if mi and mm and mi.group(1) == mm.group(1) and mi.group(3) == mm.group(3):
        if order_ok(mi.group(2), mm.group(2)):
            return True, ""
        return False, "order"
    return False, "event"

def parse_event(e):
    """'t3 name op.order a->b ok' -> (tid, rest)"""
    m = re.match(r"t(\d+) (.*)$", e)
    return int(m.group(1)), m.group(2)

class Unit:
    """Subclass per protocol.  Required: name, driver, cfg, handler, programs(tier),
    project(prog, events)->list[(model_tid, evstr)] and model_args(prog)->str."""
    name = "?"; driver = "?"; cfg = "shim17"; handler = "?"
    bound = {"quick": 2, "thorough": 3}
    maxruns = {"quick": 4000, "thorough": 60000}
    nrandom = {"quick": 200, "thorough": 3000}
    def programs(self, tier): return []
    def project(self, prog, events): return []
    def model_args(self, prog): return " ".join(prog)
    def nontrivial(self, proj):
        tids = [t for t, _ in proj]
        return sum(1 for a, b in zip(tids, tids[1:]) if a != b) >= 2
    def post_check(self, prog, model_out, proj): return None   # extra check on the model's summary

def _asan_site(errt):
    """':<kind>@<file>:<function>' of the first library frame of an AddressSanitizer report ('' otherwise), so
    that a crash is identified by where the library touched the dead object, not merely by the program"""
    m = re.search(r"ERROR: AddressSanitizer: (\S+)", errt)
    if not m:
        return ""
    for l in errt[m.end():].split("\n"):
        if re.match(r"\s*(freed by|previously allocated|Thread T|SUMMARY)", l):
            break
        f = re.match(r"\s+#\d+ 0x[0-9a-f]+ in (.*) (\S+)$", l)
        if f and re.search(r"/(include/unifex|source)/", f.group(2)):
            fn = re.sub(r"[<(].*$", "", f.group(1)).split("::")[-1].strip()
            return ":%s@%s:%s" % (m.group(1), f.group(2).split("/")[-1].split(":")[0], fn)
    return ":" + m.group(1)


def run_unit(chk, unit, key_prefix=None):
    kp = key_prefix or unit.name
    exe, err = vlib.build_driver(unit.driver, unit.cfg)
    if err:
        p = chk.replay_file("build_" + unit.driver, {"kind": "build-failure", "driver": unit.driver, "error": err})
        chk.violation(kp + "/build", p, no_input=True, text="driver %s does not compile against /repo" % unit.driver)
        return
    tier = chk.tier
    stats = chk.cov.setdefault("k1_units", {})
    ust = stats.setdefault(unit.name, {"programs": 0, "schedules": 0, "distinct_impl_traces": 0,
                                       "distinct_projected": 0, "model_steps_checked": 0})
    todo = []   # (prog, decisions, proj, events)
    seenproj = set()
    progs = list(unit.programs(tier))
    def _run(prog):
        cmd = [exe] + list(prog) + ["--explore", str(unit.bound[tier]), str(unit.maxruns[tier]),
                                    "--random", str(chk.seed), str(unit.nrandom[tier])]
        return (prog, cmd) + tuple(vlib.sh2(cmd, timeout=1500))
    from concurrent.futures import ThreadPoolExecutor
    with ThreadPoolExecutor(vlib.NPROC) as ex:
        results = list(ex.map(_run, progs))
    for prog, cmd, rc, out, errt in results:
        ust["programs"] += 1
        lines = out.split("\n")
        for l in lines:
            if l.startswith("FATAL"):
                p = chk.replay_file("%s_fatal_%s" % (unit.name, "_".join(prog)),
                                    {"kind": "deadlock-or-livelock", "unit": unit.name, "program": prog,
                                     "line": l[:20000], "replay": " ".join(cmd)})
                chk.violation("%s/%s/deadlock" % (kp, "_".join(prog)), p, text=l[:300])
        if rc not in (0, 3) :
            p = chk.replay_file("%s_crash_%s" % (unit.name, "_".join(prog)),
                                {"kind": "driver-crash", "unit": unit.name, "program": prog, "rc": rc,
                                 "stderr": (errt[errt.find("ERROR: AddressSanitizer"):][:4000] if "ERROR: AddressSanitizer" in errt else errt[-3000:]), "stdout_tail": out[-3000:], "replay": " ".join(cmd)})
            chk.violation("%s/%s/crash%s" % (kp, "_".join(prog), _asan_site(errt)), p, text="driver exited rc=%d: %s" % (rc, errt[-200:].replace("\n", " ")))
            continue
        for l in lines:
            if l.startswith("STATS"):
                m = re.search(r"runs=(\d+)", l)
                ust["schedules"] += int(m.group(1))
                chk.cov["evaluations"] += int(m.group(1))
            if not l.startswith("TRACE "):
                continue
            head, verdict, tr = l.split(" | ", 2)
            _, cnt, dec = head.split(" ")
            events = tr.split(";") if tr else []
            ust["distinct_impl_traces"] += 1
            if verdict.strip():
                p = chk.replay_file("%s_monitor_%s" % (unit.name, "_".join(prog)),
                                    {"kind": "monitor-failed-on-implementation", "unit": unit.name, "program": prog,
                                     "decisions": dec, "verdict": verdict, "trace": events,
                                     "replay": "%s %s --replay %s" % (exe, " ".join(prog), dec)})
                chk.violation("%s/%s/monitor" % (kp, "_".join(prog)), p, text=verdict[:200])
            proj = unit.project(prog, events)
            k = (tuple(prog), tuple(proj))
            if k in seenproj:
                continue
            seenproj.add(k)
            todo.append((prog, dec, proj, events))
    ust["distinct_projected"] += len(todo)
    if not todo:
        return
    mlines = ["%s %s | %s" % (unit.handler, unit.model_args(prog), " ".join(str(t) for t, _ in proj))
              for prog, dec, proj, ev in todo]
    mouts = vlib.model_run(mlines)
    for (prog, dec, proj, events), mo in zip(todo, mouts):
        mtrace, _, summary = mo.partition(" # ")
        mev = [parse_event(e) for e in mtrace.split(";")] if mtrace else []
        bad = None
        for i, (pt, pe) in enumerate(proj):
            if i >= len(mev):
                bad = (i, "model produced fewer events", "event"); break
            mt, me = mev[i]
            ok, why = ev_equal(pe, me)
            if mt != pt or not ok:
                bad = (i, "impl: t%d %s   model: t%d %s" % (pt, pe, mt, me), why or "event"); break
        if bad is None and len(mev) > len(proj):
            # model emitted more events for its last step than the implementation showed
            bad = (len(proj), "model expects further event(s) in the same step: %r" % (mev[len(proj):],), "event")
        if bad is None:
            extra = unit.post_check(prog, summary, proj)
            if extra:
                bad = (len(proj), extra, "summary")
        chk.cov["disagreements_checked"] += 0
        if bad is None:
            chk.cov["traces_validated_against_impl"] += 1
            ust["model_steps_checked"] += len(proj)
            if unit.nontrivial(proj):
                chk._distinct.add((unit.name, tuple(prog), tuple(proj)))
                chk.sample({"unit": unit.name, "program": list(prog), "decisions": dec,
                            "projected": ["t%d %s" % x for x in proj][:40], "model_summary": summary})
            continue
        chk.cov["disagreements_checked"] += 1
        i, why, kind = bad
        p = chk.replay_file("%s_corr_%s" % (unit.name, "_".join(prog)),
                            {"kind": "correspondence", "obligation": "K1 lock-step %s vs model handler '%s'" % (unit.driver, unit.handler),
                             "unit": unit.name, "program": prog, "decisions": dec, "first_difference_at": i,
                             "difference": why, "difference_kind": kind,
                             "impl_projected": ["t%d %s" % x for x in proj], "model": mo, "impl_trace": events,
                             "note": "the direct monitors held on every explored schedule of this program; no failing input found",
                             "replay": "%s %s --replay %s" % (exe, " ".join(prog), dec)})
        chk.violation("%s/%s/corr-%s" % (kp, "_".join(prog), kind), p, no_input=True,
                      text="%s %s: step %d: %s" % (unit.name, " ".join(prog), i, why[:300]))
