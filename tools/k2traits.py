"""C11 (static-traits half): compare the compile-time sender traits of generated K2 expressions
(sender_traits<S>::blocking / ::sends_done / ::is_always_scheduler_affine of the real headers) and the
run-time unifex::blocking(s) answer, printed by a generated TU on input `T i` (k2::traits_of), with
the Gallina mirror of the headers' formulas (coq/Calc/TraitsDefs.v, model handler `calc_traits`)."""
import hashlib, os, random, re
import vlib, k2

BK = {0: "always_inline", 1: "always", 2: "maybe", 3: "never"}
_RX = re.compile(r"^blocking=(-?\d+) sends_done=([01]) affine=([01]) rt_blocking=(-?\d+)$")


def emit_tu(cases):
    """traits-only TU (quick to compile: no run_case instantiations); same `T i` protocol and the same
    k2::traits_of as the TUs of k2.emit_tu, so check_traits accepts either kind of executable."""
    src = ['#include "k2.hpp"', ""]
    for i, e in enumerate(cases):
        src.append("static std::string traits_%d() { return k2::traits_of([] { return %s; }); }" % (i, k2.to_cpp(e)))
    src.append("static k2::traits_fn TRAITS[] = {%s};" % ", ".join("traits_%d" % i for i in range(len(cases))))
    src.append("static k2::case_fn CASES[%d] = {};" % max(1, len(cases)))
    src.append("int main() { return k2::main_loop(CASES, %d, TRAITS); }" % len(cases))
    return "\n".join(src) + "\n"


def kinds_of(e):
    return "+".join(sorted(set(re.findall(r"\((\w+)", k2.to_model(e))) & set(k2.UN + k2.BIN))) or "leaf"


def monitor_traits(chk, exe, cases, declared, scripts_per_case=6):
    """Direct monitor of C11 on the real code (exe must be a full k2.emit_tu TU): with the traits the
    HEADERS declare (declared[i] = (blocking, sends_done)), a sender declaring always_inline/always
    must have completed its receiver when start() returns (script = start only, stopped or not), one
    declaring never must not have, one declaring sends_done=false never completes with done."""
    stats = chk.cov["k2traits"]
    rng = random.Random(chk.seed * 31 + len(cases))
    lines, meta = [], []
    for i, e in enumerate(cases):
        if declared[i] is None:
            continue
        bl, sd = declared[i]
        scripts = [(0, ""), (1, "")]
        if not sd:
            scripts += k2.gen_scripts(rng, e, scripts_per_case)
        for pre, sc in scripts:
            lines.append("%d %d | %s" % (i, pre, sc))
            meta.append((i, e, bl, sd, pre, sc))
    out = vlib.run_impl_lines(exe, lines, chunk=400)
    for (i, e, bl, sd, pre, sc), io, il in zip(meta, out, lines):
        stats["monitored_runs"] = stats.get("monitored_runs", 0) + 1
        bad = ""
        if io.startswith("CRASH"):
            bad = "crash: " + io[:160]
        elif sc == "" and bl in (0, 1) and "root " not in io:
            bad = "declares blocking=%s but start() returned without completing the receiver" % BK[bl]
        elif sc == "" and bl == 3 and "root " in io:
            bad = "declares blocking=never but completed the receiver inside start()"
        elif not sd and "root done" in io:
            bad = "declares sends_done=false but completed with set_done"
        if sc == "" and bl in (0, 1):
            stats["inline_completions_observed"] = stats.get("inline_completions_observed", 0) + 1
        if not sd and "root " in io:
            stats["nodone_completions_observed"] = stats.get("nodone_completions_observed", 0) + 1
        chk.count(("traits-run", k2.to_model(e), pre, sc), bl in (0, 1) or not sd)
        if bad:
            rec = {"kind": "k2traits-monitor", "expr": k2.to_model(e), "cpp": k2.to_cpp(e), "prestop": pre, "script": sc,
                   "impl": io, "monitor": bad, "replay": "echo '%s' | %s" % (il, exe)}
            rp = chk.replay_file("k2traitsmon_%s" % hashlib.sha256((k2.to_model(e) + sc).encode()).hexdigest()[:10], rec)
            chk.violation("k2/traits/monitor/%s" % kinds_of(e), rp,
                          text="%s | pre=%d %s | %s | impl=%s" % (k2.to_model(e), pre, sc, bad, io[:160]))


def check_traits(chk, exe, cases, monitor=False):
    """cases: python ASTs (k2.Gen) in the order they were emitted into the TU `exe`.
    Returns stats; every disagreement is reported through chk.violation.
    monitor=True (exe built from k2.emit_tu, i.e. with the runnable cases): additionally run the
    cases and check the declared traits against the observed behaviour (monitor_traits)."""
    stats = chk.cov.setdefault("k2traits", {"expressions": 0, "agree": 0, "mismatch": 0, "rt_refined": 0,
                                             "blocking_hist": {}, "sends_done_false": 0, "affine_true": 0,
                                             "kinds": {}})
    iout = vlib.run_impl_lines(exe, ["T %d" % i for i in range(len(cases))])
    mout = vlib.model_run(["calc_traits " + k2.to_model(e) for e in cases])
    declared = [None] * len(cases)
    for i, (e, io, mo) in enumerate(zip(cases, iout, mout)):
        stats["expressions"] += 1
        for k in re.findall(r"\((\w+)", k2.to_model(e)):
            stats["kinds"][k] = stats["kinds"].get(k, 0) + 1
        mi, mm = _RX.match(io.strip()), _RX.match(mo.strip())
        bad = []
        if not mi or not mm:
            bad.append("unparsable output")
        else:
            ib, isd, iaf, irt = (int(x) for x in mi.groups())
            mb, msd, maf, mrt = (int(x) for x in mm.groups())
            declared[i] = (ib, isd)
            if ib != mb: bad.append("blocking: headers %s, mirror %s" % (BK.get(ib, ib), BK.get(mb, mb)))
            if isd != msd: bad.append("sends_done: headers %d, mirror %d" % (isd, msd))
            if iaf != maf: bad.append("is_always_scheduler_affine: headers %d, mirror %d" % (iaf, maf))
            if irt != mrt: bad.append("run-time blocking(): headers %s, mirror %s" % (BK.get(irt, irt), BK.get(mrt, mrt)))
            if ib != 2 and irt != ib:      # the run-time answer may only refine `maybe`
                bad.append("run-time blocking() %s differs from compile-time %s" % (BK.get(irt, irt), BK.get(ib, ib)))
            if ib == 2 and irt != 2:
                stats["rt_refined"] += 1
            stats["blocking_hist"][BK.get(ib, str(ib))] = stats["blocking_hist"].get(BK.get(ib, str(ib)), 0) + 1
            stats["sends_done_false"] += 1 - isd
            stats["affine_true"] += iaf
        chk.count(("traits", k2.to_model(e)), len(e) > 2 or e[0] in k2.UN)
        if not bad:
            stats["agree"] += 1
            chk.cov["traces_validated_against_impl"] += 1
            continue
        stats["mismatch"] += 1
        chk.cov["disagreements_checked"] += 1
        rec = {"kind": "k2traits", "expr": k2.to_model(e), "cpp": k2.to_cpp(e), "impl": io, "model": mo,
               "disagreement": bad,
               "obligation": "CalcTraits.traits_of / rt_blocking_of mirror sender_traits<S> / unifex::blocking(s) of the emitted expression",
               "replay": "echo 'T %d' | %s   # and: echo 'calc_traits %s' | ocaml/_build/driver" % (i, exe, k2.to_model(e))}
        rp = chk.replay_file("k2traits_%s" % hashlib.sha256(k2.to_model(e).encode()).hexdigest()[:10], rec)
        chk.violation("k2/traits/%s" % kinds_of(e), rp, no_input=True,
                      text="%s | %s | impl=%s | model=%s" % (k2.to_model(e), "; ".join(bad), io[:120], mo[:120]))
    if monitor:
        monitor_traits(chk, exe, cases, declared)
    return stats


def run_traits(chk, n_tus, cases_per_tu, size_range=(1, 8), cfg="plain17", tag="k2t", corpus=None, monitor=False):
    """Generate expressions (plus k2.CORPUS), emit + build TUs, check every case.
    monitor=False: traits-only TUs (fast to compile); monitor=True: full k2 TUs, cases also run."""
    rng = random.Random(chk.seed * 104729 + 11)
    tus = []
    for _ in range(n_tus):
        # leafless expressions (all-inline) exercise the always_inline / sends_done=false / affine formulas
        tus.append([k2.Gen(rng, max_leaves=rng.choice((0, 0, 1, 4))).expr(rng.randint(*size_range))
                    for _ in range(cases_per_tu)])
    corpus = k2.CORPUS if corpus is None else corpus
    if corpus:
        tus = [corpus[i:i + cases_per_tu] for i in range(0, len(corpus), cases_per_tu)] + tus
    gen_dir = os.path.join(vlib.cache_dir(), "k2src")
    os.makedirs(gen_dir, exist_ok=True)
    jobs = []
    for cases in tus:
        src = k2.emit_tu(cases) if monitor else emit_tu(cases)
        h = hashlib.sha256(src.encode()).hexdigest()[:12]
        p = os.path.join(gen_dir, "%s_%s.cpp" % (tag, h))
        if not os.path.exists(p):
            open(p, "w").write(src)
        jobs.append(("%s_%s" % (tag, h), cfg, p, "", True))
    built = vlib.build_many(jobs)
    stats = chk.cov.get("k2traits")
    for (name, cfgn, p, _, _), cases in zip(jobs, tus):
        exe, err = built[(name, cfgn)]
        if err:
            rp = chk.replay_file("k2traits_build_" + name, {"kind": "build-failure", "tu": p, "error": err[-3000:],
                                                             "cases": [k2.to_model(c) for c in cases]})
            chk.violation("k2/traits/build", rp, no_input=True,
                          text="generated TU does not compile against /repo: " + err[-300:].replace("\n", " "))
            continue
        stats = check_traits(chk, exe, cases, monitor=monitor)
    return stats
