"""C11 (static-traits half): compare the compile-time sender traits of generated K2 expressions
(sender_traits<S>::blocking / ::sends_done / ::is_always_scheduler_affine of the real headers, printed
by the generated TU on input `T i`) with the Gallina mirror of the headers' formulas
(coq/Calc/TraitsDefs.v, model handler `calc_traits`), plus the run-time blocking() answer."""
import hashlib, os, random, re
import vlib, k2

BK = {0: "always_inline", 1: "always", 2: "maybe", 3: "never"}
# ---- which expressions may be asked for their RUN-TIME blocking() ------------------------------------
# unifex::blocking(s) is ill-formed for let_value / let_error / finally senders (let_value.hpp:429,
# let_error.hpp:439, finally.hpp:693-694: the unqualified `blocking(..)` names the class's static data
# member) and recurses forever for let_done (let_done.hpp:331, hence done_as_optional too).  then /
# with_query_value / materialize / stop_when forward to their children; upon_error / upon_done /
# unstoppable / sequence / when_all spell the customisation `tag_t<blocking>` (the member again), so it
# never matches and the CPO answers with the static value.
def rt_ok(e):
    k = e[0]
    if k in ("just", "jerr", "jdone", "var", "leaf", "leafn", "uerr", "udone", "unstop", "seq", "wall"):
        return True
    if k in ("then", "mat"): return rt_ok(e[-1])
    if k == "withq": return rt_ok(e[3])
    if k == "swhen": return rt_ok(e[1]) and rt_ok(e[2])
    return False          # letv lete letd fin dopt


def emit_tu(cases, with_rt=True):
    """traits-only TU (own main; does not use k2::traits_of, whose unconditional unifex::blocking(s)
    does not compile for the senders listed above).  Input lines `T i`, output as k2::traits_of;
    rt_blocking=-1 = not evaluated."""
    src = ['#include "k2.hpp"', "",
           "template <bool WithRt, typename Mk> static std::string traits_line(Mk mk) {",
           "  using S = decltype(mk()); auto s = mk(); int rt = -1;",
           "  if constexpr (WithRt) rt = (int)unifex::blocking(s).value;",
           "  char buf[160];",
           '  std::snprintf(buf, sizeof buf, "blocking=%d sends_done=%d affine=%d rt_blocking=%d",',
           "                (int)unifex::sender_traits<S>::blocking.value, (int)unifex::sender_traits<S>::sends_done,",
           "                (int)unifex::sender_traits<S>::is_always_scheduler_affine, rt);",
           "  return buf;", "}"]
    for i, e in enumerate(cases):
        src.append("static std::string traits_%d() { return traits_line<%s>([] { return %s; }); }"
                   % (i, "true" if with_rt and rt_ok(e) else "false", k2.to_cpp(e)))
    src.append("static k2::traits_fn TRAITS[] = {%s};" % ", ".join("traits_%d" % i for i in range(len(cases))))
    src.append("int main() { std::string l; while (std::getline(std::cin, l)) { std::istringstream is(l); char t; int i = -1; is >> t >> i;")
    src.append('    std::cout << ((t == \'T\' && i >= 0 && i < %d) ? TRAITS[i]() : std::string("ERR")) << "\\n"; } return 0; }' % len(cases))
    return "\n".join(src) + "\n"


_RX_I = re.compile(r"^blocking=(-?\d+) sends_done=([01]) affine=([01]) rt_blocking=(-?\d+)$")
_RX_M = re.compile(r"^blocking=(-?\d+) sends_done=([01]) affine=([01])$")


def kinds_of(e):
    return "+".join(sorted(set(re.findall(r"\((\w+)", k2.to_model(e))) & set(k2.UN + k2.BIN))) or "leaf"


def check_traits(chk, exe, cases):
    """cases: python ASTs (k2.Gen) in the order they were emitted into the TU `exe`.
    Returns stats; every disagreement is reported through chk.violation."""
    stats = chk.cov.setdefault("k2traits", {"expressions": 0, "agree": 0, "mismatch": 0, "rt_refined": 0,
                                             "blocking_hist": {}, "sends_done_false": 0, "affine_true": 0})
    iout = vlib.run_impl_lines(exe, ["T %d" % i for i in range(len(cases))])
    mout = vlib.model_run(["calc_traits " + k2.to_model(e) for e in cases])
    for i, (e, io, mo) in enumerate(zip(cases, iout, mout)):
        stats["expressions"] += 1
        mi, mm = _RX_I.match(io.strip()), _RX_M.match(mo.strip())
        bad = []
        if not mi or not mm:
            bad.append("unparsable output")
        else:
            ib, isd, iaf, irt = (int(x) for x in mi.groups())
            mb, msd, maf = (int(x) for x in mm.groups())
            if ib != mb: bad.append("blocking: headers %s, mirror %s" % (BK.get(ib, ib), BK.get(mb, mb)))
            if isd != msd: bad.append("sends_done: headers %d, mirror %d" % (isd, msd))
            if iaf != maf: bad.append("is_always_scheduler_affine: headers %d, mirror %d" % (iaf, maf))
            if irt < 0:
                stats["rt_not_evaluated"] = stats.get("rt_not_evaluated", 0) + 1
            elif ib != 2 and irt != ib:
                bad.append("run-time blocking() %s differs from compile-time %s" % (BK.get(irt, irt), BK.get(ib, ib)))
            if ib == 2 and irt >= 0 and irt != 2:
                stats["rt_refined"] += 1
            stats["blocking_hist"][BK.get(ib, str(ib))] = stats["blocking_hist"].get(BK.get(ib, str(ib)), 0) + 1
            stats["sends_done_false"] += 1 - isd
            stats["affine_true"] += iaf
        chk.count(("traits", k2.to_model(e)), len(e) > 2 or e[0] in k2.UN)
        if not bad:
            stats["agree"] += 1
            chk.cov["traces_validated_against_impl"] += 1
            continue
        stats["mismatch"] += 1
        chk.cov["disagreements_checked"] += 1
        rec = {"kind": "k2traits", "expr": k2.to_model(e), "cpp": k2.to_cpp(e), "impl": io, "model": mo,
               "disagreement": bad,
               "obligation": "CalcTraits.traits_of mirrors sender_traits<S> of the emitted expression",
               "replay": "echo 'T %d' | %s   # and: echo 'calc_traits %s' | ocaml/_build/driver" % (i, exe, k2.to_model(e))}
        rp = chk.replay_file("k2traits_%s" % hashlib.sha256(k2.to_model(e).encode()).hexdigest()[:10], rec)
        chk.violation("k2/traits/%s" % kinds_of(e), rp, no_input=True,
                      text="%s | %s | impl=%s | model=%s" % (k2.to_model(e), "; ".join(bad), io[:120], mo[:120]))
    return stats


def run_traits(chk, n_tus, cases_per_tu, size_range=(1, 8), cfg="plain17", tag="k2t", corpus=None):
    """Generate expressions (plus k2.CORPUS), emit + build TUs, check the traits of every case."""
    rng = random.Random(chk.seed * 104729 + 11)
    tus = []
    for _ in range(n_tus):
        # leafless expressions (all-inline) exercise the always_inline / sends_done=false / affine formulas
        tus.append([k2.Gen(rng, max_leaves=rng.choice((0, 0, 1, 4))).expr(rng.randint(*size_range)) for _ in range(cases_per_tu)])
    corpus = k2.CORPUS if corpus is None else corpus
    if corpus:
        tus = [corpus[i:i + cases_per_tu] for i in range(0, len(corpus), cases_per_tu)] + tus
    gen_dir = os.path.join(vlib.cache_dir(), "k2src")
    os.makedirs(gen_dir, exist_ok=True)
    jobs = []
    for cases in tus:
        src = emit_tu(cases)
        h = hashlib.sha256(src.encode()).hexdigest()[:12]
        p = os.path.join(gen_dir, "%s_%s.cpp" % (tag, h))
        if not os.path.exists(p):
            open(p, "w").write(src)
        jobs.append(("%s_%s" % (tag, h), cfg, p, "", True))
    built = vlib.build_many(jobs)
    stats = None
    for (name, cfgn, p, _, _), cases in zip(jobs, tus):
        exe, err = built[(name, cfgn)]
        if err:
            rp = chk.replay_file("k2traits_build_" + name, {"kind": "build-failure", "tu": p, "error": err[-3000:],
                                                             "cases": [k2.to_model(c) for c in cases]})
            chk.violation("k2/traits/build", rp, no_input=True,
                          text="generated TU does not compile against /repo: " + err[-300:].replace("\n", " "))
            continue
        stats = check_traits(chk, exe, cases)
    return stats
