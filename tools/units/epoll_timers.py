"""K1 unit for C07: the schedule_at timers of the real io_epoll_context (harness/k1_epoll_timers.cpp: the
context's own .cpp compiled with a virtual clock / virtual timerfd) against the model EpollTimer
(coq/Proto/EpollTimerDefs.v)."""
import re
from k1 import Unit


def parse_specs(s):
    out = []
    for w in s.split(","):
        d, sm, km = w.split(":")
        out.append({"due": int(d), "local": sm == "L", "stop": km[0], "by": int(km[1:]) if km[0] == "B" else None})
    return out


class EpollTimers(Unit):
    """Projection of a k1_epoll_timers run onto EpollTimer.
    Owned: every operation's state_ ('op<i>.state', all accesses) and callbackCompleted_ ('op<i>.cbdone': the
    store and the load that sees 1); remoteQueue_.head_ at its linearisation points (successful enqueue CAS,
    successful CAS to the inactive marker, exchange; loads and failed CASes only feed those); of every
    operation's stop source (C03's protocol) the linearisation points: stop_requested() (the acquire load =
    'LD b'), registration by start_local (its lock CAS acq_rel 0->2 = 'REG'; a stop bit observed instead =
    'REG-INLINE'), deregistration (remove_callback's lock CAS, acquire = 'UNREG'), request_stop()'s stop-bit
    CAS 0->3 ('SET'; inside a request_stop() made by the I/O thread the next lock CAS is the callback's
    deregistration, the one after it request_stop()'s own re-lock, which is dropped like the stoppers');
    the syscalls write/read(eventfd), epoll_wait (result), read(timerfd), timerfd_settime, clock_gettime
    of update_timers (with timers_ as the harness reads it at that moment) and the completions
    'fire'/'done' (virtual time and timers_).  enqueued_ is checked by the driver's monitor only.
    Everything before 'run begin' (construction, pre-stops, the queued Starter) and from the finisher's
    enqueue of run()'s stop operation on is outside the model.  Threads: I/O thread -> 0, starter of timer i
    -> 1+i, stopper of i -> n+1+i; an explicit clock step or a silent jump (every thread blocked; logged by
    the I/O thread when it wakes) by d microseconds -> thread 2n+d."""
    name = "io_epoll_context/EpollTimers"; driver = "k1_epoll_timers"; cfg = "shim17"; handler = "epolltimer"
    bound = {"quick": 2, "thorough": 3}
    maxruns = {"quick": 1200, "thorough": 12000}
    nrandom = {"quick": 120, "thorough": 1200}

    def programs(self, tier):
        progs = [
            ("10:L:N,10:L:B0,10:L:N", "-"),        # same batch: A's value stops B (already reaped), C follows
            ("30:L:N,10:L:N,10:L:N", "-"),         # order 10,10 (FIFO),30 by sleeping to each deadline
            ("10:L:N,20:L:B0,30:L:N", "-"),        # local stop of a timer still in the heap (head -> re-arm)
            ("10:L:N,30:L:N,20:L:B0", "-"),        # local stop of a non-head timer
            ("10:R:S", "12"),                      # remote cancel racing the expiry / the reaping
            ("50:R:S,20:L:N", "-"),                # remote cancel of the far timer, near one fires
            ("20:L:P,10:L:N", "-"),                # stop before start (local)
            ("20:R:P", "-"),                       # stop before start (remote start)
            ("-5:L:N,5:L:N,0:R:N", "-"),           # past, future, immediate
            ("10:R:N,10:R:N", "-"),                # concurrent remote starts, equal due times
            ("10:L:S,10:L:N", "5,5"),              # stopper vs start_local / expiry with explicit clock steps
            ("11:L:N,10:R:N", "-"),                # an earlier timer arrives: 1 us threshold, no re-arm
            ("20:L:N,10:R:S", "-"),                # earlier timer arrives (re-arm), then cancelled (keeps armed time)
        ]
        if tier != "quick":
            progs += [
                ("10:L:N,10:L:B0,10:L:B1,10:L:N", "-"),
                ("10:L:S,10:L:B0,20:L:N", "-"),
                ("10:R:S,10:R:S", "10"),
                ("30:L:N,10:L:N,10:L:N,500:R:S", "15"),
                ("10:L:N,5:R:B0,7:R:N", "-"),
                ("5:R:S,5:L:B0", "w0,10"),
                ("10:R:P,10:L:S", "3,w0,20"),
                ("100:L:B1,10:R:N", "-"),
            ]
        return progs

    def model_args(self, prog):
        return prog[0]

    def roles(self, prog):
        specs = parse_specs(prog[0])
        n = len(specs)
        role = {0: 0}
        t = 1
        for i, sp in enumerate(specs):
            if not sp["local"]:
                role[t] = 1 + i; t += 1
            if sp["stop"] == "S":
                role[t] = n + 1 + i; t += 1
        clock_t = None
        if len(prog) > 1 and prog[1] != "-":
            clock_t = t; t += 1
        return specs, n, role, clock_t, t     # t = the finisher

    def project(self, prog, events):
        specs, n, role, clock_t, fin_t = self.roles(prog)
        out = []
        running = False
        mnow = 0
        window = {}         # impl thread -> [op, set_seen, locks_after_set] while inside request_stop()
        reg = {}            # op -> 'none' | 'reg' (first LD 0 seen, registration pending) | 'done'
        for e in events:
            m = re.match(r"t(\d+) (\S+) ?(.*)$", e)
            t, name, r = int(m.group(1)), m.group(2), m.group(3)
            if not running:
                if name == "!run" and r == "begin":
                    running = True
                continue
            mt = role.get(t)
            if name == "rq.head":
                if t == fin_t:
                    break
                if re.match(r"C\.\S+ \S+->\S+ ok$", r) or r.startswith("X."):
                    out.append((mt, "rq.head " + r))
                continue
            if name.startswith("!"):
                act = name[1:]
                if act in ("stop", "stopped"):
                    k = int(r)
                    if act == "stop":
                        window[t] = [k, False, 0]
                    else:
                        window.pop(t, None)
                elif act in ("jump", "clock"):
                    v = int(r)
                    d = v - mnow
                    if d > 0:
                        out.append((2 * n + d, "clock %d" % v))
                        mnow = v
                elif act == "write" and r.startswith("evfd "):
                    out.append((mt, "!write evfd"))
                elif act == "read" and r.startswith("evfd "):
                    out.append((mt, "!read evfd " + r.split(" ")[-1]))
                elif act == "read" and r.startswith("timerfd"):
                    out.append((mt, "!read " + r))
                elif act == "epoll_wait" and r.startswith("->"):
                    out.append((mt, "!epoll_wait " + r))
                elif act in ("settime", "now", "fire", "done"):
                    out.append((mt, "!%s %s" % (act, r)))
                elif act == "run" and r == "returned":
                    break
                continue
            mm = re.match(r"op(\d+)\.(\w+)$", name)
            if mm:
                i, f = int(mm.group(1)), mm.group(2)
                if f == "state":
                    out.append((mt, "%s %s" % (name, r)))
                elif f == "cbdone" and r.endswith(" 1"):
                    out.append((mt, "%s %s" % (name, r)))
                continue
            mm = re.match(r"src(\d+)$", name)
            if mm:
                i = int(mm.group(1))
                w = window.get(t)
                if w is not None and w[0] == i:
                    # inside request_stop() on this source
                    if not w[1]:
                        if re.match(r"C\.\S+ 0->3 ok", r):
                            out.append((mt, "src%d SET" % i)); w[1] = True
                        else:
                            o = re.match(r"L\.\S+ (\d+)$", r) or re.match(r"C\.\S+ (\d+)->\d+ fail", r)
                            if o and int(o.group(1)) & 1:
                                out.append((mt, "src%d SET-LATE" % i)); w[1] = True; w[2] = 99
                    elif t == 0 and re.match(r"C\.acq \d+->\d+ ok", r):
                        w[2] += 1
                        if w[2] == 1:
                            out.append((0, "src%d UNREG" % i)); reg[i] = "done"
                    continue
                if t != 0:
                    continue
                if re.match(r"L\.acq ", r):
                    b = int(r.split(" ")[1]) & 1
                    out.append((0, "src%d LD %d" % (i, b)))
                    if reg.get(i, "none") == "none":
                        reg[i] = "reg" if b == 0 else "done"
                elif reg.get(i) == "reg":
                    if re.match(r"C\.acq_rel 0->2 ok", r):
                        out.append((0, "src%d REG" % i)); reg[i] = "done"
                    else:
                        o = re.match(r"L\.\S+ (\d+)$", r) or re.match(r"C\.\S+ (\d+)->\d+ fail", r)
                        if o and int(o.group(1)) & 1:
                            out.append((0, "src%d REG-INLINE" % i)); reg[i] = "done"
                elif reg.get(i) == "done" and re.match(r"C\.acq \d+->\d+ ok", r):
                    out.append((0, "src%d UNREG" % i))
        return out

    def nontrivial(self, proj):
        return len(proj) > 8

    def post_check(self, prog, summary, proj):
        f = dict(kv.split("=", 1) for kv in summary.split(" ") if "=" in kv)
        if f.get("bad") != "0":
            return "model: an impossible action (double link / remove of an unlinked timer / null execute_) on an implementation trace: " + summary
        if f.get("alldone") != "1":
            return "model: not every timer has completed at the end of a complete implementation run: " + summary
        if f.get("heap") or f.get("lq") != "0" or f.get("pend") != "0" or f.get("rq") != "0":
            return "model: heap / queues not empty at the end: " + summary
        return None
