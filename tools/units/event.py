"""K1 units for the events of C16: v1::async_manual_reset_event vs model EventV1."""
import re
from k1 import Unit

class EventV1(Unit):
    """program = (sig0, 'inline'|'ctx', prog of thread 0, prog of thread 1, ...); a thread program is a
    string over S (set) R (reset) Y (ready) W<d> (start wait d)."""
    name = "event_v1/EventV1"; driver = "k1_event_v1"; cfg = "shim17"; handler = "eventv1"
    maxruns = {"quick": 2000, "thorough": 60000}
    nrandom = {"quick": 100, "thorough": 3000}
    def programs(self, tier):
        q = [
            ("0", "inline", "W0", "S"),
            ("0", "inline", "W0", "W1", "S"),
            ("0", "inline", "W0", "W1", "W2", "S"),
            ("0", "inline", "W0", "W1", "S", "S"),
            ("0", "inline", "W0", "W1", "SR"),
            ("0", "inline", "W0", "W1", "S", "R"),
            ("0", "inline", "W0Y", "SY", "R"),
            ("1", "inline", "W0", "R", "W1"),
            ("1", "inline", "W0W1", "RS"),
            ("0", "inline", "W0", "W1", "SRS"),
            ("0", "inline", "W0", "W1", "W2", "S", "R"),
            ("0", "inline", "W0", "W1", "W2", "S", "SR"),
            ("0", "ctx", "W0", "S"),
            ("0", "ctx", "W0", "W1", "SR"),
        ]
        if tier == "quick":
            return q
        return q + [
            ("0", "inline", "W0", "W1", "W2", "W3", "S"),
            ("0", "inline", "W0", "W1", "W2", "SRS", "R"),
            ("0", "inline", "W0W1", "W2W3", "S", "RS"),
            ("1", "inline", "W0", "W1", "R", "S", "Y"),
            ("0", "inline", "W0", "W1", "W2", "S", "S", "R"),
            ("1", "inline", "W0", "W1", "W2", "RSR", "Y"),
            ("0", "ctx", "W0", "W1", "W2", "S", "R"),
            ("1", "ctx", "W0", "W1", "RS"),
        ]
    def model_args(self, prog):
        return " ".join((prog[0],) + tuple(prog[2:]))
    def project(self, prog, events):
        out = []
        for e in events:
            m = re.match(r"t(\d+) (.*)$", e)
            t, rest = int(m.group(1)), m.group(2)
            if rest.startswith("evt.state "):
                out.append((t, rest))
            elif re.match(r"!w\d+ handoff$", rest) or rest.startswith("!ready="):
                out.append((t, rest[1:]))
        return out
    def post_check(self, prog, summary, proj):
        if "quiescent=1" not in summary:
            return "model not quiescent at the end of a complete implementation run: " + summary
        return None


# The wait operations of the auto-reset event sit deep inside the next-sender's operation state, so
# the driver cannot name their addresses; dsched prints them as #k.  The first occurrence of an
# operation's address is always the CAS that pushes it (old->#k), issued by the thread starting
# that wait: project() renames #k accordingly.

class AutoReset(Unit):
    """program = (ready0, prog of thread 0, ...); thread program over S (set) D (set_done) N<d> (next d).
    A thread containing N is a consumer (N only)."""
    name = "auto_reset/AutoReset"; driver = "k1_auto_reset"; cfg = "shim17"; handler = "autoreset"
    maxruns = {"quick": 2000, "thorough": 60000}
    nrandom = {"quick": 100, "thorough": 3000}
    multi = False
    def programs(self, tier):
        q = [
            ("0", "N0", "S"),
            ("0", "N0N1", "S", "S"),
            ("1", "N0N1", "S"),
            ("0", "N0", "D"),
            ("0", "N0N1", "S", "D"),
            ("0", "N0N1", "SD"),
            ("0", "N0N1N2", "SS", "S"),
            ("1", "N0", "D", "S"),
        ]
        if tier != "quick":
            q += [("0", "N0N1N2", "S", "S", "D"), ("1", "N0N1N2", "SS", "SD"), ("0", "N0N1", "SSD", "S")]
        return q
    def model_args(self, prog):
        return " ".join(p for p in prog if p != "allow-spurious")
    def project(self, prog, events):
        progs = [p for p in prog[1:] if p != "allow-spurious"]
        waits = [[int(x) for x in re.findall(r"N(\d)", p)] for p in progs]
        started = [0] * len(progs)          # number of waits begun per thread (by its loads)
        cur = [None] * len(progs)
        names = {}
        out = []
        for e in events:
            m = re.match(r"t(\d+) (.*)$", e)
            t, rest = int(m.group(1)), m.group(2)
            if rest.startswith("aare.evt "):
                if t < len(progs) and rest.startswith("aare.evt L."):
                    cur[t] = waits[t][started[t]]; started[t] += 1
                mm = re.search(r"->(#\d+) (ok|fail)$", rest)
                if mm and mm.group(1) not in names and t < len(progs) and cur[t] is not None:
                    names[mm.group(1)] = "w%d" % cur[t]
                rest = re.sub(r"#\d+", lambda k: names.get(k.group(0), k.group(0)), rest)
                out.append((t, rest))
            elif rest.startswith("aare.mutex "):
                out.append((t, rest))
            elif re.match(r"!w\d+ handoff$", rest):
                out.append((t, rest[1:]))
            else:
                mm = re.match(r"!(next \d+ (value|done)) here=\d$", rest)
                if mm:
                    out.append((t, mm.group(1)))
        return out
    def post_check(self, prog, summary, proj):
        # a consumer the driver abandoned must be suspended on an UNSET event in the model
        m = re.search(r"pcs=\[([^\]]*)\] state=(\w+) stk=\[([^\]]*)\]", summary)
        pcs, state, stk = m.group(1).split(","), m.group(2), [x for x in m.group(3).split(",") if x]
        for p in pcs:
            if p == "idle":
                continue
            mm = re.match(r"susp(\d+)$", p)
            if not mm:
                return "model thread neither finished nor suspended at the end of a complete run: " + summary
            if state != "UNSET" or mm.group(1) not in stk:
                return "model has a next suspended although the event is not unset / it is not on the stack: " + summary
        return None

class AutoResetMulti(AutoReset):
    """two or more concurrent consumers: the loser of a try_reset race completes done (see
    AutoReset spurious_done_refuted); the direct monitor reports it"""
    name = "auto_reset/AutoReset-multi"
    def programs(self, tier):
        q = [("0", "N0", "N1", "S"), ("0", "N0", "N1", "S", "S"), ("0", "N0", "N1", "S", "D")]
        if tier != "quick":
            q += [("0", "N0N2", "N1", "SS", "S"), ("1", "N0", "N1", "N2", "S")]
        return q


class EventV2Logic(Unit):
    """v2::async_manual_reset_event (latch list + cancellable wrapper), MONITOR ONLY (no Coq model yet):
    program = (sig0, thread programs over S R Y W<d> X<d>=request stop of wait d, K=kick, 'logic-only').
    Checks on every explored schedule of the real code: each wait completes at most once; value iff its
    push found the latch or a set() drained and popped it; done iff its stop callback unlinked it; nothing
    drained is lost; a started wait whose stop was requested completes; ready() answers the latch."""
    name = "event_v2/logic"; driver = "k1_event_v2"; cfg = "shim17"; handler = "eventv2_none"
    maxruns = {"quick": 1500, "thorough": 60000}
    nrandom = {"quick": 100, "thorough": 3000}
    def programs(self, tier):
        q = [("0", "W0", "S", "X0", "K", "logic-only"),
             ("0", "W0", "W1", "S", "X1", "K", "logic-only"),
             ("0", "W0", "SR", "X0", "K", "logic-only"),
             ("1", "W0", "W1", "R", "S", "X1", "logic-only"),
             ("0", "W0Y", "W1", "X0", "X1", "S", "logic-only")]
        if tier != "quick":
            q += [("0", "W0", "W1", "W2", "S", "X1", "R", "logic-only"), ("1", "W0", "X0", "R", "K", "logic-only"),
                  ("0", "W0", "W1", "S", "S", "X0", "X1", "logic-only")]
        return q
    def model_args(self, prog): return "-"
    def project(self, prog, events): return []
    def nontrivial(self, proj): return False

class EventV2Lifetime(EventV2Logic):
    """same driver with the lifetime check on: after a wait completed (its receiver may destroy the
    operation) nothing may touch its state word or list node.  Fails on the current tree in three ways
    (cancellable start() vs completion on another thread: fetch_or(started) / inline stop();
    atomic_intrusive_list try_lock_checking CAS on an unlinked node)."""
    name = "event_v2/lifetime"
    maxruns = {"quick": 2500, "thorough": 60000}
    nrandom = {"quick": 0, "thorough": 1000}
    def programs(self, tier):
        return [("0", "W0", "S", "KK"), ("0", "W0", "S", "X0", "K"), ("0", "W0", "W1", "S", "X1", "K")]


def lifetime_key(verdict):
    """violation key of a k1_event_v2 monitor verdict: the failing call site, not the program.
    'operation w1 touched after its completion: w1.rest C.rlx 0->NIL|1 fail' -> .../rest:C
    (state:O = cancellable start(): fetch_or(started) on a completed op; self:L = start()'s inline
    nested_op().stop() -> try_remove on a completed op; rest:C / rest:L = atomic_intrusive_list
    try_lock_checking on the link word of an unlinked, completed node).  Any other verdict gets a key of
    its own, so that a new kind of violation is still reported."""
    m = re.search(r"touched after its completion: w\d+\.(\w+) ([A-Z]+)\.", verdict)
    if m:
        return "event_v2/touched-after-completion/%s:%s" % (m.group(1), m.group(2))
    return "event_v2/lifetime-other/" + re.sub(r"\W+", "_", re.sub(r"w\d+", "wN", verdict)).strip("_")[:80]

def run_lifetime(chk, unit=None):
    """EventV2Lifetime with one violation key per failing call site (see lifetime_key) and one replay file per
    (program, key).  Deterministic: preemption-bounded DFS only, no random schedules."""
    import vlib
    unit = unit or EventV2Lifetime()
    exe, err = vlib.build_driver(unit.driver, unit.cfg)
    if err:
        pth = chk.replay_file("build_" + unit.driver, {"kind": "build-failure", "driver": unit.driver, "error": err})
        chk.violation("event_v2/lifetime/build", pth, no_input=True, text="driver %s does not compile against /repo" % unit.driver)
        return
    tier = chk.tier
    ust = chk.cov.setdefault("k1_units", {}).setdefault(
        unit.name, {"programs": 0, "schedules": 0, "distinct_impl_traces": 0, "failing_traces": 0, "keys": {}})
    def _run(prog):
        cmd = [exe] + list(prog) + ["--explore", str(unit.bound[tier]), str(unit.maxruns[tier])]
        if unit.nrandom[tier]:
            cmd += ["--random", str(chk.seed), str(unit.nrandom[tier])]
        return (prog, cmd) + tuple(vlib.sh2(cmd, timeout=1500))
    from concurrent.futures import ThreadPoolExecutor
    progs = list(unit.programs(tier))
    with ThreadPoolExecutor(vlib.NPROC) as ex:
        results = list(ex.map(_run, progs))
    for prog, cmd, rc, out, errt in results:
        ust["programs"] += 1
        ptag = "_".join(prog)
        seen = set()
        for l in out.split("\n"):
            if l.startswith("FATAL"):
                pth = chk.replay_file("event_v2_lifetime_fatal_" + ptag,
                                      {"kind": "deadlock-or-livelock", "unit": unit.name, "program": prog,
                                       "line": l[:20000], "replay": " ".join(cmd)})
                chk.violation("event_v2/lifetime/%s/deadlock" % ptag, pth, text=l[:300])
            if l.startswith("STATS"):
                m = re.search(r"runs=(\d+)", l)
                ust["schedules"] += int(m.group(1)); chk.cov["evaluations"] += int(m.group(1))
            if not l.startswith("TRACE "):
                continue
            head, verdict, tr = l.split(" | ", 2)
            ust["distinct_impl_traces"] += 1
            verdict = verdict.strip()
            if not verdict:
                continue
            ust["failing_traces"] += 1
            key = lifetime_key(verdict)
            ust["keys"][key] = ust["keys"].get(key, 0) + 1
            if key in seen:
                continue
            seen.add(key)
            dec = head.split(" ")[2]
            pth = chk.replay_file("event_v2_lifetime_%s_%s" % (ptag, key.rsplit("/", 1)[1]),
                                  {"kind": "monitor-failed-on-implementation", "unit": unit.name, "program": prog,
                                   "key": key, "decisions": dec, "verdict": verdict, "trace": tr.split(";"),
                                   "replay": "%s %s --replay %s" % (exe, " ".join(prog), dec)})
            chk.violation(key, pth, text="[%s] %s: %s" % (key, " ".join(prog), verdict[:200]))
        if rc not in (0, 3):
            pth = chk.replay_file("event_v2_lifetime_crash_" + ptag,
                                  {"kind": "driver-crash", "unit": unit.name, "program": prog, "rc": rc,
                                   "stderr": errt[-3000:], "replay": " ".join(cmd)})
            chk.violation("event_v2/lifetime/%s/crash" % ptag, pth, text="driver exited rc=%d" % rc)
