"""K1 units for the events of C16: v1::async_manual_reset_event vs model EventV1."""
import re
from k1 import Unit

class EventV1(Unit):
    """program = (sig0, 'inline'|'ctx', prog of thread 0, prog of thread 1, ...); a thread program is a
    string over S (set) R (reset) Y (ready) W<d> (start wait d)."""
    name = "event_v1/EventV1"; driver = "k1_event_v1"; cfg = "shim17"; handler = "eventv1"
    maxruns = {"quick": 3000, "thorough": 60000}
    nrandom = {"quick": 200, "thorough": 3000}
    def programs(self, tier):
        q = [
            ("0", "inline", "W0", "S"),
            ("0", "inline", "W0", "W1", "S"),
            ("0", "inline", "W0", "W1", "W2", "S"),
            ("0", "inline", "W0", "W1", "S", "S"),
            ("0", "inline", "W0", "W1", "SR"),
            ("0", "inline", "W0", "W1", "S", "R"),
            ("0", "inline", "W0Y", "SY", "R"),
            ("1", "inline", "W0", "R", "W1"),
            ("1", "inline", "W0W1", "RS"),
            ("0", "inline", "W0", "W1", "SRS"),
            ("0", "inline", "W0", "W1", "W2", "S", "R"),
            ("0", "inline", "W0", "W1", "W2", "S", "SR"),
            ("0", "ctx", "W0", "S"),
            ("0", "ctx", "W0", "W1", "SR"),
        ]
        if tier == "quick":
            return q
        return q + [
            ("0", "inline", "W0", "W1", "W2", "W3", "S"),
            ("0", "inline", "W0", "W1", "W2", "SRS", "R"),
            ("0", "inline", "W0W1", "W2W3", "S", "RS"),
            ("1", "inline", "W0", "W1", "R", "S", "Y"),
            ("0", "inline", "W0", "W1", "W2", "S", "S", "R"),
            ("1", "inline", "W0", "W1", "W2", "RSR", "Y"),
            ("0", "ctx", "W0", "W1", "W2", "S", "R"),
            ("1", "ctx", "W0", "W1", "RS"),
        ]
    def model_args(self, prog):
        return " ".join((prog[0],) + tuple(prog[2:]))
    def project(self, prog, events):
        out = []
        for e in events:
            m = re.match(r"t(\d+) (.*)$", e)
            t, rest = int(m.group(1)), m.group(2)
            if rest.startswith("evt.state "):
                out.append((t, rest))
            elif re.match(r"!w\d+ handoff$", rest) or rest.startswith("!ready="):
                out.append((t, rest[1:]))
        return out
    def post_check(self, prog, summary, proj):
        if "quiescent=1" not in summary:
            return "model not quiescent at the end of a complete implementation run: " + summary
        return None
